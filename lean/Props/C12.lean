import TlsProofs.CbcGen
import TlsModel.Gen.CT
/-
  C12 — the CBC MAC-and-padding check accepts exactly the well-formed records.

  `cbcCheck` mirrors `ct_check_cbc_mac_and_pad` (tlslite/utils/constanttime.py) statement by
  statement; `wellFormed` is the plain specification.  The MAC is an arbitrary function
  `digest` of the accumulated input with a fixed output length (what an incremental
  HMAC object is); nothing else is assumed about it.

  Second half of the file: `Tls.CT.Gen.*` (TlsModel/Gen/CT.lean) is regenerated on every run from
  the Python AST of the tree under check by translate/gen_ct.py, over the Python-runtime model
  TlsModel/PyInt.lean.  The theorems `gen_*` prove, for all inputs, that what the source says now
  computes the hand-written model (`Gen.ct_lt_u32 a b = some (ctLtU32 a b)` …,
  `Gen.ct_check_cbc_mac_and_pad … = some (cbcCheck …)`), so every theorem about the hand model
  above is a theorem about the regenerated source text; `gen_cbcCheck_eq_wellFormed` spells the
  main one out.  An edit of the arithmetic in constanttime.py changes the generated module and
  breaks the corresponding `gen_*` obligation.
-/
set_option linter.unusedSimpArgs false
namespace Tls.CT

/-- Full characterisation, for every body, MAC, sequence number, content type, version
    and block size: the constant-time check computes exactly the specification. -/
theorem cbcCheck_eq_wellFormed (m : MacAlg) (data seq : Bytes) (ct : UInt8) (vmaj vmin bs : Nat)
    (hd : ∀ x, (m.digest x).length = m.dlen) (_hb : 0 < m.blockSize)
    (hL : data.length < 2^31) (hdl : m.dlen < 2^31) (hbs : bs < 2^32) :
    cbcCheck m data seq ct vmaj vmin bs = wellFormed m data seq ct vmaj vmin bs := by
  unfold cbcCheck wellFormed
  by_cases h0 : m.dlen + 1 > data.length
  · -- publicly too short: both false
    simp only [h0, if_true]
    by_cases hz : data.length = 0
    · simp [hz]
    · have : data.length < byteAt data (data.length - 1) + 1 + m.dlen := by omega
      simp [hz, this]
  · have hz : data.length ≠ 0 := by omega
    simp only [h0, if_false, hz]
    generalize hp : byteAt data (data.length - 1) = p
    have hp256 : p < 256 := by rw [← hp]; exact byteAt_lt _ _
    by_cases hfit : data.length < p + 1 + m.dlen
    · -- padding + MAC do not fit: the r0 term is non-zero
      simp only [hfit, if_true]
      have : ctLsbPropU8 (ctLtU32 data.length (p + 1 + m.dlen)) = 255 := by
        rw [ctLsbPropU8_spec, ctLtU32_spec]
        have h1 : data.length % 2^32 = data.length := Nat.mod_eq_of_lt (by omega)
        have h2 : (p + 1 + m.dlen) % 2^32 = p + 1 + m.dlen := Nat.mod_eq_of_lt (by omega)
        simp [h1, h2, hfit]
      rw [this]
      apply Bool.eq_false_iff.mpr
      intro hc
      have hc2 := (beq_iff_eq.mp hc)
      have := (Nat.or_eq_zero_iff.mp hc2).1
      have := (Nat.or_eq_zero_iff.mp this).1
      omega
    · simp only [hfit, if_false]
      have hr0 : ctLsbPropU8 (ctLtU32 data.length (p + 1 + m.dlen)) = 0 := by
        rw [ctLsbPropU8_spec, ctLtU32_spec]
        have h1 : data.length % 2^32 = data.length := Nat.mod_eq_of_lt (by omega)
        have h2 : (p + 1 + m.dlen) % 2^32 = p + 1 + m.dlen := Nat.mod_eq_of_lt (by omega)
        simp [h1, h2, hfit]
      rw [hr0]
      -- name the positions
      have hps : data.length - p - 1 = data.length - (p + 1) := by omega
      have hms : data.length - p - 1 - m.dlen = data.length - (p + 1 + m.dlen) := by omega
      rw [hms]
      generalize hn : data.length - (p + 1 + m.dlen) = n
      generalize hsp : (data.length - (256 + m.dlen)) / m.blockSize * m.blockSize = sp
      have hspn : sp ≤ n := by
        have := Nat.div_mul_le_self (data.length - (256 + m.dlen)) m.blockSize
        omega
      have hnend : n < data.length - m.dlen := by omega
      -- MAC part
      have hmac : (orFold (List.range' sp (data.length - m.dlen - sp)) fun i =>
            orFold (List.range m.dlen) fun j =>
              (byteAt data (i + j) ^^^
                byteAt (m.digest (macHeader seq ct vmaj vmin n ++ data.take sp ++ (data.drop sp).take (i - sp))) j)
              &&& ctLsbPropU8 (ctEqU32 i n)) = 0 ↔
          (data.drop n).take m.dlen = m.digest (macHeader seq ct vmaj vmin n ++ data.take n) := by
        rw [orFold_eq_zero]
        constructor
        · intro h
          have hmem : n ∈ List.range' sp (data.length - m.dlen - sp) := by
            rw [List.mem_range'_1]; omega
          have h1 := h n hmem
          rw [orFold_eq_zero] at h1
          rw [List.append_assoc, take_split data sp n hspn] at h1
          apply (window_eq_iff data _ n m.dlen (hd _) (by omega)).mp
          intro j hj
          have h2 := h1 j (List.mem_range.mpr hj)
          have hmask : ctLsbPropU8 (ctEqU32 n n) = 255 := by
            rw [ctLsbPropU8_spec, ctEqU32_spec]; simp
          rw [hmask] at h2
          exact (xor_and_255 (byteAt_lt _ _) (byteAt_lt _ _)).mp h2
        · intro h i hi
          rw [orFold_eq_zero]
          intro j hj
          rw [List.mem_range'_1] at hi
          by_cases hin : i = n
          · subst hin
            have hmask : ctLsbPropU8 (ctEqU32 i i) = 255 := by
              rw [ctLsbPropU8_spec, ctEqU32_spec]; simp
            rw [hmask, List.append_assoc, take_split data sp i hspn]
            apply (xor_and_255 (byteAt_lt _ _) (byteAt_lt _ _)).mpr
            exact (window_eq_iff data _ i m.dlen (hd _) (by omega)).mpr h j (List.mem_range.mp hj)
          · have hmask : ctLsbPropU8 (ctEqU32 i n) = 0 := by
              rw [ctLsbPropU8_spec, ctEqU32_spec]
              have h1 : i % 2^32 = i := Nat.mod_eq_of_lt (by omega)
              have h2 : n % 2^32 = n := Nat.mod_eq_of_lt (by omega)
              simp [h1, h2, hin]
            rw [hmask]; simp
      by_cases hssl : isSsl3 vmaj vmin = true
      · -- SSLv3: only the length of the padding can be checked
        simp only [hssl, if_true]
        have hpad : ctLsbPropU8 (ctLtU32 bs p) = 0 ↔ p ≤ bs := by
          rw [ctLsbPropU8_spec, ctLtU32_spec]
          have h1 : bs % 2^32 = bs := Nat.mod_eq_of_lt hbs
          have h2 : p % 2^32 = p := Nat.mod_eq_of_lt (by omega)
          rw [h1, h2]
          by_cases hlt : bs < p
          · simp [hlt]
          · simp [hlt]; omega
        rw [Bool.eq_iff_iff]
        simp only [beq_iff_eq, Nat.or_eq_zero_iff, Bool.and_eq_true, decide_eq_true_eq, true_and]
        rw [hpad, hmac]
      · simp only [hssl]
        have hpad : (orFold (List.range' (data.length - 256) (data.length - (data.length - 256))) fun i =>
              (byteAt data i ^^^ p) &&& ctLsbPropU8 (ctLeU32 (data.length - p - 1) i)) = 0 ↔
            ((data.drop (data.length - (p + 1))).all fun b => b.toNat == p) = true := by
          rw [orFold_eq_zero, all_drop_iff, hps]
          constructor
          · intro h i hk hi
            have hmem : i ∈ List.range' (data.length - 256) (data.length - (data.length - 256)) := by
              rw [List.mem_range'_1]; omega
            have h1 := h i hmem
            rw [ctLsbPropU8_spec, ctLeU32_spec] at h1
            have e1 : (data.length - (p + 1)) % 2^32 = data.length - (p + 1) := Nat.mod_eq_of_lt (by omega)
            have e2 : i % 2^32 = i := Nat.mod_eq_of_lt (by omega)
            rw [e1, e2] at h1
            simp only [hk, if_true] at h1
            exact (xor_and_255 (byteAt_lt _ _) hp256).mp (by simpa using h1)
          · intro h i hi
            rw [List.mem_range'_1] at hi
            rw [ctLsbPropU8_spec, ctLeU32_spec]
            have e1 : (data.length - (p + 1)) % 2^32 = data.length - (p + 1) := Nat.mod_eq_of_lt (by omega)
            have e2 : i % 2^32 = i := Nat.mod_eq_of_lt (by omega)
            rw [e1, e2]
            by_cases hk : data.length - (p + 1) ≤ i
            · simp only [hk, if_true]
              have := h i hk (by omega)
              rw [this]; simp
            · simp [hk]
        rw [Bool.eq_iff_iff]
        simp only [beq_iff_eq, Nat.or_eq_zero_iff, Bool.and_eq_true, true_and, Bool.false_eq_true, if_false]
        rw [hpad, hmac]

/-- what the sender builds, split into its three parts -/
theorem macThenPad_eq (m : MacAlg) (frag seq : Bytes) (ct : UInt8) (vmaj vmin bs : Nat) :
    macThenPad m frag seq ct vmaj vmin bs =
      frag ++ (m.digest (macHeader seq ct vmaj vmin frag.length ++ frag) ++
        List.replicate (bs - 1 - ((frag.length + (m.digest (macHeader seq ct vmaj vmin frag.length ++ frag)).length) % bs) + 1)
          (UInt8.ofNat (bs - 1 - ((frag.length + (m.digest (macHeader seq ct vmaj vmin frag.length ++ frag)).length) % bs)))) := by
  unfold macThenPad addPadding
  simp [List.append_assoc]

/-- Sender side: every body `_macThenEncrypt` produces (MAC, then `addPadding`) is well formed,
    for every fragment, block size 1..256 and version; so no conforming record is rejected. -/
theorem wellFormed_macThenPad (m : MacAlg) (frag seq : Bytes) (ct : UInt8) (vmaj vmin bs : Nat)
    (hd : ∀ x, (m.digest x).length = m.dlen) (hbs : 0 < bs) (hbs2 : bs ≤ 256) :
    wellFormed m (macThenPad m frag seq ct vmaj vmin bs) seq ct vmaj vmin bs = true := by
  rw [macThenPad_eq]
  generalize htag : m.digest (macHeader seq ct vmaj vmin frag.length ++ frag) = tag
  have htl : tag.length = m.dlen := by rw [← htag]; exact hd _
  rw [htl]
  generalize hp : bs - 1 - ((frag.length + m.dlen) % bs) = p
  have hp256 : p < 256 := by omega
  have hpb : p ≤ bs := by omega
  have hpv : (UInt8.ofNat p).toNat = p := by
    simp [Nat.mod_eq_of_lt hp256]
  unfold wellFormed
  have hlen : (frag ++ (tag ++ List.replicate (p + 1) (UInt8.ofNat p))).length = frag.length + m.dlen + p + 1 := by
    simp [htl]; omega
  rw [hlen]
  have hz : frag.length + m.dlen + p + 1 ≠ 0 := by omega
  simp only [hz, if_false]
  have hlast : byteAt (frag ++ (tag ++ List.replicate (p + 1) (UInt8.ofNat p))) (frag.length + m.dlen + p + 1 - 1) = p := by
    unfold byteAt
    rw [List.getD_eq_getElem?_getD]
    have e : frag.length + m.dlen + p + 1 - 1 = frag.length + (tag.length + p) := by omega
    rw [e, List.getElem?_append_right (by omega)]
    have e2 : frag.length + (tag.length + p) - frag.length = tag.length + p := by omega
    rw [e2, List.getElem?_append_right (by omega)]
    simp [hpv]
  rw [hlast]
  have hfit : ¬ (frag.length + m.dlen + p + 1 < p + 1 + m.dlen) := by omega
  simp only [hfit, if_false]
  have hn : frag.length + m.dlen + p + 1 - (p + 1 + m.dlen) = frag.length := by omega
  rw [hn]
  have hmacpart : (List.drop frag.length (frag ++ (tag ++ List.replicate (p + 1) (UInt8.ofNat p)))).take m.dlen = tag := by
    rw [List.drop_left, ← htl, List.take_left]
  have htake : (frag ++ (tag ++ List.replicate (p + 1) (UInt8.ofNat p))).take frag.length = frag := List.take_left
  rw [hmacpart, htake, htag]
  have hpadpart : List.drop (frag.length + m.dlen + p + 1 - (p + 1)) (frag ++ (tag ++ List.replicate (p + 1) (UInt8.ofNat p)))
      = List.replicate (p + 1) (UInt8.ofNat p) := by
    have e : frag.length + m.dlen + p + 1 - (p + 1) = frag.length + tag.length := by omega
    rw [e, ← List.append_assoc, ← List.length_append, List.drop_left]
  rw [hpadpart]
  simp only [beq_self_eq_true, Bool.and_true]
  by_cases hssl : isSsl3 vmaj vmin = true
  · simp [hssl, hpb]
  · simp only [hssl, Bool.false_eq_true, if_false]
    rw [List.all_eq_true]
    intro x hx
    rw [List.eq_of_mem_replicate hx]
    simp [hpv]

/-- Corollary: the receiver's check accepts everything a conforming sender produces. -/
theorem cbcCheck_macThenPad (m : MacAlg) (frag seq : Bytes) (ct : UInt8) (vmaj vmin bs : Nat)
    (hd : ∀ x, (m.digest x).length = m.dlen) (hb : 0 < m.blockSize)
    (hbs : 0 < bs) (hbs2 : bs ≤ 256) (hdl : m.dlen < 2^29) (hfl : frag.length < 2^29) :
    cbcCheck m (macThenPad m frag seq ct vmaj vmin bs) seq ct vmaj vmin bs = true := by
  rw [cbcCheck_eq_wellFormed m _ seq ct vmaj vmin bs hd hb ?_ (by omega) (by omega)]
  · exact wellFormed_macThenPad m frag seq ct vmaj vmin bs hd hbs hbs2
  · rw [macThenPad_eq]
    simp [hd]
    omega

/-- ... and what the caller strips after a successful check is exactly the fragment. -/
theorem stripPadMac_macThenPad (m : MacAlg) (frag seq : Bytes) (ct : UInt8) (vmaj vmin bs : Nat)
    (hd : ∀ x, (m.digest x).length = m.dlen) (hbs : 0 < bs) (hbs2 : bs ≤ 256) :
    stripPadMac m (macThenPad m frag seq ct vmaj vmin bs) = frag := by
  rw [macThenPad_eq]
  generalize htag : m.digest (macHeader seq ct vmaj vmin frag.length ++ frag) = tag
  have htl : tag.length = m.dlen := by rw [← htag]; exact hd _
  rw [htl]
  generalize hp : bs - 1 - ((frag.length + m.dlen) % bs) = p
  have hp256 : p < 256 := by omega
  have hpv : (UInt8.ofNat p).toNat = p := by
    simp [Nat.mod_eq_of_lt hp256]
  unfold stripPadMac
  have hlen : (frag ++ (tag ++ List.replicate (p + 1) (UInt8.ofNat p))).length = frag.length + m.dlen + p + 1 := by
    simp [htl]; omega
  rw [hlen]
  have hlast : byteAt (frag ++ (tag ++ List.replicate (p + 1) (UInt8.ofNat p))) (frag.length + m.dlen + p + 1 - 1) = p := by
    unfold byteAt
    rw [List.getD_eq_getElem?_getD]
    have e : frag.length + m.dlen + p + 1 - 1 = frag.length + (tag.length + p) := by omega
    rw [e, List.getElem?_append_right (by omega)]
    have e2 : frag.length + (tag.length + p) - frag.length = tag.length + p := by omega
    rw [e2, List.getElem?_append_right (by omega)]
    simp [hpv]
  rw [hlast]
  have hn : frag.length + m.dlen + p + 1 - (p + 1 + m.dlen) = frag.length := by omega
  rw [hn]
  exact List.take_left

/-- Soundness read off the characterisation: an accepted TLS body *is* fragment ++ MAC ++ padding
    with the MAC computed over that fragment under this sequence number, type and version. -/
theorem cbcCheck_accept_decomp (m : MacAlg) (data seq : Bytes) (ct : UInt8) (vmaj vmin bs : Nat)
    (hd : ∀ x, (m.digest x).length = m.dlen) (hb : 0 < m.blockSize)
    (hL : data.length < 2^31) (hdl : m.dlen < 2^31) (hbs : bs < 2^32)
    (hacc : cbcCheck m data seq ct vmaj vmin bs = true) :
    data = stripPadMac m data
        ++ m.digest (macHeader seq ct vmaj vmin (stripPadMac m data).length ++ stripPadMac m data)
        ++ data.drop (data.length - (byteAt data (data.length - 1) + 1)) ∧
    (stripPadMac m data).length + m.dlen + (byteAt data (data.length - 1) + 1) = data.length := by
  rw [cbcCheck_eq_wellFormed m data seq ct vmaj vmin bs hd hb hL hdl hbs] at hacc
  unfold wellFormed at hacc
  by_cases hz : data.length = 0
  · simp [hz] at hacc
  · simp only [hz, if_false] at hacc
    generalize hp : byteAt data (data.length - 1) = p at hacc ⊢
    by_cases hfit : data.length < p + 1 + m.dlen
    · simp [hfit] at hacc
    · simp only [hfit, if_false, Bool.and_eq_true, beq_iff_eq] at hacc
      obtain ⟨_, hmac⟩ := hacc
      unfold stripPadMac
      rw [hp]
      generalize hn : data.length - (p + 1 + m.dlen) = n at hmac ⊢
      have hnl : (data.take n).length = n := by simp; omega
      rw [hnl, ← hmac]
      constructor
      · have e : data.length - (p + 1) = n + m.dlen := by omega
        rw [e]
        have h1 : (data.drop n).take m.dlen ++ data.drop (n + m.dlen) = data.drop n := by
          rw [← List.drop_drop, List.take_append_drop]
        rw [List.append_assoc, h1, List.take_append_drop]
      · omega

/-- The function as it stood before the `fix:` commit accepted bodies outside the specification
    (MAC region overlapping the padding, `mac_start` clamped to 0): a concrete witness. -/
theorem cbcCheckOld_accepts_malformed :
    ∃ (m : MacAlg) (data seq : Bytes) (ct : UInt8),
      (∀ x, (m.digest x).length = m.dlen) ∧ 0 < m.blockSize ∧
      cbcCheckOld m data seq ct 3 3 16 = true ∧ wellFormed m data seq ct 3 3 16 = false :=
  ⟨⟨2, 64, fun _ => [1, 1]⟩, [1, 1, 1], [], 23, by intro _; rfl, by decide, by decide, by decide⟩

/-- non-vacuity: a concrete MAC and record meet the hypotheses of the characterisation and
    are accepted -/
example : cbcCheck ⟨2, 64, fun x => [UInt8.ofNat x.length, 7]⟩
    (macThenPad ⟨2, 64, fun x => [UInt8.ofNat x.length, 7]⟩ [10, 20, 30] [0, 0, 0, 0, 0, 0, 0, 1] 23 3 3 16)
    [0, 0, 0, 0, 0, 0, 0, 1] 23 3 3 16 = true := by decide


/-! ## The regenerated source (Tls.CT.Gen) computes the hand-written model -/
open Tls.Py

/-- `ct_lt_u32` as the source has it now, on every pair of naturals (the function masks its
    arguments to 32 bits itself, so no range hypothesis is needed) -/
theorem gen_ct_lt_u32_eq (a b : Nat) : Gen.ct_lt_u32 a b = some (ctLtU32 a b : Int) := by
  simp only [Gen.ct_lt_u32, bind, pure, band_mask32_nat, band_sub_bv, bxor_bv, bor_bv, shr_bv, ctLtU32]

example : Gen.ct_lt_u32 3 5 = some 1 ∧ Gen.ct_lt_u32 5 3 = some 0 ∧ Gen.ct_lt_u32 4294967296 1 = some 1 := by decide

theorem gen_ct_gt_u32_eq (a b : Nat) : Gen.ct_gt_u32 a b = some (ctGtU32 a b : Int) := by
  simp only [Gen.ct_gt_u32, gen_ct_lt_u32_eq, bind, pure, bind_some', ctGtU32]

example : Gen.ct_gt_u32 5 3 = some 1 ∧ Gen.ct_gt_u32 3 3 = some 0 := by decide

theorem gen_ct_le_u32_eq (a b : Nat) : Gen.ct_le_u32 a b = some (ctLeU32 a b : Int) := by
  simp only [Gen.ct_le_u32, gen_ct_gt_u32_eq, bind, pure, bind_some', bxor_one_nat, ctLeU32]

example : Gen.ct_le_u32 5 5 = some 1 ∧ Gen.ct_le_u32 6 5 = some 0 := by decide

theorem gen_ct_lsb_prop_u8_eq (v : Nat) : Gen.ct_lsb_prop_u8 v = some (ctLsbPropU8 v : Int) := by
  simp only [Gen.ct_lsb_prop_u8, bind, pure, band_nat_one, shl_nat, bor_nat, ctLsbPropU8]

example : Gen.ct_lsb_prop_u8 1 = some 255 ∧ Gen.ct_lsb_prop_u8 2 = some 0 := by decide

theorem gen_ct_lsb_prop_u16_eq (v : Nat) : Gen.ct_lsb_prop_u16 v = some (ctLsbPropU16 v : Int) := by
  simp only [Gen.ct_lsb_prop_u16, bind, pure, band_nat_one, shl_nat, bor_nat, ctLsbPropU16]

example : Gen.ct_lsb_prop_u16 3 = some 65535 := by decide

theorem gen_ct_isnonzero_u32_eq (v : Nat) : Gen.ct_isnonzero_u32 v = some (ctIsNonZeroU32 v : Int) := by
  simp only [Gen.ct_isnonzero_u32, bind, pure, band_mask32_nat, band_neg_bv, bor_bv, shr_bv, ctIsNonZeroU32]

example : Gen.ct_isnonzero_u32 0 = some 0 ∧ Gen.ct_isnonzero_u32 4294967296 = some 0 ∧ Gen.ct_isnonzero_u32 9 = some 1 := by decide

theorem gen_ct_neq_u32_eq (a b : Nat) : Gen.ct_neq_u32 a b = some (ctNeqU32 a b : Int) := by
  simp only [Gen.ct_neq_u32, bind, pure, band_mask32_nat, band_sub_bv, bor_bv, shr_bv, ctNeqU32]

example : Gen.ct_neq_u32 7 8 = some 1 ∧ Gen.ct_neq_u32 7 7 = some 0 := by decide

theorem gen_ct_eq_u32_eq (a b : Nat) : Gen.ct_eq_u32 a b = some (ctEqU32 a b : Int) := by
  simp only [Gen.ct_eq_u32, gen_ct_neq_u32_eq, bind, pure, bind_some', bxor_one_nat, ctEqU32]

example : Gen.ct_eq_u32 7 7 = some 1 ∧ Gen.ct_eq_u32 7 8 = some 0 := by decide

/-- The same for every Python int, negative ones included: the masking functions see their
    arguments mod 2^32 (Python's `x & 0xffffffff`). -/
theorem gen_ct_lt_u32_int (a b : Int) :
    Gen.ct_lt_u32 a b = some (ctLtU32 (a % 4294967296).toNat (b % 4294967296).toNat : Int) := by
  simp only [Gen.ct_lt_u32, pure, band_mask32_int a, band_mask32_int b, band_sub_bv, bxor_bv, bor_bv, shr_bv,
    ctLtU32, ofNat_emod32]

example : Gen.ct_lt_u32 (-1) 5 = some 0 ∧ Gen.ct_lt_u32 5 (-1) = some 1 := by decide

theorem gen_ct_neq_u32_int (a b : Int) :
    Gen.ct_neq_u32 a b = some (ctNeqU32 (a % 4294967296).toNat (b % 4294967296).toNat : Int) := by
  simp only [Gen.ct_neq_u32, pure, band_mask32_int a, band_mask32_int b, band_sub_bv, bor_bv, shr_bv,
    ctNeqU32, ofNat_emod32]

example : Gen.ct_neq_u32 (-1) 4294967295 = some 0 ∧ Gen.ct_neq_u32 (-1) 0 = some 1 := by decide

theorem gen_ct_isnonzero_u32_int (a : Int) :
    Gen.ct_isnonzero_u32 a = some (ctIsNonZeroU32 (a % 4294967296).toNat : Int) := by
  simp only [Gen.ct_isnonzero_u32, pure, band_mask32_int a, band_neg_bv, bor_bv, shr_bv, ctIsNonZeroU32,
    ofNat_emod32]

example : Gen.ct_isnonzero_u32 (-4294967296) = some 0 ∧ Gen.ct_isnonzero_u32 (-1) = some 1 := by decide

/-- What the docstrings promise, read off the source as it is now: the comparison of the arguments
    (mod 2^32) as 0/1, the propagated low bit.  (Model-level counterparts: `ctLtU32_spec` … in
    TlsProofs/CT.lean.) -/
theorem gen_ct_lt_u32_spec (a b : Nat) :
    Gen.ct_lt_u32 a b = some (if a % 2^32 < b % 2^32 then 1 else 0) := by
  rw [gen_ct_lt_u32_eq, ctLtU32_spec]; split <;> rfl

theorem gen_ct_gt_u32_spec (a b : Nat) :
    Gen.ct_gt_u32 a b = some (if a % 2^32 > b % 2^32 then 1 else 0) := by
  rw [gen_ct_gt_u32_eq, ctGtU32_spec]; split <;> rfl

theorem gen_ct_le_u32_spec (a b : Nat) :
    Gen.ct_le_u32 a b = some (if a % 2^32 ≤ b % 2^32 then 1 else 0) := by
  rw [gen_ct_le_u32_eq, ctLeU32_spec]; split <;> rfl

theorem gen_ct_eq_u32_spec (a b : Nat) :
    Gen.ct_eq_u32 a b = some (if a % 2^32 = b % 2^32 then 1 else 0) := by
  rw [gen_ct_eq_u32_eq, ctEqU32_spec]; split <;> rfl

theorem gen_ct_neq_u32_spec (a b : Nat) :
    Gen.ct_neq_u32 a b = some (if a % 2^32 = b % 2^32 then 0 else 1) := by
  rw [gen_ct_neq_u32_eq, ctNeqU32_spec]; split <;> rfl

theorem gen_ct_isnonzero_u32_spec (v : Nat) :
    Gen.ct_isnonzero_u32 v = some (if v % 2^32 = 0 then 0 else 1) := by
  rw [gen_ct_isnonzero_u32_eq, ctIsNonZeroU32_spec]; split <;> rfl

theorem gen_ct_lsb_prop_u8_spec (v : Nat) :
    Gen.ct_lsb_prop_u8 v = some (if v % 2 = 1 then 255 else 0) := by
  rw [gen_ct_lsb_prop_u8_eq, ctLsbPropU8_spec]; split <;> rfl

theorem gen_ct_lsb_prop_u16_spec (v : Nat) :
    Gen.ct_lsb_prop_u16 v = some (if v % 2 = 1 then 65535 else 0) := by
  rw [gen_ct_lsb_prop_u16_eq, ctLsbPropU16_spec]; split <;> rfl

/-- `ct_check_cbc_mac_and_pad` as the source has it now (both loops, the hmac copy/update/digest
    calls, `max(0, …)`, `//`, the slices, `bytearray([…])`) returns exactly what the hand-written
    `cbcCheck` returns, for every body, MAC algorithm, sequence number, content type, block size
    and each of the four versions the function's `assert` admits.  `mac` is an hmac object that
    has absorbed nothing yet (what the record layer passes).
    Hypotheses: `hv` is the function's own `assert`; `hd` (digest() returns digest_size bytes)
    keeps `mac_compare[j]` in range, `hb` excludes ZeroDivisionError in `// mac.block_size`;
    `hL`: for `mac_start ≥ 65536` the source raises ValueError in `bytearray([mac_start >> 8])`
    (the hand model truncates instead) — TLS record bodies are below 2^14 + 2048 bytes. -/
theorem gen_ct_check_cbc_mac_and_pad_eq (m : MacAlg) (data seq : Bytes) (ct : UInt8) (vmaj vmin bs : Nat)
    (hd : ∀ x, (m.digest x).length = m.dlen) (hb : 0 < m.blockSize)
    (hv : (vmaj, vmin) ∈ [(3, 0), (3, 1), (3, 2), (3, 3)])
    (hL : data.length < 2^16) :
    Gen.ct_check_cbc_mac_and_pad data ⟨m, []⟩ seq (ct.toNat : Int) ((vmaj : Int), (vmin : Int)) (bs : Int)
      = some (cbcCheck m data seq ct vmaj vmin bs) := by
  obtain ⟨hguard, hs1, hs2, hvmaj, hvmin⟩ := ver_facts vmaj vmin hv
  unfold Gen.ct_check_cbc_mac_and_pad cbcCheck
  simp only [bind, pure]
  simp only [macDigestSize_mk, macBlockSize_mk, len_eq, hguard, bind_some', hs1, hs2]
  by_cases h0 : m.dlen + 1 > data.length
  · -- publicly too short
    have : ((m.dlen : Int) + 1 > (data.length : Int)) := by omega
    simp only [h0, this, decide_true, if_true]
  · have h0' : ¬ ((m.dlen : Int) + 1 > (data.length : Int)) := by omega
    simp only [h0, h0', decide_false, if_false, Bool.false_eq_true]
    generalize hp : byteAt data (data.length - 1) = p
    have hp256 : p < 256 := by rw [← hp]; exact byteAt_lt _ _
    have hgi : getItem data ((data.length : Int) - 1) = some (p : Int) := by
      have e : ((data.length : Int) - 1) = ((data.length - 1 : Nat) : Int) := by omega
      rw [e, getItem_nat data _ (by omega), hp]
    -- `max(0, a - b)` on Python ints is truncated subtraction; the positions are naturals
    have e1 : ((p : Int) + 1 + (m.dlen : Int)) = ((p + 1 + m.dlen : Nat) : Int) := by omega
    have e2 : (((data.length : Int) - (p : Int) - 1)).toNat = data.length - p - 1 := by omega
    have e3 : (((data.length - p - 1 : Nat) : Int) - (m.dlen : Int)).toNat = data.length - p - 1 - m.dlen := by omega
    have e4 : ((data.length : Int) - (256 + (m.dlen : Int))).toNat = data.length - (256 + m.dlen) := by omega
    have e5 : ((data.length : Int) - 256).toNat = data.length - 256 := by omega
    have e6 : ((data.length : Int) - (m.dlen : Int)) = ((data.length - m.dlen : Nat) : Int) := by omega
    have b1 : bytearrayOfInts [(ct.toNat : Int)] = some [ct] := by
      rw [bytearrayOfInts_one _ ct.toNat_lt]; simp
    simp only [hgi, bind_some', e1, gen_ct_lt_u32_eq, gen_ct_lsb_prop_u8_eq, max2_zero, e2, e3, e4, e5, e6,
      floordiv_nat _ _ hb, ← Int.natCast_mul, bor_zero_nat, bor_nat, b1, bytearrayOfInts_one _ hvmaj,
      bytearrayOfInts_one _ hvmin, bytearrayOfInts_shr8 _ (show data.length - p - 1 - m.dlen < 65536 by omega),
      bytearrayOfInts_and255, macCopy_eq, macUpdate_mk, slice_to]
    generalize hr0 : ctLsbPropU8 (ctLtU32 data.length (p + 1 + m.dlen)) = r0
    generalize hms : data.length - p - 1 - m.dlen = ms
    generalize hsp : (data.length - (256 + m.dlen)) / m.blockSize * m.blockSize = sp
    have hspL : sp ≤ data.length := by
      have := Nat.div_mul_le_self (data.length - (256 + m.dlen)) m.blockSize
      omega
    -- padding part: SSLv3 length test, or the loop over the last ≤ 256 bytes
    refine bind_eq_of
      (if isSsl3 vmaj vmin = true then
        ((ctLsbPropU8 (ctLtU32 bs p) : Int), ((r0 ||| ctLsbPropU8 (ctLtU32 bs p) : Nat) : Int))
       else List.foldl (fun st k => padStep data p (data.length - p - 1) k st) ((r0 : Int), (r0 : Int))
          (List.range' (data.length - 256) (data.length - (data.length - 256)))) ?_ ?_
    · cases hs : isSsl3 vmaj vmin
      · simp only [Bool.false_eq_true, if_false]
        rw [forIn_range (data.length - 256) data.length _ _ (padStep data p (data.length - p - 1)), bind_some']
        intro k st _ hk2
        simp only [gen_ct_le_u32_eq, gen_ct_lsb_prop_u8_eq, bind_some', getItem_nat data k hk2, bxor_nat, band_nat]
        rfl
      · simp only [if_true]
    -- only the result component of the padding state is used below
    generalize hS0 : (if isSsl3 vmaj vmin = true then
        ((ctLsbPropU8 (ctLtU32 bs p) : Int), ((r0 ||| ctLsbPropU8 (ctLtU32 bs p) : Nat) : Int))
       else List.foldl (fun st k => padStep data p (data.length - p - 1) k st) ((r0 : Int), (r0 : Int))
          (List.range' (data.length - 256) (data.length - (data.length - 256)))) = S0
    have hS2 : S0.2 = ((r0 ||| (if isSsl3 vmaj vmin = true then ctLsbPropU8 (ctLtU32 bs p)
            else orFold (List.range' (data.length - 256) (data.length - (data.length - 256))) fun i =>
                (byteAt data i ^^^ p) &&& ctLsbPropU8 (ctLeU32 (data.length - p - 1) i)) : Nat) : Int) := by
      rw [← hS0]
      cases isSsl3 vmaj vmin
      · simp only [Bool.false_eq_true, if_false]
        have := foldl_padStep data p (data.length - p - 1)
          (List.range' (data.length - 256) (data.length - (data.length - 256))) (r0 : Int) r0
        rw [this]
      · simp only [if_true]
    generalize (if isSsl3 vmaj vmin = true then ctLsbPropU8 (ctLtU32 bs p)
            else orFold (List.range' (data.length - 256) (data.length - (data.length - 256))) fun i =>
                (byteAt data i ^^^ p) &&& ctLsbPropU8 (ctLeU32 (data.length - p - 1) i)) = r1 at hS2 ⊢
    -- MAC part: what data_mac has absorbed is the model's header
    refine bind_eq_of (⟨m, seq ++ [ct] ++ (if isSsl3 vmaj vmin = true then []
        else [UInt8.ofNat vmaj] ++ [UInt8.ofNat vmin])⟩ : MacObj) ?_ ?_
    · cases isSsl3 vmaj vmin <;> simp
    simp only [macUpdate_mk, macDigest_mk, header_eq]
    -- the loop over the candidate MAC positions and its inner comparison loop
    rw [hS2]
    rw [forIn_range sp (data.length - m.dlen) _ _
      (macStep m data (macHeader seq ct vmaj vmin ms ++ List.take sp data) ms sp)]
    rw [bind_some']
    rw [foldl_macStep]
    · refine congrArg some ?_
      rw [Bool.eq_iff_iff]
      simp only [decide_eq_true_eq, beq_iff_eq, Int.natCast_eq_zero]
    · intro k st hk1 hk2
      simp only [gen_ct_eq_u32_eq, gen_ct_lsb_prop_u8_eq, bind_some']
      rw [slice_from_to data sp k hspL (by omega),
        forIn_range0 m.dlen _ _ (fun j (r : Int) => Py.bor r
          (((byteAt data (k + j) ^^^ byteAt (m.digest (macHeader seq ct vmaj vmin ms ++ List.take sp data
              ++ (data.drop sp).take (k - sp))) j) &&& ctLsbPropU8 (ctEqU32 k ms) : Nat) : Int)), bind_some']
      · rfl
      · intro j r hj
        rw [← Int.natCast_add, getItem_nat data (k + j) (by omega), bind_some',
          getItem_nat _ j (by rw [hd]; exact hj), bind_some', bxor_nat, band_nat]

/-- non-vacuity: the regenerated function evaluated on a concrete record (accept) and on the same
    record under SSLv3 framing (reject) -/
example : Gen.ct_check_cbc_mac_and_pad
    (macThenPad ⟨2, 64, fun x => [UInt8.ofNat x.length, 7]⟩ [10, 20, 30] [0, 0, 0, 0, 0, 0, 0, 1] 23 3 3 16)
    ⟨⟨2, 64, fun x => [UInt8.ofNat x.length, 7]⟩, []⟩ [0, 0, 0, 0, 0, 0, 0, 1] 23 (3, 3) 16 = some true := by decide

/-- The characterisation, stated about the regenerated source text: for every record body below
    2^16 bytes, `ct_check_cbc_mac_and_pad` as it stands in the tree under check returns (no
    exception) exactly the plain specification. -/
theorem gen_cbcCheck_eq_wellFormed (m : MacAlg) (data seq : Bytes) (ct : UInt8) (vmaj vmin bs : Nat)
    (hd : ∀ x, (m.digest x).length = m.dlen) (hb : 0 < m.blockSize)
    (hv : (vmaj, vmin) ∈ [(3, 0), (3, 1), (3, 2), (3, 3)])
    (hL : data.length < 2^16) (hdl : m.dlen < 2^31) (hbs : bs < 2^32) :
    Gen.ct_check_cbc_mac_and_pad data ⟨m, []⟩ seq (ct.toNat : Int) ((vmaj : Int), (vmin : Int)) (bs : Int)
      = some (wellFormed m data seq ct vmaj vmin bs) := by
  rw [gen_ct_check_cbc_mac_and_pad_eq m data seq ct vmaj vmin bs hd hb hv hL,
    cbcCheck_eq_wellFormed m data seq ct vmaj vmin bs hd hb (by omega) hdl hbs]

/-- … and so the regenerated source accepts everything a conforming sender produces. -/
theorem gen_accepts_macThenPad (m : MacAlg) (frag seq : Bytes) (ct : UInt8) (vmaj vmin bs : Nat)
    (hd : ∀ x, (m.digest x).length = m.dlen) (hb : 0 < m.blockSize)
    (hv : (vmaj, vmin) ∈ [(3, 0), (3, 1), (3, 2), (3, 3)])
    (hbs : 0 < bs) (hbs2 : bs ≤ 256) (hdl : m.dlen < 2^14) (hfl : frag.length < 2^15) :
    Gen.ct_check_cbc_mac_and_pad (macThenPad m frag seq ct vmaj vmin bs) ⟨m, []⟩ seq (ct.toNat : Int)
      ((vmaj : Int), (vmin : Int)) (bs : Int) = some true := by
  rw [gen_ct_check_cbc_mac_and_pad_eq m _ seq ct vmaj vmin bs hd hb hv ?_,
    cbcCheck_macThenPad m frag seq ct vmaj vmin bs hd hb hbs hbs2 (by omega) (by omega)]
  rw [macThenPad_eq]
  simp [hd]
  omega

/-- the translator understood every statement of the nine functions (no poison was emitted) -/
theorem gen_translation_complete :
    Gen.translatorProblems = [] ∧ Gen.translated.all (fun x => x.2) = true ∧ Gen.translated.length = 9 := by
  decide

end Tls.CT
