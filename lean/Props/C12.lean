import TlsProofs.CbcCheck
/-
  C12 — the CBC MAC-and-padding check accepts exactly the well-formed records.

  `cbcCheck` mirrors `ct_check_cbc_mac_and_pad` (tlslite/utils/constanttime.py) statement by
  statement; `wellFormed` is the plain specification.  The MAC is an arbitrary function
  `digest` of the accumulated input with a fixed output length (what an incremental
  HMAC object is); nothing else is assumed about it.
-/
namespace Tls.CT

/-- Full characterisation, for every body, MAC, sequence number, content type, version
    and block size: the constant-time check computes exactly the specification. -/
theorem cbcCheck_eq_wellFormed (m : MacAlg) (data seq : Bytes) (ct : UInt8) (vmaj vmin bs : Nat)
    (hd : ∀ x, (m.digest x).length = m.dlen) (_hb : 0 < m.blockSize)
    (hL : data.length < 2^31) (hdl : m.dlen < 2^31) (hbs : bs < 2^32) :
    cbcCheck m data seq ct vmaj vmin bs = wellFormed m data seq ct vmaj vmin bs := by
  unfold cbcCheck wellFormed
  by_cases h0 : m.dlen + 1 > data.length
  · -- publicly too short: both false
    simp only [h0, if_true]
    by_cases hz : data.length = 0
    · simp [hz]
    · have : data.length < byteAt data (data.length - 1) + 1 + m.dlen := by omega
      simp [hz, this]
  · have hz : data.length ≠ 0 := by omega
    simp only [h0, if_false, hz]
    generalize hp : byteAt data (data.length - 1) = p
    have hp256 : p < 256 := by rw [← hp]; exact byteAt_lt _ _
    by_cases hfit : data.length < p + 1 + m.dlen
    · -- padding + MAC do not fit: the r0 term is non-zero
      simp only [hfit, if_true]
      have : ctLsbPropU8 (ctLtU32 data.length (p + 1 + m.dlen)) = 255 := by
        rw [ctLsbPropU8_spec, ctLtU32_spec]
        have h1 : data.length % 2^32 = data.length := Nat.mod_eq_of_lt (by omega)
        have h2 : (p + 1 + m.dlen) % 2^32 = p + 1 + m.dlen := Nat.mod_eq_of_lt (by omega)
        simp [h1, h2, hfit]
      rw [this]
      apply Bool.eq_false_iff.mpr
      intro hc
      have hc2 := (beq_iff_eq.mp hc)
      have := (Nat.or_eq_zero_iff.mp hc2).1
      have := (Nat.or_eq_zero_iff.mp this).1
      omega
    · simp only [hfit, if_false]
      have hr0 : ctLsbPropU8 (ctLtU32 data.length (p + 1 + m.dlen)) = 0 := by
        rw [ctLsbPropU8_spec, ctLtU32_spec]
        have h1 : data.length % 2^32 = data.length := Nat.mod_eq_of_lt (by omega)
        have h2 : (p + 1 + m.dlen) % 2^32 = p + 1 + m.dlen := Nat.mod_eq_of_lt (by omega)
        simp [h1, h2, hfit]
      rw [hr0]
      -- name the positions
      have hps : data.length - p - 1 = data.length - (p + 1) := by omega
      have hms : data.length - p - 1 - m.dlen = data.length - (p + 1 + m.dlen) := by omega
      rw [hms]
      generalize hn : data.length - (p + 1 + m.dlen) = n
      generalize hsp : (data.length - (256 + m.dlen)) / m.blockSize * m.blockSize = sp
      have hspn : sp ≤ n := by
        have := Nat.div_mul_le_self (data.length - (256 + m.dlen)) m.blockSize
        omega
      have hnend : n < data.length - m.dlen := by omega
      -- MAC part
      have hmac : (orFold (List.range' sp (data.length - m.dlen - sp)) fun i =>
            orFold (List.range m.dlen) fun j =>
              (byteAt data (i + j) ^^^
                byteAt (m.digest (macHeader seq ct vmaj vmin n ++ data.take sp ++ (data.drop sp).take (i - sp))) j)
              &&& ctLsbPropU8 (ctEqU32 i n)) = 0 ↔
          (data.drop n).take m.dlen = m.digest (macHeader seq ct vmaj vmin n ++ data.take n) := by
        rw [orFold_eq_zero]
        constructor
        · intro h
          have hmem : n ∈ List.range' sp (data.length - m.dlen - sp) := by
            rw [List.mem_range'_1]; omega
          have h1 := h n hmem
          rw [orFold_eq_zero] at h1
          rw [List.append_assoc, take_split data sp n hspn] at h1
          apply (window_eq_iff data _ n m.dlen (hd _) (by omega)).mp
          intro j hj
          have h2 := h1 j (List.mem_range.mpr hj)
          have hmask : ctLsbPropU8 (ctEqU32 n n) = 255 := by
            rw [ctLsbPropU8_spec, ctEqU32_spec]; simp
          rw [hmask] at h2
          exact (xor_and_255 (byteAt_lt _ _) (byteAt_lt _ _)).mp h2
        · intro h i hi
          rw [orFold_eq_zero]
          intro j hj
          rw [List.mem_range'_1] at hi
          by_cases hin : i = n
          · subst hin
            have hmask : ctLsbPropU8 (ctEqU32 i i) = 255 := by
              rw [ctLsbPropU8_spec, ctEqU32_spec]; simp
            rw [hmask, List.append_assoc, take_split data sp i hspn]
            apply (xor_and_255 (byteAt_lt _ _) (byteAt_lt _ _)).mpr
            exact (window_eq_iff data _ i m.dlen (hd _) (by omega)).mpr h j (List.mem_range.mp hj)
          · have hmask : ctLsbPropU8 (ctEqU32 i n) = 0 := by
              rw [ctLsbPropU8_spec, ctEqU32_spec]
              have h1 : i % 2^32 = i := Nat.mod_eq_of_lt (by omega)
              have h2 : n % 2^32 = n := Nat.mod_eq_of_lt (by omega)
              simp [h1, h2, hin]
            rw [hmask]; simp
      by_cases hssl : isSsl3 vmaj vmin = true
      · -- SSLv3: only the length of the padding can be checked
        simp only [hssl, if_true]
        have hpad : ctLsbPropU8 (ctLtU32 bs p) = 0 ↔ p ≤ bs := by
          rw [ctLsbPropU8_spec, ctLtU32_spec]
          have h1 : bs % 2^32 = bs := Nat.mod_eq_of_lt hbs
          have h2 : p % 2^32 = p := Nat.mod_eq_of_lt (by omega)
          rw [h1, h2]
          by_cases hlt : bs < p
          · simp [hlt]
          · simp [hlt]; omega
        rw [Bool.eq_iff_iff]
        simp only [beq_iff_eq, Nat.or_eq_zero_iff, Bool.and_eq_true, decide_eq_true_eq, true_and]
        rw [hpad, hmac]
      · simp only [hssl]
        have hpad : (orFold (List.range' (data.length - 256) (data.length - (data.length - 256))) fun i =>
              (byteAt data i ^^^ p) &&& ctLsbPropU8 (ctLeU32 (data.length - p - 1) i)) = 0 ↔
            ((data.drop (data.length - (p + 1))).all fun b => b.toNat == p) = true := by
          rw [orFold_eq_zero, all_drop_iff, hps]
          constructor
          · intro h i hk hi
            have hmem : i ∈ List.range' (data.length - 256) (data.length - (data.length - 256)) := by
              rw [List.mem_range'_1]; omega
            have h1 := h i hmem
            rw [ctLsbPropU8_spec, ctLeU32_spec] at h1
            have e1 : (data.length - (p + 1)) % 2^32 = data.length - (p + 1) := Nat.mod_eq_of_lt (by omega)
            have e2 : i % 2^32 = i := Nat.mod_eq_of_lt (by omega)
            rw [e1, e2] at h1
            simp only [hk, if_true] at h1
            exact (xor_and_255 (byteAt_lt _ _) hp256).mp (by simpa using h1)
          · intro h i hi
            rw [List.mem_range'_1] at hi
            rw [ctLsbPropU8_spec, ctLeU32_spec]
            have e1 : (data.length - (p + 1)) % 2^32 = data.length - (p + 1) := Nat.mod_eq_of_lt (by omega)
            have e2 : i % 2^32 = i := Nat.mod_eq_of_lt (by omega)
            rw [e1, e2]
            by_cases hk : data.length - (p + 1) ≤ i
            · simp only [hk, if_true]
              have := h i hk (by omega)
              rw [this]; simp
            · simp [hk]
        rw [Bool.eq_iff_iff]
        simp only [beq_iff_eq, Nat.or_eq_zero_iff, Bool.and_eq_true, true_and, Bool.false_eq_true, if_false]
        rw [hpad, hmac]

/-- what the sender builds, split into its three parts -/
theorem macThenPad_eq (m : MacAlg) (frag seq : Bytes) (ct : UInt8) (vmaj vmin bs : Nat) :
    macThenPad m frag seq ct vmaj vmin bs =
      frag ++ (m.digest (macHeader seq ct vmaj vmin frag.length ++ frag) ++
        List.replicate (bs - 1 - ((frag.length + (m.digest (macHeader seq ct vmaj vmin frag.length ++ frag)).length) % bs) + 1)
          (UInt8.ofNat (bs - 1 - ((frag.length + (m.digest (macHeader seq ct vmaj vmin frag.length ++ frag)).length) % bs)))) := by
  unfold macThenPad addPadding
  simp [List.append_assoc]

/-- Sender side: every body `_macThenEncrypt` produces (MAC, then `addPadding`) is well formed,
    for every fragment, block size 1..256 and version; so no conforming record is rejected. -/
theorem wellFormed_macThenPad (m : MacAlg) (frag seq : Bytes) (ct : UInt8) (vmaj vmin bs : Nat)
    (hd : ∀ x, (m.digest x).length = m.dlen) (hbs : 0 < bs) (hbs2 : bs ≤ 256) :
    wellFormed m (macThenPad m frag seq ct vmaj vmin bs) seq ct vmaj vmin bs = true := by
  rw [macThenPad_eq]
  generalize htag : m.digest (macHeader seq ct vmaj vmin frag.length ++ frag) = tag
  have htl : tag.length = m.dlen := by rw [← htag]; exact hd _
  rw [htl]
  generalize hp : bs - 1 - ((frag.length + m.dlen) % bs) = p
  have hp256 : p < 256 := by omega
  have hpb : p ≤ bs := by omega
  have hpv : (UInt8.ofNat p).toNat = p := by
    simp [Nat.mod_eq_of_lt hp256]
  unfold wellFormed
  have hlen : (frag ++ (tag ++ List.replicate (p + 1) (UInt8.ofNat p))).length = frag.length + m.dlen + p + 1 := by
    simp [htl]; omega
  rw [hlen]
  have hz : frag.length + m.dlen + p + 1 ≠ 0 := by omega
  simp only [hz, if_false]
  have hlast : byteAt (frag ++ (tag ++ List.replicate (p + 1) (UInt8.ofNat p))) (frag.length + m.dlen + p + 1 - 1) = p := by
    unfold byteAt
    rw [List.getD_eq_getElem?_getD]
    have e : frag.length + m.dlen + p + 1 - 1 = frag.length + (tag.length + p) := by omega
    rw [e, List.getElem?_append_right (by omega)]
    have e2 : frag.length + (tag.length + p) - frag.length = tag.length + p := by omega
    rw [e2, List.getElem?_append_right (by omega)]
    simp [hpv]
  rw [hlast]
  have hfit : ¬ (frag.length + m.dlen + p + 1 < p + 1 + m.dlen) := by omega
  simp only [hfit, if_false]
  have hn : frag.length + m.dlen + p + 1 - (p + 1 + m.dlen) = frag.length := by omega
  rw [hn]
  have hmacpart : (List.drop frag.length (frag ++ (tag ++ List.replicate (p + 1) (UInt8.ofNat p)))).take m.dlen = tag := by
    rw [List.drop_left, ← htl, List.take_left]
  have htake : (frag ++ (tag ++ List.replicate (p + 1) (UInt8.ofNat p))).take frag.length = frag := List.take_left
  rw [hmacpart, htake, htag]
  have hpadpart : List.drop (frag.length + m.dlen + p + 1 - (p + 1)) (frag ++ (tag ++ List.replicate (p + 1) (UInt8.ofNat p)))
      = List.replicate (p + 1) (UInt8.ofNat p) := by
    have e : frag.length + m.dlen + p + 1 - (p + 1) = frag.length + tag.length := by omega
    rw [e, ← List.append_assoc, ← List.length_append, List.drop_left]
  rw [hpadpart]
  simp only [beq_self_eq_true, Bool.and_true]
  by_cases hssl : isSsl3 vmaj vmin = true
  · simp [hssl, hpb]
  · simp only [hssl, Bool.false_eq_true, if_false]
    rw [List.all_eq_true]
    intro x hx
    rw [List.eq_of_mem_replicate hx]
    simp [hpv]

/-- Corollary: the receiver's check accepts everything a conforming sender produces. -/
theorem cbcCheck_macThenPad (m : MacAlg) (frag seq : Bytes) (ct : UInt8) (vmaj vmin bs : Nat)
    (hd : ∀ x, (m.digest x).length = m.dlen) (hb : 0 < m.blockSize)
    (hbs : 0 < bs) (hbs2 : bs ≤ 256) (hdl : m.dlen < 2^29) (hfl : frag.length < 2^29) :
    cbcCheck m (macThenPad m frag seq ct vmaj vmin bs) seq ct vmaj vmin bs = true := by
  rw [cbcCheck_eq_wellFormed m _ seq ct vmaj vmin bs hd hb ?_ (by omega) (by omega)]
  · exact wellFormed_macThenPad m frag seq ct vmaj vmin bs hd hbs hbs2
  · rw [macThenPad_eq]
    simp [hd]
    omega

/-- ... and what the caller strips after a successful check is exactly the fragment. -/
theorem stripPadMac_macThenPad (m : MacAlg) (frag seq : Bytes) (ct : UInt8) (vmaj vmin bs : Nat)
    (hd : ∀ x, (m.digest x).length = m.dlen) (hbs : 0 < bs) (hbs2 : bs ≤ 256) :
    stripPadMac m (macThenPad m frag seq ct vmaj vmin bs) = frag := by
  rw [macThenPad_eq]
  generalize htag : m.digest (macHeader seq ct vmaj vmin frag.length ++ frag) = tag
  have htl : tag.length = m.dlen := by rw [← htag]; exact hd _
  rw [htl]
  generalize hp : bs - 1 - ((frag.length + m.dlen) % bs) = p
  have hp256 : p < 256 := by omega
  have hpv : (UInt8.ofNat p).toNat = p := by
    simp [Nat.mod_eq_of_lt hp256]
  unfold stripPadMac
  have hlen : (frag ++ (tag ++ List.replicate (p + 1) (UInt8.ofNat p))).length = frag.length + m.dlen + p + 1 := by
    simp [htl]; omega
  rw [hlen]
  have hlast : byteAt (frag ++ (tag ++ List.replicate (p + 1) (UInt8.ofNat p))) (frag.length + m.dlen + p + 1 - 1) = p := by
    unfold byteAt
    rw [List.getD_eq_getElem?_getD]
    have e : frag.length + m.dlen + p + 1 - 1 = frag.length + (tag.length + p) := by omega
    rw [e, List.getElem?_append_right (by omega)]
    have e2 : frag.length + (tag.length + p) - frag.length = tag.length + p := by omega
    rw [e2, List.getElem?_append_right (by omega)]
    simp [hpv]
  rw [hlast]
  have hn : frag.length + m.dlen + p + 1 - (p + 1 + m.dlen) = frag.length := by omega
  rw [hn]
  exact List.take_left

/-- Soundness read off the characterisation: an accepted TLS body *is* fragment ++ MAC ++ padding
    with the MAC computed over that fragment under this sequence number, type and version. -/
theorem cbcCheck_accept_decomp (m : MacAlg) (data seq : Bytes) (ct : UInt8) (vmaj vmin bs : Nat)
    (hd : ∀ x, (m.digest x).length = m.dlen) (hb : 0 < m.blockSize)
    (hL : data.length < 2^31) (hdl : m.dlen < 2^31) (hbs : bs < 2^32)
    (hacc : cbcCheck m data seq ct vmaj vmin bs = true) :
    data = stripPadMac m data
        ++ m.digest (macHeader seq ct vmaj vmin (stripPadMac m data).length ++ stripPadMac m data)
        ++ data.drop (data.length - (byteAt data (data.length - 1) + 1)) ∧
    (stripPadMac m data).length + m.dlen + (byteAt data (data.length - 1) + 1) = data.length := by
  rw [cbcCheck_eq_wellFormed m data seq ct vmaj vmin bs hd hb hL hdl hbs] at hacc
  unfold wellFormed at hacc
  by_cases hz : data.length = 0
  · simp [hz] at hacc
  · simp only [hz, if_false] at hacc
    generalize hp : byteAt data (data.length - 1) = p at hacc ⊢
    by_cases hfit : data.length < p + 1 + m.dlen
    · simp [hfit] at hacc
    · simp only [hfit, if_false, Bool.and_eq_true, beq_iff_eq] at hacc
      obtain ⟨_, hmac⟩ := hacc
      unfold stripPadMac
      rw [hp]
      generalize hn : data.length - (p + 1 + m.dlen) = n at hmac ⊢
      have hnl : (data.take n).length = n := by simp; omega
      rw [hnl, ← hmac]
      constructor
      · have e : data.length - (p + 1) = n + m.dlen := by omega
        rw [e]
        have h1 : (data.drop n).take m.dlen ++ data.drop (n + m.dlen) = data.drop n := by
          rw [← List.drop_drop, List.take_append_drop]
        rw [List.append_assoc, h1, List.take_append_drop]
      · omega

/-- The function as it stood before the `fix:` commit accepted bodies outside the specification
    (MAC region overlapping the padding, `mac_start` clamped to 0): a concrete witness. -/
theorem cbcCheckOld_accepts_malformed :
    ∃ (m : MacAlg) (data seq : Bytes) (ct : UInt8),
      (∀ x, (m.digest x).length = m.dlen) ∧ 0 < m.blockSize ∧
      cbcCheckOld m data seq ct 3 3 16 = true ∧ wellFormed m data seq ct 3 3 16 = false :=
  ⟨⟨2, 64, fun _ => [1, 1]⟩, [1, 1, 1], [], 23, by intro _; rfl, by decide, by decide, by decide⟩

/-- non-vacuity: a concrete MAC and record meet the hypotheses of the characterisation and
    are accepted -/
example : cbcCheck ⟨2, 64, fun x => [UInt8.ofNat x.length, 7]⟩
    (macThenPad ⟨2, 64, fun x => [UInt8.ofNat x.length, 7]⟩ [10, 20, 30] [0, 0, 0, 0, 0, 0, 0, 1] 23 3 3 16)
    [0, 0, 0, 0, 0, 0, 0, 1] 23 3 3 16 = true := by decide

end Tls.CT
