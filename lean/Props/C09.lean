import TlsProofs.Crypto.ChaChaPoly
import TlsProofs.Crypto.ModesTop
import TlsProofs.Crypto.CalcKey
import TlsProofs.Crypto.GcmTop
import TlsProofs.Crypto.CcmTop
import TlsProofs.Crypto.AesTables
import TlsProofs.Crypto.AesEnc
import TlsProofs.Crypto.AesFull
import TlsProofs.Crypto.AesDecFull
import TlsProofs.Crypto.AesInverse
/-
  C09 — symmetric primitives and key derivation compute the standardised functions.

  For every primitive: `Model` is the transliteration of the Python in /repo (Python-int
  arithmetic, the code's masks, loops and carried state, exceptions as `Except Err`), `Spec`
  is written from the standard, and the theorem is `model = spec` for every input of every
  length.  Hypotheses are the guards the code itself establishes (key / nonce lengths) or the
  named regions where the code leaves the standard's domain (block counter above 2^32, …).
-/
namespace Tls.Crypto.C09
open Tls Tls.Crypto

/-! ## ChaCha20 (tlslite/utils/chacha.py vs RFC 8439 §2.1–2.4) -/

/-- the Python-int quarter round (masks, shifts, ors) is the 32-bit quarter round of §2.1 -/
theorem chacha20_quarter_round_eq_spec (a b c d : BitVec 32) :
    ChaCha.Model.qrArith a.toNat b.toNat c.toNat d.toNat =
      ((ChaCha.Spec.quarterRound a b c d).1.toNat, (ChaCha.Spec.quarterRound a b c d).2.1.toNat,
       (ChaCha.Spec.quarterRound a b c d).2.2.1.toNat, (ChaCha.Spec.quarterRound a b c d).2.2.2.toNat) :=
  ChaCha.qrArith_spec a b c d

example : ChaCha.Spec.quarterRound 0x11111111#32 0x01020304#32 0x9b8d6f43#32 0x01234567#32 =
    (0xea2a92f4#32, 0xcb1cf8ce#32, 0x4581472e#32, 0x5881c4bb#32) := by decide  -- RFC 8439 §2.1.1

/-- `ChaCha.double_round` on a list of 16 words is inner_block of §2.3.1 (never raises) -/
theorem chacha20_double_round_eq_spec (s : ChaCha.Spec.State) :
    ChaCha.Model.doubleRound (ChaCha.toNats s) = .ok (ChaCha.toNats (ChaCha.Spec.innerBlock s)) :=
  ChaCha.doubleRound_spec s

/-- `ChaCha(key, nonce, counter).encrypt(pt)` is chacha20_encrypt of §2.4 for every key, nonce,
    starting counter and plaintext of every length, provided the block counter stays a 32-bit
    word.  Excluded region: counter + ceil(len/64) > 2^32 (the Python neither wraps nor raises
    there; unreachable for TLS records, 2^32 blocks = 256 GiB). -/
theorem chacha20_encrypt_eq_spec (key nonce pt : Bytes) (counter : Nat) (hk : key.length = 32)
    (hn : nonce.length = 12) (hc : counter + divceil pt.length 64 ≤ 2^32) :
    (ChaCha.Model.init key nonce counter 20 >>= fun s => ChaCha.Model.encrypt s pt) =
      .ok (ChaCha.Spec.encrypt key counter nonce pt) :=
  ChaChaPoly.chacha_encrypt_spec key nonce pt counter hk hn hc

example : (ChaCha.Model.init (zeros 32) (zeros 12) 7 20 >>= fun s => ChaCha.Model.encrypt s [1, 2, 3]) =
    .ok (ChaCha.Spec.encrypt (zeros 32) 7 (zeros 12) [1, 2, 3]) :=
  chacha20_encrypt_eq_spec _ _ _ _ (by decide) (by decide) (by decide)

/-- the constructor's guards: any other key or nonce length raises ValueError -/
theorem chacha20_init_guards (key nonce : Bytes) (counter rounds : Nat)
    (h : key.length ≠ 32 ∨ nonce.length ≠ 12) :
    ∃ e, ChaCha.Model.init key nonce counter rounds = .error e := by
  unfold ChaCha.Model.init
  by_cases hk : key.length ≠ 32
  · exact ⟨_, by rw [if_pos hk]⟩
  · have hn : nonce.length ≠ 12 := by cases h <;> simp_all
    exact ⟨_, by rw [if_neg hk, if_pos hn]⟩

/-- decrypt ∘ encrypt = id (ChaCha20 is its own inverse, every length) -/
theorem chacha20_decrypt_encrypt (key nonce pt : Bytes) (counter : Nat) :
    ChaCha.Spec.encrypt key counter nonce (ChaCha.Spec.encrypt key counter nonce pt) = pt :=
  ChaChaPoly.encrypt_encrypt key nonce pt counter

/-- the ciphertext has the length of the plaintext -/
theorem chacha20_encrypt_length (key nonce pt : Bytes) (counter : Nat) :
    (ChaCha.Spec.encrypt key counter nonce pt).length = pt.length :=
  ChaChaPoly.encrypt_length key nonce pt counter

/-! ## Poly1305 (tlslite/utils/poly1305.py vs RFC 8439 §2.5) -/

/-- `Poly1305(key).create_tag(msg)`: the accumulate-multiply-reduce loop over 16-byte slices with
    the appended 0x01 byte, the numeric clamp mask and the final truncation compute
    ((Σ c_j r^(q-j+1) mod 2^130-5) + s) mod 2^128 with the byte-wise clamp of §2.5, for every key
    and every message length (incl. empty and partial last block). -/
theorem poly1305_tag_eq_spec (key msg : Bytes) (hk : key.length = 32) :
    ∃ st, Poly1305.Model.init key = .ok st ∧
      (Poly1305.Model.createTag st msg).2 = Poly1305.Spec.mac key msg :=
  Poly1305.createTag_spec key msg hk

example : ∃ st, Poly1305.Model.init (zeros 32) = .ok st ∧
    (Poly1305.Model.createTag st [1, 2, 3]).2 = Poly1305.Spec.mac (zeros 32) [1, 2, 3] :=
  poly1305_tag_eq_spec _ _ (by decide)

/-- the numeric clamp mask is the byte-wise clamp of the RFC text -/
theorem poly1305_clamp_eq_spec (kb : Bytes) (h : kb.length = 16) :
    leNum (Poly1305.Spec.clampBytes kb) = leNum kb &&& 0x0ffffffc0ffffffc0ffffffc0fffffff :=
  Poly1305.clamp_eq kb h

/-! ## ChaCha20-Poly1305 AEAD (tlslite/utils/chacha20_poly1305.py vs RFC 8439 §2.6, §2.8) -/

/-- `seal` = chacha20_aead_encrypt for every key, nonce, AAD and plaintext (one-time key from
    block 0, pad16, the two 8-byte little-endian lengths, ciphertext ‖ tag). -/
theorem chachapoly_seal_eq_spec (key nonce pt aad : Bytes) (hk : key.length = 32)
    (hn : nonce.length = 12) (ha : aad.length < 2^64) (hc : 1 + divceil pt.length 64 ≤ 2^32) :
    ChaChaPoly.Model.aseal key nonce pt aad = .ok (ChaChaPoly.Spec.aseal key nonce pt aad) :=
  ChaChaPoly.aseal_spec key nonce pt aad hk hn ha hc

example : ChaChaPoly.Model.aseal (zeros 32) (zeros 12) [1, 2] [3] =
    .ok (ChaChaPoly.Spec.aseal (zeros 32) (zeros 12) [1, 2] [3]) :=
  chachapoly_seal_eq_spec _ _ _ _ (by decide) (by decide) (by decide) (by decide)

/-- `open` = §2.8 decryption for every key, nonce, AAD and input of every length -/
theorem chachapoly_open_eq_spec (key nonce c aad : Bytes) (hk : key.length = 32)
    (hn : nonce.length = 12) (ha : aad.length < 2^64) (hc : 1 + divceil (c.length - 16) 64 ≤ 2^32) :
    ChaChaPoly.Model.aopen key nonce c aad = .ok (ChaChaPoly.Spec.aopen key nonce c aad) :=
  ChaChaPoly.aopen_spec key nonce c aad hk hn ha hc

/-- open ∘ seal returns the sealed plaintext (model level: the code's seal output through the
    code's open) -/
theorem chachapoly_open_seal (key nonce pt aad : Bytes) (hk : key.length = 32)
    (hn : nonce.length = 12) (ha : aad.length < 2^64) (hc : 1 + divceil pt.length 64 ≤ 2^32) :
    (ChaChaPoly.Model.aseal key nonce pt aad >>= fun c => ChaChaPoly.Model.aopen key nonce c aad) =
      .ok (some pt) := by
  rw [chachapoly_seal_eq_spec key nonce pt aad hk hn ha hc]
  have hl : (ChaChaPoly.Spec.aseal key nonce pt aad).length - 16 = pt.length := by
    simp [ChaChaPoly.Spec.aseal, ChaChaPoly.encrypt_length, ChaChaPoly.Spec.tag, Poly1305.Spec.mac,
      ChaChaPoly.spec_aopen_aseal.length_leBytes]
  show ChaChaPoly.Model.aopen key nonce _ aad = _
  rw [chachapoly_open_eq_spec key nonce _ aad hk hn ha (by rw [hl]; exact hc),
    ChaChaPoly.spec_aopen_aseal]

example : (ChaChaPoly.Model.aseal (zeros 32) (zeros 12) [1, 2] [3] >>=
    fun c => ChaChaPoly.Model.aopen (zeros 32) (zeros 12) c [3]) = .ok (some [1, 2]) :=
  chachapoly_open_seal _ _ _ _ (by decide) (by decide) (by decide) (by decide)

/-- `open` returns a plaintext exactly when the last 16 bytes equal the tag recomputed over the
    rest with this key, nonce and AAD, and then it is the decryption of the rest; every other
    ciphertext / nonce / AAD combination yields `None`.  (That no *other* 16 bytes verify is
    Poly1305's forgery bound, not provable.) -/
theorem chachapoly_open_some_iff (key nonce c aad p : Bytes) (hk : key.length = 32)
    (hn : nonce.length = 12) (ha : aad.length < 2^64) (hc : 1 + divceil (c.length - 16) 64 ≤ 2^32) :
    ChaChaPoly.Model.aopen key nonce c aad = .ok (some p) ↔
      16 ≤ c.length ∧
      c.drop (c.length - 16) = ChaChaPoly.Spec.tag key nonce aad (c.take (c.length - 16)) ∧
      p = ChaCha.Spec.encrypt key 1 nonce (c.take (c.length - 16)) := by
  rw [chachapoly_open_eq_spec key nonce c aad hk hn ha hc, ChaChaPoly.Spec.aopen]
  by_cases hs : c.length < 16
  · simp [hs]; intro h; omega
  · by_cases ht : c.drop (c.length - 16) = ChaChaPoly.Spec.tag key nonce aad (c.take (c.length - 16))
    · simp [hs, ht]; constructor
      · intro h; exact ⟨by omega, h.symm⟩
      · intro h; exact h.2.symm
    · simp [hs, ht]

/-- a rejected input yields `None`, never an exception and never data -/
theorem chachapoly_open_reject (key nonce c aad : Bytes) (hk : key.length = 32)
    (hn : nonce.length = 12) (ha : aad.length < 2^64) (hc : 1 + divceil (c.length - 16) 64 ≤ 2^32)
    (hbad : c.length < 16 ∨
      c.drop (c.length - 16) ≠ ChaChaPoly.Spec.tag key nonce aad (c.take (c.length - 16))) :
    ChaChaPoly.Model.aopen key nonce c aad = .ok none := by
  rw [chachapoly_open_eq_spec key nonce c aad hk hn ha hc, ChaChaPoly.Spec.aopen]
  cases hbad with
  | inl h => simp [h]
  | inr h => by_cases hs : c.length < 16 <;> simp [hs, h]

/-! ## CBC with the chaining value carried between calls
   (Python_AES in tlslite/utils/python_aes.py, Python_TripleDES in python_tripledes.py, vs SP 800-38A §6.2)
   The block cipher is a parameter: any `E`, `D` on 16-byte (8-byte) blocks with `D (E b) = b`. -/
open Modes

/-- `Python_AES.encrypt` is CBC encryption and leaves the last ciphertext block in `self.IV` -/
theorem cbc_encrypt_eq_spec (E : Bytes → Bytes) (hE : ∀ b, b.length = 16 → (E b).length = 16)
    (iv pt : Bytes) (hiv : iv.length = 16) (h : pt.length % 16 = 0) :
    Model.cbcEncrypt E iv pt =
      .ok (Spec.lastBlock 16 iv (Spec.cbcEncrypt 16 E iv pt), Spec.cbcEncrypt 16 E iv pt) :=
  cbcEncrypt_spec E hE iv pt hiv h

example : Model.cbcEncrypt id (zeros 16) (zeros 32) =
    .ok (Spec.lastBlock 16 (zeros 16) (Spec.cbcEncrypt 16 id (zeros 16) (zeros 32)),
         Spec.cbcEncrypt 16 id (zeros 16) (zeros 32)) :=
  cbc_encrypt_eq_spec id (fun _ h => h) _ _ (by decide) (by decide)

/-- `Python_AES.decrypt` is CBC decryption and leaves the last ciphertext block in `self.IV` -/
theorem cbc_decrypt_eq_spec (D : Bytes → Bytes) (hD : ∀ b, b.length = 16 → (D b).length = 16)
    (iv ct : Bytes) (hiv : iv.length = 16) (h : ct.length % 16 = 0) :
    Model.cbcDecrypt D iv ct = .ok (Spec.lastBlock 16 iv ct, Spec.cbcDecrypt 16 D iv ct) :=
  cbcDecrypt_spec D hD iv ct hiv h

/-- a length that is not a multiple of the block size is refused (AssertionError), never padded or truncated -/
theorem cbc_length_guard (E : Bytes → Bytes) (iv pt : Bytes) (h : pt.length % 16 ≠ 0) :
    Model.cbcEncrypt E iv pt = .error .assertion ∧ Model.cbcDecrypt E iv pt = .error .assertion := by
  simp [Model.cbcEncrypt, Model.cbcDecrypt, h]

/-- decrypt ∘ encrypt = id for every IV and every whole number of blocks -/
theorem cbc_decrypt_encrypt (E D : Bytes → Bytes) (hE : ∀ b, b.length = 16 → (E b).length = 16)
    (hD : ∀ b, b.length = 16 → (D b).length = 16) (hDE : ∀ b, b.length = 16 → D (E b) = b)
    (iv pt : Bytes) (hiv : iv.length = 16) (h : pt.length % 16 = 0) :
    (Model.cbcEncrypt E iv pt >>= fun r => Model.cbcDecrypt D iv r.2) =
      .ok (Spec.lastBlock 16 iv (Spec.cbcEncrypt 16 E iv pt), pt) :=
  Modes.cbc_decrypt_encrypt E D hE hD hDE iv pt hiv h

example : (Model.cbcEncrypt id (zeros 16) [1,2,3,4,5,6,7,8,9,10,11,12,13,14,15,16] >>=
    fun r => Model.cbcDecrypt id (zeros 16) r.2).map (·.2) = .ok [1,2,3,4,5,6,7,8,9,10,11,12,13,14,15,16] := by
  rw [cbc_decrypt_encrypt id id (fun _ h => h) (fun _ h => h) (fun _ _ => rfl) _ _ (by decide) (by decide)]
  rfl

/-- multi-call streaming: encrypting `a` and then `b` on the same object equals encrypting
    `a ++ b` in one call, including the final object state -/
theorem cbc_stream_eq_oneshot (E : Bytes → Bytes) (hE : ∀ b, b.length = 16 → (E b).length = 16)
    (iv a b : Bytes) (hiv : iv.length = 16) (ha : a.length % 16 = 0) (hb : b.length % 16 = 0) :
    Model.cbcEncrypt E iv (a ++ b) =
      (Model.cbcEncrypt E iv a >>= fun r1 => Model.cbcEncrypt E r1.1 b >>= fun r2 =>
        pure (r2.1, r1.2 ++ r2.2)) :=
  cbc_stream E hE iv a b hiv ha hb

/-- `Python_TripleDES.encrypt` (three `Des.crypt` calls that each xor their own IV copy) is
    TDEA-CBC: CBC over E3 ∘ D2 ∘ E1, IV carried -/
theorem tdes_cbc_encrypt_eq_spec (k : Model.Des3) (hk : Des3Len k) (iv data : Bytes) (hiv : iv.length = 8)
    (h : data.length % 8 = 0) :
    Model.tdesEncrypt k iv data =
      .ok (Spec.lastBlock 8 iv (Spec.cbcEncrypt 8 (tdeaE k) iv data), Spec.cbcEncrypt 8 (tdeaE k) iv data) :=
  tdesEncrypt_spec k hk iv data hiv h

/-- `Python_TripleDES.decrypt` is CBC decryption over D1 ∘ E2 ∘ D3 -/
theorem tdes_cbc_decrypt_eq_spec (k : Model.Des3) (hk : Des3Len k) (iv data : Bytes) (hiv : iv.length = 8)
    (h : data.length % 8 = 0) :
    Model.tdesDecrypt k iv data = .ok (Spec.lastBlock 8 iv data, Spec.cbcDecrypt 8 (tdeaD k) iv data) :=
  tdesDecrypt_spec k hk iv data hiv h

example : Model.tdesEncrypt ⟨id, id, id, id, id, id⟩ (zeros 8) (zeros 16) =
    .ok (Spec.lastBlock 8 (zeros 8) (Spec.cbcEncrypt 8 (tdeaE ⟨id, id, id, id, id, id⟩) (zeros 8) (zeros 16)),
         Spec.cbcEncrypt 8 (tdeaE ⟨id, id, id, id, id, id⟩) (zeros 8) (zeros 16)) :=
  tdes_cbc_encrypt_eq_spec _ ⟨fun _ h => h, fun _ h => h, fun _ h => h, fun _ h => h, fun _ h => h, fun _ h => h⟩
    _ _ (by decide) (by decide)

/-- CBC in general (any block size): streaming and inversion on the specification, used for 3DES -/
theorem cbc_spec_stream_and_inverse (n : Nat) (hn : n ≠ 0) (E D : Bytes → Bytes)
    (hE : ∀ b, b.length = n → (E b).length = n) (hDE : ∀ b, b.length = n → D (E b) = b)
    (iv a b : Bytes) (hiv : iv.length = n) (ha : a.length % n = 0) :
    Spec.cbcEncrypt n E iv (a ++ b) =
        Spec.cbcEncrypt n E iv a ++ Spec.cbcEncrypt n E (Spec.lastBlock n iv (Spec.cbcEncrypt n E iv a)) b ∧
    Spec.cbcDecrypt n D iv (Spec.cbcEncrypt n E iv a) = a :=
  ⟨spec_cbc_stream n hn E hE iv a b hiv ha, spec_cbc_decrypt_encrypt n hn E D hE hDE iv a hiv ha⟩

/-! ## CTR (Python_AES_CTR incl. `_counter_update`, vs SP 800-38A §6.5 / B.1) -/

/-- `Python_AES_CTR.encrypt` is CTR mode with the standard incrementing function on the counter
    field (`_counter_bytes` low bytes; all 128 bits for the objects GCM/CCM create), and the
    object's counter afterwards is the next unused block.  Excluded region: the counter field
    would come to all-ones — there the code raises OverflowError (`ctr_counter_update_raises_early`). -/
theorem ctr_encrypt_eq_spec (E : Bytes → Bytes) (hE : ∀ b, (E b).length = 16) (c : Model.Ctr) (pt : Bytes)
    (hlen : c.counter.length = 16) (hcb : c.counterBytes ≤ 16)
    (hov : c.counterBytes = 0 ∨
      lowBits (8 * c.counterBytes) c.counter + divceil pt.length 16 < 2 ^ (8 * c.counterBytes) - 1) :
    Model.ctrEncrypt E c pt =
      .ok ({ c with counter := Spec.iterate (Spec.incM (widthOf c.counterBytes)) (divceil pt.length 16) c.counter },
           Spec.ctrEncrypt E (Spec.incM (widthOf c.counterBytes)) c.counter pt) :=
  ctrEncrypt_spec E hE c pt hlen hcb hov

example : ∃ r, Model.ctrEncrypt (fun _ => zeros 16) ⟨zeros 16, 4⟩ [1, 2, 3] = .ok r :=
  ⟨_, ctr_encrypt_eq_spec _ (fun _ => by simp [zeros]) ⟨zeros 16, 4⟩ [1, 2, 3] (by simp [zeros]) (by decide)
    (Or.inr (by decide))⟩

/-- the excluded region is real and the code fails closed there: OverflowError one step
    before the counter field would be all-ones -/
theorem ctr_counter_update_raises_early (c : Model.Ctr) (hlen : c.counter.length = 16)
    (hcb : c.counterBytes ≤ 16) (hpos : 0 < c.counterBytes)
    (h : lowBits (8 * c.counterBytes) c.counter + 1 = 2 ^ (8 * c.counterBytes) - 1) :
    Model.counterUpdate c = .error .overflow :=
  counterUpdate_raises c hlen hcb hpos h

/-- multi-call streaming with the counter carried (first part a whole number of blocks; the
    code discards unused key stream of a partial block, so other splits differ — by design) -/
theorem ctr_stream_eq_oneshot (E : Bytes → Bytes) (hE : ∀ b, (E b).length = 16) (c : Model.Ctr) (a b : Bytes)
    (hlen : c.counter.length = 16) (hcb : c.counterBytes ≤ 16) (ha : a.length % 16 = 0)
    (hov : c.counterBytes = 0 ∨
      lowBits (8 * c.counterBytes) c.counter + divceil (a ++ b).length 16 < 2 ^ (8 * c.counterBytes) - 1) :
    Model.ctrEncrypt E c (a ++ b) =
      (Model.ctrEncrypt E c a >>= fun r1 => Model.ctrEncrypt E r1.1 b >>= fun r2 =>
        pure (r2.1, r1.2 ++ r2.2)) :=
  ctr_stream E hE c a b hlen hcb ha hov

/-- CTR decryption (= encryption from the same counter) inverts encryption; lengths are kept -/
theorem ctr_decrypt_encrypt (E : Bytes → Bytes) (inc : Bytes → Bytes) (hE : ∀ b, (E b).length = 16)
    (T pt : Bytes) :
    Spec.ctrEncrypt E inc T (Spec.ctrEncrypt E inc T pt) = pt ∧
    (Spec.ctrEncrypt E inc T pt).length = pt.length :=
  ⟨spec_ctr_involution E inc hE T pt, spec_ctr_length E inc hE T pt⟩

/-! ## RC4 (Python_RC4 in tlslite/utils/python_rc4.py) -/

/-- `Python_RC4.__init__`: keys of 16..256 bytes give the key schedule of the byte-oriented
    definition; other lengths raise ValueError -/
theorem rc4_init_eq_spec (key : Bytes) :
    (¬ (key.length < 16 ∨ key.length > 256) →
      ∃ m, Model.rc4Init key = .ok m ∧ ∀ hk, Rel m (Spec.ksa key hk)) ∧
    ((key.length < 16 ∨ key.length > 256) → Model.rc4Init key = .error .value) := by
  constructor
  · intro h
    obtain ⟨m, h1, h2⟩ := rc4Init_spec key h
    exact ⟨m, h1, fun _ => h2⟩
  · intro h; rw [Model.rc4Init, dif_pos h]

/-- `Python_RC4.encrypt` from any state representing a generator state: output = input xor the
    PRGA key stream, and the new (S, i, j) represents the advanced generator state -/
theorem rc4_encrypt_eq_spec (m : Model.Rc4) (s : Spec.Rc4) (h : Rel m s) (pt : Bytes) :
    Rel (Model.rc4Encrypt m pt).1 (Spec.rc4Encrypt s pt).1 ∧
    (Model.rc4Encrypt m pt).2 = (Spec.rc4Encrypt s pt).2 :=
  rc4Loop_spec pt m s h

/-- multi-call streaming: `a` then `b` on one object = `a ++ b` (every split point) -/
theorem rc4_stream_eq_oneshot (m : Model.Rc4) (a b : Bytes) :
    Model.rc4Encrypt m (a ++ b) =
      ((Model.rc4Encrypt (Model.rc4Encrypt m a).1 b).1,
       (Model.rc4Encrypt m a).2 ++ (Model.rc4Encrypt (Model.rc4Encrypt m a).1 b).2) :=
  rc4_stream a b m

/-- decrypt ∘ encrypt = id from equal states (every reachable state represents a generator state) -/
theorem rc4_decrypt_encrypt (m : Model.Rc4) (s : Spec.Rc4) (h : Rel m s) (pt : Bytes) :
    (Model.rc4Encrypt m (Model.rc4Encrypt m pt).2).2 = pt :=
  Modes.rc4_decrypt_encrypt m s h pt

example : ∃ m, Model.rc4Init (zeros 16) = .ok m ∧ (Model.rc4Encrypt m (Model.rc4Encrypt m [1, 2, 3]).2).2 = [1, 2, 3] := by
  obtain ⟨m, h1, h2⟩ := (rc4_init_eq_spec (zeros 16)).1 (by decide)
  exact ⟨m, h1, rc4_decrypt_encrypt m _ (h2 (by decide)) _⟩

/-! ## HMAC, PRFs, calc_key, HKDF, key schedule — over an ABSTRACT hash
   (tlshmac.py, mathtls.py, cryptomath.py, handshakehashes.py, recordlayer.py vs RFC 2104, 2246, 5246, 6101,
   7627, 5869, 8446).  `Hash.WF`: fixed output size, positive, not larger than the block size —
   what MD5 / SHA-1 / SHA-2 satisfy; nothing else is assumed about the hash. -/
open Kdf

/-- a toy hash for the non-vacuity examples -/
def toyHash : Hash := { H := fun x => [UInt8.ofNat x.length, 7, 7, 7], blockSize := 8, digestSize := 4 }
theorem toyHash_wf : toyHash.WF := ⟨fun _ => rfl, by decide, by decide⟩

/-- `tlshmac.HMAC`: an object created with `key` and fed `m1, m2, …` (in any number of `update`
    calls, through any number of `copy`s) has digest RFC 2104 HMAC(key, m1 ‖ m2 ‖ …), for keys
    shorter than, equal to and longer than the block size -/
theorem hmac_eq_spec (h : Hash) (wf : h.WF) (key : Bytes) (msgs : List Bytes) :
    Model.hmacDigest h (msgs.foldl Model.hmacUpdate (Model.hmacNew h key none)) =
      Spec.hmac h key msgs.flatten :=
  hmac_update_digest h wf key msgs

example : Model.hmacDigest toyHash ([[1], [2, 3]].foldl Model.hmacUpdate (Model.hmacNew toyHash [9] none)) =
    Spec.hmac toyHash [9] [1, 2, 3] := hmac_eq_spec toyHash toyHash_wf _ _

/-- `P_hash` = RFC 5246 §5 P_hash (A(0) = seed, A(i) = HMAC(secret, A(i-1)), blocks
    HMAC(secret, A(i) ‖ seed), truncated), for every secret, seed and output length -/
theorem p_hash_eq_spec (h : Hash) (wf : h.WF) (secret seed : Bytes) (length : Nat) :
    Model.pHash h secret seed length = .ok (Spec.pHash (Spec.hmac h) h.digestSize secret seed length) ∧
    (Spec.pHash (Spec.hmac h) h.digestSize secret seed length).length = length :=
  ⟨pHash_spec h wf secret seed length,
   spec_pHash_length _ _ wf.pos (hmac_length h wf) secret seed length⟩

example : Model.pHash toyHash [1] [2] 11 = .ok (Spec.pHash (Spec.hmac toyHash) 4 [1] [2] 11) :=
  (p_hash_eq_spec toyHash toyHash_wf _ _ _).1

/-- `PRF` (TLS 1.0/1.1) = RFC 2246 §5: P_MD5 over the first ⌈n/2⌉ secret bytes xor P_SHA-1 over the
    last ⌈n/2⌉ (sharing the middle byte for odd n); output has the requested length -/
theorem prf_tls10_eq_spec (md5 sha1 : Hash) (w5 : md5.WF) (w1 : sha1.WF) (secret label seed : Bytes)
    (length : Nat) :
    Model.prf md5 sha1 secret label seed length = .ok (Spec.prf10 md5 sha1 secret label seed length) ∧
    (Spec.prf10 md5 sha1 secret label seed length).length = length :=
  ⟨prf_spec md5 sha1 w5 w1 secret label seed length, spec_prf10_length md5 sha1 w5 w1 secret label seed length⟩

/-- `PRF_1_2` / `PRF_1_2_SHA384` = RFC 5246 §5 PRF = P_<hash>(secret, label ‖ seed) -/
theorem prf_tls12_eq_spec (h : Hash) (wf : h.WF) (secret label seed : Bytes) (length : Nat) :
    Model.prf12 h secret label seed length = .ok (Spec.prf12 h secret label seed length) ∧
    (Spec.prf12 h secret label seed length).length = length :=
  ⟨prf12_spec h wf secret label seed length, spec_prf12_length h wf secret label seed length⟩

/-- `PRF_SSL` = RFC 6101 §6.2.2 ('A', 'BB', 'CCC', … rounds of MD5(secret ‖ SHA(…))), every output
    length up to the 26 rounds the construction defines (416 bytes).  Excluded region: beyond
    416 bytes the code returns zero bytes for the rest (TLS needs at most 136). -/
theorem prf_ssl_eq_spec (md5 sha1 : Hash) (hm : ∀ x, (md5.H x).length = 16) (secret seed : Bytes)
    (length : Nat) (hlen : length ≤ 416) :
    Model.prfSsl md5 sha1 secret seed length = Spec.prfSsl md5 sha1 secret seed length ∧
    (Spec.prfSsl md5 sha1 secret seed length).length = length :=
  ⟨prfSsl_spec md5 sha1 hm secret seed length hlen, spec_prfSsl_length md5 sha1 hm secret seed length hlen⟩

/-- `digestSSL` = the SSLv3 Finished / CertificateVerify hash of RFC 6101 §5.6.9 -/
theorem ssl3_finished_eq_spec (hs : Model.Hashes) (transcript ms sender : Bytes) :
    Model.digestSSL hs transcript ms sender = Spec.sslFinished hs transcript ms sender :=
  digestSSL_spec hs transcript ms sender

/-- `calc_key`: for every version (SSLv3, TLS 1.0, 1.1, 1.2) × label (master secret, key expansion,
    client/server finished, extended master secret) × PRF hash of the suite, the code uses the PRF,
    label and seed the RFCs prescribe (cr‖sr for the master secret, sr‖cr for the key block,
    the transcript hash(es) for Finished and EMS); the one undefined combination (EMS in SSLv3)
    raises AssertionError. -/
theorem calc_key_dispatch (hs : Model.Hashes) (wf : HashesWF hs) (v : Spec.Version) (sha384Prf : Bool)
    (l : Spec.Label) (secret transcript cr sr : Bytes) (length : Nat) (hlen : v = .ssl3 → length ≤ 416) :
    Model.calcKey hs v.pair secret sha384Prf l.bytes (some transcript) (some cr) (some sr) (some length) =
      specOutcome (Spec.calcKey hs v sha384Prf l secret transcript cr sr length) :=
  calcKey_spec hs wf v sha384Prf l secret transcript cr sr length hlen

def toyHashes : Model.Hashes :=
  ⟨{ H := fun _ => zeros 16, blockSize := 64, digestSize := 16 }, toyHash, toyHash, toyHash⟩
theorem toyHashes_wf : HashesWF toyHashes :=
  ⟨⟨fun _ => rfl, by decide, by decide⟩, toyHash_wf, toyHash_wf, toyHash_wf, rfl⟩

example : Model.calcKey toyHashes (3, 3) [1] false lblMasterSecret (some []) (some [2]) (some [3]) (some 48) =
    .ok (Spec.prf12 toyHash [1] lblMasterSecret [2, 3] 48) :=
  calc_key_dispatch toyHashes toyHashes_wf .tls12 false .masterSecret [1] [] [2] [3] 48 (by decide)

/-- labels are distinct byte strings, so the dispatch above is on the label proper -/
theorem calc_key_labels_distinct (a b : Spec.Label) (h : a.bytes = b.bytes) : a = b :=
  label_bytes_inj a b h

/-- PRF-based outputs of calc_key have exactly the requested length -/
theorem calc_key_output_length (hs : Model.Hashes) (wf : HashesWF hs) (v : Spec.Version) (sha384Prf : Bool)
    (l : Spec.Label) (secret transcript cr sr : Bytes) (length : Nat) (hlen : v = .ssl3 → length ≤ 416)
    (hl : l = .masterSecret ∨ l = .keyExpansion ∨ v ≠ .ssl3) (r : Bytes)
    (h : Spec.calcKey hs v sha384Prf l secret transcript cr sr length = some r) : r.length = length :=
  spec_calcKey_length hs wf v sha384Prf l secret transcript cr sr length hlen hl r h

/-- `keyingMaterialExporter` (tlsconnection.py) = RFC 5705 §4 for TLS 1.0–1.2 (the version's PRF over
    client_random ‖ server_random with the caller's label) and RFC 8446 §7.5 for TLS 1.3
    (HKDF-Expand-Label(Derive-Secret(exporter secret, label, ""), "exporter", Hash(""), length));
    the four reserved labels raise ValueError by the code's own guard -/
theorem exporter_eq_spec (hs : Model.Hashes) (wf : HashesWF hs) (mac256 mac384 : Bytes → Bytes → Bytes)
    (sha384Prf : Bool) (ms cr sr ems label : Bytes) (length : Nat)
    (hlab : ¬ (label = lblServerFinished ∨ label = lblClientFinished ∨ label = lblMasterSecret ∨ label = lblKeyExpansion))
    (h1 : length < 65536) (h2 : 6 + label.length < 256)
    (hL : divceil length (if sha384Prf then hs.sha384 else hs.sha256).digestSize ≤ 255)
    (hd : (if sha384Prf then hs.sha384 else hs.sha256).digestSize < 256) :
    (∀ v : Spec.Version, v ≠ .ssl3 →
      Model.keyingMaterialExporter hs mac256 mac384 v.pair sha384Prf ms cr sr ems label length =
        .ok (Spec.exporter hs mac256 mac384 false v sha384Prf ms cr sr ems label length)) ∧
    Model.keyingMaterialExporter hs mac256 mac384 (3, 4) sha384Prf ms cr sr ems label length =
      .ok (Spec.exporter hs mac256 mac384 true .tls12 sha384Prf ms cr sr ems label length) :=
  exporter_spec hs wf mac256 mac384 sha384Prf ms cr sr ems label length hlab h1 h2 hL hd

/-- `HKDF_expand` = RFC 5869 HKDF-Expand on the RFC's whole domain L ≤ 255·HashLen, with exactly L
    output bytes; beyond the domain it raises ValueError (never a short or wrapped counter) -/
theorem hkdf_expand_eq_spec (mac : Bytes → Bytes → Bytes) (dl : Nat) (prk info : Bytes) (L : Nat) :
    (divceil L dl ≤ 255 → Model.hkdfExpand mac dl prk info L = .ok (Spec.hkdfExpand mac dl prk info L)) ∧
    (255 < divceil L dl → Model.hkdfExpand mac dl prk info L = .error .value) :=
  ⟨hkdfExpand_spec mac dl prk info L, hkdfExpand_too_long mac dl prk info L⟩

example : Model.hkdfExpand (fun _ _ => zeros 32) 32 [1] [2] (255 * 32) =
    .ok (Spec.hkdfExpand (fun _ _ => zeros 32) 32 [1] [2] (255 * 32)) :=
  (hkdf_expand_eq_spec _ 32 _ _ _).1 (by decide)

theorem hkdf_output_length (mac : Bytes → Bytes → Bytes) (dl : Nat) (hd : 0 < dl)
    (hm : ∀ k m, (mac k m).length = dl) (prk info : Bytes) (L : Nat) :
    (Spec.hkdfExpand mac dl prk info L).length = L :=
  spec_hkdf_length mac dl hd hm prk info L

/-- the HkdfLabel the code serialises is RFC 8446 §7.1's structure: uint16 length, one length byte
    and "tls13 " ‖ label, one length byte and the context; out-of-range fields raise ValueError -/
theorem hkdf_label_encoding (label ctx : Bytes) (length : Nat) (h1 : length < 65536)
    (h2 : 6 + label.length < 256) (h3 : ctx.length < 256) :
    Model.hkdfLabel label ctx length = .ok (Spec.hkdfLabel length label ctx) :=
  hkdfLabel_spec label ctx length h1 h2 h3

/-- and that encoding is injective in (length, label, context): no two derivations share an info string -/
theorem hkdf_label_injective (l1 l2 : Nat) (a1 a2 c1 c2 : Bytes) (h1 : l1 < 65536) (h2 : l2 < 65536)
    (ha1 : 6 + a1.length < 256) (ha2 : 6 + a2.length < 256) (hc1 : c1.length < 256) (hc2 : c2.length < 256)
    (h : Spec.hkdfLabel l1 a1 c1 = Spec.hkdfLabel l2 a2 c2) : l1 = l2 ∧ a1 = a2 ∧ c1 = c2 :=
  hkdfLabel_injective l1 l2 a1 a2 c1 c2 h1 h2 ha1 ha2 hc1 hc2 h

/-- `HKDF_expand_label` = HKDF-Expand-Label of RFC 8446 §7.1 -/
theorem hkdf_expand_label_eq_spec (mac : Bytes → Bytes → Bytes) (dl : Nat) (secret label ctx : Bytes)
    (length : Nat) (h1 : length < 65536) (h2 : 6 + label.length < 256) (h3 : ctx.length < 256)
    (hL : divceil length dl ≤ 255) :
    Model.hkdfExpandLabel mac dl secret label ctx length =
      .ok (Spec.hkdfExpandLabel mac dl secret label ctx length) :=
  hkdfExpandLabel_spec mac dl secret label ctx length h1 h2 h3 hL

/-- `derive_secret` = Derive-Secret (transcript hash, or the hash of the empty string for `None`) -/
theorem derive_secret_eq_spec (mac : Bytes → Bytes → Bytes) (h : Hash) (wf : h.WF) (secret label : Bytes)
    (hh : Option Bytes) (h2 : 6 + label.length < 256) (hd : h.digestSize < 256) :
    Model.deriveSecret mac h secret label hh = .ok (Spec.deriveSecret mac h secret label (hh.getD [])) :=
  deriveSecret_spec mac h wf secret label hh h2 hd

example : Model.deriveSecret (fun _ _ => zeros 4) toyHash [1] lblKey none =
    .ok (Spec.deriveSecret (fun _ _ => zeros 4) toyHash [1] lblKey []) :=
  derive_secret_eq_spec _ toyHash toyHash_wf _ _ _ (by decide) (by decide)

/-- `calcPendingStates`: key block = "key expansion" output of length 2·(mac+key+iv), cut in the
    RFC 5246 §6.3 order client MAC, server MAC, client key, server key, client IV, server IV; the
    client writes with the client keys and reads with the server keys, the server the reverse -/
theorem key_block_slicing (hs : Model.Hashes) (wf : HashesWF hs) (v : Spec.Version) (sha384Prf client : Bool)
    (ms cr sr : Bytes) (m k i : Nat) (hlen : v = .ssl3 → 2*m + 2*k + 2*i ≤ 416) :
    ∃ kb, Spec.calcKey hs v sha384Prf .keyExpansion ms [] cr sr (2*m + 2*k + 2*i) = some kb ∧
      kb.length = 2*m + 2*k + 2*i ∧
      Model.calcPendingStates hs v.pair sha384Prf client ms cr sr m k i =
        let c : Model.KeyMaterial := ⟨kb.take m, (kb.drop (2*m)).take k, (kb.drop (2*m + 2*k)).take i⟩
        let s : Model.KeyMaterial := ⟨(kb.drop m).take m, (kb.drop (2*m + k)).take k, (kb.drop (2*m + 2*k + i)).take i⟩
        .ok (if client then (c, s) else (s, c)) :=
  calcPendingStates_spec hs wf v sha384Prf client ms cr sr m k i hlen

/-- TLS 1.3 `calcTLS1_3PendingState`: key = HKDF-Expand-Label(secret, "key", "", key_length),
    iv = HKDF-Expand-Label(secret, "iv", "", 12) per direction (RFC 8446 §7.3), by role -/
theorem tls13_traffic_keys (mac : Bytes → Bytes → Bytes) (dl : Nat) (client : Bool) (cl sr : Bytes)
    (keyLength : Nat) (hk : keyLength < 65536) (hkd : divceil keyLength dl ≤ 255) (hid : divceil 12 dl ≤ 255) :
    Model.calcTls13PendingState mac dl client cl sr keyLength =
      let ck := (Spec.hkdfExpandLabel mac dl cl lblKey [] keyLength, Spec.hkdfExpandLabel mac dl cl lblIv [] 12)
      let sk := (Spec.hkdfExpandLabel mac dl sr lblKey [] keyLength, Spec.hkdfExpandLabel mac dl sr lblIv [] 12)
      .ok (if client then (ck, sk) else (sk, ck)) :=
  tls13_traffic_keys_spec mac dl client cl sr keyLength hk hkd hid

/-- KeyUpdate: application_traffic_secret_N+1 = HKDF-Expand-Label(secret_N, "traffic upd", "", Hash.length)
    (RFC 8446 §7.2), then key and iv from the new secret -/
theorem tls13_key_update (mac : Bytes → Bytes → Bytes) (dl : Nat) (appSecret : Bytes)
    (keyLength : Nat) (hk : keyLength < 65536) (hkd : divceil keyLength dl ≤ 255) (hid : divceil 12 dl ≤ 255)
    (hd : dl < 65536) (hdd : divceil dl dl ≤ 255) :
    Model.calcTls13KeyUpdate mac dl appSecret keyLength =
      let next := Spec.hkdfExpandLabel mac dl appSecret lblTrafficUpd [] dl
      .ok (next, Spec.hkdfExpandLabel mac dl next lblKey [] keyLength, Spec.hkdfExpandLabel mac dl next lblIv [] 12) :=
  tls13_key_update_spec mac dl appSecret keyLength hk hkd hid hd hdd

example : ∃ r, Model.calcTls13KeyUpdate (fun _ _ => zeros 32) 32 [1] 16 = .ok r :=
  ⟨_, tls13_key_update _ 32 _ 16 (by decide) (by decide) (by decide) (by decide) (by decide)⟩

/-! ## AES-GCM (tlslite/utils/aesgcm.py vs NIST SP 800-38D), over an abstract block cipher `E`
   (`rawAesEncrypt`; only `(E b).length = 16` is assumed) -/

/-- the literal `_gcmReductionTable` (GENERATED from the source on every run): entry n, shifted into
    place, is x⁴·n reduced — checked over the whole table -/
theorem gcm_reduction_table_correct :
    ∀ n, n < 16 → (Gcm.Gen.gcmReductionTable[n]?).map (· <<< (128 - 16)) = some (Gcm.mulXpow 4 n) :=
  Gcm.reductionTable_correct

/-- `_mul(y)` — the 4-bit-window method with the product table built in `__init__` and the
    reduction table — is the block multiplication y • H of §6.3 Algorithm 1 (bit-serial), for
    every 128-bit y and every H -/
theorem gcm_mul_eq_gfmul (h y : Nat) (hy : y < 2 ^ 128) :
    ∃ t, Gcm.Model.productTable h = .ok t ∧ Gcm.Model.mul t y = .ok (Gcm.Spec.gfmul y h) :=
  Gcm.mul_eq_gfmul h y hy

example : ∃ t, Gcm.Model.productTable 12345 = .ok t ∧ Gcm.Model.mul t 678 = .ok (Gcm.Spec.gfmul 678 12345) :=
  gcm_mul_eq_gfmul _ _ (by decide)

/-- `seal` = GCM-AE (§7.1) for 96-bit IVs and 128-bit tags: H = E(0), J0 = IV‖0³¹1, GCTR from
    inc32(J0), GHASH over A and C zero-padded and [len A]₆₄‖[len C]₆₄, tag masked with E(J0).
    Excluded region: more than 2³²−2 blocks (the code's CTR object increments all 128 bits where
    the standard's inc32 wraps; SP 800-38D forbids such lengths), AAD of 2⁶¹ bytes or more. -/
theorem gcm_seal_eq_spec (E : Bytes → Bytes) (hE : ∀ b, (E b).length = 16) (nonce p aad : Bytes)
    (hn : nonce.length = 12) (ha : 8 * aad.length < 2 ^ 64) (hp : divceil p.length 16 + 2 ≤ 2 ^ 32) :
    (Gcm.Model.new E >>= fun o => Gcm.Model.aseal E o nonce p aad) = .ok (Gcm.Spec.aseal E nonce p aad) :=
  Gcm.aseal_spec E hE nonce p aad hn ha hp

example : (Gcm.Model.new (fun _ => zeros 16) >>= fun o => Gcm.Model.aseal (fun _ => zeros 16) o (zeros 12) [1, 2, 3] [4]) =
    .ok (Gcm.Spec.aseal (fun _ => zeros 16) (zeros 12) [1, 2, 3] [4]) :=
  gcm_seal_eq_spec _ (fun _ => by simp [zeros]) _ _ _ (by decide) (by decide) (by decide)

/-- `open` = GCM-AD (§7.2) -/
theorem gcm_open_eq_spec (E : Bytes → Bytes) (hE : ∀ b, (E b).length = 16) (nonce ct aad : Bytes)
    (hn : nonce.length = 12) (ha : 8 * aad.length < 2 ^ 64) (hp : divceil (ct.length - 16) 16 + 2 ≤ 2 ^ 32) :
    (Gcm.Model.new E >>= fun o => Gcm.Model.aopen E o nonce ct aad) = .ok (Gcm.Spec.aopen E nonce ct aad) :=
  Gcm.aopen_spec E hE nonce ct aad hn ha hp

/-- open ∘ seal returns the plaintext -/
theorem gcm_open_seal (E : Bytes → Bytes) (hE : ∀ b, (E b).length = 16) (nonce p aad : Bytes)
    (hn : nonce.length = 12) (ha : 8 * aad.length < 2 ^ 64) (hp : divceil p.length 16 + 2 ≤ 2 ^ 32) :
    (Gcm.Model.new E >>= fun o => Gcm.Model.aseal E o nonce p aad >>= fun c => Gcm.Model.aopen E o nonce c aad) =
      .ok (some p) := by
  have hs := Gcm.aseal_spec E hE nonce p aad hn ha hp
  have hl : (Gcm.Spec.aseal E nonce p aad).length - 16 = p.length := by
    simp [Gcm.Spec.aseal, Gcm.gctr_length E hE, Gcm.tag_length E hE]
  have ho := Gcm.aopen_spec E hE nonce (Gcm.Spec.aseal E nonce p aad) aad hn ha (by rw [hl]; exact hp)
  rw [Gcm.spec_aopen_aseal E hE] at ho
  simp only [Gcm.new_spec, bind, Except.bind] at hs ho ⊢
  rw [hs]
  exact ho

/-- `open` returns data exactly when the last 16 bytes equal the tag recomputed over the rest with
    this nonce and AAD, and then the GCTR decryption of the rest; anything else yields `None` -/
theorem gcm_open_some_iff (E : Bytes → Bytes) (hE : ∀ b, (E b).length = 16) (nonce ct aad p : Bytes)
    (hn : nonce.length = 12) (ha : 8 * aad.length < 2 ^ 64) (hp : divceil (ct.length - 16) 16 + 2 ≤ 2 ^ 32) :
    (Gcm.Model.new E >>= fun o => Gcm.Model.aopen E o nonce ct aad) = .ok (some p) ↔
      16 ≤ ct.length ∧
      ct.drop (ct.length - 16) = Gcm.Spec.tag E nonce aad (ct.take (ct.length - 16)) ∧
      p = Gcm.Spec.gctr E (Gcm.Spec.inc32 (nonce ++ [0, 0, 0, 1])) (ct.take (ct.length - 16)) := by
  rw [Gcm.aopen_spec E hE nonce ct aad hn ha hp, Gcm.Spec.aopen]
  by_cases hs : ct.length < 16
  · simp [hs]; intro h; omega
  · by_cases ht : ct.drop (ct.length - 16) = Gcm.Spec.tag E nonce aad (ct.take (ct.length - 16))
    · simp [hs, ht]; constructor
      · intro h; exact ⟨by omega, h.symm⟩
      · intro h; exact h.2.symm
    · simp [hs, ht]

/-- NO HIDDEN STATE: `seal` on an AESGCM object after ANY earlier history (the shared `self._ctr`
    sub-object left at an arbitrary position) returns the SP 800-38D value of this call's own
    (nonce, plaintext, AAD) — the code assigns a fresh counter block to the sub-object on every call -/
theorem gcm_seal_no_hidden_state (E : Bytes → Bytes) (hE : ∀ b, (E b).length = 16) (o : Gcm.Model.ObjS)
    (ho : Gcm.InvS E o) (nonce p aad : Bytes) (hn : nonce.length = 12) (ha : 8 * aad.length < 2 ^ 64)
    (hp : divceil p.length 16 + 2 ≤ 2 ^ 32) :
    ∃ o', Gcm.Model.asealS E o nonce p aad = .ok (o', Gcm.Spec.aseal E nonce p aad) ∧ Gcm.InvS E o' :=
  Gcm.asealS_spec E hE o ho nonce p aad hn ha hp

/-- object-level stream = one-shot: ANY history of seal / open calls of any sizes on one AESGCM object
    returns, call by call, exactly what the standard defines for that call alone -/
theorem gcm_history_independent (E : Bytes → Bytes) (hE : ∀ b, (E b).length = 16) (cs : List Gcm.Model.Call)
    (hv : ∀ c ∈ cs, Gcm.ValidCall c) :
    ∃ o o', Gcm.Model.newS E = .ok o ∧
      Gcm.Model.runCalls E o cs = .ok (o', cs.map (Gcm.specCall E)) := by
  obtain ⟨o, h1, hi⟩ := Gcm.newS_inv E
  obtain ⟨o', h2, _⟩ := Gcm.runCalls_spec E hE cs o hi hv
  exact ⟨o, o', h1, h2⟩

example : ∃ o o', Gcm.Model.newS (fun _ => zeros 16) = .ok o ∧
    Gcm.Model.runCalls (fun _ => zeros 16) o [⟨true, zeros 12, [1, 2], [3]⟩, ⟨false, zeros 12, zeros 20, []⟩] =
      .ok (o', [⟨true, zeros 12, [1, 2], [3]⟩, ⟨false, zeros 12, zeros 20, []⟩].map (Gcm.specCall (fun _ => zeros 16))) :=
  gcm_history_independent _ (fun _ => by simp [zeros]) _ (by
    intro c hc
    simp only [List.mem_cons, List.not_mem_nil, or_false] at hc
    rcases hc with rfl | rfl <;> exact ⟨by decide, by decide, by decide⟩)

/-! ## AES-CCM and AES-CCM-8 (tlslite/utils/aesccm.py vs RFC 3610 / SP 800-38C), abstract block cipher `E`;
   tag length 16 or 8, the 12-byte nonce the code insists on (L = 3) -/

/-- `_cbcmac_calc`: flags, B_0, the 2 / 6 / 10-byte AAD length forms, zero padding, CBC-MAC through
    the object's Python_AES with a zero IV and the truncation to the tag length compute T of §2.2,
    for every AAD and message length -/
theorem ccm_cbcmac_eq_spec (E : Bytes → Bytes) (hE : ∀ b, (E b).length = 16) (tl : Nat) (htl : tl = 8 ∨ tl = 16)
    (N a m : Bytes) (hn : N.length = 12) :
    Ccm.Model.cbcmacCalc E tl N a m = .ok (Ccm.Spec.tagT E tl N a m) :=
  Ccm.cbcmacCalc_spec E hE tl htl N a m hn

/-- `seal` = CCM encryption (§2.3, §2.4): message xor S_1‖S_2‖…, U = T xor the first M bytes of S_0.
    Excluded region: 2^24 − 1 blocks or more (beyond what L = 3 can express; TLS records are 2^14). -/
theorem ccm_seal_eq_spec (E : Bytes → Bytes) (hE : ∀ b, (E b).length = 16) (tl : Nat) (htl : tl = 8 ∨ tl = 16)
    (N m a : Bytes) (hn : N.length = 12) (hm : 1 + divceil m.length 16 ≤ 2 ^ 24) :
    Ccm.Model.aseal E tl N m a = .ok (Ccm.Spec.aseal E tl N m a) :=
  Ccm.aseal_spec E hE tl htl N m a hn hm

example : Ccm.Model.aseal (fun _ => zeros 16) 8 (zeros 12) [1, 2, 3] [4] =
    .ok (Ccm.Spec.aseal (fun _ => zeros 16) 8 (zeros 12) [1, 2, 3] [4]) :=
  ccm_seal_eq_spec _ (fun _ => by simp [zeros]) 8 (Or.inl rfl) _ _ _ (by decide) (by decide)

/-- `open` = CCM decryption and verification (§2.5) -/
theorem ccm_open_eq_spec (E : Bytes → Bytes) (hE : ∀ b, (E b).length = 16) (tl : Nat) (htl : tl = 8 ∨ tl = 16)
    (N c a : Bytes) (hn : N.length = 12) (hc : 1 + divceil c.length 16 ≤ 2 ^ 24) :
    Ccm.Model.aopen E tl N c a = .ok (Ccm.Spec.aopen E tl N c a) :=
  Ccm.aopen_spec E hE tl htl N c a hn hc

/-- open ∘ seal returns the plaintext (both tag lengths) -/
theorem ccm_open_seal (E : Bytes → Bytes) (hE : ∀ b, (E b).length = 16) (tl : Nat) (htl : tl = 8 ∨ tl = 16)
    (N m a : Bytes) (hn : N.length = 12) (hm : 1 + divceil (m.length + 16) 16 ≤ 2 ^ 24) :
    (Ccm.Model.aseal E tl N m a >>= fun c => Ccm.Model.aopen E tl N c a) = .ok (some m) := by
  have hM : tl ≤ 16 := by rcases htl with rfl | rfl <;> decide
  have hmono := Ccm.divceil_mono m.length (m.length + 16) (by omega)
  rw [Ccm.aseal_spec E hE tl htl N m a hn (by omega)]
  have hl : (Ccm.Spec.aseal E tl N m a).length ≤ m.length + 16 := by
    simp only [Ccm.Spec.aseal, List.length_append, Ccm.encryptMsg_length E hE, xorBytes_length,
      Ccm.tagT_length E hE tl hM N a m hn]
    omega
  have hmono2 := Ccm.divceil_mono _ _ hl
  show Ccm.Model.aopen E tl N _ a = _
  rw [Ccm.aopen_spec E hE tl htl N _ a hn (by omega), Ccm.spec_aopen_aseal E hE tl hM N m a hn]

/-- `open` returns data exactly when the received authentication value, unmasked with S_0, equals
    the CBC-MAC recomputed over the decrypted message with this nonce and AAD; anything else
    (shorter than a tag, any other tag) yields `None` -/
theorem ccm_open_some_iff (E : Bytes → Bytes) (hE : ∀ b, (E b).length = 16) (tl : Nat) (htl : tl = 8 ∨ tl = 16)
    (N c a p : Bytes) (hn : N.length = 12) (hc : 1 + divceil c.length 16 ≤ 2 ^ 24) :
    Ccm.Model.aopen E tl N c a = .ok (some p) ↔
      tl ≤ c.length ∧
      p = Ccm.Spec.encryptMsg E N (c.take (c.length - tl)) ∧
      xorBytes (c.drop (c.length - tl)) ((E (Ccm.Spec.ctrBlock N 0)).take tl) = Ccm.Spec.tagT E tl N a p := by
  rw [Ccm.aopen_spec E hE tl htl N c a hn hc, Ccm.Spec.aopen]
  by_cases hs : c.length < tl
  · simp [hs]; intro h; omega
  · by_cases ht : xorBytes (c.drop (c.length - tl)) ((E (Ccm.Spec.ctrBlock N 0)).take tl) =
        Ccm.Spec.tagT E tl N a (Ccm.Spec.encryptMsg E N (c.take (c.length - tl)))
    · simp only [hs, if_false, ht, if_true, Except.ok.injEq, Option.some.injEq]
      constructor
      · intro h; subst h; exact ⟨by omega, rfl, rfl⟩
      · intro h; exact h.2.1.symm
    · simp only [hs, if_false, ht, Except.ok.injEq]
      constructor
      · intro h; cases h
      · intro h; rw [h.2.1] at h; exact absurd h.2.2 ht

/-! ## AES core (tlslite/utils/rijndael.py): the GENERATED tables against FIPS-197
   Table statements are over the whole literal tables, re-generated from the source and re-checked on
   every run.  On top of them: the key-schedule loops = KeyExpansion, encrypt = Cipher, decrypt = InvCipher
   (through the equivalent inverse cipher of §5.3.5) and decrypt ∘ encrypt = id, for every key of 16, 24,
   32 bytes and every block (`Aes.Model` = executable transliteration of rijndael.py, `Aes.Spec` = FIPS-197).
   The model itself is tied to the implementation by correspondence (driver ops `aes_model`, `aes_spec`). -/

/-- `S` is the FIPS-197 S-box: inverse in GF(2^8) followed by the affine transformation (all 256 entries) -/
theorem aes_sbox_table : Aes.Gen.S.toList = (List.range 256).map Aes.Spec.sboxN := Aes.S_table

/-- `Si` is the inverse permutation of `S`, both ways (InvSubBytes) -/
theorem aes_inv_sbox_table :
    Aes.Gen.S.toList.map (fun s => Aes.Gen.Si.toList.getD s 256) = List.range 256 ∧
    Aes.Gen.Si.toList.map (fun s => Aes.Gen.S.toList.getD s 256) = List.range 256 := Aes.Si_table

/-- T1..T4 = SubBytes then the MixColumns column (02 01 01 03) and its rotations -/
theorem aes_round_tables :
    Aes.Gen.T1.toList = Aes.Gen.S.toList.map (fun s => Aes.word (Aes.Spec.gmulN 2 s) s s (Aes.Spec.gmulN 3 s)) ∧
    Aes.Gen.T2.toList = Aes.Gen.S.toList.map (fun s => Aes.word (Aes.Spec.gmulN 3 s) (Aes.Spec.gmulN 2 s) s s) ∧
    Aes.Gen.T3.toList = Aes.Gen.S.toList.map (fun s => Aes.word s (Aes.Spec.gmulN 3 s) (Aes.Spec.gmulN 2 s) s) ∧
    Aes.Gen.T4.toList = Aes.Gen.S.toList.map (fun s => Aes.word s s (Aes.Spec.gmulN 3 s) (Aes.Spec.gmulN 2 s)) :=
  Aes.T_tables

/-- T5..T8 = InvSubBytes then the InvMixColumns column (0e 09 0d 0b) and its rotations -/
theorem aes_inv_round_tables :
    Aes.Gen.T5.toList = Aes.Gen.Si.toList.map (fun s => Aes.word (Aes.Spec.gmulN 14 s) (Aes.Spec.gmulN 9 s) (Aes.Spec.gmulN 13 s) (Aes.Spec.gmulN 11 s)) ∧
    Aes.Gen.T6.toList = Aes.Gen.Si.toList.map (fun s => Aes.word (Aes.Spec.gmulN 11 s) (Aes.Spec.gmulN 14 s) (Aes.Spec.gmulN 9 s) (Aes.Spec.gmulN 13 s)) ∧
    Aes.Gen.T7.toList = Aes.Gen.Si.toList.map (fun s => Aes.word (Aes.Spec.gmulN 13 s) (Aes.Spec.gmulN 11 s) (Aes.Spec.gmulN 14 s) (Aes.Spec.gmulN 9 s)) ∧
    Aes.Gen.T8.toList = Aes.Gen.Si.toList.map (fun s => Aes.word (Aes.Spec.gmulN 9 s) (Aes.Spec.gmulN 13 s) (Aes.Spec.gmulN 11 s) (Aes.Spec.gmulN 14 s)) :=
  Aes.Tinv_tables

/-- U1..U4 = InvMixColumns columns of a plain byte (decryption round keys) -/
theorem aes_key_inv_mix_tables :
    Aes.Gen.U1.toList = (List.range 256).map (fun x => Aes.word (Aes.Spec.gmulN 14 x) (Aes.Spec.gmulN 9 x) (Aes.Spec.gmulN 13 x) (Aes.Spec.gmulN 11 x)) ∧
    Aes.Gen.U2.toList = (List.range 256).map (fun x => Aes.word (Aes.Spec.gmulN 11 x) (Aes.Spec.gmulN 14 x) (Aes.Spec.gmulN 9 x) (Aes.Spec.gmulN 13 x)) ∧
    Aes.Gen.U3.toList = (List.range 256).map (fun x => Aes.word (Aes.Spec.gmulN 13 x) (Aes.Spec.gmulN 11 x) (Aes.Spec.gmulN 14 x) (Aes.Spec.gmulN 9 x)) ∧
    Aes.Gen.U4.toList = (List.range 256).map (fun x => Aes.word (Aes.Spec.gmulN 9 x) (Aes.Spec.gmulN 13 x) (Aes.Spec.gmulN 11 x) (Aes.Spec.gmulN 14 x)) :=
  Aes.U_tables

/-- rcon[i] = x^i, the shift offsets and the round numbers of FIPS-197 -/
theorem aes_rcon_shifts_rounds :
    (Aes.Gen.rcon.toList.take 14) = (List.range 14).map (fun i => (List.range i).foldl (fun r _ => Aes.Spec.xtimeN r) 1) ∧
    Aes.Gen.shiftsEnc = [1, 2, 3] ∧ Aes.Gen.shiftsDec = [3, 2, 1] ∧
    Aes.Gen.numRounds = [(16, 10), (24, 12), (32, 14)] :=
  ⟨Aes.rcon_table, Aes.shifts_and_rounds⟩

/-- The table-driven encryption of `Rijndael.encrypt` — first key addition, the T1..T4 rounds with the
    shift offsets, the special last round with `S` — run on ANY key schedule `K` of 4·(rounds+1)
    32-bit words, is the FIPS-197 Cipher (SubBytes, ShiftRows, MixColumns, AddRoundKey) with round
    key r = the bytes of K[4r..4r+3], for every 16-byte block. -/
theorem aes_encrypt_rounds_eq_spec (K : List Nat) (hK : ∀ w ∈ K, w < 2 ^ 32) (rounds : Nat)
    (hr : 1 ≤ rounds) (hlen : K.length = 4 * (rounds + 1)) (block : Bytes) (hb : block.length = 16) :
    Aes.Model.crypt K rounds Aes.Gen.T1 Aes.Gen.T2 Aes.Gen.T3 Aes.Gen.T4 Aes.Gen.S Aes.Gen.shiftsEnc block =
      .ok (Aes.Spec.cipherRK (Aes.rkBytes K) rounds block) :=
  Aes.crypt_enc_spec K hK rounds hr hlen block hb

example : ∃ r, Aes.Model.crypt (List.replicate 44 7) 10 Aes.Gen.T1 Aes.Gen.T2 Aes.Gen.T3 Aes.Gen.T4 Aes.Gen.S
    Aes.Gen.shiftsEnc (zeros 16) = .ok r :=
  ⟨_, aes_encrypt_rounds_eq_spec _ (by decide) 10 (by decide) (by decide) _ (by decide)⟩

/-- the key-schedule loops of `Rijndael.__init__` (first copy, the `while t < ROUND_KEY_COUNT` evolution
    with RotWord/SubWord/rcon, the extra SubWord for 32-byte keys, truncation of the last pass)
    compute FIPS-197 §5.2 KeyExpansion word for word, for 16-, 24- and 32-byte keys; `Ke` of the
    object is that list and the decryption schedule is `mkKd` of it -/
theorem aes_key_schedule_eq_spec (key : Bytes) (hk : key.length = 16 ∨ key.length = 24 ∨ key.length = 32) :
    ∃ Kd, Aes.Model.init key =
        .ok { Ke := (Aes.Spec.keyExpansion key).map Aes.wd, Kd := Kd, rounds := key.length / 4 + 6 } ∧
      Aes.Model.mkKd ((Aes.Spec.keyExpansion key).map Aes.wd) (key.length / 4 + 6) = .ok Kd :=
  Aes.init_spec key hk

/-- FULL: `Rijndael(key, 16).encrypt(block)` = Cipher(KeyExpansion(key), block) of FIPS-197 for every
    key of 16, 24, 32 bytes and every 16-byte block (other lengths raise ValueError: `aes_guards`) -/
theorem aes_encrypt_eq_spec (key block : Bytes) (hk : key.length = 16 ∨ key.length = 24 ∨ key.length = 32)
    (hb : block.length = 16) :
    (Aes.Model.init key >>= fun k => Aes.Model.encrypt k block) = .ok (Aes.Spec.cipher key block) :=
  Aes.encrypt_spec key block hk hb

example : (Aes.Model.init (zeros 16) >>= fun k => Aes.Model.encrypt k (zeros 16)) =
    .ok (Aes.Spec.cipher (zeros 16) (zeros 16)) := aes_encrypt_eq_spec _ _ (Or.inl rfl) rfl

/-- `S`-inverse table computed directly: `Si` = inverse affine map then the GF(2^8) inverse (§5.3.2) -/
theorem aes_inv_sbox_spec_table : Aes.Gen.Si.toList = (List.range 256).map Aes.Spec.invSboxN := Aes.Si_spec_table

/-- the table-driven decryption (T5..T8 rounds with shift offsets 3 2 1, last round with `Si`) on ANY
    decryption key schedule is the equivalent inverse cipher of FIPS-197 §5.3.5 with those round keys -/
theorem aes_decrypt_rounds_eq_spec (K : List Nat) (hK : ∀ w ∈ K, w < 2 ^ 32) (rounds : Nat)
    (hr : 1 ≤ rounds) (hlen : K.length = 4 * (rounds + 1)) (block : Bytes) (hb : block.length = 16) :
    Aes.Model.crypt K rounds Aes.Gen.T5 Aes.Gen.T6 Aes.Gen.T7 Aes.Gen.T8 Aes.Gen.Si Aes.Gen.shiftsDec block =
      .ok (Aes.Spec.eqInvCipherRK (Aes.rkBytes K) rounds block) :=
  Aes.crypt_dec_spec K hK rounds hr hlen block hb

/-- FIPS-197 §5.3.5: InvCipher equals the equivalent inverse cipher under the modified key schedule
    (InvMixColumns is linear over xor; InvSubBytes and InvShiftRows commute) -/
theorem aes_inv_cipher_eq_equivalent (rk : Nat → Aes.Spec.State) (nr : Nat)
    (hrk : ∀ r, r ≤ nr → (rk r).length = 16) (inp : Bytes) (hi : inp.length = 16) :
    Aes.Spec.invCipherRK rk nr inp = Aes.Spec.eqInvCipherRK (Aes.Spec.dkOf rk nr) nr inp :=
  Aes.invCipher_eq_eqInv rk nr hrk inp hi

/-- the decryption key schedule built in `__init__` (`Kd[ROUNDS − r] = Ke[r]`, then U1..U4 on rounds
    1 .. ROUNDS−1) is that modified schedule of the KeyExpansion words -/
theorem aes_decrypt_key_schedule_eq_spec (w : List (List UInt8)) (hw : ∀ x ∈ w, x.length = 4) (R : Nat)
    (hlen : w.length = 4 * (R + 1)) :
    Aes.Model.mkKd (w.map Aes.wd) R = .ok ((Aes.kdWords w R).map Aes.wd) ∧
    ∀ r, r ≤ R → Aes.Spec.roundKey (Aes.kdWords w R) r = Aes.Spec.dkOf (Aes.Spec.roundKey w) R r :=
  ⟨Aes.mkKd_spec w hw R, fun r hr => Aes.kd_roundKey w hw R r hr hlen⟩

/-- FULL: `Rijndael(key, 16).decrypt(block)` = InvCipher(KeyExpansion(key), block) of FIPS-197 for every
    key of 16, 24, 32 bytes and every 16-byte block -/
theorem aes_decrypt_eq_spec (key block : Bytes) (hk : key.length = 16 ∨ key.length = 24 ∨ key.length = 32)
    (hb : block.length = 16) :
    (Aes.Model.init key >>= fun k => Aes.Model.decrypt k block) = .ok (Aes.Spec.invCipher key block) :=
  Aes.decrypt_spec key block hk hb

example : (Aes.Model.init (zeros 32) >>= fun k => Aes.Model.decrypt k (zeros 16)) =
    .ok (Aes.Spec.invCipher (zeros 32) (zeros 16)) := aes_decrypt_eq_spec _ _ (Or.inr (Or.inr rfl)) rfl

/-- FIPS-197 InvCipher inverts Cipher under KeyExpansion (InvSubBytes∘SubBytes, InvShiftRows∘ShiftRows,
    InvMixColumns∘MixColumns — the latter from the 16 products of the two coefficient matrices checked for
    every byte — and AddRoundKey twice are identities) -/
theorem aes_spec_decrypt_encrypt (key block : Bytes) (hk : key.length = 16 ∨ key.length = 24 ∨ key.length = 32)
    (hb : block.length = 16) : Aes.Spec.invCipher key (Aes.Spec.cipher key block) = block :=
  Aes.invCipher_cipher key block hk hb

/-- one `Rijndael` object: `decrypt(encrypt(block)) = block` — the `D (E b) = b` hypothesis of the
    mode theorems above is discharged for tlslite's own AES -/
theorem aes_decrypt_encrypt (key block : Bytes) (hk : key.length = 16 ∨ key.length = 24 ∨ key.length = 32)
    (hb : block.length = 16) :
    (Aes.Model.init key >>= fun k => Aes.Model.encrypt k block >>= fun c => Aes.Model.decrypt k c) = .ok block :=
  Aes.model_decrypt_encrypt key block hk hb

/-- wrong key or block lengths raise ValueError -/
theorem aes_guards (key block : Bytes) :
    ((key.length ≠ 16 ∧ key.length ≠ 24 ∧ key.length ≠ 32) → Aes.Model.init key = .error .value) ∧
    (∀ k : Aes.Model.Keys, block.length ≠ 16 →
      Aes.Model.encrypt k block = .error .value ∧ Aes.Model.decrypt k block = .error .value) := by
  constructor
  · intro h; rw [Aes.Model.init, if_pos h]
  · intro k h
    simp [Aes.Model.encrypt, Aes.Model.decrypt, Aes.Model.crypt, h]

end Tls.Crypto.C09
