import TlsProofs.TranscriptFlows
import TlsProofs.TranscriptHrr
/-
  C04 — tampering with the handshake in flight cannot yield two endpoints that disagree.

  The endpoints of `TlsModel/Transcript.lean` run a flow script each, against deliveries chosen
  freely by the attacker (`inC`, `inS` are arbitrary lists: any replacement, drop, insertion or
  reordering of messages in either direction is a choice of these lists).  Message bodies, the
  Finished keys and all semantic checks are arbitrary functions of the local history (`Beh`).
  The cryptographic functions are parameters of which nothing is assumed; what would be a
  probabilistic security claim appears as the named events `HashCollision` / `FinishedForgery`.
-/
namespace Tls.Transcript

/-- The byte stream that is hashed determines the message list: handshake messages are
    self-delimiting (type, 3-byte length, body). -/
theorem transcript_encoding_injective (a b : List Msg)
    (ha : ∀ m ∈ a, m.WF) (hb : ∀ m ∈ b, m.WF) (h : encAll a = encAll b) : a = b :=
  encAll_inj ha hb h

example : encAll [⟨1, [7, 7]⟩, ⟨2, []⟩] = [1, 0, 0, 2, 7, 7, 2, 0, 0, 0] := by decide
/- without the length field the claim would be false: -/
example : ([1, 2] : Bytes) ++ [3] = [1] ++ [2, 3] := rfl

/-- If both endpoints accept the peer's Finished and reach the end of their flow — whatever the
    attacker delivered, and even if the two endpoints followed different flows or saw different
    optional messages — then their transcripts are equal and they hold the same Finished keys, or
    two different transcripts had the same digest, or a verify_data was accepted that the holder of
    the key never computed for that input. -/
theorem both_complete_transcripts_equal_or_bad_event (P : Prims) (fc fs : Flow) (oc os : Opts)
    (Bc Bs : Beh) (inC inS : List Wire) (c s : EP)
    (hc : runSide P .client Bc (flowScript fc oc) inC = .ok c)
    (hs : runSide P .server Bs (flowScript fs os) inS = .ok s) :
    (c.tr = s.tr ∧ finKeysAgree c s) ∨ HashCollision P c s ∨ FinishedForgery c s :=
  both_complete_general P fc fs oc os Bc Bs inC inS c s hc hs

/-! non-vacuity: a concrete TLS 1.3 PSK run with an "identity hash" completes on both sides -/
def exPrims : Prims := { inner := fun _ _ t => t, outer := fun k _ d => k ++ d, H := fun x => x }
def exBeh : Beh := { produce := fun k _ => [k.htype, 9], secret := fun _ => [5], check := fun _ _ _ => true }
def exCH : Msg := ⟨1, [1, 9]⟩
def exSH : Msg := ⟨2, [2, 9]⟩
def exEE : Msg := ⟨8, [8, 9]⟩
def exSFin : Msg := ⟨20, [5] ++ encAll [exCH, exSH, exEE]⟩
def exCFin : Msg := ⟨20, [5] ++ encAll [exCH, exSH, exEE, exSFin]⟩

example :
    (runSide exPrims .client exBeh (flowScript .psk13 {}) [.hs exSH, .hs exEE, .hs exSFin]).toOption.map (·.tr)
      = some [exCH, exSH, exEE, exSFin, exCFin] ∧
    (runSide exPrims .server exBeh (flowScript .psk13 {}) [.hs exCH, .hs exCFin]).toOption.map (·.tr)
      = some [exCH, exSH, exEE, exSFin, exCFin] := by decide
/- and a modified ServerHello makes the client stop at the server's Finished -/
example :
    (runSide exPrims .client exBeh (flowScript .psk13 {}) [.hs ⟨2, [2, 8]⟩, .hs exEE, .hs exSFin]).toOption.isNone
      = true := by decide

/-- Every view that is a function of the transcript — in particular the negotiated ServerHello
    parameters, both hellos, EncryptedExtensions and certificates — and the Finished keys coincide
    when both complete and no bad event occurred. -/
theorem complete_views_equal (P : Prims) (fc fs : Flow) (oc os : Opts)
    (Bc Bs : Beh) (inC inS : List Wire) (c s : EP)
    (hc : runSide P .client Bc (flowScript fc oc) inC = .ok c)
    (hs : runSide P .server Bs (flowScript fs os) inS = .ok s)
    (hcol : ¬ HashCollision P c s) (hforge : ¬ FinishedForgery c s) :
    negotiated c.tr = negotiated s.tr ∧ finKeysAgree c s ∧
    ∀ {α : Type} (view : List Msg → α), view c.tr = view s.tr := by
  rcases both_complete_general P fc fs oc os Bc Bs inC inS c s hc hs with ⟨htr, hk⟩ | h | h
  · exact ⟨by rw [htr], hk, fun view => by rw [htr]⟩
  · exact absurd h hcol
  · exact absurd h hforge

example : (negotiated [⟨1, [3, 3]⟩, ⟨2, [3, 3] ++ List.replicate 32 0 ++ [0, 0xc0, 0x2f, 0]⟩]).serverHello
    = some { legacyVersion := (3, 3), random := List.replicate 32 0, sessionId := [],
             suite := 0xc02f, compression := 0, extensions := [] } := by decide

/-- Downgrade sentinel, all version pairs SSLv3 … TLS 1.3: if both sides allow TLS 1.2 or
    higher and the ServerHello ends up below the highest common version, then with the server's
    honest random (whatever `getRandomBytes` produced) the client's check aborts with
    illegal_parameter. -/
theorem no_downgrade_tls12plus (cmax smax v : Version) (rnd8 : Bytes)
    (hc : cmax ∈ knownVersions) (hs : smax ∈ knownVersions) (hv : v ∈ knownVersions)
    (hc12 : vle (3, 3) cmax = true) (hs12 : vle (3, 3) smax = true)
    (hlt : vlt v (vmin cmax smax) = true) :
    clientChecksSentinel cmax v (serverRandomTail smax v rnd8) = .abort .illegalParameter := by
  simp only [knownVersions, List.mem_cons, List.not_mem_nil, or_false] at hc hs hv
  rcases hc with rfl | rfl | rfl | rfl | rfl <;> rcases hs with rfl | rfl | rfl | rfl | rfl <;>
    rcases hv with rfl | rfl | rfl | rfl | rfl <;>
    first
      | (exfalso; revert hc12 hs12 hlt; decide)
      | (simp [clientChecksSentinel, serverRandomTail, vlt, vle, sentinel11, sentinel12])

example : vle (3, 3) (3, 4) = true ∧ vlt (3, 2) (vmin (3, 4) (3, 3)) = true := by decide

/-- The sentinel never fires on an honest negotiation at the highest common version unless the
    random bytes happen to spell a sentinel. -/
theorem sentinel_no_false_alarm (cmax smax : Version) (rnd8 : Bytes)
    (hc : cmax ∈ knownVersions) (hs : smax ∈ knownVersions)
    (hr : rnd8 ≠ sentinel11 ∧ rnd8 ≠ sentinel12) :
    clientChecksSentinel cmax (vmin cmax smax) (serverRandomTail smax (vmin cmax smax) rnd8) = .proceed := by
  obtain ⟨h1, h2⟩ := hr
  have h1' : ¬ rnd8 = [68, 79, 87, 78, 71, 82, 68, 0] := h1
  have h2' : ¬ rnd8 = [68, 79, 87, 78, 71, 82, 68, 1] := h2
  simp only [knownVersions, List.mem_cons, List.not_mem_nil, or_false] at hc hs
  rcases hc with rfl | rfl | rfl | rfl | rfl <;> rcases hs with rfl | rfl | rfl | rfl | rfl <;>
    simp [clientChecksSentinel, serverRandomTail, vlt, vle, vmin, sentinel11, sentinel12, h1', h2']

/-- FALLBACK_SCSV: a client retrying with a lower maximum version (it then appends the SCSV) is
    refused with inappropriate_fallback by every server whose maximum is higher; and the SCSV
    alone never makes a server refuse a client at the server's own maximum. -/
theorem fallback_scsv_enforced (smin smax cmax' : Version) (sversions cversions : List Version)
    (suites : List Nat)
    (hs : smax ∈ knownVersions) (hc : cmax' ∈ knownVersions)
    (hcv : ∀ v ∈ cversions, vle v cmax' = true) :
    (vlt cmax' smax = true →
      ∃ v, serverSelectVersion sversions smin smax (clientOffer cmax' cversions).1 (clientOffer cmax' cversions).2 = .ok v ∧
        serverChecksScsv smax v (clientWireSuites suites true) = .abort .inappropriateFallback) ∧
    (∀ v, serverChecksScsv smax v (clientWireSuites suites true) = .proceed → vlt v smax = false) ∧
    (fallbackScsv ∉ suites → ∀ v, serverChecksScsv smax v (clientWireSuites suites false) = .proceed) := by
  refine ⟨?_, ?_, ?_⟩
  · intro hlt
    -- a client whose maximum is below a known server maximum does not offer TLS 1.3
    have hno13 : cversions.any (fun v => vlt (3, 3) v) = false := by
      rw [List.any_eq_false]
      intro v hv
      have h1 := hcv v hv
      simp only [knownVersions, List.mem_cons, List.not_mem_nil, or_false] at hs hc
      rcases hc with rfl | rfl | rfl | rfl | rfl <;> rcases hs with rfl | rfl | rfl | rfl | rfl <;>
        first
          | (exfalso; revert hlt; decide)
          | (rcases v with ⟨a, b⟩
             simp only [vle, vlt, Bool.or_eq_true, Bool.and_eq_true, decide_eq_true_eq, beq_iff_eq,
               Prod.mk.injEq] at h1
             simp only [vlt, Bool.not_eq_true, Bool.or_eq_false_iff, Bool.and_eq_false_imp,
               decide_eq_false_iff_not, beq_iff_eq]
             omega)
    simp only [clientOffer, hno13, serverSelectVersion]
    simp only [knownVersions, List.mem_cons, List.not_mem_nil, or_false] at hs hc
    rcases hc with rfl | rfl | rfl | rfl | rfl <;> rcases hs with rfl | rfl | rfl | rfl | rfl <;>
      first
        | (exfalso; revert hlt; decide)
        | (refine ⟨_, rfl, ?_⟩
           simp [serverChecksScsv, clientWireSuites, vlt, vmin, fallbackScsv])
  · intro v h
    simp only [serverChecksScsv, clientWireSuites, if_true, List.contains_append] at h
    cases hvl : vlt v smax with
    | false => rfl
    | true => simp [hvl, fallbackScsv] at h
  · intro hn v
    simp only [serverChecksScsv, clientWireSuites]
    simp
    intro _; exact hn

/-- … and this holds whatever the resumption lookup would return: the SCSV test comes before
    the server's resumption decision, so a fallback retry that offers a cached session or a ticket
    is refused exactly like one that does not; no abbreviated handshake is started. -/
theorem fallback_scsv_enforced_before_resumption (smin smax cmax' : Version)
    (sversions cversions : List Version) (suites : List Nat) (sessionFound : Bool)
    (hs : smax ∈ knownVersions) (hc : cmax' ∈ knownVersions)
    (hcv : ∀ v ∈ cversions, vle v cmax' = true) (hlt : vlt cmax' smax = true) :
    serverAfterHello sversions smin smax (clientOffer cmax' cversions).1 (clientOffer cmax' cversions).2
        (clientWireSuites suites true) sessionFound = .error .inappropriateFallback := by
  obtain ⟨v, hv, ha⟩ := (fallback_scsv_enforced smin smax cmax' sversions cversions suites hs hc hcv).1 hlt
  simp only [serverAfterHello, hv, ha]

example : (serverAfterHello [(3, 3), (3, 2), (3, 1)] (3, 1) (3, 3) (3, 2) none (clientWireSuites [0x2f] true) true).toOption
      = none ∧
    (serverAfterHello [(3, 3), (3, 2), (3, 1)] (3, 1) (3, 3) (3, 3) none (clientWireSuites [0x2f] true) true).toOption
      = some ((3, 3), .abbreviated) := by decide

example : (serverSelectVersion [(3, 4), (3, 3), (3, 2), (3, 1)] (3, 1) (3, 4) (3, 3) none).toOption = some (3, 3) ∧
    serverChecksScsv (3, 4) (3, 3) (clientWireSuites [0x2f] true) = .abort .inappropriateFallback := by
  decide

/-- HelloRetryRequest flows: when both complete without a bad event, they also agree on the
    first ClientHello, which enters the restarted transcript only through its digest in the
    synthetic `message_hash` message at the head of the transcript. -/
theorem hrr_transcript_binds_first_hello (P : Prims) (fc fs : Flow) (oc os : Opts)
    (Bc Bs : Beh) (inC inS : List Wire) (c s : EP)
    (hfc : isHrrFlow fc = true) (hfs : isHrrFlow fs = true)
    (hc : runSide P .client Bc (flowScript fc oc) inC = .ok c)
    (hs : runSide P .server Bs (flowScript fs os) inS = .ok s) :
    (c.tr = s.tr ∧ c.pre = s.pre ∧
      ∃ ch1 rest, c.pre = [ch1] ∧ ch1.htype = Kind.clientHello.htype ∧
        c.tr = ⟨Kind.messageHash.htype, P.H (encAll [ch1])⟩ :: rest) ∨
    HashCollision P c s ∨ FinishedForgery c s := by
  rcases both_complete_general P fc fs oc os Bc Bs inC inS c s hc hs with ⟨htr, _⟩ | h | h
  · obtain ⟨m1, r1, hp1, ht1, hw1, htr1⟩ := hrr_run_shape hfc hc
    obtain ⟨m2, r2, hp2, _, hw2, htr2⟩ := hrr_run_shape hfs hs
    rw [htr1, htr2] at htr
    simp only [List.cons.injEq, Msg.mk.injEq, true_and] at htr
    by_cases hpre : encAll c.pre = encAll s.pre
    · left
      have hm : m1 = m2 := by
        rw [hp1, hp2] at hpre
        simp only [encAll] at hpre
        exact (enc_append_inj hw1 hw2 hpre).1
      refine ⟨by rw [htr1, htr2, htr.1, htr.2], by rw [hp1, hp2, hm], m1, r1, hp1, ht1, htr1⟩
    · right; left; right
      refine ⟨hpre, ?_⟩
      rw [hp1, hp2]; exact htr.1
  · exact Or.inr (Or.inl h)
  · exact Or.inr (Or.inr h)

example : isHrrFlow .hrr13 = true ∧
    shapeOf (flowScript .hrr13 {}) [] = [254, 2, 1, 2, 8, 11, 15, 20, 20] := by decide

/-- The server's comparison of the second ClientHello with the first (after HelloRetryRequest):
    when it passes, the second hello has the same version, random, session id, cipher suites,
    compression methods and — in the same order, with the same payloads — the same extensions as
    the first, apart from key_share, cookie, padding, pre_shared_key and early_data.
    `pskLast` is the guard the server applied to the first hello ("PSK extension not last"). -/
theorem hrr_second_hello_consistent (ch1 ch2 : Hello) (groups : List Nat) (sel : Nat) (cookie : Bytes)
    (hpsk : pskLast ch1.exts) (h : hrrConsistent ch1 ch2 groups sel cookie = .ok ()) :
    ch2.version = ch1.version ∧ ch2.random = ch1.random ∧ ch2.sessionId = ch1.sessionId ∧
    ch2.suites = ch1.suites ∧ ch2.compression = ch1.compression ∧
    ch2.exts.filter (fun e => !hrrMutable e.typ) = ch1.exts.filter (fun e => !hrrMutable e.typ) :=
  hrrConsistent_sound ch1 ch2 groups sel cookie hpsk h

def exHello1 : Hello :=
  { version := (3, 3), random := [1, 2], sessionId := [9], suites := [0x1301], compression := [0],
    exts := [⟨43, [2, 3, 4]⟩, ⟨51, [0, 29, 1]⟩, ⟨16, [5]⟩] }
def exHello2 : Hello :=
  { exHello1 with exts := [⟨43, [2, 3, 4]⟩, ⟨51, [0, 23, 7]⟩, ⟨44, [0xaa]⟩, ⟨16, [5]⟩] }

example : (hrrConsistent exHello1 exHello2 [23] 23 [0xaa]).toOption = some () := by decide
/- a changed ALPN payload (or any other fixed extension) is refused -/
example : (hrrConsistent exHello1
    { exHello2 with exts := [⟨43, [2, 3, 4]⟩, ⟨51, [0, 23, 7]⟩, ⟨44, [0xaa]⟩, ⟨16, [6]⟩] } [23] 23 [0xaa]).toOption
      = none := by decide

/-- PSK binders: the binder is computed over everything hashed before the ClientHello plus the
    ClientHello cut exactly before the binder list.  If the server's `verify_binder` accepts the
    binder at `position` and the client computed that binder over its own hello with its own PSK,
    then both hold the same binder key and the same truncated hello (and prefix), or there is a
    hash collision, or the accepted binder is a forgery (valid under a key/input the client never
    used).  The truncation removes only the binder list: the hello is its truncation followed by
    `encBinders`. -/
theorem binder_covers_truncated_hello (Q : BinderPrims) (pskS pskC : Bytes) (ext : Bool)
    (preS preC chS chC : Bytes) (bindersS bindersC : List Bytes) (position : Nat) (b : Bytes)
    (hacc : verifyBinder Q pskS ext preS chS bindersS position = some true)
    (hb : bindersS[position]? = some b)
    (hcomp : b = binderValue Q pskC ext preC chC bindersC) :
    (Q.bkey pskS ext = Q.bkey pskC ext ∧ preS ++ pskTruncate chS bindersS = preC ++ pskTruncate chC bindersC) ∨
    -- hash collision
    (preS ++ pskTruncate chS bindersS ≠ preC ++ pskTruncate chC bindersC ∧
      Q.H (preS ++ pskTruncate chS bindersS) = Q.H (preC ++ pskTruncate chC bindersC)) ∨
    -- forgery: the accepted tag, computed by the client for its own (key, digest), is also valid
    -- for the different (key, digest) of the server
    ((Q.bkey pskS ext, Q.H (preS ++ pskTruncate chS bindersS)) ≠
       (Q.bkey pskC ext, Q.H (preC ++ pskTruncate chC bindersC)) ∧
      Q.mac (Q.bkey pskS ext) (Q.H (preS ++ pskTruncate chS bindersS)) =
        Q.mac (Q.bkey pskC ext) (Q.H (preC ++ pskTruncate chC bindersC))) := by
  have hv : b = binderValue Q pskS ext preS chS bindersS := by
    unfold verifyBinder at hacc
    rw [hb] at hacc
    simpa using hacc
  by_cases hin : (Q.bkey pskS ext, Q.H (preS ++ pskTruncate chS bindersS)) =
      (Q.bkey pskC ext, Q.H (preC ++ pskTruncate chC bindersC))
  · simp only [Prod.mk.injEq] at hin
    by_cases ht : preS ++ pskTruncate chS bindersS = preC ++ pskTruncate chC bindersC
    · exact Or.inl ⟨hin.1, ht⟩
    · exact Or.inr (Or.inl ⟨ht, hin.2⟩)
  · refine Or.inr (Or.inr ⟨hin, ?_⟩)
    have h1 : b = Q.mac (Q.bkey pskS ext) (Q.H (preS ++ pskTruncate chS bindersS)) := hv
    have h2 : b = Q.mac (Q.bkey pskC ext) (Q.H (preC ++ pskTruncate chC bindersC)) := hcomp
    rw [← h1, ← h2]

/-- what `psk_truncate` cuts off is exactly the serialised binder list -/
theorem truncate_append_binders (body : Bytes) (binders : List Bytes) :
    pskTruncate (body ++ encBinders binders) binders = body := by
  have hlen : (encBinders binders).length = bindersLen binders := by
    unfold encBinders bindersLen
    simp only [List.length_append, List.length_cons, List.length_nil]
    have : (binders.flatMap (fun b => UInt8.ofNat b.length :: b)).length =
        (binders.map (fun b => b.length + 1)).sum := by
      induction binders with
      | nil => rfl
      | cons x r ih => simp [List.flatMap_cons, ih]; omega
    omega
  unfold pskTruncate
  rw [List.length_append, hlen, Nat.add_sub_cancel, List.take_left' rfl]

example : pskTruncate ([1, 2, 3] ++ encBinders [[7, 7], [8]]) [[7, 7], [8]] = [1, 2, 3] := by decide

end Tls.Transcript
