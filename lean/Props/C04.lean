import TlsProofs.TranscriptFlows
import TlsProofs.TranscriptHrr
import TlsModel.Gen.Transcript
import TlsModel.TranscriptKeys
/-
  C04 — tampering with the handshake in flight cannot yield two endpoints that disagree.

  The endpoints of `TlsModel/Transcript.lean` run a flow script each, against deliveries chosen
  freely by the attacker (`inC`, `inS` are arbitrary lists: any replacement, drop, insertion or
  reordering of messages in either direction is a choice of these lists).  Message bodies, the
  Finished keys and all semantic checks are arbitrary functions of the local history (`Beh`).
  The cryptographic functions are parameters of which nothing is assumed; what would be a
  probabilistic security claim appears as the named events `HashCollision` / `FinishedForgery`.
-/
namespace Tls.Transcript

/-- The byte stream that is hashed determines the message list: handshake messages are
    self-delimiting (type, 3-byte length, body). -/
theorem transcript_encoding_injective (a b : List Msg)
    (ha : ∀ m ∈ a, m.WF) (hb : ∀ m ∈ b, m.WF) (h : encAll a = encAll b) : a = b :=
  encAll_inj ha hb h

example : encAll [⟨1, [7, 7]⟩, ⟨2, []⟩] = [1, 0, 0, 2, 7, 7, 2, 0, 0, 0] := by decide
/- without the length field the claim would be false: -/
example : ([1, 2] : Bytes) ++ [3] = [1] ++ [2, 3] := rfl

/-- If both endpoints accept the peer's Finished and reach the end of their flow — whatever the
    attacker delivered, and even if the two endpoints followed different flows or saw different
    optional messages — then their transcripts are equal and they hold the same Finished keys, or
    two different transcripts had the same digest, or a verify_data was accepted that the holder of
    the key never computed for that input. -/
theorem both_complete_transcripts_equal_or_bad_event (P : Prims) (fc fs : Flow) (oc os : Opts)
    (Bc Bs : Beh) (inC inS : List Wire) (c s : EP)
    (hc : runSide P .client Bc (flowScript fc oc) inC = .ok c)
    (hs : runSide P .server Bs (flowScript fs os) inS = .ok s) :
    (c.tr = s.tr ∧ finKeysAgree c s) ∨ HashCollision P c s ∨ FinishedForgery c s :=
  both_complete_general P fc fs oc os Bc Bs inC inS c s hc hs

/-! non-vacuity: a concrete TLS 1.3 PSK run with an "identity hash" completes on both sides -/
def exPrims : Prims := { inner := fun _ _ t => t, outer := fun k _ d => k ++ d, H := fun x => x }
def exBeh : Beh := { produce := fun k _ => [k.htype, 9], secret := fun _ => [5], check := fun _ _ _ => true }
def exCH : Msg := ⟨1, [1, 9]⟩
def exSH : Msg := ⟨2, [2, 9]⟩
def exEE : Msg := ⟨8, [8, 9]⟩
def exSFin : Msg := ⟨20, [5] ++ encAll [exCH, exSH, exEE]⟩
def exCFin : Msg := ⟨20, [5] ++ encAll [exCH, exSH, exEE, exSFin]⟩

example :
    (runSide exPrims .client exBeh (flowScript .psk13 {}) [.hs exSH, .hs exEE, .hs exSFin]).toOption.map (·.tr)
      = some [exCH, exSH, exEE, exSFin, exCFin] ∧
    (runSide exPrims .server exBeh (flowScript .psk13 {}) [.hs exCH, .hs exCFin]).toOption.map (·.tr)
      = some [exCH, exSH, exEE, exSFin, exCFin] := by decide
/- and a modified ServerHello makes the client stop at the server's Finished -/
example :
    (runSide exPrims .client exBeh (flowScript .psk13 {}) [.hs ⟨2, [2, 8]⟩, .hs exEE, .hs exSFin]).toOption.isNone
      = true := by decide

/-- Every view that is a function of the transcript — in particular the negotiated ServerHello
    parameters, both hellos, EncryptedExtensions and certificates — and the Finished keys coincide
    when both complete and no bad event occurred. -/
theorem complete_views_equal (P : Prims) (fc fs : Flow) (oc os : Opts)
    (Bc Bs : Beh) (inC inS : List Wire) (c s : EP)
    (hc : runSide P .client Bc (flowScript fc oc) inC = .ok c)
    (hs : runSide P .server Bs (flowScript fs os) inS = .ok s)
    (hcol : ¬ HashCollision P c s) (hforge : ¬ FinishedForgery c s) :
    negotiated c.tr = negotiated s.tr ∧ finKeysAgree c s ∧
    ∀ {α : Type} (view : List Msg → α), view c.tr = view s.tr := by
  rcases both_complete_general P fc fs oc os Bc Bs inC inS c s hc hs with ⟨htr, hk⟩ | h | h
  · exact ⟨by rw [htr], hk, fun view => by rw [htr]⟩
  · exact absurd h hcol
  · exact absurd h hforge

example : (negotiated [⟨1, [3, 3]⟩, ⟨2, [3, 3] ++ List.replicate 32 0 ++ [0, 0xc0, 0x2f, 0]⟩]).serverHello
    = some { legacyVersion := (3, 3), random := List.replicate 32 0, sessionId := [],
             suite := 0xc02f, compression := 0, extensions := [] } := by decide

/-- Downgrade sentinel, all version pairs SSLv3 … TLS 1.3: if both sides allow TLS 1.2 or
    higher and the ServerHello ends up below the highest common version, then with the server's
    honest random (whatever `getRandomBytes` produced) the client's check aborts with
    illegal_parameter. -/
theorem no_downgrade_tls12plus (cmax smax v : Version) (rnd8 : Bytes)
    (hc : cmax ∈ knownVersions) (hs : smax ∈ knownVersions) (hv : v ∈ knownVersions)
    (hc12 : vle (3, 3) cmax = true) (hs12 : vle (3, 3) smax = true)
    (hlt : vlt v (vmin cmax smax) = true) :
    clientChecksSentinel cmax v (serverRandomTail smax v rnd8) = .abort .illegalParameter := by
  simp only [knownVersions, List.mem_cons, List.not_mem_nil, or_false] at hc hs hv
  rcases hc with rfl | rfl | rfl | rfl | rfl <;> rcases hs with rfl | rfl | rfl | rfl | rfl <;>
    rcases hv with rfl | rfl | rfl | rfl | rfl <;>
    first
      | (exfalso; revert hc12 hs12 hlt; decide)
      | (simp [clientChecksSentinel, serverRandomTail, vlt, vle, sentinel11, sentinel12])

example : vle (3, 3) (3, 4) = true ∧ vlt (3, 2) (vmin (3, 4) (3, 3)) = true := by decide

/-- The sentinel never fires on an honest negotiation at the highest common version unless the
    random bytes happen to spell a sentinel. -/
theorem sentinel_no_false_alarm (cmax smax : Version) (rnd8 : Bytes)
    (hc : cmax ∈ knownVersions) (hs : smax ∈ knownVersions)
    (hr : rnd8 ≠ sentinel11 ∧ rnd8 ≠ sentinel12) :
    clientChecksSentinel cmax (vmin cmax smax) (serverRandomTail smax (vmin cmax smax) rnd8) = .proceed := by
  obtain ⟨h1, h2⟩ := hr
  have h1' : ¬ rnd8 = [68, 79, 87, 78, 71, 82, 68, 0] := h1
  have h2' : ¬ rnd8 = [68, 79, 87, 78, 71, 82, 68, 1] := h2
  simp only [knownVersions, List.mem_cons, List.not_mem_nil, or_false] at hc hs
  rcases hc with rfl | rfl | rfl | rfl | rfl <;> rcases hs with rfl | rfl | rfl | rfl | rfl <;>
    simp [clientChecksSentinel, serverRandomTail, vlt, vle, vmin, sentinel11, sentinel12, h1', h2']

/-- FALLBACK_SCSV: a client retrying with a lower maximum version (it then appends the SCSV) is
    refused with inappropriate_fallback by every server whose maximum is higher; and the SCSV
    alone never makes a server refuse a client at the server's own maximum. -/
theorem fallback_scsv_enforced (smin smax cmax' : Version) (sversions cversions : List Version)
    (suites : List Nat)
    (hs : smax ∈ knownVersions) (hc : cmax' ∈ knownVersions)
    (hcv : ∀ v ∈ cversions, vle v cmax' = true) :
    (vlt cmax' smax = true →
      ∃ v, serverSelectVersion sversions smin smax (clientOffer cmax' cversions).1 (clientOffer cmax' cversions).2 = .ok v ∧
        serverChecksScsv smax v (clientWireSuites suites true) = .abort .inappropriateFallback) ∧
    (∀ v, serverChecksScsv smax v (clientWireSuites suites true) = .proceed → vlt v smax = false) ∧
    (fallbackScsv ∉ suites → ∀ v, serverChecksScsv smax v (clientWireSuites suites false) = .proceed) := by
  refine ⟨?_, ?_, ?_⟩
  · intro hlt
    -- a client whose maximum is below a known server maximum does not offer TLS 1.3
    have hno13 : cversions.any (fun v => vlt (3, 3) v) = false := by
      rw [List.any_eq_false]
      intro v hv
      have h1 := hcv v hv
      simp only [knownVersions, List.mem_cons, List.not_mem_nil, or_false] at hs hc
      rcases hc with rfl | rfl | rfl | rfl | rfl <;> rcases hs with rfl | rfl | rfl | rfl | rfl <;>
        first
          | (exfalso; revert hlt; decide)
          | (rcases v with ⟨a, b⟩
             simp only [vle, vlt, Bool.or_eq_true, Bool.and_eq_true, decide_eq_true_eq, beq_iff_eq,
               Prod.mk.injEq] at h1
             simp only [vlt, Bool.not_eq_true, Bool.or_eq_false_iff, Bool.and_eq_false_imp,
               decide_eq_false_iff_not, beq_iff_eq]
             omega)
    simp only [clientOffer, hno13, serverSelectVersion]
    simp only [knownVersions, List.mem_cons, List.not_mem_nil, or_false] at hs hc
    rcases hc with rfl | rfl | rfl | rfl | rfl <;> rcases hs with rfl | rfl | rfl | rfl | rfl <;>
      first
        | (exfalso; revert hlt; decide)
        | (refine ⟨_, rfl, ?_⟩
           simp [serverChecksScsv, clientWireSuites, vlt, vmin, fallbackScsv])
  · intro v h
    simp only [serverChecksScsv, clientWireSuites, if_true, List.contains_append] at h
    cases hvl : vlt v smax with
    | false => rfl
    | true => simp [hvl, fallbackScsv] at h
  · intro hn v
    simp only [serverChecksScsv, clientWireSuites]
    simp
    intro _; exact hn

/-- … and this holds whatever the resumption lookup would return: the SCSV test comes before
    the server's resumption decision, so a fallback retry that offers a cached session or a ticket
    is refused exactly like one that does not; no abbreviated handshake is started. -/
theorem fallback_scsv_enforced_before_resumption (smin smax cmax' : Version)
    (sversions cversions : List Version) (suites : List Nat) (sessionFound : Bool)
    (hs : smax ∈ knownVersions) (hc : cmax' ∈ knownVersions)
    (hcv : ∀ v ∈ cversions, vle v cmax' = true) (hlt : vlt cmax' smax = true) :
    serverAfterHello sversions smin smax (clientOffer cmax' cversions).1 (clientOffer cmax' cversions).2
        (clientWireSuites suites true) sessionFound = .error .inappropriateFallback := by
  obtain ⟨v, hv, ha⟩ := (fallback_scsv_enforced smin smax cmax' sversions cversions suites hs hc hcv).1 hlt
  simp only [serverAfterHello, hv, ha]

example : (serverAfterHello [(3, 3), (3, 2), (3, 1)] (3, 1) (3, 3) (3, 2) none (clientWireSuites [0x2f] true) true).toOption
      = none ∧
    (serverAfterHello [(3, 3), (3, 2), (3, 1)] (3, 1) (3, 3) (3, 3) none (clientWireSuites [0x2f] true) true).toOption
      = some ((3, 3), .abbreviated) := by decide

example : (serverSelectVersion [(3, 4), (3, 3), (3, 2), (3, 1)] (3, 1) (3, 4) (3, 3) none).toOption = some (3, 3) ∧
    serverChecksScsv (3, 4) (3, 3) (clientWireSuites [0x2f] true) = .abort .inappropriateFallback := by
  decide

/-- HelloRetryRequest flows: when both complete without a bad event, they also agree on the
    first ClientHello, which enters the restarted transcript only through its digest in the
    synthetic `message_hash` message at the head of the transcript. -/
theorem hrr_transcript_binds_first_hello (P : Prims) (fc fs : Flow) (oc os : Opts)
    (Bc Bs : Beh) (inC inS : List Wire) (c s : EP)
    (hfc : isHrrFlow fc = true) (hfs : isHrrFlow fs = true)
    (hc : runSide P .client Bc (flowScript fc oc) inC = .ok c)
    (hs : runSide P .server Bs (flowScript fs os) inS = .ok s) :
    (c.tr = s.tr ∧ c.pre = s.pre ∧
      ∃ ch1 rest, c.pre = [ch1] ∧ ch1.htype = Kind.clientHello.htype ∧
        c.tr = ⟨Kind.messageHash.htype, P.H (encAll [ch1])⟩ :: rest) ∨
    HashCollision P c s ∨ FinishedForgery c s := by
  rcases both_complete_general P fc fs oc os Bc Bs inC inS c s hc hs with ⟨htr, _⟩ | h | h
  · obtain ⟨m1, r1, hp1, ht1, hw1, htr1⟩ := hrr_run_shape hfc hc
    obtain ⟨m2, r2, hp2, _, hw2, htr2⟩ := hrr_run_shape hfs hs
    rw [htr1, htr2] at htr
    simp only [List.cons.injEq, Msg.mk.injEq, true_and] at htr
    by_cases hpre : encAll c.pre = encAll s.pre
    · left
      have hm : m1 = m2 := by
        rw [hp1, hp2] at hpre
        simp only [encAll] at hpre
        exact (enc_append_inj hw1 hw2 hpre).1
      refine ⟨by rw [htr1, htr2, htr.1, htr.2], by rw [hp1, hp2, hm], m1, r1, hp1, ht1, htr1⟩
    · right; left; right
      refine ⟨hpre, ?_⟩
      rw [hp1, hp2]; exact htr.1
  · exact Or.inr (Or.inl h)
  · exact Or.inr (Or.inr h)

example : isHrrFlow .hrr13 = true ∧
    shapeOf (flowScript .hrr13 {}) [] = [254, 2, 1, 2, 8, 11, 15, 20, 20] := by decide

/-- The server's comparison of the second ClientHello with the first (after HelloRetryRequest):
    when it passes, the second hello has the same version, random, session id, cipher suites,
    compression methods and — in the same order, with the same payloads — the same extensions as
    the first, apart from key_share, cookie, padding, pre_shared_key and early_data.
    `pskLast` is the guard the server applied to the first hello ("PSK extension not last"). -/
theorem hrr_second_hello_consistent (ch1 ch2 : Hello) (groups : List Nat) (sel : Nat) (cookie : Bytes)
    (hpsk : pskLast ch1.exts) (h : hrrConsistent ch1 ch2 groups sel cookie = .ok ()) :
    ch2.version = ch1.version ∧ ch2.random = ch1.random ∧ ch2.sessionId = ch1.sessionId ∧
    ch2.suites = ch1.suites ∧ ch2.compression = ch1.compression ∧
    ch2.exts.filter (fun e => !hrrMutable e.typ) = ch1.exts.filter (fun e => !hrrMutable e.typ) :=
  hrrConsistent_sound ch1 ch2 groups sel cookie hpsk h

def exHello1 : Hello :=
  { version := (3, 3), random := [1, 2], sessionId := [9], suites := [0x1301], compression := [0],
    exts := [⟨43, [2, 3, 4]⟩, ⟨51, [0, 29, 1]⟩, ⟨16, [5]⟩] }
def exHello2 : Hello :=
  { exHello1 with exts := [⟨43, [2, 3, 4]⟩, ⟨51, [0, 23, 7]⟩, ⟨44, [0xaa]⟩, ⟨16, [5]⟩] }

example : (hrrConsistent exHello1 exHello2 [23] 23 [0xaa]).toOption = some () := by decide
/- a changed ALPN payload (or any other fixed extension) is refused -/
example : (hrrConsistent exHello1
    { exHello2 with exts := [⟨43, [2, 3, 4]⟩, ⟨51, [0, 23, 7]⟩, ⟨44, [0xaa]⟩, ⟨16, [6]⟩] } [23] 23 [0xaa]).toOption
      = none := by decide

/-- PSK binders: the binder is computed over everything hashed before the ClientHello plus the
    ClientHello cut exactly before the binder list.  If the server's `verify_binder` accepts the
    binder at `position` and the client computed that binder over its own hello with its own PSK,
    then both hold the same binder key and the same truncated hello (and prefix), or there is a
    hash collision, or the accepted binder is a forgery (valid under a key/input the client never
    used).  The truncation removes only the binder list: the hello is its truncation followed by
    `encBinders`. -/
theorem binder_covers_truncated_hello (Q : BinderPrims) (pskS pskC : Bytes) (ext : Bool)
    (preS preC chS chC : Bytes) (bindersS bindersC : List Bytes) (position : Nat) (b : Bytes)
    (hacc : verifyBinder Q pskS ext preS chS bindersS position = some true)
    (hb : bindersS[position]? = some b)
    (hcomp : b = binderValue Q pskC ext preC chC bindersC) :
    (Q.bkey pskS ext = Q.bkey pskC ext ∧ preS ++ pskTruncate chS bindersS = preC ++ pskTruncate chC bindersC) ∨
    -- hash collision
    (preS ++ pskTruncate chS bindersS ≠ preC ++ pskTruncate chC bindersC ∧
      Q.H (preS ++ pskTruncate chS bindersS) = Q.H (preC ++ pskTruncate chC bindersC)) ∨
    -- forgery: the accepted tag, computed by the client for its own (key, digest), is also valid
    -- for the different (key, digest) of the server
    ((Q.bkey pskS ext, Q.H (preS ++ pskTruncate chS bindersS)) ≠
       (Q.bkey pskC ext, Q.H (preC ++ pskTruncate chC bindersC)) ∧
      Q.mac (Q.bkey pskS ext) (Q.H (preS ++ pskTruncate chS bindersS)) =
        Q.mac (Q.bkey pskC ext) (Q.H (preC ++ pskTruncate chC bindersC))) := by
  have hv : b = binderValue Q pskS ext preS chS bindersS := by
    unfold verifyBinder at hacc
    rw [hb] at hacc
    simpa using hacc
  by_cases hin : (Q.bkey pskS ext, Q.H (preS ++ pskTruncate chS bindersS)) =
      (Q.bkey pskC ext, Q.H (preC ++ pskTruncate chC bindersC))
  · simp only [Prod.mk.injEq] at hin
    by_cases ht : preS ++ pskTruncate chS bindersS = preC ++ pskTruncate chC bindersC
    · exact Or.inl ⟨hin.1, ht⟩
    · exact Or.inr (Or.inl ⟨ht, hin.2⟩)
  · refine Or.inr (Or.inr ⟨hin, ?_⟩)
    have h1 : b = Q.mac (Q.bkey pskS ext) (Q.H (preS ++ pskTruncate chS bindersS)) := hv
    have h2 : b = Q.mac (Q.bkey pskC ext) (Q.H (preC ++ pskTruncate chC bindersC)) := hcomp
    rw [← h1, ← h2]

/-- what `psk_truncate` cuts off is exactly the serialised binder list -/
theorem truncate_append_binders (body : Bytes) (binders : List Bytes) :
    pskTruncate (body ++ encBinders binders) binders = body := by
  have hlen : (encBinders binders).length = bindersLen binders := by
    unfold encBinders bindersLen
    simp only [List.length_append, List.length_cons, List.length_nil]
    have : (binders.flatMap (fun b => UInt8.ofNat b.length :: b)).length =
        (binders.map (fun b => b.length + 1)).sum := by
      induction binders with
      | nil => rfl
      | cons x r ih => simp [List.flatMap_cons, ih]; omega
    omega
  unfold pskTruncate
  rw [List.length_append, hlen, Nat.add_sub_cancel, List.take_left' rfl]

example : pskTruncate ([1, 2, 3] ++ encBinders [[7, 7], [8]]) [[7, 7], [8]] = [1, 2, 3] := by decide

/-! ## the regenerated tables (translate/gen_transcript.py reads them from the source on every run)

`TlsModel/Gen/Transcript.lean` is what the code says *now*; the theorems below tie it to the
hand-written model.  An edit of the sentinel / SCSV conditions, of what the record layer hashes,
of the transcript a Derive-Secret / Finished / CertificateVerify uses, or of the <= 1.2 labels and
EMS snapshot makes one of them false (a shape the translator does not understand evaluates to
`none` / an unknown kind and fails as well). -/
open GenBase Keys

/-- the server's sentinel writes, as read from the source, compute `serverRandomTail` -/
theorem generated_sentinel_write_is_model (smax v : Version) (rnd : Bytes)
    (hs : smax ∈ knownVersions) (hv : v ∈ knownVersions) :
    applyWrites { version := v, maxVersion := smax } Gen.sentinelWrites rnd
      = some (serverRandomTail smax v rnd) := by
  simp only [knownVersions, List.mem_cons, List.not_mem_nil, or_false] at hs hv
  rcases hs with rfl | rfl | rfl | rfl | rfl <;> rcases hv with rfl | rfl | rfl | rfl | rfl <;> rfl

/-- the client's sentinel checks, as read from the source, compute `clientChecksSentinel`; the
    constants are used nowhere else -/
theorem generated_sentinel_check_is_model (cmax v : Version) (tail : Bytes)
    (hc : cmax ∈ knownVersions) (hv : v ∈ knownVersions) :
    firstAlert { selfVersion := v, maxVersion := cmax, tail := tail } Gen.sentinelChecks
      = some (verdictAlert (clientChecksSentinel cmax v tail)) ∧ Gen.sentinelMentions = 5 := by
  refine ⟨?_, rfl⟩
  simp only [knownVersions, List.mem_cons, List.not_mem_nil, or_false] at hc hv
  by_cases h2 : tail = sentinel12
  · subst h2
    rcases hc with rfl | rfl | rfl | rfl | rfl <;> rcases hv with rfl | rfl | rfl | rfl | rfl <;> rfl
  · by_cases h1 : tail = sentinel11
    · subst h1
      rcases hc with rfl | rfl | rfl | rfl | rfl <;> rcases hv with rfl | rfl | rfl | rfl | rfl <;> rfl
    · have e2 : (tail == sentinel12) = false := by simpa using h2
      have e1 : (tail == sentinel11) = false := by simpa using h1
      rcases hc with rfl | rfl | rfl | rfl | rfl <;> rcases hv with rfl | rfl | rfl | rfl | rfl <;>
        simp [Gen.sentinelChecks, firstAlert, Cond.eval, CmpOp.eval, VExp.eval, sentinelOf, clientChecksSentinel,
          verdictAlert, vlt, vle, e1, e2]

/-- the single FALLBACK_SCSV test of the server is `serverChecksScsv`, stands before the resumption
    block, the client appends the SCSV exactly under `settings.sendFallbackSCSV`, and every
    ClientHello it builds (with or without an offered session) carries that list -/
theorem generated_scsv_check_is_model :
    Gen.scsvBeforeResumption = true ∧ Gen.scsvMentions = 2 ∧
    Gen.scsvAppend = [(.flag "sendFallbackSCSV", "wireCipherSuites")] ∧
    (∀ a ∈ Gen.clientHelloSuites, a = "wireCipherSuites") ∧
    ∀ smax ∈ knownVersions, ∀ v ∈ knownVersions, ∀ scsv : Bool,
      firstAlert { version := v, maxVersion := smax, scsv := scsv } Gen.scsvChecks
        = some (verdictAlert (serverChecksScsv smax v (if scsv then [fallbackScsv] else []))) := by
  refine ⟨rfl, rfl, rfl, by decide, ?_⟩
  decide

/-- what enters `_handshake_hash`: every handshake message sent (`msg.write()`), queued or received
    (raw `p.bytes`), unconditionally; nothing else; the two HRR restarts feed `message_hash` -/
theorem generated_hash_sites_are_model :
    Gen.hashSites = [("_sendMsg", "buf", .and (.flag "updateHashes") (.flag "isHandshake")),
                     ("_queue_message", "serialised_msg", .flag "isHandshake"),
                     ("_getMsg", "p.bytes", .flag "always")] ∧
    Gen.otherHashUpdates = [] ∧
    ("buf", "msg.write()") ∈ Gen.hashedVarDefs ∧ ("serialised_msg", "msg.write()") ∈ Gen.hashedVarDefs ∧
    Gen.restartSites =
      [("_clientGetServerHello", "inline",
        ["writer.add(HandshakeType.message_hash, 1)", "writer.addVarSeq(client_hello_hash.digest(prf_name), 1, 3)",
         "self._handshake_hash.update(writer.bytes)", "self._handshake_hash.update(hello_retry.write())"]),
       ("_serverGetClientHello", "self._handshake_hash.digest(prf_name)",
        ["writer.add(HandshakeType.message_hash, 1)", "writer.addVarSeq(client_hello_hash, 1, 3)",
         "self._handshake_hash.update(writer.bytes)"])] := by
  decide

def flows13 : List Flow := [.full13, .hrr13, .psk13, .pskHrr13]

/-- For every TLS 1.3 flow and option set: running the source-ordered message calls of
    `_clientTLS13Handshake` / `_serverTLS13Handshake` against the flow, each Derive-Secret, Finished
    digest, CertificateVerify context and the `_first_handshake_hashes` snapshot sees exactly the
    transcript prefix RFC 8446 prescribes (`specPoints13`), and nothing else is derived. -/
theorem generated_schedule13_conforms (f : Flow) (o : Opts) (hf : f ∈ flows13) :
    schedConforms Gen.sched13Client f o = true ∧ schedConforms Gen.sched13Server f o = true := by
  rcases o with ⟨a, b, c, d, e, g, h⟩
  simp only [flows13, List.mem_cons, List.not_mem_nil, or_false] at hf
  rcases hf with rfl | rfl | rfl | rfl <;>
    cases a <;> cases b <;> cases c <;> cases d <;> cases e <;> cases g <;> cases h <;> decide

/-- <= 1.2: labels of sender and receiver correspond, the whole verify_data is compared (also in
    1.3), the EMS session hash is frozen right after ClientKeyExchange on both sides -/
theorem generated_tls12_finished_and_master_secret :
    Gen.finished12 =
      [("_sendFinished", "client finished", "server finished", "self._handshake_hash/12", "no comparison"),
       ("_getFinished", "server finished", "client finished", "self._handshake_hash/12",
        "finished.verify_data != verifyData")] ∧
    Gen.finished13Compares =
      [("_clientTLS13Handshake", "finished.verify_data != verify_data"),
       ("_serverTLS13Handshake", "cl_finished.verify_data != cl_verify_data")] ∧
    Gen.emsSnapshots = [("_clientKeyExchange", "send:client_key_exchange"),
                        ("_serverCertKeyExchange", "recv:client_key_exchange")] ∧
    Gen.masterSecretCalls =
      [("extended master secret", "handshake_hashes=cvhh", "ems"),
       ("master secret", "client_random=client_random;server_random=server_random", "noems")] ∧
    Gen.masterSecretFallback = ["not cvhh"] := by
  decide

/-- TLS 1.3: every secret of the key schedule is a function of (PSK, ECDHE, transcript prefix up
    to the message RFC 8446 prescribes): two transcripts that agree on the first `n` messages give
    the same secrets for every point `≤ n`; in particular the handshake traffic secrets depend on
    nothing after ServerHello and nothing at all depends on what follows the client Finished. -/
theorem keys13_depend_only_on_transcript_prefix (K : Hkdf) (psk ecdhe : Bytes) (pre tr1 tr2 : List Msg)
    (p : Points13) :
    (tr1.take p.hs = tr2.take p.hs →
      (keySchedule13 K psk ecdhe pre tr1 p).sHsTraffic = (keySchedule13 K psk ecdhe pre tr2 p).sHsTraffic ∧
      (keySchedule13 K psk ecdhe pre tr1 p).cHsTraffic = (keySchedule13 K psk ecdhe pre tr2 p).cHsTraffic) ∧
    (tr1.take p.ap = tr2.take p.ap →
      (keySchedule13 K psk ecdhe pre tr1 p).sApTraffic = (keySchedule13 K psk ecdhe pre tr2 p).sApTraffic ∧
      (keySchedule13 K psk ecdhe pre tr1 p).cApTraffic = (keySchedule13 K psk ecdhe pre tr2 p).cApTraffic) ∧
    (tr1.take p.cFinished = tr2.take p.cFinished →
      (keySchedule13 K psk ecdhe pre tr1 p).exporter = (keySchedule13 K psk ecdhe pre tr2 p).exporter) ∧
    (tr1.take p.res = tr2.take p.res →
      (keySchedule13 K psk ecdhe pre tr1 p).resumption = (keySchedule13 K psk ecdhe pre tr2 p).resumption) := by
  refine ⟨?_, ?_, ?_, ?_⟩ <;> intro h <;> simp [keySchedule13, h]

/-- two endpoints with the same PSK and (EC)DHE secret and equal transcripts hold equal secrets -/
theorem equal_transcripts_equal_secrets13 (K : Hkdf) (psk ecdhe : Bytes) (pre1 pre2 tr1 tr2 : List Msg)
    (p : Points13) (hpre : pre1 = pre2) (htr : tr1 = tr2) :
    keySchedule13 K psk ecdhe pre1 tr1 p = keySchedule13 K psk ecdhe pre2 tr2 p := by
  rw [hpre, htr]

/-- The Finished values of the TLS 1.3 key schedule are the `finishedVerifyData` of the reduction
    theorem (primitives `prims13`, key = the sender's handshake traffic secret, transcript = the
    prescribed prefix): `both_complete_transcripts_equal_or_bad_event` speaks about this schedule. -/
theorem keySchedule13_finished_is_model_finished (K : Hkdf) (psk ecdhe : Bytes) (pre tr : List Msg) (p : Points13) :
    (keySchedule13 K psk ecdhe pre tr p).sFinished =
      finishedVerifyData (prims13 K) .server (pre ++ tr.take p.sFinished) (keySchedule13 K psk ecdhe pre tr p).sHsTraffic ∧
    (keySchedule13 K psk ecdhe pre tr p).cFinished =
      finishedVerifyData (prims13 K) .client (pre ++ tr.take p.cFinished) (keySchedule13 K psk ecdhe pre tr p).cHsTraffic :=
  ⟨rfl, rfl⟩

/-- Different prefixes at a Finished give different MAC inputs unless two different transcripts
    have the same hash (the `HashCollision` event), for TLS 1.3 and below. -/
theorem finished_inputs_differ_or_collision (H : Bytes → Bytes) (t1 t2 : List Msg)
    (h1 : ∀ m ∈ t1, m.WF) (h2 : ∀ m ∈ t2, m.WF) (hne : t1 ≠ t2) :
    H (encAll t1) ≠ H (encAll t2) ∨ (encAll t1 ≠ encAll t2 ∧ H (encAll t1) = H (encAll t2)) := by
  by_cases h : H (encAll t1) = H (encAll t2)
  · exact Or.inr ⟨fun he => hne (encAll_inj h1 h2 he), h⟩
  · exact Or.inl h

/-- TLS ≤ 1.2: verify_data is the model's Finished with the version's PRF and labels, and with the
    extended master secret the master secret is a function of the transcript through
    ClientKeyExchange (so equal session transcripts and premaster secrets give equal masters). -/
theorem verifyData12_is_model_finished (R : Prf12) (master : Bytes) (sender : Side) (tr : List Msg) :
    verifyData12 R master sender tr = finishedVerifyData (prims12 R) sender tr master ∧
    ∀ (pms cr1 sr1 cr2 sr2 : Bytes) (s1 s2 : List Msg), s1 = s2 →
      masterSecret12 R true pms cr1 sr1 (encAll s1) = masterSecret12 R true pms cr2 sr2 (encAll s2) := by
  refine ⟨rfl, ?_⟩
  intro pms cr1 sr1 cr2 sr2 s1 s2 h
  simp [masterSecret12, h]

example : specPoints13 .full13 { certReq := true, clientCert := true } =
    some { hs := 2, sCertVerify := some 5, sFinished := 6, ap := 7, cCertVerify := some 8, cFinished := 9, res := 10 } := by
  decide
example : specPoints12 .full12 { ske := true } = some { ems := some 6, cFinished := 6, sFinished := 7 } := by decide

end Tls.Transcript
