import TlsProofs.SettingsAlias
import TlsProofs.SettingsDomain
/-
  C19 — settings validation is pure and idempotent, yields only what the installation supports and
  rejects what is outside the documented domains.

  Two models of `HandshakeSettings.validate()` (tlslite/handshakesettings.py), both tied to the
  source on every run:
  * `Gen.validateOps` — the alias / copy / mutate structure, *generated* from the AST of `validate`
    and every helper it calls (translate/gen_settings.py); interpreted over an object store
    (`runOps`).  Purity is a theorem about every op list the checker `pureOps` accepts, plus the
    closed fact that the generated list is accepted.
  * `validate : Env → Settings → Except String Settings` — the value-level model (hand-written
    control logic over generated name lists and defaults), tied by correspondence.

  The second half of the property ("compatible settings connect") needs live handshakes and is
  checked with C03/C07; `Tls.Settings.compatible` is the model-level precondition only.
-/
namespace Tls.Settings

/-- **Purity, generic part.**  For every op list accepted by `pureOps`, every initial store (any heap,
    any attribute bindings of receiver and copy, the allocator's `next` above everything the
    receiver reaches), every truth assignment `bits` of the branch conditions and every behaviour
    `I` of the abstracted parts (contents of new lists, what an in-place change does, which `raise`
    fires): after the run the receiver's attributes are bound to the same objects and every object
    the receiver reaches has the content it had. -/
theorem validate_pure {α : Type} (ops : List AliasOp) (h : pureOps ops = true) (I : Interp α)
    (bits : List Bool) (st : Store α) (hwf : ∀ f o, st.selfF f = some o → o < st.next) :
    (runOps I bits ops st).selfF = st.selfF ∧
    ∀ f o, st.selfF f = some o → (runOps I bits ops st).objs o = st.objs o :=
  pureOps_sound ops h I bits st hwf

/-- **Purity, closed part** (re-checked against the current source on every run): the effects the
    translator reads from `validate()` are accepted — no `unknown`, no re-binding of a receiver
    attribute, and on every path every in-place change hits a list that was copied first. -/
theorem validateOps_accepted : pureOps Gen.validateOps = true := by decide

/-- the two together: `validate()` as it is written today leaves its receiver untouched -/
theorem validate_receiver_unchanged {α : Type} (I : Interp α) (bits : List Bool) (st : Store α)
    (hwf : ∀ f o, st.selfF f = some o → o < st.next) :
    (runOps I bits Gen.validateOps st).selfF = st.selfF ∧
    ∀ f o, st.selfF f = some o → (runOps I bits Gen.validateOps st).objs o = st.objs o :=
  validate_pure Gen.validateOps validateOps_accepted I bits st hwf

-- non-vacuity: the defect shape (alias, then filter in place) is rejected by the checker …
example : pureOps [⟨[], .initOther ["cipherImplementations"]⟩,
                   ⟨[], .alias "cipherImplementations" .self "cipherImplementations"⟩,
                   ⟨[(0, true)], .mutate .other "cipherImplementations" 0⟩] = false := by decide
-- … and really changes the receiver's list in the store semantics (object 0 = the receiver's list)
example :
    let I : Interp (List String) := ⟨fun _ => [], fun _ l => l.filter (· != "openssl"), fun _ => false, id⟩
    let st : Store (List String) := ⟨fun _ => ["openssl", "python"], 1,
      fun f => if f = "cipherImplementations" then some 0 else none, fun _ => none⟩
    (runOps I [true] [⟨[], .initOther ["cipherImplementations"]⟩,
        ⟨[], .alias "cipherImplementations" .self "cipherImplementations"⟩,
        ⟨[(0, true)], .mutate .other "cipherImplementations" 0⟩] st).objs 0 = ["python"] := by decide
-- the repaired shape (copy first) is accepted, and the hypothesis of `validate_pure` is satisfiable
example : pureOps [⟨[], .initOther ["cipherImplementations"]⟩,
                   ⟨[], .alias "cipherImplementations" .self "cipherImplementations"⟩,
                   ⟨[], .copy "cipherImplementations" .other "cipherImplementations"⟩,
                   ⟨[(0, true)], .mutate .other "cipherImplementations" 0⟩] = true := by decide
-- the generated list is not trivial: it contains in-place changes and aliasing
example : (Gen.validateOps.filter fun op => match op.act with | .mutate .. => true | _ => false).length ≥ 3 := by
  decide

/-- **Purity across use.**  The copy handed out by `validate()` shares list objects with its receiver
    (`finalTaint` of the generated alias structure, on every path); the translator's scan of every other
    tlslite module finds no in-place change (`.remove/.append/.sort/…`, `del x[i]`, slice or augmented
    assignment, also through a local alias) of such a list and no settings list stored by reference
    where the scan cannot follow it.  So handshake code working on a validated copy cannot change the
    caller's object through a shared list.  (Both sides are regenerated from the source on every run.) -/
theorem use_never_mutates_shared_lists :
    useSafe Gen.validateOps Gen.useMutatedFields = true ∧ Gen.useScanProblems = [] := by decide

-- non-vacuity: `versions` IS shared on some path, so an in-place change of it anywhere would break the
-- obligation; `cipherImplementations` is always copied first
example : useSafe Gen.validateOps ["versions"] = false := by decide
example : useSafe Gen.validateOps ["keyShares"] = false := by decide
example : useSafe Gen.validateOps ["cipherImplementations"] = true := by decide

/-- the translator classified every module-level statement and every default, and its symbolic
    values agree with the imported module -/
theorem gen_settings_classified : Gen.constsOk = true ∧ Gen.defaultsOk = true := by decide

/-- **Idempotence.**  Validating the output of a successful validation succeeds and changes nothing. -/
theorem validate_idempotent (env : Env) (s o : Settings) (h : validate env s = .ok o) :
    validate env o = .ok o :=
  validate_idem env s o h

/-- the result differs from the input only by the four filters (version list, MAC list for
    `maxVersion < (3,3)`, unavailable backends, 3DES) — every other field is returned as given -/
theorem validate_result (env : Env) (s o : Settings) (h : validate env s = .ok o) :
    o = normalize env s :=
  ((validate_ok_iff env s o).mp h).2.2.2.2.2

/-- **Supported only.**  The validated object names only backends that are loaded, 3DES only if an
    implementation exists, only known ciphers/MACs/curves/schemes for this installation (no ML-KEM
    group, ML-DSA scheme, brotli or zstd unless available), no TLS 1.3 in `versions` and no
    SHA-2/AEAD MACs below the respective `maxVersion`. -/
theorem validate_supported_only (env : Env) (s o : Settings) (h : validate env s = .ok o) :
    SupportedBy env o :=
  validate_supportedBy env s o h

/-- **Rejection.**  `validate` succeeds only on settings inside the documented domains; i.e. every
    value outside them is answered with the `ValueError` (`Except.error`). -/
theorem validate_rejects_out_of_domain (env : Env) (s : Settings) (h : ¬ InDomain env s) :
    ∃ e, validate env s = .error e := by
  rcases validate_error_or_ok env s with he | hok
  · exact he
  · exact absurd (validate_inDomain env s _ hok) h

-- non-vacuity: the defaults validate on this installation, and with every optional backend present
example : errorOf (validate Gen.hereEnv (Gen.defaults Gen.hereEnv)) = none := by decide
example : errorOf (validate ⟨true, true, true, true, true, true, true, true, true, true⟩
    (Gen.defaults ⟨true, true, true, true, true, true, true, true, true, true⟩)) = none := by decide
-- the filters do something: without m2crypto/pycrypto the default backend list shrinks to python
example : (normalize ⟨false, false, false, false, false, true, false, false, false, false⟩
    (Gen.defaults ⟨false, false, false, false, false, true, false, false, false, false⟩)).cipherImplementations
      = ["python"] := by decide
-- and rejection is reachable
example : errorOf (validate Gen.hereEnv { Gen.defaults Gen.hereEnv with minKeySize := 511 })
    = some "minKeySize too small" := by decide
example : errorOf (validate Gen.hereEnv { Gen.defaults Gen.hereEnv with record_size_limit := some 16386 })
    = some "record_size_limit cannot exceed 2**14+1 bytes" := by decide
example : errorOf (validate Gen.hereEnv { Gen.defaults Gen.hereEnv with macNames := ["sha", "sha3"] })
    = some "Unknown MAC name: " := by decide
-- two validated default endpoints are compatible at the model level
example : compatible (normalize Gen.hereEnv (Gen.defaults Gen.hereEnv))
    (normalize Gen.hereEnv (Gen.defaults Gen.hereEnv)) = true := by decide

end Tls.Settings
