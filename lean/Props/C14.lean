import TlsProofs.IO
import TlsProofs.IODefrag
import TlsProofs.IOAsm
import TlsModel.Gen.Wrappers
/-
  C14 — results do not depend on how the transport chunks, delays or blocks; sync ≡ async.

  Model: TlsModel/IO.lean.  A socket is an event list (`Sock.rsched` / `Sock.ssched`: every
  `recv()` / `send()` call consumes one event: deliver/accept at most k bytes, would-block, EOF,
  error) next to the bytes in flight (`Sock.stream`).  BufferedSocket (`BSock`) wraps it.
  `LawfulDev` / `LiveDev` / `LawfulSend` / `LiveSend` (TlsProofs/IO.lean) are the laws "the device
  is a byte stream" and "n more bytes are guaranteed to arrive / be accepted"; both `Sock` and
  `BSock` are proved instances for EVERY schedule, so the theorems below quantify over all
  schedules (and over both devices).  `upstream s` = the bytes not yet handed to the reader
  (`stream`, plus the read-ahead buffer for BSock); `credit s` = min(#delivery events, #bytes in
  flight) if the schedule has no EOF / error / empty delivery, else 0.
-/
namespace Tls.IO

open LawfulDev LawfulSend

/-! ### _sockRecvAll -/

/-- For EVERY device state (= every schedule of partial deliveries, would-blocks, EOFs, errors,
    raw socket or BufferedSocket): `_sockRecvAll(n)` yields only 0; if it returns, the result is
    exactly the next n bytes of the stream and the residue is the rest; the only exceptions are
    the transport faults; the internal recursion bound is never hit; and (liveness) whenever n
    more bytes are guaranteed to arrive it does return them. -/
theorem recvAll_schedule_independent {σ : Type} [Dev σ] [LawfulDev σ] [LiveDev σ] (n : Nat) (s : σ) :
    (∀ y ∈ (sockRecvAll n s).yields, y = 0) ∧
    (sockRecvAll n s).res ≠ .fuelOut ∧
    (∀ r, (sockRecvAll n s).res = .ok r →
        n ≤ (upstream s).length ∧ r = (upstream s).take n ∧
        upstream (sockRecvAll n s).dev = (upstream s).drop n) ∧
    (∀ e, (sockRecvAll n s).res = .exc e → e = .abruptClose ∨ e = .socketError) ∧
    (n ≤ LiveDev.credit s → (sockRecvAll n s).res = .ok ((upstream s).take n)) := by
  have ⟨h1, h2, _⟩ := sockRecvAll_spec n s
  have hi := sockRecvAll_implements n s
  refine ⟨h1, h2, fun r hr => sockRecvAll_ok n s r hr, ?_, fun h => (sockRecvAll_live n s h).1⟩
  intro e he
  rcases hi.2.2.2.2 e he with h | h | h
  · exact Or.inl h
  · exact Or.inr h
  · unfold takeN at h; split at h <;> simp at h

/-- the same, spelled out for the raw socket: explicit quantifier over the schedule -/
theorem recvAll_schedule_independent_sock (n : Nat) (stream : Bytes) (rsched : List REv)
    (ssched : List SEv) (sent : Bytes) :
    let o := sockRecvAll n (⟨stream, rsched, ssched, sent⟩ : Sock)
    (∀ r, o.res = .ok r → r = stream.take n ∧ o.dev.stream = stream.drop n) ∧
    (cleanSched rsched = true → n ≤ chunks rsched → n ≤ stream.length → o.res = .ok (stream.take n)) := by
  have h := recvAll_schedule_independent n (⟨stream, rsched, ssched, sent⟩ : Sock)
  refine ⟨fun r hr => ⟨(h.2.2.1 r hr).2.1, (h.2.2.1 r hr).2.2⟩, ?_⟩
  intro hc hn hl
  apply h.2.2.2.2
  show n ≤ Sock.credit _
  simp [Sock.credit, hc]
  omega

/-- and through BufferedSocket (read-ahead of max(4096, n)): same bytes, whatever is buffered -/
theorem recvAll_schedule_independent_buffered (n : Nat) (b : BSock) :
    let o := sockRecvAll n b
    (∀ r, o.res = .ok r →
        r = (b.readBuf ++ b.inner.stream).take n ∧
        o.dev.readBuf ++ o.dev.inner.stream = (b.readBuf ++ b.inner.stream).drop n) ∧
    (cleanSched b.inner.rsched = true → n ≤ b.readBuf.length + min (chunks b.inner.rsched) b.inner.stream.length →
        o.res = .ok ((b.readBuf ++ b.inner.stream).take n)) := by
  have h := recvAll_schedule_independent n b
  refine ⟨fun r hr => ⟨(h.2.2.1 r hr).2.1, (h.2.2.1 r hr).2.2⟩, ?_⟩
  intro hc hn
  apply h.2.2.2.2
  show n ≤ BSock.credit _
  simp [BSock.credit, Sock.credit, hc]
  omega

example : (sockRecvAll 3 (⟨[1, 2, 3, 4], [.wb, .chunk 1, .wb, .wb, .chunk 5], [], []⟩ : Sock)).res = .ok [1, 2, 3] ∧
    (sockRecvAll 3 (⟨[1, 2, 3, 4], [.wb, .chunk 1, .wb, .wb, .chunk 5], [], []⟩ : Sock)).yields = [0, 0, 0] ∧
    (sockRecvAll 3 (⟨[1, 2, 3, 4], [.wb, .chunk 1, .wb, .wb, .chunk 5], [], []⟩ : Sock)).dev.stream = [4] := by
  decide

example : (sockRecvAll 3 (⟨[1, 2, 3, 4], [.chunk 2, .eof], [], []⟩ : Sock)).res = .exc .abruptClose ∧
    (sockRecvAll 3 (⟨[1, 2, 3, 4], [.chunk 2, .wb], [], []⟩ : Sock)).res = .pending := by decide

example : LiveDev.credit (⟨[1, 2, 3, 4], [.wb, .chunk 1, .wb, .wb, .chunk 5, .chunk 1], [], []⟩ : Sock) = 3 := by
  decide

/-! ### RecordSocket.recv -/

/-- `RecordSocket.recv` computes, for every schedule and device, what the pure parser `recordP`
    says about the byte stream: same header and body, residue = the rest of the stream; a
    non-transport exception (malformed SSLv2 header, oversized length) only when the parser fails
    with it; only 0 is yielded; and whenever the bytes of the record are guaranteed to arrive the
    record is returned. -/
theorem records_match_stream {σ : Type} [Dev σ] [LawfulDev σ] [LiveDev σ] (cfg : RSCfg) (s : σ) :
    (∀ y ∈ (recordRecv cfg s).yields, y = 0) ∧
    (recordRecv cfg s).res ≠ .fuelOut ∧
    (∀ hb, (recordRecv cfg s).res = .ok hb →
        recordP cfg (upstream s) = .ok hb (upstream (recordRecv cfg s).dev)) ∧
    (∀ e, (recordRecv cfg s).res = .exc e →
        e = .abruptClose ∨ e = .socketError ∨ recordP cfg (upstream s) = .fail e) ∧
    (∀ hb rest, recordP cfg (upstream s) = .ok hb rest →
        (upstream s).length - rest.length ≤ LiveDev.credit s → (recordRecv cfg s).res = .ok hb) := by
  have hi := recordRecv_implements cfg s
  have hl := recordRecv_live cfg s
  exact ⟨hi.1, hi.2.1, hi.2.2.2.1, hi.2.2.2.2, fun hb rest hp hc => (hl hb rest hp hc).1⟩

/-- Two runs over the same byte stream under ANY two schedules, on any two devices (raw vs
    buffered included): if both return a record it is the same record and the same bytes remain;
    a run that returns a record excludes a non-transport exception in the other. -/
theorem records_schedule_independent {σ₁ σ₂ : Type} [Dev σ₁] [LawfulDev σ₁] [Dev σ₂] [LawfulDev σ₂]
    (cfg : RSCfg) (s₁ : σ₁) (s₂ : σ₂) (h : upstream s₁ = upstream s₂) :
    (∀ a b, (recordRecv cfg s₁).res = .ok a → (recordRecv cfg s₂).res = .ok b →
        a = b ∧ upstream (recordRecv cfg s₁).dev = upstream (recordRecv cfg s₂).dev) ∧
    (∀ a e, (recordRecv cfg s₁).res = .ok a → (recordRecv cfg s₂).res = .exc e →
        e = .abruptClose ∨ e = .socketError) ∧
    (∀ e₁ e₂, (recordRecv cfg s₁).res = .exc e₁ → (recordRecv cfg s₂).res = .exc e₂ →
        e₁ = e₂ ∨ e₁ = .abruptClose ∨ e₁ = .socketError ∨ e₂ = .abruptClose ∨ e₂ = .socketError) := by
  have h1 := recordRecv_implements cfg s₁
  have h2 := recordRecv_implements cfg s₂
  refine ⟨?_, ?_, ?_⟩
  · intro a b ha hb
    have p1 := h1.2.2.2.1 a ha
    have p2 := h2.2.2.2.1 b hb
    rw [h, p2] at p1
    simp at p1
    exact ⟨p1.1.symm, p1.2.symm⟩
  · intro a e ha he
    have p1 := h1.2.2.2.1 a ha
    rcases h2.2.2.2.2 e he with p | p | p
    · exact Or.inl p
    · exact Or.inr p
    · rw [h, p] at p1; simp at p1
  · intro e₁ e₂ he1 he2
    rcases h1.2.2.2.2 e₁ he1 with p | p | p
    · exact Or.inr (Or.inl p)
    · exact Or.inr (Or.inr (Or.inl p))
    · rcases h2.2.2.2.2 e₂ he2 with q | q | q
      · exact Or.inr (Or.inr (Or.inr (Or.inl q)))
      · exact Or.inr (Or.inr (Or.inr (Or.inr q)))
      · rw [h, q] at p; simp at p; exact Or.inl p.symm

-- a TLS 1.2 handshake record `16 03 03 00 02 | aa bb` followed by one more byte, delivered 1+4 / 1 / rest
example : (recordRecv {} (⟨[0x16, 3, 3, 0, 2, 0xaa, 0xbb, 0x17], [.chunk 1, .wb, .chunk 4, .chunk 1, .wb, .chunk 9], [], []⟩ : Sock)).res
      = .ok ({ type := 22, vmaj := 3, vmin := 3, length := 2, ssl2 := false }, [0xaa, 0xbb]) ∧
    (recordRecv {} (⟨[0x16, 3, 3, 0, 2, 0xaa, 0xbb, 0x17], [.chunk 1, .wb, .chunk 4, .chunk 1, .wb, .chunk 9], [], []⟩ : Sock)).dev.stream = [0x17] ∧
    (recordRecv {} ({ inner := ⟨[0x16, 3, 3, 0, 2, 0xaa, 0xbb, 0x17], [.chunk 3, .chunk 9], [], []⟩ } : BSock)).res
      = .ok ({ type := 22, vmaj := 3, vmin := 3, length := 2, ssl2 := false }, [0xaa, 0xbb]) := by decide

-- SSLv2 header with padding larger than the length: the same exception under two schedules
example : (recordRecv {} (⟨[0x00, 0x08, 0x09, 1, 2], [.chunk 9, .chunk 9], [], []⟩ : Sock)).res = .exc .illegalParameter ∧
    (recordRecv {} (⟨[0x00, 0x08, 0x09, 1, 2], [.chunk 1, .wb, .chunk 1, .chunk 1], [], []⟩ : Sock)).res = .exc .illegalParameter := by
  decide

/-! ### _sockSendAll -/

/-- For EVERY schedule of partial accepts and would-blocks: only 1 is yielded; the bytes the
    device accepted are a prefix of the data, appended in order to what it had accepted before;
    all of the data exactly when the call returns; the only exception is the socket's; and if
    enough accepts are guaranteed the call returns. -/
theorem sendAll_delivers_exactly {σ : Type} [Dev σ] [LawfulSend σ] [LiveSend σ] (data : Bytes) (s : σ)
    (hi : LawfulSend.inv s) :
    (∀ y ∈ (sockSendAll data s).yields, y = 1) ∧
    (sockSendAll data s).res ≠ .fuelOut ∧
    (∃ k, k ≤ data.length ∧ written (sockSendAll data s).dev = written s ++ data.take k ∧
        ((sockSendAll data s).res = .ok () → k = data.length)) ∧
    ((sockSendAll data s).res = .ok () → written (sockSendAll data s).dev = written s ++ data) ∧
    (∀ e, (sockSendAll data s).res = .exc e → e = .socketError) ∧
    (1 ≤ LiveSend.scredit s → data.length ≤ LiveSend.scredit s → (sockSendAll data s).res = .ok ()) := by
  have ⟨h1, _, h3, k, hk, hw, hok⟩ := sockSendAll_spec data s hi
  refine ⟨h1, h3, ⟨k, hk, hw, hok⟩, ?_, fun e he => sendAllLoop_exc _ _ _ e he,
    fun a b => sockSendAll_live data s hi a b⟩
  intro h
  rw [hw, hok h, List.take_length]

/-- raw socket, explicit quantifier over the schedule -/
theorem sendAll_delivers_exactly_sock (data : Bytes) (s : Sock) :
    ((sockSendAll data s).res = .ok () → (sockSendAll data s).dev.sent = s.sent ++ data) ∧
    (∃ k, k ≤ data.length ∧ (sockSendAll data s).dev.sent = s.sent ++ data.take k) ∧
    (cleanSSched s.ssched = true → 1 ≤ accepts s.ssched → data.length ≤ accepts s.ssched →
        (sockSendAll data s).res = .ok ()) := by
  have h := sendAll_delivers_exactly data s trivial
  obtain ⟨k, hk, hw, _⟩ := h.2.2.1
  refine ⟨h.2.2.2.1, ⟨k, hk, hw⟩, ?_⟩
  intro hc h1 h2
  apply h.2.2.2.2.2
  · show 1 ≤ Sock.scredit s
    simp [Sock.scredit, hc]; exact h1
  · show data.length ≤ Sock.scredit s
    simp [Sock.scredit, hc]; exact h2

example : (sockSendAll [1, 2, 3, 4, 5] (⟨[], [], [.accept 2, .wb, .accept 0, .accept 1, .accept 9], [7]⟩ : Sock)).dev.sent
      = [7, 1, 2, 3, 4, 5] ∧
    (sockSendAll [1, 2, 3, 4, 5] (⟨[], [], [.accept 2, .wb, .accept 0, .accept 1, .accept 9], [7]⟩ : Sock)).yields
      = [1, 1, 1, 1] ∧
    (sockSendAll [1, 2, 3] (⟨[], [], [.accept 2, .err], []⟩ : Sock)).res = .exc .socketError := by decide

/-! ### BufferedSocket -/

/-- BufferedSocket is transparent.
    Read side: for every sequence of `recv(n)` calls under every schedule of the socket below,
    the bytes returned above, followed by what is still buffered / in flight, are the stream
    (nothing lost, duplicated or reordered), each call returning at most `n` bytes.
    Write side: for every sequence of send / sendall / flush / buffer_writes switches that
    switches buffering off only with an empty queue (what `_sendMsgs` / `_sendError` do by
    flushing first), the bytes accepted from above equal, in order, what reached the socket
    followed by the write queue; after `flush()` all of it is on the socket and the queue is empty. -/
theorem bufferedsocket_transparent :
    (∀ (ns : List Nat) (b : BSock),
        (recvMany ns b).1 ++ ((recvMany ns b).2.readBuf ++ (recvMany ns b).2.inner.stream)
          = b.readBuf ++ b.inner.stream) ∧
    (∀ (n : Nat) (b b' : BSock) (r : Bytes), b.recv n = (.data r, b') →
        r.length ≤ n ∧ b.readBuf ++ b.inner.stream = r ++ (b'.readBuf ++ b'.inner.stream)) ∧
    (∀ (ops : List WOp) (b : BSock), b.WInv → Disciplined b ops →
        (b.wrun ops).1.inner.sent ++ (b.wrun ops).1.writeQueue.flatten
          = b.inner.sent ++ b.writeQueue.flatten ++ (b.wrun ops).2) ∧
    (∀ (b : BSock), b.flush.writeQueue = [] ∧
        b.flush.inner.sent = b.inner.sent ++ b.writeQueue.flatten) := by
  refine ⟨fun ns b => recvMany_stream (σ := BSock) ns b, ?_, ?_, ?_⟩
  · intro n b b' r h
    have := LawfulDev.recv_data (σ := BSock) n b b' r h
    exact ⟨this.1, this.2.1⟩
  · intro ops b hi hd
    exact (BSock.wrun_spec ops b hi hd).2
  · intro b
    exact ⟨b.flush_spec.1, b.flush_spec.2.1⟩

-- read-ahead: one recv(2) pulls 5 bytes from below, the next calls are served from the buffer
example : (recvMany [2, 1, 4] ({ inner := ⟨[1, 2, 3, 4, 5, 6], [.chunk 5, .wb, .chunk 5], [], []⟩ } : BSock)).1
      = [1, 2, 3, 4, 5] ∧
    (recvMany [2] ({ inner := ⟨[1, 2, 3, 4, 5, 6], [.chunk 5, .wb, .chunk 5], [], []⟩ } : BSock)).2.readBuf
      = [3, 4, 5] := by decide

-- buffered writes are held until flush and keep their order relative to earlier direct sends
example : (({ inner := ⟨[], [], [.accept 9], []⟩ } : BSock).wrun
      [.send [1], .setBuffer true, .send [2, 3], .sendall [4], .flush, .setBuffer false]).1.inner.sent
      = [1, 2, 3, 4] ∧
    (({ inner := ⟨[], [], [.accept 9], []⟩ } : BSock).wrun
      [.send [1], .setBuffer true, .send [2, 3], .sendall [4]]).1.inner.sent = [1] := by decide

/-! ### Defragmenter / _getNextRecord -/

/-- For EVERY way of cutting a handshake byte stream into (non-empty) records — one byte per
    record, several messages packed into one record, anything in between — `_getNextRecord` on the
    TLS defragmenter delivers exactly the messages of the stream, in order, and keeps exactly the
    incomplete tail; hence two different cuttings of the same stream are processed identically.
    (Zero-length handshake records are rejected by `_getNextRecordFromSocket`, so they are not a
    framing the protocol allows.) -/
theorem defrag_refragmentation_invariant (tls13 : Bool) (frags₁ frags₂ : List Bytes)
    (h₁ : ∀ f ∈ frags₁, f ≠ []) (h₂ : ∀ f ∈ frags₂, f ≠ [])
    (hcut : frags₁.flatten = frags₂.flatten) (fuel₁ fuel₂ : Nat)
    (hf₁ : fragMeasure [] frags₁ < fuel₁) (hf₂ : fragMeasure [] frags₂ < fuel₂) :
    getAll tls13 fuel₁ tlsDefrag (hsRecs frags₁) = getAll tls13 fuel₂ tlsDefrag (hsRecs frags₂) ∧
    getAll tls13 fuel₁ tlsDefrag (hsRecs frags₁) =
      ((splitAll hsHandler frags₁.flatten).1.map (GOut.msg 22), none,
       tls3 [] [] (splitAll hsHandler frags₁.flatten).2) := by
  have e1 := getAll_hs tls13 fuel₁ frags₁ [] h₁ hf₁
  have e2 := getAll_hs tls13 fuel₂ frags₂ [] h₂ hf₂
  simp only [List.nil_append] at e1 e2
  rw [tlsDefrag_eq, e1, e2, hcut]
  exact ⟨rfl, rfl⟩

/-- ... and when the stream is a sequence of complete messages, those are what is delivered and
    nothing stays buffered -/
theorem defrag_delivers_messages (tls13 : Bool) (msgs frags : List Bytes)
    (hm : ∀ m ∈ msgs, WFMsg m) (hne : ∀ f ∈ frags, f ≠ []) (hcut : frags.flatten = msgs.flatten)
    (fuel : Nat) (hf : fragMeasure [] frags < fuel) :
    getAll tls13 fuel tlsDefrag (hsRecs frags) = (msgs.map (GOut.msg 22), none, tlsDefrag) := by
  have e := getAll_hs tls13 fuel frags [] hne hf
  simp only [List.nil_append] at e
  rw [tlsDefrag_eq, e, hcut, splitAll_wellformed msgs hm]

/-- Sender fragmentation (`_sendMsg`, any `recordSize` ≥ 1 — user setting or negotiated
    record_size_limit): every buffer handed to `_sendMsg` (a handshake message, or a coalesced
    flight) is cut into records that concatenate to the buffer, are at most `recordSize` long and,
    for a non-empty buffer, are NEVER empty — also when `recordSize` divides the length exactly. -/
theorem sendMsg_fragments (k : Nat) (hk : 1 ≤ k) (buf : Bytes) :
    (fragmentMsg k buf).flatten = buf ∧ (∀ f ∈ fragmentMsg k buf, f.length ≤ k) ∧
    (buf ≠ [] → ∀ f ∈ fragmentMsg k buf, f ≠ []) :=
  fragmentMsg_spec k hk buf

/-- ... so the receiver's result is invariant under the sender's chunking: whatever `recordSize`
    the sender uses and however it groups the messages into `_sendMsg` buffers, `_getNextRecord`
    delivers exactly the messages; and an empty handshake fragment (what an off-by-one in the
    sender's loop produces when `recordSize` divides a message length) is refused. -/
theorem receiver_invariant_under_sender_fragmentation (tls13 : Bool) (k : Nat) (hk : 1 ≤ k)
    (msgs bufs : List Bytes) (hm : ∀ m ∈ msgs, WFMsg m) (hb : ∀ b ∈ bufs, b ≠ [])
    (hcut : bufs.flatten = msgs.flatten) (fuel : Nat)
    (hf : fragMeasure [] (bufs.flatMap (fragmentMsg k)) < fuel) :
    getAll tls13 fuel tlsDefrag (hsRecs (bufs.flatMap (fragmentMsg k))) =
      (msgs.map (GOut.msg 22), none, tlsDefrag) ∧
    (∀ (c : Bytes) (rest : List Rec), hsHandler.size c = none →
      getNextRecord tls13 (tls3 [] [] c) ({ type := 22, data := [] } :: rest) = .error .unexpectedMessage) := by
  refine ⟨?_, fun c rest hs => empty_fragment_refused tls13 c rest hs⟩
  apply defrag_delivers_messages tls13 msgs _ hm _ _ fuel hf
  · intro f hf'
    rw [List.mem_flatMap] at hf'
    obtain ⟨b, hbm, hfb⟩ := hf'
    exact (fragmentMsg_spec k hk b).2.2 (hb b hbm) f hfb
  · rw [flatMap_fragment_flatten, hcut]

-- recordSize 4 divides the 4-byte ServerHelloDone exactly: one record, no empty one; 10 bytes with size 5: two records
example : fragmentMsg 4 [0x0e, 0, 0, 0] = [[0x0e, 0, 0, 0]] ∧
    fragmentMsg 5 [0x10, 0, 0, 6, 1, 2, 3, 4, 5, 6] = [[0x10, 0, 0, 6, 1], [2, 3, 4, 5, 6]] ∧
    fragmentMsg 3 [0x0e, 0, 0, 0] = [[0x0e, 0, 0], [0]] := by decide

-- what the receiver does with the extra empty record of an off-by-one sender
example : getAll false 20 tlsDefrag [{ type := 22, data := [0x0e, 0, 0, 0] }, { type := 22, data := [] }] =
    ([.msg 22 [0x0e, 0, 0, 0]], some .unexpectedMessage, tlsDefrag) := by decide

/-- the splitting law behind it, for every size handler the Defragmenter can be given -/
theorem defrag_split_append (h : Handler) (hp : h.Pos) (a b : Bytes) :
    splitAll h (a ++ b) =
      ((splitAll h a).1 ++ (splitAll h ((splitAll h a).2 ++ b)).1,
       (splitAll h ((splitAll h a).2 ++ b)).2) :=
  splitAll_append h hp a.length a b (Nat.le_refl _)

-- two messages (ServerHelloDone `0e000000`, then a 2-byte body message): byte-wise, packed, split mid-header
example :
    getAll false 40 tlsDefrag (hsRecs [[0x0e], [0, 0], [0, 0x10, 0], [0, 2, 0xaa], [0xbb]]) =
      ([.msg 22 [0x0e, 0, 0, 0], .msg 22 [0x10, 0, 0, 2, 0xaa, 0xbb]], none, tlsDefrag) ∧
    getAll false 40 tlsDefrag (hsRecs [[0x0e, 0, 0, 0, 0x10, 0, 0, 2, 0xaa, 0xbb]]) =
      ([.msg 22 [0x0e, 0, 0, 0], .msg 22 [0x10, 0, 0, 2, 0xaa, 0xbb]], none, tlsDefrag) ∧
    (getAll false 40 tlsDefrag (hsRecs [[0x0e, 0, 0, 0, 0x10, 0, 0, 2, 0xaa]])).1 = [.msg 22 [0x0e, 0, 0, 0]] := by
  decide

example : WFMsg (mkMsg 0x10 [0xaa, 0xbb]) := mkMsg_wf _ _ (by decide)

-- a zero-length handshake record is refused
example : (getAll false 9 tlsDefrag [{ type := 22, data := [] }]).2.1 = some .unexpectedMessage := by decide

/-! ### the alert peek after a failed handshake send (`_sendMsgThroughSocket`) -/

/-- After `send()` failed during the handshake the library reads on to see whether the peer's
    alert is in flight.  For EVERY schedule (any number of would-blocks before or inside the alert
    record, any chunking, raw or buffered socket): only 0 is yielded while waiting; if the peek
    ends with a verdict (TLSRemoteAlert(level, description) / re-raise the send error) it is the
    verdict the pure function `alertPeekP` gives for the byte stream; and two runs over the same
    stream under any two schedules that both end with a verdict end with the same one.  A
    would-block alone therefore never turns "remote alert" into "socket error": the only other
    endings are `pending` (still waiting) and the transport faults EOF / socket error. -/
theorem alert_peek_schedule_independent {σ₁ σ₂ : Type} [Dev σ₁] [LawfulDev σ₁] [Dev σ₂] [LawfulDev σ₂]
    (cfg : RSCfg) (tls13 : Bool) (fuel : Nat) (d : Defrag) (s₁ : σ₁) (s₂ : σ₂)
    (h : upstream s₁ = upstream s₂) :
    (∀ y ∈ (alertPeek cfg tls13 fuel d s₁).yields, y = 0) ∧
    (alertPeek cfg tls13 fuel d s₁).res ≠ .fuelOut ∧
    (∀ v, (alertPeek cfg tls13 fuel d s₁).res = .ok v →
        alertPeekP cfg tls13 fuel d (upstream s₁) = .ok v (upstream (alertPeek cfg tls13 fuel d s₁).dev)) ∧
    (∀ v w, (alertPeek cfg tls13 fuel d s₁).res = .ok v → (alertPeek cfg tls13 fuel d s₂).res = .ok w → v = w) ∧
    (∀ v e, (alertPeek cfg tls13 fuel d s₁).res = .ok v → (alertPeek cfg tls13 fuel d s₂).res = .exc e →
        e = .abruptClose ∨ e = .socketError) := by
  have h1 := alertPeek_implements cfg tls13 fuel d s₁
  have h2 := alertPeek_implements cfg tls13 fuel d s₂
  refine ⟨h1.1, h1.2.1, h1.2.2.2.1, ?_, ?_⟩
  · intro v w hv hw
    have p1 := h1.2.2.2.1 v hv
    have p2 := h2.2.2.2.1 w hw
    rw [h, p2] at p1
    simp at p1
    exact p1.1.symm
  · intro v e hv he
    have p1 := h1.2.2.2.1 v hv
    rcases h2.2.2.2.2 e he with p | p | p
    · exact Or.inl p
    · exact Or.inr p
    · rw [h, p] at p1; simp at p1

-- fatal handshake_failure `15 03 03 00 02 | 02 28`: all at once, would-block first, header / would-block / body,
-- and through BufferedSocket: always TLSRemoteAlert(2, 40); a ServerHelloDone instead: the send error is re-raised
example :
    (alertPeek {} false 9 tlsDefrag (⟨[0x15, 3, 3, 0, 2, 2, 40], [.chunk 9, .chunk 9, .chunk 9], [], []⟩ : Sock)).res
      = .ok (.remoteAlert 2 40) ∧
    (alertPeek {} false 9 tlsDefrag (⟨[0x15, 3, 3, 0, 2, 2, 40], [.wb, .chunk 9, .chunk 9, .wb, .wb, .chunk 1, .chunk 1], [], []⟩ : Sock)).res
      = .ok (.remoteAlert 2 40) ∧
    (alertPeek {} false 9 tlsDefrag (⟨[0x15, 3, 3, 0, 2, 2, 40], [.wb, .chunk 9, .chunk 9, .wb, .wb, .chunk 1, .chunk 1], [], []⟩ : Sock)).yields
      = [0, 0, 0] ∧
    (alertPeek {} false 9 tlsDefrag ({ inner := ⟨[0x15, 3, 3, 0, 2, 2, 40], [.wb, .chunk 5, .wb, .chunk 2], [], []⟩ } : BSock)).res
      = .ok (.remoteAlert 2 40) ∧
    (alertPeek {} false 9 tlsDefrag (⟨[0x16, 3, 3, 0, 4, 14, 0, 0, 0], [.chunk 9, .wb, .chunk 9, .chunk 9], [], []⟩ : Sock)).res
      = .ok .originalError ∧
    (alertPeek {} false 9 tlsDefrag (⟨[0x15, 3, 3, 0, 2, 2, 40], [.chunk 9, .wb], [], []⟩ : Sock)).res = .pending := by
  decide

/-! ### yield protocol -/

/-- Only 0 ("want read") is yielded while a record is read and only 1 ("want write") while a
    record is sent, for every schedule, on the raw socket and through BufferedSocket. -/
theorem yield_protocol {σ : Type} [Dev σ] [LawfulDev σ] [LawfulSend σ] (cfg : RSCfg) (s : σ)
    (vmaj vmin type : Nat) (data : Bytes) (padding : Nat) (hi : LawfulSend.inv s) :
    (∀ y ∈ (recordRecv cfg s).yields, y = 0) ∧
    (∀ y ∈ (recvHeader s).yields, y = 0) ∧
    (∀ y ∈ (recordSend vmaj vmin type data padding s).yields, y = 1) := by
  refine ⟨(recordRecv_implements cfg s).1, (recvHeader_implements s).1, ?_⟩
  unfold recordSend
  generalize (if ((vmaj, vmin) == (2, 0) || (vmaj, vmin) == (0, 2)) = true then
      writeHeader2 data.length padding else writeHeader3 vmaj vmin type data.length) = hdr
  cases hdr with
  | none => intro y hy; simp at hy
  | some h => intro y hy; exact (sockSendAll_spec _ s hi).1 y hy

example : (recordSend 3 3 23 [1, 2] 0 (⟨[], [], [.wb, .accept 3, .accept 9], []⟩ : Sock)).yields = [1, 1] ∧
    (recordSend 3 3 23 [1, 2] 0 (⟨[], [], [.wb, .accept 3, .accept 9], []⟩ : Sock)).dev.sent = [23, 3, 3, 0, 2, 1, 2] := by
  decide

/-! ### AsyncStateMachine -/

/-- `_checkAssert`'s invariant is preserved by every transition, from EVERY state, for every
    behaviour of the generator being advanced:
    * a transition that raises (AssertionError or the generator's exception) leaves the cleared state;
    * a transition that succeeds started from a state satisfying `_checkAssert()` and leaves at most
      one operation slot occupied — and the full invariant when the generator obeys the 0/1 protocol;
    * starting an operation (`setHandshakeOp` / `setCloseOp` / `setWriteOp`) while another one is
      active raises AssertionError. -/
theorem asm_single_active_op (a : ASM) (op : AsmOp) (g : GenStep) :
    ((a.step op g).2 = .assertionError ∨ (a.step op g).2 = .raised → (a.step op g).1 = ASM.clear) ∧
    (∀ evs, (a.step op g).2 = .ok evs →
        a.checkAssert 1 = true ∧ (a.step op g).1.activeOps ≤ 1 ∧
        (g.proto → (a.step op g).1.checkAssert 1 = true)) ∧
    (op.isSet = true → 1 ≤ a.activeOps → (a.step op g).2 = .assertionError) :=
  asm_step_spec a op g

/-- Callbacks run with an idle machine: every transition that invokes outConnectEvent /
    outCloseEvent / outReadEvent / outWriteEvent (the callback is the last statement of `_do*Op`,
    so the state returned by the model is the state at callback entry — tied by the
    correspondence, where the real subclass records its state inside each callback) does so with
    NO operation slot occupied and `result = None`; so a callback may start the next operation
    (`setWriteOp` / `setCloseOp` from inside `outReadEvent`, ...) and `_checkAssert(0)` passes. -/
theorem asm_callback_entry_idle (a : ASM) (op : AsmOp) (g : GenStep) (evs : List AsmEv)
    (h : (a.step op g).2 = .ok evs) (hne : evs ≠ []) :
    (a.step op g).1.activeOps = 0 ∧ (a.step op g).1.result = none ∧
    (∀ g', (((a.step op g).1.step .setWrite g').2 ≠ .assertionError) ∧
           (((a.step op g).1.step .setClose g').2 ≠ .assertionError)) := by
  have ⟨h1, h2⟩ := asm_callback_spec a op g evs h hne
  refine ⟨h1, h2, ?_⟩
  intro g'
  generalize (a.step op g).1 = b at h1 h2
  obtain ⟨hh, c, r, w, res⟩ := b
  simp only at h2
  subst h2
  cases hh <;> cases c <;> cases r <;> cases w <;> simp [ASM.activeOps] at h1
  cases g' <;> simp [ASM.step, ASM.setWriteOp, ASM.setCloseOp, ASM.guard, ASM.checkAssert, ASM.activeOps,
    ASM.doWriteOp, ASM.doCloseOp]

example : (({ reader := true, result := some 0 } : ASM).step .inRead (.yld 7)) = (ASM.clear, .ok [.outRead]) := by decide

/-- `_doReadOp` drains the read-ahead buffer whenever a read completes, in whichever event
    (`pend` = what each extra `readAsync(16384)` does while `_read_ahead_pending()` holds):
    * with nothing read ahead inReadEvent / inWriteEvent are the plain transitions
      (`asm_single_active_op` applies);
    * for every `pend` the outcome keeps the invariant: a raise leaves the cleared state, a success
      leaves at most one operation active (an incomplete buffered record leaves the reader waiting);
    * everything complete in the read-ahead buffer is delivered before the event returns: if the
      read and all n extra reads complete, n+1 outReadEvents are emitted and the machine ends idle —
      also when the read had been started by an earlier event and only completes now.
      (A callback that starts another operation makes `_read_ahead_pending()` false: `noOp`.) -/
theorem asm_read_ahead_drained (a : ASM) (g : GenStep) (pend : List GenStep) :
    a.inReadDrain g [] = a.inReadEvent g ∧ a.inWriteDrain g [] = a.inWriteEvent g ∧
    ((a.inReadDrain g pend).2 = .assertionError ∨ (a.inReadDrain g pend).2 = .raised →
        (a.inReadDrain g pend).1 = ASM.clear) ∧
    (∀ evs, (a.inReadDrain g pend).2 = .ok evs → (a.inReadDrain g pend).1.activeOps ≤ 1) ∧
    ((a.inWriteDrain g pend).2 = .assertionError ∨ (a.inWriteDrain g pend).2 = .raised →
        (a.inWriteDrain g pend).1 = ASM.clear) ∧
    (∀ evs, (a.inWriteDrain g pend).2 = .ok evs → (a.inWriteDrain g pend).1.activeOps ≤ 1) ∧
    (∀ (v : Nat) (vs : List Nat) (r : Nat), (v ≠ 0 ∧ v ≠ 1) → (∀ x ∈ vs, x ≠ 0 ∧ x ≠ 1) → (r = 0 ∨ r = 1) →
        ASM.clear.inReadDrain (.yld v) (vs.map GenStep.yld) =
          (ASM.clear, .ok (List.replicate (vs.length + 1) AsmEv.outRead)) ∧
        ({ reader := true, result := some r } : ASM).inReadDrain (.yld v) (vs.map GenStep.yld) =
          (ASM.clear, .ok (List.replicate (vs.length + 1) AsmEv.outRead)) ∧
        ({ reader := true, result := some r } : ASM).inWriteDrain (.yld v) (vs.map GenStep.yld) =
          (ASM.clear, .ok (List.replicate (vs.length + 1) AsmEv.outRead))) := by
  refine ⟨inReadDrain_nil a g, inWriteDrain_nil a g, (asm_drain_spec a g pend).1, (asm_drain_spec a g pend).2,
    (asm_wdrain_spec a g pend).1, (asm_wdrain_spec a g pend).2, ?_⟩
  intro v vs r hv hvs hr
  have hne : ¬ (v = 0 ∨ v = 1) := by omega
  have h0 : ∀ res, (({ reader := true, result := res } : ASM).doReadOp (.yld v)) = (ASM.clear, .ok [AsmEv.outRead]) := by
    intro res; simp [ASM.doReadOp, ASM.clear, hne]
  have hd := drainLoop_all_complete vs [AsmEv.outRead] hvs
  have hfin : (ASM.guard (ASM.clear, AsmRes.ok ([AsmEv.outRead] ++ List.replicate vs.length AsmEv.outRead))) =
      (ASM.clear, .ok (List.replicate (vs.length + 1) AsmEv.outRead)) := by
    simp [ASM.guard, List.replicate_succ]
  refine ⟨?_, ?_, ?_⟩
  · have hc : ASM.clear.checkAssert = true := by decide
    simp only [ASM.inReadDrain, ASM.doReadOpD, hc, Bool.not_true, Bool.false_eq_true, if_false]
    have hf : ASM.clear.handshaker = false ∧ ASM.clear.closer = false ∧ ASM.clear.reader = false ∧ ASM.clear.writer = false := by
      decide
    simp only [hf.1, hf.2.1, hf.2.2.1, hf.2.2.2, Bool.false_eq_true, if_false]
    rw [h0, hd, hfin]
  · have hc : ({ reader := true, result := some r } : ASM).checkAssert = true := by
      rcases hr with rfl | rfl <;> decide
    simp only [ASM.inReadDrain, ASM.doReadOpD, hc, Bool.not_true, Bool.false_eq_true, if_false, if_true]
    rw [h0, hd, hfin]
  · have hc : ({ reader := true, result := some r } : ASM).checkAssert = true := by
      rcases hr with rfl | rfl <;> decide
    simp only [ASM.inWriteDrain, ASM.doReadOpD, hc, Bool.not_true, Bool.false_eq_true, if_false, if_true]
    rw [h0, hd, hfin]

example : ASM.clear.inReadDrain (.yld 7) [.yld 8, .yld 0, .yld 9] =
      ({ reader := true, result := some 0 }, .ok [.outRead, .outRead]) ∧
    -- a read started earlier (it had yielded 0) completes in this event: the read-ahead is drained too
    ({ reader := true, result := some 0 } : ASM).inReadDrain (.yld 7) [.yld 8] = (ASM.clear, .ok [.outRead, .outRead]) := by
  decide

/-- over whole histories: from the initial state, after any sequence of transitions with
    protocol-obeying generators, `_checkAssert()` holds -/
theorem asm_invariant_all_histories (steps : List (AsmOp × GenStep)) (hp : ∀ x ∈ steps, x.2.proto) :
    (steps.foldl (fun a x => (a.step x.1 x.2).1) ASM.clear).checkAssert 1 = true := by
  suffices h : ∀ (a : ASM), a.checkAssert 1 = true →
      (steps.foldl (fun a x => (a.step x.1 x.2).1) a).checkAssert 1 = true from h _ (by decide)
  induction steps with
  | nil => intro a h; exact h
  | cons x xs ih =>
    intro a ha
    apply ih (fun y hy => hp y (by simp [hy]))
    show ((a.step x.1 x.2).1).checkAssert 1 = true
    have ⟨h1, h2, _⟩ := asm_step_spec a x.1 x.2
    cases hr : (a.step x.1 x.2).2 with
    | ok evs => exact (h2 evs hr).2.2 (hp x (by simp))
    | assertionError => rw [h1 (Or.inl hr)]; decide
    | raised => rw [h1 (Or.inr hr)]; decide

example : (ASM.clear.step .setHandshake (.yld 0)).1 = { handshaker := true, result := some 0 } ∧
    (({ handshaker := true, result := some 0 } : ASM).step .setWrite (.yld 1)) = (ASM.clear, .assertionError) ∧
    (({ handshaker := true, result := some 0 } : ASM).step .inRead .stop) = (ASM.clear, .ok [.outConnect]) := by
  decide

/-! ### a read event hands over the whole record -/

/-- AsyncStateMachine's implicit read asks for at least a full record (the constant is read off
    the AST on every run), so for every record plaintext the record layer accepts (≤ 2^14 bytes,
    `recv_record_limit`) the whole record is handed to outReadEvent and nothing stays in
    `_readBuffer` when the transport is drained. -/
theorem asm_read_event_delivers_whole_record (data : Bytes) (h : data.length ≤ 16384) :
    16384 ≤ Tls.Gen.Wrappers.asmReadMax ∧
    asmReadEvent Tls.Gen.Wrappers.asmReadMax data = (data, []) := by
  have hc : 16384 ≤ Tls.Gen.Wrappers.asmReadMax := by decide
  refine ⟨hc, ?_⟩
  simp only [asmReadEvent, readAsyncReturn]
  rw [List.take_of_length_le (by omega), List.drop_of_length_le (by omega)]

-- with a smaller constant the tail of a larger record would stay behind
example : (asmReadEvent 4 [1, 2, 3, 4, 5, 6]).2 = [5, 6] ∧ (asmReadEvent 16384 [1, 2, 3, 4, 5, 6]) = ([1, 2, 3, 4, 5, 6], []) := by
  decide

/-! ### blocking API = drive the generator to exhaustion -/

/-- blocking functions whose body must literally be "drive the asynchronous generator to
    exhaustion (and return its last result)" -/
def requiredWrappers : List String :=
  ["TLSConnection.handshakeClientAnonymous", "TLSConnection.handshakeClientSRP",
   "TLSConnection.handshakeClientCert", "TLSConnection.handshakeServer",
   "TLSRecordLayer.read", "TLSRecordLayer.write", "TLSRecordLayer.close",
   "TLSRecordLayer.send_heartbeat_request", "TLSRecordLayer.send", "TLSRecordLayer.sendall",
   "TLSRecordLayer.recv", "MessageSocket.recvMessageBlocking", "MessageSocket.flushBlocking",
   "MessageSocket.queueMessageBlocking", "MessageSocket.sendMessageBlocking"]

/-- re-checked against the current source on every run (TlsModel/Gen/Wrappers.lean is generated
    from the AST; an unrecognised shape is emitted as `false`) -/
theorem blocking_wrappers_drive_to_exhaustion :
    requiredWrappers.all (fun n => Tls.Gen.Wrappers.facts.contains (n, true)) = true ∧
    Tls.Gen.Wrappers.facts.all (fun f => f.2) = true := by
  decide

end Tls.IO
