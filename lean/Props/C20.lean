import TlsModel.Suites
import TlsProofs.Suites
/-
  C20 — negotiated cipher-suite semantics match the suite's registered meaning.

  All statements are over the tables GENERATED from the tree under check
  (TlsModel/Gen/Suites.lean: ietfNames, every classification list, the real outputs of every
  get*Suites selector) and are closed by kernel evaluation, so they are re-decided on every run.

  `modelObs s v r`  what the mirrored code does for suite s once version v is negotiated, role r
  `semOf s`         what the registered name of s denotes (parseIana, written from the RFCs)
  `specObsOf s v`   the observables that meaning prescribes in version v
-/
namespace C20
open Tls.Suites Tls.Gen.Suites Tls.Gen.KexChains

/-- the selectors found in the tree are the ones mirrored; the model of every selector reproduces
    the real selector's output (computed by the translator on the tree under check, with the
    library's complete cipher/MAC/key-exchange vocabularies enabled) for every version; so the
    model's idea of "selectable" is the implementation's -/
theorem selectors_match_generated :
    getters = Getter.all.map Getter.str ∧
    allMacNames = fullMac.map MName.str ∧ allCipherNames = fullCipher.map CName.str ∧
    allKeyExchangeNames = fullKex.map KName.str ∧
    (∀ e ∈ selectorOut, ∃ g ∈ Getter.all, g.str = e.1 ∧ getter g fullMac fullCipher fullKex (3, e.2.1) = e.2.2) ∧
    modelSelectorUnion = selectorUnion := by
  decide +kernel

example : selectorOut.length = 60 ∧ selectorUnion ≠ [] ∧ Tls.Gen.Suites.translatorProblems = [] := by decide +kernel

/-- For every suite × version × role that can be negotiated: the registered name parses, and key
    exchange, certificate requirement and admissible certificate kinds, ServerKeyExchange presence,
    bulk cipher, key length, mode, IV length, MAC hash and length, AEAD tag length, PRF, and the
    names given by Session.getCipherName(), Session.getMacName() and the connection's
    getCipherName() are exactly those the registered name denotes. -/
theorem suite_semantics_match :
    ∀ t ∈ negotiableTriples,
      (specObsOf t.1 t.2.1).isSome ∧ modelObs t.1 t.2.1 t.2.2 = specObsOf t.1 t.2.1 := by
  have h : ∀ t ∈ negotiableTriples,
      Obs.optAgree (modelObs t.1 t.2.1 t.2.2) (specObsOf t.1 t.2.1) = true := by decide +kernel
  exact fun t ht => Obs.optAgree_sound (h t ht)

example : (0x002f, ((3, 1), Role.client)) ∈ negotiableTriples ∧
    (0xc0ae, ((3, 3), Role.server)) ∈ negotiableTriples ∧
    (0x00a3, ((3, 3), Role.server)) ∈ negotiableTriples ∧
    (0x1303, ((3, 4), Role.client)) ∈ negotiableTriples ∧
    (modelObs 0xc0ae (3, 3) .server).map (fun o => (o.keyLen, o.tagLen, o.macLen, o.ivLen, o.kex))
      = some (16, 8, 0, 4, Kex.ecdhe) := by
  decide +kernel

/-- The defect recorded for the pinned tree 9dc109c (repaired by fc8dda9), kept as a theorem about
    the old list: with sha384Suites as it was, 0x00A3 — selectable, its name denoting an AEAD suite
    with a 16-byte tag and no HMAC, the record layer installing no MAC for it — is named "sha384"
    by canonicalMacName, hence by Session.getMacName(), where the name denotes no MAC at all. -/
theorem aead_suite_reports_hmac_name_counterexample :
    0x00a3 ∈ pinnedSha384Suites ∧
    0x00a3 ∈ selectorUnion ∧
    (semOf 0x00a3).map (fun sem => (sem.mac, sem.tagLen)) = some (none, 16) ∧
    exceptToOption (getMacSettings 0x00a3) = some (0, none) ∧
    canonicalMacNameWith pinnedSha384Suites sha256Suites shaSuites md5Suites 0x00a3 = some .sha384 ∧
    (semOf 0x00a3).map specMacName = some none ∧
    (∃ s ∈ pinnedSha384Suites, s ∈ selectorUnion ∧ isIn s aeadSuites = true) := by
  decide +kernel

/-- `filterForVersion(v, v)` (the filter both roles apply once the version is known) never admits
    any identifier known to the library — negotiable or not — to a version that does not define it -/
theorem never_below_min_version :
    ∀ s ∈ ((ietfNames.map (·.1)) ++ allLists.flatMap (·.2)), ∀ v ∈ allVersions,
      s ∈ filterForVersion [s] v v → ∃ sem, semOf s = some sem ∧ sem.definedIn v = true := by
  decide +kernel

example : 0x003c ∈ filterForVersion [0x003c] (3, 3) (3, 3) ∧ 0x003c ∉ filterForVersion [0x003c] (3, 2) (3, 2) ∧
    0x1301 ∉ filterForVersion [0x1301] (3, 3) (3, 3) ∧ 0x002f ∉ filterForVersion [0x002f] (3, 4) (3, 4) := by
  decide +kernel

/-! ### the key-exchange if-chains, as read from the AST of tlsconnection.py on this run -/

/-- the translator classified every test and every branch of the chains it looks for -/
theorem chains_fully_classified : chainUnknowns = [] := by decide +kernel

/-- for every suite that can be negotiated below TLS 1.3 (every selectable suite that is not a TLS 1.3
    suite: by `selectors_match_generated` these are the suites of all negotiable triples with version
    ≤ 3.3; the chains do not look at the version) and for both roles, the chain of that role selects a
    KeyExchange class, and it is of the key-exchange family the registered name denotes -/
theorem chains_match_iana :
    ∀ r ∈ [Role.client, Role.server], ∀ s ∈ selectorUnion, isIn s tls13Suites = false →
      (chainKex r s).isSome = true ∧ chainKex r s = (semOf s).map (·.kex) := by
  decide +kernel

example : chainKex .client 0x0034 = some .ffdhe ∧ chainKex .server 0xc02b = some .ecdhe ∧
    chainKex .client 0x002f = some .rsa ∧ chainKex .server 0xc01d = some .srp := by decide +kernel

/-- the chains are exhaustive on selectable suites: the server chain never falls through to
    `assert False`, and the client's final `else` (RSA key transport) is reached exactly by the suites
    whose name says RSA key exchange -/
theorem chains_exhaustive :
    ∀ s ∈ selectorUnion, isIn s tls13Suites = false →
      ((serverKexChain.eval s).bind id).isSome = true ∧
      (clientKexClass s).isSome = true ∧
      (clientKexClass s = some .RSAKeyExchange ↔ (semOf s).map (·.kex) = some Kex.rsa) := by
  decide +kernel

/-- client and server pick the same key exchange for every selectable suite; the server's class is the
    client's, or its anonymous counterpart exactly when the name says the exchange is anonymous -/
theorem client_server_agree :
    ∀ s ∈ selectorUnion, isIn s tls13Suites = false →
      chainKex .client s = chainKex .server s ∧ (chainKex .client s).isSome = true ∧
      ((serverKexClass s).map (·.1) = clientKexClass s ∨
        ((semOf s).map (·.auth) = some Auth.anon ∧
          ((clientKexClass s, (serverKexClass s).map (·.1)) = (some .DHE_RSAKeyExchange, some .ADHKeyExchange) ∨
           (clientKexClass s, (serverKexClass s).map (·.1)) = (some .ECDHE_RSAKeyExchange, some .AECDHKeyExchange)))) := by
  decide +kernel

/-- Certificate / ServerKeyExchange expectations agree with what the name denotes, on both sides: the
    client reads a Certificate (and takes the key from it) exactly for certified suites, reads a
    ServerKeyExchange exactly when the key exchange has one; the server's helper sends a Certificate, and
    the server's Session records its chain, exactly for certified suites -/
theorem certificate_expectation_matches :
    ∀ s ∈ selectorUnion, isIn s tls13Suites = false →
      clientExpectsCertificate s = (semOf s).map specCertified ∧
      clientChecksChain s = (semOf s).map specCertified ∧
      clientExpectsSKE s = (semOf s).map specSke ∧
      (serverKexClass s).map (·.2) = (semOf s).map specCertified ∧
      serverRecordsChain s = (semOf s).map specCertified ∧
      (semOf s).isSome = true := by
  decide +kernel

example : clientExpectsCertificate 0x0032 = some true ∧ clientExpectsCertificate 0x0034 = some false ∧
    clientExpectsSKE 0x002f = some false ∧ serverRecordsChain 0x0032 = some true ∧
    (serverKexClass 0xc01e).map (·.2) = some true ∧ (serverKexClass 0xc01d).map (·.2) = some false := by
  decide +kernel

/-- the client's guard on the ServerHello: whatever list the client offered and whatever number a
    (possibly misbehaving) server puts into its ServerHello, the suite is accepted for the negotiated
    version only if its registered name defines it for that version -/
theorem client_rejects_out_of_version_suite :
    ∀ (offered : List Nat) (s : Nat), ∀ v ∈ allVersions,
      clientAcceptsSuite offered v s = true → ∃ sem, semOf s = some sem ∧ sem.definedIn v = true := by
  have h : ∀ s ∈ ssl3Suites ++ tls12Suites ++ tls13Suites, ∀ v ∈ allVersions,
      versionIncludes v v s = true → ∃ sem, semOf s = some sem ∧ sem.definedIn v = true := by
    decide +kernel
  intro offered s v hv hacc
  have hinc : versionIncludes v v s = true := isIn_filter hacc
  exact h s (versionIncludes_mem hinc) v hv hinc

example : clientAcceptsSuite [0xc02f, 0x1301] (3, 4) 0x1301 = true ∧
    clientAcceptsSuite [0xc02f, 0x1301] (3, 4) 0xc02f = false ∧
    clientAcceptsSuite [0xc02f, 0x1301] (3, 3) 0xc02f = true ∧
    clientAcceptsSuite [0xc02f, 0x1301] (3, 3) 0x002f = false := by decide +kernel

/-- resumption: whatever the server's cipher / MAC / key-exchange settings and whatever suite a cached
    session or ticket carries, the server's "still willing to use that cipher" check lets it be resumed
    in negotiated version `v` only if the suite's registered name defines it for `v` -/
theorem resumed_only_in_defining_version :
    ∀ (m : List MName) (c : List CName) (k : List KName) (s : Nat), ∀ v ∈ allVersions,
      resumeSuiteOk m c k v s = true → ∃ sem, semOf s = some sem ∧ sem.definedIn v = true := by
  have h : ∀ s ∈ ssl3Suites ++ tls12Suites ++ tls13Suites, ∀ v ∈ allVersions,
      versionIncludes v v s = true → ∃ sem, semOf s = some sem ∧ sem.definedIn v = true := by
    decide +kernel
  intro m c k s v hv hok
  have hinc : versionIncludes v v s = true := isIn_filter hok
  exact h s (versionIncludes_mem hinc) v hv hinc

example : resumeSuiteOk fullMac fullCipher fullKex (3, 3) 0x003c = true ∧
    resumeSuiteOk fullMac fullCipher fullKex (3, 2) 0x003c = false ∧
    resumeSuiteOk fullMac fullCipher fullKex (3, 4) 0xc02f = false ∧
    resumeSuiteOk fullMac fullCipher fullKex (3, 1) 0x002f = true := by decide +kernel

/-- every negotiable (suite, version, role) is one the name defines for that version -/
theorem negotiated_only_in_defining_version :
    ∀ t ∈ negotiableTriples, ∃ sem, semOf t.1 = some sem ∧ sem.definedIn t.2.1 = true := by
  have h : ∀ s ∈ ssl3Suites ++ tls12Suites ++ tls13Suites, ∀ v ∈ allVersions,
      versionIncludes v v s = true → ∃ sem, semOf s = some sem ∧ sem.definedIn v = true := by
    decide +kernel
  intro t ht
  obtain ⟨r, v, hv, hneg⟩ := mem_negotiableTriples ht
  have hinc : versionIncludes v v t.1 = true := negotiable_versionIncludes hneg.2
  rw [hneg.1]
  exact h t.1 (versionIncludes_mem hinc) v hv hinc

example : negotiableTriples ≠ [] := by decide +kernel

/-- and nothing is lost: a selectable suite is admitted to exactly the versions defining it, and is
    then negotiable in both roles (so a suite dropped from its version list is noticed) -/
theorem version_filter_exact :
    (∀ s ∈ selectorUnion, ∀ v ∈ allVersions,
      (s ∈ filterForVersion [s] v v ↔ (semOf s).any (·.definedIn v) = true)) ∧
    (∀ r ∈ [Role.client, Role.server], ∀ v ∈ allVersions, ∀ s ∈ selectorUnion,
      ((semOf s).any (·.definedIn v) = true → negotiable r v s = true)) := by
  decide +kernel

example : negotiable .client (3, 3) 0xc02f = true ∧ negotiable .server (3, 2) 0xc02f = false ∧
    (semOf 0xc02f).any (·.definedIn (3, 3)) = true ∧ (semOf 0xc02f).any (·.definedIn (3, 2)) = false := by
  decide +kernel

/-- each selectable suite is in exactly one cipher list, exactly one MAC/AEAD class, exactly one
    key-exchange list, exactly one version list and — unless it predates TLS 1.2 — exactly one PRF
    list; and the derived lists are, on selectable suites, the unions they are documented to be -/
theorem lists_partition :
    (∀ s ∈ selectorUnion,
      classCount cipherLists s = 1 ∧ classCount macLists s = 1 ∧ classCount kexLists s = 1 ∧
      classCount versionLists s = 1 ∧
      classCount prfLists s = (if isIn s ssl3Suites then 0 else 1)) ∧
    (∀ s ∈ selectorUnion,
      (isIn s aeadSuites = (isIn s aes128GcmSuites || isIn s aes256GcmSuites || isIn s aes128CcmSuites
         || isIn s aes128Ccm_8Suites || isIn s aes256CcmSuites || isIn s aes256Ccm_8Suites
         || isIn s chacha20Suites || isIn s chacha20draft00Suites)) ∧
      (isIn s streamSuites = (isIn s rc4Suites || isIn s nullSuites)) ∧
      (isIn s srpAllSuites = (isIn s srpSuites || isIn s srpCertSuites)) ∧
      (isIn s certAllSuites = (isIn s srpCertSuites || isIn s certSuites || isIn s dheCertSuites
         || isIn s ecdheCertSuites)) ∧
      (isIn s dhAllSuites = (isIn s dheCertSuites || isIn s anonSuites || isIn s dheDsaSuites)) ∧
      (isIn s ecdhAllSuites = (isIn s ecdheEcdsaSuites || isIn s ecdheCertSuites || isIn s ecdhAnonSuites))) := by
  decide +kernel

example : classCount macLists 0x00a3 = 1 ∧ classCount cipherLists 0xcca8 = 1 ∧ classCount kexLists 0x1301 = 1 := by
  decide +kernel

/-- a settings object that leaves out a MAC class, a cipher or a key exchange never gets a suite
    whose name denotes it: for every selector, every version and every single name removed from the
    complete vocabulary, no returned suite's name denotes the removed MAC (or AEAD) class, cipher or
    key exchange -/
theorem selectors_respect_excluded_names :
    ∀ g ∈ Getter.all, ∀ v ∈ allVersions,
      (∀ m ∈ fullMac, ∀ s ∈ getter g (fullMac.filter (· != m)) fullCipher fullKex v,
        (semOf s).map specMacClass ≠ some m) ∧
      (∀ c ∈ fullCipher, ∀ s ∈ getter g fullMac (fullCipher.filter (· != c)) fullKex v,
        (semOf s).bind specCipherName ≠ some c) ∧
      (∀ k ∈ fullKex, ∀ s ∈ getter g fullMac fullCipher (fullKex.filter (· != k)) v,
        (semOf s).bind specKexName ≠ some k) := by
  decide +kernel

example : getter .getDheDsaSuites [.sha384] fullCipher fullKex (3, 3) = [] ∧
    getter .getDheDsaSuites [.aead] [.aes256gcm] fullKex (3, 3) = [0x00a3] ∧
    getter .getCertSuites fullMac (fullCipher.filter (· != .aes128)) fullKex (3, 3) ≠ [] := by
  decide +kernel

end C20
