import TlsProofs.ErrPath
import TlsProofs.Flights
import TlsModel.Gen.ErrPath
/-
  C08 — malformed peer input fails cleanly, promptly and within bounded memory (the part that is
  logic; see DESIGN.md section 5/C08 and section 8 for what is explored by the harness instead).

  Model: TlsModel/ErrPath.lean, a hand-written mirror of `_getMsg`, `_getNextRecord`,
  `_getNextRecordFromSocket`, `_sendError`, `_shutdown` (tlslite/tlsrecordlayer.py), the outer
  handlers (`_handshakeWrapperAsync`, `readAsync`), the semantic hello checks
  (tlslite/tlsconnection.py) and `CompressedCertificate._decompress` (tlslite/messages.py).
-/
namespace Tls.ErrPath

/-! ### no spin, linear work -/

/-- Every result `_getNextRecord` hands to `_getMsg` (a record, a buffered message, or a
    record-level failure) consumed input: the measure "buffered bytes + (size + 1) of every unread
    record" is strictly smaller afterwards and no record reappears. -/
theorem getNextRecord_progress (v13 : Bool) (d : Defrag) (inp : List Input) :
    (getNextRecord v13 d inp).decr (mu d inp) inp.length :=
  getNextRecord_mu v13 inp d

/-- The "try again" loop of `_getMsg` never needs more iterations than the measure: with fuel
    `mu + 1` it ends by delivering a message, by a failure, or by waiting for input that is not
    there — never by running out of fuel.  The termination argument *is* the no-spin claim: an
    iteration that `continue`s (ignored CCS, renegotiation warning, heartbeat, empty application
    data) has consumed at least one record or one buffered message. -/
theorem getMsg_progress (cfg : Cfg) : ∀ (fuel : Nat) (d : Defrag) (inp : List Input),
    mu d inp < fuel → (getMsgFuel cfg fuel d inp).outcome ≠ .outOfFuel := by
  intro fuel
  induction fuel with
  | zero => intro d inp h; omega
  | succ n ih =>
    intro d inp h
    unfold getMsgFuel
    have hp := getNextRecord_mu cfg.v13 inp d
    cases hn : getNextRecord cfg.v13 d inp with
    | needMore d' => simp
    | fail k d' rest => simp
    | item t data ssl2 fb d' rest =>
      rw [hn] at hp
      simp only
      cases classify cfg d' t data ssl2 with
      | deliver t' data' => simp
      | fail k => simp
      | again sent =>
        simp only
        exact ih d' rest (by have := hp.1; omega)

theorem getMsg_never_out_of_fuel (cfg : Cfg) (d : Defrag) (inp : List Input) :
    (getMsg cfg d inp).outcome ≠ .outOfFuel :=
  getMsg_progress cfg _ d inp (Nat.lt_succ_self _)

/-- Work is linear: the passes through `_getMsg`'s loop are bounded by the measure and the records
    read by the number of records, whatever the fuel. -/
theorem loop_terminates_linear (cfg : Cfg) : ∀ (fuel : Nat) (d : Defrag) (inp : List Input),
    (getMsgFuel cfg fuel d inp).iters ≤ mu d inp + 1 ∧
    (getMsgFuel cfg fuel d inp).reads ≤ inp.length := by
  intro fuel
  induction fuel with
  | zero => intro d inp; simp [getMsgFuel]
  | succ n ih =>
    intro d inp
    unfold getMsgFuel
    have hp := getNextRecord_mu cfg.v13 inp d
    cases hn : getNextRecord cfg.v13 d inp with
    | needMore d' => simp
    | fail k d' rest => simp
    | item t data ssl2 fb d' rest =>
      rw [hn] at hp
      simp only
      cases classify cfg d' t data ssl2 with
      | deliver t' data' => simp
      | fail k => simp
      | again sent =>
        simp only
        have := ih d' rest
        have h1 := hp.1
        have h2 := hp.2
        omega

/-- the measure spelled out: buffered bytes + payload bytes + number of records -/
theorem mu_eq (d : Defrag) (inp : List Input) :
    mu d inp = d.size + (inp.map Input.size).sum + inp.length := by
  unfold mu
  induction inp with
  | nil => simp [inputsMu]
  | cons i rest ih => simp only [inputsMu, List.map_cons, List.sum_cons, List.length_cons]; omega

/-- the ValueError of `Defragmenter.add_data` ("Message type not defined") is unreachable from
    `_getNextRecord`: whatever arrives, no result is that escape -/
theorem getNextRecord_no_valueError (v13 : Bool) : ∀ (inp : List Input) (d : Defrag) (d' : Defrag)
    (rest : List Input) (e : PyExc), (∀ i ∈ inp, ∀ e', i ≠ .bad (.escaped e')) →
    getNextRecord v13 d inp ≠ .fail (.escaped e) d' rest := by
  intro inp
  induction inp with
  | nil =>
    intro d d' rest e _
    unfold getNextRecord
    cases d.getMessage with
    | none => simp
    | some x => simp
  | cons i tl ih =>
    intro d d' rest e hb
    unfold getNextRecord
    cases hg : d.getMessage with
    | some x => simp
    | none =>
      simp only
      cases hf : fromSocket i with
      | error k =>
        simp only
        intro hk
        injection hk with hk _ _
        cases i with
        | bad k0 =>
          simp only [fromSocket] at hf
          injection hf with hf
          exact hb (.bad k0) (List.mem_cons_self) e (by rw [hf, hk])
        | record t0 d0 s0 =>
          simp only [fromSocket] at hf
          split at hf
          · injection hf with hf; rw [← hf] at hk; cases hk
          · split at hf
            · injection hf with hf; rw [← hf] at hk; cases hk
            · cases hf
      | ok x =>
        obtain ⟨t, data, s⟩ := x
        simp only
        by_cases hc : (t == 23 || v13 && t == 20 || t == 24 || s) = true
        · simp [hc]
        · simp only [hc, Bool.false_eq_true, if_false]
          have hp : (t == 23 || t == 24) = false := by
            simp only [Bool.or_eq_true, Bool.and_eq_true, beq_iff_eq, not_or] at hc
            simp only [Bool.or_eq_false_iff, beq_eq_false_iff_ne]
            exact ⟨hc.1.1.1, hc.1.2⟩
          obtain ⟨d2, hd2⟩ := add_defined d hf hp
          rw [hd2]
          exact ih d2 d' rest e (fun i hi => hb i (List.mem_cons_of_mem _ hi))

/-! ### error containment -/

/-- Every locally detected error kind of the model (record-level table, message-level table,
    in-line checks, any semantic `_sendError`) ends the same way under both outer handlers: exactly
    one alert on the wire, fatal, with the description the *specification* table gives (RFC
    numbers, written independently of `codeDesc`), written before anything else happens; the
    connection is closed; a session, if present, is no longer resumable; the caller sees
    TLSLocalAlert with that description. -/
theorem error_contained (k : ErrKind) (c : Conn) (h : k.isLocal = true) :
    ∃ d, specDesc k = some d ∧
      onError k c = ⟨[(2, d)], ⟨true, c.session.map (fun _ => false)⟩, .localAlert d⟩ ∧
      onErrorRead k c = ⟨[(2, d)], ⟨true, c.session.map (fun _ => false)⟩, .localAlert d⟩ := by
  obtain ⟨cl, se⟩ := c
  cases se <;> cases k <;> first
    | exact ⟨_, rfl, rfl, rfl⟩
    | simp [ErrKind.isLocal, specDesc] at h

/-- Whatever the kind (local or not, even an escaping Python exception), the call ends with the
    connection closed, under the handshake wrapper and under `readAsync`. -/
theorem error_always_closed (k : ErrKind) (c : Conn) :
    (onError k c).conn.closed = true ∧ (onErrorRead k c).conn.closed = true := by
  cases k <;> try exact ⟨rfl, rfl⟩
  case remoteAlert level desc =>
    cases desc with
    | zero =>
      by_cases h1 : level = 1 <;>
        simp [onError, onErrorRead, onErrorInner, codeDesc, wrapHandshake, wrapRead, shutdown, dCloseNotify, h1]
    | succ n =>
      by_cases h1 : level = 1 <;>
        simp [onError, onErrorRead, onErrorInner, codeDesc, wrapHandshake, wrapRead, shutdown, dCloseNotify, h1]

/-- ... and the session is not resumable afterwards, unless what ended the call was the peer's
    close_notify (an orderly closure, not a failure). -/
theorem error_not_resumable (k : ErrKind) (c : Conn) (hk : ∀ l, k ≠ .remoteAlert l 0) :
    (onError k c).conn.session ≠ some true ∧ (onErrorRead k c).conn.session ≠ some true := by
  have hm : ∀ o : Option Bool, o.map (fun _ => false) ≠ some true := by
    intro o; cases o <;> simp
  have hm2 : ∀ o : Option Bool, (o.map (fun _ => false)).map (fun _ => false) ≠ some true := by
    intro o; cases o <;> simp
  cases k <;> try exact ⟨hm _, hm _⟩
  all_goals try exact ⟨hm _, hm2 _⟩
  case remoteAlert level desc =>
    cases desc with
    | zero => exact absurd rfl (hk level)
    | succ n =>
      by_cases h1 : level = 1 <;>
        simp [onError, onErrorRead, onErrorInner, codeDesc, wrapHandshake, wrapRead, shutdown, dCloseNotify, h1, hm]

/-- The exception the caller sees belongs to the documented families (TLSLocalAlert,
    TLSRemoteAlert, TLSAbruptCloseError, socket.error) for every kind that is an error kind of the
    protocol or the transport; the two remaining kinds are exactly the escapes the check-sequence
    theorems below are about. -/
theorem error_exception_documented (k : ErrKind) (c : Conn)
    (h1 : ∀ e, k ≠ .escaped e) (h2 : k ≠ .internalNoAlert) :
    (onError k c).raised.documented = true ∧ (onErrorRead k c).raised.documented = true := by
  cases k <;> try exact ⟨rfl, rfl⟩
  case remoteAlert level desc =>
    cases desc with
    | zero =>
      by_cases h1 : level = 1 <;>
        simp [onError, onErrorRead, onErrorInner, codeDesc, wrapHandshake, wrapRead, dCloseNotify, h1, Exc.documented]
    | succ n =>
      by_cases h1 : level = 1 <;>
        simp [onError, onErrorRead, onErrorInner, codeDesc, wrapHandshake, wrapRead, dCloseNotify, h1, Exc.documented]
  case escaped e => exact absurd rfl (h1 e)
  case internalNoAlert => exact absurd rfl h2

/-- A received alert is answered with at most a close_notify warning; nothing fatal is sent for it. -/
theorem remote_alert_answer (level desc : Nat) (c : Conn) :
    (onError (.remoteAlert level desc) c).wire = [] ∨
    (onError (.remoteAlert level desc) c).wire = [(1, 0)] := by
  cases desc <;> by_cases h1 : level = 1 <;>
    simp [onError, onErrorInner, codeDesc, wrapHandshake, h1, dCloseNotify]

example : onError .recBadRecordMac ⟨false, some true⟩ = ⟨[(2, 20)], ⟨true, some false⟩, .localAlert 20⟩ := rfl
example : onErrorRead (.remoteAlert 1 0) ⟨false, some true⟩ = ⟨[(1, 0)], ⟨true, some true⟩, .remoteAlert 1 0⟩ := rfl
example : (onError (.escaped .typeError) ⟨false, some true⟩).conn = ⟨true, some false⟩ := rfl

/-! ### the semantic hello checks reach no unrelated exception -/

/-- ClientHello, full strength: for EVERY combination of the modelled features — each extension
    absent / present / duplicated / without payload, empty lists, empty names, mismatching
    counts, unoffered groups, any version numbers, any server settings — the check sequence of
    `_serverGetClientHello` ends in an alert or passes; no combination reaches an unrelated Python
    exception or an exception raised without alert.  (On the tree before the `fix:` commits
    d11bffe and 5d41062 this needed three hypotheses: a duplicated extension type escaped as
    TLSInternalError from getExtension, supported_versions without payload was iterated as None.) -/
theorem hello_checks_total (s : SrvSettings) (h : CH) : ∃ v, chChecks s h = .ok v := by
  unfold chChecks
  split
  · exact ⟨_, rfl⟩
  · split
    · exact ⟨_, rfl⟩
    · rename_i hnd
      simp only [Bool.not_eq_true', Bool.not_eq_false, CH.noDup, Bool.and_eq_true] at hnd
      obtain ⟨⟨⟨⟨⟨⟨⟨⟨⟨⟨⟨⟨⟨⟨d1, d2⟩, d3⟩, d4⟩, d5⟩, d6⟩, d7⟩, d8⟩, d9⟩, d10⟩, d11⟩, d12⟩, d13⟩, d14⟩, d15⟩ := hnd
      cases hv : h.supportedVersions.isPresentNone with
      | true =>
        -- answered by the very first check
        have := chkSupportedVersions_presentNone h hv
        simp only [chBlocks, runBlocks, this]
        exact ⟨_, rfl⟩
      | false =>
        apply runBlocks_total
        intro b hb
        simp only [chBlocks, List.mem_cons, List.not_mem_nil, or_false] at hb
        rcases hb with rfl | rfl | rfl | rfl | rfl | rfl | rfl | rfl | rfl | rfl | rfl | rfl | rfl | rfl | rfl
        · exact chkSupportedVersions_total h d1
        · exact chkVersion_total s h d1 hv
        · exact chkBasics_total h
        · exact chkSigAlgs_total h d2 d1
        · exact chkAlpn_total h d3
        · exact chkSni_total h d4
        · exact chkEms_total h d5
        · exact chkEcPointFormats_total s h d1 hv d6
        · exact chkCertTypeExt_total h d15
        · exact chkTls13_total h d1 hv d9 d8 d11 d10 d7 d2 d12
        · exact chkVersionNegotiation_total s h d1 hv
        · rw [withExt_ok _ _ d4]; exact ⟨_, rfl⟩
        · exact chkGroups_total h d10
        · exact chkHeartbeat_total h d13
        · exact chkRecordSizeLimit_total h d14

/-- an ordinary TLS 1.2 ClientHello, used for the witnesses -/
def plainCH : CH :=
  { parseError := false, clientVersion := 0x0303, suitesEmpty := false, compressionEmpty := false,
    hasNullCompression := true, supportedVersions := .absent, sigAlgs := .present (some 4),
    alpn := .absent, sni := .present ⟨false, [(0, .ok)]⟩, ems := .present false,
    ecPointFormats := .present (some [0]), pha := .absent, pskModes := .absent, psk := .absent,
    supGroups := .present (some [29, 23]), keyShare := .absent, earlyData := .absent,
    heartbeat := .absent, recordSizeLimit := .absent, certType := .absent }

def plainSrv : SrvSettings := ⟨0x0301, 0x0304, [0x0304, 0x0303, 0x0302, 0x0301]⟩

def tls13CH : CH :=
  { plainCH with supportedVersions := .present (some [0x0304, 0x0303]), keyShare := .present (some [29]),
                 pskModes := .present (some [1]) }

/-- non-vacuity: ordinary hellos pass, degenerate ones get the alert the code sends -/
example : chChecks plainSrv plainCH = .ok .pass := rfl
example : chChecks plainSrv tls13CH = .ok .pass := rfl
example : chChecks plainSrv { plainCH with sni := .present ⟨false, [(1, .ok)]⟩ } = .ok .pass := rfl
example : chChecks plainSrv { tls13CH with psk := .present ⟨some [0], some [32], true⟩ }
    = .ok (.alert 50 "Empty identity in PSK extension") := rfl

/-- The deviations that made the statement partial before, as they are answered now:
    a duplicated extension type (DESIGN.md section 7 item 4 (c)) -> illegal_parameter at parse time;
    supported_versions without payload, with any legacy version -> decode_error;
    key_share without payload in psk_ke mode -> decode_error. -/
theorem clientHello_former_escapes_answered :
    chChecks plainSrv { plainCH with sigAlgs := .dup } = .ok (.alert 47 "parse-duplicate") ∧
    chChecks plainSrv { plainCH with supportedVersions := .present none }
      = .ok (.alert 50 "Malformed supported_versions extension") ∧
    chChecks plainSrv { plainCH with clientVersion := 0x0301, supportedVersions := .present none }
      = .ok (.alert 50 "Malformed supported_versions extension") ∧
    chChecks plainSrv { tls13CH with keyShare := .present none, pskModes := .present (some [0]),
                                     psk := .present ⟨some [4], some [32], true⟩ }
      = .ok (.alert 50 "Empty key_share extension") := ⟨rfl, rfl, rfl, rfl⟩

/-- The certificate-type test that follows cipher suite selection (the statements between the
    modelled chain and it are not modelled): once the chain has passed, it cannot escape either —
    a cert_type extension without payload was answered by the chain (`Empty cert_type extension`). -/
theorem certTypeCheck_total (s : SrvSettings) (h : CH) (hp : chChecks s h = .ok .pass) :
    ∃ v, certTypeCheck s h = .ok v := by
  unfold chChecks at hp
  split at hp
  · cases hp
  · split at hp
    · cases hp
    · rename_i hnd
      simp only [Bool.not_eq_true', Bool.not_eq_false, CH.noDup, Bool.and_eq_true] at hnd
      have d15 : h.certType.isDup = false := by simpa using hnd.2
      have hb := runBlocks_pass_inv _ hp (fun _ => chkCertTypeExt h)
        (by simp [chBlocks])
      have hc : h.certType.isPresentNone = false := by
        unfold chkCertTypeExt at hb
        rw [withExt_ok _ _ d15] at hb
        cases hct : h.certType with
        | absent => rfl
        | dup => rfl
        | present t =>
          cases t with
          | some l => rfl
          | none => rw [hct] at hb; simp [Ext.toOption, alertIf, optEmpty] at hb
      apply runBlocks_total
      intro b hb'
      simp only [List.mem_cons, List.not_mem_nil, or_false] at hb'
      subst hb'
      exact chkCertTypes_total s h d15 hc

example : certTypeCheck plainSrv { plainCH with certType := .present (some [1]) }
    = .ok (.alert 40 "the client doesn't support my certificate type") := rfl

/-! ServerHello -/

/-- ServerHello, full strength: for every combination of the modelled features and every client
    state the checks of `_clientGetServerHello` and the start of `_clientTLS13Handshake` end in an
    alert or pass.  (Before the `fix:` commits d11bffe, aae4c38 and fd09688 this needed the
    hypotheses "no duplicated extension type" and "in TLS 1.3 the selected key share / PSK is
    present, well formed and was offered".) -/
theorem server_hello_checks_total (c : CliState) (h : SH) : ∃ v, shChecks c h = .ok v := by
  unfold shChecks
  split
  · exact ⟨_, rfl⟩
  · split
    · exact ⟨_, rfl⟩
    · rename_i hnd
      simp only [Bool.not_eq_true', Bool.not_eq_false, SH.noDup, Bool.and_eq_true] at hnd
      obtain ⟨⟨⟨⟨⟨⟨⟨d1, d2⟩, d3⟩, d4⟩, d5⟩, d6⟩, d7⟩, d8⟩ := hnd
      apply runBlocks_total
      intro b hb
      simp only [shBlocks, List.mem_cons, List.not_mem_nil, or_false] at hb
      rcases hb with rfl | rfl | rfl | rfl | rfl | rfl | rfl | rfl
      · obtain ⟨rv, hr⟩ := shRealVersion_total h d1
        simp only [shkVersion, hr, alertIf, done]
        finish_chk
      · simp only [shkBasics, alertIf, done]
        finish_chk
      · obtain ⟨rv, hr⟩ := shRealVersion_total h d1
        simp only [shkEms, hr, withExt_ok _ _ d2, alertIf, done]
        finish_chk
      · simp only [shkAlpn, withExt_ok _ _ d3]
        cases h.alpn.toOption with
        | none => exact ⟨_, rfl⟩
        | some names =>
          rcases names with _ | ⟨n0, tl⟩ <;> simp only [alertIf, done] <;> finish_chk
      · simp only [shkHeartbeat, withExt_ok _ _ d4, alertIf, done]
        finish_chk
      · simp only [shkEcPointFormats, withExt_ok _ _ d8, alertIf, done]
        finish_chk
      · simp only [shkRecordSizeLimit, withExt_ok _ _ d5, alertIf, done]
        finish_chk
      · exact shkTls13_total c h d1 d6 d7

def plainSH12 : SH :=
  { parseError := false, serverVersion := 0x0303, supportedVersions := .absent, aligned := true, hrrCipherMismatch := false,
    sessionIdEchoed := true, cipherOffered := true, certTypeOffered := true, compressionNull := true,
    tack := false, npn := false, ems := .present (), alpn := .absent, alpnFirstOffered := true,
    heartbeat := .absent, ecPointFormats := .present (some [0]), recordSizeLimit := .absent,
    keyShare := .absent, psk := .absent }

def plainSH13 : SH :=
  { plainSH12 with supportedVersions := .present 0x0304, keyShare := .present (some 29), ecPointFormats := .absent }

def plainCli : CliState :=
  { minVersion := 0x0301, maxVersion := 0x0304, versions := [0x0304, 0x0303, 0x0302, 0x0301], requireEms := false,
    sentTack := false, sentNpn := false, sentAlpn := false, useHeartbeat := true, heartbeatCallback := false,
    sharesSent := some [29, 23], pskIdsSent := none }

example : shChecks plainCli plainSH12 = .ok .pass := rfl
example : shChecks plainCli plainSH13 = .ok .pass := rfl
example : shChecks plainCli { plainSH13 with sessionIdEchoed := false } =
    .ok (.alert 47 "Received ServerHello session_id does not match the one in ClientHello") := rfl

/-- the former ServerHello escapes, as they are answered now -/
theorem serverHello_former_escapes_answered :
    shChecks plainCli { plainSH13 with ems := .dup } = .ok (.alert 47 "parse-duplicate") ∧
    shChecks plainCli { plainSH13 with keyShare := .absent }
      = .ok (.alert 47 "Server did not select PSK nor an (EC)DH group") ∧
    shChecks plainCli { plainSH13 with keyShare := .present none }
      = .ok (.alert 50 "Empty key_share extension in Server Hello") ∧
    shChecks plainCli { plainSH13 with keyShare := .present (some 24) }
      = .ok (.alert 47 "Server selected not advertised group.") ∧
    shChecks plainCli { plainSH13 with psk := .present (some 0) }
      = .ok (.alert 110 "Server sent pre_shared_key extension without one in client hello") ∧
    shChecks { plainCli with pskIdsSent := some 1 } { plainSH13 with psk := .present none }
      = .ok (.alert 50 "Empty pre_shared_key extension in Server Hello") ∧
    shChecks { plainCli with pskIdsSent := some 1 } { plainSH13 with psk := .present (some 1) }
      = .ok (.alert 47 "Server selected PSK identity we did not offer") ∧
    shChecks plainCli { plainSH12 with ecPointFormats := .present none }
      = .ok (.alert 50 "Empty ec_point_formats extension in Server Hello") :=
  ⟨rfl, rfl, rfl, rfl, rfl, rfl, rfl, rfl⟩

/-! ### compressed certificates -/

/-- `CompressedCertificate.parse`: accepted exactly when the stream is intact and complete and
    inflates to the declared `uncompressed_length`; whatever the stream claims to contain, at most
    `declared + 1 <= 2^24` bytes are ever materialised; every rejection carries an alert. -/
theorem decompressed_len_checked (declared clen : Nat) (known : Bool) (z : ZStream)
    (hd : declared < 2 ^ 24) :
    ((decompress declared clen known z).accepted = true ↔
      (clen ≠ 0 ∧ known = true ∧ z.corrupt = false ∧ z.complete = true ∧ z.avail = declared)) ∧
    ((decompress declared clen known z).accepted = true → (decompress declared clen known z).produced = declared) ∧
    (decompress declared clen known z).produced ≤ declared + 1 ∧
    (decompress declared clen known z).produced ≤ 2 ^ 24 ∧
    ((decompress declared clen known z).accepted = false → (decompress declared clen known z).alert.isSome = true) := by
  unfold decompress
  by_cases h1 : clen = 0
  · simp [h1]
  · by_cases h2 : known = true
    · by_cases h3 : z.corrupt = true
      · simp [h1, h2, h3]
      · have h3' : z.corrupt = false := by simpa using h3
        simp only [beq_iff_eq, h1, h2, h3', Bool.not_true, Bool.false_eq_true, if_false, ne_eq, not_false_eq_true,
          true_and]
        by_cases hc : z.complete = true
        · by_cases ha : z.avail < declared + 1
          · have hm : min z.avail (declared + 1) = z.avail := Nat.min_eq_left (by omega)
            by_cases he : z.avail = declared
            · simp [hc, he]; omega
            · simp [hc, ha, hm, he]; omega
          · have hm : min z.avail (declared + 1) = declared + 1 := Nat.min_eq_right (by omega)
            have : z.avail ≠ declared := by omega
            simp [hc, ha, hm, this]; omega
        · have hc' : z.complete = false := by simpa using hc
          by_cases ha : z.avail < declared + 1
          · have hm : min z.avail (declared + 1) = z.avail := Nat.min_eq_left (by omega)
            have : z.avail ≤ declared := by omega
            simp [hc', hm, this]; omega
          · have hm : min z.avail (declared + 1) = declared + 1 := Nat.min_eq_right (by omega)
            simp [hc', hm]; omega
    · have h2' : known = false := by simpa using h2
      simp [h1, h2']

example : decompress 1000 400 true ⟨1000, true, false⟩ = ⟨true, 1000, none⟩ := rfl
example : decompress 1000 51000 true ⟨50000000, true, false⟩ = ⟨false, 1001, some 42⟩ := rfl

/-- Deviation (d) as it was before the fix: `zlib.decompress(data, 15, n)` inflates the whole stream;
    a message declaring 1000 bytes makes the receiver materialise 50 MB before rejecting it. -/
theorem decompressOld_unbounded :
    (decompressOld 1000 51000 true ⟨50000000, true, false⟩).accepted = false ∧
    (decompressOld 1000 51000 true ⟨50000000, true, false⟩).produced = 50000000 := ⟨rfl, rfl⟩

end Tls.ErrPath

namespace Tls

/-! ### the flights after the hellos -/

namespace Flights
open Tls.Flights Tls.ErrPath

/-- TLS 1.3 server, the client's second flight ([Certificate] [CertificateVerify] Finished with
    ChangeCipherSpec records anywhere): whatever the items and their features, the checks of
    `_serverTLS13Handshake` end in an alert, wait for input or pass — never in an exception. -/
theorem tls13_server_flight_checks_total (c : Srv13) (fl : List Item) :
    (server13 c fl).noEscape = true := by
  unfold server13
  simp only []
  flight_walk

/-- TLS <= 1.2 server: [Certificate] ClientKeyExchange [CertificateVerify] ChangeCipherSpec Finished. -/
theorem tls12_server_flight_checks_total (c : Srv12) (fl : List Item) :
    (server12 c fl).noEscape = true := by
  unfold server12
  simp only []
  flight_walk

/-- TLS <= 1.2 client: Certificate / ServerKeyExchange / CertificateRequest / ServerHelloDone,
    then ChangeCipherSpec and Finished (`_clientKeyExchange`, `_clientFinished`). -/
theorem tls12_client_flight_checks_total (c : Cli12) (fl : List Item) :
    (client12 c fl).noEscape = true := by
  have hske : ∀ cert ske fl, (c.certSuite = true → cert.isSome = true) →
      (client12AfterSke c cert ske fl).noEscape = true := by
    intro cert ske fl hc
    unfold client12AfterSke
    repeat' (first
      | exact client12AfterDone_noEscape c _ _ _ _ hc
      | rfl
      | (apply andThen_noEscape' (get12hs_good' _ _); intro _ _)
      | split)
  have hcert : ∀ cert fl, (c.certSuite = true → cert.isSome = true) →
      (client12AfterCert c cert fl).noEscape = true := by
    intro cert fl hc
    unfold client12AfterCert
    repeat' (first
      | exact hske _ _ _ hc
      | (apply andThen_noEscape' (get12hs_good' _ _); intro _ _)
      | split)
  unfold client12
  split
  · apply andThen_noEscape' (get12hs_good' _ _)
    intro ct rest
    exact hcert _ _ (fun _ => rfl)
  · rename_i h
    exact hcert _ _ (fun h' => absurd h' h)

/-- TLS 1.3 client, the server's flight after ServerHello: EncryptedExtensions, [CertificateRequest],
    Certificate (per-entry extensions, delegated credential), CertificateVerify, Finished, the answers
    to the CertificateRequest and the ALPN / heartbeat checks done last.  Hypothesis: what the parsers
    establish (a message with a duplicated extension type does not parse). -/
theorem tls13_client_flight_checks_total (c : Cli13) (fl : List Item) (hwf : ∀ i ∈ fl, i.wf = true) :
    (client13 c fl).noEscape = true := by
  unfold client13
  apply andThen_noEscape (get13_good (fun i => i.wf = true) [8] fl hwf)
  intro ee rest hw hp _
  obtain ⟨he, hx⟩ := wf_nodup hw hp
  cases he1 : ee.e1 with
  | dup => rw [he1] at he; exact Bool.noConfusion he
  | absent =>
    simp only [getExt]
    cases client13Rsl c none with
    | some p => rfl
    | none =>
      simp only
      apply andThen_noEscape' (get13_good' _ _)
      intro m rest2
      split <;> exact client13WithCert_noEscape c ee _ _ hx
  | present v =>
    simp only [getExt]
    cases client13Rsl c (some v) with
    | some p => rfl
    | none =>
      simp only
      apply andThen_noEscape' (get13_good' _ _)
      intro m rest2
      split <;> exact client13WithCert_noEscape c ee _ _ hx

/-- The HelloRetryRequest decision and the comparison of the second ClientHello: no combination of
    (first hello's shares and groups, server groups, second hello) escapes.  Hypothesis as above.  Needs
    the `fix:` for the psk_ke hello without supported_groups (before it: AttributeError at
    `supported.groups`). -/
theorem hrr_checks_total (h : Hrr) (hwf : h.keyShare2.isDup = true → h.parse2 ≠ 0) :
    (hrrChecks h).noEscape = true := by
  unfold hrrChecks
  cases h.keyShare with
  | none => rfl
  | some shares =>
    simp only
    split
    · rfl
    · cases h.supGroups with
      | none => rfl
      | some groups =>
        simp only
        cases List.find? (fun x => groups.contains x) h.acceptable with
        | none => rfl
        | some sel =>
          simp only
          by_cases hp : (h.parse2 != 0) = true
          · simp only [hp, if_true]; rfl
          · simp only [hp, Bool.false_eq_true, if_false]
            cases hk : h.keyShare2 with
            | dup =>
              have := hwf (by rw [hk]; rfl)
              simp at hp
              exact absurd hp this
            | absent => rfl
            | present v =>
              cases v with
              | none => rfl
              | some l =>
                cases l with
                | nil => simp [Out.noEscape]
                | cons g tl => simp only; repeat' (first | rfl | split)

/-- the consistency checks between a cached session and the new ClientHello (between the
    record_size_limit check and the certificate selection) answer or go on, whatever the features -/
theorem resume_checks_total (r : Resume) : (resumeChecks r).noEscape = true := by
  unfold resumeChecks
  repeat' (first | rfl | split)

/-- Early data: however many undecryptable records of whatever sizes a peer sends after a
    ClientHello with early_data, the server skips strictly less than `max_early_data` bytes in
    total (counting what was skipped before) and then fails (bad_record_mac) at the first record
    that would reach the limit; skipping never goes on past the budget. -/
theorem early_data_bounded (maxEarly : Nat) : ∀ (sizes : List Nat) (processed : Nat),
    processed + earlySkipped maxEarly processed sizes < maxEarly ∨
      (earlySkip maxEarly processed sizes).1 = 0 := by
  intro sizes
  induction sizes with
  | nil => intro p; right; rfl
  | cons n rest ih =>
    intro p
    unfold earlySkipped earlySkip
    by_cases h : p + n < maxEarly
    · simp only [h, if_true]
      left
      have := ih (p + n)
      simp only [List.take_succ_cons, List.foldl_cons, Nat.zero_add]
      unfold earlySkipped at this
      rcases this with h1 | h1
      · have e : ∀ (l : List Nat) (a : Nat), l.foldl (· + ·) a = a + l.foldl (· + ·) 0 := by
          intro l
          induction l with
          | nil => intro a; simp
          | cons x xs ihx => intro a; simp only [List.foldl_cons]; rw [ihx (a + x), ihx (0 + x)]; omega
        rw [e _ n]; omega
      · rw [h1]; simpa using h
    · simp only [h, if_false]; right; trivial

/-- ... and a flight that exceeds the budget does end with the failure -/
theorem early_data_fails_when_exceeded (maxEarly n : Nat) (processed : Nat) (rest : List Nat)
    (h : maxEarly ≤ processed + n) : earlySkip maxEarly processed (n :: rest) = (0, true) := by
  unfold earlySkip
  have : ¬ (processed + n < maxEarly) := by omega
  simp [this]

example : earlySkip 4000 0 (List.replicate 48 500) = (7, true) := by decide

/-- History level: after any connection that used the cached session `i` (full or resumed) ended
    with `_shutdown(False)`, no later connection offering `i` is resumed, whatever happens in
    between. -/
theorem failed_session_never_resumes (c : Cache) (i : Nat) (before after : List Bool) :
    (c.afterHistory i (before ++ false :: after)).resumes i = false := by
  have hkeep : ∀ (h : List Bool) (c : Cache), c.resumes i = false → (c.afterHistory i h).resumes i = false := by
    intro h
    induction h with
    | nil => intro c hc; exact hc
    | cons r rest ih =>
      intro c hc
      apply ih
      unfold Cache.shutdown
      cases r with
      | true => simpa using hc
      | false =>
        simp only [Bool.false_eq_true, if_false]
        unfold Cache.resumes at hc ⊢
        induction c with
        | nil => rfl
        | cons e tl iht =>
          simp only [List.map_cons, List.find?_cons] at hc ⊢
          by_cases he : (e.1 == i) = true
          · simp [he]
          · simp only [he, Bool.false_eq_true, if_false] at hc ⊢
            exact iht hc
  have hfail : ∀ c : Cache, (c.shutdown i false).resumes i = false := by
    intro c
    unfold Cache.shutdown Cache.resumes
    simp only [Bool.false_eq_true, if_false]
    induction c with
    | nil => rfl
    | cons e tl iht =>
      simp only [List.map_cons, List.find?_cons]
      by_cases he : (e.1 == i) = true
      · simp [he]
      · simp only [he, Bool.false_eq_true, if_false]
        exact iht
  induction before generalizing c with
  | nil => exact hkeep after _ (hfail c)
  | cons r rest ih => exact ih (c.shutdown i r)

example : (Cache.afterHistory [(7, true)] 7 [true, true]).resumes 7 = true := by decide
example : (Cache.afterHistory [(7, true)] 7 [true, false, true]).resumes 7 = false := by decide

/-- non-vacuity: honest flights pass, a few broken ones get the alert the code sends -/
example : server13 ⟨true, false⟩ [{ htype := 11 }, { htype := 15 }, { ctype := 20, ccs := [1] }, { htype := 20 }] = .pass := rfl
example : server13 ⟨true, false⟩ [{ htype := 11, b1 := false }, { htype := 20, b1 := false }]
    = .alert 51 "Finished value is not valid" := rfl
example : server12 ⟨false, true⟩ [{ htype := 16, b1 := false }, { ctype := 20, ccs := [1] }, { htype := 20 }]
    = .alert 20 "MAC failure (or padding failure)" := rfl
example : client12 ⟨true, true, false, true⟩ [{ htype := 11 }, { htype := 12 }, { htype := 14 }, { ctype := 20, ccs := [1] }, { htype := 20 }]
    = .pass := rfl
example : client13 ⟨false, true, false, false, true, false, false⟩
    [{ htype := 8 }, { htype := 11 }, { htype := 15 }, { htype := 20 }] = .pass := rfl
example : client13 ⟨false, true, false, false, true, false, false⟩
    [{ htype := 8 }, { htype := 11, b1 := false }, { htype := 15 }, { htype := 20 }]
    = .alert 47 "Other party sent a Certificate message without certificates" := rfl
example : hrrChecks ⟨some [30], some [30, 29], [23, 29], 0, .present (some [29]), 0, false, true, true⟩ = .pass := rfl
example : hrrChecks ⟨some [30], none, [23, 29], 0, .present (some [29]), 0, false, true, true⟩
    = .alert 109 "Missing supported_groups extension" := rfl

end Flights

end Tls

/-! ### the tie to the source: obligations over what translate/gen_errpath.py reads off the Python AST

    TlsModel/Gen/ErrPath.lean is regenerated from the tree under check on every run; the statements below are
    decided by the kernel on that data.  Reverting one of the presence checks (e.g. `if not supported:` before
    `supported.groups`, `sni_ext.hostNames` before `hostNames[0]`), removing a handler of `_getMsg`, changing
    the alert of one, or parsing a new message type outside the `try` makes them false. -/
namespace Tls.ErrSites
open Tls.ErrPath Tls.Gen.ErrPath

/-- Every `<Message>(...).parse(p)` of `_getMsg` is the one expected for its content / handshake type, and every
    exception class that a `parse*` method (messages.py, extensions.py) or `codec.Parser` raises - other than the
    listed local invariants - is caught at every site by a handler that sends a fatal decode_error /
    illegal_parameter / bad_certificate alert (a malformed heartbeat is discarded, RFC 6520). -/
theorem gen_every_parse_site_guarded :
    translatorProblems = [] ∧
    parseSites.map (fun s => (s.selector, s.cls)) = expectedSites ∧
    (∀ s ∈ parseSites, s.arg = "p") ∧
    (∀ r ∈ parserRaises, raiseGuarded (builtinBases ++ excBases) parseSites r = true) ∧
    (∀ s ∈ parseSites, ∀ c ∈ ["SyntaxError", "DecodeError", "BadCertificateError", "TLSIllegalParameterException"],
        siteGuarded (builtinBases ++ excBases) s c = true) := by
  refine ⟨rfl, rfl, by decide, by decide, by decide⟩

example : parseSites.length = 21 := rfl
example : parserRaises.length ≥ 10 := by decide +kernel
-- a parse call outside the `try` would not be guarded
example : siteGuarded (builtinBases ++ excBases) ⟨"KeyUpdate", "", "p", []⟩ "DecodeError" = false := by decide
-- without the SyntaxError handler DecodeError (a SyntaxError) escapes
example : siteGuarded (builtinBases ++ excBases)
    ⟨"KeyUpdate", "", "p", [[(["TLSIllegalParameterException"], .sendError "illegal_parameter")]]⟩ "DecodeError" = false := by decide

/-- The `except` clauses of tlsrecordlayer.py and tlsconnection.py are exactly the reviewed table; the handlers
    of `_getNextRecordFromSocket` and `_getMsg` answer each class with the alert `ErrPath.codeDesc` gives the
    corresponding error kind, and cover every kind of that family; the alert numbers of constants.py are those of
    the model; `_sendError` and `_shutdown` have the statement sequence that `ErrPath.sendError` / `shutdown`
    model; the outermost handlers of `readAsync` and `_handshakeWrapperAsync` are `_shutdown(False); raise`
    (`wrapRead`, `wrapHandshake`). -/
theorem gen_exception_alert_table_matches_model :
    handlers = modelHandlers ∧
    shapes = expectedShapes ∧
    (∀ r ∈ modelAlertNumbers, alertNumber alertNumbers r.1 = some r.2) ∧
    (∀ h ∈ handlers, (h.fn = "_getNextRecordFromSocket" ∨ (h.fn = "_getMsg" ∧ h.action ≠ .swallow)) →
        handlerMatchesModel alertNumbers h = true) ∧
    (∀ r ∈ classKind, ∃ h ∈ handlers, h.fn = r.1 ∧ h.classes = [r.2.1] ∧ handlerMatchesModel alertNumbers h = true) ∧
    (⟨"tlsrecordlayer.py", "readAsync", ["*"], .shutdownRaise "False"⟩ ∈ handlers) ∧
    (⟨"tlsconnection.py", "_handshakeWrapperAsync", ["*"], .shutdownRaise "False"⟩ ∈ handlers) := by
  refine ⟨rfl, rfl, by decide, by decide, by decide, by decide, by decide⟩

example : handlers.length ≥ 60 := by decide +kernel
example : (handlers.filter (fun h => match h.action with | .sendError _ => true | _ => false)).length ≥ 40 := by decide +kernel
-- a handler with another alert does not match the model
example : handlerMatchesModel alertNumbers
    ⟨"tlsrecordlayer.py", "_getMsg", ["SyntaxError"], .sendError "illegal_parameter"⟩ = false := by decide

/-- Every `v.attr` / `v.attr[k]` on a `getExtension` result in tlsconnection.py, tlsrecordlayer.py, keyexchange.py
    and handshakehelpers.py is reached only under path conditions that force the extension to be present (the
    list to be non-empty) - decided by enumerating the valuations of the atoms of its path -, or reads a message
    the endpoint built itself, or is covered by a listed fact whose establishing `if ...: _sendError` still exists
    in the named function. -/
theorem gen_extension_uses_dominated_by_presence_check :
    translatorProblems = [] ∧ extTruthOverrides = [] ∧
    (∀ u ∈ extUses, u.ok exitChecks = true) := by
  refine ⟨rfl, rfl, by decide +kernel⟩

example : extUses.length ≥ 140 := by decide +kernel
-- a use under `if v:` is dominated directly, one behind `if not v: <alert>` too, one under `if w:` is not
example : ExtUse.direct ⟨"", "", "v", "a", "attr", 0, [⟨"ext", "m", "x", ""⟩], [.atom 0]⟩ = true := by decide
example : ExtUse.direct ⟨"", "", "v", "a", "attr", 0, [⟨"ext", "m", "x", ""⟩], [.not (.not (.atom 0))]⟩ = true := by decide
example : ExtUse.direct ⟨"", "", "v", "a", "attr", 0, [⟨"ext", "m", "x", ""⟩, ⟨"ext", "m", "y", ""⟩], [.atom 1]⟩ = false := by decide
-- `supported.groups` without the `if not supported:` check in front of it (the shape before 7443330)
example : ExtUse.ok exitChecks
    { file := "tlsconnection.py", fn := "_serverGetClientHello", var := "supported", attr := "groups", kind := "attr",
      line := 0, atoms := [⟨"ext", "clientHello", "supported_groups", ""⟩, ⟨"ext", "clientHello", "key_share", ""⟩],
      path := [.atom 1] } = false := by decide
-- `sni_ext.hostNames[0]` under `if sni_ext:` only (the shape before 4df6873)
example : ExtUse.ok exitChecks
    { file := "tlsconnection.py", fn := "_serverGetClientHello", var := "sni_ext", attr := "hostNames[0]", kind := "index",
      line := 0, atoms := [⟨"nonempty", "clientHello", "server_name", "hostNames"⟩, ⟨"ext", "clientHello", "server_name", ""⟩],
      path := [.atom 1] } = false := by decide

/-- `CompressedCertificate._decompress` / `.parse` contain exactly the bounding calls and checks that
    `ErrPath.decompress` models (zlib output limited to the declared length + 1, any decompressor failure becomes
    BadCertificateError, exact length match required). -/
theorem gen_decompress_sites_match_model : decompressSites = expectedDecompress := by rfl

end Tls.ErrSites
