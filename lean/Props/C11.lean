import TlsProofs.RsaDecrypt
import TlsProofs.RsaServer
import TlsProofs.RsaGen
import TlsModel.Gen.RsaDecrypt
import TlsProofs.CryptomathGen
import TlsModel.Gen.Cryptomath
/-
  C11 — RSA key transport gives an attacker no padding oracle.

  `decrypt` mirrors `RSAKey.decrypt` (tlslite/utils/rsakey.py) statement by statement,
  `processClientKeyExchange` mirrors `RSAKeyExchange.processClientKeyExchange`
  (tlslite/keyexchange.py).  SHA-256, HMAC-SHA256 and the integer private-key operation are
  arbitrary functions; the only thing assumed of HMAC is its 32-byte output length.  The key
  size hypotheses `11 ≤ k < 65536` (k = byte length of the modulus) are the range in which
  PKCS#1 v1.5 encryption exists at all and in which the code's 16-bit masks are exact.

  A ciphertext is *publicly valid* when it has exactly `k` bytes and encodes a number below `n`.
-/
set_option linter.unusedSimpArgs false
namespace Tls.RsaDec
open Tls.CT

/-- **Totality.** `decrypt` never raises; it returns `None` exactly for the publicly invalid
    ciphertexts, and a byte string for every other ciphertext. -/
theorem decrypt_total (K : Key) (P : Prims) (c : Bytes)
    (h32 : ∀ k m, (P.hmac k m).length = 32) (hk : 11 ≤ K.k) (hk16 : K.k < 65536) :
    (decrypt K P c = .ok none ↔ ¬ PubliclyValid K c) ∧
    (PubliclyValid K c → ∃ m, decrypt K P c = .ok (some m)) := by
  unfold PubliclyValid decrypt rawPrivateKeyOpBytes
  by_cases h1 : c.length = K.k
  · by_cases h2 : beDecode c < K.n
    · have h2' : ¬ beDecode c ≥ K.n := by omega
      simp only [h1, h2, h2', ne_eq, not_true_eq_false, if_false, and_self]
      have ht := decryptTail_eq K P c (beEncode K.k (P.privInt (beDecode c))) h32 hk hk16
        (beEncode_length _ _)
      obtain ⟨lr, mr, _, _, hs, _, _⟩ := synthMessage_ok P.hmac K.k (kdk K P c) h32 hk hk16
      cases hp : parseEM (beEncode K.k (P.privInt (beDecode c))) with
      | some s => rw [hp] at ht; simp [ht]
      | none => rw [hp] at ht; simp only at ht; rw [hs] at ht; simp [ht]
    · have h2' : beDecode c ≥ K.n := by omega
      simp [h1, h2, h2']
  · simp [h1]

example : decrypt exKey (exPrims exGoodEM) exCipher = .ok (some [0xaa, 0xbb, 0xcc, 0xdd, 0xee]) := by
  decide +kernel
example : decrypt exKey (exPrims exGoodEM) (0 :: exCipher) = .ok none := by decide +kernel
example : decrypt exKey (exPrims exGoodEM) (beEncode 16 (2 ^ 128 - 159)) = .ok none := by decide +kernel
example : ∃ m, decrypt exKey (exPrims exBadEM) exCipher = .ok (some m) :=
  (decrypt_total exKey (exPrims exBadEM) exCipher (exPrims_h32 _) (by rw [exKey_k]; decide)
    (by rw [exKey_k]; decide)).2 exCipher_valid

/-- **Valid padding gives the message.** If the encoded message the key computes is
    `00 02 PS 00 M` with at least eight padding bytes, none zero, `decrypt` returns exactly `M`. -/
theorem decrypt_valid (K : Key) (P : Prims) (c ps m : Bytes)
    (h32 : ∀ k m, (P.hmac k m).length = 32) (hk : 11 ≤ K.k) (hk16 : K.k < 65536)
    (hc : PubliclyValid K c)
    (hem : em K P c = 0 :: 2 :: (ps ++ 0 :: m)) (h8 : 8 ≤ ps.length) (hnz : ∀ b ∈ ps, b ≠ 0) :
    decrypt K P c = .ok (some m) := by
  obtain ⟨h1, h2⟩ := hc
  unfold decrypt rawPrivateKeyOpBytes
  have h2' : ¬ beDecode c ≥ K.n := by omega
  simp only [h1, h2', ne_eq, not_true_eq_false, if_false]
  have ht := decryptTail_eq K P c (beEncode K.k (P.privInt (beDecode c))) h32 hk hk16
    (beEncode_length _ _)
  unfold em at hem
  rw [hem, parse_of_wellFormed ps m h8 hnz] at ht
  simp only at ht
  rw [hem, ht]
  have : List.drop (ps.length + 3) (0 :: 2 :: (ps ++ 0 :: m)) = m := by
    simp [List.drop_append]
  rw [this]

example : decrypt exKey (exPrims exGoodEM) exCipher = .ok (some [0xaa, 0xbb, 0xcc, 0xdd, 0xee]) :=
  decrypt_valid exKey (exPrims exGoodEM) exCipher [1, 2, 3, 4, 5, 6, 7, 8] [0xaa, 0xbb, 0xcc, 0xdd, 0xee]
    (exPrims_h32 _) (by rw [exKey_k]; decide) (by rw [exKey_k]; decide) exCipher_valid
    (by decide +kernel) (by decide) (by decide)

/-- **Uniform implicit rejection.** There is one function `g` of the key-derivation key
    (`kdk = HMAC(SHA256(d), c)`), fixed before the private-key operation and hence before the
    encoded message is known, such that every publicly valid ciphertext whose encoded message
    is not well formed — whatever the kind of defect — decrypts to `g (kdk c)`; its length is at
    most `k - 11`.  The synthetic message, and in particular its length, therefore cannot depend
    on the defect class. -/
theorem decrypt_invalid_uniform (K : Key) (sha256 : Bytes → Bytes) (hmac : Bytes → Bytes → Bytes)
    (h32 : ∀ k m, (hmac k m).length = 32) (hk : 11 ≤ K.k) (hk16 : K.k < 65536) :
    ∃ g : Bytes → Bytes, (∀ x, (g x).length ≤ K.k - 11) ∧
      ∀ (privInt : Nat → Nat) (c : Bytes),
        let P : Prims := { sha256 := sha256, hmac := hmac, privInt := privInt }
        PubliclyValid K c → ¬ WellFormedEM (em K P c) →
          decrypt K P c = .ok (some (g (kdk K P c))) := by
  refine ⟨fun x => match synthMessage hmac K.k x with | .ok m => m | .error _ => [], ?_, ?_⟩
  · intro x
    obtain ⟨lr, mr, _, _, hs, hl, hb⟩ := synthMessage_ok hmac K.k x h32 hk hk16
    simp only [hs, hl]; exact hb
  · intro privInt c P hc hnw
    obtain ⟨h1, h2⟩ := hc
    unfold decrypt rawPrivateKeyOpBytes
    have h2' : ¬ beDecode c ≥ K.n := by omega
    simp only [h1, h2', ne_eq, not_true_eq_false, if_false]
    have ht := decryptTail_eq K P c (beEncode K.k (P.privInt (beDecode c))) h32 hk hk16
      (beEncode_length _ _)
    have hp : parseEM (beEncode K.k (P.privInt (beDecode c))) = none := by
      cases hq : parseEM (beEncode K.k (P.privInt (beDecode c))) with
      | none => rfl
      | some s =>
        exfalso; apply hnw
        exact (wellFormed_iff_parse _).mpr (by unfold em; rw [hq]; rfl)
    rw [hp] at ht
    simp only at ht
    obtain ⟨lr, mr, _, _, hs, _, _⟩ := synthMessage_ok hmac K.k (kdk K P c) h32 hk hk16
    rw [ht]
    show (match synthMessage hmac K.k (kdk K P c) with | .error e => _ | .ok m => _) = _
    rw [hs]

/-- two different defect classes (zero inside the first eight padding bytes / wrong block
    type), same ciphertext: the very same synthetic message -/
example : ¬ WellFormedEM (em exKey (exPrims exBadEM) exCipher) ∧
    ¬ WellFormedEM (em exKey (exPrims exBadEM2) exCipher) ∧
    decrypt exKey (exPrims exBadEM) exCipher = decrypt exKey (exPrims exBadEM2) exCipher ∧
    decrypt exKey (exPrims exBadEM) exCipher ≠ .ok none := by
  refine ⟨?_, ?_, by decide +kernel, by decide +kernel⟩
  · rw [wellFormed_iff_parse]; decide +kernel
  · rw [wellFormed_iff_parse]; decide +kernel

/-- **Synthetic length bound.** Whatever the PRF output, the selected synthetic length is at
    most `k - 11` (the largest message PKCS#1 v1.5 can carry), so the synthetic message is
    indistinguishable by length from a real one; and what `decrypt` returns for a malformed
    encoded message has exactly that length. -/
theorem synth_length_bound (K : Key) (P : Prims) (c : Bytes)
    (h32 : ∀ k m, (P.hmac k m).length = 32) (hk : 11 ≤ K.k) (hk16 : K.k < 65536) :
    (∀ lr, synthLen (K.k - 10) lr ≤ K.k - 11) ∧
    (PubliclyValid K c → ¬ WellFormedEM (em K P c) →
      ∃ m lr, decPrf P.hmac (kdk K P c) lengthLabel (128 * 2 * 8) = .ok lr ∧
        decrypt K P c = .ok (some m) ∧ m.length = synthLen (K.k - 10) lr ∧ m.length ≤ K.k - 11) := by
  constructor
  · intro lr
    have := synthLen_lt (K.k - 10) lr (by omega) (by omega)
    omega
  · intro hc hnw
    obtain ⟨h1, h2⟩ := hc
    obtain ⟨lr, mr, hlr, _, hs, hl, hb⟩ := synthMessage_ok P.hmac K.k (kdk K P c) h32 hk hk16
    refine ⟨mr.drop (K.k - synthLen (K.k - 10) lr), lr, hlr, ?_, hl, by omega⟩
    unfold decrypt rawPrivateKeyOpBytes
    have h2' : ¬ beDecode c ≥ K.n := by omega
    simp only [h1, h2', ne_eq, not_true_eq_false, if_false]
    have ht := decryptTail_eq K P c (beEncode K.k (P.privInt (beDecode c))) h32 hk hk16
      (beEncode_length _ _)
    have hp : parseEM (beEncode K.k (P.privInt (beDecode c))) = none := by
      cases hq : parseEM (beEncode K.k (P.privInt (beDecode c))) with
      | none => rfl
      | some s =>
        exfalso; apply hnw
        exact (wellFormed_iff_parse _).mpr (by unfold em; rw [hq]; rfl)
    rw [hp] at ht
    simp only at ht
    rw [ht, hs]

example : ∃ m, decrypt exKey (exPrims exBadEM) exCipher = .ok (some m) ∧ m.length ≤ 5 := by
  obtain ⟨m, _, _, h, _, hl⟩ := (synth_length_bound exKey (exPrims exBadEM) exCipher (exPrims_h32 _)
    (by rw [exKey_k]; decide) (by rw [exKey_k]; decide)).2 exCipher_valid
    (by rw [wellFormed_iff_parse]; decide +kernel)
  exact ⟨m, h, by rw [exKey_k] at hl; exact hl⟩

/-- the decrypted value is used as the premaster secret: 48 bytes whose first two bytes are
    the client-hello version or (tolerated) the negotiated version -/
def Accepted (dec : Option Bytes) (clientVersion serverVersion : Nat × Nat) : Prop :=
  ∃ v0 v1 rest, dec = some (v0 :: v1 :: rest) ∧ (v0 :: v1 :: rest).length = 48 ∧
    ((v0.toNat, v1.toNat) = clientVersion ∨ (v0.toNat, v1.toNat) = serverVersion)

theorem substitutePremaster_spec (dec : Option Bytes) (rand : Bytes) (cv sv : Nat × Nat) :
    (Accepted dec cv sv → dec = some (substitutePremaster dec rand cv sv)) ∧
    (¬ Accepted dec cv sv → substitutePremaster dec rand cv sv = rand) := by
  unfold Accepted
  match dec with
  | none => simp [substitutePremaster]
  | some [] => simp [substitutePremaster]
  | some [_] => simp [substitutePremaster]
  | some (v0 :: v1 :: rest) =>
    simp only [substitutePremaster]
    by_cases hl : (v0 :: v1 :: rest).length = 48
    · simp only [hl, ne_eq, not_true_eq_false, if_false]
      by_cases h1 : (v0.toNat, v1.toNat) = cv
      · simp only [h1, not_true_eq_false, if_false]
        exact ⟨fun _ => by simp, fun h => absurd ⟨v0, v1, rest, rfl, hl, Or.inl h1⟩ h⟩
      · by_cases h2 : (v0.toNat, v1.toNat) = sv
        · refine ⟨fun _ => by simp [h2], fun h => absurd ⟨v0, v1, rest, rfl, hl, Or.inr h2⟩ h⟩
        · simp only [h1, h2, not_false_eq_true, if_true]
          constructor
          · rintro ⟨a, b, r, he, _, hv⟩
            simp only [Option.some.injEq, List.cons.injEq] at he
            obtain ⟨rfl, rfl, rfl⟩ := he
            rcases hv with hv | hv <;> contradiction
          · intro _; trivial
    · simp only [hl, ne_eq, not_false_eq_true, if_true]
      constructor
      · rintro ⟨a, b, r, he, hlen, _⟩
        simp only [Option.some.injEq, List.cons.injEq] at he
        obtain ⟨rfl, rfl, rfl⟩ := he
        contradiction
      · intro _; trivial

/-- **Premaster substitution is total.** For every ClientKeyExchange payload — publicly invalid,
    any padding defect, any decrypted length, any version bytes — `processClientKeyExchange`
    returns (never raises) a 48-byte premaster secret: the decrypted value iff it has 48 bytes
    and carries the client-hello or the negotiated version, otherwise the random substitute
    drawn at the start of the call. -/
theorem premaster_substitution_total (K : Key) (P : Prims) (rand c : Bytes) (cv sv : Nat × Nat)
    (h32 : ∀ k m, (P.hmac k m).length = 32) (hk : 11 ≤ K.k) (hk16 : K.k < 65536)
    (hr : rand.length = 48) :
    ∃ dec r, decrypt K P c = .ok dec ∧ processClientKeyExchange K P rand cv sv c = .ok r ∧
      r.length = 48 ∧
      (Accepted dec cv sv → dec = some r) ∧ (¬ Accepted dec cv sv → r = rand) := by
  have htot := decrypt_total K P c h32 hk hk16
  have hdec : ∃ dec, decrypt K P c = .ok dec := by
    by_cases hv : PubliclyValid K c
    · obtain ⟨m, hm⟩ := htot.2 hv; exact ⟨some m, hm⟩
    · exact ⟨none, htot.1.mpr hv⟩
  obtain ⟨dec, hd⟩ := hdec
  have hs := substitutePremaster_spec dec rand cv sv
  refine ⟨dec, substitutePremaster dec rand cv sv, hd, by simp [processClientKeyExchange, hd], ?_, hs.1, hs.2⟩
  by_cases ha : Accepted dec cv sv
  · have h1 := hs.1 ha
    obtain ⟨v0, v1, rest, he, hl, _⟩ := ha
    rw [he] at h1 ⊢
    rw [← Option.some.inj h1]; exact hl
  · rw [hs.2 ha]; exact hr

/-- **No dependence on the malformation at the key-exchange level.** Any two ClientKeyExchange
    payloads that are not accepted — for whatever reasons, possibly different ones — give the
    server the same premaster secret (the random substitute), through the same return path. -/
theorem premaster_independent_of_defect (K : Key) (P : Prims) (rand c1 c2 : Bytes) (cv sv : Nat × Nat)
    (h32 : ∀ k m, (P.hmac k m).length = 32) (hk : 11 ≤ K.k) (hk16 : K.k < 65536)
    (hr : rand.length = 48)
    (h1 : ∀ dec, decrypt K P c1 = .ok dec → ¬ Accepted dec cv sv)
    (h2 : ∀ dec, decrypt K P c2 = .ok dec → ¬ Accepted dec cv sv) :
    processClientKeyExchange K P rand cv sv c1 = .ok rand ∧
    processClientKeyExchange K P rand cv sv c2 = .ok rand := by
  obtain ⟨d1, r1, hd1, hp1, _, _, hn1⟩ := premaster_substitution_total K P rand c1 cv sv h32 hk hk16 hr
  obtain ⟨d2, r2, hd2, hp2, _, _, hn2⟩ := premaster_substitution_total K P rand c2 cv sv h32 hk hk16 hr
  rw [hp1, hp2, hn1 (h1 d1 hd1), hn2 (h2 d2 hd2)]
  exact ⟨rfl, rfl⟩

/-! non-vacuity for the substitution: an accepted value (client version, negotiated version),
    and rejected ones (wrong version, 47 and 49 bytes, empty, `None`) -/
def exRand : Bytes := List.replicate 48 0x55
def exPms (a b : UInt8) (n : Nat) : Bytes := a :: b :: List.replicate n 9

example : substitutePremaster (some (exPms 3 3 46)) exRand (3, 3) (3, 1) = exPms 3 3 46 := by decide
example : substitutePremaster (some (exPms 3 1 46)) exRand (3, 3) (3, 1) = exPms 3 1 46 := by decide
example : substitutePremaster (some (exPms 3 2 46)) exRand (3, 3) (3, 1) = exRand := by decide
example : substitutePremaster (some (exPms 3 3 45)) exRand (3, 3) (3, 1) = exRand := by decide
example : substitutePremaster (some (exPms 3 3 47)) exRand (3, 3) (3, 1) = exRand := by decide
example : substitutePremaster (some []) exRand (3, 3) (3, 1) = exRand := by decide
example : substitutePremaster none exRand (3, 3) (3, 1) = exRand := by decide
example : Accepted (some (exPms 3 3 46)) (3, 3) (3, 1) := ⟨3, 3, List.replicate 46 9, rfl, by decide, Or.inl rfl⟩
example : processClientKeyExchange exKey (exPrims exBadEM) exRand (3, 3) (3, 3) exCipher = .ok exRand ∧
    processClientKeyExchange exKey (exPrims exBadEM2) exRand (3, 3) (3, 3) (0 :: exCipher) = .ok exRand := by
  constructor <;> decide +kernel


/-! ## The regenerated source (Tls.RsaDec.Gen) computes the hand-written model

  `Tls.RsaDec.Gen.*` (TlsModel/Gen/RsaDecrypt.lean) is re-translated on every run from the Python
  AST of tlslite/utils/rsakey.py and tlslite/keyexchange.py of the tree under check by
  translate/gen_rsadecrypt.py, over the Python-runtime model TlsModel/PyInt.lean + PyExc.lean
  (`selfOf K P cache` is the RSAKey object the hand model's key and primitives describe; `fuel`
  bounds the `while` loop of `_dec_prf`).  The theorems `gen_*_eq` prove that what the source says
  now computes the hand model; the corollaries restate the property theorems above about the
  regenerated source text.  An edit of the decryption path changes the generated module and breaks
  the corresponding obligation. -/
section Regenerated
open Tls.Py

/-- `_raw_private_key_op_bytes` as the source has it now, for every key, message and cache state:
    ValueError exactly when the hand model raises, else the same bytes. -/
theorem gen_raw_private_key_op_bytes_eq (K : Key) (P : Prims) (cache : Option Bytes) (fuel : Nat) (msg : Bytes) :
    Gen._raw_private_key_op_bytes fuel (selfOf K P cache) msg = liftR (rawPrivateKeyOpBytes K P msg) := by
  unfold Gen._raw_private_key_op_bytes rawPrivateKeyOpBytes
  simp only [bind, pure, selfOf_n, numBytes_nat, len_eq, bytesToNumber_eq, selfOf_priv, numberToByteArray_nat]
  by_cases h1 : msg.length = K.k
  · have h1' : ((msg.length : Int) = (numBytes K.n : Int)) := by unfold Key.k at h1; omega
    by_cases h2 : beDecode msg ≥ K.n
    · have h2' : ((beDecode msg : Int) ≥ (K.n : Int)) := by omega
      simp [h1, h1', h2, h2', PyE.raise, liftR, PyErr.toE]
    · have h2' : ¬ ((beDecode msg : Int) ≥ (K.n : Int)) := by omega
      simp [h1, h1', h2, h2', liftR, Key.k]
  · have h1' : ¬ ((msg.length : Int) = (numBytes K.n : Int)) := by unfold Key.k at h1; omega
    simp [h1, h1', PyE.raise, liftR, PyErr.toE]

/-- `_dec_prf` as the source has it now: for every key/label/output length, HMAC with 32-byte
    output and every loop bound `fuel ≥ out_len / 8` the `while` loop ends within the bound and the
    function returns (or raises ValueError for a length that is not a multiple of 8) what the hand
    model's `decPrf` does. -/
theorem gen_dec_prf_eq (K : Key) (P : Prims) (cache : Option Bytes) (fuel : Nat) (key label : Bytes) (outLen : Nat)
    (h32 : ∀ k m, (P.hmac k m).length = 32) (hf : outLen / 8 ≤ fuel) :
    Gen._dec_prf fuel (selfOf K P cache) key label (outLen : Int) = liftR (decPrf P.hmac key label outLen) := by
  unfold Gen._dec_prf
  simp only [bind, pure, selfOf_hmac, modLit_nat, fdivLit_nat]
  by_cases h8 : outLen % 8 = 0
  · have h8' : ¬ (((outLen % 8 : Nat) : Int) ≠ 0) := by omega
    simp only [h8', decide_false, Bool.false_eq_true, if_false]
    obtain ⟨o, ho, hd⟩ := decPrf_fuel P.hmac key label outLen fuel h32 hf h8
    rw [bind_fst _ (fun o => Except.pure (slice o none (some ((outLen / 8 : Nat) : Int))))]
    have hw := whileLoop_prf P.hmac key label outLen (outLen / 8)
      (fun s0 => decide (len s0.fst < ((outLen / 8 : Nat) : Int)))
      (fun s0 =>
            Except.bind (PyE.numberToByteArray s0.snd 2) fun __do_lift =>
              Except.bind (PyE.numberToByteArray (↑outLen) 2) fun __do_lift_1 =>
                Except.pure (s0.fst ++ P.hmac key (__do_lift ++ label ++ __do_lift_1), s0.snd + 1))
      (by intro out it; simp only [len_eq]; exact decide_eq_decide.mpr (by omega))
      (by intro out it; simp only [numberToByteArray_nat2, ok_bind']; rfl)
      fuel 0 []
    rw [ho] at hw
    rw [show ((0 : Nat) : Int) = 0 from rfl] at hw
    rw [hw, hd, ok_bind', slice_to]
    rfl
  · have h8' : (((outLen % 8 : Nat) : Int) ≠ 0) := by omega
    unfold decPrf
    have h8n : ¬ ((outLen % 8 : Nat) : Int) = 0 := h8'
    simp [h8, h8n, PyE.raise, liftR, PyErr.toE]
    intro hz; omega


/-! The ct_* helpers decrypt calls are the regenerated ones of TlsModel/Gen/CT.lean (C12's
    translator); their equalities with the hand model are re-proved here so that a change of
    constanttime.py is reported against the C11 obligation it breaks. -/
theorem ct_lt_eq (a b : Nat) : Tls.CT.Gen.ct_lt_u32 a b = some (ctLtU32 a b : Int) := by
  simp only [Tls.CT.Gen.ct_lt_u32, bind, pure, band_mask32_nat, band_sub_bv, bxor_bv, bor_bv, shr_bv, ctLtU32]
theorem ct_lt10_eq (a : Nat) : Tls.CT.Gen.ct_lt_u32 a 10 = some (ctLtU32 a 10 : Int) := ct_lt_eq a 10
theorem ct_lsb16_eq (v : Nat) : Tls.CT.Gen.ct_lsb_prop_u16 v = some (ctLsbPropU16 v : Int) := by
  simp only [Tls.CT.Gen.ct_lsb_prop_u16, bind, pure, band_nat_one, shl_nat, bor_nat, ctLsbPropU16]
theorem ct_lsb8_eq (v : Nat) : Tls.CT.Gen.ct_lsb_prop_u8 v = some (ctLsbPropU8 v : Int) := by
  simp only [Tls.CT.Gen.ct_lsb_prop_u8, bind, pure, band_nat_one, shl_nat, bor_nat, ctLsbPropU8]
theorem ct_nz_eq (v : Nat) : Tls.CT.Gen.ct_isnonzero_u32 v = some (ctIsNonZeroU32 v : Int) := by
  simp only [Tls.CT.Gen.ct_isnonzero_u32, bind, pure, band_mask32_nat, band_neg_bv, bor_bv, shr_bv, ctIsNonZeroU32]
theorem ct_neq_eq (a b : Nat) : Tls.CT.Gen.ct_neq_u32 a b = some (ctNeqU32 a b : Int) := by
  simp only [Tls.CT.Gen.ct_neq_u32, bind, pure, band_mask32_nat, band_sub_bv, bor_bv, shr_bv, ctNeqU32]
theorem ct_neq2_eq (a : Nat) : Tls.CT.Gen.ct_neq_u32 a 2 = some (ctNeqU32 a 2 : Int) := ct_neq_eq a 2

/-- **`RSAKey.decrypt` as the source has it now computes the hand model**, for every ciphertext
    (any length, any value), every key with `11 ≤ k < 65536` (k = byte length of the modulus: the
    range in which PKCS#1 v1.5 encryption exists and the 16-bit masks are exact), HMAC with 32-byte
    output, every loop bound `fuel ≥ max 256 k`, and a `_key_hash` cache that is absent, empty or
    holds SHA-256 of the private exponent (what the function itself stores).  Covers: the public
    checks and `try/except ValueError`, the cache, both `_dec_prf` calls, `length_mask`, the loop over
    the 128 candidate lengths, the two `next()` checks, the separator scan, the constant-time
    selection of start and of the returned bytes. -/
theorem gen_decrypt_eq (K : Key) (P : Prims) (cache : Option Bytes) (fuel : Nat) (c : Bytes)
    (h32 : ∀ k m, (P.hmac k m).length = 32) (hk : 11 ≤ K.k) (hk16 : K.k < 65536)
    (hf : 256 ≤ fuel ∧ K.k ≤ fuel)
    (hcache : cache = none ∨ cache = some [] ∨ cache = some (keyHash K P)) :
    Gen.decrypt fuel (selfOf K P cache) c = liftR (decrypt K P c) := by
  unfold Gen.decrypt
  simp only [bind, pure, selfOf_hasPriv, selfOf_keyType, gen_raw_private_key_op_bytes_eq]
  have hb1 : ((!true) = true) = False := by decide
  have hb2 : (decide ("rsa" ≠ "rsa") = true) = False := by decide
  simp only [hb1, hb2, if_false]
  unfold decrypt
  have hraw : rawPrivateKeyOpBytes K P c = .error .valueError ∨
      ∃ dec, rawPrivateKeyOpBytes K P c = .ok dec ∧ dec.length = K.k := by
    unfold rawPrivateKeyOpBytes
    by_cases h1 : c.length ≠ K.k
    · left; simp [h1]
    · by_cases h2 : beDecode c ≥ K.n
      · left; simp [h1, h2]
      · right; exact ⟨beEncode K.k (P.privInt (beDecode c)), by simp [h1, h2], beEncode_length _ _⟩
  rcases hraw with he | ⟨dec, hdec, hlen⟩
  · rw [he]
    rfl
  · rw [hdec, liftR_ok]
    have hat : PyE.attempt (Except.ok dec : PyE.M Bytes) PyE.Err.valueError = .ok (some dec) := rfl
    rw [hat, ok_bind']
    have hn : ((some dec).isNone = true) = False := by simp
    simp only [hn, if_false]
    have hgs : PyE.getSome (some dec) = (.ok dec : PyE.M Bytes) := rfl
    rw [hgs, ok_bind']
    -- the `_key_hash` cache: afterwards it holds SHA-256 of the private exponent
    have hself : (if PyE.keyHashMissing (selfOf K P cache) = true then
          Except.bind (PyE.numberToByteArray (selfOf K P cache).d (PyE.numBytes (selfOf K P cache).n)) fun x =>
            Except.pure (PyE.setKeyHash (selfOf K P cache) ((selfOf K P cache).sha256 x))
        else Except.pure (selfOf K P cache)) = (.ok (selfOf K P (some (keyHash K P))) : PyE.M PyE.RsaSelf) := by
      simp only [selfOf_d, selfOf_n, numBytes_nat, numberToByteArray_nat, ok_bind', selfOf_sha]
      have hnew : PyE.setKeyHash (selfOf K P cache) (P.sha256 (beEncode (numBytes K.n) K.d)) =
          selfOf K P (some (keyHash K P)) := rfl
      rw [hnew]
      rcases hcache with h | h | h
      · subst h; rfl
      · subst h; rfl
      · subst h
        by_cases he : (keyHash K P).isEmpty = true
        · have : PyE.keyHashMissing (selfOf K P (some (keyHash K P))) = true := he
          simp only [this, if_true]; rfl
        · have : PyE.keyHashMissing (selfOf K P (some (keyHash K P))) = false := by
            show (keyHash K P).isEmpty = false
            simpa using he
          simp only [this, Bool.false_eq_true, if_false]; rfl
    rw [hself, ok_bind']
    have hgk : PyE.getKeyHash (selfOf K P (some (keyHash K P))) = (.ok (keyHash K P) : PyE.M Bytes) := rfl
    rw [hgk, ok_bind']
    simp only [selfOf_hmac, selfOf_n, numBytes_nat]
    have e2048 : ((128 : Int) * 2 * 8) = ((128 * 2 * 8 : Nat) : Int) := by decide
    have ek8 : ((numBytes K.n : Nat) : Int) * 8 = ((K.k * 8 : Nat) : Int) := by unfold Key.k; omega
    have ek10 : ((numBytes K.n : Nat) : Int) - 10 = ((K.k - 10 : Nat) : Int) := by unfold Key.k at hk ⊢; omega
    rw [e2048, ek8, ek10, gen_dec_prf_eq K P _ fuel _ _ _ h32 (by omega), gen_dec_prf_eq K P _ fuel _ _ _ h32 (by omega)]
    obtain ⟨lr, hlr, _⟩ := decPrf_ok P.hmac (kdk K P c) lengthLabel 256 h32
    obtain ⟨mr, hmr, hmrlen⟩ := decPrf_ok P.hmac (kdk K P c) messageLabel K.k h32
    have e256 : 128 * 2 * 8 = 256 * 8 := by decide
    have hkdk : P.hmac (keyHash K P) c = kdk K P c := rfl
    have hl1 : ([108, 101, 110, 103, 116, 104] : Bytes) = lengthLabel := rfl
    have hl2 : ([109, 101, 115, 115, 97, 103, 101] : Bytes) = messageLabel := rfl
    rw [hkdk, hl1, hl2, e256, hlr, hmr, liftR_ok, liftR_ok, ok_bind', ok_bind']
    -- length_mask, the candidate-length loop
    rw [numBits_nat, lshift_one_nat, lift_some', ok_bind', shiftLeft_one_sub, lit0, zipSelf_iterBytes,
      forInL_nat (fun hl : UInt8 × UInt8 => ((hl.1.toNat : Int), (hl.2.toNat : Int))) _
        (synthStep (K.k - 10) ((1 <<< numBits (K.k - 10)) - 1)), ok_bind']
    rotate_left
    · intro hl t
      simp only [fst_mk', snd_mk', shl_nat, ← Int.natCast_add, band_nat, ct_lt_eq, ct_lsb16_eq, lift_some', ok_bind',
        bxor_65535_nat, bor_nat]
      rfl
    have hsl : List.foldl (synthStep (K.k - 10) ((1 <<< numBits (K.k - 10)) - 1)) 0 (pairs lr)
        = synthLen (K.k - 10) lr := rfl
    rw [hsl]
    have hsb := synthLen_lt (K.k - 10) lr (by omega) (by omega)
    -- the first two bytes, the separator scan
    obtain ⟨b0, b1, rest, rfl⟩ : ∃ b0 b1 rest, dec = b0 :: b1 :: rest := by
      match dec, hlen with
      | [], h => simp at h; omega
      | [_], h => simp at h; omega
      | b0 :: b1 :: rest, _ => exact ⟨b0, b1, rest, rfl⟩
    rw [next_enumerate2, ok_bind']
    simp only [fst_mk', snd_mk']
    rw [ct_nz_eq, lift_some', ok_bind', next_enumFrom1, ok_bind']
    simp only [fst_mk', snd_mk']
    rw [lit2, ct_neq_eq, lift_some', ok_bind']
    simp only [bor_nat]
    rw [forInL_enumFrom _ ?hscan rest 2, ok_bind']
    case hscan =>
      intro pos v e ms
      simp only [fst_mk', snd_mk', lit10, ct_lt_eq, ct_nz_eq, ct_lsb16_eq, lift_some', ok_bind', bxor_one_nat,
        band_nat, bor_nat, bxor_65535_nat]
      rw [show ((pos : Int) + 1) = ((pos + 1 : Nat) : Int) from rfl, band_nat, bor_nat]
      rfl
    simp only [fst_mk', snd_mk']
    generalize hsc : scan 2 (0 ||| ctIsNonZeroU32 b0.toNat ||| ctNeqU32 b1.toNat 2) 0 rest = sc
    -- the selection of the returned message
    have esub : ((numBytes K.n : Nat) : Int) - ((synthLen (K.k - 10) lr : Nat) : Int)
        = ((K.k - synthLen (K.k - 10) lr : Nat) : Int) := by unfold Key.k at hsb ⊢; omega
    simp only [ct_nz_eq, ct_lsb16_eq, ct_lsb8_eq, lift_some', ok_bind', bxor_one_nat, bor_nat, bxor_65535_nat,
      bxor_255_nat, band_nat, esub, slice_from, select_eq]
    -- the hand model computes the same value
    have htail : decryptTail K P c (b0 :: b1 :: rest) = .ok
        (selectBytes (ctLsbPropU8 (sc.fst ||| 1 ^^^ ctIsNonZeroU32 sc.snd))
          (List.drop
            (sc.snd &&& (65535 ^^^ ctLsbPropU16 (sc.fst ||| 1 ^^^ ctIsNonZeroU32 sc.snd)) |||
              K.k - synthLen (K.k - 10) lr &&& ctLsbPropU16 (sc.fst ||| 1 ^^^ ctIsNonZeroU32 sc.snd))
            (b0 :: b1 :: rest))
          (List.drop
            (sc.snd &&& (65535 ^^^ ctLsbPropU16 (sc.fst ||| 1 ^^^ ctIsNonZeroU32 sc.snd)) |||
              K.k - synthLen (K.k - 10) lr &&& ctLsbPropU16 (sc.fst ||| 1 ^^^ ctIsNonZeroU32 sc.snd))
            mr)) := by
      unfold decryptTail
      simp only [e256, hlr, hmr, bind, Except.bind, hsc]
    rw [htail]
    rfl


example : Gen.decrypt 300 (selfOf exKey (exPrims exGoodEM) none) exCipher = .ok (some [0xaa, 0xbb, 0xcc, 0xdd, 0xee]) ∧
    Gen.decrypt 300 (selfOf exKey (exPrims exGoodEM) none) (0 :: exCipher) = .ok none := by
  constructor <;> decide +kernel

/-- `RSAKeyExchange.processClientKeyExchange` as the source has it now: decrypt, then the
    `not premasterSecret / len != 48 / version` cascade with the random substitute drawn before it —
    exactly the hand model's `processClientKeyExchange` (whose result is never None). -/
theorem gen_processClientKeyExchange_eq (K : Key) (P : Prims) (cache : Option Bytes) (fuel : Nat) (rand c : Bytes) (cv sv : Nat × Nat)
    (h32 : ∀ k m, (P.hmac k m).length = 32) (hk : 11 ≤ K.k) (hk16 : K.k < 65536)
    (hf : 256 ≤ fuel ∧ K.k ≤ fuel)
    (hcache : cache = none ∨ cache = some [] ∨ cache = some (keyHash K P)) :
    Gen.processClientKeyExchange fuel (kexOf K P cache rand cv sv) c =
      liftR ((processClientKeyExchange K P rand cv sv c).map some) := by
  unfold Gen.processClientKeyExchange processClientKeyExchange
  simp only [bind, pure]
  have hpk : (kexOf K P cache rand cv sv).privateKey = selfOf K P cache := rfl
  rw [hpk, gen_decrypt_eq K P cache fuel c h32 hk hk16 hf hcache]
  cases hd : decrypt K P c with
  | error e => rfl
  | ok dec =>
    rw [liftR_ok, ok_bind']
    have hr : (kexOf K P cache rand cv sv).random48 = rand := rfl
    have hcv : (kexOf K P cache rand cv sv).clientVersion = ((cv.1 : Int), (cv.2 : Int)) := rfl
    have hsv : (kexOf K P cache rand cv sv).serverVersion = ((sv.1 : Int), (sv.2 : Int)) := rfl
    rw [hr, hcv, hsv]
    match dec with
    | none => rfl
    | some [] => rfl
    | some [_] => rfl
    | some (v0 :: v1 :: rest) =>
      have hf0 : PyE.falsyOpt (some (v0 :: v1 :: rest)) = false := rfl
      have hl : PyE.lenOpt (some (v0 :: v1 :: rest)) = .ok (((v0 :: v1 :: rest).length : Nat) : Int) := rfl
      have hg0 : PyE.getItemOpt (some (v0 :: v1 :: rest)) 0 = .ok (v0.toNat : Int) := rfl
      have hg1 : PyE.getItemOpt (some (v0 :: v1 :: rest)) 1 = .ok (v1.toNat : Int) := rfl
      simp only [hf0, hl, hg0, hg1, ok_bind', Bool.false_eq_true, if_false, substitutePremaster]
      have hpair : ∀ (a b : Nat) (w : Nat × Nat), (((a : Int), (b : Int)) ≠ ((w.1 : Int), (w.2 : Int))) ↔ ((a, b) ≠ w) := by
        intro a b w
        obtain ⟨w1, w2⟩ := w
        simp only [ne_eq, Prod.mk.injEq]
        omega
      have hd1 : decide (((v0.toNat : Int), (v1.toNat : Int)) ≠ ((cv.1 : Int), (cv.2 : Int)))
          = decide ((v0.toNat, v1.toNat) ≠ cv) := decide_eq_decide.mpr (hpair _ _ _)
      have hd2 : decide (((v0.toNat : Int), (v1.toNat : Int)) ≠ ((sv.1 : Int), (sv.2 : Int)))
          = decide ((v0.toNat, v1.toNat) ≠ sv) := decide_eq_decide.mpr (hpair _ _ _)
      rw [hd1, hd2]
      by_cases h48 : (v0 :: v1 :: rest).length = 48
      · have h48' : ¬ ((((v0 :: v1 :: rest).length : Nat) : Int) ≠ 48) := by omega
        simp only [h48, h48', decide_false, Bool.false_eq_true, if_false, ne_eq, not_true_eq_false]
        by_cases h1 : (v0.toNat, v1.toNat) = cv
        · simp [h1, liftR, Except.map, Except.pure]
        · by_cases h2 : (v0.toNat, v1.toNat) = sv
          · simp [h1, h2, liftR, Except.map, Except.pure]
          · simp [h1, h2, liftR, Except.map, Except.pure]
      · have h48' : ((((v0 :: v1 :: rest).length : Nat) : Int) ≠ 48) := by omega
        have h46 : ¬ rest.length = 46 := by simp at h48; omega
        have h46' : ¬ ((rest.length : Int) + 1 + 1 = 48) := by omega
        simp [h46, h46', liftR, Except.map, Except.pure]


/-- **Totality of the source as it is now.** -/
theorem gen_decrypt_total (K : Key) (P : Prims) (cache : Option Bytes) (fuel : Nat) (c : Bytes)
    (h32 : ∀ k m, (P.hmac k m).length = 32) (hk : 11 ≤ K.k) (hk16 : K.k < 65536)
    (hf : 256 ≤ fuel ∧ K.k ≤ fuel)
    (hcache : cache = none ∨ cache = some [] ∨ cache = some (keyHash K P)) :
    (Gen.decrypt fuel (selfOf K P cache) c = .ok none ↔ ¬ PubliclyValid K c) ∧
    (PubliclyValid K c → ∃ m, Gen.decrypt fuel (selfOf K P cache) c = .ok (some m)) := by
  rw [gen_decrypt_eq K P cache fuel c h32 hk hk16 hf hcache]
  obtain ⟨h1, h2⟩ := decrypt_total K P c h32 hk hk16
  constructor
  · rw [← h1]
    cases decrypt K P c with
    | error e => simp [liftR]
    | ok r => simp [liftR]
  · intro hv
    obtain ⟨m, hm⟩ := h2 hv
    exact ⟨m, by rw [hm]; rfl⟩

/-- **Valid padding gives the message**, for the source as it is now. -/
theorem gen_decrypt_valid (K : Key) (P : Prims) (cache : Option Bytes) (fuel : Nat) (c ps m : Bytes)
    (h32 : ∀ k m, (P.hmac k m).length = 32) (hk : 11 ≤ K.k) (hk16 : K.k < 65536)
    (hf : 256 ≤ fuel ∧ K.k ≤ fuel)
    (hcache : cache = none ∨ cache = some [] ∨ cache = some (keyHash K P))
    (hc : PubliclyValid K c)
    (hem : em K P c = 0 :: 2 :: (ps ++ 0 :: m)) (h8 : 8 ≤ ps.length) (hnz : ∀ b ∈ ps, b ≠ 0) :
    Gen.decrypt fuel (selfOf K P cache) c = .ok (some m) := by
  rw [gen_decrypt_eq K P cache fuel c h32 hk hk16 hf hcache,
    decrypt_valid K P c ps m h32 hk hk16 hc hem h8 hnz]
  rfl

/-- **Uniform implicit rejection**, for the source as it is now: one function of the
    key-derivation key gives the result for every malformed encoded message, whatever the defect. -/
theorem gen_decrypt_invalid_uniform (K : Key) (sha256 : Bytes → Bytes) (hmac : Bytes → Bytes → Bytes)
    (h32 : ∀ k m, (hmac k m).length = 32) (hk : 11 ≤ K.k) (hk16 : K.k < 65536) :
    ∃ g : Bytes → Bytes, (∀ x, (g x).length ≤ K.k - 11) ∧
      ∀ (privInt : Nat → Nat) (c : Bytes) (cache : Option Bytes) (fuel : Nat),
        let P : Prims := { sha256 := sha256, hmac := hmac, privInt := privInt }
        256 ≤ fuel ∧ K.k ≤ fuel → (cache = none ∨ cache = some [] ∨ cache = some (keyHash K P)) →
        PubliclyValid K c → ¬ WellFormedEM (em K P c) →
          Gen.decrypt fuel (selfOf K P cache) c = .ok (some (g (kdk K P c))) := by
  obtain ⟨g, hg, hu⟩ := decrypt_invalid_uniform K sha256 hmac h32 hk hk16
  refine ⟨g, hg, ?_⟩
  intro privInt c cache fuel P hf hcache hv hnw
  rw [gen_decrypt_eq K P cache fuel c h32 hk hk16 hf hcache, hu privInt c hv hnw]
  rfl

/-- **No dependence on the malformation at the key-exchange level**, for the source as it is now:
    two ClientKeyExchange payloads that are not accepted give the random substitute, both. -/
theorem gen_premaster_independent_of_defect (K : Key) (P : Prims) (cache : Option Bytes) (fuel : Nat)
    (rand c1 c2 : Bytes) (cv sv : Nat × Nat)
    (h32 : ∀ k m, (P.hmac k m).length = 32) (hk : 11 ≤ K.k) (hk16 : K.k < 65536)
    (hf : 256 ≤ fuel ∧ K.k ≤ fuel)
    (hcache : cache = none ∨ cache = some [] ∨ cache = some (keyHash K P))
    (hr : rand.length = 48)
    (h1 : ∀ dec, decrypt K P c1 = .ok dec → ¬ Accepted dec cv sv)
    (h2 : ∀ dec, decrypt K P c2 = .ok dec → ¬ Accepted dec cv sv) :
    Gen.processClientKeyExchange fuel (kexOf K P cache rand cv sv) c1 = .ok (some rand) ∧
    Gen.processClientKeyExchange fuel (kexOf K P cache rand cv sv) c2 = .ok (some rand) := by
  obtain ⟨e1, e2⟩ := premaster_independent_of_defect K P rand c1 c2 cv sv h32 hk hk16 hr h1 h2
  rw [gen_processClientKeyExchange_eq K P cache fuel rand c1 cv sv h32 hk hk16 hf hcache,
    gen_processClientKeyExchange_eq K P cache fuel rand c2 cv sv h32 hk hk16 hf hcache, e1, e2]
  exact ⟨rfl, rfl⟩

example : Gen.processClientKeyExchange 300 (kexOf exKey (exPrims exBadEM) none exRand (3, 3) (3, 3)) exCipher
    = .ok (some exRand) := by decide +kernel

/-- the translator understood every statement of the four functions (no poison was emitted) -/
theorem gen_translation_complete :
    Gen.translatorProblems = [] ∧ Gen.translated.all (fun x => x.2) = true ∧ Gen.translated.length = 4 := by
  decide

end Regenerated

/-! ## cryptomath.py / compat.py as the source has them now

  `PyE.numBits`, `numBytes`, `bytesToNumber`, `numberToByteArray` — what the regenerated decryption path
  above calls — are not assumptions: translate/gen_cryptomath.py regenerates cryptomath.py and compat.py
  (TlsModel/Gen/Cryptomath.lean; `int.bit_length`, `int.to_bytes`, `int.from_bytes`, `divmod` are the
  runtime primitives) and the theorems below prove the regenerated functions equal to those definitions
  for every argument.  What remains a parameter of the C11 theorems: `secureHash`, `secureHMAC`,
  `getRandomBytes`, `_rawPrivateKeyOp` (pow). -/
section Cryptomath
open Tls.PyE Tls.Cryptomath

theorem gen_numBits_eq (x : Int) : Gen.numBits x = .ok (PyE.numBits x) := by
  simp only [Gen.numBits, Gen.bit_length, pure, bitLength_eq]; rfl

theorem gen_numBytes_eq (x : Int) : Gen.numBytes x = .ok (PyE.numBytes x) := by
  simp only [Gen.numBytes, Gen.byte_length, Gen.bit_length, bind, pure, bitLength_eq, ok_bind', fdiv7_eq]; rfl

theorem gen_bytesToNumber_eq (b : Bytes) :
    Gen.bytesToNumber b "big" = .ok (PyE.bytesToNumber b) ∧
    Gen.bytesToNumber b "little" = .ok (PyE.bytesToNumber b.reverse) := by
  constructor <;> rfl

theorem gen_int_to_bytes_eq (x k : Int) (order : String) :
    Gen.int_to_bytes x (some k) order = PyE.intToBytes x k order := by
  simp [Gen.int_to_bytes, bind, pure, optGet, Except.bind, Except.pure]

theorem gen_int_to_bytes_none (x : Int) (order : String) :
    Gen.int_to_bytes x none order = PyE.intToBytes x (if x ≠ 0 then PyE.numBytes x else 1) order := by
  have hbl : Gen.byte_length x = .ok (PyE.numBytes x) := gen_numBytes_eq x
  by_cases h : x = 0 <;> simp [Gen.int_to_bytes, bind, pure, optGet, Except.bind, Except.pure, hbl, h]

theorem gen_numberToByteArray_eq (x k : Int) :
    Gen.numberToByteArray x (some k) "big" = PyE.numberToByteArray x k := by
  unfold Gen.numberToByteArray
  have hbl : Gen.byte_length x = .ok (PyE.numBytes x) := gen_numBytes_eq x
  simp only [bind, pure, hbl, ok_bind', gen_int_to_bytes_eq]
  have hs : ((some k).isSome = true) = True := by simp
  have hg : optGet (some k) = (.ok k : PyE.M Int) := rfl
  have hd : (decide True = true) = True := by simp
  simp only [hs, hg, hd, if_true, ok_bind']
  unfold PyE.numberToByteArray
  have hL : PyE.numBytes x = ((Tls.RsaDec.numBytes x.natAbs : Nat) : Int) := rfl
  generalize hLn : Tls.RsaDec.numBytes x.natAbs = L at hL
  by_cases hx : x < 0
  · -- OverflowError on either path
    simp only [hx, if_true]
    have hL1 : 0 ≤ PyE.numBytes x := by rw [hL]; omega
    by_cases hk : k < PyE.numBytes x
    · simp only [hk, decide_true, if_true]
      rw [intToBytes_neg x _ "big" hx hL1 (Or.inl rfl)]; rfl
    · simp only [hk, decide_false, Bool.false_eq_true, if_false]
      rw [intToBytes_neg x k "big" hx (by omega) (Or.inl rfl)]
  · simp only [hx, if_false]
    obtain ⟨n, rfl⟩ : ∃ n : Nat, x = (n : Int) := ⟨x.toNat, by omega⟩
    have hn : ((n : Int)).natAbs = n := Int.natAbs_natCast n
    rw [hn] at hLn
    have hlt := lt_pow_numBytes n
    rw [hLn] at hlt
    simp only [Int.toNat_natCast]
    by_cases hk : k < PyE.numBytes (n : Int)
    · simp only [hk, decide_true, if_true]
      rw [hL, intToBytes_big n L hlt, ok_bind']
      by_cases hk0 : k < 0
      · -- nothing is left of the slice
        have : k.toNat = 0 := by omega
        rw [this]
        show Except.pure (Py.slice _ (some ((L : Int) - k)) (some (L : Int))) = _
        have e : (L : Int) - k = ((L + (-k).toNat : Nat) : Int) := by omega
        rw [e, slice_empty _ _ _ (by omega)]
        rfl
      · obtain ⟨kn, rfl⟩ : ∃ kn : Nat, k = (kn : Int) := ⟨k.toNat, by omega⟩
        rw [hL] at hk
        have hkl : kn ≤ L := by omega
        have e : (L : Int) - (kn : Int) = ((L - kn : Nat) : Int) := by omega
        show Except.pure (Py.slice _ (some ((L : Int) - (kn : Int))) (some (L : Int))) = _
        rw [e, Py.slice_from_to _ _ _ (by rw [beEncode_len]; omega) (by rw [beEncode_len] <;> exact Nat.le_refl _)]
        have hd2 := beEncode_drop n (L - kn) kn
        rw [show kn + (L - kn) = L by omega] at hd2
        rw [hd2, Int.toNat_natCast]
        have : L - (L - kn) = kn := by omega
        rw [this, List.take_of_length_le (by rw [beEncode_len] <;> exact Nat.le_refl _)]
        rfl
    · simp only [hk, decide_false, Bool.false_eq_true, if_false]
      rw [hL] at hk
      obtain ⟨kn, rfl⟩ : ∃ kn : Nat, k = (kn : Int) := ⟨k.toNat, by omega⟩
      have hkl : L ≤ kn := by omega
      rw [intToBytes_big n kn (Nat.lt_of_lt_of_le hlt (Nat.pow_le_pow_right (by decide) hkl)), Int.toNat_natCast]

theorem gen_numberToByteArray_none (n : Nat) :
    Gen.numberToByteArray (n : Int) none "big" =
      .ok (beEncode (if n ≠ 0 then Tls.RsaDec.numBytes n else 1) n) := by
  unfold Gen.numberToByteArray
  have hs : ((none : Option Int).isSome = true) = False := by simp
  simp only [hs, if_false, bind, pure, gen_int_to_bytes_none]
  by_cases h : n = 0
  · subst h; rfl
  · have h' : ((n : Int) ≠ 0) := by omega
    have hnb : PyE.numBytes (n : Int) = ((Tls.RsaDec.numBytes n : Nat) : Int) := numBytes_nat n
    simp only [h, h', ne_eq, not_false_eq_true, if_true, hnb]
    exact intToBytes_big n _ (lt_pow_numBytes n)

theorem gen_divceil_eq (a b : Nat) (hb : 0 < b) :
    Gen.divceil (a : Int) (b : Int) = .ok ((a / b + (if a % b = 0 then 0 else 1) : Nat) : Int) := by
  unfold Gen.divceil PyE.divmod PyE.intBool
  have hb' : ¬ ((b : Int) = 0) := by omega
  simp only [bind, pure, hb', if_false, ok_bind']
  rw [Int.fdiv_eq_ediv_of_nonneg _ (by omega), Int.fmod_eq_emod_of_nonneg _ (by omega)]
  show Except.ok _ = Except.ok _
  congr 1
  by_cases h : a % b = 0
  · have : ((a : Int) % (b : Int)) = 0 := by omega
    simp [h, this]
  · have : ¬ ((a : Int) % (b : Int)) = 0 := by omega
    simp [h, this]

/-- the translator understood every statement of the cryptomath/compat functions -/
theorem gen_cryptomath_translation_complete :
    Cryptomath.Gen.translatorProblems = [] ∧ Cryptomath.Gen.translated.all (fun x => x.2) = true ∧
      Cryptomath.Gen.translated.length = 8 := by
  decide

end Cryptomath

end Tls.RsaDec

/-! ## The server's wire behaviour after ClientKeyExchange (model: TlsModel/RsaServer.lean) -/
namespace Tls.RsaServer
open Tls.RsaDec

/-- **Server wire behaviour is independent of the defect.** For any two ClientKeyExchange
    payloads that are both not accepted (whatever the reasons: padding, length, version bytes,
    `c ≥ n`, wrong ciphertext length) and any continuation of the client's flight, the server's
    emitted records and the way its handshake ends are the same value: the one determined by the
    public inputs and the random substitute alone. -/
theorem server_wire_independent_of_defect (K : Key) (P : Prims) (S : SrvPrims) (E : SrvEnv)
    (rand c1 c2 : Bytes) (cv : Nat × Nat) (inc : List WireRec)
    (h32 : ∀ k m, (P.hmac k m).length = 32) (hk : 11 ≤ K.k) (hk16 : K.k < 65536)
    (hr : rand.length = 48)
    (h1 : ∀ dec, decrypt K P c1 = .ok dec → ¬ Accepted dec cv E.version)
    (h2 : ∀ dec, decrypt K P c2 = .ok dec → ¬ Accepted dec cv E.version) :
    serverRun K P S E rand cv c1 inc = serverAfterCKE S E rand inc ∧
    serverRun K P S E rand cv c2 inc = serverAfterCKE S E rand inc := by
  obtain ⟨e1, e2⟩ := premaster_independent_of_defect K P rand c1 c2 cv E.version h32 hk hk16 hr h1 h2
  unfold serverRun
  rw [e1, e2]
  exact ⟨rfl, rfl⟩

/-- **The rejected and the valid run differ only from the Finished check on.** Outside
    SSLv3-with-client-certificate, for every continuation of the client's flight: either the run
    ends before the Finished step with a result that does not depend on the premaster at all
    (so it is the same for the valid premaster and for the random substitute), or every premaster
    reaches the Finished step in the same state and everything the server writes is written after
    the client's Finished record has been consumed. -/
theorem server_differs_from_valid_only_at_finished (S : SrvPrims) (E : SrvEnv) (inc : List WireRec)
    (hne : ¬ (E.version = (3, 0) ∧ E.hasClientCert = true)) :
    (∃ r, ∀ pms, serverAfterCKE S E pms inc = r) ∨
    (∃ M, M.consumed + 1 = finishedIndex E ∧
      ∀ pms, serverAfterCKE S E pms inc = finishedStep S E pms M ∧
        ∀ e ∈ (serverAfterCKE S E pms inc).trace, e.consumed = finishedIndex E) := by
  have hind : ∀ pms, certVerifyStep S E pms inc = certVerifyStep S E [] inc :=
    fun pms => certVerifyStep_indep S E pms [] inc hne
  cases hcv : certVerifyStep S E [] inc with
  | error r =>
    left; refine ⟨r, fun pms => ?_⟩
    unfold serverAfterCKE; rw [hind pms, hcv]
  | ok M1 =>
    have hM1 : M1.consumed = E.consumed + (if E.hasClientCert then 1 else 0) := by
      unfold certVerifyStep at hcv
      by_cases hc : E.hasClientCert = true
      · simp only [hc, if_true] at hcv ⊢
        cases hg : getMsg S none 22 (some 15) inc E.consumed with
        | error r => simp [hg] at hcv
        | ok t =>
          obtain ⟨m, rest, c⟩ := t
          have hc' := getMsg_ok _ _ _ _ _ _ _ _ _ hg
          simp only [hg] at hcv
          split at hcv
          · simp at hcv
          · simp at hcv; rw [← hcv]; exact hc'
      · have hf : E.hasClientCert = false := by cases h : E.hasClientCert <;> simp_all
        simp [hf] at hcv ⊢
        rw [← hcv]
    cases hccs : ccsStep S M1 with
    | error r =>
      left; refine ⟨r, fun pms => ?_⟩
      unfold serverAfterCKE; rw [hind pms, hcv]; simp only [hccs]
    | ok M2 =>
      have hM2 : M2.consumed = M1.consumed + 1 := by
        unfold ccsStep at hccs
        cases hg : getMsg S none 20 none M1.rest M1.consumed with
        | error r => simp [hg] at hccs
        | ok t =>
          obtain ⟨p, rest, c⟩ := t
          have hc' := getMsg_ok _ _ _ _ _ _ _ _ _ hg
          simp only [hg] at hccs
          cases p with
          | nil => simp at hccs
          | cons t tl =>
            simp only at hccs
            split at hccs
            · simp at hccs
            · simp at hccs; rw [← hccs]; exact hc'
      right
      refine ⟨M2, by unfold finishedIndex; omega, fun pms => ?_⟩
      have hrun : serverAfterCKE S E pms inc = finishedStep S E pms M2 := by
        unfold serverAfterCKE; rw [hind pms, hcv]; simp only [hccs]
      refine ⟨hrun, fun e he => ?_⟩
      rw [hrun] at he
      have := finishedStep_consumed S E pms M2 e he
      unfold finishedIndex; omega

/-- **No early alert.** Outside SSLv3-with-client-certificate: if the server writes anything
    (in particular an alert) before the client's Finished record has been consumed, then the
    whole run is one that does not depend on the premaster — it would have been the same for a
    valid ClientKeyExchange.  A rejected premaster therefore never causes an alert before the
    client's Finished is read. -/
theorem no_early_alert (S : SrvPrims) (E : SrvEnv) (inc : List WireRec) (pms : Bytes) (e : Emit)
    (hne : ¬ (E.version = (3, 0) ∧ E.hasClientCert = true))
    (he : e ∈ (serverAfterCKE S E pms inc).trace) (hearly : e.consumed < finishedIndex E) :
    ∀ pms', serverAfterCKE S E pms' inc = serverAfterCKE S E pms inc := by
  rcases server_differs_from_valid_only_at_finished S E inc hne with ⟨r, hr⟩ | ⟨M, _, hM⟩
  · intro pms'; rw [hr pms', hr pms]
  · have := (hM pms).2 e he
    omega

/-- **The alert the code sends.** When the Finished step is reached and the record layer rejects
    the client's Finished record under the keys the server derived (which is what happens when
    the premaster was replaced), the server writes exactly one fatal alert — the one the record
    layer exception maps to (bad_record_mac for a MAC / padding / tag failure) — and stops. -/
theorem finished_record_failure (S : SrvPrims) (E : SrvEnv) (pms : Bytes) (M : Mid) (r : WireRec)
    (rest : List WireRec) (x : RecErr) (hM : M.rest = r :: rest)
    (herr : S.recv (some (keyBlock S E pms)) r = .error x) :
    finishedStep S E pms M = sendError x.alert (M.consumed + 1) := by
  unfold finishedStep
  simp only [getMsg, hM, herr]

/-! non-vacuity on the symbolic instance: TLS 1.2, no client certificate, honest client flight
    for premaster `exPmsC`; the server holding the same premaster completes, the server holding
    the substitute writes one bad_record_mac alert after the client's Finished; SSLv3 with a client
    certificate (excluded above) fails at CertificateVerify with decrypt_error instead. -/
def exEnv (v : Nat × Nat) (cert : Bool) : SrvEnv :=
  { version := v, ems := true, hasClientCert := cert, clientRandom := [1, 2], serverRandom := [3, 4],
    transcript := [[1, 0], [16, 9]], keyLen := 104, consumed := 2 }
def exPmsC : Bytes := 3 :: 3 :: List.replicate 46 7

example : serverAfterCKE symPrims (exEnv (3, 3) false) exPmsC (symClientFlight (exEnv (3, 3) false) exPmsC 1) =
    { trace := [{ ctype := 20, encrypted := false, plainLen := 1, alert := none, consumed := 4 },
                { ctype := 22, encrypted := true, plainLen := 16, alert := none, consumed := 4 }],
      outcome := .done } := by decide +kernel
example : serverAfterCKE symPrims (exEnv (3, 3) false) exRand (symClientFlight (exEnv (3, 3) false) exPmsC 1) =
    sendError 20 4 := by decide +kernel
example : finishedIndex (exEnv (3, 3) false) = 4 := by decide
example : serverAfterCKE symPrims (exEnv (3, 3) true) exRand (symClientFlight (exEnv (3, 3) true) exPmsC 1) =
    sendError 20 5 := by decide +kernel
example : serverAfterCKE symPrims (exEnv (3, 0) true) exRand (symClientFlight (exEnv (3, 0) true) exPmsC 1) =
    sendError 51 3 ∧ finishedIndex (exEnv (3, 0) true) = 5 := by decide +kernel
example : serverAfterCKE symPrims (exEnv (3, 1) false) exPmsC (symClientFlight (exEnv (3, 1) false) exPmsC 2) =
    sendError 47 3 ∧
    serverAfterCKE symPrims (exEnv (3, 1) false) exRand (symClientFlight (exEnv (3, 1) false) exPmsC 2) =
    sendError 47 3 := by decide +kernel

end Tls.RsaServer
