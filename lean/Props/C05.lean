import TlsProofs.AuthTicket
import TlsProofs.AuthSrp
import TlsProofs.AuthSrcSpec
/-
  C05 — peer credentials are recorded only after proof of possession.

  Model: `TlsModel/Auth.lean` mirrors, site by site, the code that decides that the peer proved
  knowledge of the secret behind the identity it presents (see the header of that file), with
  abstract cryptography `Crypto`.  `Proved C key msg sig` (TlsProofs/AuthSites.lean) says: some
  algorithm of `key` verified `sig` on a public encoding (hash / DigestInfo prefix / truncation /
  MD5‖SHA-1) of `msg`.  `compatible c ver sid` is the RFC table "scheme fits the key type".

  The theorems are stated for every `Crypto`, settings, certificate, transcript and message.
  Unforgeability and collision resistance are NOT assumed: they appear as the named bad events
  `Forgery`, `EncCollision`, `TranscriptCollision` in `proof_bound_to_this_handshake`.

  History: three deviations found by this check were repaired in the tree (commits 01163b7, ae51d84:
  TLS 1.3 client accepted a CertificateVerify scheme it had not offered / one unusable with the
  certificate's key; 87777aa: TLS 1.3 server accepted a scheme absent from its CertificateRequest).
  The model follows the current code, so the theorems below hold at full strength; the harness
  keeps the corresponding oracle cases.
-/
namespace Tls.Auth
open Gen

/-! ### generated tables (re-checked against constants.py on every run) -/

theorem gen_tables_ok : Gen.problems = [] := by decide

/-- `rsa_<pad>_rsae_<h>` exists iff `rsa_<pad>_pss_<h>` exists — `_sigHashesToList` relies on it -/
theorem gen_rsa_variants (p : RsaPad) (h : HashName) :
    (rsaAttr p false h).isSome = (rsaAttr p true h).isSome := by
  cases p <;> cases h <;> rfl

theorem gen_hashId_repr (h : HashName) : hashRepr (hashId h) = some h := by
  cases h <;> rfl

/-- the EdDSA identifiers are exactly the names with key type `eddsa` and intrinsic hash -/
theorem gen_eddsa_ids : schemeRepr 8 7 = some { name := "ed25519", fam := .eddsa, pad := none, hash := .intrinsic } ∧
    schemeRepr 8 8 = some { name := "ed448", fam := .eddsa, pad := none, hash := .intrinsic } := by
  constructor <;> rfl

/-! ### the source, as extracted from its AST on every run (TlsModel/Gen/AuthSrc.lean), has the structure the model assumes

  Event lists are in source order per function (see translate/gen_auth.py for the vocabulary).
  Failure actions: alert n ↦ n (47 illegal_parameter, 51 decrypt_error, 80 internal_error), raise ↦ 1000.
  `schemeCheck (10·n + k)`: k membership tests `x not in list` guarding `_sendError n` (10001: raise).
  Sub-handshake indices in `call`: 0 _serverCertKeyExchange, 1 _serverFinished, 2 _clientKeyExchange,
  3 _clientFinished, 4 _getFinished, 5 _sendFinished.  `record k`: bit 1 srpUsername, 2 clientCertChain,
  4 serverCertChain.  An unrecognised shape is an `odd` event or a `problems` entry and falsifies these. -/

open Src in
/-- **Every place where a peer identity is recorded is dominated by the verification steps that
    `identity_implies_proof` assumes**, in the order the model runs them:
    * TLS 1.3 server: admission of the CertificateVerify scheme (two membership tests → illegal_parameter),
      signed bytes with the `client` tag, signature check → decrypt_error, Finished → decrypt_error,
      only then `session.create` with the client chain; a ticket's chain is remembered only AFTER every
      `continue` of the PSK loop and after the PSK was selected, and the binder check (→ illegal_parameter)
      follows before anything is recorded;
    * TLS 1.3 client: scheme advertised, `server` tag, certificate check, delegated-credential check,
      scheme offered and fitting the certificate, signature → exception (mapped to decrypt_error), Finished;
    * TLS ≤ 1.2 server: admission against the certificate-filtered list, certificate check, signature →
      decrypt_error before the chain is handed back; the helper records it, then runs `_serverFinished`
      (client Finished checked in `_getFinished` → decrypt_error BEFORE `_sendFinished` may send a ticket),
      then caches the SAME session object, then `_handshakeDone`;
    * TLS ≤ 1.2 client: certificate check, `verifyServerKeyExchange` with both exceptions mapped to alerts,
      Finished exchange before `session.create`;
    * PHA: both membership tests, `client` tag, signature → decrypt_error, Finished → decrypt_error, and
      the assignment to `session.clientCertChain` is the last event;
    * SRP: `A % N == 0` / `B % N == 0` raise, mapped to illegal_parameter; binder compared on all bytes;
      every ServerKeyExchange / delegated-credential verifier raises on a False result. -/
theorem gen_identity_recorded_only_after_proof :
    Src.problems = [] ∧ Src.allFunctions.all Src.noOdd = true ∧
    -- TLS 1.3 server
    Src.subseq [.sigList 1, .schemeCheck 472, .calcBytes 1, .sigVerify 51, .finCheck 51, .record 6]
      Src.f_serverTLS13Handshake = true ∧
    Src.subseq [.setResuming 0, .skip 0, .skip 0, .skip 0, .skip 0, .selectPsk 0, .setResuming 3, .recordResumed 0,
      .binderCheck 47, .finCheck 51, .useResumed 0, .record 6] Src.f_serverTLS13Handshake = true ∧
    Src.noneAfter Src.isSkip Src.isRecordResumed Src.f_serverTLS13Handshake = true ∧
    -- TLS 1.3 client
    Src.subseq [.setResuming 0, .setResuming 1, .schemeCheck 471, .calcBytes 2, .certCheck 0, .dcVerify 1000, .sigList 1,
      .schemeCheck 472, .sigVerify 1000, .finCheck 1000, .record 6] Src.f_clientTLS13Handshake = true ∧
    -- TLS ≤ 1.2 server
    Src.subseq [.kexProcess 47, .sigList 1, .schemeCheck 471, .calcBytes 0, .certCheck 0, .sigVerify 51, .yieldChain 0]
      Src.f_serverCertKeyExchange = true ∧
    Src.subseq [.call 0, .record 7, .call 1, .cacheInsert 1, .done 0] Src.f_handshakeServerAsyncHelper = true ∧
    Src.f_serverFinished = [.call 4, .call 5] ∧ Src.f_getFinished = [.finCheck 51] ∧
    -- TLS ≤ 1.2 client
    Src.subseq [.certCheck 0, .sigList 1, .skeVerify 47051, .yieldChain 0] Src.f_clientKeyExchange = true ∧
    Src.subseq [.call 2, .call 3, .record 7, .done 0] Src.f_handshakeClientAsyncHelper = true ∧
    Src.f_clientFinished = [.call 5, .call 4] ∧
    -- post-handshake authentication
    Src.f_handle_srv_pha = [.schemeCheck 471, .sigList 3, .schemeCheck 471, .calcBytes 1, .sigVerify 51, .finCheck 51, .record 2] ∧
    -- SRP, binder, ServerKeyExchange and delegated-credential verifiers
    Src.f_serverSRPKeyExchange = [.kexProcess 47, .yieldChain 0] ∧
    Src.f_SRPKeyExchange_processClientKeyExchange = [.srpCheck 0] ∧
    Src.f_SRPKeyExchange_processServerKeyExchange = [.srpCheck 0] ∧
    Src.f_verify_binder = [.binderCompare 1] ∧
    Src.f_tls12_verify_SKE = [.schemeCheck 10001, .sigVerify 1000] ∧
    Src.f_tls12_verify_ecdsa_SKE = [.sigVerify 1000] ∧ Src.f_tls12_verify_eddsa_ske = [.sigVerify 1000] ∧
    Src.f_tls12_verify_dsa_SKE = [.sigVerify 1000] ∧ Src.f_verifyServerKeyExchange = [.sigVerify 1000] ∧
    Src.f_DelegatedCredential_verify = [.schemeCheck 10001, .schemeCheck 10001, .sigVerify 1000] := by
  decide

/-- **No `verify` / `hashAndVerify` result is ignored**: every call site in tlsconnection.py,
    tlsrecordlayer.py, keyexchange.py and x509.py (also through `x = key.verify` aliases) sits in
    `if not …:` whose body sends an alert or raises, or is returned to the caller; and the sites that
    check the PEER's proof do what the model says (`sigVerify 51` / `sigVerify 1000` above). -/
theorem gen_verify_result_never_ignored :
    (Src.verifySites.all fun s => s.2 != 0) = true ∧ Src.verifySites.length ≥ 10 := by
  decide

/-- **`Checker.__call__` has the decision structure of `checkerSkips` / `checkerOk`**: the only
    way past it without raising is `not checkResumedSession and connection.resumed`; the client
    looks at `session.serverCertChain`, the server at `session.clientCertChain`; the comparison is
    `chain.getFingerprint() != x509Fingerprint` with `getFingerprint` = fingerprint of `x509List[0]`
    (the end-entity certificate); a missing chain raises. -/
theorem gen_checker_structure_matches_model :
    Src.checkerShape = Src.modelCheckerShape ∧
    (∀ cr resumed, checkerSkips cr resumed = (!cr && resumed)) ∧
    (∀ certFp fp sess c rest, sess.serverCertChain = c :: rest →
      (checkerOk certFp fp true sess = true ↔ certFp c = fp)) := by
  refine ⟨by decide, fun _ _ => rfl, ?_⟩
  intro certFp fp sess c rest h
  simp [checkerOk, h]

/-- **The checker runs before any session ticket is handed out** (regression of d4beb6f): in both
    functions that send tickets (`_serverTLS13Handshake`, `_sendFinished`) a checker call precedes
    `_serverSendTickets`; no other analysed function sends tickets; `_check_before_tickets` sets
    `self.resumed` before calling the checker (so the skip policy sees the right flag); the TLS 1.3
    server has recorded the session before; the wrapper still runs the checker for ticket-less
    handshakes. -/
theorem gen_checker_runs_before_tickets :
    Src.ticketsAfterChecker Src.f_serverTLS13Handshake false = true ∧ Src.hasTicketSend Src.f_serverTLS13Handshake = true ∧
    Src.subseq [.record 6, .checkerCall 0, .ticketSend 0] Src.f_serverTLS13Handshake = true ∧
    Src.f_sendFinished = [.checkerCall 0, .ticketSend 0] ∧
    Src.f_check_before_tickets = [.setResumed 0, .checkerCall 0] ∧
    Src.f_handshakeWrapperAsync = [.checkerCall 0] ∧
    ((Src.allFunctions.filter Src.hasTicketSend).length = 2) := by
  decide

/-! ### identity ⇒ proof of possession in THIS handshake -/

/-- **Main theorem.**  For every handshake flavour of the model: if the handshake function
    completes, the session it leaves attributes a chain / SRP user / PSK to the peer only if
    the corresponding proof was checked on this handshake's own data:
    * TLS 1.3 client: server chain ⇒ signature by its end-entity key over
      `64×0x20 ‖ "TLS 1.3, server CertificateVerify" ‖ 0 ‖ H(transcript)`, scheme in the ClientHello
      list and compatible with the key, and the server Finished is the HMAC of this transcript;
    * TLS 1.3 server: client chain ⇒ the same with the `client` tag and the CertificateRequest
      list; PSK identity ⇒ the binder at that position is the HMAC of this truncated ClientHello
      under the configured secret; client Finished correct;
    * TLS ≤ 1.2 client: server chain ⇒ ServerKeyExchange (if any) signed by its key over
      `client_random ‖ server_random ‖ params`, TLS 1.2 scheme offered and compatible; Finished;
    * TLS ≤ 1.2 server: client chain ⇒ CertificateVerify by its key over the transcript; Finished;
    * SRP server: user name ⇒ `A mod N ≠ 0` and the client's Finished keyed by the premaster the
      server derives from its stored verifier. -/
theorem identity_implies_proof (C : Crypto) (s : Settings) :
    (∀ chSig chain certBytes tCV prf cv sec tFin fin,
      (hsClient13 C s chSig chain certBytes [] tCV prf cv sec tFin fin).completed = true →
      ∃ sess, (hsClient13 C s chSig chain certBytes [] tCV prf cv sec tFin fin).session = some sess ∧
        sess.serverCertChain = chain ∧ ServerProof13 C chSig chain tCV prf cv ∧
        fin = finished13 C prf sec tFin) ∧
    (∀ own configs prf trCH last psks reqCert offered chain tCV ownScheme cv sec tFin fin,
      (hsServer13 C s own configs prf trCH last psks reqCert offered chain tCV ownScheme cv sec tFin fin).completed = true →
      ∃ sess, (hsServer13 C s own configs prf trCH last psks reqCert offered chain tCV ownScheme cv sec tFin fin).session = some sess ∧
        fin = finished13 C prf sec tFin ∧
        (sess.clientCertChain ≠ [] → sess.clientCertChain = chain ∧ reqCert = true ∧
          ClientProof13 C offered chain tCV prf cv) ∧
        (∀ ident, sess.pskIdentity = some ident → ∃ (j : Nat) (cfg : PskConfig) (binder : Bytes),
          cfg ∈ configs ∧ cfg.identity = ident ∧ cfg.hash = prf ∧ psks[j]? = some (ident, binder) ∧
          binder = calcBinder C prf cfg.secret trCH true)) ∧
    (∀ ver fam chain ske cr sr master t fin own,
      (hsClient12 C s ver fam chain ske cr sr master t fin own).completed = true →
      ∃ sess, (hsClient12 C s ver fam chain ske cr sr master t fin own).session = some sess ∧
        sess.serverCertChain = chain ∧ fin = finished12 C ver master lblServerFinished t ∧
        ∃ c rest, chain = c :: rest ∧ ∀ k, ske = some k →
          Proved C c.key (cr ++ sr ++ k.params) k.signature ∧
          (¬ ver < 3 → compatible c 3 (k.hashAlg, k.signAlg) = true ∧
            ∀ l0, sigHashesToList s false [] 3 = .ok l0 → (k.hashAlg, k.signAlg) ∈ l0)) ∧
    (∀ ver own chain tCV cv master tFin fin, ver ≠ 4 →
      (hsServer12 C s ver own chain tCV cv master tFin fin).completed = true →
      ∃ sess, (hsServer12 C s ver own chain tCV cv master tFin fin).session = some sess ∧
        sess.clientCertChain = chain ∧ fin = finished12 C ver master lblClientFinished tFin ∧
        (chain = [] ∨ ∃ c rest, chain = c :: rest ∧ Proved C c.key tCV cv.signature ∧
          (ver = 3 → ∃ sid, cv.scheme = some sid ∧ compatible c 3 sid = true ∧
            ∀ l0, sigHashesToList s false [] 3 = .ok l0 → sid ∈ l0))) ∧
    (∀ ver user N v b A u masterOf tFin fin,
      (hsServerSRP C ver user N v b A u masterOf tFin fin).completed = true →
      A % N ≠ 0 ∧ ∃ S, srpServerPremaster N v b A u = .ok S ∧
        fin = finished12 C ver (masterOf S) lblClientFinished tFin) :=
  ⟨fun chSig chain certBytes tCV prf cv sec tFin fin h =>
      hsClient13_ok C s chSig chain certBytes tCV prf cv sec tFin fin h,
   fun own configs prf trCH last psks reqCert offered chain tCV ownScheme cv sec tFin fin h =>
      hsServer13_ok C s own configs prf trCH last psks reqCert offered chain tCV ownScheme cv sec tFin fin h,
   fun ver fam chain ske cr sr master t fin own h => hsClient12_ok C s ver fam chain ske cr sr master t fin own h,
   fun ver own chain tCV cv master tFin fin hver h => hsServer12_ok C s ver own chain tCV cv master tFin fin hver h,
   fun ver user N v b A u masterOf tFin fin h => hsServerSRP_ok C ver user N v b A u masterOf tFin fin h⟩

/-- **Session tickets (the `pskTicket` case of `identity_implies_proof`).**  A TLS 1.3 server that
    completes and records a client chain got it either from this handshake's own Certificate /
    CertificateVerify (as above), or from a session ticket — and then only from the ticket that
    was SELECTED as this handshake's PSK: it decrypted under the server's ticket keys, has the
    negotiated version and PRF hash, is not expired, and its resumption binder over THIS truncated
    ClientHello verified.  A ticket that is merely offered (wrong binder, other hash, expired,
    undecryptable) never contributes an identity. -/
theorem identity_implies_proof_pskTicket (C : Crypto) (s : Settings) (own : Chain) (configs : List PskConfig)
    (dec : Bytes → Option Ticket) (lifetime now : Nat) (prf : HashName) (trCH : Transcript) (last : Bool)
    (psks : List (Bytes × Bytes)) (reqCert : Bool) (offered : List SchemeId) (chain : Chain) (tCV : Transcript)
    (ownScheme : Option SchemeId) (cv : CertVerify) (sec : Bytes) (tFin : Transcript) (fin : Bytes)
    (h : (hsServer13T C s own configs dec lifetime now prf trCH last psks reqCert offered chain tCV ownScheme cv sec tFin fin).completed = true) :
    ∃ sess, (hsServer13T C s own configs dec lifetime now prf trCH last psks reqCert offered chain tCV ownScheme cv sec tFin fin).session = some sess ∧
      fin = finished13 C prf sec tFin ∧
      (sess.clientCertChain ≠ [] →
        (sess.clientCertChain = chain ∧ reqCert = true ∧ ClientProof13 C offered chain tCV prf cv) ∨
        (∃ c, sess.pskIdentity = some c.identity ∧ c.external = false ∧ sess.clientCertChain = c.resumedChain ∧
          PskChoiceProof C configs dec lifetime now 4 prf trCH psks c)) ∧
      (∀ ident, sess.pskIdentity = some ident → ∃ c, c.identity = ident ∧
        PskChoiceProof C configs dec lifetime now 4 prf trCH psks c) :=
  hsServer13T_ok C s own configs dec lifetime now prf trCH last psks reqCert offered chain tCV ownScheme cv sec tFin fin h

/-- in particular: without a selected PSK and without a client Certificate message no client
    identity is recorded, whatever tickets were offered -/
theorem no_identity_without_proof (C : Crypto) (s : Settings) (own : Chain) (configs : List PskConfig)
    (dec : Bytes → Option Ticket) (lifetime now : Nat) (prf : HashName) (trCH : Transcript) (last : Bool)
    (psks : List (Bytes × Bytes)) (reqCert : Bool) (offered : List SchemeId) (tCV : Transcript)
    (ownScheme : Option SchemeId) (cv : CertVerify) (sec : Bytes) (tFin : Transcript) (fin : Bytes)
    (hsel : pskSelectT C configs dec lifetime now 4 prf trCH last psks 0 = .ok none) :
    ∀ sess, (hsServer13T C s own configs dec lifetime now prf trCH last psks reqCert offered [] tCV ownScheme cv sec tFin fin).session = some sess →
      sess.clientCertChain = [] := by
  intro sess hs
  unfold hsServer13T at hs
  simp only [hsel] at hs
  by_cases hr : reqCert = true
  · simp only [hr, if_true, verifyCV13Server, pure, Except.pure] at hs
    by_cases hf : fin = finished13 C prf sec tFin
    · simp [hf, Outcome.done] at hs; rw [← hs]
    · simp [hf, Outcome.fail] at hs
  · simp only [hr, Bool.false_eq_true, if_false] at hs
    by_cases hf : fin = finished13 C prf sec tFin
    · simp [hf, Outcome.done] at hs; rw [← hs]
    · simp [hf, Outcome.fail] at hs

/-- With a delegated credential the TLS 1.3 client uses the credential's key only after the
    delegation signature verified under the CERTIFICATE key over the DC context (certificate ‖
    credential ‖ algorithm); the credential's scheme was offered in the delegated_credential
    extension, the delegation algorithm in signature_algorithms, and CertificateVerify (named with
    the credential's scheme) verifies under the credential key over this transcript. -/
theorem delegated_credential_after_delegation (C : Crypto) (s : Settings) (chSig : List SchemeId)
    (chain : Chain) (certBytes : Bytes) (dc : DelegatedCred) (t : Transcript) (prf : HashName)
    (cv : CertVerify) (ch : Chain)
    (h : verifyCV13Client C s chSig chain certBytes [dc] t prf cv = .ok ch) :
    ch = chain ∧ ∃ c rest, chain = c :: rest ∧ cv.scheme = some dc.dcScheme ∧ dc.dcScheme ∈ s.dcSigAlgs ∧
      dc.algorithm ∈ chSig ∧
      Proved C c.key (dcContext certBytes dc.credBytes dc.algorithm) dc.signature ∧
      Proved C dc.dcKey.key (tbs13 tagServer (digest C prf t)) cv.signature :=
  verifyCV13Client_dc_ok C s chSig chain certBytes dc t prf cv ch h

/-- The signed bytes are an injective function of THIS handshake: a TLS 1.3 proof accepted for
    (tag, transcript) although the key's owner only ever signed CertificateVerify messages of
    other (tag', transcript') pairs (other handshakes, or the other role in this one) implies a
    named bad event: a signature forgery, a collision of the signed encodings, or a collision
    of the transcript hash. -/
theorem proof_bound_to_this_handshake (C : Crypto) (key : Nat) (prf : HashName) (tag : Bytes)
    (t : Transcript) (sig : Bytes) (ownerSigned : Bytes → Prop)
    (hacc : Proved C key (tbs13 tag (digest C prf t)) sig)
    (hown : ∀ m, ownerSigned m → ∃ tag' t', tag'.length = tag.length ∧ (tag', t') ≠ (tag, t) ∧
      m = tbs13 tag' (digest C prf t')) :
    Forgery C key sig ownerSigned ∨ EncCollision C ∨ TranscriptCollision C := by
  by_cases hcol : TranscriptCollision C
  · exact Or.inr (Or.inr hcol)
  · have hother : ∀ m', ownerSigned m' → m' ≠ tbs13 tag (digest C prf t) := by
      intro m' hs heq
      obtain ⟨tag', t', hl, hne, hm⟩ := hown m' hs
      rcases tbs13_binds_transcript C prf tag' tag t' t hl hne with h1 | h1
      · exact h1 (by rw [← hm, heq])
      · exact hcol h1
    rcases proved_foreign_message C key _ sig ownerSigned hacc hother with h | h
    · exact Or.inl h
    · exact Or.inr (Or.inl h)

/-- the two role tags differ and have the same length: a server's CertificateVerify can never be
    replayed as a client's -/
theorem role_tags_distinct : tagClient ≠ tagServer ∧ tagClient.length = tagServer.length :=
  ⟨tag_client_ne_server, tag_lengths⟩

/-- ServerKeyExchange: the signed message determines both randoms and the parameters -/
theorem ske_signed_bytes_injective (cr1 sr1 p1 cr2 sr2 p2 : Bytes) (hc : cr1.length = cr2.length)
    (hs : sr1.length = sr2.length) (h : cr1 ++ sr1 ++ p1 = cr2 ++ sr2 ++ p2) :
    cr1 = cr2 ∧ sr1 = sr2 ∧ p1 = p2 := ske_msg_inj cr1 sr1 p1 cr2 sr2 p2 hc hs h

/-! ### schemes that were not offered -/

/-- A scheme the verifier did not put on the wire is rejected at every site that names a scheme:
    TLS 1.3 server (CertificateRequest list), TLS 1.3 client (ClientHello list), post-handshake
    authentication (the request's list), TLS 1.2 server and TLS 1.2 client (the list computed
    from the settings without certificate, which is what CertificateRequest / ClientHello carry). -/
theorem not_offered_scheme_rejected (C : Crypto) (s : Settings) (c : Cert) (rest : Chain) (sid : SchemeId)
    (sig : Bytes) (t : Transcript) (prf : HashName) :
    (∀ offered own, ¬ sid ∈ offered →
      ∃ e, verifyCV13Server C s offered (c :: rest) t prf own { scheme := some sid, signature := sig } = .error e) ∧
    (∀ chSig certBytes, ¬ sid ∈ chSig →
      ∃ e, verifyCV13Client C s chSig (c :: rest) certBytes [] t prf { scheme := some sid, signature := sig } = .error e) ∧
    (∀ dflt st crContext certMsg cvBytes fin,
      (∀ cr r, popRequest crContext st.requests = some (cr, r) → ¬ sid ∈ cr.sigAlgs) →
      ∃ e, phaServer C dflt st crContext (c :: rest) certMsg { scheme := some sid, signature := sig } cvBytes fin = .error e) ∧
    (∀ l0, sigHashesToList s false [] 3 = .ok l0 → ¬ sid ∈ l0 →
      ∃ e, verifyCV12 C s 3 (c :: rest) t { scheme := some sid, signature := sig } = .error e) ∧
    (∀ l0 fam params cr sr, sigHashesToList s false [] 3 = .ok l0 → ¬ sid ∈ l0 →
      ∃ e, verifySKE C s 3 fam (c :: rest)
        (some { hashAlg := sid.1, signAlg := sid.2, params := params, signature := sig }) cr sr = .error e) := by
  refine ⟨?_, ?_, ?_, ?_, ?_⟩
  · intro offered own hno
    exact verifyCV13Server_unoffered C s offered c rest t prf own _ (by intro x hx; cases hx; exact hno)
  · intro chSig certBytes hno
    cases hr : verifyCV13Client C s chSig (c :: rest) certBytes [] t prf { scheme := some sid, signature := sig } with
    | error e => exact ⟨e, rfl⟩
    | ok ch =>
      obtain ⟨_, c', r', sid', _, hs, hoff, _⟩ := verifyCV13Client_ok C s chSig _ certBytes t prf _ ch hr
      cases hs
      exact absurd hoff hno
  · intro dflt st crContext certMsg cvBytes fin hno
    cases hr : phaServer C dflt st crContext (c :: rest) certMsg { scheme := some sid, signature := sig } cvBytes fin with
    | error e => exact ⟨e, rfl⟩
    | ok st' =>
      obtain ⟨_, _, cr, r, hpop, _, hproof⟩ := phaServer_ok C dflt st st' crContext _ certMsg _ cvBytes fin hr
      rcases hproof with ⟨hnil, _⟩ | ⟨c', r', sid', _, hs, hoff, _⟩
      · cases hnil
      · cases hs
        exact absurd hoff (hno cr r hpop)
  · intro l0 hl0 hno
    cases hr : verifyCV12 C s 3 (c :: rest) t { scheme := some sid, signature := sig } with
    | error e => exact ⟨e, rfl⟩
    | ok ch =>
      obtain ⟨_, h2⟩ := verifyCV12_ok C s 3 _ t _ ch (by omega) hr
      rcases h2 with h2 | ⟨c', r', _, _, h3⟩
      · cases h2
      · obtain ⟨sid', hs, _, hin⟩ := h3 rfl
        cases hs
        exact absurd (hin l0 hl0) hno
  · intro l0 fam params cr sr hl0 hno
    cases hr : verifySKE C s 3 fam (c :: rest)
        (some { hashAlg := sid.1, signAlg := sid.2, params := params, signature := sig }) cr sr with
    | error e => exact ⟨e, rfl⟩
    | ok ch =>
      obtain ⟨_, c', r', _, h3⟩ := verifySKE_ok C s 3 fam _ _ cr sr ch hr
      obtain ⟨_, h4⟩ := h3 _ rfl
      obtain ⟨_, hin⟩ := h4 (by omega)
      exact absurd (hin l0 hl0) hno

/-- with a delegated credential: a credential scheme that is not in the client's
    delegated_credential extension, or a delegation algorithm that is not in its
    signature_algorithms, is rejected -/
theorem not_offered_dc_rejected (C : Crypto) (s : Settings) (chSig : List SchemeId) (chain : Chain)
    (certBytes : Bytes) (dc : DelegatedCred) (t : Transcript) (prf : HashName) (cv : CertVerify)
    (hno : ¬ dc.dcScheme ∈ s.dcSigAlgs ∨ ¬ dc.algorithm ∈ chSig) :
    ∃ e, verifyCV13Client C s chSig chain certBytes [dc] t prf cv = .error e := by
  cases hr : verifyCV13Client C s chSig chain certBytes [dc] t prf cv with
  | error e => exact ⟨e, rfl⟩
  | ok ch =>
    obtain ⟨_, _, _, _, _, h1, h2, _⟩ := verifyCV13Client_dc_ok C s chSig chain certBytes dc t prf cv ch hr
    rcases hno with h | h
    · exact absurd h1 h
    · exact absurd h2 h

/-! ### schemes that do not fit the key type of the presented certificate -/

/-- A scheme that the RFC tables do not allow for the end-entity key of the PRESENTED chain
    (rsa_pkcs1 or SHA-1 in TLS 1.3, rsa_pss_pss with an rsaEncryption key and vice versa, ECDSA
    with a hash not bound to the curve in TLS 1.3, any scheme of another key family) is rejected
    at every site. -/
theorem wrong_key_type_rejected (C : Crypto) (s : Settings) (c : Cert) (rest : Chain) (sid : SchemeId)
    (sig : Bytes) (t : Transcript) (prf : HashName) :
    (compatible c 4 sid = false →
      (∀ offered own,
        ∃ e, verifyCV13Server C s offered (c :: rest) t prf own { scheme := some sid, signature := sig } = .error e) ∧
      (∀ chSig certBytes,
        ∃ e, verifyCV13Client C s chSig (c :: rest) certBytes [] t prf { scheme := some sid, signature := sig } = .error e) ∧
      (∀ dflt st crContext certMsg cvBytes fin,
        ∃ e, phaServer C dflt st crContext (c :: rest) certMsg { scheme := some sid, signature := sig } cvBytes fin = .error e)) ∧
    (compatible c 3 sid = false →
      (∃ e, verifyCV12 C s 3 (c :: rest) t { scheme := some sid, signature := sig } = .error e) ∧
      (∀ fam params cr sr, ∃ e, verifySKE C s 3 fam (c :: rest)
        (some { hashAlg := sid.1, signAlg := sid.2, params := params, signature := sig }) cr sr = .error e)) := by
  constructor
  · intro hbad
    refine ⟨?_, ?_, ?_⟩
    · intro offered own
      exact verifyCV13Server_wrongtype C s offered c rest t prf own _ (by intro x hx; cases hx; exact hbad)
    · intro chSig certBytes
      cases hr : verifyCV13Client C s chSig (c :: rest) certBytes [] t prf { scheme := some sid, signature := sig } with
      | error e => exact ⟨e, rfl⟩
      | ok ch =>
        obtain ⟨_, c', r', sid', hc, hs, _, hcomp, _⟩ := verifyCV13Client_ok C s chSig _ certBytes t prf _ ch hr
        cases hs
        simp only [List.cons.injEq] at hc
        rw [← hc.1, hbad] at hcomp
        cases hcomp
    · intro dflt st crContext certMsg cvBytes fin
      cases hr : phaServer C dflt st crContext (c :: rest) certMsg { scheme := some sid, signature := sig } cvBytes fin with
      | error e => exact ⟨e, rfl⟩
      | ok st' =>
        obtain ⟨_, _, cr, r, _, _, hproof⟩ := phaServer_ok C dflt st st' crContext _ certMsg _ cvBytes fin hr
        rcases hproof with ⟨hnil, _⟩ | ⟨c', r', sid', hc, hs, _, hcomp, _⟩
        · cases hnil
        · cases hs
          simp only [List.cons.injEq] at hc
          rw [← hc.1, hbad] at hcomp
          cases hcomp
  · intro hbad
    refine ⟨?_, ?_⟩
    · cases hr : verifyCV12 C s 3 (c :: rest) t { scheme := some sid, signature := sig } with
      | error e => exact ⟨e, rfl⟩
      | ok ch =>
        obtain ⟨_, h2⟩ := verifyCV12_ok C s 3 _ t _ ch (by omega) hr
        rcases h2 with h2 | ⟨c', r', hc, _, h3⟩
        · cases h2
        · obtain ⟨sid', hs, hcomp, _⟩ := h3 rfl
          cases hs
          simp only [List.cons.injEq] at hc
          rw [← hc.1, hbad] at hcomp
          cases hcomp
    · intro fam params cr sr
      cases hr : verifySKE C s 3 fam (c :: rest)
          (some { hashAlg := sid.1, signAlg := sid.2, params := params, signature := sig }) cr sr with
      | error e => exact ⟨e, rfl⟩
      | ok ch =>
        obtain ⟨_, c', r', hc, h3⟩ := verifySKE_ok C s 3 fam _ _ cr sr ch hr
        obtain ⟨_, h4⟩ := h3 _ rfl
        obtain ⟨hcomp, _⟩ := h4 (by omega)
        simp only [List.cons.injEq] at hc
        rw [← hc.1] at hcomp
        have : compatible c 3 (sid.1, sid.2) = compatible c 3 sid := rfl
        rw [this, hbad] at hcomp
        cases hcomp

/-! ### Checker -/

/-- A Checker whose fingerprint does not match the recorded peer chain (or with no peer chain)
    makes the call fail: the wrapped handshake never completes; if the inner handshake had
    completed, the connection is closed and the session is no longer resumable. -/
theorem checker_mismatch_fails (fpf : Cert → Bytes) (fp : Bytes) (isClient : Bool) (o : Outcome)
    (sess : Session) (hs : o.session = some sess) (hbad : checkerOk fpf fp isClient sess = false) :
    (wrapper fpf (some fp) isClient o).completed = false ∧
    (o.completed = true → (wrapper fpf (some fp) isClient o).closed = true ∧
      ∃ s', (wrapper fpf (some fp) isClient o).session = some s' ∧ s'.resumable = false) :=
  wrapper_mismatch fpf fp isClient o sess hs hbad

/-- The pin is compared with the END-ENTITY certificate only: a pin that equals the fingerprint of
    some other certificate of the presented chain (an attacker holding the key of certificate A
    who presents `[A, V]` against a pin on `V`) does not pass unless the end-entity certificate
    itself has that fingerprint. -/
theorem checker_pins_end_entity (fpf : Cert → Bytes) (fp : Bytes) (isClient : Bool) (sess : Session)
    (c : Cert) (rest : Chain)
    (hch : (if isClient then sess.serverCertChain else sess.clientCertChain) = c :: rest) :
    checkerOk fpf fp isClient sess = true ↔ fpf c = fp := by
  rw [checkerOk_iff, hch]
  constructor
  · rintro ⟨c', rest', heq, hfp⟩
    simp only [List.cons.injEq] at heq
    rw [heq.1]; exact hfp
  · intro h; exact ⟨c, rest, rfl, h⟩

/-- **A Checker that demands a certificate property cannot be satisfied without an authenticated
    chain.**  The check is skipped only for a connection reported as resumed (and only with
    `checkResumedSession = False`); certificate, external-PSK, SRP and anonymous handshakes are never
    reported as resumed (`resumedOf`, `resuming13` for an external PSK choice).  Hence in those
    modes a handshake that leaves no peer chain in the session — an external-PSK-only or SRP or
    anonymous peer — makes the call with `Checker(x509Fingerprint=…)` fail. -/
theorem checker_fails_without_authenticated_chain (certFp : Cert → Bytes) (fp : Bytes) (cr isClient : Bool)
    (mode : AuthMode) (hmode : mode = .cert ∨ mode = .extPsk ∨ mode = .srp ∨ mode = .anon)
    (o : Outcome) (sess : Session) (hs : o.session = some sess)
    (hnone : (if isClient then sess.serverCertChain else sess.clientCertChain) = []) :
    (wrapperR certFp (some (fp, cr)) isClient (resumedOf mode) o).completed = false := by
  have hr : resumedOf mode = false := by
    rcases hmode with h | h | h | h <;> subst h <;> rfl
  rw [hr, wrapperR_not_resumed]
  exact wrapper_no_chain certFp fp isClient o sess hs hnone

/-- with `checkResumedSession = True` the same holds for resumed connections -/
theorem checker_checks_resumed_when_asked (certFp : Cert → Bytes) (fp : Bytes) (isClient resumed : Bool)
    (o : Outcome) (sess : Session) (hs : o.session = some sess)
    (hnone : (if isClient then sess.serverCertChain else sess.clientCertChain) = []) :
    (wrapperR certFp (some (fp, true)) isClient resumed o).completed = false := by
  rw [wrapperR_checkResumed]
  exact wrapper_no_chain certFp fp isClient o sess hs hnone

/-- an external PSK never makes the TLS 1.3 server report a resumption -/
theorem external_psk_not_resumed (c : PskChoice) (h : c.external = true) : resuming13 (some c) = false :=
  resuming13_external c h

/-- conversely a wrapped call that completes has passed the checker on the recorded chain -/
theorem checker_pass_means_match (fpf : Cert → Bytes) (fp : Bytes) (isClient : Bool) (o : Outcome)
    (h : (wrapper fpf (some fp) isClient o).completed = true) :
    o.completed = true ∧ ∀ sess, o.session = some sess → checkerOk fpf fp isClient sess = true :=
  wrapper_ok fpf fp isClient o h

/-! ### post-handshake authentication -/

/-- `session.clientCertChain` is replaced by a post-handshake Certificate only on the path on
    which the request context was outstanding (and is consumed), the CertificateVerify — if a
    chain was sent — verified under the chain's end-entity key over
    first-handshake transcript ‖ CertificateRequest ‖ Certificate with an offered compatible
    scheme, AND the client's Finished over that context is correct. -/
theorem pha_chain_after_finished (C : Crypto) (dflt : Settings) (st st' : PhaState) (crContext : Bytes)
    (chain : Chain) (certMsg : Bytes) (cv : CertVerify) (cvBytes fin : Bytes)
    (h : phaServer C dflt st crContext chain certMsg cv cvBytes fin = .ok st') :
    st'.clientCertChain = chain ∧ crContext ≠ [] ∧
    ∃ cr rest, popRequest crContext st.requests = some (cr, rest) ∧ st'.requests = rest ∧
      PhaProof C st cr chain certMsg cv cvBytes fin :=
  phaServer_ok C dflt st st' crContext chain certMsg cv cvBytes fin h

/-- a failed TLS ≤ 1.2 server handshake may leave `conn.session` carrying the client chain (the
    code writes it before the Finished check — observed on the implementation too) but the
    connection is closed and the session is not resumable -/
theorem failed_handshake_session_not_resumable (C : Crypto) (s : Settings) (ver : Nat) (own chain : Chain)
    (tCV : Transcript) (cv : CertVerify) (master : Bytes) (tFin : Transcript) (fin : Bytes)
    (h : (hsServer12 C s ver own chain tCV cv master tFin fin).completed = false) :
    (hsServer12 C s ver own chain tCV cv master tFin fin).closed = true ∧
    ∀ sess, (hsServer12 C s ver own chain tCV cv master tFin fin).session = some sess → sess.resumable = false :=
  hsServer12_failed C s ver own chain tCV cv master tFin fin h

/-! ### SRP -/

/-- the executed square-and-multiply is modular exponentiation -/
theorem powMod_spec (b e n : Nat) : powMod b e n = b ^ e % n := powMod_eq b e n

/-- **SRP agreement.**  If the server's stored verifier is `v = g^x mod N` for the `x` the client
    derives from salt, user name and password, and `A = g^a`, `B = g^b + k v` are delivered
    unmodified (and are not 0 mod N), both sides compute the same premaster secret — hence the
    Finished messages can only match if the client knew the password behind `v`. -/
theorem srp_agreement (N g k x a b u : Nat) (hN : 0 < N)
    (hA : srpClientA N g a % N ≠ 0) (hB : srpServerB N g k (powMod g x N) b % N ≠ 0) :
    ∃ S, srpClientPremaster N g k x a (srpServerB N g k (powMod g x N) b) u = .ok S ∧
      srpServerPremaster N (powMod g x N) b (srpClientA N g a) u = .ok S :=
  srp_agreement_aux N g k x a b u hN hA hB

/-- the server never derives a premaster from `A ≡ 0 (mod N)` -/
theorem srp_zero_A_rejected (N v b A u : Nat) (h : A % N = 0) :
    srpServerPremaster N v b A u = .error (.alert AD.illegalParameter) := by
  simp [srpServerPremaster, h]

/-- the client never derives a premaster from `B ≡ 0 (mod N)` -/
theorem srp_zero_B_rejected (N g k x a B u : Nat) (h : B % N = 0) :
    srpClientPremaster N g k x a B u = .error (.alert AD.illegalParameter) := by
  simp [srpClientPremaster, h]

/-! ### non-vacuity: an honest peer is accepted (concrete toy cryptography) -/

/-- toy cryptography: a signature is the key byte; hashing keeps the first byte -/
def exCrypto : Crypto :=
  { verify := fun k _ _ s => s == [UInt8.ofNat k]
    hash := fun _ x => x.take 1
    hashLen := fun _ => 1
    pkcs1Prefix := fun _ => []
    pkcs1Sha1Alt := []
    derOk := fun _ => true
    hmac := fun _ k d => k ++ d
    finKey := fun _ s => s
    prf12 := fun _ m l t => m ++ l ++ t
    binderKey := fun _ p _ => p }

def exSettings : Settings :=
  { rsaSigHashes := [.sha256], rsaSchemes := [.pss, .pkcs1], ecdsaSigHashes := [.sha256], dsaSigHashes := [],
    moreSigSchemes := [.ed25519], eccCurves := [.nist256], minKeySize := 1023, maxKeySize := 8193 }

def exRsa : Cert := { key := 7, alg := .rsa, bits := 2048 }

example : verifyCV13Server exCrypto exSettings [(8, 4)] [exRsa] [1, 2] .sha256 none
    { scheme := some (8, 4), signature := [7] } = .ok [exRsa] := by decide

example : verifyCV13Client exCrypto exSettings [(8, 4)] [exRsa] [] [] [1, 2] .sha256
    { scheme := some (8, 4), signature := [7] } = .ok [exRsa] := by decide

-- a scheme that was offered but does not fit the RSA key is refused …
example : verifyCV13Client exCrypto exSettings [(8, 4), (8, 9)] [exRsa] [] [] [1, 2] .sha256
    { scheme := some (8, 9), signature := [7] } = .error (.alert 47) := by decide

-- … and so is one that fits but was not offered
example : verifyCV13Server exCrypto exSettings [] [exRsa] [1, 2] .sha256 none
    { scheme := some (8, 4), signature := [7] } = .error (.alert 47) := by decide

example : compatible exRsa 4 (8, 9) = false := by decide
example : compatible exRsa 4 (4, 1) = false ∧ compatible exRsa 3 (4, 1) = true := by decide

example : verifyCV12 exCrypto exSettings 3 [exRsa] [1, 2] { scheme := some (4, 1), signature := [7] } = .ok [exRsa] := by
  decide

example : (hsServer12 exCrypto exSettings 3 [] [exRsa] [1, 2] { scheme := some (4, 1), signature := [7] } [9] [3] [0]).completed = false := by
  decide

example : srpClientPremaster 23 5 3 6 4 (srpServerB 23 5 3 (powMod 5 6 23) 9) 7 = .ok 6 ∧
    srpServerPremaster 23 (powMod 5 6 23) 9 (srpClientA 23 5 4) 7 = .ok 6 := by decide

example : checkerOk (fun c => [UInt8.ofNat c.key]) [9] true { serverCertChain := [exRsa] } = false := by
  decide

-- pin on the second certificate of the chain [attacker, victim]: refused; pin on the end entity: accepted
example : checkerOk (fun c => [UInt8.ofNat c.key]) [9] true
    { serverCertChain := [exRsa, { key := 9, alg := .rsa, bits := 2048 }] } = false ∧
  checkerOk (fun c => [UInt8.ofNat c.key]) [7] true
    { serverCertChain := [exRsa, { key := 9, alg := .rsa, bits := 2048 }] } = true := by decide

end Tls.Auth
