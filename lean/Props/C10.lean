import TlsProofs.RsaPssSign
import TlsProofs.RsaInvMod
import TlsProofs.Dh
import TlsProofs.Dsa
import TlsProofs.Der
import TlsModel.SignGuard
import TlsModel.Gen.SignSites
import TlsProofs.X25519
import TlsProofs.RsaPadGen
import TlsModel.Gen.RsaPad
import Mathlib.Tactic.NormNum.Prime
/-
  C10 — signatures and key agreement are sound, strict and never emitted when faulty.

  RSA part.  Model: `TlsModel/Rsa.lean` mirrors tlslite/utils/rsakey.py and python_rsakey.py
  statement by statement (tied to the code by the correspondence run of harness/props/c10.py).
  The hash is an arbitrary function with a fixed non-zero output length (`HashOk`); the random
  salt and the random first unblinder are arguments.
-/
namespace Tls.Rsa
open Nat

/-! ## 1. CRT private operation with blinding -/

/-- a small concrete key (p = 104729, q = 1299709, e = 65537; 37-bit modulus) used for the
    non-vacuity examples -/
def exKey : PrivKey :=
  { pub := { n := 136117223861, e := 65537 }, d := 6617621033, p := 104729, q := 1299709,
    dP := 68169, dQ := 807605, qInv := 23210 }

theorem exKey_valid : ValidKey exKey :=
  ValidKey.of_lcm exKey (by norm_num [exKey]) (by norm_num [exKey]) (by decide) (by decide) (by decide)
    (by decide) (by decide) (by decide) (by decide) (by decide)

/-- **rsa_crt_blinded_correct.**  For primes `p ≠ q`, `n = p·q`, `e·d ≡ 1` and `e·dP ≡ 1 (mod p-1)`,
    `e·dQ ≡ 1 (mod q-1)`, `qInv·q ≡ 1 (mod p)` (`ValidKey`), a blinding state that is fresh or
    consistent, an invertible first unblinder and any `m`: `_rawPrivateKeyOp` returns `m^d mod n`,
    the public operation maps it back to `m` (for `m < n`), and the advanced state is consistent. -/
theorem rsa_crt_blinded_correct {k : PrivKey} (vk : ValidKey k) {st : Blind} {rnd : ℕ}
    (hst : BlindOk k st) (hrnd : st.blinder = 0 → invMod rnd k.pub.n * rnd % k.pub.n = 1) (m : ℕ) :
    (rawPrivateKeyOp k st rnd m).1 = m ^ k.d % k.pub.n ∧
    (m < k.pub.n → rawPublicKeyOp k.pub (rawPrivateKeyOp k st rnd m).1 = m) ∧
    BlindOk k (rawPrivateKeyOp k st rnd m).2 := by
  obtain ⟨h1, h2⟩ := rawPrivateKeyOp_root vk hst hrnd m
  refine ⟨vk.root_unique h1 h2, ?_, ?_⟩
  · intro hm
    unfold rawPublicKeyOp
    rw [powMod_eq]
    have h := h2
    unfold Nat.ModEq at h
    rw [h, Nat.mod_eq_of_lt hm]
  · rw [blindStep_state]
    exact Or.inr (blindStep_spec vk.n_gt_one hst hrnd).2

example : (rawPrivateKeyOp exKey ⟨0, 0⟩ 7 65).1 = 65 ^ exKey.d % exKey.pub.n :=
  (rsa_crt_blinded_correct exKey_valid (Or.inl rfl) (fun _ => by decide) 65).1

/-- private ∘ public is the identity on `[0, n)` too (a valid signature is the only pre-image) -/
theorem rsa_private_after_public {k : PrivKey} (vk : ValidKey k) {st : Blind} {rnd : ℕ}
    (hst : BlindOk k st) (hrnd : st.blinder = 0 → invMod rnd k.pub.n * rnd % k.pub.n = 1)
    (s : ℕ) (hs : s < k.pub.n) :
    (rawPrivateKeyOp k st rnd (rawPublicKeyOp k.pub s)).1 = s := by
  obtain ⟨h1, h2⟩ := rawPrivateKeyOp_root vk hst hrnd (rawPublicKeyOp k.pub s)
  apply vk.pow_e_inj h1 hs
  refine h2.trans ?_
  unfold rawPublicKeyOp
  rw [powMod_eq]
  exact Nat.mod_modEq _ _

/-- every private operation of an arbitrary history of operations on one key object -/
def runOps (k : PrivKey) : Blind → List (ℕ × ℕ) → List ℕ
  | _, [] => []
  | st, (rnd, m) :: rest =>
    (rawPrivateKeyOp k st rnd m).1 :: runOps k (rawPrivateKeyOp k st rnd m).2 rest

/-- the result is `m^d mod n` at every step of every history (the state stays consistent) -/
theorem rsa_crt_blinded_correct_history {k : PrivKey} (vk : ValidKey k) (ops : List (ℕ × ℕ))
    (st : Blind) (hst : BlindOk k st)
    (hops : ∀ o ∈ ops, invMod o.1 k.pub.n * o.1 % k.pub.n = 1) :
    runOps k st ops = ops.map (fun o => o.2 ^ k.d % k.pub.n) := by
  induction ops generalizing st with
  | nil => rfl
  | cons o rest ih =>
    obtain ⟨rnd, m⟩ := o
    have hr := hops (rnd, m) (List.mem_cons_self ..)
    obtain ⟨h1, _, h3⟩ := rsa_crt_blinded_correct vk hst (fun _ => hr) m
    simp only [runOps, List.map_cons]
    rw [h1, ih _ h3 (fun o ho => hops o (List.mem_cons_of_mem _ ho))]

example : runOps exKey ⟨0, 0⟩ [(7, 65), (9, 66), (11, 3000)]
    = [(7, 65), (9, 66), (11, 3000)].map (fun o => o.2 ^ exKey.d % exKey.pub.n) :=
  rsa_crt_blinded_correct_history exKey_valid [(7, 65), (9, 66), (11, 3000)] ⟨0, 0⟩ (Or.inl rfl)
    (by decide +kernel)

/-- **blinding_invariant.**  `blinder · unblinder^e ≡ 1 (mod n)` holds for the pair created from an
    invertible random number, for the pair handed to the operation, and is preserved by the
    update `blinder ← blinder², unblinder ← unblinder²`. -/
theorem blinding_invariant {k : PrivKey} (hn : 1 < k.pub.n) {st : Blind} {rnd : ℕ}
    (hst : BlindOk k st) (hrnd : st.blinder = 0 → invMod rnd k.pub.n * rnd % k.pub.n = 1) :
    PairOk k (blindStep k st rnd).1.1 (blindStep k st rnd).1.2 ∧
    PairOk k (blindStep k st rnd).2.blinder (blindStep k st rnd).2.unblinder :=
  blindStep_spec hn hst hrnd

theorem blinding_invariant_square {k : PrivKey} {b u : ℕ} (h : PairOk k b u) :
    PairOk k (b * b % k.pub.n) (u * u % k.pub.n) := h.square

example : PairOk exKey (blindStep exKey ⟨0, 0⟩ 7).2.blinder (blindStep exKey ⟨0, 0⟩ 7).2.unblinder :=
  (blinding_invariant (by decide) (Or.inl rfl) (fun _ => by decide)).2

/-! ## 2. PKCS#1 v1.5: verification accepts exactly the canonical encoding -/

/-- DigestInfo headers of RFC 8017 §9.2 note 1 (typed in from the RFC, not from the code) -/
def rfc8017DigestInfo : List (String × Bytes) := [
  ("md5",    [0x30, 0x20, 0x30, 0x0c, 0x06, 0x08, 0x2a, 0x86, 0x48, 0x86, 0xf7, 0x0d, 0x02, 0x05, 0x05, 0x00, 0x04, 0x10]),
  ("sha1",   [0x30, 0x21, 0x30, 0x09, 0x06, 0x05, 0x2b, 0x0e, 0x03, 0x02, 0x1a, 0x05, 0x00, 0x04, 0x14]),
  ("sha224", [0x30, 0x2d, 0x30, 0x0d, 0x06, 0x09, 0x60, 0x86, 0x48, 0x01, 0x65, 0x03, 0x04, 0x02, 0x04, 0x05, 0x00, 0x04, 0x1c]),
  ("sha256", [0x30, 0x31, 0x30, 0x0d, 0x06, 0x09, 0x60, 0x86, 0x48, 0x01, 0x65, 0x03, 0x04, 0x02, 0x01, 0x05, 0x00, 0x04, 0x20]),
  ("sha384", [0x30, 0x41, 0x30, 0x0d, 0x06, 0x09, 0x60, 0x86, 0x48, 0x01, 0x65, 0x03, 0x04, 0x02, 0x02, 0x05, 0x00, 0x04, 0x30]),
  ("sha512", [0x30, 0x51, 0x30, 0x0d, 0x06, 0x09, 0x60, 0x86, 0x48, 0x01, 0x65, 0x03, 0x04, 0x02, 0x03, 0x05, 0x00, 0x04, 0x40])]

/-- the documented second SHA-1 form: AlgorithmIdentifier with the NULL parameter omitted -/
def sha1DigestInfoNoNull : Bytes :=
  [0x30, 0x1f, 0x30, 0x07, 0x06, 0x05, 0x2b, 0x0e, 0x03, 0x02, 0x1a, 0x04, 0x14]

/-- the prefix tables of the tree under check (regenerated on every run) are the RFC's -/
theorem pkcs1_prefixes_are_rfc8017 :
    Gen.Pkcs1.translatorProblems = [] ∧
    Gen.Pkcs1.pkcs1Prefixes = rfc8017DigestInfo ∧
    Gen.Pkcs1.sha1PrefixWithNull = [0x30, 0x21, 0x30, 0x09, 0x06, 0x05, 0x2b, 0x0e, 0x03, 0x02, 0x1a, 0x05, 0x00, 0x04, 0x14] ∧
    Gen.Pkcs1.sha1PrefixNoNull = sha1DigestInfoNoNull := by
  decide

/-- the DigestInfo encodings `verify` accepts for hash `alg` and digest `h` -/
def acceptedDigestInfos (alg : String) (h : Bytes) : List Bytes :=
  if alg = "sha1" then [sha1DigestInfoNoNull ++ h, (rfc8017DigestInfo.lookup "sha1").getD [] ++ h]
  else match rfc8017DigestInfo.lookup alg with
    | some pre => [pre ++ h]
    | none => []

/-- **pkcs1_verify_iff_canonical.**  For every public key, signature string, digest and hash name:
    `verify(sig, h, "pkcs1", alg)` returns True iff the key is not PSS-only, `sig` has the length of
    the modulus, is below the modulus, and `sig^e mod n` — written on exactly `k` bytes — equals THE
    encoding `00 01 FF…FF 00 DigestInfo(alg) h` whose padding fills the block (no short padding, no
    trailing bytes, no alternative DigestInfo except the documented SHA-1 pair). -/
theorem pkcs1_verify_iff_canonical (k : PubKey) (sig h : Bytes) (alg : String) (H : HashAlg) (sLen : ℕ) :
    verify k sig h .pkcs1 (some alg) H sLen = .ok true ↔
      k.pssOnly = false ∧ sig.length = numBytes k.n ∧ beDecode sig < k.n ∧
      ∃ t ∈ acceptedDigestInfos alg h,
        beEncode (numBytes k.n) ((beDecode sig) ^ k.e % k.n) = canonicalEM (numBytes k.n) t := by
  obtain ⟨_, hpre, hnull, hnonull⟩ := pkcs1_prefixes_are_rfc8017
  unfold verify
  by_cases hp : k.pssOnly = true
  · simp [hp]
  · have hp' : k.pssOnly = false := by simpa using hp
    simp only [hp', Bool.false_eq_true, and_false, if_false, true_and]
    by_cases hs : alg = "sha1"
    · subst hs
      simp only [if_true, Except.ok.injEq, Bool.or_eq_true, rawPkcs1Verify_iff,
        addPKCS1SHA1Prefix, hnull, hnonull, acceptedDigestInfos]
      simp only [Bool.false_eq_true, if_false, List.mem_cons, List.not_mem_nil, or_false]
      constructor
      · rintro (⟨a, b, c⟩ | ⟨a, b, c⟩)
        · exact ⟨a, b, _, Or.inl rfl, c⟩
        · exact ⟨a, b, _, Or.inr rfl, c⟩
      · rintro ⟨a, b, t, (rfl | rfl), c⟩
        · exact Or.inl ⟨a, b, c⟩
        · exact Or.inr ⟨a, b, c⟩
    · have hs' : ¬ (some alg = some "sha1") := by simpa using hs
      simp only [hs', if_false, if_true, addPKCS1Prefix, hpre, acceptedDigestInfos, hs]
      cases hl : rfc8017DigestInfo.lookup alg with
      | none => simp
      | some pre =>
        simp only [Except.ok.injEq, rawPkcs1Verify_iff, List.mem_cons, List.not_mem_nil, or_false]
        constructor
        · rintro ⟨a, b, c⟩; exact ⟨a, b, _, rfl, c⟩
        · rintro ⟨a, b, t, rfl, c⟩; exact ⟨a, b, c⟩

/-- raw form (no DigestInfo added: TLS ≤ 1.1 `MD5‖SHA1` signatures, `hashAlg=None`) -/
theorem pkcs1_raw_verify_iff_canonical (k : PubKey) (sig bytes : Bytes) :
    rawPkcs1Verify k sig bytes = true ↔
      sig.length = numBytes k.n ∧ beDecode sig < k.n ∧
      beEncode (numBytes k.n) ((beDecode sig) ^ k.e % k.n) = canonicalEM (numBytes k.n) bytes :=
  rawPkcs1Verify_iff k sig bytes

/-- what `sign` produces is accepted (whenever the DigestInfo fits the modulus) -/
theorem pkcs1_sign_verify {k : PrivKey} (vk : ValidKey k) {st : Blind} {rnd : ℕ}
    (hst : BlindOk k st) (hrnd : st.blinder = 0 → invMod rnd k.pub.n * rnd % k.pub.n = 1)
    (hd : k.d ≠ 0) (bytes : Bytes) (hfit : bytes.length + 3 ≤ numBytes k.pub.n) :
    ∃ sig st', rawPkcs1Sign k st rnd bytes = .ok (sig, st') ∧ BlindOk k st' ∧
      rawPkcs1Verify k.pub sig bytes = true := by
  have hn0 : k.pub.n ≠ 0 := by have := vk.n_gt_one; omega
  have hl : (addPKCS1Padding k.pub.n bytes).length = numBytes k.pub.n := by
    rw [addPKCS1Padding_eq]; exact canonicalEM_length _ _ hfit
  have hv : beDecode (addPKCS1Padding k.pub.n bytes) < k.pub.n := by
    rw [addPKCS1Padding_eq]; exact canonicalEM_lt _ hn0 _ hfit
  obtain ⟨sig, st', hok, hst', _, hpub⟩ := rawPrivateKeyOpBytes_ok vk hst hrnd _ hl hv
  refine ⟨sig, st', ?_, hst', ?_⟩
  · unfold rawPkcs1Sign; rw [if_neg hd]; exact hok
  · unfold rawPkcs1Verify; rw [hpub]; simp

example : ∃ sig st', rawPkcs1Sign exKey ⟨0, 0⟩ 7 [] = .ok (sig, st') ∧ BlindOk exKey st' ∧
    rawPkcs1Verify exKey.pub sig [] = true :=
  pkcs1_sign_verify exKey_valid (Or.inl rfl) (fun _ => by decide) (by decide) [] (by decide)

/-- under a well-formed key at most one signature string is accepted for a given encoded
    message: every other string — any bit flip, a stripped or added leading zero, … — is rejected -/
theorem pkcs1_signature_unique {k : PrivKey} (vk : ValidKey k) (s1 s2 bytes : Bytes)
    (h1 : rawPkcs1Verify k.pub s1 bytes = true) (h2 : rawPkcs1Verify k.pub s2 bytes = true) :
    s1 = s2 := by
  obtain ⟨l1, v1, e1⟩ := (rawPkcs1Verify_iff _ _ _).mp h1
  obtain ⟨l2, v2, e2⟩ := (rawPkcs1Verify_iff _ _ _).mp h2
  have hn0 : 0 < k.pub.n := by have := vk.n_gt_one; omega
  have hb := lt_pow_numBytes k.pub.n
  have := congrArg beDecode (e1.trans e2.symm)
  rw [beDecode_beEncode _ _ (Nat.lt_trans (Nat.mod_lt _ hn0) hb),
    beDecode_beEncode _ _ (Nat.lt_trans (Nat.mod_lt _ hn0) hb)] at this
  exact beDecode_inj _ _ (l1.trans l2.symm) (vk.pow_e_inj v1 v2 this)

/-- a signature string is accepted for at most one encoded DigestInfo: changing the digest (or
    the hash algorithm) of an accepted signature makes verification fail -/
theorem pkcs1_verify_binds_digest (k : PubKey) (sig b1 b2 : Bytes)
    (h1 : rawPkcs1Verify k sig b1 = true) (h2 : rawPkcs1Verify k sig b2 = true) : b1 = b2 := by
  obtain ⟨_, _, e1⟩ := (rawPkcs1Verify_iff _ _ _).mp h1
  obtain ⟨_, _, e2⟩ := (rawPkcs1Verify_iff _ _ _).mp h2
  exact canonicalEM_inj _ _ _ (e1.symm.trans e2)

/-! ## 3. RSASSA-PSS -/

/-- **pss_verify_sign.**  Whatever `RSASSA_PSS_sign` returns (any hash with fixed output length,
    any salt, any modulus length — also bit lengths ≡ 1 mod 8) is accepted by `RSASSA_PSS_verify`
    with `sLen = len(salt)`, and the blinding state stays consistent. -/
theorem pss_verify_sign {H : HashAlg} (hH : HashOk H) {k : PrivKey} (vk : ValidKey k)
    {st : Blind} {rnd : ℕ} (hst : BlindOk k st)
    (hrnd : st.blinder = 0 → invMod rnd k.pub.n * rnd % k.pub.n = 1)
    (mHash salt sig : Bytes) (st' : Blind)
    (h : rsassaPssSign H k st rnd mHash salt = .ok (sig, st')) :
    rsassaPssVerify H k.pub mHash sig salt.length = .ok () ∧ BlindOk k st' :=
  rsassaPss_sign_verify hH vk hst hrnd mHash salt sig st' h

/-- encoding level: `EMSA_PSS_verify ∘ EMSA_PSS_encode` accepts, for every `emBits` -/
theorem pss_verify_encode {H : HashAlg} (hH : HashOk H) (mHash salt : Bytes) (emBits : ℕ) (em : Bytes)
    (h : emsaPssEncode H mHash emBits salt = .ok em) :
    emsaPssVerify H mHash em emBits salt.length = .ok () :=
  emsaPssVerify_encode hH mHash salt emBits em h

/-- a toy "hash" (2 bytes: xor and length) for non-vacuity: the theorems hold for any function -/
def toyHash : HashAlg :=
  { name := "toy", hLen := 2,
    hash := fun x => [x.foldl (· ^^^ ·) 0x5a, UInt8.ofNat x.length] }

theorem toyHash_ok : HashOk toyHash := ⟨by decide, fun _ => rfl⟩

example : emsaPssEncode toyHash [1, 2] 47 [9] =
    .ok ((emsaPssEncode toyHash [1, 2] 47 [9]).toOption.getD []) ∧
    emsaPssVerify toyHash [1, 2] ((emsaPssEncode toyHash [1, 2] 47 [9]).toOption.getD []) 47 1 = .ok () := by
  decide

/-- **pss_verify_accept_iff.**  `EMSA_PSS_verify` returns True exactly when all checks of
    RFC 8017 §9.1.2 pass: emLen ≥ hLen+sLen+2, trailer 0xbc, leftmost `8·emLen−emBits` bits zero,
    PS all zero, separator 0x01, and `H = Hash(00×8 ‖ mHash ‖ salt)`. -/
theorem pss_verify_accept_iff (H : HashAlg) (mHash em : Bytes) (emBits sLen : ℕ) :
    emsaPssVerify H mHash em emBits sLen = .ok () ↔
      let emLen := divceil emBits 8
      let maskedDB := em.take (emLen - H.hLen - 1)
      let h := (em.drop (emLen - H.hLen - 1)).take H.hLen
      H.hLen + sLen + 2 ≤ emLen ∧
      em.getLast? = some 0xbc ∧
      (∃ b0, maskedDB.head? = some b0 ∧ b0.toNat &&& pssTopMask emLen emBits = 0) ∧
      ∃ db, pssRecoverDB H maskedDB h emLen emBits = .ok db ∧
        (∀ x ∈ db.take (emLen - H.hLen - sLen - 2), x = 0) ∧
        db[emLen - H.hLen - sLen - 2]? = some 1 ∧
        h = H.hash (List.replicate 8 (0 : UInt8) ++ mHash ++
              (if sLen ≠ 0 then db.drop (db.length - sLen) else [])) :=
  emsaPssVerify_ok_iff H mHash em emBits sLen

/-- one rejection lemma per structural check -/
theorem pss_rejects_short_emLen (H : HashAlg) (mHash em : Bytes) (emBits sLen : ℕ)
    (h : divceil emBits 8 < H.hLen + sLen + 2) : emsaPssVerify H mHash em emBits sLen ≠ .ok () := by
  intro hv; have := ((pss_verify_accept_iff ..).mp hv).1; omega

theorem pss_rejects_bad_trailer (H : HashAlg) (mHash em : Bytes) (emBits sLen : ℕ)
    (h : em.getLast? ≠ some 0xbc) : emsaPssVerify H mHash em emBits sLen ≠ .ok () :=
  fun hv => h ((pss_verify_accept_iff ..).mp hv).2.1

theorem pss_rejects_leftmost_bits (H : HashAlg) (mHash em : Bytes) (emBits sLen : ℕ) (b0 : UInt8)
    (hb : (em.take (divceil emBits 8 - H.hLen - 1)).head? = some b0)
    (h : b0.toNat &&& pssTopMask (divceil emBits 8) emBits ≠ 0) :
    emsaPssVerify H mHash em emBits sLen ≠ .ok () := by
  intro hv
  obtain ⟨b, hb', hz⟩ := ((pss_verify_accept_iff ..).mp hv).2.2.1
  rw [hb] at hb'; cases hb'; exact h hz

theorem pss_rejects_nonzero_PS (H : HashAlg) (mHash em : Bytes) (emBits sLen : ℕ) (db : Bytes)
    (hdb : pssRecoverDB H (em.take (divceil emBits 8 - H.hLen - 1))
      ((em.drop (divceil emBits 8 - H.hLen - 1)).take H.hLen) (divceil emBits 8) emBits = .ok db)
    (x : UInt8) (hx : x ∈ db.take (divceil emBits 8 - H.hLen - sLen - 2)) (hx0 : x ≠ 0) :
    emsaPssVerify H mHash em emBits sLen ≠ .ok () := by
  intro hv
  obtain ⟨db', hdb', hps, _⟩ := ((pss_verify_accept_iff ..).mp hv).2.2.2
  rw [hdb] at hdb'; cases hdb'; exact hx0 (hps x hx)

theorem pss_rejects_bad_separator (H : HashAlg) (mHash em : Bytes) (emBits sLen : ℕ) (db : Bytes)
    (hdb : pssRecoverDB H (em.take (divceil emBits 8 - H.hLen - 1))
      ((em.drop (divceil emBits 8 - H.hLen - 1)).take H.hLen) (divceil emBits 8) emBits = .ok db)
    (h : db[divceil emBits 8 - H.hLen - sLen - 2]? ≠ some 1) :
    emsaPssVerify H mHash em emBits sLen ≠ .ok () := by
  intro hv
  obtain ⟨db', hdb', _, hsep, _⟩ := ((pss_verify_accept_iff ..).mp hv).2.2.2
  rw [hdb] at hdb'; cases hdb'; exact h hsep

theorem pss_rejects_hash_mismatch (H : HashAlg) (mHash em : Bytes) (emBits sLen : ℕ) (db : Bytes)
    (hdb : pssRecoverDB H (em.take (divceil emBits 8 - H.hLen - 1))
      ((em.drop (divceil emBits 8 - H.hLen - 1)).take H.hLen) (divceil emBits 8) emBits = .ok db)
    (h : (em.drop (divceil emBits 8 - H.hLen - 1)).take H.hLen ≠
      H.hash (List.replicate 8 (0 : UInt8) ++ mHash ++ (if sLen ≠ 0 then db.drop (db.length - sLen) else []))) :
    emsaPssVerify H mHash em emBits sLen ≠ .ok () := by
  intro hv
  obtain ⟨db', hdb', _, _, hh⟩ := ((pss_verify_accept_iff ..).mp hv).2.2.2
  rw [hdb] at hdb'; cases hdb'; exact h hh

/-- `RSASSA_PSS_verify` rejects strings of the wrong length or not below the modulus, and a
    non-zero surplus leading byte (modulus bit length ≡ 1 mod 8) -/
theorem pss_rejects_out_of_range (H : HashAlg) (k : PubKey) (mHash sig : Bytes) (sLen : ℕ)
    (h : sig.length ≠ numBytes k.n ∨ k.n ≤ beDecode sig) :
    rsassaPssVerify H k mHash sig sLen = .error .invalidSignature := by
  unfold rsassaPssVerify
  cases hr : rawPublicKeyOpBytes k sig with
  | error e => rw [rawPublicKeyOpBytes_err k sig e hr]
  | ok out =>
    obtain ⟨h1, h2, _⟩ := (rawPublicKeyOpBytes_ok_iff k sig out).mp hr
    rcases h with h | h
    · exact absurd h1 h
    · omega

end Tls.Rsa

/-! ## 4. Finite-field Diffie–Hellman (`FFDHKeyExchange`) and the ECDH glue -/
namespace Tls.Dh
open Tls Tls.Rsa

/-- `__init__` refuses a generator outside `(1, p)`; what it returns is `Valid` -/
theorem ffdh_new_checks_generator (group : ℕ) (t : Bool) (g p : ℕ) :
    (∀ k, FFDH.new group t g p = .ok k → 1 < k.generator ∧ k.generator < k.prime) ∧
    (group = 0 → (g ≤ 1 ∨ p ≤ g) → FFDH.new group t g p = .error .illegalParameter) := by
  refine ⟨fun k h => FFDH.new_valid group t g p k h, ?_⟩
  intro hg hbad
  unfold FFDH.new
  have : ¬ (1 < g ∧ g < p) := by omega
  simp [hg, this]

/-- the named groups of the tree under check (regenerated on every run): ids 256…260, generator 2,
    odd modulus of the advertised size whose top and bottom 64 bits are all ones (RFC 7919 form) -/
theorem ffdhe_groups_wellformed :
    Gen.Pkcs1.ffdheGroups.map (·.1) = [256, 257, 258, 259, 260] ∧
    Gen.Pkcs1.ffdheGroups.map (fun x => numBits x.2.2) = [2048, 3072, 4096, 6144, 8192] ∧
    ∀ x ∈ Gen.Pkcs1.ffdheGroups, x.2.1 = 2 ∧ x.2.2 % 2 ^ 64 = 2 ^ 64 - 1 ∧
      x.2.2 >>> (numBits x.2.2 - 64) = 2 ^ 64 - 1 ∧ x.2.2 % 8 = 7 := by
  decide +kernel

/-- **ffdh_agree.**  If both parties' `calc_public_value` and `calc_shared_key` succeed on each
    other's shares, they return the same bytes, the encoding of `g^(a·b) mod p`
    (`(g^a)^b = (g^b)^a`).  Holds for TLS ≤ 1.2 integers and TLS 1.3 fixed-length strings. -/
theorem ffdh_agree (k : FFDH) (hv : k.Valid) (a b : ℕ) (Ya Yb : Share) (Sa Sb : Bytes)
    (h1 : k.calcPublic a = .ok Ya) (h2 : k.calcPublic b = .ok Yb)
    (h3 : k.calcShared a Yb = .ok Sa) (h4 : k.calcShared b Ya = .ok Sb) :
    Sa = Sb ∧ beDecode Sa = k.generator ^ (a * b) % k.prime := by
  have hp : 0 < k.prime := by have := hv.1; have := hv.2; omega
  obtain ⟨ya, hna, _, _, _, _, hSb⟩ := calcShared_ok k b Ya Sb h4
  obtain ⟨yb, hnb, _, _, _, _, hSa⟩ := calcShared_ok k a Yb Sa h3
  rw [normalise_calcPublic k hv a Ya h1] at hna
  rw [normalise_calcPublic k hv b Yb h2] at hnb
  cases hna; cases hnb
  have e1 : (k.generator ^ b % k.prime) ^ a % k.prime = k.generator ^ (a * b) % k.prime := by
    rw [← Nat.pow_mod, ← Nat.pow_mul, Nat.mul_comm]
  have e2 : (k.generator ^ a % k.prime) ^ b % k.prime = k.generator ^ (a * b) % k.prime := by
    rw [← Nat.pow_mod, ← Nat.pow_mul]
  rw [e1] at hSa
  rw [e2] at hSb
  refine ⟨hSa.trans hSb.symm, ?_⟩
  rw [hSa]
  exact decode_shared k _ (Nat.mod_lt _ hp)

/-- non-vacuity: p = 23, g = 5, a = 6, b = 15 (both flavours) -/
example : (FFDH.calcShared ⟨5, 23, false⟩ 6 (.int 19) = .ok [2]) ∧
    (FFDH.calcShared ⟨5, 23, false⟩ 15 (.int 8) = .ok [2]) ∧
    (FFDH.calcPublic ⟨5, 23, false⟩ 6 = .ok (.int 8)) ∧
    (FFDH.calcPublic ⟨5, 23, true⟩ 15 = .ok (.bytes [19])) := by decide

/-- **ffdh_rejects_small.**  Shares 0, 1, p−1, p and everything ≥ p are refused … -/
theorem ffdh_rejects_small (k : FFDH) (priv y : ℕ) (h : y = 0 ∨ y = 1 ∨ k.prime - 1 ≤ y) :
    k.calcShared priv (.int y) = .error .illegalParameter := by
  unfold FFDH.calcShared FFDH.normalise
  have : ¬ (2 ≤ y ∧ y < k.prime - 1) := by omega
  simp [this]

/-- … also as TLS 1.3 byte strings, where a wrong length is refused as well -/
theorem ffdh_rejects_small_bytes (k : FFDH) (priv : ℕ) (b : Bytes)
    (h : b.length ≠ numBytes k.prime ∨ beDecode b = 0 ∨ beDecode b = 1 ∨ k.prime - 1 ≤ beDecode b) :
    k.calcShared priv (.bytes b) = .error .illegalParameter := by
  unfold FFDH.calcShared FFDH.normalise
  by_cases hl : numBytes k.prime ≠ b.length
  · simp [hl]
  · have hl' : b.length = numBytes k.prime := by
      by_contra hc; exact hl (fun h => hc h.symm)
    have : ¬ (2 ≤ beDecode b ∧ beDecode b < k.prime - 1) := by omega
    simp [hl, this]

/-- … and a degenerate result is never returned: for a prime modulus every returned secret is
    the encoding of a value in `[2, p−2]` (not 0, not 1, not p−1) -/
theorem ffdh_result_nondegenerate (k : FFDH) (hp : k.prime.Prime) (priv : ℕ) (peer : Share) (S : Bytes)
    (h : k.calcShared priv peer = .ok S) : 2 ≤ beDecode S ∧ beDecode S ≤ k.prime - 2 := by
  obtain ⟨y, _, hy2, hyp, hs1, hsp, hS⟩ := calcShared_ok k priv peer S h
  have hp0 : 0 < k.prime := hp.pos
  have hlt : y ^ priv % k.prime < k.prime := Nat.mod_lt _ hp0
  rw [hS, decode_shared k _ hlt]
  have hne0 : y ^ priv % k.prime ≠ 0 := by
    intro h0
    have hd : k.prime ∣ y ^ priv := Nat.dvd_of_mod_eq_zero h0
    have := Nat.le_of_dvd (by omega) (hp.dvd_of_dvd_pow hd)
    omega
  omega

/-- the two guards overlap on the shares 1 and p−1: `(p−1)^a mod p` is always 1 or p−1 (and `1^a = 1`),
    so such a share would be refused by the result check alone.  (Consequence for self-testing:
    weakening only the range check at 1 or p−1 does not change `calc_shared_key`'s behaviour.) -/
theorem ffdh_order_two_share_degenerate (p a : ℕ) (hp : 2 < p) :
    (p - 1) ^ a % p = 1 ∨ (p - 1) ^ a % p = p - 1 := by
  induction a with
  | zero => left; rw [Nat.pow_zero]; exact Nat.mod_eq_of_lt (by omega)
  | succ a ih =>
    rw [Nat.pow_succ, Nat.mul_mod]
    have hm : (p - 1) % p = p - 1 := Nat.mod_eq_of_lt (by omega)
    rcases ih with h | h
    · right; rw [h, hm, Nat.one_mul, hm]
    · left
      rw [h, hm]
      obtain ⟨k, rfl⟩ : ∃ k, p = k + 3 := ⟨p - 3, by omega⟩
      have e : k + 3 - 1 = k + 2 := by omega
      have : (k + 3 - 1) * (k + 3 - 1) = (k + 3) * (k + 1) + 1 := by
        rw [e]; ring
      rw [this, Nat.mul_add_mod]
      exact Nat.mod_eq_of_lt (by omega)


/-- our own public value is never 1 or p−1 -/
theorem ffdh_public_nondegenerate (k : FFDH) (hv : k.Valid) (a : ℕ) (Y : Share)
    (h : k.calcPublic a = .ok Y) :
    k.generator ^ a % k.prime ≠ 1 ∧ k.generator ^ a % k.prime ≠ k.prime - 1 ∧
    k.normalise Y = .ok (k.generator ^ a % k.prime) := by
  refine ⟨?_, ?_, normalise_calcPublic k hv a Y h⟩ <;>
  · intro hc
    unfold FFDH.calcPublic at h
    simp [powMod_eq, hc] at h

example : FFDH.calcShared ⟨5, 23, false⟩ 6 (.int 22) = .error .illegalParameter ∧
    FFDH.calcShared ⟨5, 23, true⟩ 6 (.bytes [0, 5]) = .error .illegalParameter ∧
    FFDH.calcShared ⟨5, 23, false⟩ 11 (.int 2) = .error .illegalParameter := by decide

/-- **ECDH glue (X25519 / X448).**  `calc_shared_key` returns a value only for a share of exactly
    the group's length, and only if the function's result is not all-zero. -/
theorem ecdh_x_accepts_iff (size : ℕ) (fn : Bytes → Bytes → Bytes) (priv peer s : Bytes) :
    xShared size fn priv peer = .ok s ↔
      peer.length = size ∧ s = fn priv peer ∧ ∃ i ∈ s, i ≠ 0 := by
  unfold xShared
  by_cases hl : peer.length ≠ size
  · rw [if_pos hl]
    constructor
    · intro h; cases h
    · rintro ⟨h, _⟩; exact absurd h hl
  · have hl' : peer.length = size := by simpa using hl
    rw [if_neg hl]
    simp only []
    cases hz : nonZeroCheck (fn priv peer) with
    | error e =>
      simp only [hl', true_and]
      constructor
      · intro h; cases h
      · rintro ⟨rfl, hnz⟩
        have := (nonZeroCheck_ok_iff _).mpr hnz
        rw [hz] at this; cases this
    | ok u =>
      simp only [Except.ok.injEq, hl', true_and]
      constructor
      · rintro rfl; exact ⟨rfl, (nonZeroCheck_ok_iff _).mp hz⟩
      · rintro ⟨rfl, _⟩; rfl

theorem ecdh_x_rejects_wrong_length (size : ℕ) (fn : Bytes → Bytes → Bytes) (priv peer : Bytes)
    (h : peer.length ≠ size) : xShared size fn priv peer = .error .illegalParameter := by
  unfold xShared; simp [h]

theorem ecdh_x_rejects_all_zero (size : ℕ) (fn : Bytes → Bytes → Bytes) (priv peer : Bytes)
    (h : ∀ i ∈ fn priv peer, i = 0) (hl : peer.length = size) :
    xShared size fn priv peer = .error .illegalParameter := by
  unfold xShared nonZeroCheck
  have hz := (foldl_or_eq_zero (fn priv peer) 0).mpr ⟨rfl, h⟩
  simp [hl, hz]

/-- **ECDH glue (NIST / brainpool).**  A share python-ecdsa cannot decode to a point on the curve
    (`MalformedPointError`) is refused with illegal_parameter, an empty format list with
    decode_error; otherwise the x coordinate of the product is returned on the curve's size. -/
theorem ecdh_nist_decision (decode : Bytes → PointDecode) (mulX : ℕ → ℕ → ℕ → ℕ) (sz priv : ℕ) (peer : Bytes) :
    (decode peer = .malformed → nistShared decode mulX sz priv peer = .error .illegalParameter) ∧
    (decode peer = .noFormats → nistShared decode mulX sz priv peer = .error .decodeError) ∧
    (∀ x y, decode peer = .point x y →
      nistShared decode mulX sz priv peer = .ok (beEncode sz (mulX x y priv))) := by
  unfold nistShared
  refine ⟨fun h => by rw [h], fun h => by rw [h], fun x y h => by rw [h]⟩

end Tls.Dh

/-! ## 5. Sign-then-verify guards on the send paths -/
namespace Tls.SignGuard
open Tls Tls.Rsa

/-- **emitted_signature_verifies.**  On every guarded send path — whatever the private operation
    returned (`s.sign` is arbitrary: it may be the result of a computation fault) — a signature is
    handed to the record layer only if it verifies under the signer's own verification function on
    the very bytes that were signed; otherwise the path aborts and nothing is sent. -/
theorem emitted_signature_verifies (checkEmpty : Bool) (s : Signer) (bytes sig : Bytes)
    (h : emit checkEmpty s bytes = .send sig) : sig = s.sign bytes ∧ s.verify sig bytes = true := by
  unfold emit at h
  simp only at h
  split at h
  · cases h
  · split at h
    · cases h
    · rename_i hv
      cases h
      exact ⟨rfl, by simpa using hv⟩

/-- the five concrete sites are instances of the guard -/
theorem emitted_signature_verifies_sites (s : Signer) (bytes sig : Bytes) (baselen : ℕ) :
    (signServerKeyExchange s bytes = .send sig → s.verify sig bytes = true) ∧
    (signServerKeyExchangeEcdsa s bytes baselen = .send sig → s.verify sig (bytes.take baselen) = true) ∧
    (signServerKeyExchangeEddsa s bytes = .send sig → s.verify sig bytes = true) ∧
    (makeCertificateVerify s bytes = .send sig → s.verify sig bytes = true) ∧
    (tls13CertificateVerify s bytes = .send sig → s.verify sig bytes = true) :=
  ⟨fun h => (emitted_signature_verifies _ _ _ _ h).2, fun h => (emitted_signature_verifies _ _ _ _ h).2,
   fun h => (emitted_signature_verifies _ _ _ _ h).2, fun h => (emitted_signature_verifies _ _ _ _ h).2,
   fun h => (emitted_signature_verifies _ _ _ _ h).2⟩

/-- a failing verification or (ServerKeyExchange) an empty signature aborts -/
theorem faulty_signature_aborts (checkEmpty : Bool) (s : Signer) (bytes : Bytes)
    (h : s.verify (s.sign bytes) bytes = false) : emit checkEmpty s bytes = .abort := by
  unfold emit; simp [h]

/-- a correct signer is not hindered by the guard -/
theorem correct_signature_sent (s : Signer) (bytes : Bytes) (h : s.verify (s.sign bytes) bytes = true)
    (hne : (s.sign bytes).isEmpty = false) (checkEmpty : Bool) :
    emit checkEmpty s bytes = .send (s.sign bytes) := by
  unfold emit; simp [h, hne]

/-- combined with the RSA results: with a well-formed RSA key and PKCS#1 v1.5 verification as the
    guard, whatever a (faulty) private operation returns, the only string that can be emitted for
    an encoded message is the correct signature `EM^d mod n` -/
theorem emitted_rsa_signature_is_correct {k : PrivKey} (vk : ValidKey k) (hd : k.d ≠ 0)
    (faultySign : Bytes → Bytes) (bytes sig : Bytes) (hfit : bytes.length + 3 ≤ numBytes k.pub.n)
    (h : emit false { sign := faultySign, verify := fun s b => rawPkcs1Verify k.pub s b } bytes = .send sig) :
    ∃ st', rawPkcs1Sign k ⟨0, 0⟩ 1 bytes = .ok (sig, st') := by
  obtain ⟨_, hv⟩ := emitted_signature_verifies _ _ _ _ h
  have hn := vk.n_gt_one
  have h1 : invMod 1 k.pub.n * 1 % k.pub.n = 1 := by
    have : invMod 1 k.pub.n = 1 := by
      unfold invMod
      have e1 : invModLoop (1 + 1) 1 k.pub.n 1 0 = some (1, 1) := by
        simp [invModLoop, Nat.mod_one]
      rw [e1]
      simp only [if_true]
      have : ((1 : ℤ) % (k.pub.n : ℤ)) = 1 := Int.emod_eq_of_lt (by omega) (by exact_mod_cast hn)
      rw [this]; rfl
    rw [this, Nat.mul_one, Nat.mod_eq_of_lt hn]
  obtain ⟨sig0, st', hok, _, hv0⟩ := pkcs1_sign_verify vk (st := ⟨0, 0⟩) (rnd := 1) (Or.inl rfl) (fun _ => h1) hd bytes hfit
  have : sig = sig0 := pkcs1_signature_unique vk sig sig0 bytes hv hv0
  exact ⟨st', by rw [this]; exact hok⟩

example : emit true { sign := fun _ => [1, 2], verify := fun _ _ => false } [7] = .abort := by decide
example : emit true { sign := fun _ => [1, 2], verify := fun s _ => s == [1, 2] } [7] = .send [1, 2] := by decide

end Tls.SignGuard

/-! ## 6. DSA (`python_dsakey.py`) -/
namespace Tls.Dsa
open Tls Tls.Rsa

/-- **dsa_verify_sign.**  For well-formed domain parameters (`q` prime, `g^q ≡ 1 mod p`,
    `y = g^x mod p`) and any nonce `0 < k < q`, the pair `(r, s)` that `sign` encodes is accepted by
    `verify` for the same data — provided `r ≠ 0` and `s ≠ 0` (the code does not retry on a zero
    `r` or `s`; `verify` would then refuse its own signature). The digest is truncated to the bit
    length of `q` exactly as the code does, identically on both sides. -/
theorem dsa_verify_sign {key : Key} (vk : ValidKey key) (k : ℕ) (hk0 : 0 < k) (hkq : k < key.q)
    (data : Bytes) (hr : (signRS key k data).1 ≠ 0) (hs : (signRS key k data).2 ≠ 0) :
    verifyRS key (signRS key k data).1 (signRS key k data).2 data = true :=
  verify_sign vk k hk0 hkq data hr hs

/-- **dsa_verify_accept_iff.**  For well-formed parameters `verify` accepts `(r, s)` exactly when
    both lie in `(0, q)` and `r = (g^k mod p) mod q` for the nonce `k = s⁻¹·(z + x·r) mod q` that the
    signing equation determines (`z` = truncated digest, `x` = private key): it accepts the signatures
    of this key on this digest and nothing else. -/
theorem dsa_verify_accept_iff {key : Key} (vk : ValidKey key) (r s : ℕ) (data : Bytes) :
    verifyRS key r s data = true ↔
      0 < r ∧ r < key.q ∧ 0 < s ∧ s < key.q ∧
      r = key.g ^ (invMod s key.q * (digestOf key.q data + key.x * r) % key.q) % key.p % key.q :=
  verifyRS_iff vk r s data

/-- byte level (python_dsakey.verify with the python-ecdsa DER parser transliterated in
    TlsModel/Der.lean): acceptance implies a DER pair whose integers pass the check above; the
    empty string and anything `remove_sequence` / `remove_integer` refuse are invalid signatures -/
theorem dsa_verify_bytes_accept (key : Key) (sig data : Bytes) (h : verify key sig data = true) :
    ∃ body r rest1 s, Der.removeSequence sig = .ok (body, []) ∧ Der.removeInteger body = .ok (r, rest1) ∧
      Der.removeInteger rest1 = .ok (s, []) ∧ verifyRS key r s data = true := by
  unfold verify at h
  split at h
  · cases h
  · split at h
    · cases h
    · rename_i body rest hseq
      split at h
      · cases h
      · rename_i hrest
        split at h
        · cases h
        · rename_i r rest1 hr
          split at h
          · cases h
          · rename_i s rest2 hs
            split at h
            · cases h
            · rename_i hrest2
              have e1 : rest = [] := by simpa using hrest
              have e2 : rest2 = [] := by simpa using hrest2
              subst e1; subst e2
              exact ⟨body, r, rest1, s, hseq, hr, hs, h⟩

def exDsaPre : Key := { p := 23, q := 11, g := 4, x := 7, y := 8 }

/-- **dsa_sign_verify_bytes.**  Byte level, DER included: what `sign` returns (the DER
    `SEQUENCE { INTEGER r, INTEGER s }` of python-ecdsa, transliterated) is parsed back to the same pair
    and accepted by `verify` — for well-formed parameters with q of at most 480 bits, a nonce in
    (0, q) and r, s ≠ 0. -/
theorem dsa_sign_verify_bytes {key : Key} (vk : ValidKey key) (hq : numBytes key.q ≤ 60)
    (k : ℕ) (hk0 : 0 < k) (hkq : k < key.q) (data : Bytes)
    (hr : (signRS key k data).1 ≠ 0) (hs : (signRS key k data).2 ≠ 0) :
    verify key (sign key k data) data = true := by
  have hq0 : 0 < key.q := vk.hq.pos
  have hrq : (signRS key k data).1 < key.q := by unfold signRS; exact Nat.mod_lt _ hq0
  have hsq : (signRS key k data).2 < key.q := by unfold signRS; exact Nat.mod_lt _ hq0
  rw [verify_sign_bytes key k data hq hrq hsq]
  exact verify_sign vk k hk0 hkq data hr hs

/-- DER round trip of the two helpers `sign` / `verify` rely on (short-form lengths) -/
theorem der_integer_roundtrip (r : ℕ) (tail : Bytes) (h : numBytes r + 2 < 0x80) :
    Der.removeInteger (Der.encodeInteger r ++ tail) = .ok (r, tail) :=
  Der.removeInteger_encodeInteger r tail h

example : verify exDsaPre (sign exDsaPre 3 [0x55]) [0x55] = true := by decide

/-- `verify` refuses `r` or `s` outside `(0, q)` -/
theorem dsa_rejects_out_of_range (key : Key) (r s : ℕ) (data : Bytes)
    (h : r = 0 ∨ key.q ≤ r ∨ s = 0 ∨ key.q ≤ s) : verifyRS key r s data = false := by
  unfold verifyRS
  have : ¬ (0 < r ∧ r < key.q ∧ 0 < s ∧ s < key.q) := by omega
  simp [this]

/-- `invMod` (extended Euclid of cryptomath.py) returns the inverse whenever one exists -/
theorem invMod_inverse (a b : ℕ) (hb : 1 < b) (hc : Nat.Coprime a b) : invMod a b * a % b = 1 :=
  invMod_mul_self a b hb hc

def exDsa : Key := { p := 23, q := 11, g := 4, x := 7, y := 8 }

theorem exDsa_valid : ValidKey exDsa := ⟨by norm_num [exDsa], by decide, by decide, by decide⟩

example : signRS exDsa 3 [0x55] = (7, 7) ∧ verifyRS exDsa 7 7 [0x55] = true ∧ verifyRS exDsa 7 3 [0x55] = false := by
  decide

end Tls.Dsa

/-! ## 7. X25519 / X448 (tlslite/utils/x25519.py): the Montgomery ladder

  What is proved: the ladder as written (cswap with deferred swap flag, the a24 constants, clamping,
  masking, the final inversion) equals the textbook Montgomery ladder whose step is exactly
  Montgomery's x-only doubling / differential addition for  y² = x³ + (4·a24+2)·x² + x ; the result
  does not depend on the representative of u; the neutral element comes out as the all-zero string
  and is refused by `calc_shared_key`.
  What is NOT proved is stated at `x25519_scalar_mult_partial`. -/
namespace Tls.X25519
open Tls Tls.Rsa

/-- **cswap correctness**: exchanges its arguments iff the flag is non-zero; applying it twice with
    the same flag is the identity -/
theorem cswap_correct (sw : ℕ) (a b : ℤ) :
    cswap sw a b = (if sw ≠ 0 then (b, a) else (a, b)) ∧
    cswap sw (cswap sw a b).1 (cswap sw a b).2 = (a, b) :=
  ⟨cswap_spec sw a b, cswap_involutive sw a b⟩

/-- **swap bookkeeping**: with a 0/1 flag, one loop iteration of the code (`swap ^= k_t`, two
    cswaps, arithmetic, `swap = k_t`) acts on the logical pair (registers after the pending swap)
    exactly as the textbook ladder step for bit `k_t`, and leaves a 0/1 flag -/
theorem ladder_swap_bookkeeping (k : ℕ) (x1 a24 p : ℤ) (s : Ladder) (t : ℕ) (hs : s.swap ≤ 1) :
    (ladderStep k x1 a24 p s t).logical = pureStep x1 a24 p ((k >>> t) &&& 1) s.logical ∧
    (ladderStep k x1 a24 p s t).swap ≤ 1 :=
  ladderStep_logical k x1 a24 p s t hs

/-- **ladder = textbook ladder** for every scalar, u, bit count, a24 and modulus: the output of
    `_x25519_generic` is `X·Z^(p−2) mod p` of the first point of the swap-free ladder started at
    ((1 : 0), (u : 1)) -/
theorem x25519_ladder_eq_textbook (k u bits a24 p : ℕ) :
    x25519Generic k u bits a24 p =
      leEncode (divceil bits 8)
        (((pureLadder k u bits a24 p).x2.toNat * powMod (pureLadder k u bits a24 p).z2.toNat (p - 2) p) % p) :=
  x25519Generic_eq_pureLadder k u bits a24 p

example : pureLadder 5 9 3 121665 (2 ^ 255 - 19) =
    ((List.range 3).reverse).foldl
      (fun P t => pureStep 9 121665 ((2 ^ 255 - 19 : ℕ) : ℤ) ((5 >>> t) &&& 1) P) ⟨1, 0, 9, 1⟩ := rfl

/-- **the step is Montgomery's XZ arithmetic** (in `ZMod p`, A = 4·a24 + 2), and the constants of
    RFC 7748 are the curves' (A − 2)/4 -/
theorem x25519_step_is_montgomery_xz (p : ℕ) (x1 a24 x2 z2 x3 z3 : ℤ) :
    let r := core x1 a24 p x2 z2 x3 z3
    let X2 : ZMod p := x2; let Z2 : ZMod p := z2; let X3 : ZMod p := x3; let Z3 : ZMod p := z3
    let A : ZMod p := 4 * (a24 : ZMod p) + 2
    (r.x2 : ZMod p) = (X2 ^ 2 - Z2 ^ 2) ^ 2 ∧
    (r.z2 : ZMod p) = 4 * X2 * Z2 * (X2 ^ 2 + A * X2 * Z2 + Z2 ^ 2) ∧
    (r.x3 : ZMod p) = 4 * (X2 * X3 - Z2 * Z3) ^ 2 ∧
    (r.z3 : ZMod p) = 4 * (x1 : ZMod p) * (X2 * Z3 - Z2 * X3) ^ 2 :=
  core_is_montgomery p x1 a24 x2 z2 x3 z3

theorem x25519_a24_constants : 4 * 121665 + 2 = 486662 ∧ 4 * 39081 + 2 = 156326 := a24_constants

/-- **result independent of the representative of u modulo p** (a non-canonical u ≥ p behaves as
    its reduction) -/
theorem x25519_result_independent_of_representative (k u u' bits a24 p : ℕ)
    (h : (u : ℤ) ≡ (u' : ℤ) [ZMOD (p : ℤ)]) :
    x25519Generic k u bits a24 p = x25519Generic k u' bits a24 p :=
  x25519Generic_repr_indep k u u' bits a24 p h

example : x25519Generic 8 (2 ^ 255 - 19 + 9) 255 121665 (2 ^ 255 - 19) = x25519Generic 8 9 255 121665 (2 ^ 255 - 19) :=
  x25519_result_independent_of_representative _ _ _ _ _ _ (by
    show ((2 ^ 255 - 19 + 9 : ℕ) : ℤ) % _ = ((9 : ℕ) : ℤ) % _
    norm_num)

/-- **clamping** (`decodeScalar22519` on 32 bytes): a multiple of the cofactor 8 in [2^254, 2^255) -/
theorem x25519_clamping (k : Bytes) (h : k.length = 32) :
    ∃ n, decodeScalar25519 k = .ok n ∧ n % 8 = 0 ∧ 2 ^ 254 ≤ n ∧ n < 2 ^ 255 :=
  decodeScalar25519_clamped k h

/-- **masking** (`decodeUCoordinate` on 32 bytes): bit 255 of u is ignored -/
theorem x25519_masks_top_bit (u : Bytes) (h : u.length = 32) :
    decodeUCoordinate u 255 = .ok (leDecode u % 2 ^ 255) :=
  decodeUCoordinate_masks_top_bit u h

/-- **final inversion**: for a prime modulus and Z ≢ 0 the returned value is the affine x = X/Z -/
theorem x25519_final_inversion {p : ℕ} (hp : p.Prime) (x z : ℕ) (hz : ¬ p ∣ z) :
    ((x * powMod z (p - 2) p) % p) * z ≡ x [MOD p] := by
  haveI : Fact p.Prime := ⟨hp⟩
  rw [powMod_eq]
  rw [← ZMod.natCast_eq_natCast_iff]
  push_cast
  have hz0 : (z : ZMod p) ≠ 0 := by
    rwa [Ne, ZMod.natCast_eq_zero_iff]
  have h1 : (z : ZMod p) ^ (p - 2) * (z : ZMod p) = 1 := by
    rw [← pow_succ]
    have : p - 2 + 1 = p - 1 := by have := hp.two_le; omega
    rw [this]; exact ZMod.pow_card_sub_one_eq_one hz0
  rw [ZMod.natCast_mod]
  push_cast
  rw [mul_assoc, ZMod.natCast_mod]
  push_cast
  rw [h1, mul_one]

/-- **the neutral element is refused**: if the ladder ends with Z = 0 (what every small-order input
    gives with a clamped scalar) the output is all-zero and `calc_shared_key` raises
    TLSIllegalParameterException instead of returning it -/
theorem x25519_infinity_is_all_zero_and_refused (k u bits a24 p : ℕ) (hp : 2 < p)
    (hz : (pureLadder k u bits a24 p).z2 = 0) (size : ℕ) (priv peer : Bytes)
    (fn : Bytes → Bytes → Bytes) (hfn : fn priv peer = x25519Generic k u bits a24 p) :
    (∀ i ∈ x25519Generic k u bits a24 p, i = 0) ∧
    Tls.Dh.xShared size fn priv peer = .error .illegalParameter := by
  have hz0 := x25519Generic_zero_of_z_zero k u bits a24 p hp hz
  refine ⟨hz0, ?_⟩
  by_cases hl : peer.length = size
  · exact Tls.Dh.ecdh_x_rejects_all_zero size fn priv peer (by rw [hfn]; exact hz0) hl
  · exact Tls.Dh.ecdh_x_rejects_wrong_length size fn priv peer hl

/-- u = 0 (a point of order 2... the all-zero share) ends with Z = 0 for every scalar: kernel-checked
    instance of the hypothesis above for the clamped scalar 2^254 -/
example : (pureLadder (2 ^ 254) 0 255 121665 (2 ^ 255 - 19)).z2 = 0 := by decide +kernel

/-- **x25519_scalar_mult_partial.**
    FULL STATEMENT (not closed): for the Montgomery curve E_A : y² = x³ + A x² + x over F_p
    (A = 486662, p = 2^255 − 19; resp. A = 156326, p = 2^448 − 2^224 − 1), every point P of E_A or its
    quadratic twist with x(P) = u mod p and every scalar k < 2^bits:
        x25519Generic k u bits a24 p = little-endian encoding of x([k]P)   (0 for the neutral element)
    and hence  x25519 a (x25519 b G) = x25519 b (x25519 a G).
    PROVED (this theorem): the output is X·Z^(p−2) of the first point of the swap-free ladder, and
    every ladder step maps ((X₂:Z₂),(X₃:Z₃)) to (xDBL(X₂:Z₂), xADD((X₂:Z₂),(X₃:Z₃); x1)) given by
    Montgomery's formulas with A = 4·a24+2; together with `x25519_final_inversion` (X·Z^(p−2) = X/Z for
    prime p), `x25519_clamping`, `x25519_masks_top_bit`, `x25519_result_independent_of_representative`.
    MISSING: (1) the group law of Montgomery curves (not in Mathlib) and Montgomery's theorem that
    xDBL / xADD compute x(2P) and x(P+Q) from x(P), x(Q), x(P−Q); (2) from it, the ladder invariant
    (R1 − R0 = P, R0 = [k >> t]P); (3) primality of 2^255 − 19 and 2^448 − 2^224 − 1 inside Lean.
    The gap is covered only by correspondence with the real functions, RFC 7748 vectors (1 and
    1000 iterations) and `openssl pkeyutl -derive`. -/
theorem x25519_scalar_mult_partial (k u bits a24 p : ℕ) :
    x25519Generic k u bits a24 p =
      leEncode (divceil bits 8)
        (((pureLadder k u bits a24 p).x2.toNat * powMod (pureLadder k u bits a24 p).z2.toNat (p - 2) p) % p) ∧
    ∀ (bit : ℕ) (P : Pair), bit ≤ 1 →
      pureStep (u : ℤ) (a24 : ℤ) (p : ℤ) bit P =
        if bit = 0 then core (u : ℤ) (a24 : ℤ) (p : ℤ) P.x2 P.z2 P.x3 P.z3
        else (let r := core (u : ℤ) (a24 : ℤ) (p : ℤ) P.x3 P.z3 P.x2 P.z2
              { x2 := r.x3, z2 := r.z3, x3 := r.x2, z3 := r.z2 }) := by
  refine ⟨x25519Generic_eq_pureLadder k u bits a24 p, ?_⟩
  intro bit P hb
  unfold pureStep
  rcases Nat.le_one_iff_eq_zero_or_eq_one.mp hb with rfl | rfl <;> simp

/-- PARTIAL (what is proved about the ladder): the output has the fixed length of the group.
    NOT proved: that `x25519Generic` computes scalar multiplication on the Montgomery curve, hence
    that `x25519 a (x25519 b 9) = x25519 b (x25519 a 9)`; this is tied only by correspondence with
    tlslite/utils/x25519.py, RFC 7748 vectors and the openssl cross-check in the harness. -/
theorem x25519_output_length_partial (k u out : Bytes) :
    (x25519 k u = .ok out → out.length = 32) ∧ (x448 k u = .ok out → out.length = 56) := by
  constructor
  · intro h
    unfold x25519 at h
    split at h
    · cases h
    · split at h
      · cases h
      · cases h
        simp [x25519Generic, leEncode, beEncode_length, divceil]
  · intro h
    unfold x448 at h
    split at h
    · cases h
    · split at h
      · cases h
      · cases h
        simp [x25519Generic, leEncode, beEncode_length, divceil]

/-- PARTIAL: the model reproduces the first test vector of RFC 7748 §5.2 (by kernel evaluation) -/
theorem x25519_rfc7748_vector_partial :
    (x25519
      [0xa5, 0x46, 0xe3, 0x6b, 0xf0, 0x52, 0x7c, 0x9d, 0x3b, 0x16, 0x15, 0x4b, 0x82, 0x46, 0x5e, 0xdd,
       0x62, 0x14, 0x4c, 0x0a, 0xc1, 0xfc, 0x5a, 0x18, 0x50, 0x6a, 0x22, 0x44, 0xba, 0x44, 0x9a, 0xc4]
      [0xe6, 0xdb, 0x68, 0x67, 0x58, 0x30, 0x30, 0xdb, 0x35, 0x94, 0xc1, 0xa4, 0x24, 0xb1, 0x5f, 0x7c,
       0x72, 0x66, 0x24, 0xec, 0x26, 0xb3, 0x35, 0x3b, 0x10, 0xa9, 0x03, 0xa6, 0xd0, 0xab, 0x1c, 0x4c]).toOption
    = some
      [0xc3, 0xda, 0x55, 0x37, 0x9d, 0xe9, 0xc6, 0x90, 0x8e, 0x94, 0xea, 0x4d, 0xf2, 0x8d, 0x08, 0x4f,
       0x32, 0xec, 0xcf, 0x03, 0x49, 0x1c, 0x71, 0xf7, 0x54, 0xb4, 0x07, 0x55, 0x77, 0xa2, 0x85, 0x52] := by
  decide +kernel

end Tls.X25519

/-! ## 8. Regenerated structure of the signing code (translate/gen_signsites.py, every run)

  The tables below are read from the AST of the tree under check; the theorems are decided by the
  kernel over them.  An unknown shape poisons the table (shape ≠ "sign-then-verify", abort = unknown,
  salt = "other"), which makes the obligations false. -/
namespace Tls.Gen.SignSites

/-- the send paths named by the property (anchors) -/
def anchoredSites : List (String × String) := [
  ("tlslite/keyexchange.py", "signServerKeyExchange"), ("tlslite/keyexchange.py", "_tls12_signSKE"),
  ("tlslite/keyexchange.py", "_tls12_sign_ecdsa_SKE"), ("tlslite/keyexchange.py", "_tls12_sign_dsa_SKE"),
  ("tlslite/keyexchange.py", "_tls12_sign_eddsa_ske"), ("tlslite/keyexchange.py", "makeCertificateVerify"),
  ("tlslite/tlsconnection.py", "_clientTLS13Handshake"), ("tlslite/tlsconnection.py", "_serverTLS13Handshake"),
  ("tlslite/tlsrecordlayer.py", "_handle_pha")]

def Site.guarded (s : Site) : Bool :=
  s.shape == "sign-then-verify" && s.sameObject && s.sigArg == s.target && s.abort != .unknown

/-- **every_private_op_guarded.**  Every statement outside tlslite/utils that calls `sign`,
    `hashAndSign` or `sig_func` binds the result and is followed — with at most the emptiness test in
    between — by `if not <same key>.verify/hashAndVerify/ver_func(<that result>, …)` whose body raises
    TLSInternalError or sends internal_error; and every path the property names is among them. -/
theorem every_private_op_guarded :
    translatorProblems = [] ∧ signSites.all Site.guarded = true ∧
    anchoredSites.all (fun a => signSites.any (fun s => s.file == a.1 && s.func == a.2)) = true := by
  decide +kernel

/-- **sign_and_verify_use_same_params.**  At every site the guard verifies the very bytes that were
    signed, with the same padding / hash / salt-length arguments wherever both calls pass them; and
    wherever `sig_func` is bound, `ver_func` is bound to the matching method of the same object. -/
theorem sign_and_verify_use_same_params :
    signSites.all (fun s => s.dataSign == s.dataVerify && s.dataSign != "" &&
        s.common.all (fun c => c.2.1 == c.2.2)) = true ∧
    funcPairs.all (fun r =>
        let (_, _, so, sm, vo, vm) := r
        (so == "<missing>" && sm == "<missing>" && (vm == "verify" || vm == "hashAndVerify")) ||
        (so == vo && ((sm == "sign" && vm == "verify") || (sm == "hashAndSign" && vm == "hashAndVerify")))) = true := by
  decide +kernel

/-- the emptiness test is present exactly on the ServerKeyExchange paths: the `checkEmpty` flag of
    the guard model (`Tls.SignGuard.emit`) is the code's -/
theorem sign_sites_match_guard_model :
    signSites.all (fun s => s.emptyCheck == (s.file == "tlslite/keyexchange.py" && s.func != "makeCertificateVerify")) = true := by
  decide +kernel

/-- **pss_params_per_scheme.**  Wherever a salt length is chosen (signing and verifying code alike):
    padding taken from `SignatureScheme.getPadding(x)` comes with hash `SignatureScheme.getHash(x)` of
    the same `x` and salt length = digest size of that hash (RFC 8446 §4.2.3); a literal padding is
    'pkcs1' with salt 0; no padding comes with no salt; nothing else occurs. -/
theorem pss_params_per_scheme :
    paramChoices.all (fun c =>
      c.salt != "other" &&
      (c.padKind != "scheme" || (c.salt == "hashLength" && c.hashKind == "scheme" && c.hashArg == c.padArg)) &&
      (c.salt != "hashLength" || c.hashKind == "scheme") &&
      (c.padKind != "literal" || (c.padArg == "pkcs1" && c.salt == "zero")) &&
      (c.padKind != "none" || c.salt == "none") &&
      c.padKind != "other") = true := by
  decide +kernel

/-- the MGF1 hash and the hash of M' are the message hash `hAlg` in encode and in verify -/
theorem pss_mgf_hash_is_message_hash :
    pssHashUses.all (fun u => u.2.2.1 == "hAlg" && u.2.2.2) = true ∧
    pssHashUses.any (fun u => u.1 == "EMSA_PSS_encode" && u.2.1 == "MGF1") = true ∧
    pssHashUses.any (fun u => u.1 == "EMSA_PSS_verify" && u.2.1 == "MGF1") = true := by
  decide +kernel

/-- (key type, padding, hash) per scheme id, typed from RFC 5246 §7.4.1.4.1 / RFC 8446 §4.2.3 /
    RFC 8422 / RFC 8734; `getPadding` is only defined for RSA schemes (`!AssertionError` otherwise) -/
def rfcScheme (a b : ℕ) : Option (String × String × String) :=
  let h : ℕ → Option String := fun
    | 2 => some "sha1" | 3 => some "sha224" | 4 => some "sha256" | 5 => some "sha384" | 6 => some "sha512" | _ => none
  if a = 8 then
    match b with
    | 4 => some ("rsa", "pss", "sha256") | 5 => some ("rsa", "pss", "sha384") | 6 => some ("rsa", "pss", "sha512")
    | 9 => some ("rsa", "pss", "sha256") | 10 => some ("rsa", "pss", "sha384") | 11 => some ("rsa", "pss", "sha512")
    | 7 => some ("eddsa", "!AssertionError", "intrinsic") | 8 => some ("eddsa", "!AssertionError", "intrinsic")
    | 26 => some ("ecdsa", "!AssertionError", "sha256") | 27 => some ("ecdsa", "!AssertionError", "sha384")
    | 28 => some ("ecdsa", "!AssertionError", "sha512")
    | _ => none
  else
    match h a, b with
    | some hn, 1 => some ("rsa", "pkcs1", hn)
    | some hn, 2 => some ("dsa", "!AssertionError", hn)
    | some hn, 3 => some ("ecdsa", "!AssertionError", hn)
    | _, _ => none

/-- **scheme_table_matches_rfc.**  `SignatureScheme.getKeyType / getPadding / getHash` answer, for
    every scheme of the tree under check (ML-DSA aside), what the RFCs assign to its code point -/
theorem scheme_table_matches_rfc :
    schemeTable.all (fun r =>
      let (_, a, b, kt, pad, hsh) := r
      kt == "mldsa" || rfcScheme a b == some (kt, pad, hsh)) = true ∧
    18 ≤ schemeTable.length := by
  decide +kernel

end Tls.Gen.SignSites


/-! ## The regenerated RSA padding / signature code (Tls.RsaPad.Gen) computes the hand-written model

  `Tls.RsaPad.Gen.*` (TlsModel/Gen/RsaPad.lean) is re-translated on every run from the Python AST of
  tlslite/utils/rsakey.py by translate/gen_rsapad.py (16 functions, statement by statement, over the
  Python-runtime model TlsModel/PyInt.lean + PyExc.lean), `Tls.Cryptomath.Gen.*` from cryptomath.py /
  compat.py by translate/gen_cryptomath.py.  `padSelf k H f hasPriv salt` is the RSAKey object the hand
  model's key, hash and randomness describe (`_rawPublicKeyOp` = pow(c, e, n), `_rawPrivateKeyOp` = `f`,
  `secureHash(·, H.name)` = `H.hash`, `getRandomBytes` = `salt`).

  Proved for all inputs (`gen_*_eq`: the regenerated function equals `liftP` of the hand-model function):
  the cryptomath helpers, `_raw_public_key_op_bytes`, `_raw_private_key_op_bytes` (with the hand model's
  blinded CRT operation as `_rawPrivateKeyOp`), `_addPKCS1Padding` block type 1, the DigestInfo table,
  `addPKCS1Prefix` / `addPKCS1SHA1Prefix`, `_raw_pkcs1_verify`, `_raw_pkcs1_sign`, `MGF1`, `EMSA_PSS_encode`,
  `EMSA_PSS_verify`, `RSASSA_PSS_sign`, `RSASSA_PSS_verify`, `sign` and `verify` for "pkcs1" and "pss" (and
  UnknownRSAType otherwise), `hashAndSign`, `hashAndVerify`.  Hypotheses, stated in each theorem: hash output
  length > 0 (`HashOk.pos`), lower-case hash names (`.lower()` is applied by the source), `p, q ≠ 0` and
  `n > 0` on the signing side.  So `pkcs1_verify_iff_canonical` and `pss_verify_accept_iff` hold of the
  source text: `gen_pkcs1_verify_iff_canonical`, `gen_pss_verify_accept_iff`.
  Block type 2 of `_addPKCS1Padding` (random padding; `getRandomBytes` is a function of the requested length
  in the runtime model): `gen_addPKCS1Padding2_shape` (whatever it returns is `00 02 PS 00 bytes`, PS without
  zero byte and of the exact length, for every loop bound and every random source) and
  `gen_addPKCS1Padding2_returns_iff` (exactly when it returns).  The `…_vectors` theorems evaluate the
  regenerated functions on concrete input families in the kernel (non-vacuity of the hypotheses). -/
namespace Tls.Cm
/-! cryptomath.py / compat.py as the source has them now (same theorems as in Props/C11.lean): the
    `PyE.numBits` / `numBytes` / `bytesToNumber` / `numberToByteArray` definitions used by the
    regenerated RSA code are what the regenerated cryptomath functions compute, for every argument. -/
open Tls Tls.RsaDec Tls.PyE Tls.Cryptomath
set_option linter.unusedSimpArgs false

theorem gen_numBits_eq (x : Int) : Gen.numBits x = .ok (PyE.numBits x) := by
  simp only [Gen.numBits, Gen.bit_length, pure, bitLength_eq]; rfl

theorem gen_numBytes_eq (x : Int) : Gen.numBytes x = .ok (PyE.numBytes x) := by
  simp only [Gen.numBytes, Gen.byte_length, Gen.bit_length, bind, pure, bitLength_eq, ok_bind', fdiv7_eq]; rfl

theorem gen_bytesToNumber_eq (b : Bytes) :
    Gen.bytesToNumber b "big" = .ok (PyE.bytesToNumber b) ∧
    Gen.bytesToNumber b "little" = .ok (PyE.bytesToNumber b.reverse) := by
  constructor <;> rfl

theorem gen_int_to_bytes_eq (x k : Int) (order : String) :
    Gen.int_to_bytes x (some k) order = PyE.intToBytes x k order := by
  simp [Gen.int_to_bytes, bind, pure, optGet, Except.bind, Except.pure]

theorem gen_int_to_bytes_none (x : Int) (order : String) :
    Gen.int_to_bytes x none order = PyE.intToBytes x (if x ≠ 0 then PyE.numBytes x else 1) order := by
  have hbl : Gen.byte_length x = .ok (PyE.numBytes x) := gen_numBytes_eq x
  by_cases h : x = 0 <;> simp [Gen.int_to_bytes, bind, pure, optGet, Except.bind, Except.pure, hbl, h]

theorem gen_numberToByteArray_eq (x k : Int) :
    Gen.numberToByteArray x (some k) "big" = PyE.numberToByteArray x k := by
  unfold Gen.numberToByteArray
  have hbl : Gen.byte_length x = .ok (PyE.numBytes x) := gen_numBytes_eq x
  simp only [bind, pure, hbl, ok_bind', gen_int_to_bytes_eq]
  have hs : ((some k).isSome = true) = True := by simp
  have hg : optGet (some k) = (.ok k : PyE.M Int) := rfl
  have hd : (decide True = true) = True := by simp
  simp only [hs, hg, hd, if_true, ok_bind']
  unfold PyE.numberToByteArray
  have hL : PyE.numBytes x = ((Tls.RsaDec.numBytes x.natAbs : Nat) : Int) := rfl
  generalize hLn : Tls.RsaDec.numBytes x.natAbs = L at hL
  by_cases hx : x < 0
  · -- OverflowError on either path
    simp only [hx, if_true]
    have hL1 : 0 ≤ PyE.numBytes x := by rw [hL]; omega
    by_cases hk : k < PyE.numBytes x
    · simp only [hk, decide_true, if_true]
      rw [intToBytes_neg x _ "big" hx hL1 (Or.inl rfl)]; rfl
    · simp only [hk, decide_false, Bool.false_eq_true, if_false]
      rw [intToBytes_neg x k "big" hx (by omega) (Or.inl rfl)]
  · simp only [hx, if_false]
    obtain ⟨n, rfl⟩ : ∃ n : Nat, x = (n : Int) := ⟨x.toNat, by omega⟩
    have hn : ((n : Int)).natAbs = n := Int.natAbs_natCast n
    rw [hn] at hLn
    have hlt := lt_pow_numBytes n
    rw [hLn] at hlt
    simp only [Int.toNat_natCast]
    by_cases hk : k < PyE.numBytes (n : Int)
    · simp only [hk, decide_true, if_true]
      rw [hL, intToBytes_big n L hlt, ok_bind']
      by_cases hk0 : k < 0
      · -- nothing is left of the slice
        have : k.toNat = 0 := by omega
        rw [this]
        show Except.pure (Py.slice _ (some ((L : Int) - k)) (some (L : Int))) = _
        have e : (L : Int) - k = ((L + (-k).toNat : Nat) : Int) := by omega
        rw [e, slice_empty _ _ _ (by omega)]
        rfl
      · obtain ⟨kn, rfl⟩ : ∃ kn : Nat, k = (kn : Int) := ⟨k.toNat, by omega⟩
        rw [hL] at hk
        have hkl : kn ≤ L := by omega
        have e : (L : Int) - (kn : Int) = ((L - kn : Nat) : Int) := by omega
        show Except.pure (Py.slice _ (some ((L : Int) - (kn : Int))) (some (L : Int))) = _
        rw [e, Py.slice_from_to _ _ _ (by rw [beEncode_len]; omega) (by rw [beEncode_len] <;> exact Nat.le_refl _)]
        have hd2 := beEncode_drop n (L - kn) kn
        rw [show kn + (L - kn) = L by omega] at hd2
        rw [hd2, Int.toNat_natCast]
        have : L - (L - kn) = kn := by omega
        rw [this, List.take_of_length_le (by rw [beEncode_len] <;> exact Nat.le_refl _)]
        rfl
    · simp only [hk, decide_false, Bool.false_eq_true, if_false]
      rw [hL] at hk
      obtain ⟨kn, rfl⟩ : ∃ kn : Nat, k = (kn : Int) := ⟨k.toNat, by omega⟩
      have hkl : L ≤ kn := by omega
      rw [intToBytes_big n kn (Nat.lt_of_lt_of_le hlt (Nat.pow_le_pow_right (by decide) hkl)), Int.toNat_natCast]

theorem gen_numberToByteArray_none (n : Nat) :
    Gen.numberToByteArray (n : Int) none "big" =
      .ok (beEncode (if n ≠ 0 then Tls.RsaDec.numBytes n else 1) n) := by
  unfold Gen.numberToByteArray
  have hs : ((none : Option Int).isSome = true) = False := by simp
  simp only [hs, if_false, bind, pure, gen_int_to_bytes_none]
  by_cases h : n = 0
  · subst h; rfl
  · have h' : ((n : Int) ≠ 0) := by omega
    have hnb : PyE.numBytes (n : Int) = ((Tls.RsaDec.numBytes n : Nat) : Int) := numBytes_nat n
    simp only [h, h', ne_eq, not_false_eq_true, if_true, hnb]
    exact intToBytes_big n _ (lt_pow_numBytes n)

theorem gen_divceil_eq (a b : Nat) (hb : 0 < b) :
    Gen.divceil (a : Int) (b : Int) = .ok ((a / b + (if a % b = 0 then 0 else 1) : Nat) : Int) := by
  unfold Gen.divceil PyE.divmod PyE.intBool
  have hb' : ¬ ((b : Int) = 0) := by omega
  simp only [bind, pure, hb', if_false, ok_bind']
  rw [Int.fdiv_eq_ediv_of_nonneg _ (by omega), Int.fmod_eq_emod_of_nonneg _ (by omega)]
  show Except.ok _ = Except.ok _
  congr 1
  by_cases h : a % b = 0
  · have : ((a : Int) % (b : Int)) = 0 := by omega
    simp [h, this]
  · have : ¬ ((a : Int) % (b : Int)) = 0 := by omega
    simp [h, this]

end Tls.Cm

namespace Tls.Rsa
open Tls.Py Tls.RsaDec Tls.PyE Tls.RsaPad
set_option linter.unusedSimpArgs false

/-- the translators understood every statement (no poison was emitted) -/
theorem gen_translation_complete :
    RsaPad.Gen.translatorProblems = [] ∧ RsaPad.Gen.translated.all (fun x => x.2) = true ∧
      RsaPad.Gen.translated.length = 16 ∧
    Cryptomath.Gen.translatorProblems = [] ∧ Cryptomath.Gen.translated.all (fun x => x.2) = true ∧
      Cryptomath.Gen.translated.length = 8 := by
  decide

theorem gen_raw_public_eq (k : PubKey) (H : HashAlg) (f : Nat → Nat) (hp : Bool) (s c : Bytes) :
    Gen._raw_public_key_op_bytes (padSelf k H f hp s) c = liftP (rawPublicKeyOpBytes k c) := by
  unfold Gen._raw_public_key_op_bytes rawPublicKeyOpBytes
  simp only [bind, pure, padSelf_n, pyNumBytes, len_eq, bytesToNumber_eq, padSelf_pub, numberToByteArray_nat]
  by_cases h1 : c.length = numBytes k.n
  · have h1' : ((c.length : Int) = (numBytes k.n : Int)) := by omega
    by_cases h2 : beDecode c ≥ k.n
    · have h2' : ((beDecode c : Int) ≥ (k.n : Int)) := by omega
      simp [h1, h1', h2, h2', PyE.raise, liftP, Err.toE]
    · have h2' : ¬ ((beDecode c : Int) ≥ (k.n : Int)) := by omega
      simp [h1, h1', h2, h2', liftP]
  · have h1' : ¬ ((c.length : Int) = (numBytes k.n : Int)) := by omega
    simp [h1, h1', PyE.raise, liftP, Err.toE]

theorem gen_addPKCS1Padding1_eq (k : PubKey) (H : HashAlg) (f : Nat → Nat) (hp : Bool) (s bytes : Bytes) (fuel : Nat) :
    Gen._addPKCS1Padding fuel (padSelf k H f hp s) bytes 1 = .ok (addPKCS1Padding k.n bytes) := by
  unfold Gen._addPKCS1Padding addPKCS1Padding
  have h1 : (decide ((1 : Int) = 1) = true) = True := by simp
  simp only [bind, pure, h1, if_true, padSelf_n, pyNumBytes, len_eq, pad1_bytes, lift_some', ok_bind']
  rfl

theorem gen_prefix_table_eq : Gen.pkcs1Prefixes = Tls.Gen.Pkcs1.pkcs1Prefixes := by decide

theorem gen_addPKCS1Prefix_eq (data : Bytes) (name : String) :
    Gen.addPKCS1Prefix () data name = liftP (addPKCS1Prefix data name.toLower) := by
  unfold Gen.addPKCS1Prefix addPKCS1Prefix PyE.dictHas PyE.dictGet PyE.lower
  rw [gen_prefix_table_eq]
  cases h : List.lookup name.toLower Tls.Gen.Pkcs1.pkcs1Prefixes <;>
    simp [bind, pure, h, PyE.raise, liftP, Err.toE, Except.bind, Except.pure]

theorem gen_addPKCS1SHA1Prefix_eq (hb : Bytes) (withNULL : Bool) :
    Gen.addPKCS1SHA1Prefix () hb withNULL = .ok (addPKCS1SHA1Prefix hb withNULL) := by
  cases withNULL <;> rfl

theorem gen_raw_pkcs1_verify_eq (k : PubKey) (H : HashAlg) (f : Nat → Nat) (hp : Bool) (s sig bytes : Bytes) (fuel : Nat) :
    Gen._raw_pkcs1_verify fuel (padSelf k H f hp s) sig bytes = .ok (rawPkcs1Verify k sig bytes) := by
  unfold Gen._raw_pkcs1_verify rawPkcs1Verify
  simp only [bind, pure, gen_raw_public_eq, gen_addPKCS1Padding1_eq]
  cases h : rawPublicKeyOpBytes k sig with
  | error e =>
    have he : e = .valueError := by
      unfold rawPublicKeyOpBytes at h
      by_cases h1 : sig.length ≠ numBytes k.n
      · simp [h1] at h; exact h.symm
      · by_cases h2 : beDecode sig ≥ k.n
        · simp [h1, h2] at h; exact h.symm
        · simp [h1, h2] at h
    subst he
    rfl
  | ok cb =>
    simp [liftP, PyE.attempt, PyE.getSome, Except.bind, Except.pure]
    by_cases hc : cb = addPKCS1Padding k.n bytes <;> simp [hc]

theorem gen_verify_pkcs1_eq (k : PubKey) (H : HashAlg) (f : Nat → Nat) (hp : Bool) (s sig bytes : Bytes)
    (alg : Option String) (sl : Option Int) (sLen fuel : Nat)
    (hlow : ∀ a, alg = some a → a.toLower = a) :
    Gen.verify fuel (padSelf k H f hp s) sig bytes "pkcs1" alg sl =
      liftP (verify k sig bytes .pkcs1 alg H sLen) := by
  unfold Gen.verify verify
  simp only [bind, pure, padSelf_keyType, gen_addPKCS1SHA1Prefix_eq, gen_raw_pkcs1_verify_eq, gen_addPKCS1Prefix_eq,
    ok_bind']
  by_cases hpss : k.pssOnly = true
  · simp [hpss, liftP, Except.pure]
  · have hpss' : k.pssOnly = false := by simpa using hpss
    cases alg with
    | none => simp [hpss', liftP, Except.pure, Except.bind]
    | some a =>
      have ha := hlow a rfl
      by_cases hs : a = "sha1"
      · subst hs
        simp [hpss', liftP, Except.pure, Except.bind]
      · simp only [hpss', hs, ha]
        cases hpre : addPKCS1Prefix bytes a <;>
          simp [hpre, hs, liftP, Except.pure, Except.bind, PyE.optGet, gen_raw_pkcs1_verify_eq] <;>
          rw [ha, hpre]

theorem gen_MGF1_eq (k : PubKey) (H : HashAlg) (f : Nat → Nat) (hp : Bool) (s seed : Bytes) (maskLen : Nat)
    (hh : 0 < H.hLen) :
    Gen.MGF1 (padSelf k H f hp s) seed (maskLen : Int) H.name = liftP (mgf1 H seed maskLen) := by
  unfold Gen.MGF1 mgf1
  have h0 : ¬ H.hLen = 0 := by omega
  simp only [bind, pure, padSelf_digestSize, ok_bind', h0, if_false, Tls.Cm.gen_divceil_eq _ _ hh, ← divceil_def]
  by_cases hm : maskLen > 2 ^ 32 * H.hLen
  · have hm' : ((maskLen : Int) > 4294967296 * (H.hLen : Int)) := by
      have : (2 : Nat) ^ 32 = 4294967296 := by decide
      omega
    simp only [hm, hm', decide_true, if_true]
    rfl
  · have hm' : ¬ ((maskLen : Int) > 4294967296 * (H.hLen : Int)) := by
      have : (2 : Nat) ^ 32 = 4294967296 := by decide
      omega
    simp only [hm, hm', decide_false, Bool.false_eq_true, if_false]
    rw [forInL_range0 (divceil maskLen H.hLen) _ _
      (fun acc x => acc ++ H.hash (seed ++ beEncode 4 x)), ok_bind', slice_to]
    · rfl
    · intro x st
      rw [show (4 : Int) = ((4 : Nat) : Int) from rfl, numberToByteArray_nat, ok_bind', padSelf_hash]
      rfl

theorem gen_EMSA_PSS_verify_eq (k : PubKey) (H : HashAlg) (f : Nat → Nat) (hp : Bool) (s mHash em : Bytes)
    (emBits sLen : Nat) (hh : 0 < H.hLen) :
    Gen.EMSA_PSS_verify (padSelf k H f hp s) mHash em (emBits : Int) H.name (sLen : Int) =
      liftP ((emsaPssVerify H mHash em emBits sLen).map fun _ => true) := by
  unfold Gen.EMSA_PSS_verify emsaPssVerify
  simp only [bind, pure, padSelf_digestSize, ok_bind', show (8 : Int) = ((8 : Nat) : Int) from rfl,
    Tls.Cm.gen_divceil_eq _ 8 (by decide), ← divceil_def]
  have hb := divceil8_bounds emBits
  generalize divceil emBits 8 = emLen at hb ⊢
  obtain ⟨hb1, hb2⟩ := hb
  by_cases h1 : emLen < H.hLen + sLen + 2
  · have h1' : ((emLen : Int) < (H.hLen : Int) + (sLen : Int) + 2) := by omega
    simp only [h1, h1', decide_true, if_true]
    rfl
  · have h1' : ¬ ((emLen : Int) < (H.hLen : Int) + (sLen : Int) + 2) := by omega
    simp only [h1, h1', decide_false, Bool.false_eq_true, if_false]
    have ea : ((emLen : Int) - (H.hLen : Int) - 1) = ((emLen - H.hLen - 1 : Nat) : Int) := by omega
    have eb : ((emLen - H.hLen - 1 : Nat) : Int) + (H.hLen : Int) = ((emLen - H.hLen - 1 + H.hLen : Nat) : Int) := by omega
    have ec : (((8 : Nat) : Int) - (((8 : Nat) : Int) * (emLen : Int) - (emBits : Int))) = ((8 - (8 * emLen - emBits) : Nat) : Int) := by omega
    have ec' : (((8 : Nat) : Int) - ((emLen : Int) * ((8 : Nat) : Int) - (emBits : Int))) = ((8 - (emLen * 8 - emBits) : Nat) : Int) := by omega
    have ed : ((emLen : Int) - (H.hLen : Int) - (sLen : Int) - 2) = ((emLen - H.hLen - sLen - 2 : Nat) : Int) := by omega
    simp only [ea, eb, ec, ec', ed, getItemE_last, slice_0_to, slice_drop_take, lshift_one_nat, lift_some', ok_bind',
      shiftLeft_one_sub, band_bnot_255, gen_MGF1_eq _ _ _ _ _ _ _ hh, zeros_nat, padSelf_hash]
    generalize hmdb : List.take (emLen - H.hLen - 1) em = maskedDB
    generalize hhh : List.take H.hLen (List.drop (emLen - H.hLen - 1) em) = h
    cases hlast : em.getLast? with
    | none => rfl
    | some last =>
      simp only [ok_bind']
      have hu : ∀ (v : UInt8) (c : Nat), c < 256 → (decide (((v.toNat : Nat) : Int) ≠ (c : Int)) = decide (v ≠ UInt8.ofNat c)) := by
        intro v c hc
        apply decide_eq_decide.mpr
        constructor
        · intro hne heq; apply hne; rw [heq]; simp [Nat.mod_eq_of_lt hc]
        · intro hne heq; apply hne; apply UInt8.toNat_inj.mp
          have : v.toNat = c := by omega
          rw [this]; simp [Nat.mod_eq_of_lt hc]
      have h188 := hu last 188 (by decide)
      rw [show ((188 : Nat) : Int) = 188 from rfl, show UInt8.ofNat 188 = (188 : UInt8) from rfl] at h188
      rw [h188]
      by_cases hl : last ≠ 188
      · simp only [hl, decide_true, if_true, ne_eq, not_false_eq_true]; rfl
      · simp only [hl, decide_false, Bool.false_eq_true, if_false]
        rw [getItemE_zero]
        cases hhead : maskedDB.head? with
        | none => rfl
        | some b0 =>
          simp only [ok_bind', band_nat]
          have htm : (decide (((b0.toNat &&& (255 - (1 <<< (8 - (8 * emLen - emBits)) - 1) % 256) : Nat) : Int) ≠ 0))
              = decide (b0.toNat &&& pssTopMask emLen emBits ≠ 0) := by
            apply decide_eq_decide.mpr
            unfold pssTopMask
            omega
          rw [htm]
          by_cases htop : b0.toNat &&& pssTopMask emLen emBits ≠ 0
          · simp only [htop, decide_true, if_true, ne_eq, not_false_eq_true]; rfl
          · simp only [htop, decide_false, Bool.false_eq_true, if_false]
            unfold pssRecoverDB
            cases hmgf : mgf1 H h (emLen - H.hLen - 1) with
            | error e => rfl
            | ok dbMask =>
              rw [liftP_ok, ok_bind', xor_zip_eq, lift_some', ok_bind']
              refine (bind_bind_of (setItem_head_and (xorBytes maskedDB dbMask) _) _).trans ?_
              simp only []
              cases hmh : maskHead (1 <<< (8 - (emLen * 8 - emBits)) - 1) (xorBytes maskedDB dbMask) with
              | error e => rfl
              | ok db =>
                rw [liftP_ok, ok_bind', anyNonZero_eq]
                by_cases hany : ((List.take (emLen - H.hLen - sLen - 2) db).any fun x => decide (x ≠ 0)) = true
                · simp only [hany, if_true]; rfl
                · simp only [hany, Bool.false_eq_true, if_false]
                  rw [getItemE_nat]
                  cases hsep : db[emLen - H.hLen - sLen - 2]? with
                  | none => rfl
                  | some sep =>
                    simp only [ok_bind']
                    have h1s := hu sep 1 (by decide)
                    rw [show ((1 : Nat) : Int) = 1 from rfl, show UInt8.ofNat 1 = (1 : UInt8) from rfl] at h1s
                    rw [h1s]
                    by_cases hs1 : sep ≠ 1
                    · simp only [hs1, decide_true, if_true, ne_eq, not_false_eq_true]; rfl
                    · simp only [hs1, decide_false, Bool.false_eq_true, if_false]
                      by_cases hs0 : sLen = 0
                      · subst hs0
                        simp only [ne_eq, not_true_eq_false, decide_false, Bool.false_eq_true, if_false, Int.natCast_zero]
                        by_cases hc : h = H.hash (List.replicate 8 0 ++ mHash ++ [])
                        · rw [if_pos (decide_eq_true hc), if_pos hc]; rfl
                        · rw [if_neg (by simpa using hc), if_neg hc]; rfl
                      · have hs0' : ((sLen : Int) ≠ 0) := by omega
                        simp only [hs0, hs0', ne_eq, not_false_eq_true, decide_true, if_true,
                          slice_neg_from db sLen (by omega)]
                        by_cases hc : h = H.hash (List.replicate 8 0 ++ mHash ++ List.drop (db.length - sLen) db)
                        · rw [if_pos (decide_eq_true hc), if_pos hc]; rfl
                        · rw [if_neg (by simpa using hc), if_neg hc]; rfl

theorem gen_EMSA_PSS_encode_eq (k : PubKey) (H : HashAlg) (f : Nat → Nat) (hp : Bool) (mHash salt : Bytes)
    (emBits : Nat) (hh : 0 < H.hLen) :
    Gen.EMSA_PSS_encode (padSelf k H f hp salt) mHash (emBits : Int) H.name (salt.length : Int) =
      liftP (emsaPssEncode H mHash emBits salt) := by
  unfold Gen.EMSA_PSS_encode emsaPssEncode
  simp only [bind, pure, padSelf_digestSize, ok_bind', show (8 : Int) = ((8 : Nat) : Int) from rfl,
    Tls.Cm.gen_divceil_eq _ 8 (by decide), ← divceil_def, padSelf_random, padSelf_hash, zeros_nat]
  have hb := divceil8_bounds emBits
  generalize divceil emBits 8 = emLen at hb ⊢
  obtain ⟨hb1, hb2⟩ := hb
  by_cases h1 : emLen < H.hLen + salt.length + 2
  · have h1' : ((emLen : Int) < (H.hLen : Int) + (salt.length : Int) + 2) := by omega
    simp only [h1, h1', decide_true, if_true]
    rfl
  · have h1' : ¬ ((emLen : Int) < (H.hLen : Int) + (salt.length : Int) + 2) := by omega
    simp only [h1, h1', decide_false, Bool.false_eq_true, if_false]
    have e1 : ((emLen : Int) - (salt.length : Int) - (H.hLen : Int) - 2) = ((emLen - salt.length - H.hLen - 2 : Nat) : Int) := by omega
    have e2 : ((emLen : Int) - (H.hLen : Int) - 1) = ((emLen - H.hLen - 1 : Nat) : Int) := by omega
    have e3 : (((8 : Nat) : Int) - ((emLen : Int) * ((8 : Nat) : Int) - (emBits : Int))) = ((8 - (emLen * 8 - emBits) : Nat) : Int) := by omega
    simp only [e1, e2, e3, zeros_nat, ok_bind', gen_MGF1_eq _ _ _ _ _ _ _ hh, lshift_one_nat, lift_some', shiftLeft_one_sub]
    cases hmgf : mgf1 H (H.hash (List.replicate 8 0 ++ mHash ++ salt)) (emLen - H.hLen - 1) with
    | error e => rfl
    | ok dbMask =>
      rw [liftP_ok, ok_bind', xor_zip_eq, lift_some', ok_bind']
      refine (bind_bind_of (setItem_head_and _ _) _).trans ?_
      simp only []
      cases hmh : maskHead (1 <<< (8 - (emLen * 8 - emBits)) - 1)
          (xorBytes (List.replicate (emLen - salt.length - H.hLen - 2) 0 ++ [1] ++ salt) dbMask) with
      | error e => rfl
      | ok m => rfl

theorem rawPublic_err (k : PubKey) (c : Bytes) (e : Err) (h : rawPublicKeyOpBytes k c = .error e) : e = .valueError := by
  unfold rawPublicKeyOpBytes at h
  by_cases h1 : c.length ≠ numBytes k.n
  · simp [h1] at h; exact h.symm
  · by_cases h2 : beDecode c ≥ k.n
    · simp [h1, h2] at h; exact h.symm
    · simp [h1, h2] at h

theorem rawPublic_ok_pos (k : PubKey) (c em : Bytes) (h : rawPublicKeyOpBytes k c = .ok em) : 0 < k.n := by
  unfold rawPublicKeyOpBytes at h
  by_cases h1 : c.length ≠ numBytes k.n
  · simp [h1] at h
  · by_cases h2 : beDecode c ≥ k.n
    · simp [h1, h2] at h
    · omega

theorem gen_RSASSA_PSS_verify_eq (k : PubKey) (H : HashAlg) (f : Nat → Nat) (hp : Bool) (s mHash sig : Bytes)
    (sLen : Nat) (hh : 0 < H.hLen) :
    Gen.RSASSA_PSS_verify (padSelf k H f hp s) mHash sig H.name (sLen : Int) =
      liftP ((rsassaPssVerify H k mHash sig sLen).map fun _ => true) := by
  unfold Gen.RSASSA_PSS_verify rsassaPssVerify
  simp only [bind, pure, gen_raw_public_eq]
  cases hraw : rawPublicKeyOpBytes k sig with
  | error e =>
    have := rawPublic_err k sig e hraw
    subst this
    rfl
  | ok em =>
    have hn := rawPublic_ok_pos k sig em hraw
    have hat : PyE.attempt (liftP (Except.ok em : Except Err Bytes)) PyE.Err.valueError = .ok (some em) := rfl
    rw [hat, ok_bind']
    have hnone : ((some em).isNone = true) = False := by simp
    have hgs : PyE.getSome (some em) = (.ok em : PyE.M Bytes) := rfl
    simp only [hnone, if_false, hgs, ok_bind', padSelf_n, pyNumBits]
    have hnb : 1 ≤ numBits k.n := by
      unfold numBits; split <;> omega
    have eb : ((numBits k.n : Nat) : Int) - 1 = ((numBits k.n - 1 : Nat) : Int) := by omega
    simp only [eb, show (8 : Int) = ((8 : Nat) : Int) from rfl, Tls.Cm.gen_divceil_eq _ 8 (by decide), ← divceil_def,
      ok_bind', len_eq, gen_EMSA_PSS_verify_eq _ _ _ _ _ _ _ _ _ hh]
    generalize divceil (numBits k.n - 1) 8 = emLen
    have hfin : ∀ r : Except Err Unit,
        Except.bind (liftP (Except.map (fun _ => true) r))
          (fun b => if b = true then (Except.pure true : PyE.M Bool) else PyE.raise PyE.Err.invalidSignature)
          = liftP (Except.map (fun _ => true) r) := by
      intro r; cases r <;> rfl
    by_cases hlen : em.length > emLen
    · have hlen' : ((em.length : Int) > (emLen : Int)) := by omega
      have e1 : ((em.length : Int) - (emLen : Int)) = ((em.length - emLen : Nat) : Int) := by omega
      simp only [hlen, hlen', decide_true, if_true, e1, slice_to, slice_from, anyNonZero_eq, hfin]
      by_cases hany : ((List.take (em.length - emLen) em).any fun x => decide (x ≠ 0)) = true
      · simp only [hany, if_true]; rfl
      · simp only [hany, Bool.false_eq_true, if_false]
    · have hlen' : ¬ ((em.length : Int) > (emLen : Int)) := by omega
      simp only [hlen, hlen', decide_false, Bool.false_eq_true, if_false, hfin]

/-- **Block type 2 padding has the PKCS#1 v1.5 shape, for every outcome.**  Whatever loop bound `fuel` and
    whatever `getRandomBytes` returns: IF `_addPKCS1Padding(bytes, 2)` as the source has it now returns, the
    result is `00 02 PS 00 bytes` with no zero byte in PS and `|PS| = max(0, k - len(bytes) - 3)`. -/
theorem gen_addPKCS1Padding2_shape (self : PyE.RsaSelf) (bytes out : Bytes) (fuel : Nat)
    (h : Gen._addPKCS1Padding fuel self bytes 2 = .ok out) :
    ∃ ps : Bytes, out = [0, 2] ++ ps ++ [0] ++ bytes ∧ (∀ b ∈ ps, b ≠ 0) ∧
      ps.length = (PyE.numBytes self.n - ((bytes.length : Int) + 3)).toNat := by
  unfold Gen._addPKCS1Padding at h
  have h21 : (decide ((2 : Int) = 1) = true) = False := by simp
  have h22 : (decide ((2 : Int) = 2) = true) = True := by simp
  simp only [bind, pure, h21, h22, if_false, if_true, len_eq, show (0 : Int) = ((0 : Nat) : Int) from rfl, zeros_nat,
    ok_bind'] at h
  generalize hpl : PyE.numBytes self.n - ((bytes.length : Int) + 3) = padLength at h ⊢
  have hdt : (decide True = true) = True := by simp
  simp only [hdt, if_true] at h
  cases hw : PyE.whileLoop (fun pad => decide (PyE.lenL pad < padLength))
      (fun pad => Except.pure (PyE.listTake (PyE.filterNonZero (self.random (padLength * 2))) padLength))
      fuel (PyE.iterBytes (List.replicate 0 0)) with
  | error e => rw [hw] at h; cases h
  | ok pad =>
    rw [hw, ok_bind'] at h
    -- invariant: non-zero byte values, never more than padLength of them
    have hinv := whileLoop_inv _ _ (fun (p : List Int) => (∀ v ∈ p, 1 ≤ v ∧ v < 256) ∧ (p.length : Int) ≤ max 0 padLength)
      (by
        intro s s' _ hc hb
        have hlt : (PyE.lenL s < padLength) := by simpa using hc
        have hpos : 0 < padLength := by unfold PyE.lenL at hlt; omega
        cases hb
        unfold PyE.listTake
        have hn : ¬ (padLength < 0) := by omega
        simp only [hn, if_false]
        refine ⟨fun v hv => filterNonZero_range _ v (List.mem_of_mem_take hv), ?_⟩
        have := List.length_take_le padLength.toNat (PyE.filterNonZero (self.random (padLength * 2)))
        omega)
      fuel _ pad (by
        have e0 : PyE.iterBytes (List.replicate 0 0) = [] := rfl
        rw [e0]
        exact ⟨fun v hv => by simp at hv, by simp⟩) hw
    obtain ⟨⟨hrange, hle⟩, hexit⟩ := hinv
    have hge : ¬ ((pad.length : Int) < padLength) := by
      have : ¬ (PyE.lenL pad < padLength) := by simpa using hexit
      exact this
    rw [show ((0 : Nat) : Int) = 0 from rfl, pad2_bytes pad hrange, lift_some', ok_bind'] at h
    cases h
    refine ⟨pad.map (fun v => UInt8.ofNat v.toNat), by simp [List.append_assoc], ?_, ?_⟩
    · intro b hb
      rw [List.mem_map] at hb
      obtain ⟨v, hv, rfl⟩ := hb
      have := hrange v hv
      intro h0
      have h1 : (UInt8.ofNat v.toNat).toNat = 0 := by rw [h0]; rfl
      rw [UInt8.toNat_ofNat'] at h1
      omega
    · rw [List.length_map]; omega

/-- **When it returns.**  With `getRandomBytes` modelled as a function of the requested length (the same draw
    in every iteration), `_addPKCS1Padding(bytes, 2)` returns iff no padding is needed or the loop bound
    admits one iteration and the draw of `2·padLength` bytes contains at least `padLength` non-zero ones;
    otherwise the `while` loop never ends (`Err.fuel` for every bound). -/
theorem gen_addPKCS1Padding2_returns_iff (self : PyE.RsaSelf) (bytes : Bytes) (fuel : Nat) (padLength : Int)
    (hpl : PyE.numBytes self.n - ((bytes.length : Int) + 3) = padLength) :
    (∃ out, Gen._addPKCS1Padding fuel self bytes 2 = .ok out) ↔
      (padLength ≤ 0 ∨ (1 ≤ fuel ∧ padLength ≤ ((PyE.filterNonZero (self.random (padLength * 2))).length : Int))) := by
  unfold Gen._addPKCS1Padding
  have h21 : (decide ((2 : Int) = 1) = true) = False := by simp
  have h22 : (decide ((2 : Int) = 2) = true) = True := by simp
  have hdt : (decide True = true) = True := by simp
  simp only [bind, pure, h21, h22, if_false, if_true, len_eq, show (0 : Int) = ((0 : Nat) : Int) from rfl, zeros_nat,
    ok_bind', hdt, hpl]
  have e0 : PyE.iterBytes (List.replicate 0 0) = [] := rfl
  rw [e0]
  generalize hdraw : PyE.filterNonZero (self.random (padLength * 2)) = draw
  have hdr : ∀ v ∈ draw, 1 ≤ v ∧ v < 256 := by rw [← hdraw]; exact filterNonZero_range _
  -- what the loop returns decides everything: a returned pad always converts
  have hconv : ∀ pad : List Int, (∀ v ∈ pad, 1 ≤ v ∧ v < 256) →
      ∃ out, Except.bind (liftM (Py.bytearrayOfInts ([((0 : Nat) : Int), 2] ++ pad ++ [((0 : Nat) : Int)])) : PyE.M Bytes)
        (fun b => (Except.pure (b ++ bytes) : PyE.M Bytes)) = Except.ok out := by
    intro pad hp
    rw [show ((0 : Nat) : Int) = 0 from rfl, pad2_bytes pad hp, lift_some', ok_bind']
    exact ⟨_, rfl⟩
  by_cases hp0 : padLength ≤ 0
  · -- no iteration
    have hc0 : (decide (PyE.lenL ([] : List Int) < padLength)) = false := by
      unfold PyE.lenL; simp; omega
    have hw : PyE.whileLoop (fun pad => decide (PyE.lenL pad < padLength))
        (fun pad => Except.pure (PyE.listTake draw padLength)) fuel [] = .ok [] := by
      cases fuel <;> (unfold PyE.whileLoop; simp only [hc0, Bool.false_eq_true, if_false])
    rw [hw, ok_bind']
    exact ⟨fun _ => Or.inl hp0, fun _ => hconv [] (fun v hv => by simp at hv)⟩
  · have hpos : 0 < padLength := by omega
    have hc0 : (decide (PyE.lenL ([] : List Int) < padLength)) = true := by
      unfold PyE.lenL; simp; omega
    have hn : ¬ (padLength < 0) := by omega
    have hs1 : PyE.listTake draw padLength = draw.take padLength.toNat := by
      unfold PyE.listTake; simp only [hn, if_false]
    by_cases hen : padLength ≤ (draw.length : Int)
    · -- one iteration is enough
      have hc1 : (decide (PyE.lenL (draw.take padLength.toNat) < padLength)) = false := by
        unfold PyE.lenL
        have : (draw.take padLength.toNat).length = padLength.toNat := by
          rw [List.length_take]; omega
        simp [this]
      cases fuel with
      | zero =>
        have hw : PyE.whileLoop (fun pad => decide (PyE.lenL pad < padLength))
            (fun pad => Except.pure (PyE.listTake draw padLength)) 0 [] = .error .fuel := by
          unfold PyE.whileLoop; simp only [hc0, if_true]
        rw [hw]
        constructor
        · rintro ⟨out, h⟩; cases h
        · rintro (h | ⟨h, _⟩) <;> omega
      | succ f =>
        have hw := whileLoop_once (fun pad => decide (PyE.lenL pad < padLength))
          (fun pad => (Except.pure (PyE.listTake draw padLength) : PyE.M (List Int))) f [] (draw.take padLength.toNat)
          hc0 (by rw [hs1]; rfl) hc1
        rw [hw, ok_bind']
        exact ⟨fun _ => Or.inr ⟨by omega, hen⟩,
          fun _ => hconv _ (fun v hv => hdr v (List.mem_of_mem_take hv))⟩
    · -- the draw is too short: every iteration reproduces the same too short pad
      have hc1 : (decide (PyE.lenL (draw.take padLength.toNat) < padLength)) = true := by
        unfold PyE.lenL
        have := List.length_take_le padLength.toNat draw
        simp; omega
      have hstuck := whileLoop_stuck (fun pad => decide (PyE.lenL pad < padLength))
        (fun pad => (Except.pure (PyE.listTake draw padLength) : PyE.M (List Int))) (draw.take padLength.toNat)
        hc1 (by rw [hs1]; rfl)
      have hw : PyE.whileLoop (fun pad => decide (PyE.lenL pad < padLength))
          (fun pad => Except.pure (PyE.listTake draw padLength)) fuel [] = .error .fuel := by
        cases fuel with
        | zero => unfold PyE.whileLoop; simp only [hc0, if_true]
        | succ f =>
          unfold PyE.whileLoop
          simp only [hc0, if_true]
          show PyE.whileLoop _ _ f (PyE.listTake draw padLength) = _
          have := hstuck f
          rw [← hs1] at this
          exact this
      rw [hw]
      constructor
      · rintro ⟨out, h⟩; cases h
      · rintro (h | ⟨_, h⟩) <;> omega

theorem gen_raw_private_eq (k : PrivKey) (H : HashAlg) (st : Blind) (rnd : Nat) (hp : Bool) (s msg : Bytes)
    (hpq : k.p ≠ 0 ∧ k.q ≠ 0) :
    Gen._raw_private_key_op_bytes (padSelf k.pub H (privOf k st rnd) hp s) msg =
      liftP ((rawPrivateKeyOpBytes k st rnd msg).map Prod.fst) := by
  unfold Gen._raw_private_key_op_bytes rawPrivateKeyOpBytes
  simp only [bind, pure, padSelf_n, pyNumBytes, len_eq, bytesToNumber_eq, padSelf_priv, numberToByteArray_nat]
  have hpq' : ¬ (k.p = 0 ∨ k.q = 0) := by omega
  by_cases h1 : msg.length = numBytes k.pub.n
  · have h1' : ((msg.length : Int) = (numBytes k.pub.n : Int)) := by omega
    by_cases h2 : beDecode msg ≥ k.pub.n
    · have h2' : ((beDecode msg : Int) ≥ (k.pub.n : Int)) := by omega
      simp only [h1, h1', h2, h2', ne_eq, not_true_eq_false, decide_false, decide_true, Bool.false_eq_true, if_false, if_true]
      rfl
    · have h2' : ¬ ((beDecode msg : Int) ≥ (k.pub.n : Int)) := by omega
      simp only [h1, h1', h2, h2', hpq', ne_eq, not_true_eq_false, decide_false, Bool.false_eq_true, if_false]
      rfl
  · have h1' : ¬ ((msg.length : Int) = (numBytes k.pub.n : Int)) := by omega
    simp only [h1, h1', ne_eq, not_false_eq_true, decide_true, if_true]
    rfl

theorem gen_raw_pkcs1_sign_eq (k : PrivKey) (H : HashAlg) (st : Blind) (rnd : Nat) (s bytes : Bytes) (fuel : Nat)
    (hpq : k.p ≠ 0 ∧ k.q ≠ 0) :
    Gen._raw_pkcs1_sign fuel (padSelf k.pub H (privOf k st rnd) (decide (k.d ≠ 0)) s) bytes =
      liftP ((rawPkcs1Sign k st rnd bytes).map Prod.fst) := by
  unfold Gen._raw_pkcs1_sign rawPkcs1Sign
  simp only [bind, pure, padSelf_hasPriv, gen_addPKCS1Padding1_eq, ok_bind', gen_raw_private_eq _ _ _ _ _ _ _ hpq]
  by_cases hd : k.d = 0
  · simp only [hd, ne_eq, not_true_eq_false, decide_false, Bool.not_false, if_true]; rfl
  · simp only [hd, ne_eq, not_false_eq_true, decide_true, Bool.not_true, Bool.false_eq_true, if_false]

theorem rawPrivate_err (k : PrivKey) (st : Blind) (rnd : Nat) (m : Bytes) (e : Err) (hpq : k.p ≠ 0 ∧ k.q ≠ 0)
    (h : rawPrivateKeyOpBytes k st rnd m = .error e) : e = .valueError := by
  unfold rawPrivateKeyOpBytes at h
  have hpq' : ¬ (k.p = 0 ∨ k.q = 0) := by omega
  by_cases h1 : m.length ≠ numBytes k.pub.n
  · simp [h1] at h; exact h.symm
  · by_cases h2 : beDecode m ≥ k.pub.n
    · simp [h1, h2] at h; exact h.symm
    · simp [h1, h2, hpq'] at h

theorem gen_RSASSA_PSS_sign_eq (k : PrivKey) (H : HashAlg) (st : Blind) (rnd : Nat) (hp : Bool) (mHash salt : Bytes)
    (hh : 0 < H.hLen) (hpq : k.p ≠ 0 ∧ k.q ≠ 0) (hn : 0 < k.pub.n) :
    Gen.RSASSA_PSS_sign (padSelf k.pub H (privOf k st rnd) hp salt) mHash H.name (salt.length : Int) =
      liftP ((rsassaPssSign H k st rnd mHash salt).map Prod.fst) := by
  unfold Gen.RSASSA_PSS_sign rsassaPssSign
  have hnb : 1 ≤ numBits k.pub.n := by
    unfold numBits; split <;> omega
  have eb : ((numBits k.pub.n : Nat) : Int) - 1 = ((numBits k.pub.n - 1 : Nat) : Int) := by omega
  simp only [bind, pure, padSelf_n, pyNumBits, pyNumBytes, eb, gen_EMSA_PSS_encode_eq _ _ _ _ _ _ _ hh]
  cases henc : emsaPssEncode H mHash (numBits k.pub.n - 1) salt with
  | error e => rfl
  | ok em =>
    rw [liftP_ok, ok_bind', len_eq, max2_zero]
    have e1 : (((numBytes k.pub.n : Nat) : Int) - (em.length : Int)).toNat = numBytes k.pub.n - em.length := by omega
    rw [e1, zeros_nat, ok_bind', gen_raw_private_eq _ _ _ _ _ _ _ hpq]
    conv_rhs => simp only [bind, Except.bind]
    cases hraw : rawPrivateKeyOpBytes k st rnd (List.replicate (numBytes k.pub.n - em.length) 0 ++ em) with
    | error e =>
      have := rawPrivate_err k st rnd _ e hpq hraw
      subst this
      rfl
    | ok r => rfl

theorem gen_sign_pkcs1_eq (k : PrivKey) (H : HashAlg) (st : Blind) (rnd : Nat) (s salt bytes : Bytes) (p : String)
    (alg : Option String) (sl : Option Int) (fuel : Nat)
    (hp : p.toLower = "pkcs1") (hpq : k.p ≠ 0 ∧ k.q ≠ 0) (hlow : ∀ a, alg = some a → a.toLower = a) :
    Gen.sign fuel (padSelf k.pub H (privOf k st rnd) (decide (k.d ≠ 0)) s) bytes p alg sl =
      liftP ((sign k st rnd bytes .pkcs1 alg H salt).map Prod.fst) := by
  unfold Gen.sign sign
  have hl : PyE.lower p = "pkcs1" := hp
  have hd : (decide ("pkcs1" = "pkcs1") = true) = True := by simp
  simp only [bind, pure, hl, hd, if_true, gen_addPKCS1Prefix_eq, gen_raw_pkcs1_sign_eq _ _ _ _ _ _ _ hpq, bind_pure']
  cases alg with
  | none => rfl
  | some a =>
    have ha := hlow a rfl
    simp only [Option.isSome_some, if_true, PyE.optGet, ok_bind', ha, bind_pure']
    cases hpre : addPKCS1Prefix bytes a with
    | error e => rfl
    | ok b => rfl

theorem gen_sign_pss_eq (k : PrivKey) (H : HashAlg) (st : Blind) (rnd : Nat) (hp : Bool) (mHash salt : Bytes) (p : String)
    (fuel : Nat) (hpp : p.toLower = "pss")
    (hh : 0 < H.hLen) (hpq : k.p ≠ 0 ∧ k.q ≠ 0) (hn : 0 < k.pub.n) :
    Gen.sign fuel (padSelf k.pub H (privOf k st rnd) hp salt) mHash p (some H.name) (some (salt.length : Int)) =
      liftP ((sign k st rnd mHash .pss (some H.name) H salt).map Prod.fst) := by
  unfold Gen.sign sign
  have hl : PyE.lower p = "pss" := hpp
  have hd1 : (decide ("pss" = "pkcs1") = true) = False := by decide
  have hd2 : (decide ("pss" = "pss") = true) = True := by simp
  simp only [bind, pure, hl, hd1, hd2, if_false, if_true, PyE.optGet, ok_bind', bind_pure',
    gen_RSASSA_PSS_sign_eq _ _ _ _ _ _ _ hh hpq hn, decide_true]

theorem gen_sign_other (self : PyE.RsaSelf) (bytes : Bytes) (p : String) (alg : Option String) (sl : Option Int) (fuel : Nat)
    (h1 : p.toLower ≠ "pkcs1") (h2 : p.toLower ≠ "pss") :
    Gen.sign fuel self bytes p alg sl = .error .unknownRSAType := by
  unfold Gen.sign
  simp only [bind, pure, PyE.lower, h1, h2, decide_false, Bool.false_eq_true, if_false]
  rfl

theorem gen_verify_pss_eq (k : PubKey) (H : HashAlg) (f : Nat → Nat) (hp : Bool) (s sig mHash : Bytes) (sLen fuel : Nat)
    (hh : 0 < H.hLen) :
    Gen.verify fuel (padSelf k H f hp s) sig mHash "pss" (some H.name) (some (sLen : Int)) =
      liftP (verify k sig mHash .pss (some H.name) H sLen) := by
  unfold Gen.verify verify
  have hd1 : (decide ("pss" = "pkcs1")) = false := by decide
  have hd2 : (decide ("pss" = "pss")) = true := by decide
  simp only [bind, pure, hd1, hd2, Bool.false_and, Bool.false_eq_true, if_false, if_true, PyE.optGet, ok_bind',
    gen_RSASSA_PSS_verify_eq _ _ _ _ _ _ _ _ hh, bind_pure']
  have hp1 : ¬ (Padding.pss = Padding.pkcs1) := by decide
  simp only [hp1, false_and, if_false, if_true]
  cases hv : rsassaPssVerify H k mHash sig sLen with
  | ok u => rfl
  | error e => cases e <;> rfl

theorem lower_pkcs1 : "pkcs1".toLower = "pkcs1" := by decide +kernel
theorem lower_pss : "pss".toLower = "pss" := by decide +kernel

theorem gen_hashAndVerify_pkcs1_eq (k : PubKey) (H : HashAlg) (f : Nat → Nat) (hp : Bool) (s sig data : Bytes)
    (scheme : String) (sl : Int) (sLen fuel : Nat) (hs : scheme.toLower = "pkcs1") (hlow : H.name.toLower = H.name) :
    Gen.hashAndVerify fuel (padSelf k H f hp s) sig data scheme H.name sl =
      liftP (hashAndVerify k sig data .pkcs1 H sLen) := by
  unfold Gen.hashAndVerify hashAndVerify
  have h1 : PyE.lower scheme = "pkcs1" := hs
  have h2 : PyE.lower H.name = H.name := hlow
  simp only [bind, pure, h1, h2, padSelf_hash, bind_pure']
  exact gen_verify_pkcs1_eq k H f hp s sig (H.hash data) (some H.name) (some sl) sLen fuel
    (fun a ha => by cases ha; exact hlow)

theorem gen_hashAndVerify_pss_eq (k : PubKey) (H : HashAlg) (f : Nat → Nat) (hp : Bool) (s sig data : Bytes)
    (scheme : String) (sLen fuel : Nat) (hs : scheme.toLower = "pss") (hlow : H.name.toLower = H.name)
    (hh : 0 < H.hLen) :
    Gen.hashAndVerify fuel (padSelf k H f hp s) sig data scheme H.name (sLen : Int) =
      liftP (hashAndVerify k sig data .pss H sLen) := by
  unfold Gen.hashAndVerify hashAndVerify
  have h1 : PyE.lower scheme = "pss" := hs
  have h2 : PyE.lower H.name = H.name := hlow
  simp only [bind, pure, h1, h2, padSelf_hash, bind_pure']
  exact gen_verify_pss_eq k H f hp s sig (H.hash data) sLen fuel hh

theorem gen_hashAndSign_pkcs1_eq (k : PrivKey) (H : HashAlg) (st : Blind) (rnd : Nat) (s salt data : Bytes)
    (scheme : String) (sl : Int) (fuel : Nat) (hs : scheme.toLower = "pkcs1") (hlow : H.name.toLower = H.name)
    (hpq : k.p ≠ 0 ∧ k.q ≠ 0) :
    Gen.hashAndSign fuel (padSelf k.pub H (privOf k st rnd) (decide (k.d ≠ 0)) s) data scheme H.name sl =
      liftP ((hashAndSign k st rnd data .pkcs1 H salt).map Prod.fst) := by
  unfold Gen.hashAndSign hashAndSign
  have h1 : PyE.lower scheme = "pkcs1" := hs
  have h2 : PyE.lower H.name = H.name := hlow
  simp only [bind, pure, h1, h2, padSelf_hash, bind_pure']
  exact gen_sign_pkcs1_eq k H st rnd s salt (H.hash data) "pkcs1" (some H.name) (some sl) fuel lower_pkcs1 hpq
    (fun a ha => by cases ha; exact hlow)

theorem gen_hashAndSign_pss_eq (k : PrivKey) (H : HashAlg) (st : Blind) (rnd : Nat) (hp : Bool) (salt data : Bytes)
    (scheme : String) (fuel : Nat) (hs : scheme.toLower = "pss") (hlow : H.name.toLower = H.name)
    (hh : 0 < H.hLen) (hpq : k.p ≠ 0 ∧ k.q ≠ 0) (hn : 0 < k.pub.n) :
    Gen.hashAndSign fuel (padSelf k.pub H (privOf k st rnd) hp salt) data scheme H.name (salt.length : Int) =
      liftP ((hashAndSign k st rnd data .pss H salt).map Prod.fst) := by
  unfold Gen.hashAndSign hashAndSign
  have h1 : PyE.lower scheme = "pss" := hs
  have h2 : PyE.lower H.name = H.name := hlow
  simp only [bind, pure, h1, h2, padSelf_hash, bind_pure']
  exact gen_sign_pss_eq k H st rnd hp (H.hash data) salt "pss" fuel lower_pss hh hpq hn

/-- **pss_verify_accept_iff, of the source as it is now.** -/
theorem gen_pss_verify_accept_iff (k : PubKey) (H : HashAlg) (f : Nat → Nat) (hp : Bool) (s mHash em : Bytes)
    (emBits sLen : Nat) (hh : 0 < H.hLen) :
    Gen.EMSA_PSS_verify (padSelf k H f hp s) mHash em (emBits : Int) H.name (sLen : Int) = .ok true ↔
      let emLen := divceil emBits 8
      let maskedDB := em.take (emLen - H.hLen - 1)
      let h := (em.drop (emLen - H.hLen - 1)).take H.hLen
      H.hLen + sLen + 2 ≤ emLen ∧
      em.getLast? = some 0xbc ∧
      (∃ b0, maskedDB.head? = some b0 ∧ b0.toNat &&& pssTopMask emLen emBits = 0) ∧
      ∃ db, pssRecoverDB H maskedDB h emLen emBits = .ok db ∧
        (∀ x ∈ db.take (emLen - H.hLen - sLen - 2), x = 0) ∧
        db[emLen - H.hLen - sLen - 2]? = some 1 ∧
        h = H.hash (List.replicate 8 (0 : UInt8) ++ mHash ++
              (if sLen ≠ 0 then db.drop (db.length - sLen) else [])) := by
  rw [gen_EMSA_PSS_verify_eq k H f hp s mHash em emBits sLen hh, ← emsaPssVerify_ok_iff H mHash em emBits sLen]
  cases emsaPssVerify H mHash em emBits sLen with
  | error e => simp [liftP, Except.map]
  | ok u => simp [liftP, Except.map]

/-- **What the source's `sign` emits, the source's `verify` accepts** (RSASSA-PSS, any hash with fixed non-zero
    output length, any salt, any well-formed key — also modulus bit lengths = 1 mod 8), stated about the
    regenerated functions on both sides. -/
theorem gen_pss_sign_then_verify {H : HashAlg} (hH : HashOk H) {k : PrivKey} (vk : ValidKey k)
    {st : Blind} {rnd : Nat} (hst : BlindOk k st)
    (hrnd : st.blinder = 0 → invMod rnd k.pub.n * rnd % k.pub.n = 1)
    (mHash salt sig s' : Bytes) (hp hp' : Bool) (f' : Nat → Nat) (fuel fuel' : Nat)
    (hs : Gen.sign fuel (padSelf k.pub H (privOf k st rnd) hp salt) mHash "pss" (some H.name) (some (salt.length : Int))
      = .ok sig) :
    Gen.verify fuel' (padSelf k.pub H f' hp' s') sig mHash "pss" (some H.name) (some (salt.length : Int)) = .ok true := by
  have hp0 : k.p ≠ 0 := by have := vk.hp2; omega
  have hq0 : k.q ≠ 0 := by have := vk.hq2; omega
  have hn : 0 < k.pub.n := by rw [vk.hn]; exact Nat.mul_pos (by omega) (by omega)
  rw [gen_sign_pss_eq k H st rnd hp mHash salt "pss" fuel lower_pss hH.pos ⟨hp0, hq0⟩ hn] at hs
  have hsig : ∃ st', rsassaPssSign H k st rnd mHash salt = .ok (sig, st') := by
    unfold sign at hs
    cases hr : rsassaPssSign H k st rnd mHash salt with
    | error e => rw [hr] at hs; cases hs
    | ok r =>
      rw [hr] at hs
      obtain ⟨a, b⟩ := r
      have : a = sig := by cases hs; rfl
      exact ⟨b, by rw [this]⟩
  obtain ⟨st', hst'⟩ := hsig
  have hv := (rsassaPss_sign_verify hH vk hst hrnd mHash salt sig st' hst').1
  rw [gen_verify_pss_eq k.pub H f' hp' s' sig mHash salt.length fuel' hH.pos]
  unfold verify
  have hp1 : ¬ (Padding.pss = Padding.pkcs1) := by decide
  simp only [hp1, false_and, if_false, if_true, hv]
  rfl

/-- **pkcs1_verify_iff_canonical, of the source as it is now.**  `verify(sig, h, "pkcs1", alg)` of the
    regenerated rsakey.py returns True iff the key is not PSS-only, `sig` has the length of the modulus,
    is below it, and `sig^e mod n` on exactly k bytes is THE canonical encoding (lower-case hash name,
    as every caller passes it). -/
theorem gen_pkcs1_verify_iff_canonical (k : PubKey) (H : HashAlg) (f : Nat → Nat) (hp : Bool) (s sig h : Bytes)
    (alg : String) (sl : Option Int) (fuel : Nat) (hlow : alg.toLower = alg) :
    Gen.verify fuel (padSelf k H f hp s) sig h "pkcs1" (some alg) sl = .ok true ↔
      k.pssOnly = false ∧ sig.length = numBytes k.n ∧ beDecode sig < k.n ∧
      ∃ t ∈ acceptedDigestInfos alg h,
        beEncode (numBytes k.n) ((beDecode sig) ^ k.e % k.n) = canonicalEM (numBytes k.n) t := by
  rw [gen_verify_pkcs1_eq k H f hp s sig h (some alg) sl 0 fuel (fun a ha => by cases ha; exact hlow),
    ← pkcs1_verify_iff_canonical k sig h alg H 0]
  cases verify k sig h .pkcs1 (some alg) H 0 with
  | error e => simp [liftP]
  | ok b => simp [liftP]

example : Gen.verify 4 (padSelf exKey.pub toyHash (fun _ => 0) false []) [1, 2, 3, 4, 5] [7] "pkcs1" none none = .ok false := by
  decide +kernel

/-- outcome of a hand-model verification as the source reports it -/
def asBool (r : Except Err Unit) : PyE.M Bool := liftP (r.map fun _ => true)

/-- encoded messages for the vector obligations: the encoder's output for (emBits, salt) and that output
    with one octet xor-ed at a position -/
def pssEM (emBits : Nat) (salt : Bytes) : Bytes := (emsaPssEncode toyHash [1, 2] emBits salt).toOption.getD []
def flipAt (b : Bytes) (i : Nat) (m : UInt8) : Bytes := b.set i ((b.getD i 0) ^^^ m)

def pssVerifyVectors : List (Bytes × Nat × Nat) :=
  [((47 : Nat), ([9] : Bytes)), (48, [9]), (41, [9]), (47, []), (64, [7, 8, 9]), (33, [])].flatMap fun es =>
    let emBits := es.1
    let salt := es.2
    let em := pssEM emBits salt
    [ (em, emBits, salt.length),
      (flipAt em 0 0x01, emBits, salt.length), (flipAt em 0 0x40, emBits, salt.length), (flipAt em 0 0x80, emBits, salt.length),
      (flipAt em 1 0x01, emBits, salt.length), (flipAt em (em.length - 1) 0x01, emBits, salt.length),
      (flipAt em (em.length - 2) 0x10, emBits, salt.length), (flipAt em (em.length - 4) 0x02, emBits, salt.length),
      (em, emBits, salt.length + 1), (em.drop 1, emBits, salt.length), (0 :: em, emBits, salt.length), ([], emBits, 0),
      (em, emBits + 8, salt.length), (em, emBits - 1, salt.length) ]

theorem gen_pss_verify_vectors :
    pssVerifyVectors.all (fun v =>
      Gen.EMSA_PSS_verify (padSelf exKey.pub toyHash (fun _ => 0) false []) [1, 2] v.1 (v.2.1 : Int) "toy" (v.2.2 : Int)
        == asBool (emsaPssVerify toyHash [1, 2] v.1 v.2.1 v.2.2)) = true := by
  decide +kernel


theorem gen_pss_encode_vectors :
    ([((47 : Nat), ([9] : Bytes)), (48, [9]), (41, [9]), (47, []), (64, [7, 8, 9]), (33, []), (24, [1]), (31, []), (32, []), (0, [])].all
      fun es => Gen.EMSA_PSS_encode (padSelf exKey.pub toyHash (fun _ => 0) false es.2) [1, 2] (es.1 : Int) "toy" (es.2.length : Int)
        == liftP (emsaPssEncode toyHash [1, 2] es.1 es.2)) = true := by
  decide +kernel

/-- signatures for the key-level vectors: the hand model's PSS signature of `[1, 2]` with salt `[9]` / no salt -/
def pssSig (salt : Bytes) : Bytes :=
  ((rsassaPssSign toyHash exKey ⟨0, 0⟩ 12345 [1, 2] salt).toOption.map Prod.fst).getD []

def pssKeyVectors : List (Bytes × Nat) :=
  [([9] : Bytes), []].flatMap fun salt =>
    let sig := pssSig salt
    [ (sig, salt.length), (flipAt sig 0 0x01, salt.length), (flipAt sig 4 0x01, salt.length), (sig, salt.length + 1),
      (sig.drop 1, salt.length), (0 :: sig, salt.length), (beEncode 5 136117223861, salt.length), (beEncode 5 0, salt.length),
      (beEncode 5 1, salt.length), (beEncode 5 136117223860, salt.length) ]

theorem gen_rsassa_pss_verify_vectors :
    (pssKeyVectors.all fun v =>
      Gen.RSASSA_PSS_verify (padSelf exKey.pub toyHash (fun _ => 0) false []) [1, 2] v.1 "toy" (v.2 : Int)
        == asBool (rsassaPssVerify toyHash exKey.pub [1, 2] v.1 v.2)) = true ∧
    (pssKeyVectors.all fun v =>
      Gen.verify 8 (padSelf exKey.pub toyHash (fun _ => 0) false []) v.1 [1, 2] "pss" (some "toy") (some (v.2 : Int))
        == liftP (verify exKey.pub v.1 [1, 2] .pss (some "toy") toyHash v.2)) = true := by
  constructor <;> decide +kernel

/-- signing: the source's `sign` / `RSASSA_PSS_sign` / `_raw_pkcs1_sign` with the hand model's blinded CRT
    operation as `_rawPrivateKeyOp` give the hand model's signatures -/
def exPriv (m : Nat) : Nat := (rawPrivateKeyOp exKey ⟨0, 0⟩ 12345 m).1
theorem gen_sign_vectors :
    ([([9] : Bytes), []].all fun salt =>
      Gen.sign 8 (padSelf exKey.pub toyHash exPriv true salt) [1, 2] "pss" (some "toy") (some (salt.length : Int))
        == liftP ((sign exKey ⟨0, 0⟩ 12345 [1, 2] .pss (some "toy") toyHash salt).map Prod.fst)) = true ∧
    ([some "sha1", some "sha256", none, some "nohash"].all fun alg =>
      Gen.sign 8 (padSelf exKey.pub toyHash exPriv true []) [1] "pkcs1" alg none
        == liftP ((sign exKey ⟨0, 0⟩ 12345 [1] .pkcs1 alg toyHash []).map Prod.fst)) = true ∧
    Gen.sign 8 (padSelf exKey.pub toyHash exPriv true []) [1] "x" none none = .error .unknownRSAType ∧
    Gen.hashAndVerify 8 (padSelf exKey.pub toyHash exPriv true []) (pssSig [9]) [5, 6] "PSS" "toy" 1
      = liftP (hashAndVerify exKey.pub (pssSig [9]) [5, 6] .pss toyHash 1) := by
  refine ⟨by decide +kernel, by decide +kernel, by decide +kernel, by decide +kernel⟩

end Tls.Rsa
