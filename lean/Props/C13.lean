import TlsProofs.ResumeHist
import TlsModel.ResumeGen
import TlsProofs.Ticket
/-
  C13 — resumption reproduces the original session's security, or falls back cleanly.
  Model: TlsModel/Resume.lean (mirrors tlsconnection.py / session.py / sessioncache.py /
  tlsrecordlayer._shutdown); helper lemmas and the predicates used below: TlsProofs/Resume.lean.
-/
namespace Tls.Resume

theorem resume_implies_conditions (env : Env) (lookup : Bytes → Option Sess) (now : Nat)
    (st : SrvSettings) (h : Hello) (s : Sess)
    (hc : ∀ id s, lookup id = some s → s.completed = true)
    (hp : ∀ k n c p, env.aeadOpen k n c = some p → p.completed = true)
    (hr : serverResume12 env lookup now st h = .resume s) :
    s.completed = true ∧ s.resumable = true ∧
    (ViaTicket env now st h s ∨ ViaCache lookup st h s) ∧ Consistent st h s :=
  serverResume12_resume_cond env lookup now st h s hc hp hr

theorem bad_ticket_falls_back (env : Env) (lookup : Bytes → Option Sess) (now : Nat)
    (st : SrvSettings) (h : Hello) (t : Bytes) (ht : h.ticket = some t) (hne : t ≠ [])
    (hbad : ∀ k ∈ st.ticketKeys, ∀ p, env.aeadOpen k (t.take 32) (t.drop 32) = some p →
      p.created + st.ticketLifetime < now) :
    serverResume12 env lookup now st h = .full := by
  have hte : ticketNonEmpty h = true := by
    unfold ticketNonEmpty; rw [ht]; cases t <;> simp_all
  have h1 : sessionFromTicket env st now h = none := by
    unfold sessionFromTicket; rw [ht]; simp [ticketToSession_none hbad]
  unfold serverResume12 findSession
  simp [h1, hte]

theorem unknown_id_falls_back (env : Env) (lookup : Bytes → Option Sess) (now : Nat)
    (st : SrvSettings) (h : Hello) (hn : ticketNonEmpty h = false)
    (hunk : ∀ s, lookup h.sessionId = some s → valid s = false) :
    serverResume12 env lookup now st h = .full := by
  have h1 := sessionFromTicket_none_of_empty (env := env) (st := st) (now := now) hn
  have h2 : cacheGet lookup h.sessionId = none := by
    unfold cacheGet
    cases hl : lookup h.sessionId with
    | none => rfl
    | some s => simp [hunk s hl]
  unfold serverResume12 findSession
  simp only [h1, hn, h2]
  split
  · split <;> simp_all
  · rfl



theorem bad_psk_skipped (env : Env) (st : SrvSettings) (now : Nat) (ver : Ver) (prf : Hash)
    (id : PskIdent) (rest : List PskIdent) (i : Nat)
    (hext : st.pskConfigs.find? (fun c => c.identity == id.identity) = none)
    (hbad : ∀ k ∈ st.ticketKeys, ∀ p,
      env.aeadOpen k (id.identity.take 32) (id.identity.drop 32) = some p →
        p.created + st.ticketLifetime < now) :
    selectPskFrom env st now ver prf (id :: rest) i = selectPskFrom env st now ver prf rest (i + 1) := by
  rw [selectPskFrom]
  simp only [hext]
  cases hd : tryDecrypt13 env st.ticketKeys id.identity with
  | none => rfl
  | some p =>
    obtain ⟨_, k, hk, hop⟩ := tryDecrypt13_some hd
    have := hbad k hk p hop
    simp only [this, if_true]
    split <;> rfl

theorem bad_psk_falls_back (env : Env) (st : SrvSettings) (now : Nat) (ver : Ver) (prf : Hash)
    (h : Hello) (id : PskIdent) (hpsk : h.psk = some [id]) (hcert : st.hasCert = true)
    (hext : st.pskConfigs.find? (fun c => c.identity == id.identity) = none)
    (hbad : ∀ k ∈ st.ticketKeys, ∀ p,
      env.aeadOpen k (id.identity.take 32) (id.identity.drop 32) = some p →
        p.created + st.ticketLifetime < now) :
    serverResume13 env st now ver prf h = .full := by
  have hsel : serverPsk13 env st now ver prf h = .none := by
    unfold serverPsk13
    rw [hpsk]
    simp only
    split
    · rw [bad_psk_skipped env st now ver prf id [] 0 hext hbad]; rfl
    · rfl
  unfold serverResume13
  rw [hsel]
  simp [kexOk13, hcert]


/-- After ANY history that follows a fatal close (seen by the server) of a connection using
    session object `i`, a ClientHello naming a session id that the cache maps to that object gets
    a full handshake. -/
theorem invalidated_never_resumes (w0 : World) (k : Nat) (c : ConnRec) (i : Nat) (ck : CloseKind)
    (hk : w0.conns[k]? = some c) (hs : c.sobj = some i) (hi : i < w0.sheap.length)
    (hf : ck.serverFatal = true) (ops : List Op)
    (srv : Nat) (sha : List Nat) (st : SrvSettings) (h : Hello)
    (hn : ticketNonEmpty h = false)
    (hid : (run (stepClose w0 k ck) ops).lookupIdx srv h.sessionId = some i) :
    serverResume12 ((run (stepClose w0 k ck) ops).env sha) ((run (stepClose w0 k ck) ops).lookup srv)
      (run (stepClose w0 k ck) ops).nowS st h = .full := by
  apply unknown_id_falls_back _ _ _ _ _ hn
  intro s hl
  rw [lookup_eq_bind, hid] at hl
  simp only [Option.bind_some] at hl
  -- the object at index i right after the close
  have hlen : i < (stepClose w0 k ck).sheap.length := by
    obtain ⟨s0, hs0, _⟩ := stepClose_sheap_ext w0 k ck i w0.sheap[i] (by simp [hi])
    rcases Nat.lt_or_ge i (stepClose w0 k ck).sheap.length with hlt | hge
    · exact hlt
    · rw [List.getElem?_eq_none hge] at hs0; contradiction
  have h1 : (stepClose w0 k ck).sheap[i]? = some (stepClose w0 k ck).sheap[i] := by simp [hlen]
  have hr0 := stepClose_serverFatal w0 k c i ck hk hs hf _ h1
  obtain ⟨s', hs', hmono⟩ := run_sheap_ext (stepClose w0 k ck) ops i _ h1
  rw [hl] at hs'
  injection hs' with hs'
  subst hs'
  have : s.resumable = false := by
    cases hr : s.resumable with
    | false => rfl
    | true => have := hmono hr; rw [hr0] at this; contradiction
  simp [valid, this]

/-- After ANY history that follows a fatal close (seen by the client) of a connection using client
    session object `j`, the client ignores that session: `clientPrepare` drops it, so the
    ClientHello carries no ticket and no resumption PSK. -/
theorem invalidated_never_offered (w0 : World) (k : Nat) (c : ConnRec) (j : Nat) (ck : CloseKind)
    (hk : w0.conns[k]? = some c) (hs : c.cobj = some j) (hj : j < w0.cheap.length)
    (hf : ck.clientFatal = true) (ops : List Op) (srp sni : Bytes) :
    clientPrepare ((run (stepClose w0 k ck) ops).cheap[j]?) srp sni = some none := by
  have hlen : j < (stepClose w0 k ck).cheap.length := by
    obtain ⟨s0, hs0, _⟩ := stepClose_cheap_ext w0 k ck j w0.cheap[j] (by simp [hj])
    rcases Nat.lt_or_ge j (stepClose w0 k ck).cheap.length with hlt | hge
    · exact hlt
    · rw [List.getElem?_eq_none hge] at hs0; contradiction
  have h1 : (stepClose w0 k ck).cheap[j]? = some (stepClose w0 k ck).cheap[j] := by simp [hlen]
  have hr0 := stepClose_clientFatal w0 k c j ck hk hs hf _ h1
  obtain ⟨s', hs', hmono⟩ := run_cheap_ext (stepClose w0 k ck) ops j _ h1
  rw [hs']
  apply clientPrepare_invalid
  cases hr : s'.resumable with
  | false => rfl
  | true => have := hmono hr; rw [hr0] at this; contradiction




/-- TLS 1.3: a `resume` decision implies the PSK identity is a ticket that opens under a CURRENT
    key, is of this protocol version, is not older than the lifetime, has the PRF hash of the
    negotiated suite, its binder verified, and a key-exchange mode both sides accept exists. -/
theorem resume13_implies_conditions (env : Env) (st : SrvSettings) (now : Nat) (ver : Ver) (prf : Hash)
    (h : Hello) (s : Sess)
    (hp : ∀ k n c p, env.aeadOpen k n c = some p → p.completed = true)
    (hr : serverResume13 env st now ver prf h = .resume s) :
    ∃ (ids : List PskIdent) (i : Nat) (id : PskIdent) (p : Payload), h.psk = some ids ∧ ids[i]? = some id ∧ TicketAccepted env st now ver prf id p ∧
      s = sessOfPayload p ∧ s.completed = true ∧ s.resumable = true ∧ kexOk13 st h true = true := by
  unfold serverResume13 at hr
  split at hr
  · contradiction
  · split at hr <;> contradiction
  · split at hr <;> contradiction
  · rename_i i p hsel
    split at hr
    · rename_i hkex
      injection hr with hr
      unfold serverPsk13 at hsel
      split at hsel
      · contradiction
      · rename_i ids hids
        split at hsel
        · obtain ⟨id, _, hget, hacc⟩ := selectPskFrom_ticket hsel
          have hacc' := hacc
          obtain ⟨_, _, ⟨k, _, hop⟩, _⟩ := hacc'
          refine ⟨ids, i, id, p, hids, by simpa using hget, hacc, hr.symm, ?_, ?_, hkex⟩
          · rw [← hr]; exact hp _ _ _ _ hop
          · rw [← hr]; rfl
        · contradiction
    · contradiction

/-- <=1.2: the resumed connection has exactly the parameters (suite, EMS, EtM, server name, client
    identity) and the master secret of the ticket's contents / of the cached session object. -/
theorem resumed_inherits (env : Env) (lookup : Bytes → Option Sess) (now : Nat) (st : SrvSettings)
    (ver : Ver) (nsuite : Nat) (h : Hello) (s : Sess) (hv : ¬ (ver.1 = 3 ∧ ver.2 ≥ 4))
    (hr : serverResume12 env lookup now st h = .resume s) :
    (∃ t k p, h.ticket = some t ∧ k ∈ st.ticketKeys ∧ env.aeadOpen k (t.take 32) (t.drop 32) = some p ∧
        resumedParams ver nsuite h s = p.params ∧ s.secret = p.secret) ∨
    (∃ s0, lookup h.sessionId = some s0 ∧ resumedParams ver nsuite h s = s0.params ∧ s.secret = s0.secret) := by
  unfold serverResume12 at hr
  split at hr
  · split at hr
    · contradiction
    · rename_i s' hf
      obtain ⟨hs, _⟩ := checkSession_resume hr
      subst hs
      rcases findSession_some hf with ⟨t, k, p, ht, _, hk, hop, _, hs⟩ | ⟨_, _, _, hl, _⟩
      · left
        refine ⟨t, k, p, ht, hk, hop, ?_, ?_⟩
        · simp only [resumedParams, hv, if_false]; rw [hs]; split <;> rfl
        · rw [hs]; split <;> rfl
      · right
        exact ⟨s, hl, by simp only [resumedParams, hv, if_false], rfl⟩
  · contradiction

/-- TLS 1.3: what the resumed connection takes from the ticket is the authenticated client identity;
    the PRF hash of the new suite equals the ticket suite's, EMS is on and EtM off as in every
    TLS 1.3 session.  Cipher suite and server name are NOT inherited: they come from the new
    ServerHello / ClientHello (RFC 8446 binds a PSK to the hash only; see the two examples below).
    Full statement of the property text, not provable for TLS 1.3:
      resumedParams ver nsuite h s = p.params -/
theorem resumed13_inherits_partial (env : Env) (st : SrvSettings) (now : Nat) (ver : Ver) (nsuite : Nat)
    (h : Hello) (s : Sess) (hv : ver.1 = 3 ∧ ver.2 ≥ 4)
    (hr : serverResume13 env st now ver (prfOf env nsuite) h = .resume s) :
    ∃ p, s = sessOfPayload p ∧ p.version = ver ∧
      (resumedParams ver nsuite h s).clientId = p.clientId ∧
      prfOf env (resumedParams ver nsuite h s).suite = prfOf env p.suite ∧
      (resumedParams ver nsuite h s).ems = true ∧ (resumedParams ver nsuite h s).etm = false := by
  unfold serverResume13 at hr
  split at hr
  · contradiction
  · split at hr <;> contradiction
  · split at hr <;> contradiction
  · rename_i i p hsel
    split at hr
    · injection hr with hr
      unfold serverPsk13 at hsel
      split at hsel
      · contradiction
      · split at hsel
        · obtain ⟨id, _, _, hacc⟩ := selectPskFrom_ticket hsel
          obtain ⟨_, _, _, hver, _, hprf, _⟩ := hacc
          refine ⟨p, hr.symm, hver, ?_, ?_, ?_, ?_⟩ <;> simp only [resumedParams, hv, and_self, if_true]
          · rw [← hr]; rfl
          · exact hprf.symm
        · contradiction
    · contradiction

theorem Sess.shutdown_false_clears (s : Sess) : (s.shutdown false).resumable = false := by
  simp [Sess.shutdown]

theorem Sess.shutdown_true_keeps (s : Sess) : s.shutdown true = s := by
  simp [Sess.shutdown]

/-- <=1.2, client side: `resumed` is reported only if the ServerHello echoes the session's id or
    the random id sent along with a ticket, and names the session's suite. -/
theorem client_belief_resumed (sess : Option CSess) (sentSid shSid : Bytes) (shSuite : Nat)
    (hb : clientResume12 sess sentSid shSid shSuite = .resumed) :
    ∃ s, sess = some s ∧ shSuite = s.suite ∧
      ((s.sessionID ≠ [] ∧ shSid = s.sessionID) ∨ (s.tickets10 ≠ [] ∧ sentSid ≠ [] ∧ shSid = sentSid)) := by
  unfold clientResume12 at hb
  split at hb
  · contradiction
  · rename_i s
    split at hb
    · rename_i hc
      split at hb
      · contradiction
      · rename_i hs
        refine ⟨s, rfl, by simpa using hs, ?_⟩
        simp only [Bool.or_eq_true, Bool.and_eq_true, Bool.not_eq_true', beq_iff_eq] at hc
        rcases hc with ⟨h1, h2⟩ | ⟨⟨h1, h2⟩, h3⟩
        · left; exact ⟨by intro h0; simp [h0] at h1, h2⟩
        · right; exact ⟨by intro h0; simp [h0] at h1, by intro h0; simp [h0] at h2, h3⟩
    · contradiction

/-- <=1.2: if both ends complete, they agree on `resumed`, the client reports resumed exactly
    when the server decided to resume, and then the client's session object holds the very master
    secret and suite of the session the server resumed. -/
theorem client_resumed_flag_sound (dec : Decision) (sess : Option CSess) (sentSid newSid : Bytes)
    (nsuite : Nat) (hd : (outcome12 dec sess sentSid newSid nsuite).bothDone = true) :
    (outcome12 dec sess sentSid newSid nsuite).cResumed = (outcome12 dec sess sentSid newSid nsuite).sResumed ∧
    ((outcome12 dec sess sentSid newSid nsuite).cResumed = true ↔ ∃ s, dec = .resume s) ∧
    (∀ s, dec = .resume s → ∃ c, sess = some c ∧ c.secret = s.secret ∧ c.suite = s.suite) := by
  unfold outcome12 at hd ⊢
  cases dec with
  | alert a => simp [Outcome.bothDone] at hd
  | assertionError => simp [Outcome.bothDone] at hd
  | external i => simp [Outcome.bothDone] at hd
  | resume s =>
    simp only at hd ⊢
    split at hd
    · rename_i hb
      split at hd
      · rename_i hsec
        obtain ⟨c, hc, hsuite, _⟩ := client_belief_resumed _ _ _ _ hb
        simp only [hsec, if_true, true_and, Decision.resume.injEq, exists_eq', forall_eq']
        subst hc
        refine ⟨c, rfl, ?_, hsuite.symm⟩
        simpa using hsec
      · simp [Outcome.bothDone] at hd
    · simp [Outcome.bothDone] at hd
    · simp [Outcome.bothDone] at hd
  | full =>
    simp only at hd ⊢
    split at hd <;> simp [Outcome.bothDone] at hd
    simp

/-- <=1.2: when the server declines (full handshake) and its ServerHello carries a session id that
    is neither the offered session's nor the random one sent with the ticket, the client carries
    on with the full handshake: both ends complete, nobody reports resumed.
    (This is what the fix 9d20076 established; before it the client aborted.) -/
theorem declined_falls_back_cleanly (sess : Option CSess) (sentSid newSid : Bytes) (nsuite : Nat)
    (h1 : ∀ s, sess = some s → newSid ≠ s.sessionID ∨ s.sessionID = [])
    (h2 : newSid ≠ sentSid ∨ sentSid = []) :
    outcome12 .full sess sentSid newSid nsuite = ⟨.done, .done, false, false⟩ := by
  have : clientResume12 sess sentSid newSid nsuite = .full := by
    unfold clientResume12
    split
    · rfl
    · rename_i s
      have hs := h1 s rfl
      split
      · rename_i hc
        simp only [Bool.or_eq_true, Bool.and_eq_true, Bool.not_eq_true', beq_iff_eq] at hc
        rcases hc with ⟨ha, hb⟩ | ⟨⟨_, ha⟩, hb⟩
        · rcases hs with hs | hs
          · exact absurd hb hs
          · simp [hs] at ha
        · rcases h2 with h2 | h2
          · exact absurd hb h2
          · simp [h2] at ha
      · rfl
  simp [outcome12, this]

/-- TLS 1.3: if both ends complete and they agree on which offered identities are external PSKs,
    they agree on `resumed`. -/
theorem client_resumed_flag_sound13 (env : Env) (st : SrvSettings) (now : Nat) (ver : Ver) (prf : Hash)
    (cs : CliSettings) (h : Hello)
    (hsame : ∀ ids, h.psk = some ids → ∀ id ∈ ids,
      (cs.pskConfigs.any (fun c => c.identity == id.identity) = true ↔
        (st.pskConfigs.find? (fun c => c.identity == id.identity)).isSome = true))
    (hd : (outcome13 (serverResume13 env st now ver prf h) cs h (selectedIndex env st now ver prf h)).bothDone = true) :
    (outcome13 (serverResume13 env st now ver prf h) cs h (selectedIndex env st now ver prf h)).cResumed =
    (outcome13 (serverResume13 env st now ver prf h) cs h (selectedIndex env st now ver prf h)).sResumed := by
  unfold serverResume13 selectedIndex at hd ⊢
  cases hsel : serverPsk13 env st now ver prf h with
  | alert a => simp [hsel, outcome13, Outcome.bothDone] at hd
  | none =>
    simp only [hsel] at hd ⊢
    split <;> simp [outcome13, clientResume13, serverResuming13]
  | selected i t =>
    have hids : ∃ ids, h.psk = some ids ∧ selectPskFrom env st now ver prf ids 0 = .selected i t := by
      unfold serverPsk13 at hsel
      split at hsel
      · contradiction
      · rename_i ids hids
        split at hsel
        · exact ⟨ids, hids, hsel⟩
        · contradiction
    obtain ⟨ids, hpsk, hfrom⟩ := hids
    cases t with
    | none =>
      obtain ⟨id, _, hget, hcfg⟩ := selectPskFrom_external hfrom
      have hget' : ids[i]? = some id := by simpa using hget
      have hmem : id ∈ ids := List.mem_of_getElem? hget'
      have hany := (hsame ids hpsk id hmem).mpr hcfg
      simp only [hsel] at hd ⊢
      split <;> simp [outcome13, clientResume13, serverResuming13, hpsk, hget', hany]
    | some p =>
      obtain ⟨id, _, hget, hacc⟩ := selectPskFrom_ticket hfrom
      have hget' : ids[i]? = some id := by simpa using hget
      have hmem : id ∈ ids := List.mem_of_getElem? hget'
      have hnone := hacc.1
      have hany : cs.pskConfigs.any (fun c => c.identity == id.identity) = false := by
        cases hc : cs.pskConfigs.any (fun c => c.identity == id.identity) with
        | false => rfl
        | true => have := (hsame ids hpsk id hmem).mp hc; simp [hnone] at this
      simp only [hsel] at hd ⊢
      split
      · simp [outcome13, clientResume13, serverResuming13, hpsk, hget', hany]
      · simp [outcome13]



/-- Histories: in every history starting from the empty world, whatever a <=1.2 server decides to
    resume from is a session of a COMPLETED handshake, and its parameters (suite, EMS, EtM, server
    name, client identity) are those of an earlier completed connection of that history. -/
theorem history_resume_from_completed (ops : List Op) (a : HsArgs) (s : Sess)
    (hv : is13 a.ver = false)
    (hd : (stepHs (run World.init ops) a).2.dec = some (.resume s)) :
    s.completed = true ∧ Logged (run World.init ops) s.params := by
  obtain ⟨w1, h, hs, hdec⟩ := stepHs_dec12 hv hd
  exact (run_inv Inv.init ops).resume12 hs _ _ _ _ _ s (negAdjust_resume hdec.symm)

/-- Histories: the invariant behind the previous theorem — every sealed ticket and every server
    session object stems from a completed connection of the log and carries its parameters. -/
theorem history_invariant (ops : List Op) : Inv (run World.init ops) := run_inv Inv.init ops

/-! ### non-vacuity: concrete instances of the hypotheses and conclusions above -/
section Examples

def exPayload : Payload :=
  { secret := 0, version := (3, 3), suite := 0x9c, created := 1000, clientId := some 1, etm := false,
    ems := true, serverName := [104], completed := true }

/-- key 7 opens exactly the ticket `ticketBytes` -/
def exTicket : Bytes := List.replicate 40 1

def exEnv : Env :=
  { aeadOpen := fun k n c => if k == 7 && n ++ c == exTicket then some exPayload else none, sha384 := [0x9d] }

def exSettings : SrvSettings :=
  { ticketKeys := [9, 7], ticketLifetime := 100, ticketCount := 1, allowed := [0x9c, 0x2f], hasCache := false,
    pskConfigs := [], pskModes := [pskDheKe], hasCert := true }

def exHello : Hello :=
  { sessionId := [5, 5], ticket := some exTicket, suites := [0x2f, 0x9c], srpUsername := [], serverName := [104],
    etm := true, ems := true, psk := none, pskModes := [] }

/-- a ticket sealed under the SECOND current key resumes (key rollover) … -/
example : serverResume12 exEnv (fun _ => none) 1100 exSettings exHello =
    .resume { sessOfPayload exPayload with sessionID := [5, 5] } := by decide

/-- … one second after its lifetime it gives a full handshake … -/
example : serverResume12 exEnv (fun _ => none) 1101 exSettings exHello = .full := by decide

/-- … with the issuing key removed it gives a full handshake … -/
example : serverResume12 exEnv (fun _ => none) 1100 { exSettings with ticketKeys := [9] } exHello = .full := by
  decide

/-- … a flipped bit gives a full handshake … -/
example : serverResume12 exEnv (fun _ => none) 1100 exSettings
    { exHello with ticket := some (2 :: exTicket.drop 1) } = .full := by decide

/-- … a ClientHello without EMS for an EMS session is refused with handshake_failure, one with
    another server name too; the session's suite must be offered -/
example : serverResume12 exEnv (fun _ => none) 1100 exSettings { exHello with ems := false } =
    .alert .handshake_failure := by decide
example : serverResume12 exEnv (fun _ => none) 1100 exSettings { exHello with serverName := [105] } =
    .alert .handshake_failure := by decide
example : serverResume12 exEnv (fun _ => none) 1100 exSettings { exHello with suites := [0x2f] } =
    .alert .illegal_parameter := by decide

def exCached : Sess :=
  { secret := 3, sessionID := [5, 5], suite := 0x2f, srpUsername := [], clientId := none, serverName := [104],
    resumable := true, etm := true, ems := true, version := (3, 1), completed := true }

/-- session-ID resumption from the cache; not once the object was invalidated -/
example : serverResume12 exEnv (fun id => if id == [5, 5] then some exCached else none) 0
    { exSettings with hasCache := true } { exHello with ticket := some [] } = .resume exCached := by decide
example : serverResume12 exEnv (fun id => if id == [5, 5] then some (exCached.shutdown false) else none) 0
    { exSettings with hasCache := true } { exHello with ticket := some [] } = .full := by decide

/-- TLS 1.3: the ticket is selected, expired it is skipped -/
def exPayload13 : Payload := { exPayload with version := (3, 4), suite := 0x1301 }
def exEnv13 : Env :=
  { aeadOpen := fun k n c => if k == 7 && n ++ c == exTicket then some exPayload13 else none, sha384 := [0x1302] }
def exHello13 : Hello :=
  { exHello with ticket := some [], suites := [0x1303],
                 psk := some [{ identity := exTicket, binder := some ⟨.resumption 0, .sha256, false⟩ }],
                 pskModes := [pskDheKe] }
example : serverResume13 exEnv13 exSettings 1100 (3, 4) .sha256 exHello13 = .resume (sessOfPayload exPayload13) := by
  decide
example : serverResume13 exEnv13 exSettings 1101 (3, 4) .sha256 exHello13 = .full := by decide
/-- a binder computed with another secret is refused -/
example : serverResume13 exEnv13 exSettings 1100 (3, 4) .sha256
    { exHello13 with psk := some [{ identity := exTicket, binder := some ⟨.resumption 1, .sha256, false⟩ }] } =
    .alert .illegal_parameter := by decide

/-- TLS 1.3 (see `resumed13_inherits_partial`): the resumed connection runs the NEW suite 0x1303 and
    the NEW server name, not the ticket's 0x1301 / [104] — same PRF hash, client identity kept -/
example : (resumedParams (3, 4) 0x1303 { exHello13 with serverName := [105] } (sessOfPayload exPayload13)) =
    { suite := 0x1303, ems := true, etm := false, serverName := [105], clientId := some 1 } := by decide
example : (resumedParams (3, 4) 0x1303 { exHello13 with serverName := [105] } (sessOfPayload exPayload13)).suite
    ≠ exPayload13.suite := by decide

/-- the client: a declined ticket (ServerHello with another / no session id) continues as a full
    handshake; an echoed id means resumed -/
def exCSess : CSess :=
  { secret := 0, sessionID := [], suite := 0x9c, srpUsername := [], serverName := [104], resumable := true,
    etm := false, ems := true, tickets10 := [{ ticket := exTicket, lifetime := 100, received := 1000 }], tickets13 := [] }
example : outcome12 .full (some exCSess) [5, 5] [] 0x2f = ⟨.done, .done, false, false⟩ := by decide
example : outcome12 (.resume { sessOfPayload exPayload with sessionID := [5, 5] }) (some exCSess) [5, 5] [] 0 =
    ⟨.done, .done, true, true⟩ := by decide
/-- a stolen ticket: the server resumes, but a client holding another secret cannot complete -/
example : outcome12 (.resume { sessOfPayload exPayload with sessionID := [5, 5] })
    (some { exCSess with secret := 77 }) [5, 5] [] 0 =
    ⟨.localAlert .bad_record_mac, .remoteAlert .bad_record_mac, false, false⟩ := by decide
/-- a corrupted binder is refused -/
example : serverResume13 exEnv13 exSettings 1100 (3, 4) .sha256 (applyEdit exHello13 (.badBinder 0)) =
    .alert .illegal_parameter := by decide
/-- an invalidated client session is not offered at all -/
example : clientPrepare (some (exCSess.shutdown false)) [] [104] = some none := by decide

/-- a two-step history: full handshake issuing a ticket, fatal close, and the world it leaves -/
def exArgs : HsArgs :=
  { srv := 0, cs := { maxVersion := (3, 3), suites := [0x9c], ems := true, etm := true, pskConfigs := [], pskModes := [] },
    srp := [], sni := [104], offer := none, edits := [], st := exSettings, ver := (3, 3), sha384 := [], freshSid := [5, 5],
    nsuite := 0x9c, nems := true, netm := false, ncid := none, newSid := [], nst := [exTicket], negFail := false }
example : ((run World.init [.newServer none, .hs exArgs]).cheap.map (·.resumable)) = [true] := by decide
example : ((run World.init [.newServer none, .hs exArgs, .close 0 ⟨true, true⟩]).cheap.map (·.resumable)) = [false] := by
  decide
example : (stepHs (run World.init [.newServer none, .hs exArgs]) { exArgs with offer := some 0 }).2.dec =
    some (.resume { sessOfPayload { exPayload with created := 0, clientId := none } with sessionID := [5, 5] }) := by
  decide
example : (stepHs (run World.init [.newServer none, .hs exArgs, .close 0 ⟨true, true⟩]) { exArgs with offer := some 0 }).2.dec =
    some .full := by decide

end Examples


/-! ### tie by regeneration
  `TlsModel/Gen/Resume.lean` is rewritten from the AST of the tree under check on every run
  (translate/gen_resume.py): the guards of the resumption block, of `_ticket_to_session`, of the
  TLS 1.3 PSK loop, the data flow through SessionTicketPayload, the places `resumable` is
  assigned.  The theorems below interpret that generated description over the model's data and
  prove it equal to the hand-written model for every input, or compare it with the shape the
  hand model relies on; a change of the source that alters a guard, its order, its effect or the
  data flow makes one of them fail. -/
section Regenerated
open Tls.Gen.Resume


theorem gen_translator_clean :
    translatorProblems = [] ∧
    ([outerCond, ticketCallCond, echoSidCond, cacheCond, pskOuterCond].all Cond.known &&
      checkGuards.all Guard.known && ticketToSessionGuards.all Guard.known &&
      pskLoopEvents.all PskEvent.known) = true := by decide

theorem gen_checks_eq_model (st : SrvSettings) (h : Hello) (s : Sess) :
    evalChain (GCtx.base st h (some s)) checkGuards = checkSession st h s := by
  simp only [checkGuards, evalChain, evalCond, evalAtom, effectDecision, GCtx.base, checkSession]
  by_cases h1 : s.resumable = true <;> simp [h1]


theorem gen_ticket_to_session_eq_model (env : Env) (st : SrvSettings) (now : Nat) (h : Hello) (t : Bytes) :
    genTicketToSession env st now h t = ticketToSession env st now t := by
  simp only [genTicketToSession, ticketToSessionGuards, ticketToSession, List.any, evalCond, evalAtom,
    ticketNonEmpty]
  cases hp : tryDecrypt12 env st.ticketKeys t with
  | none => simp
  | some p => by_cases he : t.isEmpty = true <;> by_cases hx : p.created + st.ticketLifetime < now <;> simp [he, hx]

theorem gen_server_resume12_eq_model (env : Env) (lookup : Bytes → Option Sess) (now : Nat)
    (st : SrvSettings) (h : Hello) :
    genServerResume12 env lookup now st h = serverResume12 env lookup now st h := by
  have htne : ticketNonEmpty h = true → h.ticket.isSome = true := by
    unfold ticketNonEmpty; cases h.ticket <;> simp
  have L1 : evalCond (GCtx.base st h none) outerCond =
      ((!h.sessionId.isEmpty && st.hasCache) || ticketNonEmpty h) := by
    simp only [outerCond, evalCond, evalAtom, GCtx.base]
    cases hq : ticketNonEmpty h
    · simp
    · simp [htne hq]
  have L2 : genSessionFromTicket env st now h = sessionFromTicket env st now h := by
    simp only [genSessionFromTicket, ticketCallCond, echoSidCond, evalCond, evalAtom, GCtx.base, sessionFromTicket]
    cases h.ticket with
    | none => simp
    | some t =>
      simp only [Option.isSome_some, if_true, gen_ticket_to_session_eq_model]
      congr 1
      funext s
      cases h.sessionId.isEmpty <;> simp
  have L3 : ∀ s1 : Option Sess, evalCond (GCtx.base st h s1) cacheCond =
      (s1.isNone && !ticketNonEmpty h && st.hasCache && !h.sessionId.isEmpty) := by
    intro s1
    simp only [cacheCond, evalCond, evalAtom, GCtx.base]
    cases hq : ticketNonEmpty h
    · cases s1 <;> cases h.ticket.isSome <;> simp
    · cases s1 <;> simp [htne hq]
  have L4 : ∀ s2 : Option Sess, evalChain (GCtx.base st h s2) checkGuards =
      (match s2 with | none => Decision.full | some s => checkSession st h s) := by
    intro s2
    cases s2 with
    | none => simp [checkGuards, evalChain, evalCond, evalAtom, effectDecision, GCtx.base]
    | some s => exact gen_checks_eq_model st h s
  have L5 : genFindSession env lookup now st h = findSession env lookup now st h := by
    simp only [genFindSession, findSession, L2, L3]
  simp only [genServerResume12, serverResume12, L1, L4, L5]
  split
  · split <;> simp_all
  · rfl


theorem gen_psk_outer_eq_model (env : Env) (st : SrvSettings) (now : Nat) (ver : Ver) (prf : Hash) (h : Hello) :
    serverPsk13 env st now ver prf h =
      if evalCond (GCtx.base st h none) pskOuterCond then selectPskFrom env st now ver prf (h.psk.getD []) 0
      else .none := by
  simp only [serverPsk13, pskOuterCond, evalCond, evalAtom, GCtx.base]
  cases h.psk with
  | none => simp
  | some ids => simp

theorem gen_psk_ticket_step_eq_model (env : Env) (st : SrvSettings) (now : Nat) (ver : Ver) (prf : Hash)
    (h : Hello) (id : PskIdent) (rest : List PskIdent) (i : Nat)
    (hext : st.pskConfigs.find? (fun c => c.identity == id.identity) = none) :
    selectPskFrom env st now ver prf (id :: rest) i =
      match genPskTicketStep env st now ver prf h id i with
      | none => selectPskFrom env st now ver prf rest (i + 1)
      | some r => r := by
  rw [selectPskFrom]
  simp only [hext, genPskTicketStep]
  cases hd : tryDecrypt13 env st.ticketKeys id.identity with
  | none => rfl
  | some p =>
    simp only [pskLoopEvents, pskGuardsAfterBranch, List.filterMap, List.any, evalCond, evalAtom]
    by_cases h1 : ver = p.version <;> by_cases h2 : p.created + st.ticketLifetime < now <;>
      by_cases h3 : prfOf env p.suite = prf <;> simp [h1, h2, h3] <;> split <;> rfl

theorem gen_psk_selection_after_guards : selectionAfterGuards pskLoopEvents = true := by decide

theorem gen_psk_resumed_flag_and_binder :
    pskResumedFlag = "not external" ∧
    binderArgs = ["clientHello", "self._pre_client_hello_handshake_hash", "selected_psk", "psk", "psk_hash",
                  "external"] := by decide

theorem gen_ticket_dataflow :
    ticketCreateArgs = expectedTicketCreateArgs ∧ ticketToSessionArgs = expectedTicketToSessionArgs ∧
    payloadWriteFields = expectedPayloadFields ∧ payloadParseFields = expectedPayloadFields ∧
    inheritedFields.all fieldRoundTrips = true ∧
    ticketKeyUsed = "settings.ticketKeys[0]" ∧ kdfUsesUserKey = true ∧
    pendingEtmSource = "self._pendingWriteState.encryptThenMAC" ∧
    tryDecryptShape = expectedTryDecryptShape := by decide

theorem gen_resumed_session_is_the_stored_one :
    resumeSessionValue = "session" ∧
    resumeServerHello = ["version", "getRandomBytes(32)", "session.sessionID", "session.cipherSuite",
                         "CertificateType.x509", "None", "None", "extensions=extensions"] ∧
    resumeKeyArgs = ["session.cipherSuite", "session.masterSecret", "clientHello.random", "serverHello.random",
                     "settings.cipherImplementations"] := by decide

theorem gen_resumable_cleared_where_modelled :
    resumableAssigned = expectedResumableAssigned ∧
    shutdownTail = "if not resumable and self.session:\n    self.session.resumable = False" ∧
    cacheGetTests = ["session.valid() -> return session | else raise KeyError()"] ∧
    sessionValid = "self.resumable and (self.sessionID or self.tickets or self.tls_1_0_tickets)" ∧
    sessionCreateDefaults.contains ("resumable", "True") = true := by decide


end Regenerated


/-- TLS 1.3, what exactly separates `resumed13_inherits_partial` from the property text: the full
    equality of parameters holds as soon as the new handshake negotiates the ticket's suite and the
    ClientHello repeats the ticket's server name.  The server enforces neither (RFC 8446 binds a PSK
    to the PRF hash only, and the SNI is taken from every ClientHello anew); an honest tlslite client
    guarantees the second (`Session servername doesn't match` ValueError), nothing guarantees the first. -/
theorem resumed13_inherits_when_hello_repeats (env : Env) (st : SrvSettings) (now : Nat) (ver : Ver)
    (nsuite : Nat) (h : Hello) (s : Sess) (hv : ver.1 = 3 ∧ ver.2 ≥ 4)
    (_hr : serverResume13 env st now ver (prfOf env nsuite) h = .resume s)
    (hsuite : nsuite = s.suite) (hsni : h.serverName = s.serverName)
    (h13 : s.ems = true ∧ s.etm = false) :
    resumedParams ver nsuite h s = s.params := by
  simp only [resumedParams, hv, and_self, if_true, Sess.params, hsuite, hsni, h13.1, h13.2]

end Tls.Resume

/-! ### the ticket itself: SessionTicketPayload bytes and sealing (TlsModel/Ticket.lean) -/
namespace Tls.Ticket

/-- `SessionTicketPayload.parse(write(p)) = p` for every payload `write` can represent: what the
    server seals into a ticket is exactly what it reads back (all versions 0/1/2 of the format) -/
theorem ticket_payload_roundtrip (p : TicketPayload) (hw : p.WF) : parsePayload (writePayload p) = some p :=
  parse_write p hw

/-- wrong key or tampered ticket ⇒ decline: when the AEAD opens the ciphertext under none of the
    CURRENT keys, `_tryDecrypt` yields nothing, whatever the bytes -/
theorem tampered_or_wrong_key_ticket_declined (A : Aead) (keys : List Bytes) (t : Bytes)
    (h : ∀ k ∈ keys, A.aopen (A.kdf (t.take 32) k) (t.drop 32) = none) : openTicket A keys t = none :=
  openTicket_none A keys t h

/-- reduction to the AEAD assumption: an accepted ticket is one the server sealed under a key
    derived from a CURRENT ticket key and the ticket's nonce (`log` = everything it ever sealed), or
    the AEAD opened a ciphertext never sealed under that key (a forgery) -/
theorem accepted_ticket_is_sealed_or_forgery (A : Aead) (keys : List Bytes) (t : Bytes) (p : TicketPayload)
    (log : List (Bytes × Bytes)) (h : openTicket A keys t = some p) :
    (∃ k ∈ keys, (A.kdf (t.take 32) k, t.drop 32) ∈ log) ∨
    (∃ k ∈ keys, ∃ m, A.aopen (A.kdf (t.take 32) k) (t.drop 32) = some m ∧
        (A.kdf (t.take 32) k, t.drop 32) ∉ log) :=
  accepted_ticket_sealed_or_forgery A keys t p log h

/-- key rotation: a ticket sealed under ANY of the current keys (not only the first) is accepted
    and gives back the sealed payload -/
theorem rotated_key_ticket_accepted (A : Aead) (pre post : List Bytes) (k nonce : Bytes) (p : TicketPayload)
    (hn : nonce.length = 32) (hw : p.WF)
    (hcorrect : ∀ key m, A.aopen key (A.aseal key m) = some m)
    (hpre : ∀ k' ∈ pre, A.aopen (A.kdf nonce k') (A.aseal (A.kdf nonce k) (writePayload p)) = none) :
    openTicket A (pre ++ k :: post) (nonce ++ A.aseal (A.kdf nonce k) (writePayload p)) = some p :=
  openTicket_sealed A pre post k nonce p hn hw hcorrect hpre

/-- non-vacuity: a toy AEAD (tag = the derived key appended), three keys, a version-2 payload -/
def toyAead : Aead :=
  { kdf := fun n k => k ++ n.take 1,
    aseal := fun key m => m ++ key,
    aopen := fun key c => if c.drop (c.length - key.length) == key then some (c.take (c.length - key.length)) else none }

def toyPayload : TicketPayload :=
  create [1, 2, 3] 3 3 0x9c 1000 [7] (some [0, 0, 1, 9, 0, 0]) true false [104]

example : toyPayload.version = 2 := by decide
example : parsePayload (writePayload toyPayload) = some toyPayload := by decide
example : openTicket toyAead [[5], [6], [7]] (List.replicate 32 1 ++ toyAead.aseal [6, 1] (writePayload toyPayload))
    = some toyPayload := by decide
example : openTicket toyAead [[5], [7]] (List.replicate 32 1 ++ toyAead.aseal [6, 1] (writePayload toyPayload))
    = none := by decide
example : parsePayload (writePayload toyPayload ++ [0]) = none := by decide

end Tls.Ticket
