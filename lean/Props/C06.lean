import TlsProofs.OrderCheck
import TlsProofs.OrderSafety
import TlsProofs.OrderPost
import TlsModel.OrderGenEval
/-
  C06 — handshake messages are accepted only in the order the protocol allows.

  `Tls.Order.step/feed/run/hsRun` (TlsModel/Order.lean) mirror the `_getMsg` call sequence of the
  tlslite-ng client and server flows and `_getMsg`'s own gate; `Tls.Order.allowed` is the grammar
  written separately from the RFCs.  The tie to the real code is the correspondence run of
  harness/props/c06.py (honest traces with skip / duplicate / swap / insert / replace /
  wrong-epoch deviations replayed to live endpoints).
-/
set_option linter.unusedSimpArgs false

namespace Tls.Order

/-! ### 1. everything accepted to completion is in the grammar -/

/-- For every negotiable configuration (role × version family × key exchange × client
    authentication × tickets × NPN × HelloRetryRequest × resumption × compressed certificates ×
    heartbeat × compat mode) and every sequence of incoming messages of ANY length, with any key
    epochs and record coalescing: if the automaton consumes the whole sequence and reaches
    `_handshakeDone` exactly on its last message, the received kinds form a sequence the RFC
    grammar permits for that role and those parameters.
    (Full strength: the NewSessionTicket / mid-handshake ClientHello exceptions of earlier trees
    are gone since tlslite-ng commits 1aa2b21, ae20492, 2565221; see the regression theorems below.) -/
theorem accepted_in_grammar (c : Cfg) (hv : c.valid = true) (ms : List Msg)
    (h : accepts c ms = true) : allowed c (kinds ms) = true := by
  unfold accepts at h
  cases hr : hsRun c (start c) ms with
  | none => simp [hr] at h
  | some r' =>
    have hk := hsRun_K c ms (start c) r' hr
    have hc := checkCfg_of_valid c hv
    obtain ⟨h1, h2⟩ := checkFrom_sound c (kinds ms) 14 (start c).st [] (by simp) hc hk
    obtain ⟨k, ks', hks, hnt⟩ := h2 rfl
    unfold allowed
    rw [hks] at h1 ⊢
    simp only [List.nil_append] at h1
    show ((!transparent c k) && lang c (List.filter (nt c) (k :: ks'))) = true
    rw [show (!transparent c k) = true from hnt, Bool.true_and]
    exact h1

/-- non-vacuity: honest traces are accepted (TLS 1.2 ECDHE server with client authentication and
    NPN; TLS 1.3 client after a HelloRetryRequest with compatibility CCS and a coalesced flight) -/
example : accepts { role := .server, ver := .tls, kx := .ecdhe, reqCert := true, clientCert := true,
                    tickets := false, npn := true, hrr := false, resume := .none, compCert := false,
                    hb := true, compat := false, keypair := false }
    [⟨.client_hello, 0, false, .whole⟩, ⟨.certificate, 0, false, .whole⟩, ⟨.client_key_exchange, 0, false, .whole⟩,
     ⟨.certificate_verify, 0, false, .whole⟩, ⟨.ccs, 0, false, .whole⟩, ⟨.next_protocol, 1, false, .whole⟩,
     ⟨.finished, 1, false, .whole⟩] = true := by decide

example : accepts { role := .client, ver := .tls13, kx := .ecdhe, reqCert := false, clientCert := false,
                    tickets := false, npn := false, hrr := true, resume := .none, compCert := true,
                    hb := true, compat := true, keypair := false }
    [⟨.hrr, 0, false, .whole⟩, ⟨.ccs, 0, false, .whole⟩, ⟨.server_hello, 0, false, .whole⟩, ⟨.encrypted_extensions, 1, true, .whole⟩,
     ⟨.compressed_certificate, 1, true, .whole⟩, ⟨.certificate_verify, 1, true, .whole⟩, ⟨.finished, 1, false, .whole⟩] = true := by
  decide

/-! ### 2. regression theorems for the order defects found with this model
    (each was a counterexample to `accepted_in_grammar` on an earlier tree and is demonstrated on
    the real code by the harness when it returns) -/

def tls12Server : Cfg :=
  { role := .server, ver := .tls, kx := .ecdhe, reqCert := false, clientCert := false, tickets := false,
    npn := false, hrr := false, resume := .none, compCert := false, hb := true, compat := false, keypair := false }

def tls12Client (tickets : Bool) : Cfg :=
  { role := .client, ver := .tls, kx := .ecdhe, reqCert := false, clientCert := false, tickets := tickets,
    npn := false, hrr := false, resume := .none, compCert := false, hb := true, compat := false, keypair := false }

/-- a server no longer takes a NewSessionTicket from the client before ChangeCipherSpec
    (`_getFinished` was shared by both roles): fatal `unexpected_message` at that message -/
theorem server_rejects_client_new_session_ticket :
    let r := run tls12Server (start tls12Server)
      [⟨.client_hello, 0, false, .whole⟩, ⟨.client_key_exchange, 0, false, .whole⟩, ⟨.new_session_ticket, 0, false, .whole⟩,
       ⟨.ccs, 0, false, .whole⟩, ⟨.finished, 1, false, .whole⟩]
    r.st = .dead ∧ r.alert = some .unexpected_message ∧ r.acc = 2 ∧ r.hsDone = false := by
  decide

/-- a ClientHello between ClientKeyExchange and ChangeCipherSpec is no longer dropped with a
    `no_renegotiation` warning (the renegotiation branch of `_getMsg` needs `not self.closed`) -/
theorem server_rejects_client_hello_before_ccs :
    let r := run tls12Server (start tls12Server)
      [⟨.client_hello, 0, false, .whole⟩, ⟨.client_key_exchange, 0, false, .whole⟩, ⟨.client_hello, 0, false, .whole⟩,
       ⟨.ccs, 0, false, .whole⟩, ⟨.finished, 1, false, .whole⟩]
    r.st = .dead ∧ r.alert = some .unexpected_message ∧ r.warns = 0 ∧ r.hsDone = false := by
  decide

/-- a client takes a NewSessionTicket exactly when the ServerHello announced it (RFC 5077 §3.3) -/
theorem client_rejects_unnegotiated_new_session_ticket :
    accepts (tls12Client false)
      [⟨.server_hello, 0, false, .whole⟩, ⟨.certificate, 0, false, .whole⟩, ⟨.server_key_exchange, 0, false, .whole⟩,
       ⟨.server_hello_done, 0, false, .whole⟩, ⟨.new_session_ticket, 0, false, .whole⟩, ⟨.ccs, 0, false, .whole⟩,
       ⟨.finished, 1, false, .whole⟩] = false := by decide

theorem client_requires_negotiated_new_session_ticket :
    accepts (tls12Client true)
      [⟨.server_hello, 0, false, .whole⟩, ⟨.certificate, 0, false, .whole⟩, ⟨.server_key_exchange, 0, false, .whole⟩,
       ⟨.server_hello_done, 0, false, .whole⟩, ⟨.ccs, 0, false, .whole⟩, ⟨.finished, 1, false, .whole⟩] = false ∧
    accepts (tls12Client true)
      [⟨.server_hello, 0, false, .whole⟩, ⟨.certificate, 0, false, .whole⟩, ⟨.server_key_exchange, 0, false, .whole⟩,
       ⟨.server_hello_done, 0, false, .whole⟩, ⟨.new_session_ticket, 0, false, .whole⟩, ⟨.ccs, 0, false, .whole⟩,
       ⟨.finished, 1, false, .whole⟩] = true := by decide

/-! ### 3. a deviation aborts before any application data -/

/-- From every position of every handshake, for every incoming piece (any kind, any key epoch, any
    coalescing or fragmentation), record layer, defragmenter, `_getMsg` and the flow do one of:
    accept the message in order (`next`), drop one of the transparent records (`ignore`: TLS 1.3
    compatibility CCS, negotiated heartbeat), keep the head of a fragmented handshake message in
    the defragmenter (`buffer`: nothing is handed out yet), or end the connection — with a fatal
    alert of ours (`abort`, or `acceptAbort` when the flow rejects what `_getMsg` handed out), or
    because the message itself is an alert from the peer.  Nothing is delivered to the caller,
    nothing is processed as a post-handshake message, and a renegotiation warning is never the
    answer. -/
theorem deviation_aborts_before_data (c : Cfg) (r : Run) (m : Msg)
    (hs : r.st.isPost = false) (hd : r.st ≠ .dead) :
    (∃ s' b, step c r m = .next s' b) ∨ step c r m = .ignore ∨ step c r m = .buffer m.kind ∨
    (∃ a, step c r m = .abort a) ∨ (∃ a, step c r m = .acceptAbort a) ∨
    ((step c r m = .peerClosed ∨ step c r m = .acceptClosed) ∧ m.kind.isAlert = true) := by
  rcases step_cases c r m with h | ⟨a, h⟩ | ⟨a, h, _⟩ | h | ⟨h, _⟩
  · rw [h]
    have hk : stepK0 c r.st r.outstanding m.kind = (stepHs c r.st m.kind).toOut := by
      revert hs hd; cases r.st <;> simp [St.isPost, stepK0]
    rw [hk]
    unfold stepHs
    by_cases h1 : (m.kind == MsgKind.ccs && v13Active c r.st && expectsHandshake c r.st) = true
    · simp [h1, HsOut.toOut]
    · simp only [h1]
      by_cases h2 : m.kind.isAlert = true
      · simp only [h2, if_true]
        repeat' split
        all_goals simp [HsOut.toOut, h2]
      · simp only [h2]
        repeat' split
        all_goals simp [HsOut.toOut]
  · exact Or.inr (Or.inr (Or.inr (Or.inl ⟨a, h⟩)))
  · exact Or.inr (Or.inr (Or.inr (Or.inr (Or.inl ⟨a, h⟩))))
  · exact Or.inr (Or.inr (Or.inl h))
  · exact Or.inr (Or.inr (Or.inr (Or.inr (Or.inl ⟨_, h⟩))))

/-- application data is never enabled before completion: always a fatal alert -/
theorem app_data_never_enabled_before_completion (c : Cfg) (r : Run) (m : Msg)
    (hk : m.kind = .app_data) (hs : r.st.isPost = false) (hd : r.st ≠ .dead) :
    ∃ a, step c r m = .abort a := by
  rcases step_cases c r m with h | ⟨a, h⟩ | ⟨a, _, hf⟩ | h | ⟨_, hc⟩
  · refine ⟨.unexpected_message, ?_⟩
    rw [h]
    have hk0 : stepK0 c r.st r.outstanding m.kind = (stepHs c r.st m.kind).toOut := by
      revert hs hd; cases r.st <;> simp [St.isPost, stepK0]
    rw [hk0, hk]
    simp [stepHs, MsgKind.isAlert, HsOut.toOut]
  · exact ⟨a, h⟩
  · rw [hk] at hf; simp [firstHello] at hf
  · -- an application-data record is never buffered as a handshake fragment
    exfalso
    rcases step_shape c r m with ⟨p, hs', _⟩ | ⟨_, hh⟩ | ⟨a, hs'⟩ | ⟨hs', _, _, _⟩
    · rw [hs'] at h
      have := (stepK_hs c r.st r.outstanding m.kind p hs).2.2.2.2 m.kind
      exact this h
    · simp [Msg.isHead, hk, MsgKind.isHandshake] at hh
    · rw [hs'] at h; cases h
    · rw [hs'] at h; cases h
  · rw [hk] at hc; cases hc

/-- run level: whatever is sent to an endpoint, as long as it has not completed the handshake it
    has delivered no application data; a fatal alert of ours always means the connection is dead
    and closed -/
theorem no_data_before_completion (c : Cfg) (ms : List Msg) :
    let r := run c (start c) ms
    (r.hsDone = false → r.delivered = 0) ∧ (r.alert.isSome = true → r.st = .dead ∧ r.closed = true) := by
  have h := inv_run c ms (start c) (inv_start c)
  exact ⟨fun hh => (h.noData hh).1, h.alertDead⟩

/-- the first message that is not enabled ends the handshake with a fatal alert, a closed
    connection and zero delivered bytes, whatever follows -/
theorem first_deviation_is_final (c : Cfg) (pre post : List Msg) (m : Msg) (a : Alert)
    (hpre : (run c (start c) pre).hsDone = false) (hlive : (run c (start c) pre).st ≠ .dead)
    (hdev : step c (run c (start c) pre) m = .abort a ∨ step c (run c (start c) pre) m = .acceptAbort a) :
    let r := run c (start c) (pre ++ m :: post)
    r.st = .dead ∧ r.alert = some a ∧ r.closed = true ∧ r.delivered = 0 ∧ r.hsDone = false := by
  have hinv := inv_run c pre (start c) (inv_start c)
  generalize hr0 : run c (start c) pre = r0 at *
  have hsplit : run c (start c) (pre ++ m :: post) = run c (feed c r0 m) post := by
    simp only [run, List.foldl_append, List.foldl_cons] at hr0 ⊢
    rw [hr0]
  have hnd : (r0.st == St.dead) = false := by simpa using hlive
  obtain ⟨_, f2, f3, _, _, _, _, _, _, _⟩ := pre_fields c r0 m
  have hfeed : (feed c r0 m).st = .dead ∧ (feed c r0 m).alert = some a ∧ (feed c r0 m).closed = true ∧
      (feed c r0 m).delivered = 0 ∧ (feed c r0 m).hsDone = false := by
    unfold feed
    simp only [hnd]
    rcases hdev with e | e <;> rw [e] <;> simp [apply, f2, f3, hpre, (hinv.noData hpre).1]
  simp only []
  rw [hsplit, run_dead c post _ hfeed.1]
  exact hfeed

/-! ### 4. renegotiation is refused -/

/-- After completion no input re-enters the handshake automaton: for every further sequence of
    pieces the position stays a post-handshake one (`readAsync`, inside a post-handshake
    authentication flight, close-wait) or becomes `dead`, and the completion record is never
    rewritten (no second `_handshakeDone`). -/
theorem renegotiation_refused (c : Cfg) (ms more : List Msg)
    (h : (run c (start c) ms).st = .done) :
    let r := run c (start c) (ms ++ more)
    (r.st.isPost = true ∨ r.st = .dead) ∧ r.accAtDone = (run c (start c) ms).accAtDone ∧ r.hsDone = true := by
  have hinv := inv_run c ms (start c) (inv_start c)
  have hsplit : run c (start c) (ms ++ more) = run c (run c (start c) ms) more := by
    simp [run, List.foldl_append]
  have hp : (run c (start c) ms).st.isPost = true := by rw [h]; rfl
  simp only []
  rw [hsplit]
  exact post_stays c more _ hp (hinv.atDone hp).1

/-- the answer to the renegotiation attempt itself (ClientHello to a server, HelloRequest to a
    client) on an established connection: a `no_renegotiation` warning and the message is dropped
    (≤ TLS 1.2), or a fatal `unexpected_message` (TLS 1.3) — never a new handshake -/
theorem renegotiation_attempt_answer (c : Cfg) (r : Run) (m : Msg)
    (hst : r.st = .done) (hpend : r.pending = none) (hpart : m.part = .whole)
    (hk : (c.role = .server ∧ m.kind = .client_hello) ∨ (c.role = .client ∧ m.kind = .hello_request))
    (he : m.epoch = r.epoch) :
    step c r m = (if c.isTls13 then .abort .unexpected_message else .warn) := by
  have heo : epochOk c r m = true := by simp [epochOk, he]
  have hhs : m.kind.isHandshake = true := by
    rcases hk with ⟨_, hkk⟩ | ⟨_, hkk⟩ <;> rw [hkk] <;> rfl
  unfold step
  simp only [heo, hhs, hpart, hpend, hst, Bool.not_true, Bool.false_eq_true, if_false, if_true]
  simp only [show (Part.whole == Part.head) = false from rfl, show (Part.whole == Part.tail) = false from rfl,
    Option.isNone_none, if_true, Bool.false_eq_true, if_false]
  unfold stepK
  simp only [stepK0, v13Active]
  by_cases h13 : c.isTls13 = true
  · rcases hk with ⟨hr, hkk⟩ | ⟨hr, hkk⟩ <;> rw [hkk] <;>
      simp [stepDone, renegAttempt, MsgKind.isAlert, h13, hr, mustAlign, Out.accepted, firstHello, PostOut.toOut]
  · have h13' : c.isTls13 = false := by simpa using h13
    rcases hk with ⟨hr, hkk⟩ | ⟨hr, hkk⟩ <;> rw [hkk] <;>
      simp [stepDone, renegAttempt, MsgKind.isAlert, h13', hr, mustAlign, Out.accepted, firstHello, PostOut.toOut]

/-- `_handshakeStart` on an open connection raises -/
theorem handshakeStart_open_raises (c : Cfg) (ms : List Msg) (h : (run c (start c) ms).st = .done) :
    ∃ e, handshakeStart (run c (start c) ms) = .error e := by
  have hinv := inv_run c ms (start c) (inv_start c)
  have := (hinv.atDone (by rw [h]; rfl)).2
  exact ⟨"Renegotiation disallowed for security reasons", by simp [handshakeStart, this]⟩

/-- non-vacuity: a completed TLS 1.2 handshake, then ClientHello + data: one warning, the data is
    delivered, still `done`; and `_handshakeStart` refuses -/
example :
    let r := run tls12Server (start tls12Server)
      [⟨.client_hello, 0, false, .whole⟩, ⟨.client_key_exchange, 0, false, .whole⟩, ⟨.ccs, 0, false, .whole⟩,
       ⟨.finished, 1, false, .whole⟩, ⟨.client_hello, 1, false, .whole⟩, ⟨.app_data, 1, false, .whole⟩]
    r.st = .done ∧ r.warns = 1 ∧ r.delivered = 1 ∧ r.accAtDone = 4 ∧
    (match handshakeStart r with | .error _ => true | .ok _ => false) = true := by decide

/-! ### 5. the post-handshake phase -/

/-- After `_handshakeDone`, for every sequence of ANY length of incoming pieces and local actions
    (`request_post_handshake_auth`, `close()` with `closeSocket = False`): as long as the endpoint
    has sent no fatal alert, what it took is a (prefix of a) sequence the post-handshake grammar
    `postSpec` permits — TLS 1.3: KeyUpdate either way; NewSessionTicket and (with a key pair)
    CertificateRequest to a client only; to a server only the answer to an outstanding
    CertificateRequest, as the consecutive flight Certificate [CertificateVerify] Finished;
    ≤ 1.2: renegotiation attempts (refused), heartbeat; after close: what may still be in flight
    until the peer's alert. -/
theorem post_handshake_in_grammar (c : Cfg) (ms : List Msg) (es : List Ev)
    (h : (run c (start c) ms).st = .done)
    (hok : (runEv c (run c (start c) ms) es).alert = none) :
    postAllowed c (run c (start c) ms).outstanding es = true := by
  have hinv := inv_run c ms (start c) (inv_start c)
  generalize run c (start c) ms = r0 at *
  have hna : r0.alert = none := by
    cases ha : r0.alert with
    | none => rfl
    | some a => have := (hinv.alertDead (by rw [ha]; rfl)).1; rw [h] at this; cases this
  have := post_run c es r0 (Or.inl (by rw [h]; rfl)) hna hok
  unfold postAllowed
  have habs : absP r0 = .idle r0.outstanding := by simp [absP, h]
  rw [← habs, this]; rfl

/-- …and conversely every deviation is fatal: if the events are not a permitted post-handshake
    sequence, the endpoint has sent a fatal alert (and, by `no_data_before_completion`'s invariant,
    is dead and closed) — whatever the key epochs, coalescing or fragmentation. -/
theorem post_handshake_deviation_fatal (c : Cfg) (ms : List Msg) (es : List Ev)
    (h : (run c (start c) ms).st = .done)
    (hbad : postAllowed c (run c (start c) ms).outstanding es = false) :
    (runEv c (run c (start c) ms) es).alert.isSome = true := by
  cases ha : (runEv c (run c (start c) ms) es).alert with
  | some a => rfl
  | none =>
    have := post_handshake_in_grammar c ms es h ha
    rw [this] at hbad; cases hbad

/-- non-vacuity: a TLS 1.3 server asks for post-handshake authentication and takes the flight;
    the same flight without its CertificateVerify, or a KeyUpdate inside it, is fatal -/
def tls13ServerKp : Cfg :=
  { role := .server, ver := .tls13, kx := .ecdhe, reqCert := false, clientCert := false, tickets := false,
    npn := false, hrr := false, resume := .none, compCert := true, hb := true, compat := true, keypair := true }

example :
    let hs : List Ev := [.msg ⟨.client_hello, 0, false, .whole⟩, .msg ⟨.ccs, 0, false, .whole⟩,
                         .msg ⟨.finished, 1, false, .whole⟩]
    let ok := runEv tls13ServerKp (start tls13ServerKp)
      (hs ++ [.requestPha, .msg ⟨.compressed_certificate, 2, false, .whole⟩,
              .msg ⟨.certificate_verify, 2, false, .whole⟩, .msg ⟨.finished, 2, false, .whole⟩,
              .msg ⟨.app_data, 2, false, .whole⟩])
    let skip := runEv tls13ServerKp (start tls13ServerKp)
      (hs ++ [.requestPha, .msg ⟨.compressed_certificate, 2, false, .whole⟩, .msg ⟨.finished, 2, false, .whole⟩])
    let ku := runEv tls13ServerKp (start tls13ServerKp)
      (hs ++ [.requestPha, .msg ⟨.compressed_certificate, 2, false, .whole⟩, .msg ⟨.key_update, 2, false, .whole⟩])
    ok.st = .done ∧ ok.outstanding = 0 ∧ ok.delivered = 1 ∧ ok.alert = none ∧
    skip.alert = some .unexpected_message ∧ ku.alert = some .unexpected_message := by decide

/-! ### 6. no handshake message spans a key change -/

/-- For every version, position, defragmenter content and incoming piece: whenever the endpoint
    installs new read keys (ChangeCipherSpec in ≤ 1.2; ServerHello / ClientHello / Finished /
    KeyUpdate in TLS 1.3), nothing else is buffered — before, at most the head of the very message
    that completes now; after, nothing — and a handshake message that triggers the change is
    complete and ends its record.  Hence no handshake message starts under one key epoch and ends
    under another. -/
theorem no_message_spans_key_change (c : Cfg) (r : Run) (m : Msg) (hlive : r.st ≠ .dead)
    (hb : (feed c r m).epoch ≠ r.epoch) :
    (feed c r m).pending = none ∧
    (r.pending = none ∨ (m.part = .tail ∧ m.kind.isHandshake = true ∧ r.pending = some m.kind)) ∧
    (m.kind.isHandshake = true → m.plus = false ∧ m.part ≠ .head) :=
  feed_key_change c r m hlive hb

/-- the regression behind it (≤ 1.2, fixed in tlslite-ng 68f117a): the head of Finished before the
    ChangeCipherSpec and the rest after it is refused when the CCS is taken; TLS 1.3 (eab5433): a
    ServerHello whose record also carries the head of EncryptedExtensions -/
theorem finished_must_not_span_ccs :
    let r := run tls12Server (start tls12Server)
      [⟨.client_hello, 0, false, .whole⟩, ⟨.client_key_exchange, 0, false, .whole⟩,
       ⟨.finished, 0, false, .head⟩, ⟨.ccs, 0, false, .whole⟩, ⟨.finished, 1, false, .tail⟩]
    r.st = .dead ∧ r.alert = some .unexpected_message ∧ r.epoch = 0 ∧ r.hsDone = false := by decide

/-- `_middlebox_compat_mode` is cleared at completion on both roles, whatever the client's
    legacy_session_id was (`compat`): on an established connection (`readAsync`, inside a
    post-handshake authentication flight, close-wait) a ChangeCipherSpec — protected or not — is
    never dropped: fatal `unexpected_message` (or, under foreign keys / glued to a buffered
    fragment in ≤ 1.2 nothing, `wrong_epoch`).  For EVERY configuration. -/
theorem late_ccs_fatal (c : Cfg) (r : Run) (m : Msg) (hp : r.st.isPost = true) (hk : m.kind = .ccs) :
    ∃ a, step c r m = .abort a := by
  rcases step_shape c r m with ⟨p, hs, _⟩ | ⟨_, hh⟩ | ⟨a, hs⟩ | ⟨_, _, _, hx⟩
  · rw [hs]
    rcases stepK_plus c r.st r.outstanding m.kind p with e | e | ⟨_, hf⟩
    · rw [e, stepK0_post c r.st r.outstanding m.kind hp, hk]
      refine ⟨.unexpected_message, ?_⟩
      unfold stepPost
      cases hst : r.st <;> simp [hst, St.isPost] at hp <;>
        simp [stepDone, stepPha, stepClosing, MsgKind.isAlert, PostOut.toOut]
    · exact ⟨_, e⟩
    · rw [hk] at hf; simp [firstHello] at hf
  · simp [Msg.isHead, hk, MsgKind.isHandshake] at hh
  · exact ⟨a, hs⟩
  · -- the ≤ 1.2 `_getFinished` refusal needs a position that expects a CCS: not a post-handshake one
    exfalso
    revert hx hp
    cases r.st <;> simp [St.isPost, expectsCCS]

/-! ### 7. tie by regeneration

  `TlsModel/Gen/Order.lean` is rewritten on every run by translate/gen_order.py from the AST of
  tlslite/tlsconnection.py (the two handshake helpers and the thirteen flow functions they call: every
  `_getMsg` with its expected content / handshake types, the assignments to the variables that hold
  such types, the `if`s they sit under as named guard atoms, sends, key changes, defragmenter
  checks, order-level `_sendError`s, `_handshakeDone`) and of tlslite/tlsrecordlayer.py (`_getMsg`'s
  aligned types, `readAsync`'s dispatch).  `TlsModel/OrderGenEval.lean` (hand-written) executes
  these transcripts.  The theorems below hold of the REGENERATED data: an edit of the flows that
  changes what is expected where breaks them statically (or poisons the transcript). -/

open Gen in
def genOk (c : Cfg) : Bool :=
  matchesGrammar c && noExtraType c && keyChangesGuarded c && postDispatchMatches c

theorem gen_check_client_tls13 : (cfgsOf .client .tls13).all genOk = true := by decide +kernel
theorem gen_check_server_tls13 : (cfgsOf .server .tls13).all genOk = true := by decide +kernel
theorem gen_check_client_tls : (cfgsOf .client .tls).all genOk = true := by decide +kernel
theorem gen_check_server_tls : (cfgsOf .server .tls).all genOk = true := by decide +kernel
theorem gen_check_client_ssl3 : (cfgsOf .client .ssl3).all genOk = true := by decide +kernel
theorem gen_check_server_ssl3 : (cfgsOf .server .ssl3).all genOk = true := by decide +kernel

theorem genOk_of_valid (c : Cfg) (h : c.valid = true) : genOk c = true := by
  have hm := mem_cfgsOf c h
  have key : ∀ (l : List Cfg), l.all genOk = true → c ∈ l → genOk c = true :=
    fun l hl hc => List.all_eq_true.mp hl c hc
  cases hr : c.role <;> cases hv : c.ver <;> rw [hr, hv] at hm
  · exact key _ gen_check_client_ssl3 hm
  · exact key _ gen_check_client_tls hm
  · exact key _ gen_check_client_tls13 hm
  · exact key _ gen_check_server_ssl3 hm
  · exact key _ gen_check_server_tls hm
  · exact key _ gen_check_server_tls13 hm

/-- For every valid configuration the regenerated expectation sequences, run by the evaluator,
    complete on exactly the sentences of the grammar `lang c` (every completed path is a sentence,
    every sentence is a completed path — except the `Gen.stricter` ones: CertificateRequest in an
    SRP+certificate suite and NextProtocol in a resumed handshake, which tlslite-ng refuses), no
    transcript is poisoned, and the flows end only by `_handshakeDone`. -/
theorem gen_expectations_match_grammar (c : Cfg) (hv : c.valid = true) : Gen.matchesGrammar c = true := by
  have := genOk_of_valid c hv
  simp only [genOk, Bool.and_eq_true] at this
  exact this.1.1.1

/-- …in particular every trace on which the transcribed flows reach `_handshakeDone` is permitted -/
theorem gen_completed_in_grammar (c : Cfg) (hv : c.valid = true) (t : List MsgKind) (k : Bool)
    (h : Gen.Res.path t true k ∈ Gen.genRun c) : lang c t = true := by
  have hm := gen_expectations_match_grammar c hv
  simp only [Gen.matchesGrammar, Bool.and_eq_true] at hm
  have hall := hm.1.1.2
  rw [List.all_eq_true] at hall
  apply hall
  simp only [Gen.completed, List.mem_filterMap]
  exact ⟨_, h, rfl⟩

/-- No `_getMsg` of the regenerated flows admits — and the flow keeps — a message type the grammar
    forbids at that point: every prefix with which the flows arrive at their next `_getMsg` (or
    complete) can still be extended to a sentence of the grammar.  (The edit of seeded mutant
    C06-r4-unsolicited-compressed-cert-after-certreq breaks exactly this.) -/
theorem gen_no_extra_type_admitted (c : Cfg) (hv : c.valid = true) : Gen.noExtraType c = true := by
  have := genOk_of_valid c hv
  simp only [genOk, Bool.and_eq_true] at this
  exact this.1.1.2

/-- Every `_changeReadState` of the regenerated flows is preceded, with no `_getMsg` in between, by
    a check that the defragmenter holds no handshake bytes — or by a `_getMsg` that itself checks the
    alignment (TLS 1.3, version already set, type in the regenerated `alignedTypes`); and every
    completed TLS 1.3 path has executed `_middlebox_compat_mode = False`. -/
theorem gen_key_change_guarded (c : Cfg) (hv : c.valid = true) : Gen.keyChangesGuarded c = true := by
  have := genOk_of_valid c hv
  simp only [genOk, Bool.and_eq_true] at this
  exact this.1.2

/-- The regenerated if/elif chain of `readAsync` admits exactly the post-handshake handshake types
    the automaton's `stepDone` takes, for every role, key pair, outstanding request and compression -/
theorem gen_post_dispatch_matches (c : Cfg) (hv : c.valid = true) : Gen.postDispatchMatches c = true := by
  have := genOk_of_valid c hv
  simp only [genOk, Bool.and_eq_true] at this
  exact this.2

end Tls.Order
