import TlsProofs.ConnDecide
import TlsProofs.ConnFrag
import TlsModel.Gen.Conn
/-
  C16 — post-handshake control traffic never disturbs the data stream or key sync.

  Model: TlsModel/Conn.lean (statement-order mirror of tlsrecordlayer.py's data plane).  Traffic
  keys are generation numbers; a record is accepted only at the generation it was protected under.
  A history is any list of (endpoint, operation); `Op.Honest` admits write, read, key-update
  (requested or not), request-client-auth, heartbeat, close by either endpoint, and messages of a
  faulty peer that are neither application data nor a well-formed KeyUpdate.
-/
namespace Tls.Conn

/-- Keys stay in step over EVERY honest history from a fresh connection: for each direction whose
    reader is still open, every record in flight carries the generation the reader will hold on
    reaching it, and (writer open) the writer's current generation is the one the reader arrives at. -/
theorem keys_in_step (w0 : World) (h0 : Fresh w0) (ops : List (Side × Op))
    (hh : ∀ o ∈ ops, o.2.Honest) :
    let w := run w0 ops
    (w.s.closed = false → Flight w.s.readGen w.c2s.recs ∧
        (w.c.closed = false → finalGen w.s.readGen w.c2s.recs = w.c.writeGen)) ∧
    (w.c.closed = false → Flight w.c.readGen w.s2c.recs ∧
        (w.s.closed = false → finalGen w.c.readGen w.s2c.recs = w.s.writeGen)) := by
  have h := run_inv w0 ops hh (fresh_inv h0)
  refine ⟨?_, ?_⟩
  · intro hs
    rcases h.c2sKeys with hc | ⟨hf, hw⟩
    · rw [hs] at hc; cases hc
    · refine ⟨hf, fun hc => ?_⟩
      rcases hw with hw | hw
      · rw [hc] at hw; cases hw
      · exact hw
  · intro hs
    rcases h.s2cKeys with hc | ⟨hf, hw⟩
    · rw [hs] at hc; cases hc
    · refine ⟨hf, fun hc => ?_⟩
      rcases hw with hw | hw
      · rw [hc] at hw; cases hw
      · exact hw

/-- Hence no bad_record_mac arises from honest traffic: whenever an open endpoint takes the next
    record off its channel after any honest history, the record-layer check passes. -/
theorem no_bad_record_mac (w0 : World) (h0 : Fresh w0) (ops : List (Side × Op))
    (hh : ∀ o ∈ ops, o.2.Honest) (who : Side)
    (ho : ((run w0 ops).endOf who).closed = false) :
    (nextRecord ((run w0 ops).view who)).1 ≠ .err (.localAlert 20) := by
  have h := keys_in_step w0 h0 ops hh
  cases who with
  | client => exact nextRecord_no_bad_mac (h.2 ho).1
  | server => exact nextRecord_no_bad_mac (h.1 ho).1

/-- Application data is delivered exactly and in order with control traffic interleaved: for an
    open reader (not in the middle of `close`), returned ++ buffered ++ in flight = written. -/
theorem stream_fifo_control (w0 : World) (h0 : Fresh w0) (ops : List (Side × Op))
    (hh : ∀ o ∈ ops, o.2.Honest) :
    let w := run w0 ops
    (w.s.closed = false → w.s.closing = false →
        w.s.got ++ w.s.readBuf ++ appBytes w.c2s.recs = w.c.wrote) ∧
    (w.c.closed = false → w.c.closing = false →
        w.c.got ++ w.c.readBuf ++ appBytes w.s2c.recs = w.s.wrote) := by
  have h := run_inv w0 ops hh (fresh_inv h0)
  refine ⟨?_, ?_⟩
  · intro hc hcl
    rcases h.c2sFifo with hx | ⟨rest, h1, h2⟩
    · rw [hcl] at hx; cases hx
    · rw [← h2 hc]; exact h1
  · intro hc hcl
    rcases h.s2cFifo with hx | ⟨rest, h1, h2⟩
    · rw [hcl] at hx; cases hx
    · rw [← h2 hc]; exact h1

/-- ... and what a reader has been given is always a prefix of what the peer wrote, closed or not. -/
theorem delivered_is_prefix (w0 : World) (h0 : Fresh w0) (ops : List (Side × Op))
    (hh : ∀ o ∈ ops, o.2.Honest) :
    let w := run w0 ops
    (w.s.closing = false → ∃ rest, w.s.got ++ w.s.readBuf ++ rest = w.c.wrote) ∧
    (w.c.closing = false → ∃ rest, w.c.got ++ w.c.readBuf ++ rest = w.s.wrote) := by
  have h := run_inv w0 ops hh (fresh_inv h0)
  refine ⟨?_, ?_⟩
  · intro hcl
    rcases h.c2sFifo with hx | ⟨rest, h1, _⟩
    · rw [hcl] at hx; cases hx
    · exact ⟨rest, h1⟩
  · intro hcl
    rcases h.s2cFifo with hx | ⟨rest, h1, _⟩
    · rw [hcl] at hx; cases hx
    · exact ⟨rest, h1⟩


/-! ### non-vacuity of the history theorems: a concrete TLS 1.3 world and history -/

def exWorld : World :=
  { c := { isClient := true, ver13 := true, hasKeypair := true, myChain := 1, hbSupported := true,
           hbCanSend := true, hbCanRecv := true, hbCallback := true },
    s := { isClient := false, ver13 := true, phaSupported := true, hbSupported := true,
           hbCanSend := true, hbCanRecv := true, hbCallback := true } }

def exHistory : List (Side × Op) :=
  [(.client, .keyUpdate true), (.server, .keyUpdate false), (.client, .write [1, 2, 3]),
   (.server, .read (some 2) 1), (.server, .requestClientAuth 0), (.client, .read none 0),
   (.server, .read none 0), (.server, .read none 0), (.client, .heartbeat [9, 9] 16),
   (.server, .read none 0), (.client, .read none 0), (.server, .inject (.hsOther 1))]

example : Fresh exWorld := by constructor <;> rfl
example : ∀ o ∈ exHistory, o.2.Honest := by
  intro o ho
  simp [exHistory] at ho
  rcases ho with rfl | rfl | rfl | rfl | rfl | rfl | rfl | rfl | rfl | rfl | rfl | rfl <;> simp [Op.Honest, bump, payload]
/-- simultaneous KeyUpdates, buffered data, PHA and a heartbeat: outputs and final generations -/
example : outs exWorld exHistory =
    [.done, .done, .done, .bytes [1, 2], .done, .bytes [], .bytes [3], .bytes [], .done, .stall, .stall,
     .done] := by
  decide +kernel
example : (run exWorld exHistory).s.readGen = 1 ∧ (run exWorld exHistory).s.writeGen = 2 ∧
    (run exWorld exHistory).c.readGen = 2 ∧ (run exWorld exHistory).c.writeGen = 1 ∧
    (run exWorld exHistory).s.chainSet = true ∧ (run exWorld exHistory).c.hbLog = [([9, 9], 16)] ∧
    (run exWorld exHistory).s.got = [1, 2, 3] := by decide +kernel
/-- the mutant "advance the write key BEFORE sending KeyUpdate" is excluded by `Flight`: a KeyUpdate
    record protected under the new generation is not in step -/
example : ¬ Flight 0 [⟨1, .keyUpdate 0⟩] := by simp [Flight]

/-- A heartbeat request is answered with exactly its payload (and 16 bytes of padding), under the
    current write generation; a request with less than 16 bytes of padding is dropped silently.  Holds
    in every receive context that does not itself expect heartbeat records (all of them). -/
theorem heartbeat_echo_exact (e s : List Nat) (l : Local) (p : Bytes) (n : Nat) (rest : List Rec)
    (hopen : l.me.closed = false) (htx : l.me.txDead = false)
    (hin : l.inc.recs = ⟨l.me.readGen, .heartbeat 1 p n⟩ :: rest)
    (he : e.contains 24 = false) (hs : l.me.hbSupported = true) (hr : l.me.hbCanRecv = true) :
    getMsgStep e s l = (.ok .again,
      if n < 16 then popped l rest
      else { popped l rest with
             out := { l.out with recs := l.out.recs ++ [⟨l.me.writeGen, .heartbeat 2 p 16⟩] } }) := by
  unfold getMsgStep
  rw [nextRecord_head l _ rest hin (by simp) (by simp)]
  have ho : (popped l rest).me.closed = false := hopen
  have ht : (popped l rest).me.txDead = false := htx
  by_cases hn : n < 16
  · simp_all [Msg.ct, Msg.hsType, popped, sendRaw]
  · simp_all [Msg.ct, Msg.hsType, popped, sendRaw]
    have : ¬ n < 16 := by omega
    simp [this]

/-- the response reaches the requester's callback unchanged -/
theorem heartbeat_response_to_callback (e s : List Nat) (l : Local) (p : Bytes) (n : Nat) (rest : List Rec)
    (hin : l.inc.recs = ⟨l.me.readGen, .heartbeat 2 p n⟩ :: rest)
    (he : e.contains 24 = false) (hs : l.me.hbSupported = true) (hc : l.me.hbCallback = true) :
    getMsgStep e s l = (.ok .again,
      { popped l rest with me := { l.me with hbLog := l.me.hbLog ++ [(p, n)] } }) := by
  unfold getMsgStep
  rw [nextRecord_head l _ rest hin (by simp) (by simp)]
  simp_all [Msg.ct, Msg.hsType, popped]

example : (getMsgStep [23, 22] [4, 24] ⟨exWorld.s, ⟨[⟨0, .heartbeat 1 [7, 8, 9] 20⟩], false⟩, {}⟩).2.out.recs
    = [⟨0, .heartbeat 2 [7, 8, 9] 16⟩] := by decide +kernel

/-- Post-handshake authentication records the client's chain only after its signature and Finished
    verified: whenever `_handle_srv_pha` turns `session.clientCertChain` from unset to set, it
    returned normally, the chain is the one of the Certificate message, the context was a non-empty
    outstanding one, the next handshake message was a CertificateVerify passing all three checks
    (advertised algorithm, consistent with the key, signature valid) when a certificate was sent,
    and the one after it a Finished whose MAC verified. -/
theorem pha_chain_after_verify (ctx chain : Nat) (l l' : Local) (r : Res Unit)
    (h : handleSrvPha ctx chain l = (r, l')) (h0 : l.me.chainSet = false) (h1 : l'.me.chainSet = true) :
    let l1 : Local := { l with me := { l.me with certReqs := l.me.certReqs.erase ctx } }
    r = .ok () ∧ l'.me.clientChain = chain ∧ ctx ≠ 0 ∧ l.me.certReqs.contains ctx = true ∧
    (chain ≠ 0 → ∃ l2 l3, getMsg [22] [15] (fuelOf l1) l1 = (.ok (.certVerify true true true), l2) ∧
        getMsg [22] [20] (fuelOf l2) l2 = (.ok (.finished true), l3)) ∧
    (chain = 0 → l.me.certRequired = false ∧
        ∃ l3, getMsg [22] [20] (fuelOf l1) l1 = (.ok (.finished true), l3)) :=
  pha_chain_after_verify_aux ctx chain l l' r h h0 h1

/-- a server with outstanding request 1 and the three client messages in its channel -/
def exPha (sigOk finOk : Bool) : Local :=
  ⟨{ exWorld.s with certReqs := [1] },
   ⟨[⟨0, .certVerify true true sigOk⟩, ⟨0, .finished finOk⟩], false⟩, {}⟩

example : (handleSrvPha 1 1 (exPha true true)).2.me.chainSet = true := by decide +kernel
example : (handleSrvPha 1 1 (exPha false true)).2.me.chainSet = false ∧
    (handleSrvPha 1 1 (exPha false true)).2.me.closed = true := by decide +kernel
example : (handleSrvPha 1 1 (exPha true false)).2.me.chainSet = false ∧
    (handleSrvPha 1 1 (exPha true false)).2.me.closed = true := by decide +kernel

/-- Malformed, unsolicited or mode-forbidden control messages are answered with a fatal alert:
    for every message class `fatalDesc` names (KeyUpdate with an invalid request byte or outside
    TLS 1.3, unparsable KeyUpdate / NewSessionTicket, heartbeat when not negotiated or when the mode
    forbids it, CertificateRequest to a client without key pair, Certificate without / with empty /
    with unknown request context, stray CertificateVerify / Finished / ClientHello / HelloRequest,
    CCS, empty and unknown-type records), an open endpoint that reads it raises TLSLocalAlert with
    that description, has sent exactly that fatal alert, is closed, its session is not resumable,
    and nothing was delivered to the application. -/
theorem unsolicited_control_fatal (l : Local) (m : Msg) (rest : List Rec) (d : Nat)
    (mx : Option Nat) (mn : Nat)
    (hopen : l.me.closed = false) (htx : l.me.txDead = false) (hbuf : l.me.readBuf = [])
    (hin : l.inc.recs = ⟨l.me.readGen, m⟩ :: rest) (hd : fatalDesc l.me m = some d) :
    (read mx mn l).1 = .err (.localAlert d) ∧ (read mx mn l).2.me.closed = true ∧
    (read mx mn l).2.me.resumable = false ∧
    (read mx mn l).2.out.recs = l.out.recs ++ [⟨l.me.writeGen, .alert 2 d⟩] ∧
    (read mx mn l).2.me.got = l.me.got := by
  have hi := readIter_fatal l m rest d hopen htx hin hd
  have hr := read_of_iter_err l _ mx mn (.localAlert d) hopen hbuf (by simpa [hopen] using hi)
    (by simp) (by simp)
  rw [hr]
  refine ⟨rfl, ?_, ?_, ?_, ?_⟩
  · simp [shutdown_me]
  · simp [shutdown_me]
  · simp only [shutdown_out_recs, fatalOn]; rfl
  · simp [shutdown_me, fatalOn, popped]

example : fatalDesc exWorld.c (.keyUpdate 2) = some 47 ∧ fatalDesc exWorld.s (.certificate 0 1) = some 10 ∧
    fatalDesc { exWorld.c with hasKeypair := false } (.certRequest 5 0) = some 10 ∧
    fatalDesc { exWorld.c with hbSupported := false } (.heartbeat 1 [1] 16) = some 10 := by decide

/-- the hypotheses are satisfiable: a client whose next record is KeyUpdate with request byte 2 -/
example : (runLocal (.read none 0) ⟨exWorld.c, ⟨[⟨0, .keyUpdate 2⟩], false⟩, {}⟩).1 = .err (.localAlert 47) ∧
    (runLocal (.read none 0) ⟨exWorld.c, ⟨[⟨0, .keyUpdate 2⟩], false⟩, {}⟩).2.out.recs = [⟨0, .alert 2 47⟩] := by
  decide +kernel

/-- a NewSessionTicket sent by the CLIENT is fatal for a TLS 1.3 server, while a client stores it -/
example : fatalDesc exWorld.s .newSessionTicket = some 10 ∧ fatalDesc exWorld.c .newSessionTicket = none := by decide
example : (read none 0 ⟨exWorld.c, ⟨[⟨0, .newSessionTicket⟩], false⟩, {}⟩).2.me.tickets = 1 := by decide +kernel


/-! ### fragment level: messages cut into several records (recordSize, record_size_limit) -/

/-- Reassembly inverts fragmentation: whatever number of pieces `_sendMsg` cuts each handshake
    message into (KeyUpdate over two records, a Certificate over many, ...), the defragmenter hands
    the read loop exactly the messages that were sent, in order, and ends empty. -/
theorem reassembly_inverts_fragmentation (ver13 : Bool) (nf : Msg → Nat) (recs : List Rec) :
    reasm ver13 none (recs.flatMap (fragRec nf)) = .ok (recs, none) :=
  reasm_fragRec ver13 nf recs

/-- `keys_in_step` over fragment sequences: after every honest history and for EVERY fragmentation
    of what is in flight, each record (fragment or whole message) carries the generation the reader
    holds on reaching it; the reader's generation moves only when a KeyUpdate is complete. -/
theorem keys_in_step_fragments (w0 : World) (h0 : Fresh w0) (ops : List (Side × Op))
    (hh : ∀ o ∈ ops, o.2.Honest) (nf : Msg → Nat) :
    let w := run w0 ops
    (w.s.closed = false → FlightF w.s.readGen (w.c2s.recs.flatMap (fragRec nf))) ∧
    (w.c.closed = false → FlightF w.c.readGen (w.s2c.recs.flatMap (fragRec nf))) := by
  have h := keys_in_step w0 h0 ops hh
  exact ⟨fun hc => flight_fragments nf _ _ (h.1 hc).1, fun hc => flight_fragments nf _ _ (h.2 hc).1⟩

/-- `stream_fifo_control` over fragment sequences -/
theorem stream_fifo_fragments (w0 : World) (h0 : Fresh w0) (ops : List (Side × Op))
    (hh : ∀ o ∈ ops, o.2.Honest) (nf : Msg → Nat) :
    let w := run w0 ops
    (w.s.closed = false → w.s.closing = false →
        w.s.got ++ w.s.readBuf ++ appBytesF (w.c2s.recs.flatMap (fragRec nf)) = w.c.wrote) ∧
    (w.c.closed = false → w.c.closing = false →
        w.c.got ++ w.c.readBuf ++ appBytesF (w.s2c.recs.flatMap (fragRec nf)) = w.s.wrote) := by
  have h := stream_fifo_control w0 h0 ops hh
  simp only [appBytes_fragments]
  exact h

/-- A record of another type in the middle of a fragmented handshake message is fatal in TLS 1.3
    (unexpected_message), e.g. application data between the two halves of a NewSessionTicket. -/
theorem interleaved_fragment_fatal (m x : Msg) (k g : Nat) (hx : x.ct ≠ 22) :
    feed true (some (m, k)) ⟨g, .whole x⟩ = .error 10 := by
  simp [feed, hx]

/-- KeyUpdate split over two records, then data under the NEXT generation: in step; the same data
    under the old generation is not -/
example : FlightF 0 (([⟨0, .keyUpdate 0⟩, ⟨1, .appData [1]⟩] : List Rec).flatMap (fragRec fun _ => 2)) ∧
    ¬ FlightF 0 (([⟨0, .keyUpdate 0⟩, ⟨0, .appData [1]⟩] : List Rec).flatMap (fragRec fun _ => 2)) := by
  simp [fragRec, partsFrom, FlightF, bump, Msg.ct]
example : reasm true none [⟨0, .part .newSessionTicket 0 2⟩, ⟨0, .whole (.appData [1])⟩, ⟨0, .part .newSessionTicket 1 2⟩]
    = .error 10 := by rfl
/-- a KeyUpdate that does not end its record (another handshake message follows in it) is fatal -/
example : fatalDesc exWorld.c (.kuCoalesced 0) = some 10 := by decide

/-! ### tie to the source: tables regenerated from tlslite/tlsrecordlayer.py on every run -/

/-- role of an endpoint as `readAsync` distinguishes it, with the key of the generated branch -/
def roleEnd (keypair reqs client : Bool) : End :=
  { isClient := client, ver13 := true, hasKeypair := keypair, certReqs := if reqs then [1] else [] }

def roleKey (keypair reqs client : Bool) : String :=
  if keypair then "keypair" else if reqs then "certreq_comp" else if client then "client" else "server"

/-- The handshake types the model's read loop lets through are, for every role, the tuple the source
    assigns to `allowedHsTypes` in that branch; the content types are `allowedTypes`. -/
theorem gen_read_allowed_matches_model :
    (∀ k r c : Bool, some (allowedHs (roleEnd k r c)) = Gen.Conn.readAllowed.lookup (roleKey k r c)) ∧
    Gen.Conn.readTypes13 = [23, 22] ∧ Gen.Conn.readTypesOld = [23] := by decide

/-- the filter as the model applies it: for every role and every handshake type byte below 32, an
    unparsable message of that type is answered with the generated alert of SyntaxError when the type
    is in the generated tuple, and with unexpected_message otherwise -/
theorem gen_read_filter_probe :
    ∀ k r c : Bool, ∀ t ∈ List.range 32,
      (runLocal (.read none 0) ⟨roleEnd k r c, ⟨[⟨0, .hsMalformed t⟩], false⟩, {}⟩).1 =
        .err (.localAlert (if ((Gen.Conn.readAllowed.lookup (roleKey k r c)).getD []).contains t
                           then (Gen.Conn.excAlert.lookup "_getMsg:SyntaxError").getD 0 else 10)) := by
  decide +kernel

/-- dispatch chain of the read loop as generated, and its behavioural meaning in the model: only a
    KeyUpdate re-arms `try_once` (the same read goes on to the next message), a ticket does not -/
theorem gen_read_dispatch_matches_model :
    Gen.Conn.readDispatch = [("NewSessionTicket", "store"), ("KeyUpdate", "_handle_keyupdate_request"),
      ("CompressedCertificate", "_handle_srv_pha"), ("Certificate", "_handle_srv_pha"),
      ("CertificateRequest", "_handle_pha"), ("else", "readBuffer")] ∧
    Gen.Conn.readRearm = ["KeyUpdate"] ∧
    (runLocal (.read none 0) ⟨exWorld.c, ⟨[⟨0, .keyUpdate 0⟩, ⟨1, .appData [7]⟩], false⟩, {}⟩).1 = .bytes [7] ∧
    (runLocal (.read none 0) ⟨exWorld.c, ⟨[⟨0, .newSessionTicket⟩, ⟨0, .appData [7]⟩], false⟩, {}⟩).1 = .bytes [] := by
  decide +kernel

/-- KeyUpdate: the source sends first and advances the write keys afterwards, advances the read keys
    and answers a request with update_not_requested, accepts exactly the generated request bytes -/
theorem gen_keyupdate_order_matches_model :
    Gen.Conn.keyUpdateSend = "send_then_advance_write" ∧
    Gen.Conn.keyUpdateHandle = "advance_read_then_if_1_reply_0_else_alert_47" ∧
    (runLocal (.keyUpdate true) ⟨exWorld.c, {}, {}⟩).2.out.recs = [⟨0, .keyUpdate 1⟩] ∧
    (runLocal (.keyUpdate true) ⟨exWorld.c, {}, {}⟩).2.me.writeGen = 1 ∧
    (∀ v ∈ List.range 6,
      ((runLocal (.read none 0) ⟨exWorld.c, ⟨[⟨0, .keyUpdate v⟩], false⟩, {}⟩).1 = .err (.localAlert 47))
        = !(Gen.Conn.keyUpdateValidValues.contains v)) ∧
    (runLocal (.read none 0) ⟨exWorld.c, ⟨[⟨0, .keyUpdate 1⟩], false⟩, {}⟩).2.out.recs = [⟨0, .keyUpdate 0⟩] := by
  decide +kernel

/-- the alerts the handlers of the model raise are, in order, the `_sendError` call sites of the source -/
theorem gen_send_error_sites_match_model :
    Gen.Conn.sendErrorSites.lookup "_handle_keyupdate_request" = some [47] ∧
    Gen.Conn.sendErrorSites.lookup "_handle_srv_pha" = some [47, 47, 47, 47, 51, 116, 51] ∧
    Gen.Conn.sendErrorSites.lookup "_handle_pha" = some [50, 109, 40, 80] ∧
    Gen.Conn.sendErrorSites.lookup "readAsync" = some [50] ∧
    -- the client's answers to a CertificateRequest whose signature_algorithms are usable / empty / unusable
    (runLocal (.read none 0) ⟨exWorld.c, ⟨[⟨0, .certRequest 7 1⟩], false⟩, {}⟩).1 = .err (.localAlert 109) ∧
    (runLocal (.read none 0) ⟨exWorld.c, ⟨[⟨0, .certRequest 7 2⟩], false⟩, {}⟩).1 = .err (.localAlert 40) ∧
    (runLocal (.read none 0) ⟨exWorld.c, ⟨[⟨0, .certRequest 7 0⟩], false⟩, {}⟩).1 = .bytes [] := by decide +kernel

end Tls.Conn
