import TlsProofs.Codec
import TlsProofs.CodecLoop
import TlsProofs.Ssl2
import TlsProofs.GenCodec
import TlsModel.Msgs
/-
  C15 — every message and extension codec round-trips and enforces its framing exactly.

  `Fmt` (TlsModel/Fmt.lean) describes a wire format; `encode`/`decode` are the generic
  serialiser / parser.  The theorems below are proved once, by induction on the
  description, for every format satisfying the decidable well-formedness predicate
  `wf` (`wf false f`: self-delimiting, `wf true f`: may end its enclosing region); every
  concrete tlslite format of TlsModel/Msgs.lean is an instance (`msgs_*_wf`, by evaluation,
  re-checked against the regenerated extension dispatch tables on every run).
  `Tls.Codec` models `Writer`/`Parser` of tlslite/utils/codec.py method by method.
-/
set_option linter.unusedVariables false
namespace Tls.C15
open Tls Tls.Fmt Tls.Codec

/-! ## parse (serialise v) = v -/

/-- Self-delimiting formats (all handshake messages, record header, whole extensions):
    whatever follows the encoding, parsing returns the value and exactly what followed. -/
theorem decode_encode (f : Fmt) (hf : wf false f = true) (t : Nat) (v : Val) (b r : Bytes)
    (h : encode f t v = some b) : decode f t (b ++ r) = .ok (v, r) :=
  decode_encode_gen f false t v b r hf h (by simp)

example : decode Msgs.keyShareEntry 0 ([0, 29, 0, 2, 7, 8] ++ [9, 9]) =
    .ok (.pair (.nat 29) (.bytes [7, 8]), [9, 9]) := by decide

/-- Tail formats (extension_data, heartbeat, …: the parser is handed exactly the structure):
    parsing the encoding returns the value and consumes everything. -/
theorem decode_encode_tail (f : Fmt) (hf : wf true f = true) (t : Nat) (v : Val) (b : Bytes)
    (h : encode f t v = some b) : decode f t b = .ok (v, []) := by
  have := decode_encode_gen f true t v b [] hf h (fun _ => rfl)
  simpa using this

example : decode (Msgs.extBody .supportedGroups) 0 [0, 4, 0, 29, 0, 23] =
    .ok (.some (.cons (.nat 29) (.cons (.nat 23) .nil)), []) := by decide

/-! ## serialise (parse x) = x -/

/-- Whatever `decode` accepts re-serialises to exactly the bytes it consumed; the rest it
    returns is the untouched remainder (for every format, well-formed or not). -/
theorem encode_decode (f : Fmt) (t : Nat) (b : Bytes) (v : Val) (r : Bytes)
    (h : decode f t b = .ok (v, r)) : ∃ e, encode f t v = some e ∧ e ++ r = b :=
  encode_decode_gen f t b v r h

example : encode Msgs.keyShareEntry 0 (.pair (.nat 29) (.bytes [7, 8])) = some [0, 29, 0, 2, 7, 8] := by
  decide

/-- A self-delimiting format has one encoding per value and one value per encoding: the two
    round trips make `encode`/`decode` mutually inverse bijections between fitting values and
    accepted byte strings. -/
theorem decode_unique (f : Fmt) (t : Nat) (b b' : Bytes) (v : Val) (r : Bytes)
    (h : decode f t b = .ok (v, r)) (h' : decode f t b' = .ok (v, r)) : b = b' :=
  decode_inj f t b b' v r h h'

/-! ## serialisation never truncates or wraps -/

/-- For a value of the right shape, serialisation fails exactly when some integer does not
    fit its field or some length-prefixed body is too long for its length field (`fits`,
    defined from the sizes `encLen`, not from `encode`). -/
theorem encode_none_iff_overflow (f : Fmt) (t : Nat) (v : Val) (hs : shape f t v = true) :
    encode f t v = none ↔ fits f t v = false := by
  have h := encode_isSome f t v
  rw [hs, Bool.true_and] at h
  cases he : encode f t v with
  | none => rw [he] at h; simp at h; simp [h]
  | some b => rw [he] at h; simp at h; simp [h]

set_option maxRecDepth 8000 in
example : encode (varBytes 1) 0 (.bytes (List.replicate 256 0)) = none := by decide
set_option maxRecDepth 8000 in
example : encode (varBytes 1) 0 (.bytes (List.replicate 255 0)) ≠ none := by decide
set_option maxRecDepth 8000 in
example : fits (varBytes 1) 0 (.bytes (List.replicate 256 0)) = false := by decide

/-- When it succeeds, the encoding has exactly the computed length, every field fits, and
    (by `decode_encode`) reading it back yields the original value: nothing was masked. -/
theorem encode_some_fits (f : Fmt) (t : Nat) (v : Val) (b : Bytes) (h : encode f t v = some b) :
    b.length = encLen f t v ∧ shape f t v = true ∧ fits f t v = true := by
  refine ⟨encode_length f t v b h, ?_⟩
  have := encode_isSome f t v
  rw [h] at this
  simp only [Option.isSome_some] at this
  cases hs : shape f t v <;> cases hf : fits f t v <;> simp [hs, hf] at this ⊢

example : (encode Msgs.keyUpdate 0 (.nat 1)).map List.length = some 4 := by decide

/-! ## a parser consumes exactly the length its framing declares -/

/-- Accepting a length-delimited structure means: the input is the length field, a body of
    exactly that length which the inner format consumes completely, and the rest. -/
theorem decode_exact (ll : Nat) (f : Fmt) (t : Nat) (bs : Bytes) (v : Val) (r : Bytes)
    (h : decode (.lenPref ll f) t bs = .ok (v, r)) :
    ∃ body, bs = beEncode ll body.length ++ body ++ r ∧ body.length < 256 ^ ll ∧
      decode f t body = .ok (v, []) := by
  obtain ⟨h1, h2, hd, rfl⟩ := decode_lenPref_ok.mp h
  refine ⟨(bs.drop ll).take (beDecode (bs.take ll)), ?_, ?_, hd⟩
  · have hl : (bs.take ll).length = ll := by simp; omega
    have hbl : ((bs.drop ll).take (beDecode (bs.take ll))).length = beDecode (bs.take ll) := by
      rw [List.length_take]; omega
    rw [hbl]
    have := beEncode_beDecode (bs.take ll); rw [hl] at this
    rw [this, List.append_assoc, List.take_append_drop, List.take_append_drop]
  · have hl : (bs.take ll).length = ll := by simp; omega
    have := beDecode_lt (bs.take ll); rw [hl] at this
    rw [List.length_take]; omega

example : decode (.lenPref 1 (.uint 2)) 0 [2, 1, 0, 9] = .ok (.nat 256, [9]) := by decide

/-- Complete behaviour of a length-delimited structure on `length ‖ body ‖ rest`: the inner
    parser sees the body and nothing else; it must accept it and leave nothing. -/
theorem decode_lenPref_char (ll : Nat) (f : Fmt) (t : Nat) (body r : Bytes)
    (hl : body.length < 256 ^ ll) :
    decode (.lenPref ll f) t (beEncode ll body.length ++ body ++ r) =
      match decode f t body with
      | .ok (v, []) => .ok (v, r)
      | .ok (_, _ :: _) => .error .trailing
      | .error e => .error e := by
  have hbl := beEncode_length ll body.length
  simp only [decode, shorter_eq, decide_eq_true_eq]
  rw [List.append_assoc, take_append_len _ _ _ hbl, drop_append_len _ _ _ hbl,
    beDecode_beEncode _ _ hl]
  have h1 : ¬ (beEncode ll body.length ++ (body ++ r)).length < ll := by simp [hbl]
  have h2 : ¬ (body ++ r).length < body.length := by simp
  simp only [h1, h2, if_false, take_append_len _ _ _ rfl, drop_append_len _ _ _ rfl]
  cases decode f t body with
  | error e => rfl
  | ok p => obtain ⟨v, r'⟩ := p; cases r' <;> rfl

/-- Truncated input: every strict prefix of a valid encoding of a self-delimiting format is
    a decode error (in particular every truncation of a handshake message). -/
theorem decode_truncated (f : Fmt) (hf : wf false f = true) (t : Nat) (v : Val) (b : Bytes)
    (he : encode f t v = some b) (k : Nat) (hk : k < b.length) :
    ∃ e, decode f t (b.take k) = .error e :=
  decode_truncated_gen f hf t v b he k hk

example : ∃ e, decode Msgs.keyShareEntry 0 [0, 29, 0, 2, 7] = .error e := ⟨.truncated, by decide⟩

/-- A declared length that runs past the end of the input is a decode error. -/
theorem decode_declared_past_end (ll : Nat) (f : Fmt) (t : Nat) (bs : Bytes)
    (h : bs.length < ll ∨ (bs.drop ll).length < beDecode (bs.take ll)) :
    decode (.lenPref ll f) t bs = .error .truncated := by
  simp only [decode, shorter_eq, decide_eq_true_eq]
  by_cases h1 : bs.length < ll
  · simp [h1]
  · have h2 : (bs.drop ll).length < beDecode (bs.take ll) := by
      rcases h with h | h
      · exact absurd h h1
      · exact h
    simp only [h1, if_false, h2, if_true]

example : decode (varBytes 2) 0 [0, 5, 1, 2] = .error .truncated := by decide

/-- Trailing bytes inside a length-delimited structure: if the declared length covers a
    complete inner structure plus anything more, the structure is rejected. -/
theorem decode_trailing_rejected (ll : Nat) (f : Fmt) (hf : wf false f = true) (t : Nat) (v : Val)
    (body junk r : Bytes) (he : encode f t v = some body) (hj : junk ≠ [])
    (hl : (body ++ junk).length < 256 ^ ll) :
    decode (.lenPref ll f) t (beEncode ll (body ++ junk).length ++ (body ++ junk) ++ r) =
      .error .trailing := by
  rw [decode_lenPref_char ll f t (body ++ junk) r hl,
    decode_encode f hf t v body junk he]
  cases junk with
  | nil => exact absurd rfl hj
  | cons x xs => rfl

example : decode (.lenPref 1 (.uint 2)) 0 [3, 1, 0, 7, 9] = .error .trailing := by decide

/-- Inner length disagreeing with the outer one: if the outer length field declares fewer
    bytes than the inner structure needs, the structure is rejected — the inner parser is
    never allowed to read past the outer boundary, whatever follows it. -/
theorem decode_inner_exceeds_outer (ll : Nat) (f : Fmt) (hf : wf false f = true) (t : Nat) (v : Val)
    (body r : Bytes) (he : encode f t v = some body) (k : Nat) (hk : k < body.length)
    (hl : k < 256 ^ ll) :
    ∃ e, decode (.lenPref ll f) t (beEncode ll k ++ body.take k ++ r) = .error e := by
  have hlen : (body.take k).length = k := by rw [List.length_take]; omega
  have := decode_lenPref_char ll f t (body.take k) r (by rw [hlen]; exact hl)
  rw [hlen] at this
  rw [this]
  obtain ⟨e, he'⟩ := decode_truncated f hf t v body he k hk
  exact ⟨e, by rw [he']⟩

example : ∃ e, decode (.lenPref 1 (varBytes 1)) 0 [2, 5, 1, 2, 3, 4, 5] = .error e :=
  ⟨.truncated, by decide⟩

/-- `decode` never reads past its input and never invents bytes: the rest it returns is a
    suffix of the input and the consumed prefix is the encoding of the value. -/
theorem decode_consumes_prefix (f : Fmt) (t : Nat) (b : Bytes) (v : Val) (r : Bytes)
    (h : decode f t b = .ok (v, r)) : ∃ c, b = c ++ r ∧ encode f t v = some c :=
  decode_suffix f t b v r h

/-! ## Writer / Parser primitives (tlslite/utils/codec.py) -/

/-- `Writer.add(x, n)` raises exactly when `x` needs more than `n` bytes … -/
theorem writer_add_overflow (w : Writer) (x n : Nat) :
    (Writer.add w x n = .error .overflow ↔ 256 ^ n ≤ x) ∧
    (∀ w', Writer.add w x n = .ok w' ↔ x < 256 ^ n ∧ w' = w ++ beEncode n x) := by
  refine ⟨?_, fun w' => Writer.add_ok_iff w x n w'⟩
  rw [Writer.add_error_iff]; simp

example : Writer.add [] 65536 2 = .error .overflow := by decide
example : Writer.add [] 65535 2 = .ok [255, 255] := by decide

/-- … and otherwise appends `n` bytes that read back as `x` (no masking). -/
theorem writer_add_no_wrap (w : Writer) (x n : Nat) (w' : Writer) (h : Writer.add w x n = .ok w') :
    w'.length = w.length + n ∧ w'.take w.length = w ∧ beDecode (w'.drop w.length) = x := by
  obtain ⟨hx, rfl⟩ := (Writer.add_ok_iff _ _ _ _).mp h
  simp [beEncode_length, beDecode_beEncode n x hx]

/-- the fixed-width helpers are `add` with widths 1..4 (same overflow behaviour) -/
theorem writer_fixed_width (w : Writer) (x : Nat) :
    Writer.addOne w x = Writer.add w x 1 ∧ Writer.addTwo w x = Writer.add w x 2 ∧
    Writer.addThree w x = Writer.add w x 3 ∧ Writer.addFour w x = Writer.add w x 4 :=
  ⟨Writer.addOne_eq_add w x, Writer.addTwo_eq_add w x, Writer.addThree_eq_add w x,
   Writer.addFour_eq_add w x⟩

example : Writer.addThree [] 16777216 = .error .overflow := by decide

/-- `addFixSeq` (and so `addVarSeq`'s items) raises exactly when some element does not fit -/
theorem writer_addFixSeq_overflow (w : Writer) (seq : List Nat) (n : Nat) :
    (∃ e, Writer.addFixSeq w seq n = .error e) ↔ ∃ x ∈ seq, 256 ^ n ≤ x :=
  Writer.addFixSeq_error_iff seq n w

/-- `add_var_bytes` is the generic serialiser of `varBytes ll` -/
theorem writer_addVarBytes_is_encode (w : Writer) (data : Bytes) (ll : Nat) :
    Writer.addVarBytes w data ll =
      match encode (varBytes ll) 0 (.bytes data) with
      | some b => .ok (w ++ b)
      | none => .error .overflow :=
  Writer.addVarBytes_eq_encode w data ll

/-- `Parser.get` never reads past the buffer: it succeeds iff the `n` bytes exist, returns
    their value (`< 256^n`), advances by exactly `n` and stays inside the buffer; otherwise it
    is `DecodeError("Read past end of buffer")`. -/
theorem parser_get_bounds (p : Parser) (n : Nat) :
    (∀ x p', Parser.get p n = .ok (x, p') →
      p'.index = p.index + n ∧ p'.index ≤ p.bytes.length ∧ p'.bytes = p.bytes ∧ x < 256 ^ n ∧
      x = beDecode ((p.bytes.drop p.index).take n)) ∧
    (∀ e, Parser.get p n = .error e ↔ p.bytes.length < p.index + n ∧ e = .readPast) := by
  refine ⟨fun x p' h => ?_, fun e => Parser.get_error_iff p n e⟩
  obtain ⟨a1, a2, a3, _, _, a6, _⟩ := Parser.get_bounds p n x p' h
  obtain ⟨_, hx, _⟩ := (Parser.get_ok_iff _ _ _ _).mp h
  exact ⟨a1, a2, a3, a6, hx⟩

example : Parser.get (Parser.new [1, 2]) 3 = .error .readPast := by decide
example : (Parser.get (Parser.new [1, 2, 3]) 2).map (·.1) = .ok 258 := by decide

/-- `getFixList` reads exactly `k·n` bytes, stays inside the buffer, or fails -/
theorem parser_getFixList_bounds (p : Parser) (n k : Nat) (l : List Nat) (p' : Parser)
    (hinv : p.inv) (h : Parser.getFixList p n k = .ok (l, p')) :
    p'.index = p.index + k * n ∧ p'.index ≤ p.bytes.length ∧ l.length = k := by
  obtain ⟨a1, a2, _, _, _, a6, _⟩ := Parser.getFixList_bounds n k p l p' hinv h
  exact ⟨a1, a2, a6⟩

/-- `get` / `getVarBytes` on the unread part of the buffer are the generic decoders of
    `uint n` / `varBytes ll`: same acceptance, value and rest -/
theorem parser_get_is_decode (p : Parser) (n : Nat) (hinv : p.inv) :
    (Parser.get p n).toOption.map (fun (x, p') => (Val.nat x, p'.remaining)) =
      (decode (.uint n) 0 p.remaining).toOption :=
  Parser.get_eq_decode p n hinv

theorem parser_getVarBytes_is_decode (p : Parser) (ll : Nat) (hinv : p.inv) :
    (Parser.getVarBytes p ll).toOption.map (fun (b, p') => (Val.bytes b, p'.remaining)) =
      (decode (varBytes ll) 0 p.remaining).toOption :=
  Parser.getVarBytes_eq_decode p ll hinv

/-- `stopLengthCheck` passes iff exactly the declared number of bytes was read since the
    check was started -/
theorem parser_stopLengthCheck (p : Parser) :
    Parser.stopLengthCheck p = .ok () ↔ (p.index : Int) - p.indexCheck = p.lengthCheck :=
  Parser.stopLengthCheck_ok_iff p

example : Parser.stopLengthCheck { bytes := [1, 2, 3], index := 3, indexCheck := 1, lengthCheck := 1 } =
    .error .underOver := by decide

/-- The idiom `startLengthCheck(ll); while not atLengthCheck(): item(p); stopLengthCheck()`, whose
    item parser reads from the shared buffer (so may look beyond the declared region), accepts
    exactly what the generic `list ll f` (a sub-parser confined to the region) accepts on the
    unread bytes, with the same items and the same rest: reading past the region can never
    make a list accepted. -/
theorem parser_lengthCheck_loop_is_list (f : Fmt) (hw : wf false f = true) (hm : 0 < minLen f)
    (t ll : Nat) (p : Parser) (hinv : p.inv) :
    (Parser.lcList (Parser.liftDecode (decode f t)) ll p).toOption.map (fun (v, p') => (v, p'.remaining)) =
      (decode (list ll f) t p.remaining).toOption :=
  Parser.lcList_eq_decode f hw hm t ll p hinv

example : (Parser.lcList (Parser.liftDecode (decode (varBytes 1) 0)) 1 (Parser.new [4, 1, 7, 1, 8, 9])).map
    (fun (v, p') => (v, p'.index)) = .ok (.cons (.bytes [7]) (.cons (.bytes [8]) .nil), 5) := by decide
example : ∃ e, Parser.lcList (Parser.liftDecode (decode (varBytes 1) 0)) 1 (Parser.new [3, 1, 7, 1, 8, 9]) =
    .error e := ⟨.readPast, by decide⟩

/-! ## the regenerated source: tlslite/utils/codec.py as it is now computes the hand model

  `Tls.Codec.Gen.*` (TlsModel/Gen/Codec.lean) is re-translated statement by statement from
  codec.py and messages.py on every run (translate/gen_codec.py) into the Python-runtime model
  TlsModel/PyInt.lean + PyObj.lean.  Each `gen_*_eq` says the regenerated method equals the hand
  model's primitive on every state and all natural-number arguments (negative ints are outside the
  model), so the theorems above are theorems about the current source text; an edit of the method
  changes the generated module and breaks its obligation, an unknown construct becomes poison
  (`Exc.other`) which no right-hand side produces. -/

theorem gen_Writer_add_eq (w : Writer) (x n : Nat) :
    Gen.Writer_add ⟨w⟩ x n = liftW (Writer.add w x n) := Codec.gen_Writer_add_eq w x n
theorem gen_Writer_addOne_eq (w : Writer) (x : Nat) :
    Gen.Writer_addOne ⟨w⟩ x = liftW (Writer.addOne w x) := Codec.gen_Writer_addOne_eq w x
theorem gen_Writer_addTwo_eq (w : Writer) (x : Nat) :
    Gen.Writer_addTwo ⟨w⟩ x = liftW (Writer.addTwo w x) := Codec.gen_Writer_addTwo_eq w x
theorem gen_Writer_addThree_eq (w : Writer) (x : Nat) :
    Gen.Writer_addThree ⟨w⟩ x = liftW (Writer.addThree w x) := Codec.gen_Writer_addThree_eq w x
theorem gen_Writer_addFour_eq (w : Writer) (x : Nat) :
    Gen.Writer_addFour ⟨w⟩ x = liftW (Writer.addFour w x) := Codec.gen_Writer_addFour_eq w x
theorem gen_Writer_addFixSeq_eq (w : Writer) (seq : List Nat) (n : Nat) :
    Gen.Writer_addFixSeq ⟨w⟩ (seq.map fun (k : Nat) => (k : Int)) n = liftW (Writer.addFixSeq w seq n) :=
  Codec.gen_Writer_addFixSeq_eq w seq n
theorem gen_Writer_addVarSeq_eq (w : Writer) (seq : List Nat) (n ll : Nat) :
    Gen.Writer_addVarSeq ⟨w⟩ (seq.map fun (k : Nat) => (k : Int)) n ll = liftW (Writer.addVarSeq w seq n ll) :=
  Codec.gen_Writer_addVarSeq_eq w seq n ll
theorem gen_Writer_add_var_bytes_eq (w : Writer) (d : Bytes) (ll : Nat) :
    Gen.Writer_add_var_bytes ⟨w⟩ d ll = liftW (Writer.addVarBytes w d ll) := Codec.gen_Writer_add_var_bytes_eq w d ll
theorem gen_Parser_getFixBytes_eq (p : Parser) (n : Nat) :
    Gen.Parser_getFixBytes (toGen p) n = liftP id (Parser.getFixBytes p n) := Codec.gen_Parser_getFixBytes_eq p n
theorem gen_Parser_get_eq (p : Parser) (n : Nat) :
    Gen.Parser_get (toGen p) n = liftP (fun (x : Nat) => (x : Int)) (Parser.get p n) := Codec.gen_Parser_get_eq p n
theorem gen_Parser_skip_bytes_eq (p : Parser) (n : Nat) :
    Gen.Parser_skip_bytes (toGen p) n =
      (match Parser.skipBytes p n with | .ok p' => .ok (toGen p') | .error e => .error (excOfP e)) :=
  Codec.gen_Parser_skip_bytes_eq p n
theorem gen_Parser_getVarBytes_eq (p : Parser) (ll : Nat) :
    Gen.Parser_getVarBytes (toGen p) ll = liftP id (Parser.getVarBytes p ll) := Codec.gen_Parser_getVarBytes_eq p ll
theorem gen_Parser_getFixList_eq (p : Parser) (n k : Nat) :
    Gen.Parser_getFixList (toGen p) n k =
      liftP (fun (xs : List Nat) => xs.map fun (x : Nat) => (x : Int)) (Parser.getFixList p n k) :=
  Codec.gen_Parser_getFixList_eq p n k
theorem gen_Parser_getVarList_eq (p : Parser) (n ll : Nat) :
    Gen.Parser_getVarList (toGen p) n ll =
      liftP (fun (xs : List Nat) => xs.map fun (x : Nat) => (x : Int)) (Parser.getVarList p n ll) :=
  Codec.gen_Parser_getVarList_eq p n ll
theorem gen_Parser_startLengthCheck_eq (p : Parser) (ll : Nat) :
    Gen.Parser_startLengthCheck (toGen p) ll =
      (match Parser.startLengthCheck p ll with | .ok p' => .ok (toGen p') | .error e => .error (excOfP e)) :=
  Codec.gen_Parser_startLengthCheck_eq p ll
theorem gen_Parser_setLengthCheck_eq (p : Parser) (n : Nat) :
    Gen.Parser_setLengthCheck (toGen p) n = .ok (toGen (Parser.setLengthCheck p n)) :=
  Codec.gen_Parser_setLengthCheck_eq p n
theorem gen_Parser_stopLengthCheck_eq (p : Parser) :
    Gen.Parser_stopLengthCheck (toGen p) =
      (match Parser.stopLengthCheck p with | .ok () => .ok (toGen p) | .error e => .error (excOfP e)) :=
  Codec.gen_Parser_stopLengthCheck_eq p
theorem gen_Parser_atLengthCheck_eq (p : Parser) :
    Gen.Parser_atLengthCheck (toGen p) =
      (match Parser.atLengthCheck p with | .ok b => .ok (b, toGen p) | .error e => .error (excOfP e)) :=
  Codec.gen_Parser_atLengthCheck_eq p
theorem gen_Parser_getRemainingLength_eq (p : Parser) (hinv : p.inv) :
    Gen.Parser_getRemainingLength (toGen p) = .ok ((Parser.getRemainingLength p : Int), toGen p) :=
  Codec.gen_Parser_getRemainingLength_eq p hinv

/-- `HandshakeMsg.postWrite` as the source has it: type byte, 24-bit length, body — or ValueError;
    the length never spills into the type byte -/
theorem gen_postWrite_eq (t : Nat) (body : Bytes) :
    Gen.HandshakeMsg_postWrite t ⟨body⟩ =
      if t < 256 then
        (match encode (.lenPref 3 .rest) 0 (.bytes body) with
         | some b => .ok (beEncode 1 t ++ b)
         | none => .error .valueError)
      else .error .valueError := Codec.gen_postWrite_eq t body

/-- the translator understood every statement of the methods it translates -/
theorem gen_no_poison : Gen.poisonNotes = [] := by decide

-- the two methods tied by evaluation and correspondence only (no general equality proved yet)
example : Gen.Writer_addVarTupleSeq ⟨[]⟩ [[1, 2], [3, 4]] 1 1 = .ok ⟨[4, 1, 2, 3, 4]⟩ := by decide
example : Gen.Writer_addVarTupleSeq ⟨[]⟩ [[1, 2], [3]] 1 1 = .error .valueError := by decide
example : Gen.Writer_addVarTupleSeq ⟨[]⟩ [[1, 256]] 1 1 = .error .valueError := by decide
example : (Gen.Parser_getVarTupleList ⟨[4, 1, 2, 3, 4, 9], 0, 0, 0⟩ 1 2 1).map (fun r => (r.1, r.2.index)) =
    .ok ([[1, 2], [3, 4]], 5) := by decide
example : Gen.Parser_getVarTupleList ⟨[3, 1, 2, 3], 0, 0, 0⟩ 1 2 1 = .error .decodeError := by decide
example : Gen.Parser_getVarList ⟨[3, 1, 2, 3], 0, 0, 0⟩ 2 1 = .error .decodeError := by decide
example : Gen.HandshakeMsg_postWrite 20 ⟨[1, 2]⟩ = .ok [20, 0, 0, 2, 1, 2] := by decide

/-! ### corollaries: the framing theorems as statements about the regenerated methods -/

/-- `Writer.add` of the current source raises ValueError exactly when the value needs more than `n`
    bytes, and otherwise appends `n` bytes (never a masked value) -/
theorem gen_writer_add_overflow (w : Writer) (x n : Nat) :
    (Gen.Writer_add ⟨w⟩ x n = .error .valueError ↔ 256 ^ n ≤ x) ∧
    (∀ w', Gen.Writer_add ⟨w⟩ x n = .ok w' ↔ x < 256 ^ n ∧ w' = ⟨w ++ beEncode n x⟩) := by
  rw [gen_Writer_add_eq]
  simp only [Writer.add, liftW]
  by_cases h : x < 256 ^ n
  · simp [h]; exact fun w' => ⟨fun e => e.symm, fun e => e.symm⟩
  · simp [h, excOfW]; omega

/-- `Parser.get` of the current source never reads past the buffer -/
theorem gen_parser_get_bounds (p : Parser) (n : Nat) :
    (∀ x p', Gen.Parser_get (toGen p) n = .ok (x, p') →
      p'.index = p.index + n ∧ p'.index ≤ p.bytes.length ∧ p'.bytes = p.bytes ∧ 0 ≤ x ∧ x.toNat < 256 ^ n) ∧
    (Gen.Parser_get (toGen p) n = .error .decodeError ↔ p.bytes.length < p.index + n) := by
  rw [gen_Parser_get_eq]
  constructor
  · intro x p' h
    cases hg : Parser.get p n with
    | error e => rw [hg] at h; simp [liftP] at h
    | ok q =>
      obtain ⟨y, q'⟩ := q
      rw [hg] at h
      simp only [liftP, Except.ok.injEq, Prod.mk.injEq] at h
      obtain ⟨rfl, rfl⟩ := h
      obtain ⟨a1, a2, a3, a4, _⟩ := (parser_get_bounds p n).1 y q' hg
      have e1 : (toGen q').index = (p.index : Int) + (n : Int) := by
        show ((q'.index : Nat) : Int) = _
        rw [a1]; norm_cast
      have e2 : (toGen q').index ≤ (p.bytes.length : Int) := by
        show ((q'.index : Nat) : Int) ≤ _
        exact_mod_cast a2
      have e3 : (toGen q').bytes = p.bytes := a3
      have e4 : (0 : Int) ≤ (y : Int) := by omega
      have e5 : ((y : Int)).toNat < 256 ^ n := by rw [Int.toNat_natCast]; exact a4
      exact ⟨e1, e2, e3, e4, e5⟩
  · cases hg : Parser.get p n with
    | error e =>
      have := ((parser_get_bounds p n).2 e).mp hg
      simp [liftP, excOfP, this.2, this.1]
    | ok q =>
      obtain ⟨y, q'⟩ := q
      have := (Parser.get_ok_iff _ _ _ _).mp hg
      simp [liftP]; omega

/-- parse (serialise x) = x for the integer field as the source writes and reads it -/
theorem gen_decode_encode_uint (x n : Nat) (r : Bytes) (b : Bytes)
    (h : Gen.Writer_add ⟨[]⟩ x n = .ok ⟨b⟩) :
    Gen.Parser_get ⟨b ++ r, 0, 0, 0⟩ n = .ok ((x : Int), ⟨b ++ r, n, 0, 0⟩) := by
  obtain ⟨hx, hb⟩ := ((gen_writer_add_overflow [] x n).2 ⟨b⟩).mp h
  simp only [List.nil_append, PyO.Writer.mk.injEq] at hb
  subst hb
  have := gen_Parser_get_eq (Parser.new (beEncode n x ++ r)) n
  simp only [toGen, Parser.new] at this
  rw [show ((0 : Nat) : Int) = 0 from rfl] at this
  rw [this, Parser.get]
  have hl := beEncode_length n x
  have hn : ¬ n + r.length < n := by omega
  simp [Parser.getFixBytes, hl, hn, bind, Except.bind, liftP, toGen, take_append_len _ _ _ hl, beDecode_beEncode n x hx]

/-- `add_var_bytes` of the current source fails exactly when the data is too long for its length
    field (never truncates) … -/
theorem gen_encode_none_iff_overflow_varBytes (w : Writer) (d : Bytes) (ll : Nat) :
    Gen.Writer_add_var_bytes ⟨w⟩ d ll = .error .valueError ↔ 256 ^ ll ≤ d.length := by
  rw [gen_Writer_add_var_bytes_eq, writer_addVarBytes_is_encode]
  simp only [encode, bind, Option.bind, liftW]
  by_cases h : d.length < 256 ^ ll
  · simp [h]
  · simp [h, excOfW]; omega

/-- … and `getVarBytes` of the current source reads back exactly what `add_var_bytes` wrote,
    leaving the read position right behind it … -/
theorem gen_decode_encode_varBytes (d r : Bytes) (ll : Nat) (b : Bytes)
    (h : Gen.Writer_add_var_bytes ⟨[]⟩ d ll = .ok ⟨b⟩) :
    Gen.Parser_getVarBytes ⟨b ++ r, 0, 0, 0⟩ ll = .ok (d, ⟨b ++ r, b.length, 0, 0⟩) := by
  rw [gen_Writer_add_var_bytes_eq, writer_addVarBytes_is_encode] at h
  cases he : encode (varBytes ll) 0 (.bytes d) with
  | none => rw [he] at h; simp [liftW] at h
  | some e =>
    rw [he] at h
    simp only [liftW, List.nil_append, Except.ok.injEq, PyO.Writer.mk.injEq] at h
    subst h
    have hdec := decode_encode (varBytes ll) (by simp [varBytes, wf]) 0 (.bytes d) e r he
    have hp := parser_getVarBytes_is_decode (Parser.new (e ++ r)) ll (by simp [Parser.inv, Parser.new])
    simp only [Parser.remaining, Parser.new, List.drop_zero] at hp
    rw [hdec] at hp
    have hg := gen_Parser_getVarBytes_eq (Parser.new (e ++ r)) ll
    simp only [toGen, Parser.new] at hg
    rw [show ((0 : Nat) : Int) = 0 from rfl] at hg
    rw [hg]
    cases hv : Parser.getVarBytes ⟨e ++ r, 0, 0, 0⟩ ll with
    | error er => rw [hv] at hp; simp [Except.toOption] at hp
    | ok q =>
      obtain ⟨d', p'⟩ := q
      rw [hv] at hp
      simp only [Except.toOption, Option.map_some, Option.some.injEq, Prod.mk.injEq, Val.bytes.injEq] at hp
      obtain ⟨rfl, hrem⟩ := hp
      obtain ⟨_, _, _, rfl⟩ := (Parser.getVarBytes_ok_iff _ _ _ _).mp hv
      simp only [liftP, id, toGen, Except.ok.injEq, Prod.mk.injEq, true_and, PyO.Parser.mk.injEq, and_true]
      simp only [Parser.remaining] at hrem
      have hlen := congrArg List.length hrem
      simp only [List.length_drop, List.length_append] at hlen
      have hle : 0 + ll + beDecode ((List.drop 0 (e ++ r)).take ll) ≤ (e ++ r).length := by
        obtain ⟨_, h2, _, _⟩ := (Parser.getVarBytes_ok_iff _ _ _ _).mp hv
        simpa using h2
      simp only [List.length_append] at hle
      omega

/-- … while every truncation of what `add_var_bytes` wrote makes `getVarBytes` raise DecodeError -/
theorem gen_decode_truncated_varBytes (d : Bytes) (ll : Nat) (b : Bytes) (k : Nat)
    (h : Gen.Writer_add_var_bytes ⟨[]⟩ d ll = .ok ⟨b⟩) (hk : k < b.length) :
    Gen.Parser_getVarBytes ⟨b.take k, 0, 0, 0⟩ ll = .error .decodeError := by
  rw [gen_Writer_add_var_bytes_eq, writer_addVarBytes_is_encode] at h
  cases he : encode (varBytes ll) 0 (.bytes d) with
  | none => rw [he] at h; simp [liftW] at h
  | some e =>
    rw [he] at h
    simp only [liftW, List.nil_append, Except.ok.injEq, PyO.Writer.mk.injEq] at h
    subst h
    obtain ⟨er, hdec⟩ := decode_truncated (varBytes ll) (by simp [varBytes, wf]) 0 (.bytes d) e he k hk
    have hp := parser_getVarBytes_is_decode (Parser.new (e.take k)) ll (by simp [Parser.inv, Parser.new])
    simp only [Parser.remaining, Parser.new, List.drop_zero] at hp
    rw [hdec] at hp
    have hg := gen_Parser_getVarBytes_eq (Parser.new (e.take k)) ll
    simp only [toGen, Parser.new] at hg
    rw [show ((0 : Nat) : Int) = 0 from rfl] at hg
    rw [hg]
    cases hv : Parser.getVarBytes ⟨e.take k, 0, 0, 0⟩ ll with
    | ok q => rw [hv] at hp; simp [Except.toOption] at hp
    | error er2 =>
      unfold Parser.getVarBytes at hv
      simp only [bind, Except.bind] at hv
      cases hget : Parser.get ⟨e.take k, 0, 0, 0⟩ ll with
      | error e3 =>
        have := ((parser_get_bounds _ ll).2 e3).mp hget
        rw [hget] at hv
        simp only [Except.error.injEq] at hv
        subst hv
        simp [liftP, excOfP, this.2]
      | ok q =>
        obtain ⟨x, p1⟩ := q
        rw [hget] at hv
        have := (Parser.getFixBytes_error_iff _ _ _).mp hv
        simp [liftP, excOfP, this.2]

/-- The list idiom `startLengthCheck(ll); while not atLengthCheck(): item; stopLengthCheck()` is made of
    exactly the three regenerated methods, and accepts what the generic `list ll f` accepts -/
theorem gen_lengthCheck_loop_is_list (f : Fmt) (hw : wf false f = true) (hm : 0 < minLen f)
    (t ll : Nat) (p : Parser) (hinv : p.inv) :
    (∀ q (n : Nat), Gen.Parser_startLengthCheck (toGen q) n =
      (match Parser.startLengthCheck q n with | .ok p' => .ok (toGen p') | .error e => .error (excOfP e))) ∧
    (∀ q, Gen.Parser_atLengthCheck (toGen q) =
      (match Parser.atLengthCheck q with | .ok b => .ok (b, toGen q) | .error e => .error (excOfP e))) ∧
    (∀ q, Gen.Parser_stopLengthCheck (toGen q) =
      (match Parser.stopLengthCheck q with | .ok () => .ok (toGen q) | .error e => .error (excOfP e))) ∧
    (Parser.lcList (Parser.liftDecode (decode f t)) ll p).toOption.map (fun (v, p') => (v, p'.remaining)) =
      (decode (list ll f) t p.remaining).toOption :=
  ⟨fun q n => gen_Parser_startLengthCheck_eq q n, fun q => gen_Parser_atLengthCheck_eq q,
   fun q => gen_Parser_stopLengthCheck_eq q, parser_lengthCheck_loop_is_list f hw hm t ll p hinv⟩

/-! ## SSLv2-framed structures (lengths grouped in front of the data; outside the `Fmt` language) -/

/-- RecordHeader2: `parse(write(h)) = h`, whatever follows the header -/
theorem ssl2_recordHeader_roundtrip (l p : Nat) (e : Bool) (b r : Bytes)
    (h : Ssl2.rh2Encode l p e = some b) : Ssl2.rh2Decode (b ++ r) = .ok ((l, p, e), r) :=
  Ssl2.rh2_decode_encode l p e b r h

/-- RecordHeader2.write refuses exactly the lengths beyond 15 bits (2-byte header) / 14 bits
    (3-byte header) and paddings beyond a byte; it never masks them -/
theorem ssl2_recordHeader_overflow (l p : Nat) (e : Bool) :
    Ssl2.rh2Encode l p e = none ↔
      ((p = 0 ∧ e = false) ∧ 0x8000 ≤ l) ∨ (¬ (p = 0 ∧ e = false) ∧ (0x4000 ≤ l ∨ 256 ≤ p)) :=
  Ssl2.rh2_encode_none_iff l p e

example : Ssl2.rh2Encode 0x7fff 0 false = some [0xff, 0xff] := by decide
example : Ssl2.rh2Encode 0x8000 0 false = none := by decide
example : Ssl2.rh2Decode [0x40, 0x05, 0x07, 9] = .ok ((5, 7, true), [9]) := by decide

/-- the `len1 len2 len3 data1 data2 data3` block of SSLv2 hellos round-trips … -/
theorem ssl2_lengths_roundtrip (d1 d2 d3 b r : Bytes) (h : Ssl2.enc3 d1 d2 d3 = some b) :
    Ssl2.dec3 (b ++ r) = .ok ((d1, d2, d3), r) :=
  Ssl2.dec3_enc3 d1 d2 d3 b r h

/-- … consumes exactly the three declared lengths … -/
theorem ssl2_lengths_exact (b d1 d2 d3 r : Bytes) (h : Ssl2.dec3 b = .ok ((d1, d2, d3), r)) :
    ∃ e, Ssl2.enc3 d1 d2 d3 = some e ∧ e ++ r = b :=
  Ssl2.enc3_dec3 b d1 d2 d3 r h

/-- … and is refused when the declared total runs past the input -/
theorem ssl2_lengths_truncated (b : Bytes) (h : b.length < 6 ∨
    (b.drop 6).length < beDecode (b.take 2) + beDecode ((b.drop 2).take 2) + beDecode ((b.drop 4).take 2)) :
    Ssl2.dec3 b = .error .truncated :=
  Ssl2.dec3_truncated b h

example : Ssl2.dec3 [0, 1, 0, 0, 0, 2, 7, 8, 9, 5] = .ok (([7], [], [8, 9]), [5]) := by decide
example : Ssl2.dec3 [0, 1, 0, 0, 0, 3, 7, 8, 9] = .error .truncated := by decide

/-- SSLv2 ClientHello / ServerHello / ClientMasterKey: parsing what `write()` produced returns the
    value (the ClientHello challenge left-padded to 32 bytes, as the parser stores it) and
    exactly the bytes that followed -/
theorem ssl2_clientHello_roundtrip (a m : Nat) (cs : Val) (sid ch b r : Bytes)
    (h : Ssl2.chEncode (.pair (.nat a) (.pair (.nat m) (.pair cs (.pair (.bytes sid) (.bytes ch))))) = some b) :
    Ssl2.chDecode (b ++ r) =
      .ok (.pair (.nat a) (.pair (.nat m) (.pair cs (.pair (.bytes sid) (.bytes (Ssl2.pad32 ch))))), r) :=
  Ssl2.ch_decode_encode a m cs sid ch b r h

theorem ssl2_serverHello_roundtrip (hit ct a m : Nat) (cert : Bytes) (cs : Val) (sid b r : Bytes)
    (h : Ssl2.shEncode (.pair (.nat hit) (.pair (.nat ct) (.pair (.nat a) (.pair (.nat m)
          (.pair (.bytes cert) (.pair cs (.bytes sid))))))) = some b) :
    Ssl2.shDecode (b ++ r) =
      .ok (.pair (.nat hit) (.pair (.nat ct) (.pair (.nat a) (.pair (.nat m)
          (.pair (.bytes cert) (.pair cs (.bytes sid)))))), r) :=
  Ssl2.sh_decode_encode hit ct a m cert cs sid b r h

theorem ssl2_clientMasterKey_roundtrip (cipher : Nat) (ck ek ka b r : Bytes)
    (h : Ssl2.cmkEncode (.pair (.nat cipher) (.pair (.bytes ck) (.pair (.bytes ek) (.bytes ka)))) = some b) :
    Ssl2.cmkDecode (b ++ r) = .ok (.pair (.nat cipher) (.pair (.bytes ck) (.pair (.bytes ek) (.bytes ka))), r) :=
  Ssl2.cmk_decode_encode cipher ck ek ka b r h

example : Ssl2.chDecode [0, 2, 0, 3, 0, 0, 0, 1, 1, 2, 3, 9] =
    .ok (.pair (.nat 0) (.pair (.nat 2) (.pair (.cons (.nat 0x010203) .nil)
      (.pair (.bytes []) (.bytes (List.replicate 31 0 ++ [9]))))), []) := by decide
-- a cipher-spec length that is not a multiple of 3 is refused
example : ∃ e, Ssl2.chDecode [0, 2, 0, 4, 0, 0, 0, 0, 1, 2, 3, 9] = .error e := ⟨.trailing, by decide⟩

/-- the ticket-payload layout rule never picks a layout that cannot carry a field that is set:
    flags or a server name force version 2, a certificate chain at least version 1, and the
    smallest sufficient layout is chosen -/
theorem ticket_layout_carries_fields (hasChain etm ems hasName : Bool) :
    let v := Msgs.ticketVersion hasChain etm ems hasName
    ((etm || ems || hasName) = true → v = 2) ∧ (hasChain = true → 1 ≤ v) ∧
    ((etm || ems || hasName) = false → hasChain = false → v = 0) ∧ v ≤ 2 := by
  cases hasChain <;> cases etm <;> cases ems <;> cases hasName <;> decide

/-! ## every concrete tlslite format is an instance -/

/-- the regenerated dispatch dictionaries of extensions.py name only classes the model has a
    format for -/
theorem extTables_known :
    (Gen.ExtTable.universal ++ Gen.ExtTable.server ++ Gen.ExtTable.certificate ++
      Gen.ExtTable.hrr).all (fun kc => kc.2 != .unknown) = true := by decide

/-- every class registered in the dispatch dictionaries of the current source (generated list) is
    in the model's table of extension classes and has a format of its own there -/
theorem ext_registered_classes_have_formats :
    Gen.ExtTable.registered.all (fun c =>
      c != .unknown && Msgs.allExtCls.contains c && !Msgs.isFail (Msgs.extBody c) &&
      wf true (Msgs.extBody c)) = true := by decide

/-- every extension_data format may end its region (is parsed from exactly its bytes) -/
theorem msgs_extBody_wf : Msgs.allExtCls.all (fun c => wf true (Msgs.extBody c)) = true := by decide

/-- a whole extension (type, length, data) is self-delimiting in every context, for the
    dispatch tables as they are in the source now -/
theorem msgs_ext_wf :
    [Msgs.ExtCtx.plain, .server, .hrr, .cert].all (fun c => wf false (Msgs.ext c)) = true := by decide

/-- every named message format is well-formed: self-delimiting unless its parser is handed
    exactly the structure (`exact`), in which case it may use the tail constructs -/
theorem msgs_table_wf :
    Msgs.table.all (fun nm => wf nm.2.exact nm.2.fmt) = true := by decide

/-- hence every message of the table round-trips through the model of its real parser
    (framing + the parser's own extra condition `post`) … -/
theorem msgs_decode_encode (name : String) (m : Msgs.Msg) (hm : (name, m) ∈ Msgs.table)
    (v : Val) (b r : Bytes) (he : m.encode v = some b) (hp : m.post v = true)
    (hd : Msgs.noDupTags m.fmt 0 v = true)
    (hr : m.exact = true → r = []) : m.decode (b ++ r) = .ok (v, r) := by
  have hwf : wf m.exact m.fmt = true := by
    have := List.all_eq_true.mp msgs_table_wf (name, m) hm
    simpa using this
  unfold Msgs.Msg.decode
  unfold Msgs.Msg.encode at he
  rw [decode_encode_gen m.fmt m.exact 0 v b r hwf he hr]
  by_cases hx : m.exact = true
  · simp [hr hx, hp, hd]
  · simp [hx, hp, hd]

/-- … and whatever the model of a real parser accepts re-serialises to the bytes consumed -/
theorem msgs_encode_decode (m : Msgs.Msg) (b : Bytes) (v : Val) (r : Bytes)
    (h : m.decode b = .ok (v, r)) :
    ∃ e, m.encode v = some e ∧ e ++ r = b ∧ m.post v = true ∧ Msgs.noDupTags m.fmt 0 v = true ∧
      (m.exact = true → r = []) := by
  unfold Msgs.Msg.decode at h
  cases hd : decode m.fmt 0 b with
  | error e => rw [hd] at h; cases h
  | ok p =>
    obtain ⟨v', r'⟩ := p
    rw [hd] at h
    dsimp only at h
    by_cases hx : (m.exact && !r'.isEmpty) = true
    · simp [hx] at h
    · simp only [hx] at h
      by_cases hp : (m.post v' && Msgs.noDupTags m.fmt 0 v') = true
      · simp only [hp, if_true, Bool.false_eq_true, if_false, Except.ok.injEq, Prod.mk.injEq] at h
        obtain ⟨rfl, rfl⟩ := h
        obtain ⟨e, he, heb⟩ := encode_decode m.fmt 0 b v' r' hd
        simp only [Bool.and_eq_true] at hp
        refine ⟨e, he, heb, hp.1, hp.2, ?_⟩
        intro hex
        simp only [hex, Bool.true_and, Bool.not_eq_true', Bool.not_eq_false] at hx
        cases r' with
        | nil => rfl
        | cons x xs => simp at hx
      · simp [hp] at h

example : ({ fmt := Msgs.keyUpdate } : Msgs.Msg).decode [0, 0, 1, 1] = .ok (.nat 1, []) := by decide
example : ({ fmt := Msgs.changeCipherSpec, exact := true } : Msgs.Msg).decode [1, 1] =
    .error .trailing := by decide
-- EncryptedExtensions with the same (unknown) extension type twice is refused, once is fine
example : ({ fmt := Msgs.encryptedExtensions } : Msgs.Msg).decode
    [0, 0, 10, 0, 8, 0xfa, 0xfa, 0, 0, 0xfa, 0xfa, 0, 0] = .error .rejected := by decide
example : ({ fmt := Msgs.encryptedExtensions } : Msgs.Msg).decode
    [0, 0, 10, 0, 8, 0xfa, 0xfa, 0, 0, 0xfa, 0xfb, 0, 0] =
      .ok (.cons (.pair (.nat 0xfafa) (.bytes [])) (.cons (.pair (.nat 0xfafb) (.bytes [])) .nil), []) := by decide

end Tls.C15
