import TlsProofs.RecordAccept
import TlsProofs.RecordConn
import TlsProofs.RecordDemo
import TlsModel.RecordTie
/-
  C02 — a record is accepted only if it is exactly what the peer sent next.

  Same model as C01 (`Tls.Rec`).  "Any other byte string is rejected" is probabilistic for real
  primitives, so it is stated as a REDUCTION with explicit bad events, never with an unsatisfiable
  "the MAC is injective" hypothesis: if the receiver — having processed `k` records — accepts a byte
  string as a record and yields `(type, plaintext)`, then `(type, plaintext)` is the `k`-th record
  the sender protected in this direction / epoch, OR the presented bytes contain a forgery against
  this direction's key:
    `MacForgery P log x tag`  : `tag` verifies on `x`, and the sender never authenticated `x`;
    `AeadForgery P log n a c` : `(nonce, aad, ciphertext)` opens, and the sender never produced it.
  The forged item is an explicit function of the presented bytes (`presentedTag…`, `presented12`),
  so the disjunct is a genuine break of the primitive, not a tautology.
  What the proofs establish is the code-specific part: the authenticated encodings are injective in
  (sequence number, type, length, data), the nonce is an injective function of the sequence number,
  the comparison covers every byte, the state used is the one of this direction and epoch.
  `sent` is ANY list of (type, plaintext) the sender protected from state `s0`; `k ≤ sent.length`
  is the number of records the receiver has processed, so replay (`j < k`), reordering and dropping
  (`j > k`), truncation, extension, bit flips, splices, records of the other direction or another
  epoch (protected under another key, i.e. another `Prims`) are all instances of "some byte string".
-/
namespace Tls.Rec
open Tls.CT

/-! ## injectivity of what is authenticated -/

/-- `calculateMAC` input: seq ‖ type ‖ [version] ‖ length ‖ data determines (seq, type, data) -/
theorem macInput_injective (c : Cfg) (s1 s2 : Nat) (t1 t2 : UInt8) (d1 d2 : Bytes)
    (h1 : s1 < 2 ^ 64) (h2 : s2 < 2 ^ 64) (h : macInput s1 t1 c d1 = macInput s2 t2 c d2) :
    s1 = s2 ∧ t1 = t2 ∧ d1 = d2 :=
  macInput_inj c s1 s2 t1 t2 d1 d2 h1 h2 h

/-- TLS 1.2 AEAD additional data determines (seq, type, plaintext length); TLS 1.3 additional data
    (the record header) determines (type, wire length) -/
theorem aad_injective (vmaj vmin : Nat) (s1 s2 : Nat) (t1 t2 : UInt8) (l1 l2 : Nat)
    (h1 : s1 < 2 ^ 64) (h2 : s2 < 2 ^ 64) (hl1 : l1 < 2 ^ 16) (hl2 : l2 < 2 ^ 16) :
    (aad12 s1 t1 vmaj vmin l1 = aad12 s2 t2 vmaj vmin l2 → s1 = s2 ∧ t1 = t2 ∧ l1 = l2) ∧
    (aad13 t1 vmaj vmin l1 = aad13 t2 vmaj vmin l2 → t1 = t2 ∧ l1 = l2) :=
  ⟨aad12_inj vmaj vmin s1 s2 t1 t2 l1 l2 h1 h2 hl1 hl2, aad13_inj vmaj vmin t1 t2 l1 l2 hl1 hl2⟩

/-- `_getNonce`: both constructions (fixed ‖ seq, and (0-pad ‖ seq) XOR fixed IV) are injective in
    the sequence number on the real domain; so no nonce repeats within an epoch and, in TLS 1.3
    where the sequence number is authenticated only through the nonce, it is authenticated -/
theorem nonce_injective_in_seq (c : Cfg) (hfn : c.xorNonce = true → 8 ≤ c.fixedNonce.length)
    (s1 s2 : Nat) (h1 : s1 < 2 ^ 64) (h2 : s2 < 2 ^ 64) (h : nonce c s1 = nonce c s2) : s1 = s2 :=
  nonce_inj c hfn s1 s2 h1 h2 h

/-! ## accept ⇒ next record or forgery, path by path -/

/-- MAC-then-encrypt, stream cipher or null cipher (SSLv3 … TLS 1.2) -/
theorem accept_is_next_or_forgery_mteStream {S} (P : Prims S) (c : Cfg) (hmac : c.hasMac = true) (u : Bool)
    (s0 : St S) (sent : List (UInt8 × Bytes)) (k : Nat) (rst : St S)
    (hk : rst.seq = s0.seq + k) (hb : s0.seq + sent.length < 2 ^ 64) (hkn : k ≤ sent.length)
    (t : UInt8) (body : Bytes) (st' : St S) (p : Bytes)
    (hacc : decStream P c u rst t body = .ok (st', p)) :
    (∃ h : k < sent.length, sent[k] = (t, p)) ∨
      MacForgery P (logMte c (trace (protMteStream P c u) s0 sent)) (macInput rst.seq t c p)
        (presentedTagStream P u rst body) :=
  accept_mteStream P c hmac u s0 sent k rst hk hb hkn t body st' p hacc

/-- MAC-then-encrypt CBC (SSLv3 … TLS 1.2), through `ct_check_cbc_mac_and_pad` (C12's
    characterisation).  The conclusion is at (type, plaintext) level:
    `accept_is_next_or_forgery_mteCbc_bytes_partial` — that no OTHER ciphertext decrypts to the same
    fragment ‖ MAC with a different valid padding — needs unpredictability of the block cipher, an
    assumption about the primitive that is not a functional law; it is not proved here. -/
theorem accept_is_next_or_forgery_mteCbc {S} (P : Prims S) (hm : MacLaw P) (hbl : BlockLaw P) (c : Cfg)
    (hmac : c.hasMac = true) (s0 : St S) (sent : List (UInt8 × Bytes)) (k : Nat) (rst : St S)
    (hk : rst.seq = s0.seq + k) (hb : s0.seq + sent.length < 2 ^ 64) (hkn : k ≤ sent.length)
    (t : UInt8) (body : Bytes) (hbody : body.length < 2 ^ 16) (st' : St S) (p : Bytes)
    (hacc : decCbc P c rst t body = .ok (st', p)) :
    (∃ h : k < sent.length, sent[k] = (t, p)) ∨
      MacForgery P (logMte c (trace (protMteCbc P c) s0 sent)) (macInput rst.seq t c p)
        (presentedTagCbc P c rst body) :=
  accept_mteCbc P hm hbl c hmac s0 sent k rst hk hb hkn t body hbody st' p hacc

/-- encrypt-then-MAC CBC: strengthened to BYTE equality of the record body -/
theorem accept_is_next_or_forgery_etm {S} (P : Prims S) (hm : MacLaw P) (hbl : BlockLaw P) (c : Cfg)
    (hmac : c.hasMac = true) (hiv : c.verGe 3 2 = true → c.fixedIV.length = P.bs)
    (s0 : St S) (sent : List (UInt8 × Bytes)) (k : Nat) (rst : St S)
    (hsync : rst = runState (protEtm P c true) s0 (sent.take k))
    (hb : s0.seq + sent.length < 2 ^ 64) (hkn : k ≤ sent.length)
    (t : UInt8) (body : Bytes) (st' : St S) (p : Bytes)
    (hacc : decEtm P c true rst t body = .ok (st', p)) :
    (∃ h : k < sent.length, sent[k] = (t, p) ∧ body = (protEtm P c true rst sent[k].1 sent[k].2).2) ∨
      MacForgery P (logEtm P c (trace (protEtm P c true) s0 sent))
        (macInput rst.seq t c (dropLast P.mac.dlen body)) (lastN P.mac.dlen body) :=
  accept_etm P hm hbl c hmac hiv s0 sent k rst hsync hb hkn t body st' p hacc

/-- AEAD in TLS 1.2 (explicit / XOR / draft nonce): byte equality of the record body -/
theorem accept_is_next_or_forgery_aead12 {S} (P : Prims S) (ha : AeadLaw P) (c : Cfg) (h13 : c.is13 = false)
    (hname : c.nameHasAes = true → c.nameIsChacha = false)
    (s0 : St S) (sent : List (UInt8 × Bytes)) (hsl : ∀ x ∈ sent, x.2.length < 2 ^ 16)
    (k : Nat) (rst : St S) (hk : rst.seq = s0.seq + k) (hb : s0.seq + sent.length < 2 ^ 64) (hkn : k ≤ sent.length)
    (h : Rec) (hbody : h.body.length < 2 ^ 16) (st' : St S) (p : Bytes)
    (hacc : decAead P c rst h = .ok (st', p)) :
    (∃ hk : k < sent.length, sent[k] = (h.typ, p) ∧ h.body = (protAead P c rst h.typ p).2) ∨
      AeadForgery P (logAead12 P c (trace (protAead P c) s0 sent))
        (presented12 P c rst h).1 (presented12 P c rst h).2.1 (presented12 P c rst h).2.2 :=
  accept_aead12 P ha c h13 hname s0 sent hsl k rst hk hb hkn h hbody st' p hacc

/-- TLS 1.3, at the level of `recvRecord` (outer type / version checks, open, de-padding): a
    protected record (outer type 23) that is accepted yields exactly the sender's `k`-th (inner
    type, fragment) and is byte-identical to the sender's `k`-th record body — in particular an
    attacker cannot change the inner content type or the amount of padding. -/
theorem accept_is_next_or_forgery_tls13 {S} (P : Prims S) (ha : AeadLaw P) (c : Cfg) (h13 : c.is13 = true)
    (hci : c.cipher = .aead) (hfn : 8 ≤ c.fixedNonce.length) (padCb : Option PadCb) (sendLimit : Nat)
    (s0 : St S) (sent : List (UInt8 × Bytes)) (hsent : ∀ x ∈ sent, x.1 ≠ 0)
    (k : Nat) (rv : Recv S) (hk : rv.st.seq = s0.seq + k) (hb : s0.seq + sent.length < 2 ^ 64) (hkn : k ≤ sent.length)
    (h : Rec) (htyp : h.typ = 23) (rv' : Recv S) (t : UInt8) (p : Bytes)
    (hacc : recvRecord P c rv h = .ok rv' t p) :
    (∃ hk : k < sent.length, sent[k] = (t, p) ∧ h.body = (send13 P c padCb sendLimit rv.st sent[k].1 sent[k].2).2) ∨
      AeadForgery P (log13 P c padCb sendLimit (trace (send13 P c padCb sendLimit) s0 sent))
        (nonce c rv.st.seq) (aad13 23 3 3 h.body.length) h.body :=
  accept_tls13 P ha c h13 hci hfn padCb sendLimit s0 sent hsent k rv hk hb hkn h htyp rv' t p hacc

/-- TLS 1.3 with keys installed accepts a record whose outer type is not application_data only if
    it is a ChangeCipherSpec, or — before the handshake is done (`plaintext_alerts_ok`) — an alert of
    fewer than 3 bytes while no protected record has been received under the current key; such a
    record keeps its own type (it can never become application data) and does not touch the read
    state.  Every other outer type is `unexpected_message`. -/
theorem tls13_outer_type_enforced {S} (P : Prims S) (c : Cfg) (h13 : c.is13 = true) (hci : c.cipher = .aead)
    (rv : Recv S) (h : Rec) (htyp : h.typ ≠ 23) (rv' : Recv S) (t : UInt8) (p : Bytes)
    (hacc : recvRecord P c rv h = .ok rv' t p) :
    (h.typ = 20 ∨ (h.typ = 21 ∧ h.body.length < 3 ∧ rv.plaintextAlertsOk = true ∧ rv.st.seq = 0)) ∧
      t = h.typ ∧ p = h.body ∧ rv'.st = rv.st :=
  tls13_unprotected P c h13 hci rv h htyp rv' t p hacc

/-- after the handshake (`plaintext_alerts_ok = False`, set by `_handshakeDone`) the only record a
    TLS 1.3 endpoint accepts without protection is ChangeCipherSpec (which the layer above rejects
    with `unexpected_message` once `_middlebox_compat_mode` is off): no unprotected alert can close
    the connection on the attacker's terms -/
theorem tls13_no_plaintext_alert_after_handshake {S} (P : Prims S) (c : Cfg) (h13 : c.is13 = true)
    (hci : c.cipher = .aead) (rv : Recv S) (hflag : rv.plaintextAlertsOk = false) (h : Rec) (htyp : h.typ ≠ 23)
    (rv' : Recv S) (t : UInt8) (p : Bytes) (hacc : recvRecord P c rv h = .ok rv' t p) : h.typ = 20 := by
  rcases (tls13_unprotected P c h13 hci rv h htyp rv' t p hacc).1 with h20 | ⟨_, _, hf, _⟩
  · exact h20
  · rw [hflag] at hf; cases hf

/-- TLS ≤ 1.2: whatever `recvRecord` accepts was accepted by the decryption dispatch under the
    header's own content type — the outer layers (length caps, early-data window, limit checks) can
    only turn an accept into a reject — so the per-path theorems above cover `recvRecord` itself -/
theorem recvRecord_ok_decrypt {S} (P : Prims S) (c : Cfg) (h13 : c.is13 = false) (rv rv' : Recv S) (h : Rec)
    (t : UInt8) (p : Bytes) (hacc : recvRecord P c rv h = .ok rv' t p) :
    decrypt P c rv h = .ok (rv'.st, p) ∧ t = h.typ :=
  recvRecord_ok_decrypt_aux P c h13 rv rv' h t p hacc

/-- … and the dispatch selects the path from the configuration alone (cipher kind, EtM flag) -/
theorem decrypt_path {S} (P : Prims S) (c : Cfg) (h13 : c.is13 = false) (rv : Recv S) (hearly : rv.earlyOk = false) (h : Rec) :
    decrypt P c rv h =
      (if c.cipher == .aead then decAead P c rv.st h
       else if c.etm then (match c.cipher with
          | .null => decEtm P c false rv.st h.typ h.body
          | _ => decEtm P c true rv.st h.typ h.body)
       else match c.cipher with
          | .block => decCbc P c rv.st h.typ h.body
          | .null => decStream P c false rv.st h.typ h.body
          | _ => decStream P c true rv.st h.typ h.body) :=
  decrypt_path_aux P c h13 rv hearly h

/-- a byte string whose first byte is not a content type (read as an SSLv2 record header) is refused
    with `unexpected_message` as soon as the read state of an SSLv3/TLS connection has a cipher or a
    MAC: SSLv2 framing cannot be used to reach the SSLv2 decryption code with TLS keys -/
theorem ssl2_framing_refused (c : Cfg) (hv : ¬ ((c.vmaj = 2 ∧ c.vmin = 0) ∨ (c.vmaj = 0 ∧ c.vmin = 2)))
    (hprot : c.cipher ≠ .null ∨ c.hasMac = true) : recvSsl2Framed c = some .unexpected_message := by
  unfold recvSsl2Framed
  have h1 : ((c.vmaj == 2 && c.vmin == 0) || (c.vmaj == 0 && c.vmin == 2)) = false := by
    cases h : ((c.vmaj == 2 && c.vmin == 0) || (c.vmaj == 0 && c.vmin == 2))
    · rfl
    · simp at h; exact absurd h hv
  have h2 : (c.cipher != .null || c.hasMac) = true := by
    rcases hprot with h | h
    · simp [h]
    · simp [h]
  simp [h1, h2]

/-! ## corollaries: the named attacks -/

/-- REPLAY: presenting again the body of an earlier record `j < k` (EtM): accepted only through a
    forgery, or if the replayed bytes are byte-identical to the record due next -/
theorem replay_rejected_or_forgery_etm {S} (P : Prims S) (hm : MacLaw P) (hbl : BlockLaw P) (c : Cfg)
    (hmac : c.hasMac = true) (hiv : c.verGe 3 2 = true → c.fixedIV.length = P.bs)
    (s0 : St S) (sent : List (UInt8 × Bytes)) (j k : Nat) (hj : j < sent.length) (_hjk : j ≠ k) (hkn : k ≤ sent.length)
    (hb : s0.seq + sent.length < 2 ^ 64) (st' : St S) (p : Bytes)
    (hacc : decEtm P c true (runState (protEtm P c true) s0 (sent.take k)) sent[j].1
        (protEtm P c true (runState (protEtm P c true) s0 (sent.take j)) sent[j].1 sent[j].2).2 = .ok (st', p)) :
    (∃ h : k < sent.length,
        (protEtm P c true (runState (protEtm P c true) s0 (sent.take j)) sent[j].1 sent[j].2).2 =
        (protEtm P c true (runState (protEtm P c true) s0 (sent.take k)) sent[k].1 sent[k].2).2) ∨
      MacForgery P (logEtm P c (trace (protEtm P c true) s0 sent))
        (macInput (runState (protEtm P c true) s0 (sent.take k)).seq sent[j].1 c
          (dropLast P.mac.dlen (protEtm P c true (runState (protEtm P c true) s0 (sent.take j)) sent[j].1 sent[j].2).2))
        (lastN P.mac.dlen (protEtm P c true (runState (protEtm P c true) s0 (sent.take j)) sent[j].1 sent[j].2).2) := by
  rcases accept_etm P hm hbl c hmac hiv s0 sent k _ rfl hb hkn _ _ st' p hacc with ⟨h, _, hbody⟩ | hf
  · exact Or.inl ⟨h, hbody⟩
  · exact Or.inr hf

/-- REPLAY / REORDER / DROP at MAC-then-encrypt level: whatever record `j ≠ k` of the same
    direction is presented at position `k`, acceptance with result `(t, p)` means `(t, p)` is the
    record due at `k`, or a MAC forgery; in particular after dropping record `k` (presenting
    `k + 1`) the connection cannot silently continue -/
theorem reorder_rejected_or_forgery_mte {S} (P : Prims S) (c : Cfg) (hmac : c.hasMac = true) (u : Bool)
    (s0 : St S) (sent : List (UInt8 × Bytes)) (j k : Nat) (_hj : j < sent.length) (_hjk : j ≠ k) (hkn : k ≤ sent.length)
    (hb : s0.seq + sent.length < 2 ^ 64) (rst : St S) (hk : rst.seq = s0.seq + k) (t : UInt8) (bodyj : Bytes)
    (st' : St S) (p : Bytes) (hacc : decStream P c u rst t bodyj = .ok (st', p)) :
    (∃ h : k < sent.length, sent[k] = (t, p)) ∨
      MacForgery P (logMte c (trace (protMteStream P c u) s0 sent)) (macInput rst.seq t c p)
        (presentedTagStream P u rst bodyj) :=
  accept_mteStream P c hmac u s0 sent k rst hk hb hkn t bodyj st' p hacc

/-- CROSS-DIRECTION / OTHER EPOCH: a record protected under ANOTHER key (`P'`: the other
    direction's or another epoch's primitives, any state, any content) presented to a receiver of
    this direction that has not been sent anything yet (`sent = []`): every acceptance is a forgery
    against THIS direction's key -/
theorem reflection_is_forgery_aead12 {S} (P P' : Prims S) (ha : AeadLaw P) (c : Cfg) (h13 : c.is13 = false)
    (hname : c.nameHasAes = true → c.nameIsChacha = false) (s0 rst other : St S) (hk : rst.seq = s0.seq)
    (hb : s0.seq < 2 ^ 64) (t : UInt8) (data : Bytes) (hlen : (protAead P' c other t data).2.length < 2 ^ 16)
    (st' : St S) (p : Bytes)
    (hacc : decAead P c rst ⟨t, c.vmaj, c.vmin, (protAead P' c other t data).2⟩ = .ok (st', p)) :
    AeadForgery P []
      (presented12 P c rst ⟨t, c.vmaj, c.vmin, (protAead P' c other t data).2⟩).1
      (presented12 P c rst ⟨t, c.vmaj, c.vmin, (protAead P' c other t data).2⟩).2.1
      (presented12 P c rst ⟨t, c.vmaj, c.vmin, (protAead P' c other t data).2⟩).2.2 := by
  rcases accept_aead12 P ha c h13 hname s0 [] (by simp) 0 rst (by simpa using hk) (by simpa using hb) (by simp)
    ⟨t, c.vmaj, c.vmin, (protAead P' c other t data).2⟩ hlen st' p hacc with ⟨h, _⟩ | hf
  · simp at h
  · simpa [logAead12, trace] using hf

/-- TRUNCATION / EXTENSION / BIT FLIP (EtM, and likewise AEAD by `…_aead12` / `…_tls13`): any body
    that differs from the honest next body in any byte, or in length, is accepted only via forgery -/
theorem modified_rejected_or_forgery_etm {S} (P : Prims S) (hm : MacLaw P) (hbl : BlockLaw P) (c : Cfg)
    (hmac : c.hasMac = true) (hiv : c.verGe 3 2 = true → c.fixedIV.length = P.bs)
    (s0 : St S) (sent : List (UInt8 × Bytes)) (k : Nat) (hk : k < sent.length) (hb : s0.seq + sent.length < 2 ^ 64)
    (t : UInt8) (body : Bytes)
    (hdiff : body ≠ (protEtm P c true (runState (protEtm P c true) s0 (sent.take k)) sent[k].1 sent[k].2).2)
    (st' : St S) (p : Bytes)
    (hacc : decEtm P c true (runState (protEtm P c true) s0 (sent.take k)) t body = .ok (st', p)) :
    MacForgery P (logEtm P c (trace (protEtm P c true) s0 sent))
      (macInput (runState (protEtm P c true) s0 (sent.take k)).seq t c (dropLast P.mac.dlen body))
      (lastN P.mac.dlen body) := by
  rcases accept_etm P hm hbl c hmac hiv s0 sent k _ rfl hb (by omega) t body st' p hacc with ⟨_, _, hbody⟩ | hf
  · exact absurd hbody hdiff
  · exact hf

/-- TLS 1.3 INNER TYPE / PADDING FORGERY: a protected record whose body differs from the honest
    next body (which fixes inner type, fragment and padding length) is accepted only via forgery -/
theorem tls13_inner_forgery {S} (P : Prims S) (ha : AeadLaw P) (c : Cfg) (h13 : c.is13 = true)
    (hci : c.cipher = .aead) (hfn : 8 ≤ c.fixedNonce.length) (padCb : Option PadCb) (sendLimit : Nat)
    (s0 : St S) (sent : List (UInt8 × Bytes)) (hsent : ∀ x ∈ sent, x.1 ≠ 0)
    (k : Nat) (hk : k < sent.length) (rv : Recv S) (hseq : rv.st.seq = s0.seq + k) (hb : s0.seq + sent.length < 2 ^ 64)
    (h : Rec) (htyp : h.typ = 23)
    (hdiff : h.body ≠ (send13 P c padCb sendLimit rv.st sent[k].1 sent[k].2).2)
    (rv' : Recv S) (t : UInt8) (p : Bytes) (hacc : recvRecord P c rv h = .ok rv' t p) :
    AeadForgery P (log13 P c padCb sendLimit (trace (send13 P c padCb sendLimit) s0 sent))
      (nonce c rv.st.seq) (aad13 23 3 3 h.body.length) h.body := by
  rcases accept_tls13 P ha c h13 hci hfn padCb sendLimit s0 sent hsent k rv hseq hb (by omega) h htyp rv' t p hacc
    with ⟨_, _, hbody⟩ | hf
  · exact absurd hbody hdiff
  · exact hf

/-! ## rejection is fatal (connection model) -/

/-- every rejection by the record layer (`recvRecord` raising) while a read is in progress: exactly
    one fatal alert with the tabled description goes out through the write state, no byte of the
    record reaches the read buffer or the application, the connection is closed, the session is
    not resumable, and the rejected record is consumed -/
theorem reject_is_fatal {W R} (prot : W → UInt8 → Bytes → Option (W × Rec))
    (unprot : R → Rec → Except Err (Option (R × UInt8 × Bytes))) (max : Option Nat) (min : Nat)
    (tryOnce : Bool) (e : Endpoint W R) (r : Rec) (inc : List Rec)
    (hmore : readMore e min tryOnce = true) (err : Err) (hrej : unprot e.rd r = .error err) :
    let res := epReadLoop prot unprot max min tryOnce e (r :: inc)
    res.2.2.2 = .localAlert err.alert ∧ res.2.2.2.bytes = [] ∧
    res.1.closed = true ∧ res.1.resumable = false ∧ res.1.buf = e.buf ∧ res.2.1 = inc ∧
    res.2.2.1.length ≤ 1 ∧
    (∀ w' a, prot e.wr 21 [2, UInt8.ofNat err.alert] = some (w', a) → res.2.2.1 = [a] ∧ res.1.wr = w') ∧
    err.alert ∈ [10, 20, 21, 22, 47] := by
  simp only [epReadLoop, hmore, if_true, hrej, epFatal]
  cases hp : prot e.wr 21 [2, UInt8.ofNat err.alert] with
  | none => cases err <;> simp [ReadOut.bytes, Err.alert]
  | some v => obtain ⟨w', a⟩ := v; cases err <;> simp [ReadOut.bytes, Err.alert]

/-- the same for the two record-level rejections made by `_getNextRecordFromSocket` itself: an
    empty record of a type other than application data, and an unknown content type -/
theorem reject_bad_type_is_fatal {W R} (prot : W → UInt8 → Bytes → Option (W × Rec))
    (unprot : R → Rec → Except Err (Option (R × UInt8 × Bytes))) (max : Option Nat) (min : Nat)
    (tryOnce : Bool) (e : Endpoint W R) (r : Rec) (inc : List Rec)
    (hmore : readMore e min tryOnce = true) (rd' : R) (t : UInt8) (d : Bytes)
    (hok : unprot e.rd r = .ok (some (rd', t, d))) (ht : t ≠ 23)
    (hbad : d = [] ∨ (t ≠ 20 ∧ t ≠ 21 ∧ t ≠ 22 ∧ t ≠ 24)) :
    let res := epReadLoop prot unprot max min tryOnce e (r :: inc)
    res.2.2.2 = .localAlert 10 ∧ res.1.closed = true ∧ res.1.resumable = false ∧ res.1.buf = e.buf ∧
    res.2.1 = inc ∧ res.2.2.1.length ≤ 1 := by
  have h23 : (t == 23) = false := by simp [ht]
  have hcond : (d.isEmpty || !(t == 20 || t == 21 || t == 22 || t == 24)) = true := by
    rcases hbad with h | ⟨h1, h2, h3, h4⟩
    · simp [h]
    · simp [h1, h2, h3, h4]
  simp only [epReadLoop, hmore, if_true, hok, h23, Bool.false_eq_true, if_false, hcond, epFatal]
  cases hp : prot e.wr 21 [2, UInt8.ofNat Err.unexpected_message.alert] with
  | none => simp [Err.alert]
  | some v => obtain ⟨w', a⟩ := v; simp [Err.alert]

/-- a ChangeCipherSpec record on an established connection (`_middlebox_compat_mode` cleared at the
    end of the handshake by both roles, with or without client authentication; TLS ≤ 1.2 never
    tolerates it) is fatal like any other rejection: `unexpected_message`, nothing delivered,
    closed, not resumable — it is never skipped silently -/
theorem ccs_after_handshake_is_fatal {W R} (prot : W → UInt8 → Bytes → Option (W × Rec))
    (unprot : R → Rec → Except Err (Option (R × UInt8 × Bytes))) (max : Option Nat) (min : Nat)
    (tryOnce : Bool) (e : Endpoint W R) (r : Rec) (inc : List Rec)
    (hmore : readMore e min tryOnce = true) (hflag : e.ccsTolerated = false) (rd' : R) (d : Bytes)
    (hok : unprot e.rd r = .ok (some (rd', 20, d))) :
    let res := epReadLoop prot unprot max min tryOnce e (r :: inc)
    res.2.2.2 = .localAlert 10 ∧ res.1.closed = true ∧ res.1.resumable = false ∧ res.1.buf = e.buf ∧
    res.2.1 = inc ∧ res.2.2.1.length ≤ 1 := by
  have h1 : ((20 : UInt8) == 23) = false := by decide
  simp only [epReadLoop, hmore, if_true, hok, h1, Bool.false_eq_true, if_false, hflag, Bool.false_and, epFatal]
  by_cases hd : (d.isEmpty || !((20 : UInt8) == 20 || (20 : UInt8) == 21 || (20 : UInt8) == 22 || (20 : UInt8) == 24)) = true
  · simp only [hd, if_true]
    cases hp : prot e.wr 21 [2, UInt8.ofNat Err.unexpected_message.alert] with
    | none => simp [Err.alert]
    | some v => obtain ⟨w', a⟩ := v; simp [Err.alert]
  · simp only [hd, Bool.false_eq_true, if_false, beq_self_eq_true, if_true]
    cases hp : prot e.wr 21 [2, UInt8.ofNat Err.unexpected_message.alert] with
    | none => simp [Err.alert]
    | some v => obtain ⟨w', a⟩ := v; simp [Err.alert]

/-- once closed, an endpoint processes nothing further: reads hand out what was buffered BEFORE the
    rejection and consume no record, writes raise `TLSClosedConnectionError` and send nothing -/
theorem closed_is_final {W R} (prot : W → UInt8 → Bytes → Option (W × Rec))
    (unprot : R → Rec → Except Err (Option (R × UInt8 × Bytes))) (max : Option Nat) (min : Nat)
    (tryOnce : Bool) (e : Endpoint W R) (inc : List Rec) (hcl : e.closed = true) (data : Bytes) :
    (epReadLoop prot unprot max min tryOnce e inc).2.1 = inc ∧
    (epReadLoop prot unprot max min tryOnce e inc).2.2.1 = [] ∧
    (epReadLoop prot unprot max min tryOnce e inc).1.rd = e.rd ∧
    (epReadLoop prot unprot max min tryOnce e inc).2.2.2.bytes ++ (epReadLoop prot unprot max min tryOnce e inc).1.buf = e.buf ∧
    epWrite prot e data = (e, [], .closedError) := by
  have hm : readMore e min tryOnce = false := by unfold readMore; simp [hcl]
  refine ⟨?_, ?_, ?_, ?_, ?_⟩
  · cases inc <;> simp [epReadLoop, hm, epReturn]
  · cases inc <;> simp [epReadLoop, hm, epReturn]
  · cases inc <;> simp [epReadLoop, hm, epReturn]
  · cases inc <;> simp [epReadLoop, hm, epReturn, ReadOut.bytes]
  · unfold epWrite; simp [hcl]

/-! ## the early-data window (TLS 1.3 server right after ClientHello) -/

/-- `early_data_ok`: a record the receiver cannot authenticate is skipped instead of being fatal —
    by design (RFC 8446 §4.2.10).  A skipped record yields no data, the read state (sequence number
    and cipher state) is restored exactly, and the running total of skipped bytes stays strictly
    below `max_early_data`. -/
theorem early_data_skip_safe {S} (P : Prims S) (c : Cfg) (rv rv' : Recv S) (h : Rec)
    (hs : recvRecord P c rv h = .skip rv') :
    rv.earlyOk = true ∧ rv'.st = rv.st ∧ rv'.earlyOk = true ∧ rv'.maxEarly = rv.maxEarly ∧
    rv'.recvLimit = rv.recvLimit ∧ rv'.processed = rv.processed + h.body.length ∧
    rv'.processed < rv.maxEarly := by
  unfold recvRecord at hs
  repeat' split at hs
  all_goals first
    | (cases hs; done)
    | (rename_i hc; simp only [RecvResult.skip.injEq] at hs; subst hs
       simp only [Bool.and_eq_true, decide_eq_true_eq] at hc
       exact ⟨hc.1, rfl, hc.1, rfl, rfl, rfl, hc.2⟩)

/-- skip all records of a list (the receiver loops inside `recvRecord`) -/
def skipAll {S} (P : Prims S) (c : Cfg) : Recv S → List Rec → Option (Recv S)
  | rv, [] => some rv
  | rv, h :: hs => match recvRecord P c rv h with
    | .skip rv' => skipAll P c rv' hs
    | _ => none

/-- over any run of skipped records: state untouched, total skipped < max_early_data -/
theorem early_data_total_bounded {S} (P : Prims S) (c : Cfg) :
    ∀ (hs : List Rec) (rv rv' : Recv S), skipAll P c rv hs = some rv' → hs ≠ [] →
      rv'.st = rv.st ∧ rv'.processed = rv.processed + (hs.map (·.body.length)).sum ∧
      rv'.processed < rv.maxEarly ∧ rv'.maxEarly = rv.maxEarly
  | [], _, _, _, hne => absurd rfl hne
  | h :: hs, rv, rv', hrun, _ => by
    simp only [skipAll] at hrun
    cases hr : recvRecord P c rv h with
    | ok a b d => simp [hr] at hrun
    | err e => simp [hr] at hrun
    | skip rv1 =>
      simp only [hr] at hrun
      obtain ⟨_, h1, _, h3, _, h5, h6⟩ := early_data_skip_safe P c rv rv1 h hr
      cases hs with
      | nil =>
        simp only [skipAll, Option.some.injEq] at hrun
        subst hrun
        exact ⟨h1, by simp [h5], h6, h3⟩
      | cons h2 hs2 =>
        obtain ⟨i1, i2, i3, i4⟩ := early_data_total_bounded P c (h2 :: hs2) rv1 rv' hrun (by simp)
        refine ⟨by rw [i1, h1], ?_, by rw [← h3]; exact i3, by rw [i4, h3]⟩
        rw [i2, h5]; simp [Nat.add_assoc]

/-- outside the window nothing is ever skipped, and the first accepted record closes the window -/
theorem no_skip_outside_window {S} (P : Prims S) (c : Cfg) (rv : Recv S) (h : Rec) (hw : rv.earlyOk = false) :
    (∀ rv', recvRecord P c rv h ≠ .skip rv') ∧
    (∀ rv' t d, recvRecord P c rv h = .ok rv' t d → rv'.earlyOk = false) := by
  constructor
  · intro rv' hs
    have := (early_data_skip_safe P c rv rv' h hs).1
    rw [hw] at this; cases this
  · intro rv' t d hok
    unfold recvRecord at hok
    repeat' split at hok
    all_goals first
      | (cases hok; done)
      | (simp only [RecvResult.ok.injEq] at hok; rw [← hok.1])

open Tls.Gen Tls.Rec.Tie

/-! ## tie by regeneration (TlsModel/Gen/Record.lean): the authenticated constructions of the source
are the ones `macInput_injective`, `aad_injective` and `nonce_injective_in_seq` are about -/
/-- the `mac.update(…)` sequence of `calculateMAC`, interpreted field by field, IS `macInput`
    (sequence number, type, [version], length high / low, data — in this order) -/
theorem gen_mac_input_fields_match_model (seq : Nat) (t : UInt8) (c : Cfg) (data : Bytes) :
    interpMac Record.macFields seq t c data = some (macInput seq t c data) ∧
    Record.macResult = ["return bytearray(mac.digest())"] := by
  refine ⟨?_, by decide⟩
  have hf : Record.macFields = ["compatHMAC(seqnumBytes)", "compatHMAC(bytearray([contentType]))",
      "[self.version != (3, 0)] compatHMAC(bytearray([self.version[0]]))",
      "[self.version != (3, 0)] compatHMAC(bytearray([self.version[1]]))",
      "compatHMAC(bytearray([len(data) // 256]))", "compatHMAC(bytearray([len(data) % 256]))", "compatHMAC(data)"] := by
    decide +kernel
  rw [hf]
  have h1 : data.length >>> 8 = data.length / 256 := by rw [Nat.shiftRight_eq_div_pow]
  have h2 : data.length &&& 0xff = data.length % 256 := Nat.and_two_pow_sub_one_eq_mod _ 8
  unfold interpMac macInput macHeader
  simp only [List.mapM_cons, List.mapM_nil, macField, Option.pure_def, Option.bind_eq_bind, Option.bind_some, Option.map_some, h1, h2]
  cases isSsl3 c.vmaj c.vmin <;> simp


/-- the additional-data expressions of `_encryptThenSeal` / `_decryptAndUnseal` are `aad12` / `aad13`
    (the receiver uses the header it was handed), with the plaintext / output length expressions and
    the explicit-nonce handling the model has -/
theorem gen_aad_matches_model (seq : Nat) (t : UInt8) (c : Cfg) (hv : Nat × Nat) (plen : Nat) :
    Record.aadSend.mapM aadKindOf = some [.tls12, .tls13] ∧ Record.aadRecv.mapM aadKindOf = some [.tls12, .headerWrite] ∧
    AadKind.tls12.eval seq t c hv plen = aad12 seq t c.vmaj c.vmin plen ∧
    AadKind.tls13.eval seq t c hv plen = aad13 t c.recVer.1 c.recVer.2 plen ∧
    AadKind.headerWrite.eval seq t c hv plen = aad13 t hv.1 hv.2 plen ∧
    Record.outLenSend = ["[not(not self._is_tls13_plus())] len(buf) + self._writeState.encContext.tagLength"] ∧
    Record.plainLenRecv = ["[not self._is_tls13_plus()] len(buf) - self._readState.encContext.tagLength"] ∧
    Record.sealSend = ["self._writeState.encContext.seal(nonce, buf, authData)",
      "['aes' in self._writeState.encContext.name and (not self._is_tls13_plus())] seqNumBytes + buf"] ∧
    Record.nonceRecv = ["['aes' in self._readState.encContext.name and (not self._is_tls13_plus())] self._readState.fixedNonce + buf[:explicitNonceLength]",
      "[not('aes' in self._readState.encContext.name and (not self._is_tls13_plus()))] self._getNonce(self._readState, seqnumBytes)"] := by
  refine ⟨by decide +kernel, by decide +kernel, ?_, ?_, ?_, by decide +kernel, by decide +kernel, by decide +kernel, by decide +kernel⟩
  · simp [AadKind.eval, aad12, be16]
  · simp [AadKind.eval, aad13, be16]
  · simp [AadKind.eval, aad13, be16]


/-- `_getNonce` as it is written computes the model's `nonce` -/
theorem gen_nonce_matches_model (c : Cfg) (seq : Nat) (h : c.xorNonce = true → 8 ≤ c.fixedNonce.length) :
    nonceRecognised Record.nonceCond Record.nonce = true ∧ nonceRecognisedEval c seq = some (nonce c seq) := by
  refine ⟨by decide +kernel, ?_⟩
  unfold nonceRecognisedEval nonce
  unfold Cfg.xorNonce at h ⊢
  cases hx : ((c.nameIsChacha && c.fixedNonce.length == 12) || c.is13)
  · simp
  · have := h hx
    have : ¬ c.fixedNonce.length < 8 := by omega
    simp [this]


/-- `_calcTLS1_3KeyUpdate`, evaluated symbolically over an abstract HKDF-Expand-Label: the secret
    handed back (and stored by the caller) is the NEW one, key and IV are derived from it, the state
    is a fresh ConnectionState (sequence number 0); and `calcTLS1_3KeyUpdate_sender/_reciever`
    ratchet, per role, the secret of the direction whose state they replace -/
theorem gen_keyupdate_returns_new_secret {α} (H : α → String → α) (s : α) :
    keyUpdateEval H s Record.keyUpdate =
      some (H s "traffic upd", H s "traffic upd", H s "traffic upd", true) ∧
    keyUpdateRoles = modelKeyUpdateRoles := by
  refine ⟨?_, by decide +kernel⟩
  have e : Record.keyUpdate.take 9 = [
   ("_calcTLS1_3KeyUpdate", "(prf_name, prf_length)", "('sha384', 48) if cipherSuite in CipherSuite.sha384PrfSuites else ('sha256', 32)"),
   ("_calcTLS1_3KeyUpdate", "(key_length, iv_length, cipher_func)", "self._getCipherSettings(cipherSuite)"),
   ("_calcTLS1_3KeyUpdate", "iv_length", "12"),
   ("_calcTLS1_3KeyUpdate", "new_app_secret", "HKDF_expand_label(app_secret, b'traffic upd', b'', prf_length, prf_name)"),
   ("_calcTLS1_3KeyUpdate", "new_state", "ConnectionState()"),
   ("_calcTLS1_3KeyUpdate", "new_state.macContext", "None"),
   ("_calcTLS1_3KeyUpdate", "new_state.encContext", "cipher_func(HKDF_expand_label(new_app_secret, b'key', b'', key_length, prf_name), None)"),
   ("_calcTLS1_3KeyUpdate", "new_state.fixedNonce", "HKDF_expand_label(new_app_secret, b'iv', b'', iv_length, prf_name)"),
   ("_calcTLS1_3KeyUpdate", "return", "(new_app_secret, new_state)")] := by decide +kernel
  have hsplit : Record.keyUpdate = Record.keyUpdate.take 9 ++ Record.keyUpdate.drop 9 := (List.take_append_drop 9 _).symm
  rw [hsplit, e]
  simp [keyUpdateEval, keyUpdateEval.go]


/-- every protect / unprotect function draws its sequence number from the state of its own
    direction, once, under the guard the model has; `getSeqNumBytes` is 8 bytes, post-increment -/
theorem gen_seq_use_matches_model : Record.seqUse = modelSeqUse := by decide +kernel


/-! ## non-vacuity -/

def demoEtm : Cfg :=
  { vmaj := 3, vmin := 3, tls13record := false, cipher := .block, hasMac := true, etm := true,
    nameHasAes := true, nameIsChacha := false, fixedNonce := [], fixedIV := [9, 8, 7, 6] }

def demoGcm12 : Cfg :=
  { vmaj := 3, vmin := 3, tls13record := false, cipher := .aead, hasMac := false, etm := false,
    nameHasAes := true, nameIsChacha := false, fixedNonce := [1, 2, 3, 4], fixedIV := [] }

def demoChacha13 : Cfg :=
  { vmaj := 3, vmin := 4, tls13record := true, cipher := .aead, hasMac := false, etm := false,
    nameHasAes := false, nameIsChacha := true, fixedNonce := [1, 2, 3, 4, 5, 6, 7, 8, 9, 10, 11, 12], fixedIV := [] }

-- the hypotheses of the theorems above hold for concrete primitives and configurations …
example : MacLaw (Demo.prims 5) ∧ BlockLaw (Demo.prims 5) ∧ AeadLaw (Demo.prims 5) :=
  ⟨Demo.macLaw 5, Demo.blockLaw 5, Demo.aeadLaw 5⟩
example : demoEtm.hasMac = true ∧ (demoEtm.verGe 3 2 = true → demoEtm.fixedIV.length = (Demo.prims 5).bs) := by decide
example : demoGcm12.is13 = false ∧ (demoGcm12.nameHasAes = true → demoGcm12.nameIsChacha = false) := by decide
example : demoChacha13.is13 = true ∧ demoChacha13.cipher = .aead ∧ 8 ≤ demoChacha13.fixedNonce.length ∧
    (demoChacha13.xorNonce = true → 8 ≤ demoChacha13.fixedNonce.length) := by decide

-- … an honest record IS accepted (the left disjunct is reachable) …
example :
    (match decEtm (Demo.prims 5) demoEtm true ⟨4, 1⟩ 23 (protEtm (Demo.prims 5) demoEtm true ⟨4, 1⟩ 23 [7, 7, 7]).2 with
     | .ok (st, p) => decide (st.seq = 5 ∧ p = [7, 7, 7])
     | .error _ => false) = true := by decide

-- … the same record presented at another position, with a flipped bit, truncated, or under
-- another key is rejected by these (weak, but deterministic) demo primitives …
example : (match decEtm (Demo.prims 5) demoEtm true ⟨5, 1⟩ 23 (protEtm (Demo.prims 5) demoEtm true ⟨4, 1⟩ 23 [7, 7, 7]).2 with
     | .ok _ => false | .error e => decide (e = .bad_record_mac)) = true := by decide
example : (match decEtm (Demo.prims 6) demoEtm true ⟨4, 1⟩ 23 (protEtm (Demo.prims 5) demoEtm true ⟨4, 1⟩ 23 [7, 7, 7]).2 with
     | .ok _ => false | .error e => decide (e = .bad_record_mac)) = true := by decide
example : (match decAead (Demo.prims 5) demoGcm12 ⟨2, 0⟩ ⟨23, 3, 3, (protAead (Demo.prims 5) demoGcm12 ⟨2, 0⟩ 23 [1, 2, 3]).2⟩ with
     | .ok (st, p) => decide (st.seq = 3 ∧ p = [1, 2, 3]) | .error _ => false) = true := by decide
example : (match decAead (Demo.prims 5) demoGcm12 ⟨2, 0⟩ ⟨22, 3, 3, (protAead (Demo.prims 5) demoGcm12 ⟨2, 0⟩ 23 [1, 2, 3]).2⟩ with
     | .ok _ => false | .error e => decide (e = .bad_record_mac)) = true := by decide

-- … TLS 1.3: outer type other than 23 on a protected record is unexpected_message, a wrong outer
-- version illegal_parameter, an all-zero inner plaintext unexpected_message
example : (match recvRecord (Demo.prims 5) demoChacha13 ⟨⟨1, 0⟩, false, 0, 0, 16384, false⟩
      ⟨22, 3, 3, (send13 (Demo.prims 5) demoChacha13 none 16384 ⟨1, 0⟩ 23 [1]).2⟩ with
     | .err e => decide (e = .unexpected_message) | _ => false) = true := by decide
example : (match recvRecord (Demo.prims 5) demoChacha13 ⟨⟨1, 0⟩, false, 0, 0, 16384, false⟩
      ⟨23, 3, 1, (send13 (Demo.prims 5) demoChacha13 none 16384 ⟨1, 0⟩ 23 [1]).2⟩ with
     | .err e => decide (e = .illegal_parameter) | _ => false) = true := by decide
example : (match recvRecord (Demo.prims 5) demoChacha13 ⟨⟨1, 0⟩, false, 0, 0, 16384, false⟩
      ⟨23, 3, 3, (protAead (Demo.prims 5) demoChacha13 ⟨1, 0⟩ 23 [0, 0, 0]).2⟩ with
     | .err e => decide (e = .unexpected_message) | _ => false) = true := by decide

-- … early data: an undecryptable record inside the window is skipped, outside it is fatal
example : (match recvRecord (Demo.prims 5) demoChacha13 ⟨⟨0, 0⟩, true, 100, 10, 16384, false⟩ ⟨23, 3, 3, [1, 2, 3, 4, 5]⟩ with
     | .skip rv => decide (rv.processed = 15 ∧ rv.st.seq = 0) | _ => false) = true := by decide
example : (match recvRecord (Demo.prims 5) demoChacha13 ⟨⟨0, 0⟩, false, 100, 10, 16384, false⟩ ⟨23, 3, 3, [1, 2, 3, 4, 5]⟩ with
     | .err e => decide (e = .bad_record_mac) | _ => false) = true := by decide

-- … an unprotected close_notify at sequence number 0: passes during the handshake, fatal afterwards
example : (match recvRecord (Demo.prims 5) demoChacha13 ⟨⟨0, 0⟩, false, 0, 0, 16384, true⟩ ⟨21, 3, 3, [1, 0]⟩ with
     | .ok _ t d => decide (t = 21 ∧ d = [1, 0]) | _ => false) = true := by decide
example : (match recvRecord (Demo.prims 5) demoChacha13 ⟨⟨0, 0⟩, false, 0, 0, 16384, false⟩ ⟨21, 3, 3, [1, 0]⟩ with
     | .err e => decide (e = .unexpected_message) | _ => false) = true := by decide

end Tls.Rec
