import TlsProofs.Interop
/-
  C07 — tlslite-ng interoperates with an independent TLS implementation (OpenSSL).

  PARTIAL, and deliberately so.  No model of OpenSSL exists, so nothing below is a statement
  about OpenSSL (or about tlslite-ng's handshake code): OpenSSL's behaviour is OBSERVED by the
  harness (harness/props/c07.py: live tlslite <-> OpenSSL pairs over in-memory BIOs, both role
  assignments), never proved.  What is proved here is that the *expectation* the harness diffs
  the live pairs against — `Tls.Interop.expectedOutcome` over two capability records and the
  server's key type — is exactly the property's side condition:

    * it predicts success iff the two configurations share a version and, for the highest
      shared one, a suite that is defined for that version, is authenticated by the server key,
      and has a group and a signature scheme listed by both  (`compatible_iff_expected_success`);
    * everything it predicts lies in BOTH capability records  (`expected_params_in_both`), so a
      live pair that reports a parameter outside the expectation has left one configuration;
    * it predicts failure only for configurations that share no common parameters
      (`failure_only_if_disjoint`, with the reason-specific forms).

  The full property ("every compatible tlslite/OpenSSL pair completes, agrees, and moves data
  intact") is NOT a theorem: it is the direct oracle of the harness, run over all combinations.
-/
namespace Tls.Interop

/-- The configurations share common parameters: a highest common version `v`, and for it a suite
    both list that is defined for `v`, can be authenticated with the server key `k`, and for which
    both list a usable group and a fitting signature scheme. -/
def Compatible (c s : Caps) (k : KeyType) : Prop :=
  ∃ v, v ∈ c.versions ∧ v ∈ s.versions ∧ (∀ w, w ∈ c.versions → w ∈ s.versions → w ≤ v) ∧
    ∃ id, SuiteAvail v c s k id

/-- expectedOutcome = success  ↔  the capability records share a version and, for the highest
    shared one, a suite / group / signature scheme usable with the server's credentials. -/
theorem compatible_iff_expected_success (c s : Caps) (k : KeyType) :
    (∃ v ps, expectedOutcome c s k = .success v ps) ↔ Compatible c s k := by
  unfold expectedOutcome Compatible
  cases hv : negotiatedVersion c s with
  | none =>
    have hnone := negotiatedVersion_none.mp hv
    simp only
    constructor
    · intro ⟨v, ps, h⟩; cases h
    · intro ⟨v, hc, hs, _⟩; exact absurd hs (hnone v hc)
  | some v =>
    have ⟨hc, hs, hmax⟩ := negotiatedVersion_some.mp hv
    simp only
    constructor
    · intro ⟨v', ps, h⟩
      by_cases ha : (admissibleSuites v c s).isEmpty = true
      · simp [ha] at h
      · simp only [ha] at h
        by_cases hu : (usableSuites v c s k).isEmpty = true
        · simp [hu] at h
        · have hu' : (usableSuites v c s k).isEmpty = false := by
            cases hh : (usableSuites v c s k).isEmpty <;> simp_all
          have ⟨id, hid⟩ := isEmpty_false_iff_exists_mem.mp hu'
          exact ⟨v, hc, hs, hmax, id, mem_usableSuites.mp hid⟩
    · intro ⟨v', hc', hs', hmax', id, hid⟩
      have hvv : v' = v := Nat.le_antisymm (hmax v' hc' hs') (hmax' v hc hs)
      subst hvv
      have hmem : id ∈ usableSuites v' c s k := mem_usableSuites.mpr hid
      have hu : (usableSuites v' c s k).isEmpty = false := isEmpty_false_iff_exists_mem.mpr ⟨id, hmem⟩
      have ha : (admissibleSuites v' c s).isEmpty = false :=
        isEmpty_false_iff_exists_mem.mpr ⟨id, usable_sub_admissible hmem⟩
      refine ⟨v', (usableSuites v' c s k).map fun id => (id, groupsOf c s id), ?_⟩
      simp [ha, hu]

example : ∃ v ps, expectedOutcome ⟨[0x0303, 0x0304], [0xC02F, 0x1301], [29, 23], [0x0804, 0x0401], []⟩
    ⟨[0x0301, 0x0302, 0x0303], [0xC02F, 0x002F], [23], [0x0401], []⟩ .rsa = .success v ps :=
  ⟨0x0303, [(0xC02F, [23])], by decide⟩

/-- Whatever is expected lies in both capability records: the version, every admissible suite,
    every admissible group; and the suite set is never empty. -/
theorem expected_params_in_both (c s : Caps) (k : KeyType) (v : Nat) (ps : List (Nat × List Nat))
    (h : expectedOutcome c s k = .success v ps) :
    v ∈ c.versions ∧ v ∈ s.versions ∧ ps ≠ [] ∧
    ∀ p, p ∈ ps → p.1 ∈ c.suites ∧ p.1 ∈ s.suites ∧ SuiteAvail v c s k p.1 ∧
      ∀ g, g ∈ p.2 → g ∈ c.groups ∧ (g ∈ s.groups ∨ g ∈ s.dhLegacy) := by
  unfold expectedOutcome at h
  cases hv : negotiatedVersion c s with
  | none => rw [hv] at h; cases h
  | some v0 =>
    rw [hv] at h
    simp only at h
    have ⟨hc, hs, _⟩ := negotiatedVersion_some.mp hv
    by_cases ha : (admissibleSuites v0 c s).isEmpty = true
    · simp [ha] at h
    · simp only [ha] at h
      by_cases hu : (usableSuites v0 c s k).isEmpty = true
      · simp [hu] at h
      · simp only [hu, Bool.false_eq_true, if_false, Outcome.success.injEq] at h
        obtain ⟨hv0, hps⟩ := h
        subst hv0
        subst hps
        refine ⟨hc, hs, ?_, ?_⟩
        · intro hnil
          have : (usableSuites v0 c s k) = [] := by
            cases hl : usableSuites v0 c s k with
            | nil => rfl
            | cons x xs => rw [hl] at hnil; simp at hnil
          rw [this] at hu
          exact hu rfl
        · intro p hp
          obtain ⟨id, hid, rfl⟩ := List.mem_map.mp hp
          have hav := mem_usableSuites.mp hid
          exact ⟨hav.1, hav.2.1, hav, fun g hg => mem_groupsOf hg⟩

example : expectedOutcome ⟨[0x0304], [0x1301, 0x1302], [29, 256], [0x0403], []⟩
    ⟨[0x0303, 0x0304], [0x1302, 0x1303], [256, 29, 23], [0x0403, 0x0503], []⟩ (.ecdsa 23) =
    .success 0x0304 [(0x1302, [29, 256])] := by decide

/-- The expected version is the highest one both configurations list. -/
theorem expected_version_highest (c s : Caps) (k : KeyType) (v : Nat) (ps : List (Nat × List Nat))
    (h : expectedOutcome c s k = .success v ps) :
    ∀ w, w ∈ c.versions → w ∈ s.versions → w ≤ v := by
  unfold expectedOutcome at h
  cases hv : negotiatedVersion c s with
  | none => rw [hv] at h; cases h
  | some v0 =>
    rw [hv] at h
    simp only at h
    have ⟨_, _, hmax⟩ := negotiatedVersion_some.mp hv
    by_cases ha : (admissibleSuites v0 c s).isEmpty = true
    · simp [ha] at h
    · simp only [ha] at h
      by_cases hu : (usableSuites v0 c s k).isEmpty = true
      · simp [hu] at h
      · simp only [hu, Bool.false_eq_true, if_false, Outcome.success.injEq] at h
        rw [← h.1]; exact hmax

example : expectedOutcome ⟨[0x0301, 0x0302, 0x0303], [0x002F], [], [], []⟩
    ⟨[0x0301, 0x0302], [0x002F], [], [], []⟩ .rsa = .success 0x0302 [(0x002F, [])] := by decide

/-- Failures are expected only when the configurations share no common parameters
    (contrapositive form of the property's last sentence). -/
theorem failure_only_if_disjoint (c s : Caps) (k : KeyType) (r : FailReason)
    (h : expectedOutcome c s k = .failure r) : ¬ Compatible c s k := by
  intro hcomp
  have ⟨v, ps, hs⟩ := (compatible_iff_expected_success c s k).mpr hcomp
  rw [hs] at h
  cases h

/-- reason `noCommonVersion`: no version is listed by both -/
theorem failure_noCommonVersion (c s : Caps) (k : KeyType)
    (h : expectedOutcome c s k = .failure .noCommonVersion) :
    ∀ v, v ∈ c.versions → v ∉ s.versions := by
  unfold expectedOutcome at h
  cases hv : negotiatedVersion c s with
  | none => exact negotiatedVersion_none.mp hv
  | some v0 =>
    rw [hv] at h
    simp only at h
    by_cases ha : (admissibleSuites v0 c s).isEmpty = true
    · simp [ha] at h
    · simp only [ha] at h
      by_cases hu : (usableSuites v0 c s k).isEmpty = true
      · simp [hu] at h
      · simp [hu] at h

example : expectedOutcome ⟨[0x0301], [0x002F], [], [], []⟩ ⟨[0x0303, 0x0304], [0x002F], [], [], []⟩ .rsa =
    .failure .noCommonVersion := by decide

/-- reason `noCommonSuite`: a highest common version exists, but no suite listed by both is
    defined for it -/
theorem failure_noCommonSuite (c s : Caps) (k : KeyType)
    (h : expectedOutcome c s k = .failure .noCommonSuite) :
    ∃ v, negotiatedVersion c s = some v ∧
      ∀ id si, id ∈ c.suites → id ∈ s.suites → suiteInfo id = some si → versionOk si v = false := by
  unfold expectedOutcome at h
  cases hv : negotiatedVersion c s with
  | none => rw [hv] at h; cases h
  | some v0 =>
    rw [hv] at h
    simp only at h
    refine ⟨v0, rfl, ?_⟩
    by_cases ha : (admissibleSuites v0 c s).isEmpty = true
    · intro id si hc hs hsi
      cases hok : versionOk si v0 with
      | false => rfl
      | true =>
        have hmem : id ∈ admissibleSuites v0 c s := mem_admissibleSuites.mpr ⟨hc, hs, si, hsi, hok⟩
        have : (admissibleSuites v0 c s).isEmpty = false := isEmpty_false_iff_exists_mem.mpr ⟨id, hmem⟩
        rw [ha] at this; cases this
    · simp only [ha] at h
      by_cases hu : (usableSuites v0 c s k).isEmpty = true
      · simp [hu] at h
      · simp [hu] at h

example : expectedOutcome ⟨[0x0303], [0xC02F], [23], [0x0401], []⟩ ⟨[0x0303], [0x1301, 0x002F], [23], [0x0401], []⟩ .rsa =
    .failure .noCommonSuite := by decide

/-- reason `noUsableSuite`: common suites defined for the version exist, but none of them has
    key, group and signature scheme available in both configurations -/
theorem failure_noUsableSuite (c s : Caps) (k : KeyType)
    (h : expectedOutcome c s k = .failure .noUsableSuite) :
    ∃ v, negotiatedVersion c s = some v ∧ (∃ id, id ∈ admissibleSuites v c s) ∧
      ∀ id, ¬ SuiteAvail v c s k id := by
  unfold expectedOutcome at h
  cases hv : negotiatedVersion c s with
  | none => rw [hv] at h; cases h
  | some v0 =>
    rw [hv] at h
    simp only at h
    refine ⟨v0, rfl, ?_⟩
    by_cases ha : (admissibleSuites v0 c s).isEmpty = true
    · simp [ha] at h
    · have ha' : (admissibleSuites v0 c s).isEmpty = false := by
        cases hh : (admissibleSuites v0 c s).isEmpty <;> simp_all
      refine ⟨isEmpty_false_iff_exists_mem.mp ha', ?_⟩
      simp only [ha] at h
      by_cases hu : (usableSuites v0 c s k).isEmpty = true
      · intro id hav
        have hmem : id ∈ usableSuites v0 c s k := mem_usableSuites.mpr hav
        have : (usableSuites v0 c s k).isEmpty = false := isEmpty_false_iff_exists_mem.mpr ⟨id, hmem⟩
        rw [hu] at this; cases this
      · simp [hu] at h

-- an ECDSA P-384 key cannot sign for a TLS 1.3 client that lists only ecdsa_secp256r1_sha256;
-- an ECDHE suite without a common curve; an RSA-PSS key in TLS 1.0
example : expectedOutcome ⟨[0x0304], [0x1301], [29], [0x0403], []⟩ ⟨[0x0304], [0x1301], [29], [0x0403, 0x0503], []⟩
    (.ecdsa 24) = .failure .noUsableSuite := by decide
example : expectedOutcome ⟨[0x0303], [0xC02F], [29], [0x0401], []⟩ ⟨[0x0303], [0xC02F], [23], [0x0401], []⟩ .rsa =
    .failure .noUsableSuite := by decide
example : expectedOutcome ⟨[0x0301], [0xC013], [23], [], []⟩ ⟨[0x0301], [0xC013], [23], [], []⟩ .rsaPss =
    .failure .noUsableSuite := by decide

/-- A client ECDSA certificate is expected to be usable in TLS <= 1.2 only if its curve is listed
    by both sides; nothing else is constrained. -/
theorem clientCert_expected_iff (v : Nat) (c s : Caps) (k : KeyType) :
    clientCertOk v c s k = true ↔
      ∀ g, k = .ecdsa g → v ≤ tls12 → g ∈ c.groups ∧ g ∈ s.groups := by
  unfold clientCertOk
  cases k with
  | ecdsa g =>
    by_cases h : v ≤ tls12
    · simp only [h, if_true, Bool.and_eq_true, List.contains_iff_mem, KeyType.ecdsa.injEq]
      constructor
      · intro hh g' e _; subst e; exact hh
      · intro hh; exact hh g rfl trivial
    · simp only [h, if_false, true_iff, KeyType.ecdsa.injEq]
      intro g' _ h'; exact h'.elim
  | rsa => simp
  | rsaPss => simp
  | ed25519 => simp
  | ed448 => simp
  | dsa => simp
  | none => simp

example : clientCertOk 0x0303 ⟨[], [], [257], [], []⟩ ⟨[], [], [23, 257], [], []⟩ (.ecdsa 23) = false := by decide
example : clientCertOk 0x0304 ⟨[], [], [29], [], []⟩ ⟨[], [], [29], [], []⟩ (.ecdsa 23) = true := by decide

/-- A client CertificateVerify is expected to be possible in TLS 1.2 / 1.3 iff some signature scheme
    listed by both sides fits the client key (for ECDSA in TLS 1.2: any hash, smaller than, equal to
    or larger than the curve; in TLS 1.3: the hash bound to the curve). -/
theorem clientSig_expected_iff (v : Nat) (c s : Caps) (k : KeyType) (hv : v = tls12 ∨ v = tls13) :
    clientSigOk v c s k = true ↔
      ∃ x, x ∈ c.sigs ∧ x ∈ s.sigs ∧ (if v = tls13 then sigFits13 k x else sigFits12 k x) = true := by
  unfold clientSigOk
  cases hv with
  | inl h =>
    subst h
    have h1 : (tls12 == tls13) = false := by decide
    have h2 : (tls12 == tls12) = true := by decide
    have h3 : ¬ (tls12 = tls13) := by decide
    simp only [h1, h2, h3, if_true, if_false, Bool.false_eq_true, any_common_iff]
  | inr h =>
    subst h
    have h1 : (tls13 == tls13) = true := by decide
    simp only [h1, if_true, any_common_iff]

-- a P-256 key signs with SHA-384 / SHA-512 in TLS 1.2 (hash larger than the curve), not in TLS 1.3
example : clientSigOk 0x0303 ⟨[], [], [], [0x0403, 0x0503, 0x0603], []⟩ ⟨[], [], [], [0x0603], []⟩ (.ecdsa 23) = true := by decide
example : clientSigOk 0x0304 ⟨[], [], [], [0x0403, 0x0503, 0x0603], []⟩ ⟨[], [], [], [0x0603], []⟩ (.ecdsa 23) = false := by decide
example : clientSigOk 0x0303 ⟨[], [], [], [0x0401, 0x0804], []⟩ ⟨[], [], [], [0x0809], []⟩ .rsa = false := by decide

/-- ALPN: a protocol is expected-selectable iff both sides list it. -/
theorem expectedAlpn_in_both (cp sp : List String) (p : String) :
    p ∈ expectedAlpn cp sp ↔ p ∈ cp ∧ p ∈ sp := by
  simp [expectedAlpn, List.mem_filter]

example : expectedAlpn ["h2", "http/1.1"] ["http/1.1", "spdy/3"] = ["http/1.1"] := by decide

/-- Resumption is expected only with a mechanism both sides support, for a second connection
    that is itself expected to succeed in the original session's version. -/
theorem resume_expected_only_if_shared (m : Mech) (cm sm : List Mech) (v0 s0 : Nat) (out : Outcome)
    (h : resumeExpected m cm sm v0 s0 out = true) :
    m ∈ cm ∧ m ∈ sm ∧ mechVersionOk m v0 = true ∧ ∃ ps, out = .success v0 ps := by
  unfold resumeExpected at h
  cases out with
  | failure r => simp at h
  | success v ps =>
    simp only [Bool.and_eq_true, List.contains_iff_mem, beq_iff_eq] at h
    obtain ⟨⟨⟨hcm, hsm⟩, hmv⟩, hv, _⟩ := h
    exact ⟨hcm, hsm, hmv, ps, by rw [hv]⟩

example : resumeExpected .psk [.psk, .ticket] [.psk] 0x0304 0x1301
    (.success 0x0304 [(0x1303, [29])]) = true := by decide
example : resumeExpected .psk [.psk] [.psk] 0x0304 0x1302
    (.success 0x0304 [(0x1301, [29])]) = false := by decide

end Tls.Interop
