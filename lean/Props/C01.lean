import TlsProofs.RecordSend
import TlsProofs.RecordConn
import TlsProofs.RecordDemo
import TlsModel.RecordTie
import TlsProofs.RecordCbc
/-
  C01 — application data is delivered exactly, in order, for every suite and version; no record
  carries more plaintext than the limit in force.

  Model: `Tls.Rec` (TlsModel/Record.lean) mirrors `RecordLayer.sendRecord/recvRecord` with all five
  protect paths, `TLSRecordLayer._sendMsg` fragmentation, `readAsync(max, min)` and the
  record_size_limit bookkeeping.  Cryptographic primitives are parameters (`Prims`); the hypotheses
  `MacLaw` / `StreamLaw` / `BlockLaw` / `AeadLaw` are the functional laws real primitives satisfy
  (length preservation, `dec ∘ enc = id` for a decryptor in the same state, `open (seal …) = some`).
  They are instantiated by `Demo.prims` below (non-vacuity).
-/
namespace Tls.Rec
open Tls.CT

/-! ## fragmentation -/

/-- the fragments `_sendMsg` cuts an application-data write into, concatenated in order, are the
    data: nothing added, dropped, duplicated or reordered (with and without the 1/n-1 split) -/
theorem fragments_concat (split : Bool) (rs : Nat) (data : Bytes) (l : List Bytes)
    (h : fragments split rs data = some l) : l.flatten = data := by
  unfold fragments at h
  cases split
  · simp only [Bool.false_eq_true, if_false] at h
    exact chunks_flatten rs _ _ _ h
  · simp only [if_true] at h
    split at h
    · cases h; rename_i h0
      simp at h0
      simp
      have : data.length ≤ 1 := by omega
      exact List.take_of_length_le this
    · cases hc : chunks rs (data.drop 1).length (data.drop 1) with
      | none => rw [hc] at h; simp at h
      | some l' =>
        rw [hc] at h; simp only [Option.map_some, Option.some.injEq] at h; subst h
        rw [List.flatten_cons, chunks_flatten rs _ _ _ hc]
        exact List.take_append_drop 1 data

/-- every fragment carries at most `min(user recordSize, negotiated send limit)` bytes — including
    the empty write (one empty record), and the 1-byte first fragment of the 1/n-1 split -/
theorem fragments_le_limit (split : Bool) (userLimit sendLimit : Nat) (data : Bytes) (l : List Bytes)
    (hpos : 0 < recordSize userLimit sendLimit)
    (h : fragments split (recordSize userLimit sendLimit) data = some l) :
    ∀ f ∈ l, f.length ≤ min userLimit sendLimit := by
  unfold fragments at h
  generalize hrs : recordSize userLimit sendLimit = rs at h hpos
  have hrs' : rs = min userLimit sendLimit := by rw [← hrs]; rfl
  rw [← hrs']
  cases split
  · simp only [Bool.false_eq_true, if_false] at h
    exact chunks_le rs _ _ _ h
  · simp only [if_true] at h
    split at h
    · cases h
      intro f hf; simp at hf; subst hf
      simp; omega
    · cases hc : chunks rs (data.drop 1).length (data.drop 1) with
      | none => rw [hc] at h; simp at h
      | some l' =>
        rw [hc] at h; simp only [Option.map_some, Option.some.injEq] at h; subst h
        intro f hf
        simp at hf
        rcases hf with hf | hf
        · subst hf; simp; omega
        · exact chunks_le rs _ _ _ hc f hf

/-- the fragmentation loop terminates for every positive record size (no spin); with
    `recordSize = 0` the Python loop never ends and the model returns `none` -/
theorem fragments_terminates (split : Bool) (rs : Nat) (hrs : 0 < rs) (data : Bytes) :
    ∃ l, fragments split rs data = some l ∧ l ≠ [] := by
  unfold fragments
  cases split
  · simp only [Bool.false_eq_true, if_false]
    obtain ⟨l, hl⟩ := chunks_some rs hrs data.length data (by omega)
    exact ⟨l, hl, chunks_ne_nil rs _ _ _ hl⟩
  · simp only [if_true]
    split
    · exact ⟨_, rfl, by simp⟩
    · obtain ⟨l, hl⟩ := chunks_some rs hrs (data.drop 1).length (data.drop 1) (by omega)
      exact ⟨data.take 1 :: l, by rw [hl]; rfl, by simp⟩

/-- `recordSize` is a property that `_sendMsg` re-reads at every iteration, and an application may
    assign it while an asynchronous write is suspended on a would-block.  Whatever sequence of
    values `rs` is in force (`rs i` when record `i` of the write is cut): the fragments still
    concatenate to the data — nothing lost or duplicated — record `i` is at most `rs i` long (the
    limit in force when it was cut), the loop terminates when every value is positive, and with a
    constant size it is `fragments`.  (Each iteration reads the size in its condition and its two
    slices with nothing yielding in between; cutting the remainder after the suspended send would
    break the first claim.) -/
theorem fragments_varying_size (split : Bool) (rs : Nat → Nat) (data : Bytes) :
    (∀ l, fragmentsVar split rs data = some l →
        l.flatten = data ∧
        ∀ j (hj : j < l.length), l[j].length ≤ (if split then (if j = 0 then 1 else rs j) else rs j)) ∧
    ((∀ i, 0 < rs i) → ∃ l, fragmentsVar split rs data = some l) ∧
    (∀ r, fragmentsVar split (fun _ => r) data = fragments split r data) := by
  refine ⟨?_, ?_, ?_⟩
  · intro l h
    unfold fragmentsVar at h
    cases split
    · simp only [Bool.false_eq_true, if_false] at h ⊢
      refine ⟨chunksVar_flatten rs _ _ _ _ h, fun j hj => ?_⟩
      have := chunksVar_le rs _ 0 _ _ h j hj
      simpa using this
    · simp only [if_true] at h ⊢
      split at h
      · cases h; rename_i h0
        simp at h0
        refine ⟨?_, fun j hj => ?_⟩
        · simp
          exact List.take_of_length_le (by omega)
        · have : j = 0 := by simpa using hj
          subst this; simp; omega
      · cases hc : chunksVar rs 1 (data.drop 1).length (data.drop 1) with
        | none => rw [hc] at h; simp at h
        | some l' =>
          rw [hc] at h; simp only [Option.map_some, Option.some.injEq] at h; subst h
          refine ⟨?_, fun j hj => ?_⟩
          · rw [List.flatten_cons, chunksVar_flatten rs _ _ _ _ hc]
            exact List.take_append_drop 1 data
          · cases j with
            | zero => simp; omega
            | succ k =>
              have := chunksVar_le rs _ 1 _ _ hc k (by simpa using hj)
              have e : 1 + k = k + 1 := by omega
              rw [e] at this
              simpa using this
  · intro hrs
    unfold fragmentsVar
    cases split
    · simp only [Bool.false_eq_true, if_false]
      have := hrs 0
      exact chunksVar_some rs hrs data.length 0 data (by omega)
    · simp only [if_true]
      split
      · exact ⟨_, rfl⟩
      · have := hrs 1
        obtain ⟨l, hl⟩ := chunksVar_some rs hrs (data.drop 1).length 1 (data.drop 1) (by omega)
        exact ⟨data.take 1 :: l, by rw [hl]; rfl⟩
  · intro r
    unfold fragmentsVar fragments
    simp only [chunksVar_const]

/-! ## TLS 1.3 inner plaintext and the padding callback -/

/-- Under the callback contract `padding_cb(len, type, max) ≤ max` (`max = send limit + 1 - len`,
    never negative for a fragment within the limit) — the code trusts the callback, hence the
    explicit hypothesis — a TLSInnerPlaintext (fragment ‖ type ‖ zeros) built from a fragment within
    the send limit is at most `send limit + 1` bytes: `frag + 1 + pad ≤ limit + 1`, the size RFC 8449
    allows for a peer that advertised `record_size_limit = send limit + 1`; a callback returning
    `max` reaches the bound exactly. -/
theorem tls13_inner_bound (padCb : Option PadCb) (sendLimit : Nat) (t : UInt8) (data : Bytes)
    (hcb : ∀ cb, padCb = some cb → ∀ len ty (m : Int), cb len ty m ≤ m.toNat)
    (hlen : data.length ≤ sendLimit) :
    (innerPlain padCb sendLimit t data).length ≤ sendLimit + 1 := by
  rw [innerPlain_length]
  unfold padOf
  cases padCb with
  | none => simp; omega
  | some cb =>
    simp only
    have := hcb cb rfl (data.length + 1) t ((sendLimit : Int) + 1 - ((data.length + 1 : Nat) : Int))
    omega

/-! ## wire length -/

/-- the length field of every record `sendRecord` emits is the function `wireLen` of the plaintext
    length (this is what the harness compares with the record headers on the wire) -/
theorem wireLen_correct {S} (P : Prims S) (c : Cfg)
    (hm : c.hasMac = true → MacLaw P) (hs : c.cipher = .stream → StreamLaw P)
    (hb : c.cipher = .block → BlockLaw P) (ha : c.cipher = .aead → AeadLaw P)
    (padCb : Option PadCb) (sendLimit : Nat) (st st' : St S) (t : UInt8) (data : Bytes) (r : Rec)
    (h : sendRecord P c padCb sendLimit st t data = some (st', r)) :
    wireLen P c padCb sendLimit t data.length = some r.body.length :=
  wireLen_sendRecord P c hm hs hb ha padCb sendLimit st st' t data r h

/-! ## unprotect ∘ protect = id, path by path -/

/-- MAC-then-encrypt with a stream cipher (`useEnc = true`) or no cipher (`false`), with or
    without MAC (before the first ChangeCipherSpec there is neither) -/
theorem unprotect_protect_mteStream {S} (P : Prims S) (c : Cfg) (hm : c.hasMac = true → MacLaw P)
    (useEnc : Bool) (hs : useEnc = true → StreamLaw P) (st : St S) (t : UInt8) (data : Bytes) :
    decStream P c useEnc st t (protMteStream P c useEnc st t data).2 =
      .ok ((protMteStream P c useEnc st t data).1, data) :=
  rt_mteStream P c hm useEnc hs st t data

/-- MAC-then-encrypt CBC, SSLv3 … TLS 1.2, including the TLS ≥ 1.1 construction that prepends
    `fixedIVBlock` and lets the receiver discard the first decrypted block -/
theorem unprotect_protect_mteCbc {S} (P : Prims S) (hm : MacLaw P) (hb : BlockLaw P) (c : Cfg)
    (hmac : c.hasMac = true) (hiv : c.verGe 3 2 = true → c.fixedIV.length = P.bs)
    (st : St S) (t : UInt8) (data : Bytes) (hlen : data.length < 2 ^ 29) :
    decCbc P c st t (protMteCbc P c st t data).2 = .ok ((protMteCbc P c st t data).1, data) :=
  rt_mteCbc P hm hb c hmac hiv st t data hlen

/-- encrypt-then-MAC CBC (RFC 7366) -/
theorem unprotect_protect_etm {S} (P : Prims S) (hm : MacLaw P) (hb : BlockLaw P) (c : Cfg)
    (hiv : c.verGe 3 2 = true → c.fixedIV.length = P.bs) (st : St S) (t : UInt8) (data : Bytes) :
    decEtm P c true st t (protEtm P c true st t data).2 = .ok ((protEtm P c true st t data).1, data) :=
  rt_etm P hm hb c hiv st t data

/-- AEAD in TLS 1.2: explicit nonce (AES-GCM/CCM), XOR nonce (ChaCha20-Poly1305), draft nonce -/
theorem unprotect_protect_aead12 {S} (P : Prims S) (ha : AeadLaw P) (c : Cfg) (h13 : c.is13 = false)
    (hname : c.nameHasAes = true → c.nameIsChacha = false) (st : St S) (t : UInt8) (data : Bytes)
    (hv : Nat × Nat) :
    decAead P c st ⟨t, hv.1, hv.2, (protAead P c st t data).2⟩ = .ok ((protAead P c st t data).1, data) :=
  rt_aead12 P ha c h13 hname st t data hv

/-- TLS 1.3: inner plaintext (fragment ‖ type ‖ zero padding) sealed under header type 23 /
    version 3.3, then opened and de-padded -/
theorem unprotect_protect_tls13 {S} (P : Prims S) (ha : AeadLaw P) (c : Cfg) (h13 : c.is13 = true)
    (padCb : Option PadCb) (sendLimit : Nat) (st : St S) (t : UInt8) (ht : t ≠ 0) (data : Bytes) :
    decAead P c st ⟨23, c.recVer.1, c.recVer.2, (protAead P c st 23 (innerPlain padCb sendLimit t data)).2⟩ =
        .ok ((protAead P c st 23 (innerPlain padCb sendLimit t data)).1, innerPlain padCb sendLimit t data) ∧
    dePad (innerPlain padCb sendLimit t data) = some (data, t) :=
  ⟨rt_aead13 P ha c h13 st _, by rw [innerPlain_eq]; exact dePad_inner data t _ ht⟩

/-- Through the real dispatch of `sendRecord` and `recvRecord` (all paths, all versions): a
    receiver whose read state equals the sender's write state recovers exactly (type, plaintext)
    and ends in the sender's new state — for every configuration the library can be in (`Cfg.WF`),
    outside the early-data window, when the limits in force admit the record. -/
theorem unprotect_protect {S} (P : Prims S) (c : Cfg) (hc : c.WF P)
    (hm : c.hasMac = true → MacLaw P) (hs : c.cipher = .stream → StreamLaw P)
    (hb : c.cipher = .block → BlockLaw P) (ha : c.cipher = .aead → AeadLaw P)
    (padCb : Option PadCb) (sendLimit : Nat) (st st' : St S) (t : UInt8) (data : Bytes) (r : Rec)
    (rv : Recv S) (hsync : rv.st = st) (hearly : rv.earlyOk = false) (ht : t ≠ 0)
    (hlim : data.length ≤ rv.recvLimit) (hrl : rv.recvLimit ≤ 2 ^ 14)
    (hinner : (sendPlain c padCb sendLimit t data).2.length ≤ rv.recvLimit + 1)
    (hov : P.mac.dlen + 2 * P.bs + P.tagLen + 8 ≤ 2048) (htag : P.tagLen ≤ 255)
    (hivl : c.fixedIV.length ≤ P.bs)
    (h : sendRecord P c padCb sendLimit st t data = some (st', r)) :
    recvRecord P c rv r = .ok { rv with st := st', earlyOk := false, processed := 0 } t data :=
  recvRecord_sendRecord P c hc hm hs hb ha padCb sendLimit st st' t data r rv hsync hearly ht hlim hrl
    hinner hov htag hivl h

/-- The block-cipher hypothesis `BlockLaw` is what CBC gives: for ANY block function `E` with a left
    inverse `D` on blocks, CBC chaining (state = chaining block, carried from record to record as
    the Python cipher objects do) satisfies `dec (enc x) = x` with both ends in the same state —
    proved from `D (E b) = b` by induction on the blocks.  Together with `unprotect_protect_mteCbc`
    / `_etm` this covers the SSLv3/TLS 1.0 implicit-IV chaining and the TLS ≥ 1.1 construction
    (random block prepended by the sender, first decrypted block discarded by the receiver). -/
theorem cbc_chaining_lawful (B : BlockPerm) (mac : CT.MacAlg) (hD : ∀ b, (B.D b).length = b.length) :
    BlockLaw (cbcPrims B mac) :=
  cbcPrims_blockLaw B mac hD

example : BlockLaw (cbcPrims demoPerm (Demo.prims 5).mac) :=
  cbc_chaining_lawful demoPerm _ (fun b => by simp [demoPerm])

/-! ## record_size_limit negotiation -/

/-- whatever both sides configure (validated settings: 64 ≤ v ≤ 2^14+1, or None), what one side
    will send never exceeds what the other side accepts, in every version; all limits ≤ 2^14 -/
theorem peer_limits_compatible (tls13 : Bool) (cset sset : Option Nat)
    (hc : ∀ v, cset = some v → 64 ≤ v ∧ v ≤ 2 ^ 14 + 1) (hs : ∀ v, sset = some v → 64 ≤ v ∧ v ≤ 2 ^ 14 + 1) :
    let r := negotiateLimits tls13 cset sset
    r.1 ≤ r.2.2.2 ∧ r.2.2.1 ≤ r.2.1 ∧ r.2.1 ≤ 2 ^ 14 ∧ r.2.2.2 ≤ 2 ^ 14 ∧ 0 < r.1 ∧ 0 < r.2.2.1 := by
  unfold negotiateLimits
  cases cset with
  | none => simp
  | some cv =>
    cases sset with
    | none => simp
    | some sv =>
      have h1 := hc cv rfl
      have h2 := hs sv rfl
      cases tls13 <;> simp only [Bool.false_eq_true, if_false, if_true] <;> omega

/-! ## the stream: arbitrary interleavings of write / read(max, min) on both endpoints -/

/-- the application never sets `recordSize` to 0 (the fragmentation loop would spin) -/
def Op.Valid : Op → Prop
  | .setSizeA n => 0 < n
  | .setSizeB n => 0 < n
  | _ => True

/-- invariant of an honest connection: per direction, receiver in sync with the sender as of the
    oldest in-flight record, channel = protections of the pending fragments (in order), and
    delivered ++ buffered ++ pending = written; nothing failed, nobody closed -/
def FifoInv {Kab Kba : Codec} (SyncAB : Kab.SS → Kab.RS → Prop) (SyncBA : Kba.SS → Kba.RS → Prop)
    (limAB limBA : Nat) (c : Conn Kab Kba) : Prop :=
  ∃ pendAB pendBA,
    DirInv Kab SyncAB limAB c.a.wr c.b.rd c.ab pendAB ∧
    DirInv Kba SyncBA limBA c.b.wr c.a.rd c.ba pendBA ∧
    c.deliveredB ++ c.b.buf ++ pendAB.flatten = c.writtenA ∧
    c.deliveredA ++ c.a.buf ++ pendBA.flatten = c.writtenB ∧
    c.failed = false ∧ c.a.closed = false ∧ c.b.closed = false ∧
    0 < c.a.recordSize ∧ c.a.recordSize ≤ limAB ∧ 0 < c.b.recordSize ∧ c.b.recordSize ≤ limBA ∧
    0 < c.a.sendLimit ∧ c.a.sendLimit ≤ limAB ∧ 0 < c.b.sendLimit ∧ c.b.sendLimit ≤ limBA

theorem fifo_step {Kab Kba : Codec} (SyncAB : Kab.SS → Kab.RS → Prop) (SyncBA : Kba.SS → Kba.RS → Prop)
    (limAB limBA : Nat) (hab : Kab.Lawful SyncAB limAB) (hba : Kba.Lawful SyncBA limBA)
    (c : Conn Kab Kba) (op : Op) (hop : op.Valid) (h : FifoInv SyncAB SyncBA limAB limBA c) :
    FifoInv SyncAB SyncBA limAB limBA (step c op) := by
  obtain ⟨pAB, pBA, dAB, dBA, eA, eB, hf, hca, hcb, ra0, ra1, rb0, rb1, la0, la1, lb0, lb1⟩ := h
  cases op with
  | writeA d =>
    obtain ⟨fr, hfr, _⟩ := fragments_terminates c.a.split c.a.recordSize ra0 d
    have hle : ∀ f ∈ fr, f.length ≤ limAB := by
      intro f hf'
      have := fragments_le_limit c.a.split c.a.recordSize c.a.recordSize d fr (by simp [recordSize]; exact ra0)
        (by simpa [recordSize] using hfr) f hf'
      simp at this; omega
    obtain ⟨w', rs, hp⟩ := protAll_total Kab SyncAB limAB hab fr c.a.wr hle
    have hw : epWrite Kab.prot c.a d = ({ c.a with wr := w' }, rs, .done) := by
      unfold epWrite; simp [hca, hfr, hp]
    refine ⟨pAB ++ fr, pBA, ?_, ?_, ?_, ?_, ?_, ?_, ?_, ?_, ?_, ?_, ?_, ?_, ?_, ?_, ?_⟩ <;> simp only [step, hw]
    · exact dAB.send fr hle w' rs hp
    · exact dBA
    · simp [← eA, fragments_concat _ _ _ _ hfr, List.append_assoc]
    · exact eB
    · simp [hf]
    · exact hca
    · exact hcb
    · exact ra0
    · exact ra1
    · exact rb0
    · exact rb1
    · exact la0
    · exact la1
    · exact lb0
    · exact lb1
  | writeB d =>
    obtain ⟨fr, hfr, _⟩ := fragments_terminates c.b.split c.b.recordSize rb0 d
    have hle : ∀ f ∈ fr, f.length ≤ limBA := by
      intro f hf'
      have := fragments_le_limit c.b.split c.b.recordSize c.b.recordSize d fr (by simp [recordSize]; exact rb0)
        (by simpa [recordSize] using hfr) f hf'
      simp at this; omega
    obtain ⟨w', rs, hp⟩ := protAll_total Kba SyncBA limBA hba fr c.b.wr hle
    have hw : epWrite Kba.prot c.b d = ({ c.b with wr := w' }, rs, .done) := by
      unfold epWrite; simp [hcb, hfr, hp]
    refine ⟨pAB, pBA ++ fr, ?_, ?_, ?_, ?_, ?_, ?_, ?_, ?_, ?_, ?_, ?_, ?_, ?_, ?_, ?_⟩ <;> simp only [step, hw]
    · exact dAB
    · exact dBA.send fr hle w' rs hp
    · exact eA
    · simp [← eB, fragments_concat _ _ _ _ hfr, List.append_assoc]
    · simp [hf]
    · exact hca
    · exact hcb
    · exact ra0
    · exact ra1
    · exact rb0
    · exact rb1
    · exact la0
    · exact la1
    · exact lb0
    · exact lb1
  | readA mx mn =>
    obtain ⟨cons, pend', hsplit, hdi, h3, h4, h5, h6, h7, h8, h9, h10⟩ :=
      readLoop_honest Kba SyncBA limBA hba Kab.prot mx mn c.b.wr c.ba pBA true c.a dBA hca
    obtain ⟨h9, h9l⟩ := h9
    refine ⟨pAB, pend', ?_, ?_, ?_, ?_, ?_, ?_, ?_, ?_, ?_, ?_, ?_, ?_, ?_, lb0, lb1⟩ <;> simp only [step]
    · rw [h6, h3]; simpa using dAB
    · exact hdi
    · exact eA
    · rw [← eB, hsplit]
      have : c.deliveredA ++ (epReadLoop Kab.prot Kba.unprot mx mn true c.a c.ba).2.2.2.bytes ++
          (epReadLoop Kab.prot Kba.unprot mx mn true c.a c.ba).1.buf ++ pend'.flatten =
          c.deliveredA ++ ((epReadLoop Kab.prot Kba.unprot mx mn true c.a c.ba).2.2.2.bytes ++
          (epReadLoop Kab.prot Kba.unprot mx mn true c.a c.ba).1.buf) ++ pend'.flatten := by
        simp [List.append_assoc]
      rw [this, h10]; simp [List.append_assoc]
    · simp [hf, h4]
    · exact h5
    · exact hcb
    · rw [h9]; exact ra0
    · rw [h9]; exact ra1
    · exact rb0
    · exact rb1
    · rw [h9l]; exact la0
    · rw [h9l]; exact la1
  | unreadA k =>
    refine ⟨pAB, pBA, dAB, dBA, eA, ?_, hf, hca, hcb, ra0, ra1, rb0, rb1, la0, la1, lb0, lb1⟩
    simp only [step]
    rw [← eB, ← List.append_assoc (c.deliveredA.take _), List.take_append_drop]
  | unreadB k =>
    refine ⟨pAB, pBA, dAB, dBA, ?_, eB, hf, hca, hcb, ra0, ra1, rb0, rb1, la0, la1, lb0, lb1⟩
    simp only [step]
    rw [← eA, ← List.append_assoc (c.deliveredB.take _), List.take_append_drop]
  | setSizeA n =>
    have hn : 0 < n := hop
    refine ⟨pAB, pBA, dAB, dBA, eA, eB, hf, hca, hcb, ?_, ?_, rb0, rb1, la0, la1, lb0, lb1⟩ <;>
      simp only [step, recordSize] <;> omega
  | setSizeB n =>
    have hn : 0 < n := hop
    refine ⟨pAB, pBA, dAB, dBA, eA, eB, hf, hca, hcb, ra0, ra1, ?_, ?_, la0, la1, lb0, lb1⟩ <;>
      simp only [step, recordSize] <;> omega
  | readB mx mn =>
    obtain ⟨cons, pend', hsplit, hdi, h3, h4, h5, h6, h7, h8, h9, h10⟩ :=
      readLoop_honest Kab SyncAB limAB hab Kba.prot mx mn c.a.wr c.ab pAB true c.b dAB hcb
    obtain ⟨h9, h9l⟩ := h9
    refine ⟨pend', pBA, ?_, ?_, ?_, ?_, ?_, ?_, ?_, ?_, ?_, ?_, ?_, la0, la1, ?_, ?_⟩ <;> simp only [step]
    · exact hdi
    · rw [h6, h3]; simpa using dBA
    · rw [← eA, hsplit]
      have : c.deliveredB ++ (epReadLoop Kba.prot Kab.unprot mx mn true c.b c.ab).2.2.2.bytes ++
          (epReadLoop Kba.prot Kab.unprot mx mn true c.b c.ab).1.buf ++ pend'.flatten =
          c.deliveredB ++ ((epReadLoop Kba.prot Kab.unprot mx mn true c.b c.ab).2.2.2.bytes ++
          (epReadLoop Kba.prot Kab.unprot mx mn true c.b c.ab).1.buf) ++ pend'.flatten := by
        simp [List.append_assoc]
      rw [this, h10]; simp [List.append_assoc]
    · exact eB
    · simp [hf, h4]
    · exact hca
    · exact h5
    · exact ra0
    · exact ra1
    · rw [h9]; exact rb0
    · rw [h9]; exact rb1
    · rw [h9l]; exact lb0
    · rw [h9l]; exact lb1

/-- `stream_fifo`: for EVERY interleaving of `write`, `read(max, min)`, `unread` (push back the last k
    bytes handed out) and `recordSize = n` (n > 0) operations on the two endpoints, over any lawful record protection: per direction, what was delivered to the
    application, followed by what sits in the read buffer, followed by the plaintext of the records
    in flight (in order), is exactly what was written — nothing duplicated, reordered, invented or
    lost; no operation fails (no decrypt failure, no alert), nobody closes. -/
theorem stream_fifo {Kab Kba : Codec} (SyncAB : Kab.SS → Kab.RS → Prop) (SyncBA : Kba.SS → Kba.RS → Prop)
    (limAB limBA : Nat) (hab : Kab.Lawful SyncAB limAB) (hba : Kba.Lawful SyncBA limBA)
    (c0 : Conn Kab Kba) (h0 : FifoInv SyncAB SyncBA limAB limBA c0) (ops : List Op) (hops : ∀ op ∈ ops, op.Valid) :
    FifoInv SyncAB SyncBA limAB limBA (run c0 ops) := by
  unfold run
  induction ops generalizing c0 with
  | nil => exact h0
  | cons op ops ih =>
    exact ih (step c0 op) (fifo_step SyncAB SyncBA limAB limBA hab hba c0 op (hops op (by simp)) h0)
      (fun o ho => hops o (by simp [ho]))

/-- a freshly established connection (states in sync, channels and buffers empty) satisfies the invariant -/
theorem fifo_init {Kab Kba : Codec} (SyncAB : Kab.SS → Kab.RS → Prop) (SyncBA : Kba.SS → Kba.RS → Prop)
    (limAB limBA : Nat) (a : Endpoint Kab.SS Kba.RS) (b : Endpoint Kba.SS Kab.RS)
    (hab : SyncAB a.wr b.rd) (hba : SyncBA b.wr a.rd) (ha : a.buf = [] ∧ a.closed = false)
    (hb : b.buf = [] ∧ b.closed = false)
    (hra : 0 < a.recordSize ∧ a.recordSize ≤ limAB) (hrb : 0 < b.recordSize ∧ b.recordSize ≤ limBA)
    (hla : 0 < a.sendLimit ∧ a.sendLimit ≤ limAB) (hlb : 0 < b.sendLimit ∧ b.sendLimit ≤ limBA) :
    FifoInv SyncAB SyncBA limAB limBA
      { a := a, b := b, ab := [], ba := [], writtenA := [], writtenB := [], deliveredA := [],
        deliveredB := [], failed := false } :=
  ⟨[], [], ⟨a.wr, hab, rfl, by simp⟩, ⟨b.wr, hba, rfl, by simp⟩, by simp [hb.1], by simp [ha.1], rfl,
    ha.2, hb.2, hra.1, hra.2, hrb.1, hrb.2, hla.1, hla.2, hlb.1, hlb.2⟩

/-- once a direction's channel has been drained and the buffer read out, delivered = written -/
theorem stream_fifo_drained {Kab Kba : Codec} (SyncAB : Kab.SS → Kab.RS → Prop) (SyncBA : Kba.SS → Kba.RS → Prop)
    (limAB limBA : Nat) (c : Conn Kab Kba) (h : FifoInv SyncAB SyncBA limAB limBA c)
    (hch : c.ab = []) (hbuf : c.b.buf = []) : c.deliveredB = c.writtenA := by
  obtain ⟨pAB, _, dAB, _, eA, _⟩ := h
  rw [hch] at dAB
  have := dAB.drained
  subst this
  simpa [hbuf] using eA

/-- the record layer of this file is a lawful codec: `stream_fifo` applies to `sendRecord` /
    `recvRecord` for every well-formed configuration, every padding callback honouring its contract
    and every pair of limits with send ≤ recv (see `peer_limits_compatible`) -/
theorem recordCodec_lawful {S} (P : Prims S) (c : Cfg) (hc : c.WF P)
    (hm : c.hasMac = true → MacLaw P) (hs : c.cipher = .stream → StreamLaw P)
    (hb : c.cipher = .block → BlockLaw P) (ha : c.cipher = .aead → AeadLaw P)
    (padCb : Option PadCb) (sendLimit recvLimit : Nat)
    (hcb : ∀ cb, padCb = some cb → ∀ len ty (m : Int), cb len ty m ≤ m.toNat)
    (hsr : sendLimit ≤ recvLimit) (hrl : recvLimit ≤ 2 ^ 14)
    (hov : P.mac.dlen + 2 * P.bs + P.tagLen + 8 ≤ 2048) (htag : P.tagLen ≤ 255)
    (hivl : c.fixedIV.length ≤ P.bs)
    (hsome : ∀ st d, (sendRecord P c padCb sendLimit st 23 d).isSome = true) :
    (recordCodec P c padCb sendLimit).Lawful
      (fun s rv => rv.st = s ∧ rv.earlyOk = false ∧ rv.processed = 0 ∧ rv.recvLimit = recvLimit) sendLimit :=
  { total := fun s p _ => hsome s p
    rt := fun s rv p s' rc ⟨h1, h2, h3, h4⟩ hp hprot => by
      have hin : (sendPlain c padCb sendLimit 23 p).2.length ≤ rv.recvLimit + 1 := by
        unfold sendPlain
        split
        · have := tls13_inner_bound padCb sendLimit 23 p hcb hp
          simp only; omega
        · simp only; omega
      have := recvRecord_sendRecord P c hc hm hs hb ha padCb sendLimit s s' 23 p rc rv h1 h2 (by decide)
        (by omega) (by omega) hin hov htag hivl hprot
      refine ⟨{ rv with st := s', earlyOk := false, processed := 0 }, ?_, rfl, rfl, rfl, h4⟩
      simp only [recordCodec, this] }

open Tls.Gen Tls.Rec.Tie

/-! ## tie by regeneration: what the source says now (TlsModel/Gen/Record.lean) is the model

`translate/gen_record.py` re-reads recordlayer.py / tlsrecordlayer.py on every run; the statements
below fail as soon as the extracted tables, orders or conditions stop being the ones the model
mirrors, before any search for a concrete failing input starts. -/
/-- `_getCipherSettings` / `_getMacSettings` / `_getHMACMethod` (with the tag lengths of the AEAD
    constructors) are the tables the model is instantiated with, and every (cipher row, MAC row)
    satisfies the numeric side conditions of `unprotect_protect` / `recordCodec_lawful`
    (`hov`, `htag`, `hivl`, CBC IV block = one cipher block, ChaCha20 IV ≥ 8 bytes) -/
theorem gen_cipher_table_matches_model :
    Record.translated = true ∧ cipherRows = some modelCipherRows ∧ Record.macTable = modelMacRows ∧
    Record.hmacTable = modelHmacRows ∧
    (modelCipherRows.all fun c => modelMacRows.all fun m => rowSideConditions c m) = true := by decide


/-- `calcPendingStates` cuts the key block in the RFC 5246 order (client MAC, server MAC, client key,
    server key, client IV, server IV) for every table row, keys each pending state from its own
    slices, and each role writes with its own state and reads with the peer's — in TLS ≤ 1.2 and in
    `calcTLS1_3PendingState` (key / IV labels, secrets, the constant IV length 12): the two
    directions pair up, which is the `Sync` premise `stream_fifo` starts from -/
theorem gen_keyblock_order_matches_model :
    Record.keyBlockLength = "macLength * 2 + keyLength * 2 + ivLength * 2" ∧
    (modelCipherRows.all fun c => modelMacRows.all fun m =>
        sliceRanges Record.keyBlockSlices m.2.1 c.2.1 c.2.2.1 == some (modelSliceRanges m.2.1 c.2.1 c.2.2.1)) = true ∧
    Record.keyBlockFields = modelKeyBlockFields ∧
    rolesPairUp (Record.keyBlockRoles.filter fun r => r.2.1 == "self._pendingWriteState" || r.2.1 == "self._pendingReadState") = true ∧
    Record.fixedIVBlock = "self.version >= (3, 2) and ivLength => getRandomBytes(ivLength)" ∧
    Record.tls13States = modelTls13States ∧ rolesPairUp Record.tls13Roles = true := by decide


/-- the if / elif chains of `sendRecord` and `recvRecord` (conditions in order, callee per branch,
    the TLS 1.3 wrap, the early-data handler) are the dispatch of the model -/
theorem gen_dispatch_matches_model :
    Record.sendWrap = modelSendWrap ∧ Record.sendWrapBody = modelSendWrapBody ∧
    classify sendCondOf sendAction Record.sendDispatch = some modelSendChain ∧
    classify recvCondOf recvAction Record.recvDispatch = some modelRecvChain ∧
    Record.recvAfterDispatch = modelRecvAfterDispatch ∧
    (∀ a : SendAtoms, firstTrue (SendCond.eval a) modelSendChain = some (modelSendPath a)) ∧
    (∀ a : RecvAtoms, firstTrue (RecvCond.eval a) modelRecvChain = some (modelRecvPath a)) := by
  refine ⟨by decide +kernel, by decide +kernel, by decide +kernel, by decide +kernel, by decide +kernel, ?_, ?_⟩
  · intro ⟨a, b, c, d⟩
    cases a <;> cases b <;> cases c <;> cases d <;> rfl
  · intro a
    simp only [modelRecvChain, firstTrue, RecvCond.eval, modelRecvPath]
    repeat' split
    all_goals first | rfl | simp_all

/-- the model's `sendRecord` takes the path `modelSendPath` names -/
theorem sendRecord_follows_path {S} (P : Prims S) (c : Cfg) (padCb : Option PadCb) (sl : Nat) (st : St S) (t : UInt8) (data : Bytes) :
    let wrap := c.is13 && c.cipher != .null && t != 20
    let t' : UInt8 := if wrap then 23 else t
    let d' := if wrap then innerPlain padCb sl t data else data
    let mk (r : St S × Bytes) : Option (St S × Rec) := some (r.1, ⟨t', c.recVer.1, c.recVer.2, r.2⟩)
    sendRecord P c padCb sl st t data =
      (match modelSendPath (sendAtomsOf c t') with
       | "ssl2" => none
       | "plain" => mk (st, d')
       | "aead" => mk (protAead P c st t' d')
       | "etm" => (match c.cipher with
          | .null => mk (protEtm P c false st t' d') | .block => mk (protEtm P c true st t' d') | _ => none)
       | _ => (match c.cipher with
          | .null => mk (protMteStream P c false st t' d') | .stream => mk (protMteStream P c true st t' d')
          | .block => mk (protMteCbc P c st t' d') | .aead => none)) := by
  simp only [sendRecord, modelSendPath, sendAtomsOf]
  repeat' split
  all_goals first | rfl | simp_all

/-- the overflow allowances (+1024+1024, +256 for TLS 1.3 records, +1 for the inner plaintext, +0),
    the post-processing of `recvRecord`, the fragmentation loop of `_sendMsg` (split condition, loop
    test, both slices cut BEFORE the send), `recordSize = min(user, negotiated)` and the 2^14
    defaults are the ones of the model; the generated wire allowances make the model overflow -/
theorem gen_limits_match_model {S} (P : Prims S) (c : Cfg) (rv : Recv S) (h : Rec) :
    allowances = some [("wire", 2048), ("wire13", 256), ("plain", 0), ("inner13", 1)] ∧
    Record.recvPost = modelRecvPost ∧ Record.fragmentation = modelFragmentation ∧
    (Record.sizeChecks.filter fun r => r.2.2 != "TLSRecordOverflow") =
      [("RecordSocket.__init__", "recv_record_limit", "2 ** 14"), ("RecordLayer.__init__", "send_record_limit", "2 ** 14")] ∧
    (∀ w, allowOf "wire" = some w → h.body.length > rv.recvLimit + w → recvRecord P c rv h = .err .record_overflow) ∧
    (∀ w, allowOf "wire13" = some w → c.tls13record = true → h.body.length > rv.recvLimit + w →
        recvRecord P c rv h = .err .record_overflow) := by
  have ha : allowances = some [("wire", 2048), ("wire13", 256), ("plain", 0), ("inner13", 1)] := by decide +kernel
  refine ⟨ha, by decide +kernel, by decide +kernel, by decide +kernel, ?_, ?_⟩
  · intro w hw hlen
    have : w = 2048 := by
      unfold allowOf at hw; rw [ha] at hw; simp at hw; exact hw.symm
    subst this
    unfold recvRecord
    have : h.body.length > rv.recvLimit + 1024 + 1024 := by omega
    simp [this]
  · intro w hw h13 hlen
    have : w = 256 := by
      unfold allowOf at hw; rw [ha] at hw; simp at hw; exact hw.symm
    subst this
    unfold recvRecord
    by_cases h1 : h.body.length > rv.recvLimit + 1024 + 1024
    · simp [h1]
    · simp [h1, h13, hlen]


/-- `addPadding` and `_tls13_de_pad` still have the statement-level normal form the model's
    `CT.addPadding` / `dePad` mirror (text tie only: these two helpers are not interpreted) -/
theorem gen_padding_helpers_match_model :
    Record.addPadding = ["currentLength = len(data)", "blockLength = self.blockSize",
      "paddingLength = blockLength - 1 - currentLength % blockLength",
      "paddingBytes = bytearray([paddingLength] * (paddingLength + 1))", "data += paddingBytes", "return data"] ∧
    Record.dePad = ["for pos, value in izip(reversed(xrange(len(data))), reversed(data)): if value != 0: break else: raise TLSUnexpectedMessage('Malformed record layer inner plaintext - content type missing')",
      "return (data[:pos], value)"] ∧
    Record.sendTail = ["data = msg.write()", "contentType = msg.contentType", "padding = 0",
      "encryptedMessage = Message(contentType, data)"] := by decide +kernel

/-! ## non-vacuity: the hypotheses above are satisfiable, and the conclusions are the expected ones -/

/-- a TLS 1.2 AES-CBC-like configuration (MAC-then-encrypt, explicit IV block) -/
def demoCbc12 : Cfg :=
  { vmaj := 3, vmin := 3, tls13record := false, cipher := .block, hasMac := true, etm := false,
    nameHasAes := true, nameIsChacha := false, fixedNonce := [], fixedIV := [9, 8, 7, 6] }

/-- a TLS 1.3 AEAD configuration -/
def demo13 : Cfg :=
  { vmaj := 3, vmin := 4, tls13record := true, cipher := .aead, hasMac := false, etm := false,
    nameHasAes := true, nameIsChacha := false, fixedNonce := [1, 2, 3, 4, 5, 6, 7, 8, 9, 10, 11, 12], fixedIV := [] }

example : MacLaw (Demo.prims 5) ∧ StreamLaw (Demo.prims 5) ∧ BlockLaw (Demo.prims 5) ∧ AeadLaw (Demo.prims 5) :=
  ⟨Demo.macLaw 5, Demo.streamLaw 5, Demo.blockLaw 5, Demo.aeadLaw 5⟩

example : demoCbc12.WF (Demo.prims 5) :=
  { v13 := by decide, c13 := by decide, blockMac := by decide, iv := by decide, names := by decide }

example : demo13.WF (Demo.prims 5) :=
  { v13 := by decide, c13 := by decide, blockMac := by decide, iv := by decide, names := by decide }

/-- concrete run: TLS 1.2 CBC, sequence number 7 — the receiver gets the fragment back -/
example :
    (match sendRecord (Demo.prims 5) demoCbc12 none 16384 ⟨7, 3⟩ 23 [10, 20, 30] with
     | some (st', r) =>
       (match recvRecord (Demo.prims 5) demoCbc12 ⟨⟨7, 3⟩, false, 0, 0, 16384, false⟩ r with
        | .ok rv t d => decide (rv.st.seq = st'.seq ∧ t = 23 ∧ d = [10, 20, 30] ∧ r.body.length = 12)
        | _ => false)
     | none => false) = true := by decide

/-- concrete run: TLS 1.3 with a padding callback — type and fragment come back, padding is gone -/
example :
    (match sendRecord (Demo.prims 5) demo13 (some fun _ _ m => min 3 m.toNat) 100 ⟨0, 0⟩ 22 [1, 2, 0, 0] with
     | some (_, r) =>
       (match recvRecord (Demo.prims 5) demo13 ⟨⟨0, 0⟩, false, 0, 0, 100, false⟩ r with
        | .ok _ t d => decide (t = 22 ∧ d = [1, 2, 0, 0] ∧ r.typ = 23 ∧ r.body.length = 4 + 1 + 3 + 1)
        | _ => false)
     | none => false) = true := by decide

example : fragments true 4 [1, 2, 3, 4, 5, 6, 7, 8, 9, 10] = some [[1], [2, 3, 4, 5], [6, 7, 8, 9], [10]] := by decide
example : fragments true 4 [] = some [[]] := by decide
example : fragments false 4 [1, 2, 3, 4] = some [[1, 2, 3, 4]] := by decide
example : fragments false 0 [1] = none := by decide
-- the record size raised from 2 to 5 while record 0 was being sent: record 1 onwards uses 5
example : fragmentsVar false (fun i => if i = 0 then 2 else 5) [1, 2, 3, 4, 5, 6, 7, 8, 9] = some [[1, 2], [3, 4, 5, 6, 7], [8, 9]] := by decide
example : negotiateLimits true (some 64) (some 16385) = (16384, 63, 63, 16384) := by decide

/-- the identity codec (records in the clear) is lawful: `stream_fifo` is not vacuous -/
example : (⟨Unit, Unit, fun _ t d => some ((), ⟨t, 3, 3, d⟩), fun _ r => .ok (some ((), r.typ, r.body))⟩ : Codec).Lawful
    (fun _ _ => True) 16384 :=
  { total := fun _ _ _ => rfl, rt := fun _ _ _ _ _ _ _ h => by cases h; exact ⟨(), rfl, trivial⟩ }

end Tls.Rec
