import TlsProofs.ConnClose
/-
  C17 — closure, truncation and transport failures are contained and reported faithfully.

  Decision logic of tlsrecordlayer.py (`readAsync`, `_getMsg` alert branch, `writeAsync`,
  `closeAsync`, `_sendMsgThroughSocket`, `_handshakeWrapperAsync`) over the model
  TlsModel/Conn.lean, each statement for an arbitrary endpoint state / arbitrary history.
-/
namespace Tls.Conn

/-- Receiving close_notify: the read that reaches it returns what is buffered (no exception), the
    endpoint has answered with its own close_notify, is closed, and the session's resumable flag
    is exactly what it was. -/
theorem close_notify_received (l : Local) (lvl : Nat) (rest : List Rec) (mx : Option Nat) (mn : Nat)
    (hopen : l.me.closed = false) (htx : l.me.txDead = false)
    (hneed : l.me.readBuf.length < mn ∨ l.me.readBuf = [])
    (hin : l.inc.recs = ⟨l.me.readGen, .alert lvl 0⟩ :: rest) :
    (read mx mn l).1 = .ok (l.me.readBuf.take (mx.getD l.me.readBuf.length)) ∧
    (read mx mn l).2.me.closed = true ∧ (read mx mn l).2.me.resumable = l.me.resumable ∧
    (read mx mn l).2.out.recs = l.out.recs ++ [⟨l.me.writeGen, .alert 1 0⟩] := by
  have hs : ∀ ex sx, ex.contains 21 = false → getMsgStep ex sx l = (.err (.remoteAlert 0),
      shutdown true ((sendRaw (.alert 1 0) (popped l rest)).getD (popped l rest))) := by
    intro ex sx he
    rw [getMsgStep_alert ex sx l lvl 0 rest hin he]; simp
  have hf : fuelOf l = l.inc.recs.length + 1 + 1 := rfl
  have hi : readIter (l.me.ver13 && !l.me.closed) (allowedHs l.me) l = (.err (.remoteAlert 0),
      shutdown true ((sendRaw (.alert 1 0) (popped l rest)).getD (popped l rest))) := by
    apply readIter_of_step_err _ _ l _ _ _ hf
    split <;> exact hs _ _ (by decide)
  have hsr : sendRaw (.alert 1 0) (popped l rest) =
      some { popped l rest with out := { l.out with recs := l.out.recs ++ [⟨l.me.writeGen, .alert 1 0⟩] } } := by
    simp [sendRaw, popped, hopen, htx]
  rw [read_of_iter_closenotify l _ mx mn hopen hneed hi (by simp [shutdown])]
  rw [hsr]
  refine ⟨rfl, ?_, ?_, ?_⟩
  · simp [shutdown_me]
  · simp [shutdown_me, popped]
  · simp only [shutdown_out_recs]; rfl

/-- non-vacuity: buffered data, then close_notify; the read returns the data, closed, resumable -/
example : (runLocal (.read none 5) ⟨{ isClient := true, ver13 := true, readBuf := [7, 8] },
      ⟨[⟨0, .alert 1 0⟩], false⟩, {}⟩).1 = .bytes [7, 8] ∧
    (runLocal (.read none 5) ⟨{ isClient := true, ver13 := true, readBuf := [7, 8] },
      ⟨[⟨0, .alert 1 0⟩], false⟩, {}⟩).2.me.resumable = true := by decide +kernel

/-- After an orderly close — indeed after any closure — over EVERY later history of operations by
    either endpoint: the connection stays closed and the session's resumable flag is never touched
    again (so it stays resumable after close_notify). -/
theorem after_close_notify (w : World) (who : Side) (h : List (Side × Op))
    (hc : (w.endOf who).closed = true) :
    ((run w h).endOf who).closed = true ∧
    ((run w h).endOf who).resumable = (w.endOf who).resumable :=
  closed_forever w who h hc

/-- ... and each single operation on the closed connection answers as the property says: reads
    return the buffered bytes (then empty) and never raise, writes raise the closed-connection
    error, nothing is sent, resumable is untouched. -/
theorem after_close_each_op (op : Op) (l : Local) (hc : l.me.closed = true) :
    (runLocal op l).2.me.closed = true ∧ (runLocal op l).2.me.resumable = l.me.resumable ∧
    (runLocal op l).2.out.recs = l.out.recs ∧ closedAnswer l op (runLocal op l).1 :=
  runLocal_closed op l hc

example : closedAnswer default (.write [1]) (.err .closedConn) ∧
    closedAnswer default (.read none 5) (.bytes []) := by simp [closedAnswer]; rfl

/-- Truncation is not end of data: the transport ends (EOF) with no close_notify and nothing in
    flight; a read that needs more input raises TLSAbruptCloseError, closes and invalidates the
    session — unless the user set ignoreAbruptClose, in which case it returns what is buffered,
    closes, and keeps the session. -/
theorem truncation_not_eof (l : Local) (mx : Option Nat) (mn : Nat)
    (hopen : l.me.closed = false) (hneed : l.me.readBuf.length < mn ∨ l.me.readBuf = [])
    (hin : l.inc.recs = []) (heof : l.inc.eof = true ∨ l.me.rxDead = 1) :
    (l.me.ignoreAbruptClose = false →
      (read mx mn l).1 = .err .abruptClose ∧ (read mx mn l).2.me.closed = true ∧
      (read mx mn l).2.me.resumable = false) ∧
    (l.me.ignoreAbruptClose = true →
      (read mx mn l).1 = .ok (l.me.readBuf.take (mx.getD l.me.readBuf.length)) ∧
      (read mx mn l).2.me.closed = true ∧ (read mx mn l).2.me.resumable = l.me.resumable) := by
  have hcond : (l.inc.eof || l.me.rxDead == 1) = true := by
    rcases heof with h | h <;> simp [h]
  have hi : readIter (l.me.ver13 && !l.me.closed) (allowedHs l.me) l = (.err .abruptClose, l) := by
    apply readIter_step_err
    intro ex sx
    rw [getMsgStep_empty ex sx l hin]; simp [hcond]
  rw [read_of_iter_eof l l mx mn hopen hneed hi]
  constructor
  · intro hig; simp [hig, shutdown_me]
  · intro hig; simp [hig, shutdown_me]

example : (runLocal (.read none 1) ⟨{ isClient := true, ver13 := true }, ⟨[], true⟩, {}⟩).1 = .err .abruptClose := by
  decide +kernel
example : (runLocal (.read none 1) ⟨{ isClient := true, ver13 := true, ignoreAbruptClose := true }, ⟨[], true⟩, {}⟩).1
    = .bytes [] := by decide +kernel

/-- A fatal alert from the peer is surfaced as such: TLSRemoteAlert with the peer's description,
    connection closed, session not resumable, nothing sent in reply. -/
theorem fatal_alert_surfaced (l : Local) (lvl d : Nat) (rest : List Rec) (mx : Option Nat) (mn : Nat)
    (hopen : l.me.closed = false) (hneed : l.me.readBuf.length < mn ∨ l.me.readBuf = [])
    (hin : l.inc.recs = ⟨l.me.readGen, .alert lvl d⟩ :: rest) (hl : lvl ≠ 1) (hd : d ≠ 0) :
    (read mx mn l).1 = .err (.remoteAlert d) ∧ (read mx mn l).2.me.closed = true ∧
    (read mx mn l).2.me.resumable = false ∧ (read mx mn l).2.out.recs = l.out.recs := by
  have hf : fuelOf l = l.inc.recs.length + 1 + 1 := rfl
  have hi : readIter (l.me.ver13 && !l.me.closed) (allowedHs l.me) l =
      (.err (.remoteAlert d), shutdown false (popped l rest)) := by
    apply readIter_of_step_err _ _ l _ _ _ hf
    split <;> (rw [getMsgStep_alert _ _ l lvl d rest hin (by decide)]; simp [hl, hd])
  rw [read_of_iter_err' l _ mx mn _ hopen hneed hi (by simp [hd]) (by simp)]
  refine ⟨rfl, ?_, ?_, ?_⟩
  · simp [shutdown_me]
  · simp [shutdown_me]
  · simp only [shutdown_out_recs]; rfl

example : (runLocal (.read none 1) ⟨{ isClient := false, ver13 := false }, ⟨[⟨0, .alert 2 40⟩], false⟩, {}⟩).1
    = .err (.remoteAlert 40) := by decide +kernel

/-- A warning alert other than close_notify is handled as the code does: answered with
    close_notify, raised as TLSRemoteAlert, the connection is closed and the session invalidated. -/
theorem warning_alert_handled (l : Local) (d : Nat) (rest : List Rec) (mx : Option Nat) (mn : Nat)
    (hopen : l.me.closed = false) (htx : l.me.txDead = false)
    (hneed : l.me.readBuf.length < mn ∨ l.me.readBuf = [])
    (hin : l.inc.recs = ⟨l.me.readGen, .alert 1 d⟩ :: rest) (hd : d ≠ 0) :
    (read mx mn l).1 = .err (.remoteAlert d) ∧ (read mx mn l).2.me.closed = true ∧
    (read mx mn l).2.me.resumable = false ∧
    (read mx mn l).2.out.recs = l.out.recs ++ [⟨l.me.writeGen, .alert 1 0⟩] := by
  have hf : fuelOf l = l.inc.recs.length + 1 + 1 := rfl
  have hsr : sendRaw (.alert 1 0) (popped l rest) =
      some { popped l rest with out := { l.out with recs := l.out.recs ++ [⟨l.me.writeGen, .alert 1 0⟩] } } := by
    simp [sendRaw, popped, hopen, htx]
  have hi : readIter (l.me.ver13 && !l.me.closed) (allowedHs l.me) l = (.err (.remoteAlert d),
      shutdown false { popped l rest with out := { l.out with recs := l.out.recs ++ [⟨l.me.writeGen, .alert 1 0⟩] } }) := by
    apply readIter_of_step_err _ _ l _ _ _ hf
    have hd' : (d == 0) = false := by simp [hd]
    split <;> (rw [getMsgStep_alert _ _ l 1 d rest hin (by decide), hsr]; simp [hd'])
  rw [read_of_iter_err' l _ mx mn _ hopen hneed hi (by simp [hd]) (by simp)]
  refine ⟨rfl, ?_, ?_, ?_⟩
  · simp [shutdown_me]
  · simp [shutdown_me]
  · simp only [shutdown_out_recs]

/-- A transport fault at ANY socket call of a handshake (whatever the sequence of calls is): the
    handshake call raises a socket error or the abrupt-close error — or the alert the peer had
    already sent, when a directly sent handshake record failed — the connection is closed, the
    session is not resumable, and the handshake is not reported complete. -/
theorem transport_fault_contained (steps : List IoStep) (i : Nat) (k : Fault) (pa : Option Nat)
    (hi : i < steps.length) :
    let r := hsFault steps i k pa
    r.closed = true ∧ r.resumable = false ∧ r.complete = false ∧
    (r.exc = some .socketError ∨ r.exc = some .abruptClose ∨
      (∃ d, pa = some d ∧ steps[i]? = some .sendHs ∧ r.exc = some (.remoteAlert d))) := by
  have hs : steps[i]? = some steps[i] := List.getElem?_eq_getElem hi
  simp only [hsFault, hs]
  cases hst : steps[i] <;> cases k <;> cases pa <;> simp [recvAfter]

/-- only a run with no fault reports completion -/
theorem handshake_complete_iff_no_fault (steps : List IoStep) (i : Nat) (k : Fault) (pa : Option Nat) :
    (hsFault steps i k pa).complete = true ↔ steps.length ≤ i := by
  rcases Nat.lt_or_ge i steps.length with hlt | hge
  · have hs : steps[i]? = some steps[i] := List.getElem?_eq_getElem hlt
    simp only [hsFault, hs]
    cases steps[i] <;> cases pa <;> simp <;> omega
  · have hs : steps[i]? = none := List.getElem?_eq_none hge
    simp [hsFault, hs, hge]

example : hsFault [.sendHs, .recv, .flush, .recv] 2 .pipe none = ⟨some .socketError, true, false, false⟩ := by decide
example : hsFault [.sendHs, .recv] 0 .pipe (some 40) = ⟨some (.remoteAlert 40), true, false, false⟩ := by decide

/-- A fatal (or warning) alert of the peer in the middle of a handshake is surfaced with its
    description; the connection is closed, the session not resumable, the handshake not complete. -/
theorem fatal_alert_in_handshake (lvl d : Nat) (hd : d ≠ 0) :
    (hsAlert lvl d).exc = some (.remoteAlert d) ∧ (hsAlert lvl d).closed = true ∧
    (hsAlert lvl d).resumable = false ∧ (hsAlert lvl d).complete = false := by
  simp [hsAlert, hd]

/-- Transport faults in the data phase.  A receive failing with a reset: socket error, closed, not
    resumable.  A send failing: `write` raises the socket error and closes (resumable kept only if
    the user set ignoreAbruptClose); KeyUpdate / heartbeat / post-handshake-auth requests raise it,
    close and invalidate the session. -/
theorem transport_fault_data_recv (l : Local) (mx : Option Nat) (mn : Nat)
    (hopen : l.me.closed = false) (hneed : l.me.readBuf.length < mn ∨ l.me.readBuf = [])
    (hin : l.inc.recs = []) (hne : l.inc.eof = false) (hrx : l.me.rxDead = 2) :
    (read mx mn l).1 = .err .socketError ∧ (read mx mn l).2.me.closed = true ∧
    (read mx mn l).2.me.resumable = false := by
  have hi : readIter (l.me.ver13 && !l.me.closed) (allowedHs l.me) l = (.err .socketError, l) := by
    apply readIter_step_err
    intro ex sx
    rw [getMsgStep_empty ex sx l hin]; simp [hne, hrx]
  rw [read_of_iter_err' l l mx mn _ hopen hneed hi (by simp) (by simp)]
  simp [shutdown_me]

example : (runLocal (.read none 1) ⟨{ isClient := true, ver13 := true, rxDead := 2 }, {}, {}⟩).1 = .err .socketError ∧
    (runLocal (.write [1, 2]) ⟨{ isClient := true, ver13 := true, txDead := true }, {}, {}⟩).1 = .err .socketError ∧
    (runLocal (.keyUpdate true) ⟨{ isClient := true, ver13 := true, txDead := true }, {}, {}⟩).2.me.closed = true := by
  decide +kernel

theorem transport_fault_data_send (l : Local) (hopen : l.me.closed = false) (htx : l.me.txDead = true) :
    (∀ d, (write d l).1 = .err .socketError ∧ (write d l).2.me.closed = true ∧
          (write d l).2.me.resumable = (l.me.resumable && l.me.ignoreAbruptClose)) ∧
    (∀ v, l.me.ver13 = true → (sendKeyUpdate v l).1 = .err .socketError ∧
          (sendKeyUpdate v l).2.me.closed = true ∧ (sendKeyUpdate v l).2.me.resumable = false) ∧
    (∀ p n, l.me.hbSupported = true → l.me.hbCanSend = true →
          (heartbeat p n l).1 = .err .socketError ∧ (heartbeat p n l).2.me.closed = true ∧
          (heartbeat p n l).2.me.resumable = false) := by
  refine ⟨?_, ?_, ?_⟩
  · intro d
    have hne : appRecords l.me d ≠ [] := by
      unfold appRecords; split
      · split <;> simp
      · cases hd : d.length <;> simp [fragments]
        split <;> simp
    cases hr : appRecords l.me d with
    | nil => exact absurd hr hne
    | cons x xs =>
      simp [write, hopen, hr, sendAll, sendMsg, sendRaw, htx, Msg.ct, shutdown_me]
  · intro v h13
    simp [sendKeyUpdate, hopen, h13, sendMsg, sendRaw, htx, Msg.ct, shutdown_me]
  · intro p n hs hc
    simp [heartbeat, hopen, hs, hc, sendMsg, sendRaw, htx, Msg.ct, shutdown_me]

end Tls.Conn
