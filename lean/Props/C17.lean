import TlsProofs.ConnClose
import TlsModel.Gen.Conn
/-
  C17 — closure, truncation and transport failures are contained and reported faithfully.

  Decision logic of tlsrecordlayer.py (`readAsync`, `_getMsg` alert branch, `writeAsync`,
  `closeAsync`, `_sendMsgThroughSocket`, `_handshakeWrapperAsync`) over the model
  TlsModel/Conn.lean, each statement for an arbitrary endpoint state / arbitrary history.
-/
namespace Tls.Conn

/-- Receiving close_notify: the read that reaches it returns what is buffered (no exception), the
    endpoint has answered with its own close_notify, is closed, and the session's resumable flag
    is exactly what it was. -/
theorem close_notify_received (l : Local) (lvl : Nat) (rest : List Rec) (mx : Option Nat) (mn : Nat)
    (hopen : l.me.closed = false) (htx : l.me.txDead = false)
    (hneed : l.me.readBuf.length < mn ∨ l.me.readBuf = [])
    (hin : l.inc.recs = ⟨l.me.readGen, .alert lvl 0⟩ :: rest) :
    (read mx mn l).1 = .ok (l.me.readBuf.take (mx.getD l.me.readBuf.length)) ∧
    (read mx mn l).2.me.closed = true ∧ (read mx mn l).2.me.resumable = l.me.resumable ∧
    (read mx mn l).2.out.recs = l.out.recs ++ [⟨l.me.writeGen, .alert 1 0⟩] := by
  have hs : ∀ ex sx, ex.contains 21 = false → getMsgStep ex sx l = (.err (.remoteAlert 0),
      shutdown true ((sendRaw (.alert 1 0) (popped l rest)).getD (popped l rest))) := by
    intro ex sx he
    rw [getMsgStep_alert ex sx l lvl 0 rest hin he]; simp
  have hf : fuelOf l = l.inc.recs.length + 1 + 1 := rfl
  have hi : readIter (l.me.ver13 && !l.me.closed) (allowedHs l.me) l = (.err (.remoteAlert 0),
      shutdown true ((sendRaw (.alert 1 0) (popped l rest)).getD (popped l rest))) := by
    apply readIter_of_step_err _ _ l _ _ _ hf
    split <;> exact hs _ _ (by decide)
  have hsr : sendRaw (.alert 1 0) (popped l rest) =
      some { popped l rest with out := { l.out with recs := l.out.recs ++ [⟨l.me.writeGen, .alert 1 0⟩] } } := by
    simp [sendRaw, popped, hopen, htx]
  rw [read_of_iter_closenotify l _ mx mn hopen hneed hi (by simp [shutdown])]
  rw [hsr]
  refine ⟨rfl, ?_, ?_, ?_⟩
  · simp [shutdown_me]
  · simp [shutdown_me, popped]
  · simp only [shutdown_out_recs]; rfl

/-- non-vacuity: buffered data, then close_notify; the read returns the data, closed, resumable -/
example : (runLocal (.read none 5) ⟨{ isClient := true, ver13 := true, readBuf := [7, 8] },
      ⟨[⟨0, .alert 1 0⟩], false⟩, {}⟩).1 = .bytes [7, 8] ∧
    (runLocal (.read none 5) ⟨{ isClient := true, ver13 := true, readBuf := [7, 8] },
      ⟨[⟨0, .alert 1 0⟩], false⟩, {}⟩).2.me.resumable = true := by decide +kernel

/-- After an orderly close — indeed after any closure — over EVERY later history of operations by
    either endpoint: the connection stays closed and the session's resumable flag is never touched
    again (so it stays resumable after close_notify). -/
theorem after_close_notify (w : World) (who : Side) (h : List (Side × Op))
    (hc : (w.endOf who).closed = true) :
    ((run w h).endOf who).closed = true ∧
    ((run w h).endOf who).resumable = (w.endOf who).resumable :=
  closed_forever w who h hc

/-- ... and each single operation on the closed connection answers as the property says: reads
    return the buffered bytes (then empty) and never raise, writes raise the closed-connection
    error, nothing is sent, resumable is untouched. -/
theorem after_close_each_op (op : Op) (l : Local) (hc : l.me.closed = true) :
    (runLocal op l).2.me.closed = true ∧ (runLocal op l).2.me.resumable = l.me.resumable ∧
    (runLocal op l).2.out.recs = l.out.recs ∧ closedAnswer l op (runLocal op l).1 :=
  runLocal_closed op l hc

example : closedAnswer default (.write [1]) (.err .closedConn) ∧
    closedAnswer default (.read none 5) (.bytes []) := by simp [closedAnswer]; rfl

/-- Truncation is not end of data: the transport ends (EOF) with no close_notify and nothing in
    flight; a read that needs more input raises TLSAbruptCloseError, closes and invalidates the
    session — unless the user set ignoreAbruptClose, in which case it returns what is buffered,
    closes, and keeps the session. -/
theorem truncation_not_eof (l : Local) (mx : Option Nat) (mn : Nat)
    (hopen : l.me.closed = false) (hneed : l.me.readBuf.length < mn ∨ l.me.readBuf = [])
    (hin : l.inc.recs = []) (heof : l.inc.eof = true ∨ l.me.rxDead = 1) :
    (l.me.ignoreAbruptClose = false →
      (read mx mn l).1 = .err .abruptClose ∧ (read mx mn l).2.me.closed = true ∧
      (read mx mn l).2.me.resumable = false) ∧
    (l.me.ignoreAbruptClose = true →
      (read mx mn l).1 = .ok (l.me.readBuf.take (mx.getD l.me.readBuf.length)) ∧
      (read mx mn l).2.me.closed = true ∧ (read mx mn l).2.me.resumable = l.me.resumable) := by
  have hcond : (l.inc.eof || l.me.rxDead == 1) = true := by
    rcases heof with h | h <;> simp [h]
  have hi : readIter (l.me.ver13 && !l.me.closed) (allowedHs l.me) l = (.err .abruptClose, l) := by
    apply readIter_step_err
    intro ex sx
    rw [getMsgStep_empty ex sx l hin]; simp [hcond]
  rw [read_of_iter_eof l l mx mn hopen hneed hi]
  constructor
  · intro hig; simp [hig, shutdown_me]
  · intro hig; simp [hig, shutdown_me]

example : (runLocal (.read none 1) ⟨{ isClient := true, ver13 := true }, ⟨[], true⟩, {}⟩).1 = .err .abruptClose := by
  decide +kernel
example : (runLocal (.read none 1) ⟨{ isClient := true, ver13 := true, ignoreAbruptClose := true }, ⟨[], true⟩, {}⟩).1
    = .bytes [] := by decide +kernel

/-- A fatal alert from the peer is surfaced as such: TLSRemoteAlert with the peer's description,
    connection closed, session not resumable, nothing sent in reply. -/
theorem fatal_alert_surfaced (l : Local) (lvl d : Nat) (rest : List Rec) (mx : Option Nat) (mn : Nat)
    (hopen : l.me.closed = false) (hneed : l.me.readBuf.length < mn ∨ l.me.readBuf = [])
    (hin : l.inc.recs = ⟨l.me.readGen, .alert lvl d⟩ :: rest) (hl : lvl ≠ 1) (hd : d ≠ 0) :
    (read mx mn l).1 = .err (.remoteAlert d) ∧ (read mx mn l).2.me.closed = true ∧
    (read mx mn l).2.me.resumable = false ∧ (read mx mn l).2.out.recs = l.out.recs := by
  have hf : fuelOf l = l.inc.recs.length + 1 + 1 := rfl
  have hi : readIter (l.me.ver13 && !l.me.closed) (allowedHs l.me) l =
      (.err (.remoteAlert d), shutdown false (popped l rest)) := by
    apply readIter_of_step_err _ _ l _ _ _ hf
    split <;> (rw [getMsgStep_alert _ _ l lvl d rest hin (by decide)]; simp [hl, hd])
  rw [read_of_iter_err' l _ mx mn _ hopen hneed hi (by simp [hd]) (by simp)]
  refine ⟨rfl, ?_, ?_, ?_⟩
  · simp [shutdown_me]
  · simp [shutdown_me]
  · simp only [shutdown_out_recs]; rfl

example : (runLocal (.read none 1) ⟨{ isClient := false, ver13 := false }, ⟨[⟨0, .alert 2 40⟩], false⟩, {}⟩).1
    = .err (.remoteAlert 40) := by decide +kernel

/-- A warning alert other than close_notify is handled as the code does: answered with
    close_notify, raised as TLSRemoteAlert, the connection is closed and the session invalidated. -/
theorem warning_alert_handled (l : Local) (d : Nat) (rest : List Rec) (mx : Option Nat) (mn : Nat)
    (hopen : l.me.closed = false) (htx : l.me.txDead = false)
    (hneed : l.me.readBuf.length < mn ∨ l.me.readBuf = [])
    (hin : l.inc.recs = ⟨l.me.readGen, .alert 1 d⟩ :: rest) (hd : d ≠ 0) :
    (read mx mn l).1 = .err (.remoteAlert d) ∧ (read mx mn l).2.me.closed = true ∧
    (read mx mn l).2.me.resumable = false ∧
    (read mx mn l).2.out.recs = l.out.recs ++ [⟨l.me.writeGen, .alert 1 0⟩] := by
  have hf : fuelOf l = l.inc.recs.length + 1 + 1 := rfl
  have hsr : sendRaw (.alert 1 0) (popped l rest) =
      some { popped l rest with out := { l.out with recs := l.out.recs ++ [⟨l.me.writeGen, .alert 1 0⟩] } } := by
    simp [sendRaw, popped, hopen, htx]
  have hi : readIter (l.me.ver13 && !l.me.closed) (allowedHs l.me) l = (.err (.remoteAlert d),
      shutdown false { popped l rest with out := { l.out with recs := l.out.recs ++ [⟨l.me.writeGen, .alert 1 0⟩] } }) := by
    apply readIter_of_step_err _ _ l _ _ _ hf
    have hd' : (d == 0) = false := by simp [hd]
    split <;> (rw [getMsgStep_alert _ _ l 1 d rest hin (by decide), hsr]; simp [hd'])
  rw [read_of_iter_err' l _ mx mn _ hopen hneed hi (by simp [hd]) (by simp)]
  refine ⟨rfl, ?_, ?_, ?_⟩
  · simp [shutdown_me]
  · simp [shutdown_me]
  · simp only [shutdown_out_recs]

/-- A transport fault at ANY socket call of a handshake (whatever the sequence of calls is): the
    handshake call raises a socket error or the abrupt-close error — or the alert the peer had
    already sent, when a directly sent handshake record failed — the connection is closed, the
    session is not resumable, and the handshake is not reported complete. -/
theorem transport_fault_contained (steps : List IoStep) (i : Nat) (k : Fault) (pa : Option Nat)
    (hi : i < steps.length) :
    let r := hsFault steps i k pa
    r.closed = true ∧ r.resumable = false ∧ r.complete = false ∧
    (r.exc = some .socketError ∨ r.exc = some .abruptClose ∨
      (∃ d, pa = some d ∧ steps[i]? = some .sendHs ∧ r.exc = some (.remoteAlert d))) := by
  have hs : steps[i]? = some steps[i] := List.getElem?_eq_getElem hi
  simp only [hsFault, hs]
  cases hst : steps[i] <;> cases k <;> cases pa <;> simp [recvAfter]

/-- only a run with no fault reports completion -/
theorem handshake_complete_iff_no_fault (steps : List IoStep) (i : Nat) (k : Fault) (pa : Option Nat) :
    (hsFault steps i k pa).complete = true ↔ steps.length ≤ i := by
  rcases Nat.lt_or_ge i steps.length with hlt | hge
  · have hs : steps[i]? = some steps[i] := List.getElem?_eq_getElem hlt
    simp only [hsFault, hs]
    cases steps[i] <;> cases pa <;> simp <;> omega
  · have hs : steps[i]? = none := List.getElem?_eq_none hge
    simp [hsFault, hs, hge]

example : hsFault [.sendHs, .recv, .flush, .recv] 2 .pipe none = ⟨some .socketError, true, false, false⟩ := by decide
example : hsFault [.sendHs, .recv] 0 .pipe (some 40) = ⟨some (.remoteAlert 40), true, false, false⟩ := by decide

/-- A fatal (or warning) alert of the peer in the middle of a handshake is surfaced with its
    description; the connection is closed, the session not resumable, the handshake not complete. -/
theorem fatal_alert_in_handshake (lvl d : Nat) (hd : d ≠ 0) :
    (hsAlert lvl d).exc = some (.remoteAlert d) ∧ (hsAlert lvl d).closed = true ∧
    (hsAlert lvl d).resumable = false ∧ (hsAlert lvl d).complete = false := by
  simp [hsAlert, hd]

/-- Transport faults in the data phase.  A receive failing with a reset: socket error, closed, not
    resumable.  A send failing: `write` raises the socket error and closes (resumable kept only if
    the user set ignoreAbruptClose); KeyUpdate / heartbeat / post-handshake-auth requests raise it,
    close and invalidate the session. -/
theorem transport_fault_data_recv (l : Local) (mx : Option Nat) (mn : Nat)
    (hopen : l.me.closed = false) (hneed : l.me.readBuf.length < mn ∨ l.me.readBuf = [])
    (hin : l.inc.recs = []) (hne : l.inc.eof = false) (hrx : l.me.rxDead = 2) :
    (read mx mn l).1 = .err .socketError ∧ (read mx mn l).2.me.closed = true ∧
    (read mx mn l).2.me.resumable = false := by
  have hi : readIter (l.me.ver13 && !l.me.closed) (allowedHs l.me) l = (.err .socketError, l) := by
    apply readIter_step_err
    intro ex sx
    rw [getMsgStep_empty ex sx l hin]; simp [hne, hrx]
  rw [read_of_iter_err' l l mx mn _ hopen hneed hi (by simp) (by simp)]
  simp [shutdown_me]

example : (runLocal (.read none 1) ⟨{ isClient := true, ver13 := true, rxDead := 2 }, {}, {}⟩).1 = .err .socketError ∧
    (runLocal (.write [1, 2]) ⟨{ isClient := true, ver13 := true, txDead := true }, {}, {}⟩).1 = .err .socketError ∧
    (runLocal (.keyUpdate true) ⟨{ isClient := true, ver13 := true, txDead := true }, {}, {}⟩).2.me.closed = true := by
  decide +kernel

theorem transport_fault_data_send (l : Local) (hopen : l.me.closed = false) (htx : l.me.txDead = true) :
    (∀ d, (write d l).1 = .err .socketError ∧ (write d l).2.me.closed = true ∧
          (write d l).2.me.resumable = (l.me.resumable && l.me.ignoreAbruptClose)) ∧
    (∀ v, l.me.ver13 = true → (sendKeyUpdate v l).1 = .err .socketError ∧
          (sendKeyUpdate v l).2.me.closed = true ∧ (sendKeyUpdate v l).2.me.resumable = false) ∧
    (∀ p n, l.me.hbSupported = true → l.me.hbCanSend = true →
          (heartbeat p n l).1 = .err .socketError ∧ (heartbeat p n l).2.me.closed = true ∧
          (heartbeat p n l).2.me.resumable = false) := by
  refine ⟨?_, ?_, ?_⟩
  · intro d
    have hne : appRecords l.me d ≠ [] := by
      unfold appRecords; split
      · split <;> simp
      · cases hd : d.length <;> simp [fragments]
        split <;> simp
    cases hr : appRecords l.me d with
    | nil => exact absurd hr hne
    | cons x xs =>
      simp [write, hopen, hr, sendAll, sendMsg, sendRaw, htx, Msg.ct, shutdown_me]
  · intro v h13
    simp [sendKeyUpdate, hopen, h13, sendMsg, sendRaw, htx, Msg.ct, shutdown_me]
  · intro p n hs hc
    simp [heartbeat, hopen, hs, hc, sendMsg, sendRaw, htx, Msg.ct, shutdown_me]


/-- A session that was used by a connection ending in a fatal failure is not resumed any more,
    whichever connection of its history that was — the first one or a later, itself resumed, one —
    and however many orderly ones surround it; a history of orderly closes keeps it resumable. -/
theorem fatal_end_invalidates_session (before after : List ConnEnd) :
    nextResumes (before ++ .fatal :: after) = false ∧
    (∀ ends : List ConnEnd, (∀ e ∈ ends, e = .orderly) → nextResumes ends = true) := by
  constructor
  · induction before with
    | nil => rfl
    | cons e rest ih => cases e <;> simp [nextResumes, sessionAfter] at ih ⊢ <;> exact ih
  · intro ends h
    induction ends with
    | nil => rfl
    | cons e rest ih =>
      have he := h e (by simp)
      subst he
      simpa [nextResumes, sessionAfter] using ih (fun e he => h e (by simp [he]))

example : nextResumes [.orderly, .fatal] = false ∧ nextResumes [.orderly, .orderly] = true := by decide

/-! ### close(), makefile() reference counting, the two directions' close in every order -/

/-- `makefile()` adds a reference: the next close() only drops it; the connection stays open, nothing
    is sent.  In general a close() does something only when it brings the count to 0. -/
theorem makefile_refcount (l : Local) (hopen : l.me.closed = false) (h1 : l.me.refCount - 1 ≠ 0) :
    (close l).1 = .ok () ∧ (close l).2.me.closed = false ∧ (close l).2.out = l.out ∧
    (close l).2.me.refCount = l.me.refCount - 1 ∧ (close l).2.me.resumable = l.me.resumable := by
  simp [close, hopen, h1]

theorem makefile_then_close (l : Local) (hopen : l.me.closed = false) (h1 : l.me.refCount = 1) :
    (close (makefile l)).2.me.closed = false ∧ (close (makefile l)).2.me.refCount = 1 := by
  simp [close, makefile, hopen, h1]

/-- all interleavings of two sequences -/
def interleave {α : Type} : List α → List α → List (List α)
  | [], ys => [ys]
  | xs, [] => [xs]
  | x :: xs, y :: ys =>
    (interleave xs (y :: ys)).map (x :: ·) ++ (interleave (x :: xs) ys).map (y :: ·)
termination_by xs ys => xs.length + ys.length

def closeWorld (v13 csC csS : Bool) : World :=
  { c := { isClient := true, ver13 := v13, closeSocket := csC },
    s := { isClient := false, ver13 := v13, closeSocket := csS } }

def closeSeq (who : Side) : List (Side × Op) :=
  [(who, .write [1, 2]), (who, .close), (who, .read none 1), (who, .read none 0), (who, .close)]

/-- after the interleaving each endpoint looks at its input once more (an endpoint whose close() with
    closeSocket off was still waiting when its own sequence ended learns of the peer's close then) -/
def closeDrain : List (Side × Op) :=
  [(.client, .read none 0), (.server, .read none 0), (.client, .read none 0), (.server, .read none 0)]

/-- Both directions closed, in EVERY interleaving of the two endpoints' (write, close, read, read,
    close) sequences, for every closeSocket combination and both protocol generations: both ends are
    closed, both sessions are still resumable, no operation raised, and a later write is refused
    with the closed-connection error while the session stays resumable. -/
def Out.isErr : Out → Bool
  | .err _ => true
  | _ => false

theorem close_every_interleaving :
    ∀ v13 csC csS : Bool, ∀ h ∈ interleave (closeSeq .client) (closeSeq .server),
      (run (closeWorld v13 csC csS) (h ++ closeDrain)).c.closed = true ∧ (run (closeWorld v13 csC csS) (h ++ closeDrain)).s.closed = true ∧
      (run (closeWorld v13 csC csS) (h ++ closeDrain)).c.resumable = true ∧ (run (closeWorld v13 csC csS) (h ++ closeDrain)).s.resumable = true ∧
      (∀ o ∈ outs (closeWorld v13 csC csS) (h ++ closeDrain), o.isErr = false) ∧
      (step (run (closeWorld v13 csC csS) (h ++ closeDrain)) .client (.write [9])).1 = .err .closedConn ∧
      (step (run (closeWorld v13 csC csS) (h ++ closeDrain)) .client (.write [9])).2.c.resumable = true := by
  decide +kernel

example : (interleave (closeSeq .client) (closeSeq .server)).length = 252 := by decide +kernel

/-! ### tie to the source: tables regenerated from tlslite/tlsrecordlayer.py on every run -/

def alertProbe (lvl d : Nat) (dead : Bool) : Out × Local :=
  runLocal (.read none 1) ⟨{ isClient := true, ver13 := true, txDead := dead }, ⟨[⟨0, .alert lvl d⟩], false⟩, {}⟩

/-- The alert handler of the model classifies every (level, description) as the generated condition
    and `_shutdown` arguments of `_getMsg` do: whether close_notify is sent back, which alert that is,
    whether the session stays resumable, and that the alert is raised with the peer's description
    (close_notify is swallowed by `readAsync`, as its generated except clause says). -/
theorem gen_alert_table_matches_model :
    ∀ lvl ∈ List.range 4, ∀ d ∈ List.range 256,
      ((alertProbe lvl d false).2.out.recs =
          if Gen.Conn.alertReply lvl d then [⟨0, .alert Gen.Conn.alertReplyMsg.1 Gen.Conn.alertReplyMsg.2⟩] else []) ∧
      (alertProbe lvl d false).2.me.resumable = Gen.Conn.alertKeepsResumable lvl d ∧
      (alertProbe lvl d false).2.me.closed = true ∧
      (alertProbe lvl d false).1 = (if d = 0 then .bytes [] else .err (.remoteAlert d)) := by
  decide +kernel

/-- Every socket error of that reply is forgiven (the generated handler is `except socket.error: pass`):
    with a transport that cannot send, the outcome of receiving any alert is the same as above. -/
theorem gen_alert_reply_errors_forgiven :
    Gen.Conn.alertReplyForgiven = ["socket.error"] ∧ Gen.Conn.alertReplyForgivenBody = "pass" ∧
    Gen.Conn.alertRaises = "TLSRemoteAlert" ∧
    ∀ lvl ∈ List.range 4, ∀ d ∈ List.range 256,
      (alertProbe lvl d true).1 = (alertProbe lvl d false).1 ∧
      (alertProbe lvl d true).2.me.resumable = (alertProbe lvl d false).2.me.resumable ∧
      (alertProbe lvl d true).2.me.closed = true := by
  decide +kernel

/-- exception -> alert mapping of the except clauses, as the model raises them -/
theorem gen_exc_alert_matches_model :
    Gen.Conn.excAlert = [("_getMsg:TLSIllegalParameterException", 47), ("_getMsg:BadCertificateError", 42),
      ("_getMsg:SyntaxError", 50), ("_getNextRecordFromSocket:TLSUnexpectedMessage", 10),
      ("_getNextRecordFromSocket:TLSRecordOverflow", 22), ("_getNextRecordFromSocket:TLSIllegalParameterException", 47),
      ("_getNextRecordFromSocket:TLSDecryptionFailed", 21), ("_getNextRecordFromSocket:TLSBadRecordMAC", 20)] ∧
    (runLocal (.read none 1) ⟨{ isClient := true, ver13 := true }, ⟨[⟨5, .appData [1]⟩], false⟩, {}⟩).1 =
      .err (.localAlert ((Gen.Conn.excAlert.lookup "_getNextRecordFromSocket:TLSBadRecordMAC").getD 0)) := by
  decide +kernel

/-- the except clauses of `readAsync` (generated) and what the model does at those points -/
theorem gen_read_except_matches_model :
    Gen.Conn.readInnerExcept = [("TLSRemoteAlert", "reraise_unless_close_notify"),
      ("TLSAbruptCloseError", "reraise_unless_ignoreAbruptClose_then_shutdown_true")] ∧
    Gen.Conn.readOuterExcept = "shutdown_false_reraise" ∧
    (∀ ig : Bool,
      let r := runLocal (.read none 1) ⟨{ isClient := true, ver13 := true, ignoreAbruptClose := ig }, ⟨[], true⟩, {}⟩
      r.1 = (if ig then .bytes [] else .err .abruptClose) ∧ r.2.me.closed = true ∧ r.2.me.resumable = ig) := by
  decide +kernel

/-- `_decrefAsync`, `makefile`, `_handshakeStart` as generated, against the model's `close` -/
theorem gen_close_matches_model :
    Gen.Conn.refCountInit = 1 ∧ ((default : End).refCount = Gen.Conn.refCountInit) ∧
    Gen.Conn.makefileShape = "increment" ∧ Gen.Conn.decrefGuard = "decrement_then_if_zero_and_open" ∧
    Gen.Conn.closeFirstAlert = (1, 0) ∧ Gen.Conn.closeSocketBranch = "shutdown_true" ∧
    Gen.Conn.closeWait13Client = ([21, 23, 22], [4, 24]) ∧ Gen.Conn.closeWait13Server = ([21, 23, 22], [24]) ∧
    Gen.Conn.closeWaitOld = ([21, 23], []) ∧ Gen.Conn.closeWaitKeyUpdate = "advance_read_no_reply" ∧
    Gen.Conn.closeWaitFinal = "close_notify_shutdown_true_else_raise" ∧
    Gen.Conn.closeExcept = [("socket.error,TLSAbruptCloseError", "shutdown_true"), ("*", "shutdown_false_reraise")] ∧
    -- the first thing close() sends is the generated alert
    (runLocal .close ⟨{ isClient := true, ver13 := true }, {}, {}⟩).2.out.recs =
      [⟨0, .alert Gen.Conn.closeFirstAlert.1 Gen.Conn.closeFirstAlert.2⟩] ∧
    -- the wait loop accepts exactly the generated secondary types (TLS 1.3 client / server)
    (∀ c : Bool, ∀ t ∈ List.range 32,
      ((runLocal .close ⟨{ isClient := c, ver13 := true, closeSocket := false }, ⟨[⟨0, .hsMalformed t⟩], false⟩, {}⟩).1
          = .err (.localAlert 50)) =
        (if c then Gen.Conn.closeWait13Client.2 else Gen.Conn.closeWait13Server.2).contains t) := by
  decide +kernel

/-- `writeAsync` and `_sendMsgThroughSocket` as generated, against the model -/
theorem gen_write_and_send_failure_match_model :
    Gen.Conn.writeShape = "closed_check_before_try" ∧ Gen.Conn.writeExcept = "shutdown_ignoreAbruptClose_reraise" ∧
    Gen.Conn.sendFailPeek = "handshake_record_and_closed" ∧
    Gen.Conn.sendFailPeekOutcome = "shutdown_false_raise_alert_else_reraise" ∧
    Gen.Conn.sendFailElse = "shutdown_false_for_types_then_reraise" ∧
    -- a failed send closes the connection inside `_sendMsgThroughSocket` exactly for the generated content types
    (∀ m ∈ [Msg.keyUpdate 0, Msg.certRequest 1 0, Msg.heartbeat 1 [] 16, Msg.alert 1 0, Msg.appData [1]],
      (sendMsg m ⟨{ isClient := false, ver13 := true, txDead := true }, {}, {}⟩).2.me.closed =
        Gen.Conn.sendFailCloseTypes.contains m.ct) ∧
    (∀ ig : Bool,
      let r := runLocal (.write [1]) ⟨{ isClient := true, ver13 := true, txDead := true, ignoreAbruptClose := ig }, {}, {}⟩
      r.1 = .err .socketError ∧ r.2.me.closed = true ∧ r.2.me.resumable = ig) ∧
    (runLocal (.write [1]) ⟨{ isClient := true, ver13 := true, closed := true }, {}, {}⟩).2.me.resumable = true := by
  decide +kernel

end Tls.Conn
