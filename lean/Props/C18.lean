import TlsProofs.Cache
import TlsProofs.Conc
import TlsProofs.ConcCache
import TlsProofs.ConcInv
import TlsProofs.ConcRsa
import TlsProofs.ConcDb
import TlsModel.Gen.Locks
/-
  C18 — shared objects stay correct under every thread interleaving.

  Sequential part: `Tls.Cache.Cache` mirrors `tlslite/sessioncache.py` statement by statement
  (dict, per-ID count, circular list, firstIndex/lastIndex, `_purge`, `_remove`); `runSpec` is the
  property's specification over the time-stamped log of stores.  Hypotheses: `1 ≤ maxEntries`
  (with 0 the constructor builds an empty list and the first store raises IndexError — shown
  below) and a clock that never goes back.

  Concurrent part: `Tls.Conc` is an interleaving semantics of threads built from thread-local
  actions, shared actions and one lock.  The action shapes of the real methods are GENERATED from
  the Python AST on every run (TlsModel/Gen/Locks.lean); the `*_lock_discipline` theorems and the
  `decide` inside `concurrent_cache_correct` stop checking when a lock is removed, a shared access
  is moved outside its section, or a construct appears that the translator cannot classify.
-/
namespace Tls.C18
open Tls.Cache Tls.Conc Tls.CacheConc Tls.Locks

/-! ## the cache, sequentially -/

/-- For every history of stores, lookups and invalidations with a clock that never goes back,
    every result of the implementation model — returned session, KeyError, or an escaping
    internal error — equals the specification's: the session last stored under the ID iff it is
    not older than maxAge, still valid and fewer than maxEntries−1 stores came after it. -/
theorem cache_refines_spec (maxEntries : Nat) (maxAge : Int) (ops : List Op)
    (hcap : 1 ≤ maxEntries) (hmono : ClockMonotone ops) :
    runImpl maxEntries maxAge ops = runSpec maxEntries maxAge ops := by
  have hclock : ∀ t ∈ opTimes ops, (opTimes ops).headD 0 ≤ t := by
    intro t ht
    cases hts : opTimes ops with
    | nil => rw [hts] at ht; cases ht
    | cons a r =>
      rw [hts] at ht
      unfold ClockMonotone at hmono
      rw [hts] at hmono
      simp only [List.headD_cons]
      rcases List.mem_cons.mp ht with h | h
      · subst h; exact Int.le_refl _
      · exact (List.pairwise_cons.mp hmono).1 t h
  exact (run_sim maxEntries maxAge ops _ _ _ (sim_init maxEntries maxAge _ hcap) hclock hmono).1

example : runImpl 3 10 [.set 1 0 100, .set 1 5 101, .get 1 12, .get 1 15, .get 1 16, .set 2 16 102,
                        .set 3 16 103, .get 1 16, .get 2 16, .inval 103, .get 3 16]
    = [.done, .done, .sess 101, .sess 101, .keyError, .done, .done, .keyError, .sess 102, .done,
       .keyError] := by decide +kernel

/-- the specification never reports an internal error -/
theorem spec_no_internal (maxEntries : Nat) (maxAge : Int) (ops : List Op) (st : SpecState) :
    ∀ o ∈ (runSpecFrom maxEntries maxAge st ops).2, ∀ e, o ≠ Out.internal e := by
  induction ops generalizing st with
  | nil => intro o ho; simp [runSpecFrom] at ho
  | cons op ops ih =>
    intro o ho e
    simp only [runSpecFrom, List.mem_cons] at ho
    rcases ho with ho | ho
    · subst ho
      cases op with
      | set id t s => simp [SpecState.step]
      | inval s => simp [SpecState.step]
      | get id t =>
        simp only [SpecState.step, specGet]
        split
        · simp
        · split <;> simp
    · exact ih _ o ho e

/-- No internal error on any history: neither `_remove` (inside purge or eviction) nor any list
    index raises; the only exception a caller can see is the KeyError of a lookup. -/
theorem cache_no_internal_error (maxEntries : Nat) (maxAge : Int) (ops : List Op)
    (hcap : 1 ≤ maxEntries) (hmono : ClockMonotone ops) :
    ∀ o ∈ runImpl maxEntries maxAge ops, ∀ e, o ≠ Out.internal e := by
  rw [cache_refines_spec maxEntries maxAge ops hcap hmono]
  exact spec_no_internal maxEntries maxAge ops _

/-- the hypothesis `1 ≤ maxEntries` is needed: with an empty circular list the store raises -/
example : runImpl 0 10 [.set 1 0 100] = [.internal .indexError] := by decide

/-- Size bound after any history: the dictionary, the per-ID counts and the live part of the
    circular list never hold more than maxEntries−1 entries, and the dictionary never more than
    the live list. -/
theorem cache_size_bound (maxEntries : Nat) (maxAge : Int) (ops : List Op)
    (hcap : 1 ≤ maxEntries) (hmono : ClockMonotone ops) :
    let c := (runImplFrom { cache := Cache.new maxEntries maxAge, inval := [] } ops).1.cache
    c.liveLen ≤ maxEntries - 1 ∧ c.dict.length ≤ c.liveLen ∧ c.count.length ≤ c.liveLen := by
  have hclock : ∀ t ∈ opTimes ops, (opTimes ops).headD 0 ≤ t := by
    intro t ht
    cases hts : opTimes ops with
    | nil => rw [hts] at ht; cases ht
    | cons a r =>
      rw [hts] at ht
      unfold ClockMonotone at hmono
      rw [hts] at hmono
      simp only [List.headD_cons]
      rcases List.mem_cons.mp ht with h | h
      · subst h; exact Int.le_refl _
      · exact (List.pairwise_cons.mp hmono).1 t h
  obtain ⟨_, _, q, hinv, _, hN, _, _⟩ :=
    run_sim maxEntries maxAge ops _ _ _ (sim_init maxEntries maxAge _ hcap) hclock hmono
  intro c
  have hl := liveLen_eq _ q hinv
  have hq := hinv.ring.hlen
  rw [hN] at hq
  refine ⟨by rw [hl]; omega, by rw [hl]; exact dict_length_le _ q hinv.dc,
    by rw [hl]; exact count_length_le _ q hinv.dc⟩

example : (runImplFrom { cache := Cache.new 3 10, inval := [] }
            [.set 1 0 1, .set 2 0 2, .set 3 0 3, .set 4 1 4]).1.cache.liveLen = 2 := by decide

/-! ## the lock discipline gives atomicity -/

/-- If every access of every operation to the shared state lies inside one acquire…release section
    of the lock, then every interleaving that runs to completion ends in the state (shared state
    and every thread's own state) of some serial execution of whole operations. -/
theorem lock_gives_atomicity {σ ρ : Type} (P : Nat → List (List (Act σ ρ)))
    (hwf : AllSharedAccessInsideLock P) (s0 : σ) (l0 : Nat → ρ) (c : Cfg σ ρ)
    (hrun : Steps (initCfg P s0 l0) c) (hfin : Final c) :
    ∃ order : List Nat,
      (serialRun order (initSCfg P s0 l0)).sh = c.sh ∧
      (∀ t, ((serialRun order (initSCfg P s0 l0)).th t).loc = (c.th t).loc) ∧
      (∀ t, ((serialRun order (initSCfg P s0 l0)).th t).ops = []) := by
  obtain ⟨order, hrel⟩ := steps_sim _ c (initSCfg P s0 l0) (rel_init P hwf s0 l0) hrun
  exact ⟨order, rel_final c _ hrel hfin⟩

/-- non-vacuity: two threads add to a shared counter under the lock; thread 1 performs its
    thread-local step while thread 0 holds the lock.  The interleaved run is complete and the
    program satisfies the lock discipline. -/
example : ∃ c : Cfg Nat Nat,
    Steps (initCfg (fun t => if t < 2 then [[Act.loc (· + 10), Act.acq, Act.sh (fun s l => (s + 1, l + s)), Act.rel]]
                             else []) 0 (fun _ => 0)) c ∧
    Final c ∧ c.sh = 2 ∧ (c.th 0).loc = 10 ∧ (c.th 1).loc = 11 := by
  refine ⟨_, Steps.tail (Steps.tail (Steps.tail (Steps.tail (Steps.tail (Steps.tail (Steps.tail
    (Steps.tail (Steps.tail (Steps.tail (Steps.refl _)
      (Step.loc _ 0 _ _ _ rfl)) (Step.acq _ 0 _ _ rfl rfl)) (Step.loc _ 1 _ _ _ rfl))
      (Step.sh _ 0 _ _ _ rfl)) (Step.rel _ 0 _ _ rfl rfl)) (Step.acq _ 1 _ _ rfl rfl))
      (Step.endOp _ 0 _ rfl)) (Step.sh _ 1 _ _ _ rfl)) (Step.rel _ 1 _ _ rfl rfl))
      (Step.endOp _ 1 _ rfl), ?_, rfl, rfl, rfl⟩
  intro t
  by_cases h0 : t = 0
  · subst h0; rfl
  · by_cases h1 : t = 1
    · subst h1; rfl
    · have : ¬ t < 2 := by omega
      simp only [setTh, h0, h1, initCfg, this, if_false]

example : AllSharedAccessInsideLock (σ := Nat) (ρ := Nat)
    (fun t => if t < 2 then [[Act.loc (· + 10), Act.acq, Act.sh (fun s l => (s + 1, l + s)), Act.rel]] else []) := by
  intro t op hop
  dsimp only at hop
  split at hop
  · simp at hop; subst hop; rfl
  · simp at hop

/-- without the lock the conclusion fails: `shapeOK` rejects a shared access outside a section -/
example : shapeOK 0 [Kind.loc, Kind.sh, Kind.acq, Kind.sh, Kind.rel] = false := by decide

/-! ## the lock discipline of the real classes (generated from the source on every run) -/

/-- `SessionCache.__getitem__/__setitem__` (with `_purge`, `_remove` inlined): every access to a
    field some operation changes, and every clock reading, lies inside the one `self.lock` section -/
theorem sessioncache_lock_discipline : classOK Gen.Locks.sessionCache = true := by decide

/-- `Python_RSAKey._rawPrivateKeyOp`: the blinding pair is read and updated inside `with self._lock` -/
theorem rsakey_lock_discipline : classOK Gen.Locks.pythonRSAKey = true := by decide

/-- `VerifierDB` / `BaseDB` get, set, del, contains, check, keys: every access to the database
    object lies inside the `self.lock` section -/
theorem verifierdb_lock_discipline : classOK Gen.Locks.verifierDB = true := by decide

example : (shapeOf Gen.Locks.sessionCache Gen.Locks.sessionCache_setitem).length > 3 := by decide

/-! ## the cache under every interleaving -/

/-- Threads calling get / set on one cache.  `sem` is any statement-level semantics of the two
    methods whose action kinds are the ones generated from the source (`hshape`) and whose
    sequential composition is the sequential model of the call (`hseq`: what the sequential
    correspondence checks).  Then every complete interleaving is explained by one serial history
    `hist`: it contains every thread's calls in program order, every thread observed exactly the
    results recorded in it, its clock readings never go back, and its results are those of the
    specification — the session last stored under the ID iff young enough, valid and not evicted. -/
theorem concurrent_cache_correct {ρ : Type} (res : ρ → List Out) (maxEntries : Nat)
    (maxAge clock0 : Int) (hcap : 1 ≤ maxEntries)
    (sem : COp → List (Act Shared ρ))
    (hshape : ∀ o, kinds (sem o) = match o with
        | .set _ _ _ => shapeOf Gen.Locks.sessionCache Gen.Locks.sessionCache_setitem
        | .get _ _ => shapeOf Gen.Locks.sessionCache Gen.Locks.sessionCache_getitem)
    (hseq : ∀ o x l, (runActs (sem o) (x, l)).1 = (stepD o x).1 ∧
                     res (runActs (sem o) (x, l)).2 = res l ++ [(stepD o x).2])
    (T : Nat → List COp) (l0 : Nat → ρ) (hl0 : ∀ t, res (l0 t) = [])
    (c : Cfg Shared ρ)
    (hrun : Steps (initCfg (fun t => (T t).map sem)
                    ⟨{ cache := Cache.new maxEntries maxAge, inval := [] }, clock0⟩ l0) c)
    (hfin : Final c) :
    ∃ hist : List Event,
      (∀ t, (ofThread t hist).map (·.call) = T t) ∧
      (∀ t, res (c.th t).loc = (ofThread t hist).map (·.out)) ∧
      ClockMonotone (hist.map Event.op) ∧
      hist.map (·.out) = runSpec maxEntries maxAge (hist.map Event.op) := by
  -- the generated shapes satisfy the lock discipline
  have hwf : AllSharedAccessInsideLock (fun t => (T t).map sem) := by
    intro t op hop
    obtain ⟨o, _, rfl⟩ := List.mem_map.mp hop
    rw [hshape o]
    cases o with
    | set id dt s =>
      show shapeOK 0 (shapeOf Gen.Locks.sessionCache Gen.Locks.sessionCache_setitem) = true
      decide
    | get id dt =>
      show shapeOK 0 (shapeOf Gen.Locks.sessionCache Gen.Locks.sessionCache_getitem) = true
      decide
  obtain ⟨order, hsh, hloc, hops⟩ := lock_gives_atomicity _ hwf _ l0 c hrun hfin
  -- the serial run is a history of the sequential model
  have h0 : Hist res sem T { cache := Cache.new maxEntries maxAge, inval := [] }
      (initSCfg (fun t => (T t).map sem)
        ⟨{ cache := Cache.new maxEntries maxAge, inval := [] }, clock0⟩ l0) [] := by
    refine ⟨⟨T, fun t => rfl, fun t => by simp [ofThread]⟩, fun t => by
        show res (l0 t) = List.map (·.out) (ofThread t [])
        simpa [ofThread] using hl0 t,
      rfl, by simp [opTimes], by intro x hx; simp [opTimes] at hx⟩
  obtain ⟨hist, hh⟩ := hist_run res sem T _ hseq order _ [] h0
  obtain ⟨rem, hrem, hT⟩ := hh.rem
  have hremnil : ∀ t, rem t = [] := by
    intro t
    have := hops t
    rw [hrem t] at this
    exact List.map_eq_nil_iff.mp this
  refine ⟨hist, ?_, ?_, hh.mono, ?_⟩
  · intro t
    have := hT t
    rw [hremnil t, List.append_nil] at this
    exact this
  · intro t
    rw [← hloc t]
    exact hh.outs t
  · have hrun' := hh.run
    have href := cache_refines_spec maxEntries maxAge (hist.map Event.op) hcap hh.mono
    unfold runImpl at href
    rw [hrun'] at href
    exact href

/-! ## private-key operations on a shared key under every interleaving -/

/-- Generic form: operations on a lock-protected object that keep an invariant `good` of the
    shared state and return `correct o` whenever the invariant holds (and the call's arguments
    satisfy `ok`).  `sem` is any statement-level semantics with the action kinds generated from
    `_rawPrivateKeyOp` and `stepR` as sequential composition.  After every complete interleaving
    the invariant holds and every thread got exactly the correct results of its calls, in order. -/
theorem lock_protected_invariant {σ ρ ω : Type} (res : ρ → List Nat) (good : σ → Prop)
    (ok : ω → Prop) (stepR : ω → σ → σ × Nat) (correct : ω → Nat)
    (hgood : ∀ o s, ok o → good s → good (stepR o s).1 ∧ (stepR o s).2 = correct o)
    (sem : ω → List (Act σ ρ))
    (hshape : ∀ o, kinds (sem o) =
        shapeOf Gen.Locks.pythonRSAKey Gen.Locks.pythonRSAKey_rawPrivateKeyOp)
    (hseq : ∀ o s l, (runActs (sem o) (s, l)).1 = (stepR o s).1 ∧
                     res (runActs (sem o) (s, l)).2 = res l ++ [(stepR o s).2])
    (T : Nat → List ω) (hT : ∀ t, ∀ o ∈ T t, ok o)
    (s0 : σ) (hs0 : good s0) (l0 : Nat → ρ) (hl0 : ∀ t, res (l0 t) = [])
    (c : Cfg σ ρ) (hrun : Steps (initCfg (fun t => (T t).map sem) s0 l0) c) (hfin : Final c) :
    good c.sh ∧ ∀ t, res (c.th t).loc = (T t).map correct := by
  have hwf : AllSharedAccessInsideLock (fun t => (T t).map sem) := by
    intro t op hop
    obtain ⟨m, _, rfl⟩ := List.mem_map.mp hop
    rw [hshape m]
    decide
  obtain ⟨order, hsh, hloc, hops⟩ := lock_gives_atomicity _ hwf s0 l0 c hrun hfin
  have h0 : InvHist res sem correct ok T good (initSCfg (fun t => (T t).map sem) s0 l0) :=
    ⟨hs0, T, fun t => rfl, hT, fun t => by
      show res (l0 t) ++ _ = _
      rw [hl0 t]; rfl⟩
  have hh := invHist_run res sem correct ok T good stepR hgood hseq order _ h0
  obtain ⟨rem, hrem, _, hTT⟩ := hh.rem
  refine ⟨hsh ▸ hh.good, ?_⟩
  intro t
  have hnil : rem t = [] := by
    have := hops t
    rw [hrem t] at this
    exact List.map_eq_nil_iff.mp this
  have := hTT t
  rw [hnil, hloc t] at this
  simpa using this

/-- Any number of threads, each performing any number of private operations
    `key._rawPrivateKeyOp(m)` on one shared key.  The shared state is the blinding pair
    (`Tls.Rsa.Blind`, C10's model); a call is (random number drawn if the pair is unset, message).
    For a well-formed key (C10's `ValidKey`: p ≠ q primes > 2, n = p·q, e·d ≡ 1, CRT exponents and
    qInv consistent), an initial pair that is unset or consistent, and invertible first
    unblinders: `sem` is any statement-level semantics of the method whose action kinds are the
    ones generated from the source and whose sequential composition is C10's
    `rawPrivateKeyOp` (locked section = `blindStep`, then blind / CRT helper / unblind).
    Under EVERY interleaving every result equals `m^d mod n` and the pair stays consistent
    (`blinder · unblinder^e ≡ 1 (mod n)`).  No algebra is assumed: it is C10's
    `rawPrivateKeyOp_root` / `root_unique` / `blindStep_spec` (TlsProofs/RsaCorrect.lean). -/
theorem concurrent_rsa_correct {ρ : Type} (res : ρ → List Nat) (k : Rsa.PrivKey)
    (vk : Rsa.ValidKey k)
    (sem : Rsa.Call → List (Act Rsa.Blind ρ))
    (hshape : ∀ o, kinds (sem o) =
        shapeOf Gen.Locks.pythonRSAKey Gen.Locks.pythonRSAKey_rawPrivateKeyOp)
    (hseq : ∀ (o : Rsa.Call) s l,
        (runActs (sem o) (s, l)).1 = (Rsa.rawPrivateKeyOp k s o.1 o.2).2 ∧
        res (runActs (sem o) (s, l)).2 = res l ++ [(Rsa.rawPrivateKeyOp k s o.1 o.2).1])
    (T : Nat → List Rsa.Call)
    (hrnd : ∀ t, ∀ o ∈ T t, Rsa.invMod o.1 k.pub.n * o.1 % k.pub.n = 1)
    (s0 : Rsa.Blind) (hs0 : Rsa.BlindOk k s0) (l0 : Nat → ρ) (hl0 : ∀ t, res (l0 t) = [])
    (c : Cfg Rsa.Blind ρ) (hrun : Steps (initCfg (fun t => (T t).map sem) s0 l0) c)
    (hfin : Final c) :
    Rsa.BlindOk k c.sh ∧ ∀ t, res (c.th t).loc = (T t).map (fun o => o.2 ^ k.d % k.pub.n) :=
  lock_protected_invariant res (Rsa.BlindOk k) (Rsa.CallOk k) (Rsa.callStep k) (Rsa.callCorrect k)
    (fun o s ho hs => Rsa.callStep_good vk o s ho hs) sem hshape hseq T hrnd s0 hs0 l0 hl0 c hrun hfin

/-- non-vacuity: a well-formed key, a fresh pair and calls with invertible random numbers exist,
    and C10's model really computes m^d mod n on them -/
example : Rsa.ValidKey Rsa.toyKey ∧ Rsa.BlindOk Rsa.toyKey ⟨0, 0⟩ ∧
    (∀ o ∈ [((2, 3) : Rsa.Call), (4, 17)], Rsa.invMod o.1 Rsa.toyKey.pub.n * o.1 % Rsa.toyKey.pub.n = 1) ∧
    (Rsa.rawPrivateKeyOp Rsa.toyKey ⟨0, 0⟩ 2 3).1 = 3 ^ 5 % 35 :=
  ⟨Rsa.toyKey_valid, Or.inl rfl, by decide, by decide⟩

/-! ## the verifier database (BaseDB / VerifierDB) -/

/-- Sequentially, for an in-memory or on-disk database and every history of create / get / set /
    del / contains / keys / check in which callers store and delete user names only, every result
    of the implementation model equals the specification's, whose state is the user entries alone:
    the internal records (`--Reserved--type` written by `create()` on disk) are invisible. -/
theorem db_refines_spec (E : Db.Env) (hT : E.resv E.typeKey = true) (onDisk : Bool)
    (ops : List Db.Op) (hw : ∀ op ∈ ops, Db.userWrite E op = true) :
    (Db.runFrom E (Db.DB.new onDisk) ops).2 = (Db.specFrom E (Db.Spec.new onDisk) ops).2 :=
  (Db.run_sim E hT ops _ _ (Db.sim_new E onDisk) hw).1

/-- Reserved names are never entries, in any state of the object: a lookup raises KeyError (or
    "DB not open"), a membership test is False, `check` raises KeyError, `keys()` lists none. -/
theorem db_reserved_never_entry (E : Db.Env) (d : Db.DB) (k : Db.Name) (hk : E.resv k = true) :
    ((d.step E (.get k)).2 = .keyError ∨ (d.step E (.get k)).2 = .assertionError) ∧
    ((d.step E (.contains k)).2 = .bool false ∨ (d.step E (.contains k)).2 = .assertionError) ∧
    (∀ p, (d.step E (.check k p)).2 = .keyError ∨ (d.step E (.check k p)).2 = .assertionError) ∧
    (∀ l, (d.step E .keys).2 = .names l → ∀ u ∈ l, E.resv u = false) := by
  refine ⟨?_, ?_, ?_, ?_⟩
  · simp only [Db.DB.step, Db.DB.getitem]; cases d.db <;> simp [hk]
  · simp only [Db.DB.step]; cases d.db <;> simp [hk]
  · intro p; simp only [Db.DB.step, Db.DB.getitem]; cases d.db <;> simp [hk]
  · intro l hl u hu
    simp only [Db.DB.step] at hl
    cases hd : d.db with
    | none => rw [hd] at hl; simp at hl
    | some m =>
      rw [hd] at hl
      simp only [Db.Out.names.injEq] at hl
      subst hl
      simpa using (List.mem_filter.mp hu).2

/-- non-vacuity: an on-disk database after `create()` physically holds the type record (name 0,
    reserved), yet it is neither returned, contained nor listed; user 5 is. -/
example :
    let E : Db.Env := { resv := fun n => n == 0, typeKey := 0, typeVal := 77, checkItem := fun v _ p => v == p }
    (Db.runFrom E (Db.DB.new true) [.get 5, .create, .get 0, .contains 0, .set 5 9, .keys, .get 5, .check 5 9, .del 5, .del 5]).2
      = [.assertionError, .done, .keyError, .bool false, .done, .names [5], .val 9, .bool true, .done, .keyError] ∧
    (Db.runFrom E (Db.DB.new true) [.create]).1.db = some [(0, 77)] := by decide

/-- Generic consequence of the lock discipline: calls on a lock-protected object whose
    statement-level semantics `sem` has well-formed shapes and the sequential model `step` as
    composition.  Every complete interleaving is explained by ONE serial history: it contains each
    thread's calls in program order, each thread observed exactly the results recorded in it, and
    results and final shared state are those of running `step` over it. -/
theorem lock_gives_linearizability {σ ρ ω ο : Type} (res : ρ → List ο) (sem : ω → List (Act σ ρ))
    (step : ω → σ → σ × ο) (T : Nat → List ω)
    (hshape : ∀ t, ∀ o ∈ T t, shapeOK 0 (kinds (sem o)) = true)
    (hseq : ∀ o x l, (runActs (sem o) (x, l)).1 = (step o x).1 ∧
                     res (runActs (sem o) (x, l)).2 = res l ++ [(step o x).2])
    (s0 : σ) (l0 : Nat → ρ) (hl0 : ∀ t, res (l0 t) = []) (c : Cfg σ ρ)
    (hrun : Steps (initCfg (fun t => (T t).map sem) s0 l0) c) (hfin : Final c) :
    ∃ hist : List (Ev ω ο),
      (∀ t, (evOf t hist).map (·.call) = T t) ∧
      (∀ t, res (c.th t).loc = (evOf t hist).map (·.out)) ∧
      runSeq step s0 (hist.map (·.call)) = (c.sh, hist.map (·.out)) := by
  have hwf : AllSharedAccessInsideLock (fun t => (T t).map sem) := by
    intro t op hop
    obtain ⟨o, ho, rfl⟩ := List.mem_map.mp hop
    exact hshape t o ho
  obtain ⟨order, hsh, hloc, hops⟩ := lock_gives_atomicity _ hwf s0 l0 c hrun hfin
  have h0 : LinHist res sem step T s0 (initSCfg (fun t => (T t).map sem) s0 l0) [] :=
    ⟨⟨T, fun t => rfl, fun t => by simp [evOf]⟩, fun t => by
        show res (l0 t) = List.map (·.out) (evOf t [])
        simpa [evOf] using hl0 t, rfl⟩
  obtain ⟨hist, hh⟩ := linHist_run res sem step T s0 hseq order _ [] h0
  obtain ⟨rem, hrem, hT⟩ := hh.rem
  have hremnil : ∀ t, rem t = [] := by
    intro t
    have := hops t
    rw [hrem t] at this
    exact List.map_eq_nil_iff.mp this
  refine ⟨hist, ?_, ?_, ?_⟩
  · intro t
    have := hT t
    rw [hremnil t, List.append_nil] at this
    exact this
  · intro t
    rw [← hloc t]; exact hh.outs t
  · rw [← hsh]; exact hh.run

/-- the generated shape of the method behind every database call (all but the setup method
    `create`) satisfies the lock discipline -/
theorem verifierdb_call_shapes (o : Db.Op) (h : o ≠ .create) : shapeOK 0 (Db.callShape o) = true := by
  cases o with
  | create => exact absurd rfl h
  | get k => show shapeOK 0 (shapeOf Gen.Locks.verifierDB Gen.Locks.verifierDB_BaseDB_getitem) = true; decide
  | set k v => show shapeOK 0 (shapeOf Gen.Locks.verifierDB Gen.Locks.verifierDB_VerifierDB_setitem) = true; decide
  | del k => show shapeOK 0 (shapeOf Gen.Locks.verifierDB Gen.Locks.verifierDB_BaseDB_delitem) = true; decide
  | contains k => show shapeOK 0 (shapeOf Gen.Locks.verifierDB Gen.Locks.verifierDB_BaseDB_contains) = true; decide
  | keys => show shapeOK 0 (shapeOf Gen.Locks.verifierDB Gen.Locks.verifierDB_BaseDB_keys) = true; decide
  | check k p => show shapeOK 0 (shapeOf Gen.Locks.verifierDB Gen.Locks.verifierDB_BaseDB_check) = true; decide

/-- Threads calling get / set / del / contains / keys / check on one open verifier database
    (`create`/`open` are setup and excluded; stores and deletes use user names).  `sem` is any
    statement-level semantics whose action kinds are those generated from basedb.py /
    verifierdb.py for the method of each call and whose sequential composition is the BaseDB
    model.  Every complete interleaving is explained by one serial history whose results are the
    specification's: a plain mapping of user entries in which reserved names never appear. -/
theorem concurrent_db_correct {ρ : Type} (E : Db.Env) (hT : E.resv E.typeKey = true)
    (res : ρ → List Db.Out) (sem : Db.Op → List (Act Db.DB ρ))
    (hshape : ∀ o, kinds (sem o) = Db.callShape o)
    (hseq : ∀ o x l, (runActs (sem o) (x, l)).1 = (Db.DB.step E x o).1 ∧
                     res (runActs (sem o) (x, l)).2 = res l ++ [(Db.DB.step E x o).2])
    (T : Nat → List Db.Op) (hcreate : ∀ t, ∀ o ∈ T t, o ≠ .create)
    (hw : ∀ t, ∀ o ∈ T t, Db.userWrite E o = true)
    (d0 : Db.DB) (s0 : Db.Spec) (hsim : Db.Sim E d0 s0)
    (l0 : Nat → ρ) (hl0 : ∀ t, res (l0 t) = []) (c : Cfg Db.DB ρ)
    (hrun : Steps (initCfg (fun t => (T t).map sem) d0 l0) c) (hfin : Final c) :
    ∃ hist : List (Ev Db.Op Db.Out),
      (∀ t, (evOf t hist).map (·.call) = T t) ∧
      (∀ t, res (c.th t).loc = (evOf t hist).map (·.out)) ∧
      hist.map (·.out) = (Db.specFrom E s0 (hist.map (·.call))).2 := by
  obtain ⟨hist, h1, h2, h3⟩ := lock_gives_linearizability res sem (fun o x => Db.DB.step E x o) T
    (fun t o ho => by rw [hshape o]; exact verifierdb_call_shapes o (hcreate t o ho)) hseq d0 l0 hl0 c hrun hfin
  refine ⟨hist, h1, h2, ?_⟩
  have hmem : ∀ op ∈ hist.map (·.call), Db.userWrite E op = true := by
    intro op hop
    obtain ⟨e, he, rfl⟩ := List.mem_map.mp hop
    have : e ∈ evOf e.thread hist := by simp [evOf, he]
    have : e.call ∈ T e.thread := by
      rw [← h1 e.thread]; exact List.mem_map.mpr ⟨e, this, rfl⟩
    exact hw _ _ this
  have href := (Db.run_sim E hT (hist.map (·.call)) d0 s0 hsim hmem).1
  rw [Db.runFrom_eq_runSeq, h3] at href
  exact href

end Tls.C18
