import TlsModel.IO
/-
  C14 helper lemmas: the Defragmenter / _getNextRecord deliver the messages of the concatenated
  byte stream, however it was cut into records.  Core Lean only.
-/
namespace Tls.IO

/-! ## Defragmenter: the messages delivered are those of the concatenated stream -/

/-- greedy split of a byte stream into complete messages (as sized by `h`) and the remainder -/
def splitFuel (h : Handler) : Nat → Bytes → List Bytes × Bytes
  | 0, buf => ([], buf)
  | fuel + 1, buf =>
    match h.size buf with
    | none => ([], buf)
    | some n =>
      let r := splitFuel h fuel (buf.drop n)
      (buf.take n :: r.1, r.2)

def splitAll (h : Handler) (buf : Bytes) : List Bytes × Bytes := splitFuel h (buf.length + 1) buf

/-- the guards of add_static_size / add_dynamic_size -/
def Handler.Pos : Handler → Prop
  | .static size => 1 ≤ size
  | .dynamic _ sos => 1 ≤ sos

theorem Handler.size_bounds (h : Handler) (hp : h.Pos) (c : Bytes) (n : Nat)
    (hs : h.size c = some n) : 1 ≤ n ∧ n ≤ c.length := by
  cases h with
  | static size =>
    simp only [Handler.size] at hs
    split at hs
    · simp at hs
    · simp at hs; subst hs; exact ⟨hp, by omega⟩
  | dynamic off sos =>
    simp only [Handler.size] at hs
    split at hs
    · simp at hs
    · split at hs
      · simp at hs
      · simp at hs
        subst hs
        have : 1 ≤ sos := hp
        omega

theorem Handler.size_append (h : Handler) (c x : Bytes) (n : Nat)
    (hs : h.size c = some n) : h.size (c ++ x) = some n := by
  cases h with
  | static size =>
    simp only [Handler.size] at hs ⊢
    split at hs
    · simp at hs
    · rename_i h1
      simp at hs; subst hs
      have : ¬ (c ++ x).length < size := by simp; omega
      rw [if_neg this]
  | dynamic off sos =>
    simp only [Handler.size] at hs ⊢
    split at hs
    · simp at hs
    · rename_i h1
      split at hs
      · simp at hs
      · rename_i h2
        simp at hs
        have e1 : ((c ++ x).drop off).take sos = (c.drop off).take sos := by
          rw [List.drop_append_of_le_length (by omega)]
          rw [List.take_append_of_le_length (by simp; omega)]
        have : ¬ (c ++ x).length < off + sos := by simp; omega
        simp only [this, if_false, e1]
        have : ¬ (c ++ x).length - (off + sos) < beDecode ((c.drop off).take sos) := by
          simp; omega
        simp only [this, if_false]
        simp [hs]

theorem splitFuel_fuel (h : Handler) (hp : h.Pos) :
    ∀ (f1 f2 : Nat) (buf : Bytes), buf.length < f1 → buf.length < f2 →
      splitFuel h f1 buf = splitFuel h f2 buf := by
  intro f1
  induction f1 with
  | zero => intro f2 buf h1; omega
  | succ f1 ih =>
    intro f2 buf h1 h2
    cases f2 with
    | zero => omega
    | succ f2 =>
      simp only [splitFuel]
      cases hs : h.size buf with
      | none => rfl
      | some n =>
        have ⟨hn1, hn2⟩ := h.size_bounds hp buf n hs
        simp only
        rw [ih f2 (buf.drop n) (by simp; omega) (by simp; omega)]

theorem splitAll_none (h : Handler) (c : Bytes) (hs : h.size c = none) : splitAll h c = ([], c) := by
  simp [splitAll, splitFuel, hs]

theorem splitAll_some (h : Handler) (hp : h.Pos) (c : Bytes) (n : Nat) (hs : h.size c = some n) :
    splitAll h c = (c.take n :: (splitAll h (c.drop n)).1, (splitAll h (c.drop n)).2) := by
  have ⟨hn1, hn2⟩ := h.size_bounds hp c n hs
  have e : splitAll h c =
      (c.take n :: (splitFuel h c.length (c.drop n)).1, (splitFuel h c.length (c.drop n)).2) := by
    simp only [splitAll, splitFuel, hs]
  rw [e]
  unfold splitAll
  rw [splitFuel_fuel h hp c.length ((c.drop n).length + 1) (c.drop n) (by simp; omega) (by omega)]

/-- the central fact: splitting a stream that arrives in two parts = splitting the first part,
    then splitting its remainder followed by the second part -/
theorem splitAll_append (h : Handler) (hp : h.Pos) :
    ∀ (k : Nat) (a b : Bytes), a.length ≤ k →
      splitAll h (a ++ b) =
        ((splitAll h a).1 ++ (splitAll h ((splitAll h a).2 ++ b)).1,
         (splitAll h ((splitAll h a).2 ++ b)).2) := by
  intro k
  induction k with
  | zero =>
    intro a b ha
    have : a = [] := List.length_eq_zero_iff.mp (by omega)
    subst this
    cases hs : h.size [] with
    | none => simp [splitAll_none h [] hs]
    | some n =>
      have := h.size_bounds hp [] n hs
      simp at this; omega
  | succ k ih =>
    intro a b ha
    cases hs : h.size a with
    | none => simp [splitAll_none h a hs]
    | some n =>
      have ⟨hn1, hn2⟩ := h.size_bounds hp a n hs
      have hs' := h.size_append a b n hs
      rw [splitAll_some h hp (a ++ b) n hs', splitAll_some h hp a n hs]
      have e1 : (a ++ b).take n = a.take n := List.take_append_of_le_length hn2
      have e2 : (a ++ b).drop n = a.drop n ++ b := List.drop_append_of_le_length hn2
      rw [e1, e2, ih (a.drop n) b (by simp; omega)]
      simp

/-- the TLS defragmenter with the given buffer contents -/
def tls3 (b20 b21 b22 : Bytes) : Defrag :=
  { priorities := [20, 21, 22],
    buffers := [(20, b20), (21, b21), (22, b22)],
    decoders := [(20, .static 1), (21, .static 2), (22, .dynamic 1 3)] }

theorem tlsDefrag_eq : tlsDefrag = tls3 [] [] [] := rfl

/-- the handshake size handler: type(1) length(3) body -/
def hsHandler : Handler := .dynamic 1 3

theorem hsHandler_pos : hsHandler.Pos := by simp [hsHandler, Handler.Pos]

theorem tls3_addData22 (c x : Bytes) :
    (tls3 [] [] c).addData 22 x = .ok (tls3 [] [] (c ++ x)) := by
  simp [Defrag.addData, tls3, List.lookup, assocSet]

theorem tls3_getMessage (c : Bytes) :
    (tls3 [] [] c).getMessage =
      match hsHandler.size c with
      | none => .ok (none, tls3 [] [] c)
      | some n => .ok (some (22, c.take n), tls3 [] [] (c.drop n)) := by
  have h20 : (Handler.static 1).size [] = none := by simp [Handler.size]
  have h21 : (Handler.static 2).size [] = none := by simp [Handler.size]
  simp [Defrag.getMessage, tls3, Defrag.getMessageLoop, List.lookup, hsHandler, h20, h21]
  cases (Handler.dynamic 1 3).size c <;> simp [assocSet]

def hsRecs (frags : List Bytes) : List Rec := frags.map fun f => { type := 22, ssl2 := false, data := f }

theorem getNextRecord_nil (tls13 : Bool) (c : Bytes) :
    getNextRecord tls13 (tls3 [] [] c) [] =
      match hsHandler.size c with
      | none => .ok (none, tls3 [] [] c, [])
      | some n => .ok (some (.msg 22 (c.take n)), tls3 [] [] (c.drop n), []) := by
  cases hs : hsHandler.size c <;> simp [getNextRecord, tls3_getMessage, hs]

theorem getNextRecord_cons (tls13 : Bool) (c f : Bytes) (fs : List Bytes) (hf : f ≠ []) :
    getNextRecord tls13 (tls3 [] [] c) (hsRecs (f :: fs)) =
      match hsHandler.size c with
      | none => getNextRecord tls13 (tls3 [] [] (c ++ f)) (hsRecs fs)
      | some n => .ok (some (.msg 22 (c.take n)), tls3 [] [] (c.drop n), hsRecs (f :: fs)) := by
  have hl : f.length ≠ 0 := fun h => hf (List.length_eq_zero_iff.mp h)
  cases hs : hsHandler.size c <;>
    simp [hsRecs, getNextRecord, tls3_getMessage, hs, fromSocketCheck, hl, contentTypeAll, tls3_addData22]

/-- bound used for the fuel of `getAll` -/
def fragMeasure (c : Bytes) (frags : List Bytes) : Nat :=
  c.length + (frags.map fun f => f.length + 1).sum

theorem getAll_hs (tls13 : Bool) :
    ∀ (fuel : Nat) (frags : List Bytes) (c : Bytes), (∀ f ∈ frags, f ≠ []) →
      fragMeasure c frags < fuel →
      getAll tls13 fuel (tls3 [] [] c) (hsRecs frags) =
        ((splitAll hsHandler (c ++ frags.flatten)).1.map (GOut.msg 22), none,
         tls3 [] [] (splitAll hsHandler (c ++ frags.flatten)).2) := by
  intro fuel
  induction fuel with
  | zero => intro frags c _ h; omega
  | succ fuel ih =>
    intro frags
    induction frags with
    | nil =>
      intro c _ hm
      simp only [hsRecs, List.map_nil, getAll, getNextRecord_nil, List.flatten_nil, List.append_nil]
      cases hs : hsHandler.size c with
      | none => simp [splitAll_none _ _ hs]
      | some n =>
        have ⟨hn1, hn2⟩ := hsHandler.size_bounds hsHandler_pos c n hs
        simp only
        have := ih [] (c.drop n) (by simp) (by simp [fragMeasure] at hm ⊢; omega)
        simp only [hsRecs, List.map_nil, List.flatten_nil, List.append_nil] at this
        rw [this, splitAll_some _ hsHandler_pos c n hs]
        simp
    | cons f fs ihf =>
      intro c hne hm
      have hf : f ≠ [] := hne f (by simp)
      simp only [getAll, getNextRecord_cons tls13 c f fs hf]
      cases hs : hsHandler.size c with
      | none =>
        simp only
        have := ihf (c ++ f) (fun g hg => hne g (by simp [hg])) (by
          simp [fragMeasure] at hm ⊢; omega)
        simp only [getAll] at this
        cases hg : getNextRecord tls13 (tls3 [] [] (c ++ f)) (hsRecs fs) with
        | error e => rw [hg] at this; simp at this
        | ok v =>
          rw [hg] at this
          obtain ⟨o, d', recs'⟩ := v
          cases o with
          | none => simp only at this ⊢; rw [this]; simp [List.append_assoc]
          | some g => simp only at this ⊢; rw [this]; simp [List.append_assoc]
      | some n =>
        have ⟨hn1, hn2⟩ := hsHandler.size_bounds hsHandler_pos c n hs
        simp only
        have := ih (f :: fs) (c.drop n) hne (by simp [fragMeasure] at hm ⊢; omega)
        rw [this]
        have hs' := hsHandler.size_append c (f :: fs).flatten n hs
        rw [splitAll_some _ hsHandler_pos (c ++ (f :: fs).flatten) n hs']
        have e1 : (c ++ (f :: fs).flatten).take n = c.take n := List.take_append_of_le_length hn2
        have e2 : (c ++ (f :: fs).flatten).drop n = c.drop n ++ (f :: fs).flatten :=
          List.drop_append_of_le_length hn2
        rw [e1, e2]
        simp

/-- `m` is exactly one complete handshake message (type, 24-bit length, body of that length) -/
def WFMsg (m : Bytes) : Prop := hsHandler.size m = some m.length

theorem splitAll_wellformed :
    ∀ (msgs : List Bytes), (∀ m ∈ msgs, WFMsg m) → splitAll hsHandler msgs.flatten = (msgs, []) := by
  intro msgs
  induction msgs with
  | nil =>
    intro _
    have : hsHandler.size [] = none := by simp [hsHandler, Handler.size]
    simpa using splitAll_none _ _ this
  | cons m ms ih =>
    intro h
    have hm : hsHandler.size m = some m.length := h m (by simp)
    have hs := hsHandler.size_append m ms.flatten m.length hm
    rw [List.flatten_cons, splitAll_some _ hsHandler_pos _ _ hs]
    simp [ih (fun x hx => h x (by simp [hx]))]

/-- a handshake message built from a type byte and a body shorter than 2^24 -/
def mkMsg (t : UInt8) (body : Bytes) : Bytes := t :: beEncode 3 body.length ++ body

theorem beDecode_beEncode3 (n : Nat) (h : n < 2 ^ 24) : beDecode (beEncode 3 n) = n := by
  simp [beEncode, beDecode]
  omega

theorem mkMsg_wf (t : UInt8) (body : Bytes) (h : body.length < 2 ^ 24) : WFMsg (mkMsg t body) := by
  have hl : (beEncode 3 body.length).length = 3 := by simp [beEncode]
  have e : ((mkMsg t body).drop 1).take 3 = beEncode 3 body.length := by
    show ((t :: (beEncode 3 body.length ++ body)).drop 1).take 3 = _
    rw [List.drop_succ_cons, List.drop_zero, List.take_append_of_le_length (by omega),
      List.take_of_length_le (by omega)]
  have hlen : (mkMsg t body).length = 4 + body.length := by
    simp [mkMsg, hl]; omega
  unfold WFMsg hsHandler Handler.size
  simp only [e, hlen, beDecode_beEncode3 _ h]
  have h1 : ¬ (4 + body.length < 1 + 3) := by omega
  have h2 : ¬ (4 + body.length - (1 + 3) < body.length) := by omega
  simp only [h1, h2, if_false]

/-! ## sender fragmentation (`_sendMsg`) -/

theorem fragmentLoop_flatten (k : Nat) : ∀ (fuel : Nat) (buf : Bytes),
    (fragmentLoop k fuel buf).flatten = buf := by
  intro fuel
  induction fuel with
  | zero => intro buf; simp [fragmentLoop]
  | succ fuel ih =>
    intro buf
    simp only [fragmentLoop]
    split
    · simp [ih]
    · simp

theorem fragmentLoop_nonempty (k : Nat) (hk : 1 ≤ k) : ∀ (fuel : Nat) (buf : Bytes), buf ≠ [] →
    ∀ f ∈ fragmentLoop k fuel buf, f ≠ [] := by
  intro fuel
  induction fuel with
  | zero => intro buf hb f hf; simp [fragmentLoop] at hf; subst hf; exact hb
  | succ fuel ih =>
    intro buf hb f hf
    simp only [fragmentLoop] at hf
    split at hf
    · rename_i hlen
      simp at hf
      rcases hf with rfl | hf
      · intro h
        have := congrArg List.length h
        rw [List.length_take, List.length_nil] at this
        omega
      · refine ih (buf.drop k) ?_ f hf
        intro h
        have := congrArg List.length h
        simp at this
        omega
    · simp at hf; subst hf; exact hb

theorem fragmentLoop_le (k : Nat) (hk : 1 ≤ k) : ∀ (fuel : Nat) (buf : Bytes), buf.length ≤ fuel →
    ∀ f ∈ fragmentLoop k fuel buf, f.length ≤ k := by
  intro fuel
  induction fuel with
  | zero =>
    intro buf hb f hf
    simp [fragmentLoop] at hf; subst hf; omega
  | succ fuel ih =>
    intro buf hb f hf
    simp only [fragmentLoop] at hf
    split at hf
    · rename_i hlen
      simp at hf
      rcases hf with rfl | hf
      · simp; omega
      · exact ih (buf.drop k) (by simp; omega) f hf
    · rename_i hlen
      simp at hf; subst hf; omega

theorem fragmentMsg_spec (k : Nat) (hk : 1 ≤ k) (buf : Bytes) :
    (fragmentMsg k buf).flatten = buf ∧ (∀ f ∈ fragmentMsg k buf, f.length ≤ k) ∧
    (buf ≠ [] → ∀ f ∈ fragmentMsg k buf, f ≠ []) :=
  ⟨fragmentLoop_flatten k _ buf, fragmentLoop_le k hk _ buf (Nat.le_refl _),
   fun hb => fragmentLoop_nonempty k hk _ buf hb⟩

theorem flatMap_fragment_flatten (k : Nat) (bufs : List Bytes) :
    (bufs.flatMap (fragmentMsg k)).flatten = bufs.flatten := by
  induction bufs with
  | nil => simp
  | cons b bs ih => simp [List.flatMap_cons, ih, fragmentMsg, fragmentLoop_flatten]

/-- an empty handshake record is refused as soon as it is read -/
theorem empty_fragment_refused (tls13 : Bool) (c : Bytes) (rest : List Rec)
    (hs : hsHandler.size c = none) :
    getNextRecord tls13 (tls3 [] [] c) ({ type := 22, data := [] } :: rest) = .error .unexpectedMessage := by
  simp [getNextRecord, tls3_getMessage, hs, fromSocketCheck]

end Tls.IO
