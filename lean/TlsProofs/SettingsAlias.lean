import TlsModel.Settings
/-
  C19 — soundness of the alias analysis: an op list accepted by `pureOps` leaves, on every path and
  for every interpretation of the abstracted parts, the receiver's attribute bindings and every
  object reachable from the receiver unchanged.
-/
namespace Tls.Settings

variable {α : Type}

/-- objects the receiver reaches in the initial store -/
def Reach (st0 : Store α) (o : Nat) : Prop := ∃ f, st0.selfF f = some o

structure Inv (st0 st : Store α) (T : Taint) : Prop where
  selfEq : st.selfF = st0.selfF
  objsEq : ∀ o, Reach st0 o → st.objs o = st0.objs o
  untainted : ∀ f o, st.otherF f = some o → T f = false → ¬ Reach st0 o
  nextLe : st0.next ≤ st.next

theorem inv_init (st0 : Store α) : Inv st0 st0 (fun _ => true) :=
  ⟨rfl, fun _ _ => rfl, by intro f o _ h; simp at h, Nat.le_refl _⟩

theorem setF_eq (m : String → Option Nat) (f g : String) (v : Option Nat) :
    setF m f v g = if g = f then v else m g := rfl

theorem step_inv (I : Interp α) (st0 : Store α) (hwf : ∀ o, Reach st0 o → o < st0.next)
    (a : Act) (st st' : Store α) (T T' : Taint)
    (hinv : Inv st0 st T) (ht : stepTaint a T = some T') (hs : step I a st = some st') :
    Inv st0 st' T' := by
  obtain ⟨hself, hobjs, hunt, hnext⟩ := hinv
  cases a with
  | initOther fields =>
    simp only [step, Option.some.injEq] at hs
    simp only [stepTaint, Option.some.injEq] at ht
    subst hs; subst ht
    refine ⟨hself, ?_, ?_, by simp only; omega⟩
    · intro o ho
      have := hwf o ho
      have hno : ¬ (st.next ≤ o ∧ o < st.next + fields.length) := by omega
      simp only [hno, if_false]
      exact hobjs o ho
    · intro f o hf _ hr
      simp only at hf
      split at hf
      · have := hwf o hr
        simp only [Option.some.injEq] at hf
        omega
      · cases hf
  | alias dst o src =>
    simp only [step, Option.map_eq_some_iff] at hs
    obtain ⟨p, hp, rfl⟩ := hs
    cases o with
    | self =>
      simp only [stepTaint, Option.some.injEq] at ht
      subst ht
      refine ⟨hself, hobjs, ?_, hnext⟩
      intro f q hf hT
      simp only [setF_eq] at hf
      by_cases hfd : f = dst
      · simp [hfd] at hT
      · simp only [hfd, if_false] at hf hT
        exact hunt f q hf hT
    | other =>
      simp only [stepTaint, Option.some.injEq] at ht
      subst ht
      refine ⟨hself, hobjs, ?_, hnext⟩
      intro f q hf hT
      simp only [setF_eq] at hf
      by_cases hfd : f = dst
      · simp only [hfd, if_true, Option.some.injEq] at hf hT
        subst hf
        exact hunt src p hp hT
      · simp only [hfd, if_false] at hf hT
        exact hunt f q hf hT
  | copy dst o src =>
    simp only [step, Option.map_eq_some_iff] at hs
    obtain ⟨p, _, rfl⟩ := hs
    simp only [stepTaint, Option.some.injEq] at ht
    subst ht
    refine ⟨hself, ?_, ?_, by simp only; omega⟩
    · intro q hq
      have := hwf q hq
      have hne : q ≠ st.next := by omega
      simp only [setObj, hne, if_false]
      exact hobjs q hq
    · intro f q hf hT hr
      simp only [setF_eq] at hf
      by_cases hfd : f = dst
      · simp only [hfd, if_true, Option.some.injEq] at hf
        have := hwf q hr
        omega
      · simp only [hfd, if_false] at hf hT
        exact hunt f q hf hT hr
  | fresh dst k =>
    simp only [step, Option.some.injEq] at hs
    subst hs
    simp only [stepTaint, Option.some.injEq] at ht
    subst ht
    refine ⟨hself, ?_, ?_, by simp only; omega⟩
    · intro q hq
      have := hwf q hq
      have hne : q ≠ st.next := by omega
      simp only [setObj, hne, if_false]
      exact hobjs q hq
    · intro f q hf hT hr
      simp only [setF_eq] at hf
      by_cases hfd : f = dst
      · simp only [hfd, if_true, Option.some.injEq] at hf
        have := hwf q hr
        omega
      · simp only [hfd, if_false] at hf hT
        exact hunt f q hf hT hr
  | mutate o tgt k =>
    cases o with
    | self => simp [stepTaint] at ht
    | other =>
      simp only [stepTaint] at ht
      split at ht
      · cases ht
      · rename_i hT
        simp only [Option.some.injEq] at ht
        subst ht
        simp only [step, Store.lookup, Option.map_eq_some_iff] at hs
        obtain ⟨p, hp, rfl⟩ := hs
        have hnr : ¬ Reach st0 p := hunt tgt p hp (by simpa using hT)
        refine ⟨hself, ?_, hunt, hnext⟩
        intro q hq
        have hne : q ≠ p := fun h => hnr (h ▸ hq)
        simp only [setObj, hne, if_false]
        exact hobjs q hq
  | rebindSelf dst => simp [stepTaint] at ht
  | mayRaise k =>
    simp only [stepTaint, Option.some.injEq] at ht
    subst ht
    simp only [step] at hs
    split at hs
    · cases hs
    · simp only [Option.some.injEq] at hs
      subst hs
      exact ⟨hself, hobjs, hunt, hnext⟩
  | unknown w => simp [stepTaint] at ht

theorem run_inv (I : Interp α) (bits : List Bool) (st0 : Store α)
    (hwf : ∀ o, Reach st0 o → o < st0.next) :
    ∀ (ops : List AliasOp) (st : Store α) (T : Taint), Inv st0 st T → pureFrom bits ops T = true →
      ∃ T', Inv st0 (runOps I bits ops st) T' := by
  intro ops
  induction ops with
  | nil => intro st T h _; exact ⟨T, h⟩
  | cons op rest ih =>
    intro st T hinv hp
    simp only [pureFrom] at hp
    simp only [runOps]
    by_cases hg : guardsHold bits op.guards = true
    · simp only [hg, if_true] at hp ⊢
      cases ht : stepTaint op.act T with
      | none => simp [ht] at hp
      | some T' =>
        simp only [ht] at hp
        cases hs : step I op.act st with
        | none => exact ⟨T, hinv⟩
        | some st' => exact ih st' T' (step_inv I st0 hwf op.act st st' T T' hinv ht hs) hp
    · simp only [hg] at hp ⊢
      exact ih st T hinv hp

/-! ### every truth assignment of the branch conditions is enumerated by `allBits` -/

def tab : Nat → (Nat → Bool) → List Bool
  | 0, _ => []
  | n + 1, f => f 0 :: tab n (fun i => f (i + 1))

theorem tab_getD : ∀ (n : Nat) (f : Nat → Bool) (i : Nat), i < n → (tab n f).getD i false = f i := by
  intro n
  induction n with
  | zero => intro f i h; omega
  | succ n ih =>
    intro f i h
    cases i with
    | zero => simp [tab]
    | succ i =>
      simp only [tab, List.getD_cons_succ]
      exact ih (fun i => f (i + 1)) i (by omega)

theorem tab_mem : ∀ (n : Nat) (f : Nat → Bool), tab n f ∈ allBits n := by
  intro n
  induction n with
  | zero => intro f; simp [tab, allBits]
  | succ n ih =>
    intro f
    simp only [tab, allBits, List.mem_flatMap]
    refine ⟨tab n (fun i => f (i + 1)), ih _, ?_⟩
    cases f 0 <;> simp

theorem guardsHold_congr (n : Nat) (b b' : List Bool)
    (h : ∀ i, i < n → b.getD i false = b'.getD i false) :
    ∀ (gs : List (Nat × Bool)), (gs.all fun g => decide (g.1 < n)) = true →
      guardsHold b gs = guardsHold b' gs := by
  intro gs
  induction gs with
  | nil => intro _; rfl
  | cons g rest ih =>
    intro hg
    simp only [List.all_cons, Bool.and_eq_true, decide_eq_true_eq] at hg
    have := ih hg.2
    simp only [guardsHold, List.all_cons] at this ⊢
    rw [this, h g.1 hg.1]

theorem pureFrom_congr (n : Nat) (b b' : List Bool)
    (h : ∀ i, i < n → b.getD i false = b'.getD i false) :
    ∀ (ops : List AliasOp) (T : Taint), guardsBelow n ops = true → pureFrom b ops T = pureFrom b' ops T := by
  intro ops
  induction ops with
  | nil => intro _ _; rfl
  | cons op rest ih =>
    intro T hb
    simp only [guardsBelow, List.all_cons, Bool.and_eq_true] at hb
    have hrest : guardsBelow n rest = true := by simpa [guardsBelow] using hb.2
    simp only [pureFrom]
    rw [guardsHold_congr n b b' h op.guards hb.1]
    split
    · split
      · exact ih _ hrest
      · rfl
    · exact ih _ hrest

theorem pureOps_all_bits (ops : List AliasOp) (h : pureOps ops = true) (bits : List Bool) :
    pureFrom bits ops (fun _ => true) = true := by
  simp only [pureOps, Bool.and_eq_true, List.all_eq_true] at h
  obtain ⟨hb, hall⟩ := h
  have h1 := hall (tab (condBound ops) (fun i => bits.getD i false)) (tab_mem _ _)
  rw [pureFrom_congr (condBound ops) bits (tab (condBound ops) (fun i => bits.getD i false)) _ ops _ hb]
  · exact h1
  · intro i hi
    rw [tab_getD _ _ _ hi]

/-- The generic purity theorem: an accepted op list, run from any store in which the allocator's
    `next` is above everything the receiver reaches, on any path and with any behaviour of the
    abstracted parts, leaves the receiver's attribute bindings and the contents of every object
    the receiver reaches exactly as they were. -/
theorem pureOps_sound (ops : List AliasOp) (h : pureOps ops = true) (I : Interp α) (bits : List Bool)
    (st : Store α) (hwf : ∀ f o, st.selfF f = some o → o < st.next) :
    (runOps I bits ops st).selfF = st.selfF ∧
    ∀ f o, st.selfF f = some o → (runOps I bits ops st).objs o = st.objs o := by
  have hwf' : ∀ o, Reach st o → o < st.next := fun o ⟨f, hf⟩ => hwf f o hf
  obtain ⟨T', hinv⟩ := run_inv I bits st hwf' ops st _ (inv_init st) (pureOps_all_bits ops h bits)
  exact ⟨hinv.selfEq, fun f o hf => hinv.objsEq o ⟨f, hf⟩⟩

end Tls.Settings
