import TlsProofs.FmtBasic
/- Inversion lemmas: what a successful `encode` / `decode` of each constructor means. -/
set_option linter.unusedSimpArgs false
namespace Tls.Fmt
open Tls

/-! ### encode -/

theorem encode_unit_some {t v b} : encode .unit t v = some b ↔ v = .unit ∧ b = [] := by
  cases v <;> simp [encode, eq_comm]

theorem encode_uint_some {n t v b} :
    encode (.uint n) t v = some b ↔ ∃ x, v = .nat x ∧ x < 256 ^ n ∧ b = beEncode n x := by
  cases v <;> simp [encode, eq_comm]

theorem encode_bytes_some {n t v b} :
    encode (.bytes n) t v = some b ↔ v = .bytes b ∧ b.length = n := by
  cases v <;> simp [encode]
  constructor
  · rintro ⟨h, rfl⟩; exact ⟨rfl, h⟩
  · rintro ⟨rfl, h⟩; exact ⟨h, rfl⟩

theorem encode_rest_some {t v b} : encode .rest t v = some b ↔ v = .bytes b := by
  cases v <;> simp [encode]

theorem encode_pair_some {f g t v b} :
    encode (.pair f g) t v = some b ↔
      ∃ v1 v2 a c, v = .pair v1 v2 ∧ encode f t v1 = some a ∧ encode g t v2 = some c ∧ b = a ++ c := by
  cases v with
  | pair v1 v2 =>
    simp only [encode, bind, Option.bind_eq_some_iff, pure, Option.some.injEq, Val.pair.injEq]
    constructor
    · rintro ⟨a, ha, c, hc, rfl⟩; exact ⟨v1, v2, a, c, ⟨rfl, rfl⟩, ha, hc, rfl⟩
    · rintro ⟨_, _, a, c, ⟨rfl, rfl⟩, ha, hc, rfl⟩; exact ⟨a, ha, c, hc, rfl⟩
  | _ => simp [encode]

theorem encode_lenPref_some {ll f t v b} :
    encode (.lenPref ll f) t v = some b ↔
      ∃ c, encode f t v = some c ∧ c.length < 256 ^ ll ∧ b = beEncode ll c.length ++ c := by
  simp only [encode, bind, Option.bind_eq_some_iff]
  constructor
  · rintro ⟨c, hc, h⟩
    by_cases hl : c.length < 256 ^ ll
    · simp [hl] at h; exact ⟨c, hc, hl, h.symm⟩
    · simp [hl] at h
  · rintro ⟨c, hc, hl, rfl⟩; exact ⟨c, hc, by simp [hl]⟩

theorem encode_many_eq {f t v} : encode (.many f) t v = encodeMany (encode f t) v := by
  simp [encode]

theorem encode_optTail_some {f t v b} :
    encode (.optTail f) t v = some b ↔
      (v = .none ∧ b = []) ∨ ∃ w, v = .some w ∧ encode f t w = some b := by
  cases v <;> simp [encode, eq_comm]

theorem encode_tagged_some {n f t v b} :
    encode (.tagged n f) t v = some b ↔
      ∃ x w c, v = .pair (.nat x) w ∧ x < 256 ^ n ∧ encode f x w = some c ∧ b = beEncode n x ++ c := by
  cases v with
  | pair a w =>
    cases a with
    | nat x =>
      simp only [encode, bind, pure]
      constructor
      · intro h
        by_cases hx : x < 256 ^ n
        · simp only [hx, if_true, Option.bind_eq_some_iff, Option.some.injEq] at h
          obtain ⟨c, hc, rfl⟩ := h
          exact ⟨x, w, c, rfl, hx, hc, rfl⟩
        · simp [hx] at h
      · rintro ⟨x', w', c, heq, hx, hc, rfl⟩
        simp only [Val.pair.injEq, Val.nat.injEq] at heq
        obtain ⟨rfl, rfl⟩ := heq
        simp [hx, hc]
    | _ => simp [encode]
  | _ => simp [encode]

theorem encode_caseOf_eq {k f g t v} :
    encode (.caseOf k f g) t v = if t = k then encode f t v else encode g t v := by
  simp [encode]

theorem encode_fail_eq {t v} : encode .fail t v = none := by
  simp [encode]

theorem encodeMany_some {e : Val → Option Bytes} {v b} :
    encodeMany e v = some b ↔
      (v = .nil ∧ b = []) ∨
      ∃ h tl a c, v = .cons h tl ∧ e h = some a ∧ encodeMany e tl = some c ∧ b = a ++ c := by
  cases v with
  | nil => simp [encodeMany, eq_comm]
  | cons h tl =>
    simp only [encodeMany, bind, Option.bind_eq_some_iff, pure, Option.some.injEq]
    constructor
    · rintro ⟨a, ha, c, hc, rfl⟩; exact Or.inr ⟨h, tl, a, c, rfl, ha, hc, rfl⟩
    · rintro (⟨h0, _⟩ | ⟨_, _, a, c, heq, ha, hc, rfl⟩)
      · cases h0
      · simp only [Val.cons.injEq] at heq; obtain ⟨rfl, rfl⟩ := heq
        exact ⟨a, ha, c, hc, rfl⟩
  | _ => simp [encodeMany]

/-! ### decode -/

theorem decode_unit_ok {t b v r} : decode .unit t b = .ok (v, r) ↔ v = .unit ∧ r = b := by
  simp [decode, eq_comm]

theorem decode_uint_ok {n t b v r} :
    decode (.uint n) t b = .ok (v, r) ↔ n ≤ b.length ∧ v = .nat (beDecode (b.take n)) ∧ r = b.drop n := by
  simp only [decode, shorter_eq, decide_eq_true_eq]
  by_cases h : b.length < n
  · simp [h]; omega
  · simp [h, eq_comm]; omega

theorem decode_bytes_ok {n t b v r} :
    decode (.bytes n) t b = .ok (v, r) ↔ n ≤ b.length ∧ v = .bytes (b.take n) ∧ r = b.drop n := by
  simp only [decode, shorter_eq, decide_eq_true_eq]
  by_cases h : b.length < n
  · simp [h]; omega
  · simp [h, eq_comm]; omega

theorem decode_rest_ok {t b v r} : decode .rest t b = .ok (v, r) ↔ v = .bytes b ∧ r = [] := by
  simp [decode, eq_comm]

theorem decode_pair_ok {f g t b v r} :
    decode (.pair f g) t b = .ok (v, r) ↔
      ∃ v1 r1 v2, decode f t b = .ok (v1, r1) ∧ decode g t r1 = .ok (v2, r) ∧ v = .pair v1 v2 := by
  simp only [decode]
  cases hf : decode f t b with
  | error e => simp
  | ok p =>
    obtain ⟨v1, r1⟩ := p
    dsimp only
    cases hg : decode g t r1 with
    | error e =>
      simp only [reduceCtorEq, false_iff]
      rintro ⟨v1', r1', v2, h1, h2, _⟩
      simp only [Except.ok.injEq, Prod.mk.injEq] at h1
      obtain ⟨rfl, rfl⟩ := h1
      rw [hg] at h2; cases h2
    | ok q =>
      obtain ⟨v2, r2⟩ := q
      simp only [Except.ok.injEq, Prod.mk.injEq]
      constructor
      · rintro ⟨rfl, rfl⟩; exact ⟨v1, r1, v2, ⟨rfl, rfl⟩, hg, rfl⟩
      · rintro ⟨v1', r1', v2', ⟨rfl, rfl⟩, h2, rfl⟩
        rw [hg] at h2
        simp only [Except.ok.injEq, Prod.mk.injEq] at h2
        obtain ⟨rfl, rfl⟩ := h2
        exact ⟨rfl, rfl⟩

theorem decode_lenPref_ok {ll f t b v r} :
    decode (.lenPref ll f) t b = .ok (v, r) ↔
      ll ≤ b.length ∧ beDecode (b.take ll) ≤ (b.drop ll).length ∧
      decode f t ((b.drop ll).take (beDecode (b.take ll))) = .ok (v, []) ∧
      r = (b.drop ll).drop (beDecode (b.take ll)) := by
  simp only [decode, shorter_eq, decide_eq_true_eq]
  by_cases h1 : b.length < ll
  · simp [h1]; omega
  · simp only [h1, if_false]
    by_cases h2 : (b.drop ll).length < beDecode (b.take ll)
    · simp only [h2, if_true, reduceCtorEq, false_iff]
      rintro ⟨_, h, _⟩; omega
    · simp only [h2, if_false]
      cases hd : decode f t ((b.drop ll).take (beDecode (b.take ll))) with
      | error e => simp
      | ok p =>
        obtain ⟨v', r'⟩ := p
        cases r' with
        | nil =>
          simp only [Except.ok.injEq, Prod.mk.injEq]
          constructor
          · rintro ⟨rfl, rfl⟩; exact ⟨by omega, by omega, by simp, rfl⟩
          · rintro ⟨_, _, h, rfl⟩
            exact ⟨by simpa using h, rfl⟩
        | cons x xs =>
          simp only [reduceCtorEq, Except.ok.injEq, Prod.mk.injEq, false_iff]
          rintro ⟨_, _, ⟨_, h⟩, _⟩; cases h

theorem decode_lenPref_err_trailing {ll f t b v x xs}
    (h1 : ll ≤ b.length) (h2 : beDecode (b.take ll) ≤ (b.drop ll).length)
    (hd : decode f t ((b.drop ll).take (beDecode (b.take ll))) = .ok (v, x :: xs)) :
    decode (.lenPref ll f) t b = .error .trailing := by
  simp only [decode, shorter_eq, decide_eq_true_eq]
  have h1' : ¬ b.length < ll := by omega
  have h2' : ¬ (b.drop ll).length < beDecode (b.take ll) := by omega
  simp only [h1', h2', if_false, hd]

theorem decode_many_ok {f t b v r} :
    decode (.many f) t b = .ok (v, r) ↔ decodeMany (decode f t) b.length b = .ok v ∧ r = [] := by
  simp only [decode]
  cases decodeMany (decode f t) b.length b with
  | error e => simp
  | ok vs => simp [eq_comm]

theorem decode_optTail_ok {f t b v r} :
    decode (.optTail f) t b = .ok (v, r) ↔
      (b = [] ∧ v = .none ∧ r = []) ∨ (b ≠ [] ∧ ∃ w, decode f t b = .ok (w, r) ∧ v = .some w) := by
  cases b with
  | nil => simp [decode, eq_comm]
  | cons x xs =>
    simp only [decode]
    cases hd : decode f t (x :: xs) with
    | error e => simp
    | ok p =>
      obtain ⟨w, r'⟩ := p
      simp only [Except.ok.injEq, Prod.mk.injEq, reduceCtorEq, false_and, ne_eq, not_false_eq_true,
        true_and, false_or]
      constructor
      · rintro ⟨rfl, rfl⟩; exact ⟨w, ⟨rfl, rfl⟩, rfl⟩
      · rintro ⟨w', ⟨rfl, rfl⟩, rfl⟩; exact ⟨rfl, rfl⟩

theorem decode_tagged_ok {n f t b v r} :
    decode (.tagged n f) t b = .ok (v, r) ↔
      n ≤ b.length ∧ ∃ w, decode f (beDecode (b.take n)) (b.drop n) = .ok (w, r) ∧
        v = .pair (.nat (beDecode (b.take n))) w := by
  simp only [decode, shorter_eq, decide_eq_true_eq]
  by_cases h : b.length < n
  · simp [h]; omega
  · simp only [h, if_false]
    cases hd : decode f (beDecode (b.take n)) (b.drop n) with
    | error e => simp
    | ok p =>
      obtain ⟨w, r'⟩ := p
      simp only [Except.ok.injEq, Prod.mk.injEq]
      constructor
      · rintro ⟨rfl, rfl⟩; exact ⟨by omega, w, ⟨rfl, rfl⟩, rfl⟩
      · rintro ⟨_, w', ⟨rfl, rfl⟩, rfl⟩; exact ⟨rfl, rfl⟩

theorem decode_caseOf_eq {k f g t b} :
    decode (.caseOf k f g) t b = if t = k then decode f t b else decode g t b := by
  simp [decode]

theorem decode_fail_eq {t b} : decode .fail t b = .error .rejected := by
  simp [decode]

theorem decodeMany_nil {d : Bytes → Except Err (Val × Bytes)} {fuel} :
    decodeMany d fuel [] = .ok .nil := by
  cases fuel <;> simp [decodeMany]

theorem decodeMany_cons_ok {d : Bytes → Except Err (Val × Bytes)} {fuel x xs v} :
    decodeMany d fuel (x :: xs) = .ok v ↔
      ∃ fuel' h r tl, fuel = fuel' + 1 ∧ d (x :: xs) = .ok (h, r) ∧
        decodeMany d fuel' r = .ok tl ∧ v = .cons h tl := by
  cases fuel with
  | zero => simp [decodeMany]
  | succ fuel' =>
    simp only [decodeMany]
    cases hd : d (x :: xs) with
    | error e => simp
    | ok p =>
      obtain ⟨h, r⟩ := p
      dsimp only
      cases hm : decodeMany d fuel' r with
      | error e =>
        simp only [reduceCtorEq, false_iff]
        rintro ⟨f2, h2, r2, tl, hf, heq, hm2, _⟩
        simp only [Nat.add_right_cancel_iff] at hf; subst hf
        simp only [Except.ok.injEq, Prod.mk.injEq] at heq
        obtain ⟨rfl, rfl⟩ := heq
        rw [hm] at hm2; cases hm2
      | ok tl =>
        simp only [Except.ok.injEq]
        constructor
        · rintro rfl; exact ⟨fuel', h, r, tl, rfl, rfl, hm, rfl⟩
        · rintro ⟨f2, h2, r2, tl2, hf, heq, hm2, rfl⟩
          simp only [Nat.add_right_cancel_iff] at hf; subst hf
          simp only [Except.ok.injEq, Prod.mk.injEq] at heq
          obtain ⟨rfl, rfl⟩ := heq
          rw [hm] at hm2
          simp only [Except.ok.injEq] at hm2; subst hm2; rfl

end Tls.Fmt
