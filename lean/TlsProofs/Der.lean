import TlsModel.Dsa
import TlsProofs.RsaBasic
/-
  DER (python-ecdsa `der.py` as transliterated in TlsModel/Der.lean): what `encode_integer` /
  `encode_sequence` produce is read back by `remove_integer` / `remove_sequence`, for contents
  shorter than 128 bytes (short-form lengths: every DSA signature with q up to 480 bits).
-/
namespace Tls.Der
open Tls Tls.Rsa

theorem short_bits : ∀ l < 128, (UInt8.ofNat l).toNat &&& 0x80 = 0 ∧ (UInt8.ofNat l).toNat &&& 0x7F = l := by
  decide +kernel

theorem readLength_short (l : Nat) (hl : l < 0x80) (t : Bytes) :
    readLength (encodeLength l ++ t) = .ok (l, 1) := by
  have hb := short_bits l hl
  unfold encodeLength
  rw [if_pos hl]
  simp only [List.singleton_append, readLength]
  rw [if_pos hb.1, hb.2]

theorem hexBytes_ne_nil (n : Nat) : hexBytes n ≠ [] := by
  unfold hexBytes
  split
  · simp
  · rename_i h
    intro hc
    have := congrArg List.length hc
    rw [beEncode_length] at this
    have h1 := numBits_pos n h
    unfold numBytes at this
    simp at this
    omega

theorem beDecode_hexBytes (n : Nat) : beDecode (hexBytes n) = n := by
  unfold hexBytes
  split
  · subst_vars; rfl
  · exact beDecode_beEncode _ _ (lt_pow_numBytes n)

/-- the leading byte of the minimal encoding of a number needing more than one byte is not zero -/
theorem hexBytes_head_ne_zero (n : Nat) (b : UInt8) (t : Bytes) (h : hexBytes n = b :: t) (ht : t ≠ []) :
    b.toNat ≠ 0 := by
  unfold hexBytes at h
  split at h
  · simp at h; exact absurd h.2.symm (fun hc => ht hc.symm)
  · rename_i hn
    intro hb
    have hlen : (b :: t).length = numBytes n := by rw [← h, beEncode_length]
    have hd : beDecode (b :: t) = n := by rw [← h]; exact beDecode_beEncode _ _ (lt_pow_numBytes n)
    rw [beDecode_cons, hb, Nat.zero_mul, Nat.zero_add] at hd
    have hlt := beDecode_lt t
    have hge := pow_numBytes_pred_le n hn
    have : numBytes n - 1 = t.length := by simp at hlen; omega
    rw [this] at hge
    omega

/-- reading back a short-form INTEGER TLV whose content passes the sign / minimality checks -/
theorem removeInteger_tlv (msb : UInt8) (more tail : Bytes) (hl : (msb :: more).length < 0x80)
    (h1 : msb.toNat < 0x80)
    (h2 : ¬ ((msb :: more).length > 1 ∧ msb.toNat = 0 ∧
        (more.head?.map (fun smsb => decide (smsb.toNat < 0x80))).getD false = true)) :
    removeInteger (0x02 :: UInt8.ofNat (msb :: more).length :: msb :: (more ++ tail)) =
      .ok (beDecode (msb :: more), tail) := by
  have hb := short_bits (msb :: more).length hl
  simp only [removeInteger, ne_eq, not_true_eq_false, if_false, readLength]
  rw [if_pos hb.1, hb.2]
  simp only
  have c0 : ¬ (msb :: more).length > (0x02 :: UInt8.ofNat (msb :: more).length :: msb :: (more ++ tail)).length - 1 - 1 := by
    simp
  rw [if_neg c0]
  have c00 : ¬ (msb :: more).length = 0 := by simp
  rw [if_neg c00]
  have e1 : List.drop (1 + 1) (List.take (1 + 1 + (msb :: more).length)
      (0x02 :: UInt8.ofNat (msb :: more).length :: msb :: (more ++ tail))) = msb :: more := by
    have : 1 + 1 + (msb :: more).length = (more.length + 1) + 1 + 1 := by simp; omega
    rw [this]
    simp
  have e2 : List.drop (1 + 1 + (msb :: more).length)
      (0x02 :: UInt8.ofNat (msb :: more).length :: msb :: (more ++ tail)) = tail := by
    have : 1 + 1 + (msb :: more).length = (more.length + 1) + 1 + 1 := by simp; omega
    rw [this]
    simp
  rw [e1, e2]
  simp only
  have c1 : ¬ ¬ msb.toNat < 0x80 := by omega
  rw [if_neg c1, if_neg h2]

theorem hexBytes_length (r : Nat) : (hexBytes r).length = if r = 0 then 1 else numBytes r := by
  unfold hexBytes; split
  · simp
  · rw [beEncode_length]

theorem removeInteger_encodeInteger (r : Nat) (tail : Bytes) (hsz : numBytes r + 2 < 0x80) :
    removeInteger (encodeInteger r ++ tail) = .ok (r, tail) := by
  have hne := hexBytes_ne_nil r
  have hdec := beDecode_hexBytes r
  have hlen : (hexBytes r).length ≤ numBytes r + 1 := by
    rw [hexBytes_length]; split <;> omega
  unfold encodeInteger
  cases hs : hexBytes r with
  | nil => exact absurd hs hne
  | cons b t =>
    rw [hs] at hdec hlen
    simp only
    by_cases hb : b.toNat ≤ 0x7F
    · rw [if_pos hb]
      have hl : (b :: t).length < 0x80 := by omega
      unfold encodeLength
      rw [if_pos hl]
      have h2 : ¬ ((b :: t).length > 1 ∧ b.toNat = 0 ∧
          (t.head?.map (fun smsb => decide (smsb.toNat < 0x80))).getD false = true) := by
        rintro ⟨h1, h2, _⟩
        have : t ≠ [] := by intro hc; rw [hc] at h1; simp at h1
        exact hexBytes_head_ne_zero r b t hs this h2
      have := removeInteger_tlv b t tail hl (by omega) h2
      rw [hdec] at this
      simpa using this
    · rw [if_neg hb]
      have hl : (0x00 :: b :: t).length < 0x80 := by simp at hlen ⊢; omega
      have hl' : (b :: t).length + 1 < 0x80 := by simpa using hl
      unfold encodeLength
      rw [if_pos hl']
      have h2 : ¬ ((0x00 :: b :: t).length > 1 ∧ (0x00 : UInt8).toNat = 0 ∧
          (((b :: t).head?).map (fun smsb => decide (smsb.toNat < 0x80))).getD false = true) := by
        rintro ⟨_, _, h3⟩
        simp at h3; omega
      have := removeInteger_tlv 0x00 (b :: t) tail hl (by decide) h2
      have hd0 : beDecode (0x00 :: b :: t) = r := by
        rw [beDecode_cons]; simp [hdec]
      rw [hd0] at this
      simpa using this

theorem encodeInteger_length_le (r : Nat) (h : numBytes r + 2 < 0x80) : (encodeInteger r).length ≤ numBytes r + 3 := by
  have hlen : (hexBytes r).length ≤ numBytes r + 1 := by
    rw [hexBytes_length]; split <;> omega
  unfold encodeInteger
  cases hs : hexBytes r with
  | nil => simp [encodeLength]
  | cons b t =>
    rw [hs] at hlen
    simp only [List.length_cons] at hlen
    simp only
    split
    · unfold encodeLength
      rw [if_pos (by simp only [List.length_cons]; omega)]
      simp only [List.length_cons, List.length_append, List.length_nil]; omega
    · unfold encodeLength
      rw [if_pos (by simp only [List.length_cons]; omega)]
      simp only [List.length_cons, List.length_append, List.length_nil]
      have : t.length + 1 = numBytes r := by
        have := hexBytes_length r
        rw [hs] at this
        simp only [List.length_cons] at this
        split at this
        · subst_vars; simp [hexBytes] at hs; rename_i hb; rw [← hs.1] at hb; simp at hb
        · exact this
      omega

theorem removeSequence_encodeSequence (a b : Bytes) (h : a.length + b.length < 0x80) :
    removeSequence (encodeSequence [a, b]) = .ok (a ++ b, []) := by
  have hb := short_bits (a.length + b.length) h
  unfold encodeSequence
  simp only [List.map_cons, List.map_nil, List.foldl_cons, List.foldl_nil, Nat.zero_add,
    List.flatten_cons, List.flatten_nil, List.append_nil]
  unfold encodeLength
  rw [if_pos h]
  generalize hc : a ++ b = c at *
  have hcl : c.length = a.length + b.length := by rw [← hc]; simp
  rw [← hcl] at hb h ⊢
  simp only [List.singleton_append, removeSequence, ne_eq, not_true_eq_false, if_false, readLength]
  rw [if_pos hb.1, hb.2]
  simp only
  have c0 : ¬ c.length > (0x30 :: UInt8.ofNat c.length :: c).length - 1 - 1 := by simp
  rw [if_neg c0]
  have e1 : List.drop (1 + 1) (List.take (1 + 1 + c.length) (0x30 :: UInt8.ofNat c.length :: c)) = c := by
    have : 1 + 1 + c.length = c.length + 1 + 1 := by omega
    rw [this]; simp
  have e2 : List.drop (1 + 1 + c.length) (0x30 :: UInt8.ofNat c.length :: c) = [] := by
    have : 1 + 1 + c.length = c.length + 1 + 1 := by omega
    rw [this]; simp
  rw [e1, e2]

end Tls.Der

namespace Tls.Dsa
open Tls Tls.Rsa Tls.Der

theorem numBytes_le_of_lt_pow (n k : Nat) (h : n < 256 ^ k) : numBytes n ≤ k := by
  by_cases hn : n = 0
  · subst hn; simp [numBytes, numBits]
  · rcases Nat.lt_or_ge k (numBytes n) with hc | hc
    · have h1 := pow_numBytes_pred_le n hn
      have h2 : 256 ^ k ≤ 256 ^ (numBytes n - 1) := Nat.pow_le_pow_right (by omega) (by omega)
      omega
    · exact hc

/-- `verify` on what `sign` returns is `verifyRS` on the pair that was encoded (q up to 480 bits) -/
theorem verify_sign_bytes (key : Key) (k : Nat) (data : Bytes) (hq : numBytes key.q ≤ 60)
    (hr : (signRS key k data).1 < key.q) (hs : (signRS key k data).2 < key.q) :
    verify key (sign key k data) data = verifyRS key (signRS key k data).1 (signRS key k data).2 data := by
  generalize hrs : signRS key k data = rs at hr hs ⊢
  have hqb := lt_pow_numBytes key.q
  have br : numBytes rs.1 ≤ 60 := Nat.le_trans (numBytes_le_of_lt_pow _ _ (Nat.lt_trans hr hqb)) hq
  have bs : numBytes rs.2 ≤ 60 := Nat.le_trans (numBytes_le_of_lt_pow _ _ (Nat.lt_trans hs hqb)) hq
  have lr := encodeInteger_length_le rs.1 (by omega)
  have ls := encodeInteger_length_le rs.2 (by omega)
  unfold verify sign
  rw [hrs]
  simp only
  have hne : (encodeSequence [encodeInteger rs.1, encodeInteger rs.2]).isEmpty = false := by
    simp [encodeSequence]
  rw [hne]
  simp only [Bool.false_eq_true, if_false]
  rw [removeSequence_encodeSequence _ _ (by omega)]
  simp only [List.isEmpty_nil, not_true_eq_false, if_false]
  rw [removeInteger_encodeInteger rs.1 _ (by omega)]
  simp only
  have := removeInteger_encodeInteger rs.2 [] (by omega)
  rw [List.append_nil] at this
  rw [this]
  simp

end Tls.Dsa
