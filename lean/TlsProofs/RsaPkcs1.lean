import TlsProofs.RsaCorrect
/-
  Byte level: `_raw_public_key_op_bytes` / `_raw_private_key_op_bytes`, PKCS#1 v1.5 padding,
  verification by re-encoding.
-/
namespace Tls.Rsa
open Nat

/-- THE encoding of RFC 8017 §9.2 for a `k`-byte modulus and DigestInfo `t`:
    `00 01 FF … FF 00 t`, padding filling the block exactly -/
def canonicalEM (k : ℕ) (t : Bytes) : Bytes :=
  [0x00, 0x01] ++ List.replicate (k - 3 - t.length) 0xFF ++ [0x00] ++ t

theorem addPKCS1Padding_eq (n : ℕ) (bytes : Bytes) :
    addPKCS1Padding n bytes = canonicalEM (numBytes n) bytes := by
  unfold addPKCS1Padding canonicalEM
  have : ((numBytes n : ℤ) - ((bytes.length : ℤ) + 3)).toNat = numBytes n - 3 - bytes.length := by
    omega
  simp only [this]

theorem canonicalEM_length (k : ℕ) (t : Bytes) (h : t.length + 3 ≤ k) :
    (canonicalEM k t).length = k := by
  unfold canonicalEM; simp; omega

theorem canonicalEM_length_gt (k : ℕ) (t : Bytes) (h : k < t.length + 3) :
    k < (canonicalEM k t).length := by
  unfold canonicalEM; simp; omega

/-- the encoded message, read as a number, is below the modulus (it starts with `00 01`) -/
theorem canonicalEM_lt (n : ℕ) (hn : n ≠ 0) (t : Bytes) (h : t.length + 3 ≤ numBytes n) :
    beDecode (canonicalEM (numBytes n) t) < n := by
  have hlen := canonicalEM_length (numBytes n) t h
  unfold canonicalEM at hlen ⊢
  simp only [List.append_assoc, List.cons_append, List.nil_append] at hlen ⊢
  generalize hr : List.replicate (numBytes n - 3 - t.length) (0xFF : UInt8) ++ 0x00 :: t = rest at hlen ⊢
  rw [beDecode_cons, beDecode_cons]
  have hrl : rest.length = numBytes n - 2 := by simp at hlen; omega
  have hd := beDecode_lt rest
  simp only [List.length_cons, hrl] at hd ⊢
  have hle := pow_numBytes_pred_le n hn
  have e : numBytes n - 1 = (numBytes n - 2) + 1 := by omega
  rw [e, Nat.pow_succ] at hle
  have : (0x00 : UInt8).toNat = 0 := rfl
  have h1 : (0x01 : UInt8).toNat = 1 := rfl
  rw [this, h1]
  omega

theorem canonicalEM_getElem_sep (k : ℕ) (t : Bytes) :
    (canonicalEM k t)[2 + (k - 3 - t.length)]? = some 0x00 := by
  unfold canonicalEM
  simp only [List.append_assoc]
  rw [List.getElem?_append_right (by simp), List.getElem?_append_right (by simp)]
  simp

theorem canonicalEM_getElem_ff (k : ℕ) (t : Bytes) (i : ℕ) (hi : i < k - 3 - t.length) :
    (canonicalEM k t)[2 + i]? = some 0xFF := by
  unfold canonicalEM
  simp only [List.append_assoc]
  rw [List.getElem?_append_right (by simp)]
  rw [List.getElem?_append_left (by simp; omega)]
  simp [List.getElem?_replicate, hi]

theorem canonicalEM_inj (k : ℕ) (t1 t2 : Bytes) (h : canonicalEM k t1 = canonicalEM k t2) : t1 = t2 := by
  have hlen := congrArg List.length h
  unfold canonicalEM at hlen
  simp only [List.length_append, List.length_cons, List.length_nil, List.length_replicate] at hlen
  rcases Nat.lt_trichotomy (k - 3 - t1.length) (k - 3 - t2.length) with hlt | heq | hgt
  · exfalso
    have h1 := canonicalEM_getElem_sep k t1
    have h2 := canonicalEM_getElem_ff k t2 _ hlt
    rw [h] at h1; rw [h1] at h2; cases h2
  · unfold canonicalEM at h
    rw [heq] at h
    exact List.append_cancel_left h
  · exfalso
    have h1 := canonicalEM_getElem_sep k t2
    have h2 := canonicalEM_getElem_ff k t1 _ hgt
    rw [← h] at h1; rw [h1] at h2; cases h2

/-- `_raw_public_key_op_bytes` succeeds exactly on modulus-length strings below `n` -/
theorem rawPublicKeyOpBytes_ok_iff (k : PubKey) (c out : Bytes) :
    rawPublicKeyOpBytes k c = .ok out ↔
      c.length = numBytes k.n ∧ beDecode c < k.n ∧
      out = beEncode (numBytes k.n) ((beDecode c) ^ k.e % k.n) := by
  simp only [rawPublicKeyOpBytes, rawPublicKeyOp, powMod_eq]
  by_cases h1 : c.length = numBytes k.n
  · by_cases h2 : beDecode c < k.n
    · have : ¬ beDecode c ≥ k.n := by omega
      simp [h1, h2, this, eq_comm]
    · have : beDecode c ≥ k.n := by omega
      simp [h1, h2, this]
  · simp [h1]

theorem rawPublicKeyOpBytes_err (k : PubKey) (c : Bytes) (e : Err)
    (h : rawPublicKeyOpBytes k c = .error e) : e = .valueError := by
  simp only [rawPublicKeyOpBytes] at h
  split at h
  · cases h; rfl
  · split at h
    · cases h; rfl
    · cases h

/-- verification by re-encoding accepts exactly the signatures whose `e`-th power is the
    canonical encoded message -/
theorem rawPkcs1Verify_iff (k : PubKey) (sig bytes : Bytes) :
    rawPkcs1Verify k sig bytes = true ↔
      sig.length = numBytes k.n ∧ beDecode sig < k.n ∧
      beEncode (numBytes k.n) ((beDecode sig) ^ k.e % k.n) = canonicalEM (numBytes k.n) bytes := by
  unfold rawPkcs1Verify
  rw [addPKCS1Padding_eq]
  cases hr : rawPublicKeyOpBytes k sig with
  | error e =>
    simp only [Bool.false_eq_true, false_iff]
    intro ⟨h1, h2, _⟩
    have := (rawPublicKeyOpBytes_ok_iff k sig _).mpr ⟨h1, h2, rfl⟩
    rw [hr] at this; cases this
  | ok out =>
    obtain ⟨h1, h2, h3⟩ := (rawPublicKeyOpBytes_ok_iff k sig out).mp hr
    simp only [beq_iff_eq]
    constructor
    · intro h; exact ⟨h1, h2, by rw [← h3]; exact h⟩
    · intro ⟨_, _, h⟩; rw [h3]; exact h

/-! ### private then public, on bytes -/

theorem rawPrivateKeyOpBytes_ok {k : PrivKey} (vk : ValidKey k) {st : Blind} {rnd : ℕ}
    (hst : BlindOk k st) (hrnd : st.blinder = 0 → invMod rnd k.pub.n * rnd % k.pub.n = 1)
    (msg : Bytes) (hl : msg.length = numBytes k.pub.n) (hv : beDecode msg < k.pub.n) :
    ∃ sig st', rawPrivateKeyOpBytes k st rnd msg = .ok (sig, st') ∧ BlindOk k st' ∧
      sig = beEncode (numBytes k.pub.n) ((beDecode msg) ^ k.d % k.pub.n) ∧
      rawPublicKeyOpBytes k.pub sig = .ok msg := by
  have hp0 : k.p ≠ 0 := by have := vk.hp2; omega
  have hq0 : k.q ≠ 0 := by have := vk.hq2; omega
  obtain ⟨hr1, hr2⟩ := rawPrivateKeyOp_root vk hst hrnd (beDecode msg)
  refine ⟨beEncode (numBytes k.pub.n) (rawPrivateKeyOp k st rnd (beDecode msg)).1,
    (rawPrivateKeyOp k st rnd (beDecode msg)).2, ?_, ?_, ?_, ?_⟩
  · unfold rawPrivateKeyOpBytes
    have : ¬ beDecode msg ≥ k.pub.n := by omega
    simp only [hl, ne_eq, not_true_eq_false, if_false, this, hp0, hq0, or_self]
  · rw [blindStep_state]
    exact Or.inr (blindStep_spec vk.n_gt_one hst hrnd).2
  · rw [vk.root_unique hr1 hr2]
  · rw [rawPublicKeyOpBytes_ok_iff]
    have hlt : (rawPrivateKeyOp k st rnd (beDecode msg)).1 < 256 ^ numBytes k.pub.n :=
      Nat.lt_trans hr1 (lt_pow_numBytes _)
    refine ⟨beEncode_length _ _, ?_, ?_⟩
    · rw [beDecode_beEncode _ _ hlt]; exact hr1
    · rw [beDecode_beEncode _ _ hlt]
      have : (rawPrivateKeyOp k st rnd (beDecode msg)).1 ^ k.pub.e % k.pub.n = beDecode msg := by
        have h := hr2
        unfold Nat.ModEq at h
        rw [h, Nat.mod_eq_of_lt hv]
      rw [this, ← hl, beEncode_beDecode]

end Tls.Rsa
