import TlsProofs.RsaGen
/-
  Facts about the number <-> bytes primitives of the Python-runtime model (TlsModel/PyExc.lean) used
  to show that the regenerated cryptomath.py/compat.py functions are the `PyE.numBits`, `numBytes`,
  `bytesToNumber`, `numberToByteArray` definitions.  Nothing here mentions a generated module.
-/
set_option linter.unusedSimpArgs false
namespace Tls.PyE
open Tls Tls.RsaDec

theorem bitLength_eq (x : Int) : bitLength x = numBits x := Eq.trans rfl rfl

theorem fdiv7_eq (x : Int) : fdivLit (numBits x + 7) 8 = numBytes x := by
  unfold fdivLit numBits numBytes Tls.RsaDec.numBytes
  omega

theorem lt_two_pow_numBits (n : Nat) : n < 2 ^ Tls.RsaDec.numBits n := by
  unfold Tls.RsaDec.numBits
  by_cases h : n = 0
  · simp [h]
  · simp only [h, if_false]; exact Nat.lt_log2_self

theorem lt_pow_numBytes (n : Nat) : n < 256 ^ Tls.RsaDec.numBytes n := by
  have h1 := lt_two_pow_numBits n
  have h2 : Tls.RsaDec.numBits n ≤ 8 * Tls.RsaDec.numBytes n := by unfold Tls.RsaDec.numBytes; omega
  have h3 : (256 : Nat) ^ Tls.RsaDec.numBytes n = 2 ^ (8 * Tls.RsaDec.numBytes n) := by
    rw [show (256 : Nat) = 2 ^ 8 from rfl, ← Nat.pow_mul]
  rw [h3]
  exact Nat.lt_of_lt_of_le h1 (Nat.pow_le_pow_right (by decide) h2)

/-- `x.to_bytes(k, "big")` for `0 ≤ x < 256^k` -/
theorem intToBytes_big (x k : Nat) (h : x < 256 ^ k) :
    intToBytes (x : Int) (k : Int) "big" = .ok (beEncode k x) := by
  unfold intToBytes
  have h1 : ¬ ((k : Int) < 0) := by omega
  have h2 : ¬ ("big" ≠ "big" ∧ "big" ≠ "little") := by decide
  have h3 : ¬ ((x : Int) < 0) := by omega
  have h4 : ¬ (x ≥ 256 ^ k) := by omega
  simp only [h1, h2, h3, h4, if_false, Int.toNat_natCast, if_true]

theorem intToBytes_little (x k : Nat) (h : x < 256 ^ k) :
    intToBytes (x : Int) (k : Int) "little" = .ok (beEncode k x).reverse := by
  unfold intToBytes
  have h1 : ¬ ((k : Int) < 0) := by omega
  have h2 : ¬ ("little" ≠ "big" ∧ "little" ≠ "little") := by decide
  have h3 : ¬ ((x : Int) < 0) := by omega
  have h4 : ¬ (x ≥ 256 ^ k) := by omega
  have h5 : ¬ ("little" = "big") := by decide
  simp only [h1, h2, h3, h4, h5, if_false, Int.toNat_natCast]

theorem intToBytes_neg (x k : Int) (order : String) (hx : x < 0) (hk : 0 ≤ k)
    (ho : order = "big" ∨ order = "little") : intToBytes x k order = .error .overflowError := by
  unfold intToBytes
  have h1 : ¬ (k < 0) := by omega
  have h2 : ¬ (order ≠ "big" ∧ order ≠ "little") := by rcases ho with h | h <;> simp [h]
  simp only [h1, h2, hx, if_false, if_true]

/-- the low `k` bytes of a longer big-endian encoding -/
theorem beEncode_drop (x : Nat) : ∀ (d k : Nat), (beEncode (k + d) x).drop d = beEncode k x
  | 0, k => by simp
  | d + 1, k => by
    have : k + (d + 1) = (k + d) + 1 := by omega
    rw [this, beEncode, List.drop_succ_cons]
    exact beEncode_drop x d k

theorem slice_empty (d : Bytes) (a b : Nat) (h : b ≤ a) : Py.slice d (some (a : Int)) (some (b : Int)) = [] := by
  unfold Py.slice
  simp only [Py.sliceBound_nat]
  have : (if b < d.length then b else d.length) - (if a < d.length then a else d.length) = 0 := by
    split <;> split <;> omega
  rw [this]; simp

theorem beEncode_len (n x : Nat) : (beEncode n x).length = n := Tls.RsaDec.beEncode_length n x

end Tls.PyE
