import TlsProofs.Conc
/-
  C18 — serial executions of operations that keep an invariant of the shared object and are
  correct whenever the invariant holds (used for the RSA blinding pair).
-/
namespace Tls.Conc

variable {σ ρ : Type}

structure InvHist (res : ρ → List Nat) (sem : Nat → List (Act σ ρ)) (correct : Nat → Nat)
    (T : Nat → List Nat) (good : σ → Prop) (s : SCfg σ ρ) : Prop where
  good : good s.sh
  rem : ∃ rem : Nat → List Nat, (∀ t, (s.th t).ops = (rem t).map sem) ∧
          ∀ t, res (s.th t).loc ++ (rem t).map correct = (T t).map correct

theorem invHist_step (res : ρ → List Nat) (sem : Nat → List (Act σ ρ)) (correct : Nat → Nat)
    (T : Nat → List Nat) (good : σ → Prop) (stepR : Nat → σ → σ × Nat)
    (hgood : ∀ m s, good s → good (stepR m s).1 ∧ (stepR m s).2 = correct m)
    (hseq : ∀ m s l, (runActs (sem m) (s, l)).1 = (stepR m s).1 ∧
                     res (runActs (sem m) (s, l)).2 = res l ++ [(stepR m s).2])
    (s : SCfg σ ρ) (h : InvHist res sem correct T good s) (t : Nat) :
    InvHist res sem correct T good (serialStep s t) := by
  obtain ⟨rem, hrem, hT⟩ := h.rem
  cases hr : rem t with
  | nil =>
    have : (s.th t).ops = [] := by rw [hrem t, hr]; rfl
    have hs : serialStep s t = s := by simp [serialStep, this]
    rw [hs]; exact h
  | cons m rest =>
    have hops : (s.th t).ops = sem m :: rest.map sem := by rw [hrem t, hr]; rfl
    obtain ⟨hsh, hres⟩ := hseq m s.sh (s.th t).loc
    obtain ⟨hg, hc⟩ := hgood m s.sh h.good
    have hstep : serialStep s t =
        { sh := (runActs (sem m) (s.sh, (s.th t).loc)).1,
          th := setTh s.th t ⟨(runActs (sem m) (s.sh, (s.th t).loc)).2, rest.map sem⟩ } := by
      simp [serialStep, hops]
    rw [hstep]
    constructor
    · show good (runActs (sem m) (s.sh, (s.th t).loc)).1
      rw [hsh]; exact hg
    · refine ⟨fun u => if u = t then rest else rem u, ?_, ?_⟩
      · intro u
        by_cases hu : u = t
        · subst hu; simp [setTh]
        · simp [setTh, hu, hrem u]
      · intro u
        by_cases hu : u = t
        · subst hu
          simp only [setTh, if_true]
          rw [hres, hc, ← hT u, hr]
          simp
        · simp only [setTh, hu, if_false]
          exact hT u

theorem invHist_run (res : ρ → List Nat) (sem : Nat → List (Act σ ρ)) (correct : Nat → Nat)
    (T : Nat → List Nat) (good : σ → Prop) (stepR : Nat → σ → σ × Nat)
    (hgood : ∀ m s, good s → good (stepR m s).1 ∧ (stepR m s).2 = correct m)
    (hseq : ∀ m s l, (runActs (sem m) (s, l)).1 = (stepR m s).1 ∧
                     res (runActs (sem m) (s, l)).2 = res l ++ [(stepR m s).2])
    (order : List Nat) : ∀ (s : SCfg σ ρ), InvHist res sem correct T good s →
      InvHist res sem correct T good (serialRun order s) := by
  induction order with
  | nil => intro s h; exact h
  | cons t order ih =>
    intro s h
    exact ih (serialStep s t) (invHist_step res sem correct T good stepR hgood hseq s h t)

end Tls.Conc
