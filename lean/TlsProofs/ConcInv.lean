import TlsProofs.Conc
/-
  C18 — serial executions of operations that keep an invariant of the shared object and are
  correct whenever the invariant holds (used for the RSA blinding pair).  `ω` is the type of a
  call's arguments, `ok` a precondition on them.
-/
namespace Tls.Conc

variable {σ ρ ω : Type}

structure InvHist (res : ρ → List Nat) (sem : ω → List (Act σ ρ)) (correct : ω → Nat)
    (ok : ω → Prop) (T : Nat → List ω) (good : σ → Prop) (s : SCfg σ ρ) : Prop where
  good : good s.sh
  rem : ∃ rem : Nat → List ω, (∀ t, (s.th t).ops = (rem t).map sem) ∧
          (∀ t, ∀ o ∈ rem t, ok o) ∧
          ∀ t, res (s.th t).loc ++ (rem t).map correct = (T t).map correct

theorem invHist_step (res : ρ → List Nat) (sem : ω → List (Act σ ρ)) (correct : ω → Nat)
    (ok : ω → Prop) (T : Nat → List ω) (good : σ → Prop) (stepR : ω → σ → σ × Nat)
    (hgood : ∀ o s, ok o → good s → good (stepR o s).1 ∧ (stepR o s).2 = correct o)
    (hseq : ∀ o s l, (runActs (sem o) (s, l)).1 = (stepR o s).1 ∧
                     res (runActs (sem o) (s, l)).2 = res l ++ [(stepR o s).2])
    (s : SCfg σ ρ) (h : InvHist res sem correct ok T good s) (t : Nat) :
    InvHist res sem correct ok T good (serialStep s t) := by
  obtain ⟨rem, hrem, hok, hT⟩ := h.rem
  cases hr : rem t with
  | nil =>
    have : (s.th t).ops = [] := by rw [hrem t, hr]; rfl
    have hs : serialStep s t = s := by simp [serialStep, this]
    rw [hs]; exact h
  | cons m rest =>
    have hops : (s.th t).ops = sem m :: rest.map sem := by rw [hrem t, hr]; rfl
    obtain ⟨hsh, hres⟩ := hseq m s.sh (s.th t).loc
    obtain ⟨hg, hc⟩ := hgood m s.sh (hok t m (by rw [hr]; simp)) h.good
    have hstep : serialStep s t =
        { sh := (runActs (sem m) (s.sh, (s.th t).loc)).1,
          th := setTh s.th t ⟨(runActs (sem m) (s.sh, (s.th t).loc)).2, rest.map sem⟩ } := by
      simp [serialStep, hops]
    rw [hstep]
    constructor
    · show good (runActs (sem m) (s.sh, (s.th t).loc)).1
      rw [hsh]; exact hg
    · refine ⟨fun u => if u = t then rest else rem u, ?_, ?_, ?_⟩
      · intro u
        by_cases hu : u = t
        · subst hu; simp [setTh]
        · simp [setTh, hu, hrem u]
      · intro u o ho
        by_cases hu : u = t
        · subst hu
          simp only [if_true] at ho
          exact hok u o (by rw [hr]; simp [ho])
        · simp only [hu, if_false] at ho
          exact hok u o ho
      · intro u
        by_cases hu : u = t
        · subst hu
          simp only [setTh, if_true]
          rw [hres, hc, ← hT u, hr]
          simp
        · simp only [setTh, hu, if_false]
          exact hT u

theorem invHist_run (res : ρ → List Nat) (sem : ω → List (Act σ ρ)) (correct : ω → Nat)
    (ok : ω → Prop) (T : Nat → List ω) (good : σ → Prop) (stepR : ω → σ → σ × Nat)
    (hgood : ∀ o s, ok o → good s → good (stepR o s).1 ∧ (stepR o s).2 = correct o)
    (hseq : ∀ o s l, (runActs (sem o) (s, l)).1 = (stepR o s).1 ∧
                     res (runActs (sem o) (s, l)).2 = res l ++ [(stepR o s).2])
    (order : List Nat) : ∀ (s : SCfg σ ρ), InvHist res sem correct ok T good s →
      InvHist res sem correct ok T good (serialRun order s) := by
  induction order with
  | nil => intro s h; exact h
  | cons t order ih =>
    intro s h
    exact ih (serialStep s t) (invHist_step res sem correct ok T good stepR hgood hseq s h t)

end Tls.Conc
