import TlsProofs.Db
import TlsProofs.ConcLin
import TlsModel.Gen.Locks
/-
  C18 — which generated method shape each verifier-database call has.
-/
namespace Tls.Db
open Tls.Conc Tls.Locks Tls.Gen.Locks

/-- action kinds of the method a call runs (generated from tlslite/basedb.py + verifierdb.py);
    `create` is a setup method and must not run concurrently with the others -/
def callShape : Op → List Kind
  | .create => [Kind.bad]
  | .get _ => shapeOf verifierDB verifierDB_BaseDB_getitem
  | .set _ _ => shapeOf verifierDB verifierDB_VerifierDB_setitem
  | .del _ => shapeOf verifierDB verifierDB_BaseDB_delitem
  | .contains _ => shapeOf verifierDB verifierDB_BaseDB_contains
  | .keys => shapeOf verifierDB verifierDB_BaseDB_keys
  | .check _ _ => shapeOf verifierDB verifierDB_BaseDB_check

theorem specFrom_eq_runSeq (E : Env) (s : Spec) (ops : List Op) :
    specFrom E s ops = runSeq (fun o x => Spec.step E x o) s ops := by
  induction ops generalizing s with
  | nil => rfl
  | cons o ops ih => simp only [specFrom, runSeq]; rw [ih]

theorem runFrom_eq_runSeq (E : Env) (d : DB) (ops : List Op) :
    runFrom E d ops = runSeq (fun o x => DB.step E x o) d ops := by
  induction ops generalizing d with
  | nil => rfl
  | cons o ops ih => simp only [runFrom, runSeq]; rw [ih]

end Tls.Db
