import TlsModel.Db
import TlsProofs.Cache
/-
  C18 — BaseDB model refines its specification: the user view of the mapping (internal records
  filtered out) is all a caller can observe.  Core Lean only.
-/
namespace Tls.Db
open Tls.Cache (alookup aerase ainsert)

def userView (E : Env) (m : List (Name × Val)) : List (Name × Val) := m.filter (fun p => !E.resv p.1)

theorem alookup_userView (E : Env) (k : Name) (m : List (Name × Val)) (hk : E.resv k = false) :
    alookup k (userView E m) = alookup k m := by
  induction m with
  | nil => rfl
  | cons p r ih =>
    obtain ⟨a, v⟩ := p
    unfold userView at *
    by_cases ha : E.resv a = true
    · have hne : ¬ a = k := by intro e; rw [e, hk] at ha; cases ha
      simp [List.filter_cons, ha, alookup, hne, ih]
    · simp only [Bool.not_eq_true] at ha
      by_cases hak : a = k
      · subst hak; simp [List.filter_cons, ha, alookup]
      · simp [List.filter_cons, ha, alookup, hak, ih]

theorem aerase_userView (E : Env) (k : Name) (m : List (Name × Val)) :
    userView E (aerase k m) = aerase k (userView E m) := by
  induction m with
  | nil => rfl
  | cons p r ih =>
    obtain ⟨a, v⟩ := p
    unfold userView at *
    by_cases hak : a = k
    · subst hak
      by_cases ha : E.resv a = true
      · simp [List.filter_cons, ha, aerase, ih]
      · simp only [Bool.not_eq_true] at ha
        simp [List.filter_cons, ha, aerase, ih]
    · by_cases ha : E.resv a = true
      · simp [List.filter_cons, ha, aerase, hak, ih]
      · simp only [Bool.not_eq_true] at ha
        simp [List.filter_cons, ha, aerase, hak, ih]

theorem ainsert_userView (E : Env) (k : Name) (v : Val) (m : List (Name × Val))
    (hk : E.resv k = false) : userView E (ainsert k v m) = ainsert k v (userView E m) := by
  unfold ainsert
  have := aerase_userView E k m
  unfold userView at *
  simp [List.filter_cons, hk, this]

theorem keys_userView (E : Env) (m : List (Name × Val)) :
    (m.map (·.1)).filter (fun u => !E.resv u) = (userView E m).map (·.1) := by
  induction m with
  | nil => rfl
  | cons p r ih =>
    obtain ⟨a, v⟩ := p
    unfold userView at *
    by_cases ha : E.resv a = true
    · simp [List.filter_cons, ha, ih]
    · simp only [Bool.not_eq_true] at ha
      simp [List.filter_cons, ha, ih]

/-- implementation state against specification state -/
def Sim (E : Env) (d : DB) (s : Spec) : Prop :=
  match d.db with
  | none => s.opened = false
  | some m => s.opened = true ∧ s.users = userView E m

theorem sim_new (E : Env) (onDisk : Bool) : Sim E (DB.new onDisk) (Spec.new onDisk) := by
  cases onDisk <;> simp [Sim, DB.new, Spec.new, userView]

theorem step_sim (E : Env) (hT : E.resv E.typeKey = true) (d : DB) (s : Spec) (op : Op)
    (h : Sim E d s) (hw : userWrite E op = true) :
    (d.step E op).2 = (s.step E op).2 ∧ Sim E (d.step E op).1 (s.step E op).1 := by
  cases hd : d.db with
  | none =>
    have ho : s.opened = false := by simpa [Sim, hd] using h
    cases op <;> simp [DB.step, DB.getitem, Spec.step, Spec.stepOpen, hd, ho, Sim, userView, hT] <;>
      (try (cases d.onDisk <;> simp [hT]))
  | some m =>
    have hs : s.opened = true ∧ s.users = userView E m := by simpa [Sim, hd] using h
    obtain ⟨ho, hu⟩ := hs
    cases op with
    | create =>
      simp only [DB.step, Spec.step, Spec.stepOpen, if_true]
      refine ⟨by first | rfl | trivial, ?_⟩
      cases d.onDisk <;> simp [Sim, userView, hT]
    | get k =>
      simp only [DB.step, DB.getitem, Spec.step, Spec.stepOpen, hd, ho, reduceCtorEq, if_false, Bool.true_eq_false]
      by_cases hk : E.resv k = true
      · simp [hk, Sim, hd, ho, hu]
      · simp only [Bool.not_eq_true] at hk
        rw [hu, alookup_userView E k m hk]
        cases alookup k m <;> simp [hk, Sim, hd, ho, hu]
    | set k v =>
      have hk : E.resv k = false := by simpa [userWrite] using hw
      simp only [DB.step, Spec.step, Spec.stepOpen, hd, ho, reduceCtorEq, if_false, Bool.true_eq_false]
      simp [Sim, ho, hu, ainsert_userView E k v m hk]
    | del k =>
      have hk : E.resv k = false := by simpa [userWrite] using hw
      simp only [DB.step, Spec.step, Spec.stepOpen, hd, ho, reduceCtorEq, if_false, Bool.true_eq_false]
      rw [hu, alookup_userView E k m hk]
      cases alookup k m with
      | none => simp [Sim, hd, ho, hu]
      | some v => simp [Sim, ho, aerase_userView E k m]
    | contains k =>
      simp only [DB.step, Spec.step, Spec.stepOpen, hd, ho, reduceCtorEq, if_false, Bool.true_eq_false]
      by_cases hk : E.resv k = true
      · simp [hk, Sim, hd, ho, hu]
      · simp only [Bool.not_eq_true] at hk
        rw [hu, alookup_userView E k m hk]
        simp [hk, Sim, hd, ho, hu]
    | keys =>
      simp only [DB.step, Spec.step, Spec.stepOpen, hd, ho, reduceCtorEq, if_false, Bool.true_eq_false]
      rw [keys_userView, hu]
      simp [Sim, hd, ho, hu]
    | check k param =>
      simp only [DB.step, DB.getitem, Spec.step, Spec.stepOpen, hd, ho, reduceCtorEq, if_false, Bool.true_eq_false]
      by_cases hk : E.resv k = true
      · simp [hk, Sim, hd, ho, hu]
      · simp only [Bool.not_eq_true] at hk
        rw [hu, alookup_userView E k m hk]
        cases alookup k m <;> simp [hk, Sim, hd, ho, hu]

theorem run_sim (E : Env) (hT : E.resv E.typeKey = true) (ops : List Op) :
    ∀ (d : DB) (s : Spec), Sim E d s → (∀ op ∈ ops, userWrite E op = true) →
      (runFrom E d ops).2 = (specFrom E s ops).2 ∧ Sim E (runFrom E d ops).1 (specFrom E s ops).1 := by
  induction ops with
  | nil => intro d s h _; exact ⟨rfl, h⟩
  | cons op ops ih =>
    intro d s h hw
    obtain ⟨h1, h2⟩ := step_sim E hT d s op h (hw op (by simp))
    obtain ⟨h3, h4⟩ := ih _ _ h2 (fun o ho => hw o (by simp [ho]))
    simp only [runFrom, specFrom]
    exact ⟨by rw [h1, h3], h4⟩

end Tls.Db
