import TlsProofs.Crypto.AesFull
/-
  C09 (growth) — the table-driven decryption rounds of rijndael.py (T5..T8, Si, shifts 3 2 1) are the
  rounds of the equivalent inverse cipher of FIPS-197 §5.3.5.
-/
set_option linter.unusedSimpArgs false
namespace Tls.Crypto.Aes
open Tls Tls.Crypto

theorem Si_lookup (x : Nat) (hx : x < 256) : aidx Gen.Si x = .ok (Spec.invSboxN x) := by
  apply aidx_of_toList
  rw [Si_spec_table, List.getElem?_map, List.getElem?_range hx]; rfl

theorem Si_bound : ∀ s ∈ Gen.Si.toList, s < 256 := by decide +kernel

theorem invSboxN_lt (x : Nat) (hx : x < 256) : Spec.invSboxN x < 256 := by
  apply Si_bound
  rw [Si_spec_table]
  exact List.mem_map.mpr ⟨x, List.mem_range.mpr hx, rfl⟩

theorem gmul_bounds_inv : ∀ x, x < 256 → Spec.gmulN 9 x < 256 ∧ Spec.gmulN 11 x < 256 ∧ Spec.gmulN 13 x < 256 ∧
    Spec.gmulN 14 x < 256 := by decide +kernel

attribute [local irreducible] Spec.sboxN Spec.gmulN Spec.ginvN Spec.invSboxN

theorem Tinv_lookup (x : Nat) (hx : x < 256) :
    aidx Gen.T5 x = .ok (word (Spec.gmulN 14 (Spec.invSboxN x)) (Spec.gmulN 9 (Spec.invSboxN x)) (Spec.gmulN 13 (Spec.invSboxN x)) (Spec.gmulN 11 (Spec.invSboxN x))) ∧
    aidx Gen.T6 x = .ok (word (Spec.gmulN 11 (Spec.invSboxN x)) (Spec.gmulN 14 (Spec.invSboxN x)) (Spec.gmulN 9 (Spec.invSboxN x)) (Spec.gmulN 13 (Spec.invSboxN x))) ∧
    aidx Gen.T7 x = .ok (word (Spec.gmulN 13 (Spec.invSboxN x)) (Spec.gmulN 11 (Spec.invSboxN x)) (Spec.gmulN 14 (Spec.invSboxN x)) (Spec.gmulN 9 (Spec.invSboxN x))) ∧
    aidx Gen.T8 x = .ok (word (Spec.gmulN 9 (Spec.invSboxN x)) (Spec.gmulN 13 (Spec.invSboxN x)) (Spec.gmulN 11 (Spec.invSboxN x)) (Spec.gmulN 14 (Spec.invSboxN x))) := by
  obtain ⟨h1, h2, h3, h4⟩ := Tinv_tables
  have hs : Gen.Si.toList[x]? = some (Spec.invSboxN x) := by
    rw [Si_spec_table, List.getElem?_map, List.getElem?_range hx]; rfl
  refine ⟨?_, ?_, ?_, ?_⟩ <;> apply aidx_of_toList
  · rw [h1, List.getElem?_map, hs]; rfl
  · rw [h2, List.getElem?_map, hs]; rfl
  · rw [h3, List.getElem?_map, hs]; rfl
  · rw [h4, List.getElem?_map, hs]; rfl

theorem invSbox_toNat (x : UInt8) : (Spec.invSbox x).toNat = Spec.invSboxN x.toNat := by
  simp only [Spec.invSbox, UInt8.toNat_ofNat']
  exact Nat.mod_eq_of_lt (invSboxN_lt _ x.toNat_lt)

theorem gmulc_toNat (c : UInt8) (x : UInt8) (h : Spec.gmulN c.toNat x.toNat < 256) :
    (Spec.gmul c x).toNat = Spec.gmulN c.toNat x.toNat := by
  simp only [Spec.gmul, UInt8.toNat_ofNat']
  exact Nat.mod_eq_of_lt h

/-- T5[a] ^ T6[b] ^ T7[c] ^ T8[d] ^ k is the InvMixColumns column of the inverse-substituted bytes plus the key column -/
theorem column_inv_spec (a b c d k0 k1 k2 k3 : UInt8) :
    (do
      let x1 ← aidx Gen.T5 a.toNat
      let x2 ← aidx Gen.T6 b.toNat
      let x3 ← aidx Gen.T7 c.toNat
      let x4 ← aidx Gen.T8 d.toNat
      pure ((x1 ^^^ x2 ^^^ x3 ^^^ x4) ^^^ wordB k0 k1 k2 k3) : Except Err Nat) =
    .ok (wordB
      (Spec.gmul 14 (Spec.invSbox a) ^^^ Spec.gmul 11 (Spec.invSbox b) ^^^ Spec.gmul 13 (Spec.invSbox c) ^^^ Spec.gmul 9 (Spec.invSbox d) ^^^ k0)
      (Spec.gmul 9 (Spec.invSbox a) ^^^ Spec.gmul 14 (Spec.invSbox b) ^^^ Spec.gmul 11 (Spec.invSbox c) ^^^ Spec.gmul 13 (Spec.invSbox d) ^^^ k1)
      (Spec.gmul 13 (Spec.invSbox a) ^^^ Spec.gmul 9 (Spec.invSbox b) ^^^ Spec.gmul 14 (Spec.invSbox c) ^^^ Spec.gmul 11 (Spec.invSbox d) ^^^ k2)
      (Spec.gmul 11 (Spec.invSbox a) ^^^ Spec.gmul 13 (Spec.invSbox b) ^^^ Spec.gmul 9 (Spec.invSbox c) ^^^ Spec.gmul 14 (Spec.invSbox d) ^^^ k3)) := by
  have ga := gmul_bounds_inv _ (invSboxN_lt _ a.toNat_lt)
  have gb := gmul_bounds_inv _ (invSboxN_lt _ b.toNat_lt)
  have gc := gmul_bounds_inv _ (invSboxN_lt _ c.toNat_lt)
  have gd := gmul_bounds_inv _ (invSboxN_lt _ d.toNat_lt)
  have x := @xor_lt256
  simp only [(Tinv_lookup _ a.toNat_lt).1, (Tinv_lookup _ b.toNat_lt).2.1, (Tinv_lookup _ c.toNat_lt).2.2.1,
    (Tinv_lookup _ d.toNat_lt).2.2.2, bind, Except.bind, pure, Except.pure, wordB]
  rw [word_xor _ _ _ _ _ _ _ _ ga.1 ga.2.2.1 ga.2.1 gb.2.2.2 gb.1 gb.2.2.1,
    word_xor _ _ _ _ _ _ _ _ (x _ _ ga.1 gb.2.2.2) (x _ _ ga.2.2.1 gb.1) (x _ _ ga.2.1 gb.2.2.1) gc.2.1 gc.2.2.2 gc.1,
    word_xor _ _ _ _ _ _ _ _ (x _ _ (x _ _ ga.1 gb.2.2.2) gc.2.1) (x _ _ (x _ _ ga.2.2.1 gb.1) gc.2.2.2)
      (x _ _ (x _ _ ga.2.1 gb.2.2.1) gc.1) gd.2.2.1 gd.2.1 gd.2.2.2,
    word_xor _ _ _ _ _ _ _ _ (x _ _ (x _ _ (x _ _ ga.1 gb.2.2.2) gc.2.1) gd.2.2.1)
      (x _ _ (x _ _ (x _ _ ga.2.2.1 gb.1) gc.2.2.2) gd.2.1) (x _ _ (x _ _ (x _ _ ga.2.1 gb.2.2.1) gc.1) gd.2.2.2)
      k1.toNat_lt k2.toNat_lt k3.toNat_lt]
  have t14 : (14 : UInt8).toNat = 14 := rfl
  have t9 : (9 : UInt8).toNat = 9 := rfl
  have t11 : (11 : UInt8).toNat = 11 := rfl
  have t13 : (13 : UInt8).toNat = 13 := rfl
  have e : ∀ (cc : UInt8) (n : Nat) (y : UInt8), cc.toNat = n → Spec.gmulN n (Spec.invSboxN y.toNat) < 256 →
      (Spec.gmul cc (Spec.invSbox y)).toNat = Spec.gmulN n (Spec.invSboxN y.toNat) := by
    intro cc n y hc hlt
    rw [gmulc_toNat cc _ (by rw [hc, invSbox_toNat]; exact hlt), hc, invSbox_toNat]
  simp only [UInt8.toNat_xor, e 14 14 _ t14 ga.2.2.2, e 14 14 _ t14 gb.2.2.2, e 14 14 _ t14 gc.2.2.2, e 14 14 _ t14 gd.2.2.2,
    e 9 9 _ t9 ga.1, e 9 9 _ t9 gb.1, e 9 9 _ t9 gc.1, e 9 9 _ t9 gd.1,
    e 11 11 _ t11 ga.2.1, e 11 11 _ t11 gb.2.1, e 11 11 _ t11 gc.2.1, e 11 11 _ t11 gd.2.1,
    e 13 13 _ t13 ga.2.2.1, e 13 13 _ t13 gb.2.2.1, e 13 13 _ t13 gc.2.2.1, e 13 13 _ t13 gd.2.2.1]

theorem colWord_inv_spec (K : List Nat) (r i : Nat) (t : List Nat)
    (a a1 a2 a3 b b0 b2 b3 c c0 c1 c3 d d0 d1 d2 k0 k1 k2 k3 : UInt8)
    (h0 : idx t i = .ok (wordB a a1 a2 a3)) (h1 : idx t ((i + 3) % 4) = .ok (wordB b0 b b2 b3))
    (h2 : idx t ((i + 2) % 4) = .ok (wordB c0 c1 c c3)) (h3 : idx t ((i + 1) % 4) = .ok (wordB d0 d1 d2 d))
    (hk : idx K (4*r + i) = .ok (wordB k0 k1 k2 k3)) :
    Model.colWord Gen.T5 Gen.T6 Gen.T7 Gen.T8 K t 3 2 1 r i =
      .ok (wordB
        (Spec.gmul 14 (Spec.invSbox a) ^^^ Spec.gmul 11 (Spec.invSbox b) ^^^ Spec.gmul 13 (Spec.invSbox c) ^^^ Spec.gmul 9 (Spec.invSbox d) ^^^ k0)
        (Spec.gmul 9 (Spec.invSbox a) ^^^ Spec.gmul 14 (Spec.invSbox b) ^^^ Spec.gmul 11 (Spec.invSbox c) ^^^ Spec.gmul 13 (Spec.invSbox d) ^^^ k1)
        (Spec.gmul 13 (Spec.invSbox a) ^^^ Spec.gmul 9 (Spec.invSbox b) ^^^ Spec.gmul 14 (Spec.invSbox c) ^^^ Spec.gmul 11 (Spec.invSbox d) ^^^ k2)
        (Spec.gmul 11 (Spec.invSbox a) ^^^ Spec.gmul 13 (Spec.invSbox b) ^^^ Spec.gmul 9 (Spec.invSbox c) ^^^ Spec.gmul 14 (Spec.invSbox d) ^^^ k3)) := by
  have := column_inv_spec a b c d k0 k1 k2 k3
  simp only [bind, Except.bind, pure, Except.pure] at this
  simp only [Model.colWord, h0, h1, h2, h3, hk, bind, Except.bind, pure, Except.pure,
    (byteOf_wordB a a1 a2 a3).1, (byteOf_wordB b0 b b2 b3).2.1, (byteOf_wordB c0 c1 c c3).2.2.1,
    (byteOf_wordB d0 d1 d2 d).2.2.2]
  exact this

theorem roundStep_inv_spec (K : List Nat) (r : Nat)
    (s0 s1 s2 s3 s4 s5 s6 s7 s8 s9 s10 s11 s12 s13 s14 s15 : UInt8)
    (k0 k1 k2 k3 k4 k5 k6 k7 k8 k9 k10 k11 k12 k13 k14 k15 : UInt8)
    (hk0 : idx K (4*r + 0) = .ok (wordB k0 k1 k2 k3)) (hk1 : idx K (4*r + 1) = .ok (wordB k4 k5 k6 k7))
    (hk2 : idx K (4*r + 2) = .ok (wordB k8 k9 k10 k11)) (hk3 : idx K (4*r + 3) = .ok (wordB k12 k13 k14 k15)) :
    Model.roundStep Gen.T5 Gen.T6 Gen.T7 Gen.T8 K 3 2 1 (wordsOf [s0, s1, s2, s3, s4, s5, s6, s7, s8, s9, s10, s11, s12, s13, s14, s15]) r =
      .ok (wordsOf (Spec.addRoundKey (Spec.invMixColumns (Spec.invShiftRows (Spec.invSubBytes [s0, s1, s2, s3, s4, s5, s6, s7, s8, s9, s10, s11, s12, s13, s14, s15])))
        [k0, k1, k2, k3, k4, k5, k6, k7, k8, k9, k10, k11, k12, k13, k14, k15])) := by
  have c0 := colWord_inv_spec K r 0 (wordsOf [s0, s1, s2, s3, s4, s5, s6, s7, s8, s9, s10, s11, s12, s13, s14, s15])
    s0 s1 s2 s3 s13 s12 s14 s15 s10 s8 s9 s11 s7 s4 s5 s6 k0 k1 k2 k3 rfl rfl rfl rfl hk0
  have c1 := colWord_inv_spec K r 1 (wordsOf [s0, s1, s2, s3, s4, s5, s6, s7, s8, s9, s10, s11, s12, s13, s14, s15])
    s4 s5 s6 s7 s1 s0 s2 s3 s14 s12 s13 s15 s11 s8 s9 s10 k4 k5 k6 k7 rfl rfl rfl rfl hk1
  have c2 := colWord_inv_spec K r 2 (wordsOf [s0, s1, s2, s3, s4, s5, s6, s7, s8, s9, s10, s11, s12, s13, s14, s15])
    s8 s9 s10 s11 s5 s4 s6 s7 s2 s0 s1 s3 s15 s12 s13 s14 k8 k9 k10 k11 rfl rfl rfl rfl hk2
  have c3 := colWord_inv_spec K r 3 (wordsOf [s0, s1, s2, s3, s4, s5, s6, s7, s8, s9, s10, s11, s12, s13, s14, s15])
    s12 s13 s14 s15 s9 s8 s10 s11 s6 s4 s5 s7 s3 s0 s1 s2 k12 k13 k14 k15 rfl rfl rfl rfl hk3
  simp only [Model.roundStep, show List.range 4 = [0, 1, 2, 3] from rfl, List.mapM_cons, List.mapM_nil, c0, c1, c2, c3,
    bind, Except.bind, pure, Except.pure]
  simp [Spec.addRoundKey, Spec.invMixColumns, Spec.invShiftRows, Spec.invSubBytes, Spec.at_, xorBytes, wordsOf,
    List.range_succ]

theorem lastCol_inv_spec (K : List Nat) (rounds i : Nat) (t : List Nat)
    (a a1 a2 a3 b b0 b2 b3 c c0 c1 c3 d d0 d1 d2 k0 k1 k2 k3 : UInt8)
    (h0 : idx t i = .ok (wordB a a1 a2 a3)) (h1 : idx t ((i + 3) % 4) = .ok (wordB b0 b b2 b3))
    (h2 : idx t ((i + 2) % 4) = .ok (wordB c0 c1 c c3)) (h3 : idx t ((i + 1) % 4) = .ok (wordB d0 d1 d2 d))
    (hk : idx K (4*rounds + i) = .ok (wordB k0 k1 k2 k3)) :
    ∃ l, Model.lastCol Gen.Si K t 3 2 1 rounds i = .ok l ∧
      l.map UInt8.ofNat = [Spec.invSbox a ^^^ k0, Spec.invSbox b ^^^ k1, Spec.invSbox c ^^^ k2, Spec.invSbox d ^^^ k3] := by
  obtain ⟨e1, e2, e3, e4⟩ := shr_bytes k0 k1 k2 k3
  have hm : (Model.lastCol Gen.Si K t 3 2 1 rounds i).map (fun l => l.map UInt8.ofNat) =
      .ok [Spec.invSbox a ^^^ k0, Spec.invSbox b ^^^ k1, Spec.invSbox c ^^^ k2, Spec.invSbox d ^^^ k3] := by
    simp only [Model.lastCol, h0, h1, h2, h3, hk, bind, Except.bind, pure, Except.pure, Except.map,
      (byteOf_wordB a a1 a2 a3).1, (byteOf_wordB b0 b b2 b3).2.1, (byteOf_wordB c0 c1 c c3).2.2.1,
      (byteOf_wordB d0 d1 d2 d).2.2.2, Si_lookup _ a.toNat_lt, Si_lookup _ b.toNat_lt, Si_lookup _ c.toNat_lt,
      Si_lookup _ d.toNat_lt, low_xor _ _ (invSboxN_lt _ a.toNat_lt), low_xor _ _ (invSboxN_lt _ b.toNat_lt),
      low_xor _ _ (invSboxN_lt _ c.toNat_lt), low_xor _ _ (invSboxN_lt _ d.toNat_lt), e1, e2, e3, e4,
      List.map_cons, List.map_nil, ofNat_xor8, Spec.invSbox]
    simp
  cases h : Model.lastCol Gen.Si K t 3 2 1 rounds i with
  | error e => rw [h] at hm; simp [Except.map] at hm
  | ok l => rw [h] at hm; simp only [Except.map, Except.ok.injEq] at hm; exact ⟨l, rfl, hm⟩

end Tls.Crypto.Aes
