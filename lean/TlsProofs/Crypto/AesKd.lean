import TlsProofs.Crypto.AesInvEq
/-
  C09 (growth) — the decryption key schedule `Kd` of `Rijndael.__init__` is the modified schedule of
  FIPS-197 §5.3.5 (round keys reversed, InvMixColumns on rounds 1 .. Nr-1 through U1..U4).
-/
set_option linter.unusedSimpArgs false
namespace Tls.Crypto.Aes
open Tls Tls.Crypto

attribute [local irreducible] Spec.sboxN Spec.ginvN Spec.invSboxN

/-- InvMixColumns on one column -/
def invCol : List UInt8 → List UInt8
  | [a, b, c, d] =>
    [Spec.gmul 14 a ^^^ Spec.gmul 11 b ^^^ Spec.gmul 13 c ^^^ Spec.gmul 9 d,
     Spec.gmul 9 a ^^^ Spec.gmul 14 b ^^^ Spec.gmul 11 c ^^^ Spec.gmul 13 d,
     Spec.gmul 13 a ^^^ Spec.gmul 9 b ^^^ Spec.gmul 14 c ^^^ Spec.gmul 11 d,
     Spec.gmul 11 a ^^^ Spec.gmul 13 b ^^^ Spec.gmul 9 c ^^^ Spec.gmul 14 d]
  | x => x

theorem uWord_val (a b c d : UInt8) : Model.uWord (wordB a b c d) = .ok (wd (invCol [a, b, c, d])) := by
  obtain ⟨h1, h2, h3, h4⟩ := byteOf_wordB a b c d
  have ga := gmul_bounds_inv _ a.toNat_lt
  have gb := gmul_bounds_inv _ b.toNat_lt
  have gc := gmul_bounds_inv _ c.toNat_lt
  have gd := gmul_bounds_inv _ d.toNat_lt
  have x := @xor_lt256
  simp only [Model.uWord, h1, h2, h3, h4, (uTab_lookup _ a.toNat_lt).1, (uTab_lookup _ b.toNat_lt).2.1,
    (uTab_lookup _ c.toNat_lt).2.2.1, (uTab_lookup _ d.toNat_lt).2.2.2, bind, Except.bind, pure, Except.pure]
  rw [word_xor _ _ _ _ _ _ _ _ ga.1 ga.2.2.1 ga.2.1 gb.2.2.2 gb.1 gb.2.2.1,
    word_xor _ _ _ _ _ _ _ _ (x _ _ ga.1 gb.2.2.2) (x _ _ ga.2.2.1 gb.1) (x _ _ ga.2.1 gb.2.2.1) gc.2.1 gc.2.2.2 gc.1,
    word_xor _ _ _ _ _ _ _ _ (x _ _ (x _ _ ga.1 gb.2.2.2) gc.2.1) (x _ _ (x _ _ ga.2.2.1 gb.1) gc.2.2.2)
      (x _ _ (x _ _ ga.2.1 gb.2.2.1) gc.1) gd.2.2.1 gd.2.1 gd.2.2.2]
  have e : ∀ (cc : UInt8) (n : Nat) (y : UInt8), cc.toNat = n → Spec.gmulN n y.toNat < 256 →
      (Spec.gmul cc y).toNat = Spec.gmulN n y.toNat := by
    intro cc n y hc hlt
    rw [gmulc_toNat cc _ (by rw [hc]; exact hlt), hc]
  simp only [wd, invCol, wordB, UInt8.toNat_xor, e 14 14 _ rfl ga.2.2.2, e 14 14 _ rfl gb.2.2.2, e 14 14 _ rfl gc.2.2.2,
    e 14 14 _ rfl gd.2.2.2, e 9 9 _ rfl ga.1, e 9 9 _ rfl gb.1, e 9 9 _ rfl gc.1, e 9 9 _ rfl gd.1,
    e 11 11 _ rfl ga.2.1, e 11 11 _ rfl gb.2.1, e 11 11 _ rfl gc.2.1, e 11 11 _ rfl gd.2.1,
    e 13 13 _ rfl ga.2.2.1, e 13 13 _ rfl gb.2.2.1, e 13 13 _ rfl gc.2.2.1, e 13 13 _ rfl gd.2.2.1]

theorem uWord_wd (x : List UInt8) (h : x.length = 4) : Model.uWord (wd x) = .ok (wd (invCol x)) := by
  obtain ⟨a, b, c, d, rfl⟩ := exists4 x h
  exact uWord_val a b c d

theorem invCol_length (x : List UInt8) (h : x.length = 4) : (invCol x).length = 4 := by
  obtain ⟨a, b, c, d, rfl⟩ := exists4 x h
  rfl

/-- row `r` of the decryption schedule as byte words -/
def kdRow (w : List (List UInt8)) (R r : Nat) : List (List UInt8) :=
  let row := (w.drop (4 * (R - r))).take 4
  if 1 ≤ r ∧ r < R then row.map invCol else row

def kdWords (w : List (List UInt8)) (R : Nat) : List (List UInt8) := (List.range (R + 1)).flatMap (kdRow w R)

theorem mapM_ok_map {α β γ : Type} (f : β → Except Err γ) (h : α → β) (g : α → γ) : ∀ (l : List α),
    (∀ x ∈ l, f (h x) = .ok (g x)) → (l.map h).mapM f = .ok (l.map g) := by
  intro l
  induction l with
  | nil => intro _; rfl
  | cons x xs ih =>
    intro hl
    rw [List.map_cons, List.mapM_cons, hl x List.mem_cons_self, ih (fun y hy => hl y (List.mem_cons_of_mem _ hy))]
    rfl

theorem mkKd_spec (w : List (List UInt8)) (hw : ∀ x ∈ w, x.length = 4) (R : Nat) :
    Model.mkKd (w.map wd) R = .ok ((kdWords w R).map wd) := by
  unfold Model.mkKd
  have hrows : (List.range (R + 1)).mapM (fun r =>
      (if 1 ≤ r ∧ r < R then (((w.map wd).drop (4 * (R - r))).take 4).mapM Model.uWord
       else pure (((w.map wd).drop (4 * (R - r))).take 4) : Except Err (List Nat))) =
      .ok ((List.range (R + 1)).map fun r => (kdRow w R r).map wd) := by
    apply mapM_ok
    intro r _
    have hrow : ((w.map wd).drop (4 * (R - r))).take 4 = ((w.drop (4 * (R - r))).take 4).map wd := by
      rw [List.map_take, List.map_drop]
    rw [hrow]
    by_cases h : 1 ≤ r ∧ r < R
    · rw [if_pos h]
      simp only [kdRow, h, and_self, if_true, List.map_map]
      apply mapM_ok_map
      intro x hx
      exact uWord_wd x (hw x (List.mem_of_mem_drop (List.mem_of_mem_take hx)))
    · rw [if_neg h]
      simp only [kdRow, h, if_false]
      rfl
  simp only [bind, Except.bind, pure, Except.pure] at hrows ⊢
  rw [hrows]
  simp [kdWords, List.flatMap_def, List.map_flatten]
  rfl

theorem flatMap_chunk {α : Type} (g : Nat → List α) : ∀ (n r : Nat), (∀ i, i < n → (g i).length = 4) → r < n →
    ((((List.range n).flatMap g).drop (4 * r)).take 4 = g r ∧ ((List.range n).flatMap g).length = 4 * n) := by
  intro n
  induction n with
  | zero => intro r _ hr; omega
  | succ n ih =>
    intro r hg hr
    have hlen : ((List.range n).flatMap g).length = 4 * n := by
      cases n with
      | zero => simp
      | succ m => exact (ih 0 (fun i hi => hg i (by omega)) (by omega)).2
    rw [List.range_succ, List.flatMap_append]
    simp only [List.flatMap_cons, List.flatMap_nil, List.append_nil]
    refine ⟨?_, by rw [List.length_append, hlen, hg n (by omega)]; omega⟩
    by_cases hrn : r < n
    · have := (ih r (fun i hi => hg i (by omega)) hrn).1
      rw [List.drop_append_of_le_length (by rw [hlen]; omega),
        List.take_append_of_le_length (by rw [List.length_drop, hlen]; omega), this]
    · have hr' : r = n := by omega
      subst hr'
      rw [List.drop_left' hlen, List.take_of_length_le (Nat.le_of_eq (hg r (by omega)))]

theorem kdRow_length (w : List (List UInt8)) (R r : Nat) (hr : r ≤ R) (hlen : w.length = 4 * (R + 1)) :
    (kdRow w R r).length = 4 := by
  unfold kdRow
  have : ((w.drop (4 * (R - r))).take 4).length = 4 := by
    rw [List.length_take, List.length_drop, hlen]; omega
  split
  · rw [List.length_map]; exact this
  · exact this

theorem kdWords_words (w : List (List UInt8)) (hw : ∀ x ∈ w, x.length = 4) (R : Nat) :
    ∀ x ∈ kdWords w R, x.length = 4 := by
  intro x hx
  simp only [kdWords, List.mem_flatMap] at hx
  obtain ⟨r, _, hx⟩ := hx
  unfold kdRow at hx
  split at hx
  · obtain ⟨y, hy, rfl⟩ := List.mem_map.mp hx
    exact invCol_length y (hw y (List.mem_of_mem_drop (List.mem_of_mem_take hy)))
  · exact hw x (List.mem_of_mem_drop (List.mem_of_mem_take hx))

theorem invCol_flatten (x0 x1 x2 x3 : List UInt8) (h0 : x0.length = 4) (h1 : x1.length = 4) (h2 : x2.length = 4)
    (h3 : x3.length = 4) :
    ([x0, x1, x2, x3].map invCol).flatten = Spec.invMixColumns [x0, x1, x2, x3].flatten := by
  obtain ⟨a0, a1, a2, a3, rfl⟩ := exists4 x0 h0
  obtain ⟨b0, b1, b2, b3, rfl⟩ := exists4 x1 h1
  obtain ⟨c0, c1, c2, c3, rfl⟩ := exists4 x2 h2
  obtain ⟨d0, d1, d2, d3, rfl⟩ := exists4 x3 h3
  simp [invCol, Spec.invMixColumns, Spec.at_, List.range_succ]

/-- round key `r` of the model's decryption schedule = the modified schedule of §5.3.5 -/
theorem kd_roundKey (w : List (List UInt8)) (hw : ∀ x ∈ w, x.length = 4) (R r : Nat) (hr : r ≤ R)
    (hlen : w.length = 4 * (R + 1)) :
    Spec.roundKey (kdWords w R) r = Spec.dkOf (Spec.roundKey w) R r := by
  have hc := (flatMap_chunk (kdRow w R) (R + 1) r (fun i hi => kdRow_length w R i (by omega) hlen) (by omega)).1
  rw [Spec.roundKey, kdWords, hc, kdRow, Spec.dkOf, Spec.roundKey]
  have hd := drop4 w (4 * (R - r)) [] (by rw [hlen]; omega)
  by_cases h : 1 ≤ r ∧ r < R
  · simp only [h, and_self, if_true, hd]
    have hm : ∀ k, k < 4 → (w.getD (4 * (R - r) + k) []).length = 4 := by
      intro k hk
      have hlt : 4 * (R - r) + k < w.length := by rw [hlen]; omega
      apply hw
      rw [List.getD_eq_getElem?_getD, List.getElem?_eq_getElem hlt]
      exact List.getElem_mem hlt
    have m0 := hm 0 (by decide)
    rw [Nat.add_zero] at m0
    exact invCol_flatten _ _ _ _ m0 (hm 1 (by decide)) (hm 2 (by decide)) (hm 3 (by decide))
  · simp only [h, if_false]

theorem kdWords_length (w : List (List UInt8)) (R : Nat) (hlen : w.length = 4 * (R + 1)) :
    (kdWords w R).length = 4 * (R + 1) :=
  (flatMap_chunk (kdRow w R) (R + 1) 0 (fun i hi => kdRow_length w R i (by omega) hlen) (by omega)).2

end Tls.Crypto.Aes
