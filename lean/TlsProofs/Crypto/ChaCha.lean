import TlsModel.Crypto.ChaCha
/-
  C09 — ChaCha20: the Python-int model computes RFC 8439 (helper lemmas).
-/
set_option linter.unusedSimpArgs false
namespace Tls.Crypto.ChaCha
open Tls Tls.Crypto

theorem and_mask32 (x : Nat) : x &&& 0xffffffff = x % 2^32 := by
  have : (0xffffffff : Nat) = 2^32 - 1 := by decide
  rw [this, Nat.and_two_pow_sub_one_eq_mod]

theorem rotl_toNat (w : BitVec 32) (c : Nat) (hc : c < 32) :
    (w.rotateLeft c).toNat = ((w.toNat <<< c) &&& 0xffffffff) ||| (w.toNat >>> (32 - c)) := by
  rw [and_mask32]
  simp [BitVec.rotateLeft, BitVec.rotateLeftAux, Nat.mod_eq_of_lt hc, BitVec.toNat_shiftLeft]

theorem add_toNat (a b : BitVec 32) : (a + b).toNat = (a.toNat + b.toNat) &&& 0xffffffff := by
  rw [and_mask32, BitVec.toNat_add]

theorem qrArith_spec (a b c d : BitVec 32) :
    Model.qrArith a.toNat b.toNat c.toNat d.toNat =
      ((Spec.quarterRound a b c d).1.toNat, (Spec.quarterRound a b c d).2.1.toNat,
       (Spec.quarterRound a b c d).2.2.1.toNat, (Spec.quarterRound a b c d).2.2.2.toNat) := by
  simp only [Model.qrArith, Spec.quarterRound, rotl_toNat _ 16 (by decide), rotl_toNat _ 12 (by decide),
    rotl_toNat _ 8 (by decide), rotl_toNat _ 7 (by decide), add_toNat, BitVec.toNat_xor]

def toNats (s : Spec.State) : List Nat := s.toList.map BitVec.toNat

theorem idx_toNats (s : Spec.State) (i : Fin 16) : idx (toNats s) i.val = .ok (s[i]).toNat := by
  have : (toNats s)[i.val]? = some (s[i]).toNat := by
    simp [toNats]
  simp [idx, this]

theorem setIdx_toNats (s : Spec.State) (i : Fin 16) (v : BitVec 32) :
    setIdx (toNats s) i.val v.toNat = .ok (toNats (s.set i v)) := by
  have hl : i.val < (toNats s).length := by simp [toNats]
  rw [setIdx, if_pos hl, toNats, toNats, Vector.toList_set, List.map_set]

theorem quarterRound_spec (s : Spec.State) (x y z w : Fin 16) :
    Model.quarterRound (toNats s) (x.val, y.val, z.val, w.val) = .ok (toNats (Spec.qround s x y z w)) := by
  simp only [Model.quarterRound, idx_toNats, qrArith_spec, Spec.qround, setIdx_toNats, bind, Except.bind]

theorem quarterRound_spec' (s : Spec.State) (x y z w : Fin 16) (a b c d : Nat)
    (ha : a = x.val) (hb : b = y.val) (hc : c = z.val) (hd : d = w.val) :
    Model.quarterRound (toNats s) (a, b, c, d) = .ok (toNats (Spec.qround s x y z w)) := by
  subst ha hb hc hd; exact quarterRound_spec s x y z w

theorem doubleRound_spec (s : Spec.State) :
    Model.doubleRound (toNats s) = .ok (toNats (Spec.innerBlock s)) := by
  simp only [Model.doubleRound, Model.roundMixupBox, List.foldlM, Spec.innerBlock]
  rw [quarterRound_spec' s 0 4 8 12 0 4 8 12 rfl rfl rfl rfl]
  simp only [bind, Except.bind]
  rw [quarterRound_spec' _ 1 5 9 13 1 5 9 13 rfl rfl rfl rfl]
  simp only [bind, Except.bind]
  rw [quarterRound_spec' _ 2 6 10 14 2 6 10 14 rfl rfl rfl rfl]
  simp only [bind, Except.bind]
  rw [quarterRound_spec' _ 3 7 11 15 3 7 11 15 rfl rfl rfl rfl]
  simp only [bind, Except.bind]
  rw [quarterRound_spec' _ 0 5 10 15 0 5 10 15 rfl rfl rfl rfl]
  simp only [bind, Except.bind]
  rw [quarterRound_spec' _ 1 6 11 12 1 6 11 12 rfl rfl rfl rfl]
  simp only [bind, Except.bind]
  rw [quarterRound_spec' _ 2 7 8 13 2 7 8 13 rfl rfl rfl rfl]
  simp only [bind, Except.bind]
  rw [quarterRound_spec' _ 3 4 9 14 3 4 9 14 rfl rfl rfl rfl]
  rfl

theorem iterM_doubleRound (n : Nat) (s : Spec.State) :
    iterM n Model.doubleRound (toNats s) = .ok (toNats (Spec.iter Spec.innerBlock n s)) := by
  induction n generalizing s with
  | zero => rfl
  | succ n ih => simp only [iterM, doubleRound_spec, Spec.iter, bind, Except.bind, ih]

theorem leNum_lt (b : Bytes) : leNum b < 256 ^ b.length := by
  induction b with
  | nil => simp [leNum]
  | cons x xs ih =>
    have := x.toNat_lt
    simp only [leNum, List.length_cons, Nat.pow_succ]
    omega

theorem wordOfBytes_toNat (b : Bytes) : (Spec.wordOfBytes b).toNat = leNum (b.take 4) := by
  have h := leNum_lt (b.take 4)
  have h2 : (b.take 4).length ≤ 4 := by simp [List.length_take]; omega
  have h3 : 256 ^ (b.take 4).length ≤ 256 ^ 4 := Nat.pow_le_pow_right (by decide) h2
  simp only [Spec.wordOfBytes, BitVec.toNat_ofNat]
  exact Nat.mod_eq_of_lt (by omega)


theorem words8 (key : Bytes) (h : key.length = 32) :
    Model.bytearrayToWords key =
      [leNum (key.take 4), leNum ((key.drop 4).take 4), leNum ((key.drop 8).take 4),
       leNum ((key.drop 12).take 4), leNum ((key.drop 16).take 4), leNum ((key.drop 20).take 4),
       leNum ((key.drop 24).take 4), leNum ((key.drop 28).take 4)] := by
  simp [Model.bytearrayToWords, h, List.range_succ]

theorem words3 (nonce : Bytes) (h : nonce.length = 12) :
    Model.bytearrayToWords nonce =
      [leNum (nonce.take 4), leNum ((nonce.drop 4).take 4), leNum ((nonce.drop 8).take 4)] := by
  simp [Model.bytearrayToWords, h, List.range_succ]

theorem initState_spec (key nonce : Bytes) (counter : Nat) (hk : key.length = 32)
    (hn : nonce.length = 12) (hc : counter < 2^32) :
    Model.constants ++ Model.bytearrayToWords key ++ [counter] ++ Model.bytearrayToWords nonce =
      toNats (Spec.initState key (BitVec.ofNat 32 counter) nonce) := by
  rw [words8 key hk, words3 nonce hn]
  simp [toNats, Spec.initState, Model.constants, wordOfBytes_toNat, Nat.mod_eq_of_lt hc]

theorem zipAdd_spec (a b : Spec.State) :
    List.zipWith (fun st w => (st + w) &&& 0xffffffff) (toNats a) (toNats b) =
      toNats (Vector.zipWith (· + ·) a b) := by
  simp only [toNats, Vector.toList_zipWith, List.zipWith_map, List.map_zipWith, add_toNat]

theorem chachaBlock_spec (key nonce : Bytes) (counter : Nat) (hk : key.length = 32)
    (hn : nonce.length = 12) (hc : counter < 2^32) :
    Model.chachaBlock (Model.bytearrayToWords key) counter (Model.bytearrayToWords nonce) 20 =
      .ok (toNats (Vector.zipWith (· + ·) (Spec.initState key (BitVec.ofNat 32 counter) nonce)
        (Spec.iter Spec.innerBlock 10 (Spec.initState key (BitVec.ofNat 32 counter) nonce)))) := by
  simp only [Model.chachaBlock, initState_spec key nonce counter hk hn hc, iterM_doubleRound,
    bind, Except.bind, pure, Except.pure, zipAdd_spec]

theorem packL_spec (w : BitVec 32) : Model.packL w.toNat = .ok (Spec.wordBytes w) := by
  have h := w.isLt
  simp only [Model.packL, h, if_true, leBytes, Spec.wordBytes]
  have e1 : w.toNat / 256 % 256 = w.toNat / 2^8 % 256 := by omega
  have e2 : w.toNat / 256 / 256 % 256 = w.toNat / 2^16 % 256 := by omega
  have e3 : w.toNat / 256 / 256 / 256 % 256 = w.toNat / 2^24 % 256 := by omega
  rw [e1, e2, e3]

theorem mapM_packL (l : List (BitVec 32)) :
    (l.map BitVec.toNat).mapM Model.packL = .ok (l.map Spec.wordBytes) := by
  induction l with
  | nil => rfl
  | cons x xs ih =>
    simp only [List.map_cons, List.mapM_cons, packL_spec, ih, bind, Except.bind, pure, Except.pure]

theorem wordToBytearray_spec (s : Spec.State) :
    Model.wordToBytearray (toNats s) = .ok (s.toList.flatMap Spec.wordBytes) := by
  have hl : ¬ (toNats s).length ≠ 16 := by simp [toNats]
  rw [Model.wordToBytearray, if_neg hl]
  simp only [toNats, mapM_packL, bind, Except.bind, pure, Except.pure, List.flatMap_def]


theorem blockBytes_spec (key nonce : Bytes) (counter : Nat) (hk : key.length = 32)
    (hn : nonce.length = 12) (hc : counter < 2^32) :
    (Model.chachaBlock (Model.bytearrayToWords key) counter (Model.bytearrayToWords nonce) 20 >>=
      Model.wordToBytearray) = .ok (Spec.block key (BitVec.ofNat 32 counter) nonce) := by
  rw [chachaBlock_spec key nonce counter hk hn hc]
  simp only [bind, Except.bind, wordToBytearray_spec, Spec.block]

theorem length_flatMap_wordBytes (l : List (BitVec 32)) :
    (l.flatMap Spec.wordBytes).length = 4 * l.length := by
  induction l with
  | nil => rfl
  | cons x xs ih => simp only [List.flatMap_cons, List.length_append, ih, List.length_cons]; simp [Spec.wordBytes]; omega

theorem block_length (key nonce : Bytes) (c : BitVec 32) : (Spec.block key c nonce).length = 64 := by
  simp only [Spec.block, length_flatMap_wordBytes, Vector.length_toList]

theorem xorBytes_comm (a b : Bytes) : xorBytes a b = xorBytes b a := by
  induction a generalizing b with
  | nil => cases b <;> rfl
  | cons x xs ih =>
    cases b with
    | nil => rfl
    | cons y ys => simp only [xorBytes, List.zipWith_cons_cons] at *; rw [ih, UInt8.xor_comm]

theorem xorBytes_append_right (l a b : Bytes) :
    xorBytes l (a ++ b) = xorBytes (l.take a.length) a ++ xorBytes (l.drop a.length) b := by
  induction a generalizing l with
  | nil => simp [xorBytes]
  | cons x xs ih =>
    cases l with
    | nil => simp [xorBytes]
    | cons y ys =>
      simp only [xorBytes] at ih
      simp [xorBytes, ih]

theorem divceil_step (n : Nat) (h : 0 < n) : divceil n 64 = divceil (n - 64) 64 + 1 := by
  unfold divceil
  by_cases h64 : n < 64
  · have : n - 64 = 0 := by omega
    rw [this]
    have : n / 64 = 0 := by omega
    have : n % 64 ≠ 0 := by omega
    simp [*]
  · have e1 : n / 64 = (n - 64) / 64 + 1 := by omega
    have e2 : n % 64 = (n - 64) % 64 := by omega
    rw [e1, e2]; omega

theorem keyStream_succ (key nonce : Bytes) (c n : Nat) :
    Spec.keyStream key c nonce (n+1) =
      Spec.block key (BitVec.ofNat 32 c) nonce ++ Spec.keyStream key (c+1) nonce n := by
  simp only [Spec.keyStream, List.range_succ_eq_map, List.flatMap_cons, List.flatMap_map, Nat.add_zero]
  congr 2
  funext j
  congr 2; omega

theorem chunks_nil (n : Nat) : chunks n [] = [] := by
  rw [chunks]; simp

theorem chunks_cons (n : Nat) (b : Bytes) (hn : n ≠ 0) (hb : b ≠ []) :
    chunks n b = b.take n :: chunks n (b.drop n) := by
  rw [chunks]; simp [hn, hb]

/-- the loop of `encrypt` computes §2.4 for every plaintext, as long as the block counter
    stays a 32-bit word -/
theorem encryptBlocks_spec (key nonce : Bytes) (c : Nat) (hk : key.length = 32) (hn : nonce.length = 12) :
    ∀ (n : Nat) (pt : Bytes) (i : Nat), pt.length = n → c + i + divceil pt.length 64 ≤ 2^32 →
    Model.encryptBlocks { key := Model.bytearrayToWords key, nonce := Model.bytearrayToWords nonce,
                          counter := c, rounds := 20 } i (chunks 64 pt) =
      .ok (Spec.encrypt key (c + i) nonce pt) := by
  intro n
  induction n using Nat.strongRecOn with
  | _ n ih =>
    intro pt i hlen hb
    by_cases hpt : pt = []
    · subst hpt
      rw [chunks_nil]
      simp [Model.encryptBlocks, Spec.encrypt, divceil, Spec.keyStream, xorBytes]
    · have hpos : 0 < pt.length := List.length_pos_iff.mpr hpt
      rw [chunks_cons 64 pt (by decide) hpt, Model.encryptBlocks]
      have hd := divceil_step pt.length hpos
      have hc : c + i < 2^32 := by omega
      have hb' := blockBytes_spec key nonce (c+i) hk hn hc
      simp only [bind, Except.bind] at hb' ⊢
      generalize hcb : Model.chachaBlock (Model.bytearrayToWords key) (c + i) (Model.bytearrayToWords nonce) 20 = cb at hb' ⊢
      cases cb with
      | error e => simp at hb'
      | ok ws =>
        simp only at hb' ⊢
        rw [hb']
        have hlt : (pt.drop 64).length < n := by simp only [List.length_drop]; omega
        have := ih (pt.drop 64).length hlt (pt.drop 64) (i+1) rfl (by simp only [List.length_drop]; omega)
        simp only [this, pure, Except.pure]
        congr 1
        rw [Spec.encrypt, Spec.encrypt, hd, keyStream_succ, xorBytes_append_right, block_length,
          xorBytes_comm (pt.take 64), List.length_drop, Nat.add_assoc]

end Tls.Crypto.ChaCha
