import TlsModel.Crypto.Poly1305
import TlsProofs.Crypto.ChaCha
/-
  C09 — Poly1305: the accumulator loop computes the polynomial of RFC 8439 §2.5 (helper lemmas).
-/
namespace Tls.Crypto.Poly1305
open Tls Tls.Crypto

theorem leBytesToNum_eq (data : Bytes) : Model.leBytesToNum data = leNum data := by
  rw [Model.leBytesToNum, List.foldl_reverse]
  induction data with
  | nil => rfl
  | cons x xs ih => rw [List.foldr_cons, ih, leNum, Nat.shiftLeft_eq]; omega

theorem numToLe_eq (n num : Nat) : Model.numToLe n num = leBytes n num := by
  induction n generalizing num with
  | zero => rfl
  | succ n ih =>
    have h : num &&& 0xff = num % 256 := Nat.and_two_pow_sub_one_eq_mod num 8
    simp only [Model.numToLe, leBytes, ih, h, Nat.shiftRight_eq_div_pow]

theorem leBytes_mod (n x : Nat) : leBytes n (x % 256 ^ n) = leBytes n x := by
  induction n generalizing x with
  | zero => rfl
  | succ n ih =>
    have h1 : x % 256 ^ (n+1) % 256 = x % 256 := by
      rw [Nat.pow_succ, Nat.mul_comm, Nat.mod_mul]; omega
    have h2 : x % 256 ^ (n+1) / 256 = x / 256 % 256 ^ n := by
      rw [Nat.pow_succ, Nat.mul_comm, Nat.mod_mul_right_div_self]
    simp only [leBytes, h1, h2, ih]

theorem leNum_append (a b : Bytes) : leNum (a ++ b) = leNum a + 256 ^ a.length * leNum b := by
  induction a with
  | nil => simp [leNum]
  | cons x xs ih => simp only [List.cons_append, leNum, ih, List.length_cons, Nat.pow_succ]; grind

theorem coeff_eq (block : Bytes) : leNum (block ++ [1]) = Spec.coeff block := by
  rw [leNum_append, Spec.coeff]
  have : (256 : Nat) ^ block.length = 2 ^ (8 * block.length) := by
    rw [Nat.pow_mul]
  simp [leNum, this]

/-- Horner with a reduction in every step = the polynomial reduced once -/
theorem horner_eq (r P : Nat) (cs : List Nat) (a : Nat) :
    cs.foldl (fun acc c => (r * (acc + c)) % P) a % P = (a * r ^ cs.length + Spec.polyEval r cs) % P := by
  induction cs generalizing a with
  | nil => simp [Spec.polyEval]
  | cons c cs ih =>
    rw [List.foldl_cons, ih, Spec.polyEval, List.length_cons]
    have e : a * r ^ (cs.length + 1) + (c * r ^ (cs.length + 1) + Spec.polyEval r cs)
        = r * (a + c) * r ^ cs.length + Spec.polyEval r cs := by
      rw [Nat.pow_succ]; grind
    rw [e, Nat.add_mod, Nat.mul_mod, Nat.mod_mod, ← Nat.mul_mod, ← Nat.add_mod]

theorem slices_eq_chunks (data : Bytes) :
    (List.range (divceil data.length 16)).map (fun i => (data.drop (i*16)).take 16) = chunks 16 data := by
  generalize hn : data.length = n
  induction n using Nat.strongRecOn generalizing data with
  | _ n ih =>
    by_cases hd : data = []
    · subst hd; simp at hn; subst hn; simp [ChaCha.chunks_nil, divceil]
    · have hpos : 0 < data.length := List.length_pos_iff.mpr hd
      rw [ChaCha.chunks_cons 16 data (by decide) hd]
      have hstep : divceil n 16 = divceil (n - 16) 16 + 1 := by
        unfold divceil
        by_cases h16 : n < 16
        · have e0 : n - 16 = 0 := by omega
          have e1 : n / 16 = 0 := by omega
          have e2 : n % 16 ≠ 0 := by omega
          simp [e0, e1, e2]
        · have e1 : n / 16 = (n - 16) / 16 + 1 := by omega
          have e2 : n % 16 = (n - 16) % 16 := by omega
          rw [e1, e2]; omega
      rw [hstep, List.range_succ_eq_map, List.map_cons, List.map_map]
      have hl : (data.drop 16).length = n - 16 := by simp [hn]
      rw [← ih (n - 16) (by omega) (data.drop 16) hl]
      simp only [Nat.zero_mul, List.drop_zero, List.cons.injEq, true_and]
      apply List.map_congr_left
      intro i _
      simp only [Function.comp, List.drop_drop]
      congr 2; omega


theorem byte_and_split (x y : UInt8) (A M : Nat) :
    (x.toNat + 256 * A) &&& (y.toNat + 256 * M) = (x &&& y).toNat + 256 * (A &&& M) := by
  have hx := x.toNat_lt
  have hy := y.toNat_lt
  have hm := @Nat.and_mod_two_pow (x.toNat + 256 * A) (y.toNat + 256 * M) 8
  have hd := @Nat.and_div_two_pow (x.toNat + 256 * A) (y.toNat + 256 * M) 8
  have e1 : (x.toNat + 256 * A) % 2^8 = x.toNat := by omega
  have e2 : (y.toNat + 256 * M) % 2^8 = y.toNat := by omega
  have e3 : (x.toNat + 256 * A) / 2^8 = A := by omega
  have e4 : (y.toNat + 256 * M) / 2^8 = M := by omega
  rw [e1, e2] at hm
  rw [e3, e4] at hd
  rw [UInt8.toNat_and]
  omega

theorem leNum_and (a m : Bytes) : leNum (List.zipWith (· &&& ·) a m) = leNum a &&& leNum m := by
  induction a generalizing m with
  | nil => simp [leNum]
  | cons x xs ih =>
    cases m with
    | nil => simp [leNum]
    | cons y ys => simp only [List.zipWith_cons_cons, leNum, ih, byte_and_split]

def clampMask : Bytes := [255, 255, 255, 15, 252, 255, 255, 15, 252, 255, 255, 15, 252, 255, 255, 15]

theorem clampBytes_eq (kb : Bytes) (h : kb.length = 16) :
    Spec.clampBytes kb = List.zipWith (· &&& ·) kb clampMask := by
  rcases kb with _ | ⟨b0, _ | ⟨b1, _ | ⟨b2, _ | ⟨b3, _ | ⟨b4, _ | ⟨b5, _ | ⟨b6, _ | ⟨b7, _ | ⟨b8, _ | ⟨b9,
    _ | ⟨b10, _ | ⟨b11, _ | ⟨b12, _ | ⟨b13, _ | ⟨b14, _ | ⟨b15, _ | ⟨b16, r⟩⟩⟩⟩⟩⟩⟩⟩⟩⟩⟩⟩⟩⟩⟩⟩⟩ <;>
    simp at h
  have h255 : ∀ b : UInt8, b &&& 255 = b := by
    intro b; apply UInt8.toNat_inj.mp; rw [UInt8.toNat_and]
    exact Nat.and_two_pow_sub_one_of_lt_two_pow (n := 8) b.toNat_lt
  simp [Spec.clampBytes, clampMask, List.mapIdx_cons, h255]

theorem clamp_eq (kb : Bytes) (h : kb.length = 16) :
    leNum (Spec.clampBytes kb) = leNum kb &&& 0x0ffffffc0ffffffc0ffffffc0fffffff := by
  rw [clampBytes_eq kb h, leNum_and]
  rfl

theorem foldl_lt (r P : Nat) (hP : 0 < P) (cs : List Nat) (a : Nat) (ha : a < P) :
    cs.foldl (fun acc c => (r * (acc + c)) % P) a < P := by
  induction cs generalizing a with
  | nil => exact ha
  | cons c cs ih => exact ih _ (Nat.mod_lt _ hP)

theorem P_eq : Model.P = Spec.p := by decide

theorem loop_eq (r P : Nat) (msg : Bytes) :
    (List.range (divceil msg.length 16)).foldl (fun acc i =>
        (r * (acc + Model.leBytesToNum ((msg.drop (i*16)).take 16 ++ [1]))) % P) 0 =
      ((chunks 16 msg).map Spec.coeff).foldl (fun acc c => (r * (acc + c)) % P) 0 := by
  rw [← slices_eq_chunks, List.map_map, List.foldl_map]
  simp only [Function.comp, leBytesToNum_eq, coeff_eq]

/-- `create_tag` on a fresh object computes the RFC 8439 §2.5 MAC, for every key and message -/
theorem createTag_spec (key msg : Bytes) (hk : key.length = 32) :
    ∃ st, Model.init key = .ok st ∧ (Model.createTag st msg).2 = Spec.mac key msg := by
  refine ⟨_, by rw [Model.init, if_neg (by simp [hk])], ?_⟩
  simp only [Model.createTag, Spec.mac]
  rw [loop_eq, Model.numTo16LeBytes, numToLe_eq, leBytesToNum_eq, leBytesToNum_eq,
    ← clamp_eq _ (by simp [hk]), ← P_eq]
  have hP : 0 < Model.P := by decide
  have hlt := foldl_lt (leNum (Spec.clampBytes (key.take 16))) Model.P hP
    ((chunks 16 msg).map Spec.coeff) 0 hP
  have hh := horner_eq (leNum (Spec.clampBytes (key.take 16))) Model.P ((chunks 16 msg).map Spec.coeff) 0
  rw [Nat.mod_eq_of_lt hlt, Nat.zero_mul, Nat.zero_add] at hh
  rw [hh, show (2:Nat)^128 = 256^16 from by decide, leBytes_mod]

end Tls.Crypto.Poly1305
