import TlsProofs.Crypto.Gcm
/-
  C09 — AES-GCM: CTR with inc32, seal / open = SP 800-38D, open ∘ seal, acceptance condition.
-/
set_option linter.unusedSimpArgs false
namespace Tls.Crypto.Gcm
open Tls Tls.Crypto Tls.Crypto.Modes

/-! ### the CTR object of AESGCM increments 128 bits; inc32 agrees while the low word does not wrap -/

theorem ctrStream_inc_eq (E : Bytes → Bytes) (m : Nat) (hm : m ≤ 128) : ∀ (n : Nat) (T : Bytes), T.length = 16 →
    lowBits m T + n ≤ 2 ^ m →
    Modes.Spec.ctrStream E (Modes.Spec.incM 128) n T = Modes.Spec.ctrStream E (Modes.Spec.incM m) n T := by
  intro n
  induction n with
  | zero => intro T _ _; simp only [Modes.Spec.ctrStream]
  | succ n ih =>
    intro T hT hlow
    rw [Modes.Spec.ctrStream, Modes.Spec.ctrStream]
    cases n with
    | zero => simp only [Modes.Spec.ctrStream]
    | succ k =>
      have h1 : lowBits m T + 1 < 2 ^ m := by omega
      have e : Modes.Spec.incM 128 T = Modes.Spec.incM m T := by
        rw [incM_128 T hT, incM_eq_succ m hm T hT h1]
      rw [e, ih _ (incM_length _ _) (by rw [lowBits_incM m hm T hT h1]; omega)]

theorem counterBlock_length (nonce : Bytes) (v : UInt8) (h : nonce.length = 12) :
    (Model.counterBlock nonce v).length = 16 := by simp [Model.counterBlock, h]

theorem lowBits_counterBlock (nonce : Bytes) (v : UInt8) :
    lowBits 32 (Model.counterBlock nonce v) = v.toNat := by
  unfold lowBits Model.counterBlock
  rw [beDecode_append]
  have : beDecode [0, 0, 0, v] = v.toNat := by simp [beDecode]
  rw [this, show ([0, 0, 0, v] : Bytes).length = 4 from rfl, show (256:Nat) ^ 4 = 2 ^ 32 from by decide,
    Nat.mul_add_mod_self_right]
  exact Nat.mod_eq_of_lt (by have := v.toNat_lt; omega)

theorem inc32_J0 (nonce : Bytes) (h : nonce.length = 12) :
    Spec.inc32 (nonce ++ [0, 0, 0, 1]) = Model.counterBlock nonce 2 := by
  have hl : (nonce ++ [0, 0, 0, 1] : Bytes).length = 16 := by simp [h]
  have hlow := lowBits_counterBlock nonce 1
  unfold Model.counterBlock at hlow
  rw [Spec.inc32, incM_eq_succ 32 (by decide) _ hl (by rw [hlow]; decide)]
  have e1 : beDecode ([0, 0, 0, 1] : Bytes) = 1 := by decide
  have e2 : beDecode ([0, 0, 0, 2] : Bytes) = 2 := by decide
  have d1 : beDecode (nonce ++ [0, 0, 0, 1]) + 1 = beDecode (nonce ++ [0, 0, 0, 2]) := by
    rw [beDecode_append, beDecode_append, e1, e2]
    simp only [List.length_cons, List.length_nil]
  have hl2 : (nonce ++ [0, 0, 0, 2] : Bytes).length = 16 := by simp [h]
  have := beEncode_beDecode (nonce ++ [0, 0, 0, 2])
  rw [hl2] at this
  rw [d1, this]
  rfl

/-- the CTR part of `seal`/`open` is GCTR from inc32(J0) -/
theorem gcm_ctr_spec (E : Bytes → Bytes) (hE : ∀ b, (E b).length = 16) (nonce p : Bytes) (hn : nonce.length = 12)
    (hp : divceil p.length 16 + 2 ≤ 2 ^ 32) :
    ∃ c', Modes.Model.ctrEncrypt E { counter := Model.counterBlock nonce 2, counterBytes := 0 } p =
      .ok (c', Spec.gctr E (Spec.inc32 (nonce ++ [0, 0, 0, 1])) p) ∧ c'.counterBytes = 0 := by
  have hl := counterBlock_length nonce 2 hn
  have hspec := ctrEncrypt_spec E hE { counter := Model.counterBlock nonce 2, counterBytes := 0 } p hl
    (Nat.zero_le _) (Or.inl rfl)
  simp only [widthOf, if_true] at hspec
  rw [hspec]
  refine ⟨{ counter := Modes.Spec.iterate (Modes.Spec.incM 128) (divceil p.length 16) (Model.counterBlock nonce 2),
            counterBytes := 0 }, ?_⟩
  have e : Modes.Spec.ctrEncrypt E (Modes.Spec.incM 128) (Model.counterBlock nonce 2) p =
      Spec.gctr E (Spec.inc32 (nonce ++ [0, 0, 0, 1])) p := by
    have hj := inc32_J0 nonce hn
    rw [Spec.gctr, hj]
    simp only [Modes.Spec.ctrEncrypt]
    have h2 : (2 : UInt8).toNat = 2 := rfl
    rw [ctrStream_inc_eq E 32 (by decide) _ _ hl (by rw [lowBits_counterBlock, h2]; omega)]
    rfl
  rw [e]
  exact ⟨rfl, rfl⟩


theorem new_spec (E : Bytes → Bytes) :
    Model.new E = .ok { productTable := (List.range 16).map (fun n => Gcm.E n 4 (beDecode (E (zeros 16)))) } := by
  simp only [Model.new, productTable_spec, bind, Except.bind, pure, Except.pure]

theorem gctr_length (E : Bytes → Bytes) (hE : ∀ b, (E b).length = 16) (icb x : Bytes) :
    (Spec.gctr E icb x).length = x.length := spec_ctr_length E _ hE icb x

theorem len_bound (n : Nat) (h : divceil n 16 + 2 ≤ 2 ^ 32) : 8 * n < 2 ^ 64 := by
  have : n ≤ 16 * divceil n 16 := by unfold divceil; split <;> omega
  omega

theorem aseal_spec (E : Bytes → Bytes) (hE : ∀ b, (E b).length = 16) (nonce p aad : Bytes)
    (hn : nonce.length = 12) (ha : 8 * aad.length < 2 ^ 64) (hp : divceil p.length 16 + 2 ≤ 2 ^ 32) :
    (Model.new E >>= fun o => Model.aseal E o nonce p aad) = .ok (Spec.aseal E nonce p aad) := by
  obtain ⟨c', hc, _⟩ := gcm_ctr_spec E hE nonce p hn hp
  have hcl : 8 * (Spec.gctr E (Spec.inc32 (nonce ++ [0, 0, 0, 1])) p).length < 2 ^ 64 := by
    rw [gctr_length E hE]; exact len_bound _ hp
  simp only [new_spec, bind, Except.bind, Model.aseal]
  rw [if_neg (by simp [hn])]
  simp only [bind, Except.bind, hc, auth_spec E hE nonce _ aad ha hcl, pure, Except.pure, Spec.aseal]

theorem aopen_spec (E : Bytes → Bytes) (hE : ∀ b, (E b).length = 16) (nonce ct aad : Bytes)
    (hn : nonce.length = 12) (ha : 8 * aad.length < 2 ^ 64) (hp : divceil (ct.length - 16) 16 + 2 ≤ 2 ^ 32) :
    (Model.new E >>= fun o => Model.aopen E o nonce ct aad) = .ok (Spec.aopen E nonce ct aad) := by
  simp only [new_spec, bind, Except.bind, Model.aopen, Spec.aopen]
  rw [if_neg (by simp [hn])]
  by_cases hs : ct.length < 16
  · simp [hs]
  · have hl : (ct.take (ct.length - 16)).length = ct.length - 16 := by simp
    have hcl : 8 * (ct.take (ct.length - 16)).length < 2 ^ 64 := by rw [hl]; exact len_bound _ hp
    obtain ⟨c', hc, _⟩ := gcm_ctr_spec E hE nonce (ct.take (ct.length - 16)) hn (by rw [hl]; exact hp)
    simp only [hs, if_false, bind, Except.bind, auth_spec E hE nonce _ aad ha hcl]
    by_cases ht : ct.drop (ct.length - 16) = Spec.tag E nonce aad (ct.take (ct.length - 16))
    · simp [ht, hc, pure, Except.pure]
    · simp [ht, pure, Except.pure]

theorem tag_length (E : Bytes → Bytes) (hE : ∀ b, (E b).length = 16) (nonce aad c : Bytes) :
    (Spec.tag E nonce aad c).length = 16 := by
  simp [Spec.tag, xorBytes_length, hE, length_beEncode]

theorem gctr_involution (E : Bytes → Bytes) (hE : ∀ b, (E b).length = 16) (icb x : Bytes) :
    Spec.gctr E icb (Spec.gctr E icb x) = x := spec_ctr_involution E _ hE icb x

theorem spec_aopen_aseal (E : Bytes → Bytes) (hE : ∀ b, (E b).length = 16) (nonce p aad : Bytes) :
    Spec.aopen E nonce (Spec.aseal E nonce p aad) aad = some p := by
  have htl := tag_length E hE nonce aad (Spec.gctr E (Spec.inc32 (nonce ++ [0, 0, 0, 1])) p)
  simp only [Spec.aopen, Spec.aseal, List.length_append, htl]
  have h1 : ¬ (Spec.gctr E (Spec.inc32 (nonce ++ [0, 0, 0, 1])) p).length + 16 < 16 := by omega
  simp only [h1, if_false, Nat.add_sub_cancel]
  rw [List.take_left' rfl, List.drop_left' rfl]
  simp [gctr_involution E hE]

/-! ### histories on one object: no hidden state -/

/-- what `__init__` establishes and every call preserves -/
def InvS (E : Bytes → Bytes) (o : Model.ObjS) : Prop :=
  o.productTable = (List.range 16).map (fun n => Gcm.E n 4 (beDecode (E (zeros 16)))) ∧ o.ctr.counterBytes = 0

theorem newS_inv (E : Bytes → Bytes) : ∃ o, Model.newS E = .ok o ∧ InvS E o := by
  refine ⟨{ productTable := (List.range 16).map (fun n => Gcm.E n 4 (beDecode (E (zeros 16)))),
            ctr := { counter := zeros 16 ++ zeros (16 - (zeros 16).length), counterBytes := 16 - (zeros 16).length } }, ?_, ?_⟩
  · simp only [Model.newS, new_spec, Modes.Model.ctrInit, bind, Except.bind, pure, Except.pure]
    rw [if_neg (by simp [zeros])]
  · exact ⟨rfl, by simp [zeros]⟩

theorem ctr_with (c : Modes.Model.Ctr) (x : Bytes) (h : c.counterBytes = 0) :
    { c with counter := x } = ({ counter := x, counterBytes := 0 } : Modes.Model.Ctr) := by
  cases c; simp_all

/-- `seal` on an object with ANY earlier history gives the SP 800-38D value: the position an earlier
    call left in the shared CTR sub-object does not enter the result -/
theorem asealS_spec (E : Bytes → Bytes) (hE : ∀ b, (E b).length = 16) (o : Model.ObjS) (ho : InvS E o)
    (nonce p aad : Bytes) (hn : nonce.length = 12) (ha : 8 * aad.length < 2 ^ 64)
    (hp : divceil p.length 16 + 2 ≤ 2 ^ 32) :
    ∃ o', Model.asealS E o nonce p aad = .ok (o', Spec.aseal E nonce p aad) ∧ InvS E o' := by
  obtain ⟨c', hc, hcb⟩ := gcm_ctr_spec E hE nonce p hn hp
  have hcl : 8 * (Spec.gctr E (Spec.inc32 (nonce ++ [0, 0, 0, 1])) p).length < 2 ^ 64 := by
    rw [gctr_length E hE]; exact len_bound _ hp
  refine ⟨{ o with ctr := c' }, ?_, ⟨ho.1, hcb⟩⟩
  rw [Model.asealS, if_neg (by simp [hn]), ctr_with _ _ ho.2]
  simp only [bind, Except.bind, hc, ho.1, auth_spec E hE nonce _ aad ha hcl, pure, Except.pure, Spec.aseal]

theorem aopenS_spec (E : Bytes → Bytes) (hE : ∀ b, (E b).length = 16) (o : Model.ObjS) (ho : InvS E o)
    (nonce ct aad : Bytes) (hn : nonce.length = 12) (ha : 8 * aad.length < 2 ^ 64)
    (hp : divceil (ct.length - 16) 16 + 2 ≤ 2 ^ 32) :
    ∃ o', Model.aopenS E o nonce ct aad = .ok (o', Spec.aopen E nonce ct aad) ∧ InvS E o' := by
  rw [Model.aopenS, if_neg (by simp [hn]), Spec.aopen]
  by_cases hs : ct.length < 16
  · exact ⟨o, by simp [hs], ho⟩
  · have hl : (ct.take (ct.length - 16)).length = ct.length - 16 := by simp
    have hcl : 8 * (ct.take (ct.length - 16)).length < 2 ^ 64 := by rw [hl]; exact len_bound _ hp
    obtain ⟨c', hc, hcb⟩ := gcm_ctr_spec E hE nonce (ct.take (ct.length - 16)) hn (by rw [hl]; exact hp)
    simp only [hs, if_false, bind, Except.bind, ho.1, auth_spec E hE nonce _ aad ha hcl, ctr_with _ _ ho.2]
    by_cases ht : ct.drop (ct.length - 16) = Spec.tag E nonce aad (ct.take (ct.length - 16))
    · exact ⟨{ o with ctr := c' }, by simp [ht, hc, pure, Except.pure, ho.1], ⟨ho.1, hcb⟩⟩
    · exact ⟨o, by simp [ht, pure, Except.pure], ho⟩

/-- a call the standard covers -/
def ValidCall (c : Model.Call) : Prop :=
  c.nonce.length = 12 ∧ 8 * c.aad.length < 2 ^ 64 ∧
  (if c.isSeal then divceil c.data.length 16 + 2 ≤ 2 ^ 32 else divceil (c.data.length - 16) 16 + 2 ≤ 2 ^ 32)

/-- what SP 800-38D says the call returns, as a function of the call's own arguments only -/
def specCall (E : Bytes → Bytes) (c : Model.Call) : Option Bytes :=
  if c.isSeal then some (Spec.aseal E c.nonce c.data c.aad) else Spec.aopen E c.nonce c.data c.aad

theorem callS_spec (E : Bytes → Bytes) (hE : ∀ b, (E b).length = 16) (o : Model.ObjS) (ho : InvS E o)
    (c : Model.Call) (hc : ValidCall c) :
    ∃ o', Model.callS E o c = .ok (o', specCall E c) ∧ InvS E o' := by
  obtain ⟨hn, ha, hp⟩ := hc
  unfold Model.callS specCall
  by_cases hs : c.isSeal
  · simp only [hs, if_true] at hp ⊢
    obtain ⟨o', h1, h2⟩ := asealS_spec E hE o ho c.nonce c.data c.aad hn ha hp
    exact ⟨o', by rw [h1]; rfl, h2⟩
  · simp only [hs, if_false, Bool.false_eq_true] at hp ⊢
    exact aopenS_spec E hE o ho c.nonce c.data c.aad hn ha hp

/-- ANY history of seal/open calls on one object returns, call by call, the standard's value of that
    call alone: results never depend on earlier calls -/
theorem runCalls_spec (E : Bytes → Bytes) (hE : ∀ b, (E b).length = 16) : ∀ (cs : List Model.Call) (o : Model.ObjS),
    InvS E o → (∀ c ∈ cs, ValidCall c) →
    ∃ o', Model.runCalls E o cs = .ok (o', cs.map (specCall E)) ∧ InvS E o' := by
  intro cs
  induction cs with
  | nil => intro o ho _; exact ⟨o, rfl, ho⟩
  | cons c cs ih =>
    intro o ho hv
    obtain ⟨o1, h1, hi1⟩ := callS_spec E hE o ho c (hv c List.mem_cons_self)
    obtain ⟨o2, h2, hi2⟩ := ih o1 hi1 (fun x hx => hv x (List.mem_cons_of_mem _ hx))
    exact ⟨o2, by simp only [Model.runCalls, h1, h2, bind, Except.bind, pure, Except.pure, List.map_cons], hi2⟩

end Tls.Crypto.Gcm
