import TlsProofs.Crypto.AesDecRounds
/-
  C09 (growth) — `Rijndael.decrypt` with a given decryption key schedule = EqInvCipher (FIPS-197 §5.3.5).
-/
set_option linter.unusedSimpArgs false
namespace Tls.Crypto.Aes
open Tls Tls.Crypto

attribute [local irreducible] Spec.sboxN Spec.gmulN Spec.ginvN Spec.invSboxN

theorem roundStep_inv_generic (K : List Nat) (hK : ∀ w ∈ K, w < 2 ^ 32) (r : Nat) (hr : 4 * r + 3 < K.length)
    (s : Spec.State) (hs : s.length = 16) :
    Model.roundStep Gen.T5 Gen.T6 Gen.T7 Gen.T8 K 3 2 1 (wordsOf s) r =
      .ok (wordsOf (Spec.addRoundKey (Spec.invMixColumns (Spec.invShiftRows (Spec.invSubBytes s))) (rkBytes K r))) := by
  obtain ⟨s0, s1, s2, s3, s4, s5, s6, s7, s8, s9, s10, s11, s12, s13, s14, s15, rfl⟩ := exists16 s hs
  exact roundStep_inv_spec K r _ _ _ _ _ _ _ _ _ _ _ _ _ _ _ _ _ _ _ _ _ _ _ _ _ _ _ _ _ _ _ _
    (idx_key K hK (4*r + 0) (by omega)) (idx_key K hK (4*r + 1) (by omega)) (idx_key K hK (4*r + 2) (by omega))
    (idx_key K hK (4*r + 3) (by omega))

theorem round_inv_length (s k : Spec.State) (hk : k.length = 16) :
    (Spec.addRoundKey (Spec.invMixColumns (Spec.invShiftRows (Spec.invSubBytes s))) k).length = 16 := by
  simp [Spec.addRoundKey, xorBytes, Spec.invMixColumns, hk, List.range_succ]

theorem rounds_inv_fold (K : List Nat) (hK : ∀ w ∈ K, w < 2 ^ 32) : ∀ (n start : Nat) (s : Spec.State),
    s.length = 16 → 4 * (start + n) ≤ K.length →
    (List.range' start n).foldlM (Model.roundStep Gen.T5 Gen.T6 Gen.T7 Gen.T8 K 3 2 1) (wordsOf s) =
      .ok (wordsOf ((List.range' start n).foldl (fun s r =>
        Spec.addRoundKey (Spec.invMixColumns (Spec.invShiftRows (Spec.invSubBytes s))) (rkBytes K r)) s)) := by
  intro n
  induction n with
  | zero => intro start s _ _; simp [pure, Except.pure]
  | succ n ih =>
    intro start s hs hlen
    rw [List.range'_succ, List.foldlM_cons, roundStep_inv_generic K hK start (by omega) s hs]
    simp only [bind, Except.bind, List.foldl_cons]
    exact ih (start + 1) _ (round_inv_length _ _ (rkBytes_length K start)) (by omega)

theorem lastStep_inv_generic (K : List Nat) (hK : ∀ w ∈ K, w < 2 ^ 32) (rounds : Nat) (hr : 4 * rounds + 3 < K.length)
    (s : Spec.State) (hs : s.length = 16) :
    ((List.range 4).mapM (Model.lastCol Gen.Si K (wordsOf s) 3 2 1 rounds)).map (fun res => res.flatten.map UInt8.ofNat) =
      .ok (Spec.addRoundKey (Spec.invShiftRows (Spec.invSubBytes s)) (rkBytes K rounds)) := by
  obtain ⟨s0, s1, s2, s3, s4, s5, s6, s7, s8, s9, s10, s11, s12, s13, s14, s15, rfl⟩ := exists16 s hs
  obtain ⟨l0, e0, m0⟩ := lastCol_inv_spec K rounds 0 (wordsOf [s0, s1, s2, s3, s4, s5, s6, s7, s8, s9, s10, s11, s12, s13, s14, s15])
    s0 s1 s2 s3 s13 s12 s14 s15 s10 s8 s9 s11 s7 s4 s5 s6 _ _ _ _ rfl rfl rfl rfl (idx_key K hK (4*rounds + 0) (by omega))
  obtain ⟨l1, e1, m1⟩ := lastCol_inv_spec K rounds 1 (wordsOf [s0, s1, s2, s3, s4, s5, s6, s7, s8, s9, s10, s11, s12, s13, s14, s15])
    s4 s5 s6 s7 s1 s0 s2 s3 s14 s12 s13 s15 s11 s8 s9 s10 _ _ _ _ rfl rfl rfl rfl (idx_key K hK (4*rounds + 1) (by omega))
  obtain ⟨l2, e2, m2⟩ := lastCol_inv_spec K rounds 2 (wordsOf [s0, s1, s2, s3, s4, s5, s6, s7, s8, s9, s10, s11, s12, s13, s14, s15])
    s8 s9 s10 s11 s5 s4 s6 s7 s2 s0 s1 s3 s15 s12 s13 s14 _ _ _ _ rfl rfl rfl rfl (idx_key K hK (4*rounds + 2) (by omega))
  obtain ⟨l3, e3, m3⟩ := lastCol_inv_spec K rounds 3 (wordsOf [s0, s1, s2, s3, s4, s5, s6, s7, s8, s9, s10, s11, s12, s13, s14, s15])
    s12 s13 s14 s15 s9 s8 s10 s11 s6 s4 s5 s7 s3 s0 s1 s2 _ _ _ _ rfl rfl rfl rfl (idx_key K hK (4*rounds + 3) (by omega))
  simp only [show List.range 4 = [0, 1, 2, 3] from rfl, List.mapM_cons, List.mapM_nil, e0, e1, e2, e3, bind, Except.bind,
    pure, Except.pure, Except.map, List.flatten_cons, List.flatten_nil, List.map_append, m0, m1, m2, m3, List.map_nil]
  simp [Spec.addRoundKey, Spec.invShiftRows, Spec.invSubBytes, Spec.at_, xorBytes, rkBytes, be4, List.range_succ]

/-- `Rijndael.decrypt` on a decryption key schedule `K` of 4·(rounds+1) words is the equivalent inverse
    cipher of FIPS-197 §5.3.5 with round key r = the bytes of K[4r .. 4r+3] -/
theorem crypt_dec_spec (K : List Nat) (hK : ∀ w ∈ K, w < 2 ^ 32) (rounds : Nat) (hr : 1 ≤ rounds)
    (hlen : K.length = 4 * (rounds + 1)) (block : Bytes) (hb : block.length = 16) :
    Model.crypt K rounds Gen.T5 Gen.T6 Gen.T7 Gen.T8 Gen.Si Gen.shiftsDec block =
      .ok (Spec.eqInvCipherRK (rkBytes K) rounds block) := by
  obtain ⟨b0, b1, b2, b3, b4, b5, b6, b7, b8, b9, b10, b11, b12, b13, b14, b15, rfl⟩ := exists16 block hb
  have hsh : Gen.shiftsDec = [3, 2, 1] := shifts_and_rounds.2.1
  rw [Model.crypt, if_neg (by simp), hsh]
  have hf := firstStep_spec K b0 b1 b2 b3 b4 b5 b6 b7 b8 b9 b10 b11 b12 b13 b14 b15 _ _ _ _ _ _ _ _ _ _ _ _ _ _ _ _
    (idx_key K hK 0 (by omega)) (idx_key K hK 1 (by omega)) (idx_key K hK 2 (by omega)) (idx_key K hK 3 (by omega))
  have hs0 : (Spec.addRoundKey [b0, b1, b2, b3, b4, b5, b6, b7, b8, b9, b10, b11, b12, b13, b14, b15] (rkBytes K 0)).length = 16 := by
    simp [Spec.addRoundKey, xorBytes, rkBytes, be4]
  have hfold := rounds_inv_fold K hK (rounds - 1) 1 _ hs0 (by omega)
  have hfl : ((List.range' 1 (rounds - 1)).foldl (fun s r =>
      Spec.addRoundKey (Spec.invMixColumns (Spec.invShiftRows (Spec.invSubBytes s))) (rkBytes K r))
      (Spec.addRoundKey [b0, b1, b2, b3, b4, b5, b6, b7, b8, b9, b10, b11, b12, b13, b14, b15] (rkBytes K 0))).length = 16 := by
    generalize (List.range' 1 (rounds - 1)) = l
    generalize (Spec.addRoundKey [b0, b1, b2, b3, b4, b5, b6, b7, b8, b9, b10, b11, b12, b13, b14, b15] (rkBytes K 0)) = st at hs0
    induction l generalizing st with
    | nil => exact hs0
    | cons r rs ih => rw [List.foldl_cons]; exact ih _ (round_inv_length _ _ (rkBytes_length K r))
  have hlast := lastStep_inv_generic K hK rounds (by omega) _ hfl
  simp only [idx, List.getElem?_cons_zero, List.getElem?_cons_succ, bind, Except.bind]
  have hf' : Model.firstStep K [b0, b1, b2, b3, b4, b5, b6, b7, b8, b9, b10, b11, b12, b13, b14, b15] = .ok (wordsOf (Spec.addRoundKey [b0, b1, b2, b3, b4, b5, b6, b7, b8, b9, b10, b11, b12, b13, b14, b15] (rkBytes K 0))) := hf
  rw [hf']
  simp only [hfold]
  cases hm : (List.range 4).mapM (Model.lastCol Gen.Si K (wordsOf ((List.range' 1 (rounds - 1)).foldl (fun s r =>
      Spec.addRoundKey (Spec.invMixColumns (Spec.invShiftRows (Spec.invSubBytes s))) (rkBytes K r))
      (Spec.addRoundKey [b0, b1, b2, b3, b4, b5, b6, b7, b8, b9, b10, b11, b12, b13, b14, b15] (rkBytes K 0)))) 3 2 1 rounds) with
  | error e => rw [hm] at hlast; simp [Except.map] at hlast
  | ok res =>
    rw [hm] at hlast
    simp only [Except.map, Except.ok.injEq] at hlast
    simp only [pure, Except.pure, hlast, Spec.eqInvCipherRK]

end Tls.Crypto.Aes
