import TlsProofs.Crypto.AesEnc
/-
  C09 (growth) — the key-schedule loops of `Rijndael.__init__` = FIPS-197 §5.2 KeyExpansion.
-/
set_option linter.unusedSimpArgs false
namespace Tls.Crypto.Aes
open Tls Tls.Crypto

attribute [local irreducible] Spec.sboxN Spec.gmulN Spec.ginvN

/-- a 4-byte word of the specification as the model's integer -/
def wd : List UInt8 → Nat
  | [a, b, c, d] => wordB a b c d
  | _ => 0

theorem shl24 (a : Nat) : a <<< 24 = word a 0 0 0 := by simp [word]
theorem shl16 (a : Nat) : a <<< 16 = word 0 a 0 0 := by simp [word]
theorem shl8 (a : Nat) : a <<< 8 = word 0 0 a 0 := by simp [word]
theorem shl0 (a : Nat) : a = word 0 0 0 a := by simp [word]

theorem and_ff (x : Nat) (h : x < 256) : x &&& 0xFF = x :=
  Nat.and_two_pow_sub_one_of_lt_two_pow (n := 8) h

theorem word_sum (a b c d : Nat) (hb : b < 256) (hc : c < 256) (hd : d < 256) :
    word a 0 0 0 ^^^ word 0 b 0 0 ^^^ word 0 0 c 0 ^^^ word 0 0 0 d = word a b c d := by
  have z : (0:Nat) < 256 := by decide
  rw [word_xor _ _ _ _ _ _ _ _ z z z hb z z]
  simp only [Nat.xor_zero, Nat.zero_xor]
  rw [word_xor _ _ _ _ _ _ _ _ hb z z z hc z]
  simp only [Nat.xor_zero, Nat.zero_xor]
  rw [word_xor _ _ _ _ _ _ _ _ hb hc z z z hd]
  simp only [Nat.xor_zero, Nat.zero_xor]

/-- the xor-assembled words of the key schedule are words of bytes -/
theorem xorWord (a b c d : Nat) (hb : b < 256) (hc : c < 256) (hd : d < 256) :
    (a <<< 24) ^^^ (b <<< 16) ^^^ (c <<< 8) ^^^ d = word a b c d := by
  have e : (a <<< 24) ^^^ (b <<< 16) ^^^ (c <<< 8) ^^^ d =
      word a 0 0 0 ^^^ word 0 b 0 0 ^^^ word 0 0 c 0 ^^^ word 0 0 0 d := by simp [word]
  rw [e, word_sum a b c d hb hc hd]

theorem subRotWord_spec (a b c d : UInt8) :
    Model.subRotWord (wordB a b c d) = .ok (wordB (Spec.sbox b) (Spec.sbox c) (Spec.sbox d) (Spec.sbox a)) := by
  obtain ⟨h1, h2, h3, h4⟩ := byteOf_wordB a b c d
  have ha := sboxN_lt _ a.toNat_lt
  have hb := sboxN_lt _ b.toNat_lt
  have hc := sboxN_lt _ c.toNat_lt
  have hd := sboxN_lt _ d.toNat_lt
  simp only [Model.subRotWord, h1, h2, h3, h4]
  simp only [S_lookup _ a.toNat_lt, S_lookup _ b.toNat_lt, S_lookup _ c.toNat_lt, S_lookup _ d.toNat_lt]
  simp only [bind, Except.bind, pure, Except.pure]
  rw [and_ff _ ha, and_ff _ hb, and_ff _ hc, and_ff _ hd, xorWord _ _ _ _ hc hd ha]
  unfold wordB
  rw [sbox_toNat, sbox_toNat, sbox_toNat, sbox_toNat]

theorem xor4_rev (p q r s : Nat) : p ^^^ q ^^^ r ^^^ s = s ^^^ r ^^^ q ^^^ p := by ac_rfl

theorem subWord_spec (a b c d : UInt8) :
    Model.subWord (wordB a b c d) = .ok (wordB (Spec.sbox a) (Spec.sbox b) (Spec.sbox c) (Spec.sbox d)) := by
  obtain ⟨h1, h2, h3, h4⟩ := byteOf_wordB a b c d
  have ha := sboxN_lt _ a.toNat_lt
  have hb := sboxN_lt _ b.toNat_lt
  have hc := sboxN_lt _ c.toNat_lt
  have hd := sboxN_lt _ d.toNat_lt
  simp only [Model.subWord, h1, h2, h3, h4]
  simp only [S_lookup _ a.toNat_lt, S_lookup _ b.toNat_lt, S_lookup _ c.toNat_lt, S_lookup _ d.toNat_lt]
  simp only [bind, Except.bind, pure, Except.pure]
  rw [and_ff _ ha, and_ff _ hb, and_ff _ hc, and_ff _ hd]
  rw [xor4_rev, xorWord _ _ _ _ hb hc hd]
  unfold wordB
  rw [sbox_toNat, sbox_toNat, sbox_toNat, sbox_toNat]

theorem rconWord (rc : UInt8) : (rc.toNat &&& 0xFF) <<< 24 = wordB rc 0 0 0 := by
  rw [and_ff _ rc.toNat_lt, shl24]; rfl


/-! ### one pass of the evolution loop on an explicit window -/

def kg0 (old prev : List UInt8) (rc : UInt8) : List UInt8 :=
  xorBytes old (xorBytes ((prev.drop 1 ++ prev.take 1).map Spec.sbox) [rc, 0, 0, 0])
def kgs (old prev : List UInt8) : List UInt8 := xorBytes old (prev.map Spec.sbox)
def kgx (old prev : List UInt8) : List UInt8 := xorBytes old prev

theorem idx_lit {α : Type} (l : List α) (i : Nat) (v : α) (h : l[i]? = some v) : idx l i = .ok v := by
  simp [idx, h]

theorem expandStep4 (a0 a1 a2 a3 b0 b1 b2 b3 c0 c1 c2 c3 d0 d1 d2 d3 rc : UInt8) (W : List Nat) (rp RKC : Nat)
    (hrc : aidx Gen.rcon rp = .ok rc.toNat) :
    Model.expandStep 4 RKC ([wordB a0 a1 a2 a3, wordB b0 b1 b2 b3, wordB c0 c1 c2 c3, wordB d0 d1 d2 d3], W, rp) =
      let A' := kg0 [a0, a1, a2, a3] [d0, d1, d2, d3] rc
      let B' := kgx [b0, b1, b2, b3] A'
      let C' := kgx [c0, c1, c2, c3] B'
      let D' := kgx [d0, d1, d2, d3] C'
      .ok ([wd A', wd B', wd C', wd D'], (W ++ [wd A', wd B', wd C', wd D']).take RKC, rp + 1) := by
  simp only [Model.expandStep, Model.xorChain, idx, setIdx, List.getElem?_cons_zero, List.getElem?_cons_succ,
    bind, Except.bind, pure, Except.pure, subRotWord_spec, hrc, rconWord, wordB_xor,
    show List.range' 1 (4 - 1) = [1, 2, 3] from rfl, List.foldlM_cons, List.foldlM_nil, List.length_cons, List.length_nil,
    List.set_cons_zero, List.set_cons_succ]
  simp [kg0, kgx, xorBytes, wd, wordB_xor]

theorem expandStep6 (a0 a1 a2 a3 b0 b1 b2 b3 c0 c1 c2 c3 d0 d1 d2 d3 e0 e1 e2 e3 f0 f1 f2 f3 rc : UInt8) (W : List Nat) (rp RKC : Nat)
    (hrc : aidx Gen.rcon rp = .ok rc.toNat) :
    Model.expandStep 6 RKC ([wordB a0 a1 a2 a3, wordB b0 b1 b2 b3, wordB c0 c1 c2 c3, wordB d0 d1 d2 d3, wordB e0 e1 e2 e3, wordB f0 f1 f2 f3], W, rp) =
      let A' := kg0 [a0, a1, a2, a3] [f0, f1, f2, f3] rc
      let B' := kgx [b0, b1, b2, b3] A'
      let C' := kgx [c0, c1, c2, c3] B'
      let D' := kgx [d0, d1, d2, d3] C'
      let E' := kgx [e0, e1, e2, e3] D'
      let F' := kgx [f0, f1, f2, f3] E'
      .ok ([wd A', wd B', wd C', wd D', wd E', wd F'], (W ++ [wd A', wd B', wd C', wd D', wd E', wd F']).take RKC, rp + 1) := by
  simp only [Model.expandStep, Model.xorChain, idx, setIdx, List.getElem?_cons_zero, List.getElem?_cons_succ,
    bind, Except.bind, pure, Except.pure, subRotWord_spec, hrc, rconWord, wordB_xor,
    show List.range' 1 (6 - 1) = [1, 2, 3, 4, 5] from rfl, List.foldlM_cons, List.foldlM_nil, List.length_cons, List.length_nil,
    List.set_cons_zero, List.set_cons_succ]
  simp [kg0, kgx, xorBytes, wd, wordB_xor]

theorem expandStep8 (a0 a1 a2 a3 b0 b1 b2 b3 c0 c1 c2 c3 d0 d1 d2 d3 e0 e1 e2 e3 f0 f1 f2 f3 g0 g1 g2 g3 h0 h1 h2 h3 rc : UInt8) (W : List Nat) (rp RKC : Nat)
    (hrc : aidx Gen.rcon rp = .ok rc.toNat) :
    Model.expandStep 8 RKC ([wordB a0 a1 a2 a3, wordB b0 b1 b2 b3, wordB c0 c1 c2 c3, wordB d0 d1 d2 d3, wordB e0 e1 e2 e3, wordB f0 f1 f2 f3, wordB g0 g1 g2 g3, wordB h0 h1 h2 h3], W, rp) =
      let A' := kg0 [a0, a1, a2, a3] [h0, h1, h2, h3] rc
      let B' := kgx [b0, b1, b2, b3] A'
      let C' := kgx [c0, c1, c2, c3] B'
      let D' := kgx [d0, d1, d2, d3] C'
      let E' := kgs [e0, e1, e2, e3] D'
      let F' := kgx [f0, f1, f2, f3] E'
      let G' := kgx [g0, g1, g2, g3] F'
      let H' := kgx [h0, h1, h2, h3] G'
      .ok ([wd A', wd B', wd C', wd D', wd E', wd F', wd G', wd H'],
           (W ++ [wd A', wd B', wd C', wd D', wd E', wd F', wd G', wd H']).take RKC, rp + 1) := by
  simp only [Model.expandStep, Model.xorChain, idx, setIdx, List.getElem?_cons_zero, List.getElem?_cons_succ,
    bind, Except.bind, pure, Except.pure, subRotWord_spec, subWord_spec, hrc, rconWord, wordB_xor,
    show List.range' 1 (8 / 2 - 1) = [1, 2, 3] from rfl, show List.range' (8 / 2 + 1) (8 - (8 / 2 + 1)) = [5, 6, 7] from rfl,
    List.foldlM_cons, List.foldlM_nil, List.length_cons, List.length_nil,
    List.set_cons_zero, List.set_cons_succ]
  simp [Model.xorChain, idx, setIdx, subWord_spec, wordB_xor, bind, Except.bind, pure, Except.pure,
    show List.range' 1 3 = [1, 2, 3] from rfl, show List.range' 5 3 = [5, 6, 7] from rfl]
  simp [kg0, kgx, kgs, xorBytes, wd, wordB_xor]

/-! ### the same pass in the specification: Nk iterations of the KeyExpansion loop -/

theorem getD_suffix {α : Type} (pre L : List α) (k : Nat) (d : α) :
    (pre ++ L).getD (pre.length + k) d = L.getD k d := by
  simp [List.getD_eq_getElem?_getD, List.getElem?_append_right]

theorem getD_suffix0 {α : Type} (pre L : List α) (d : α) :
    (pre ++ L).getD pre.length d = L.getD 0 d := by
  simpa using getD_suffix pre L 0 d

theorem spec_group4 (pre : List (List UInt8)) (A B C D : List UInt8) (rc : UInt8) (hp : pre.length % 4 = 0) :
    (List.range' (pre.length + 4) 4).foldl (Spec.kstep 4) (pre ++ [A, B, C, D], rc) =
      let A' := kg0 A D rc
      let B' := kgx B A'
      let C' := kgx C B'
      let D' := kgx D C'
      (pre ++ [A, B, C, D] ++ [A', B', C', D'], Spec.xtime rc) := by
  have m0 : (pre.length + 4) % 4 = 0 := by omega
  have m1 : (pre.length + 4 + 1) % 4 = 1 := by omega
  have m2 : (pre.length + 4 + 1 + 1) % 4 = 2 := by omega
  have m3 : (pre.length + 4 + 1 + 1 + 1) % 4 = 3 := by omega
  simp only [List.range'_succ, List.range'_zero, List.foldl_cons, List.foldl_nil, Spec.kstep, m0, m1, m2, m3,
    List.append_assoc, List.cons_append, List.nil_append]
  simp [getD_suffix, getD_suffix0, kg0, kgx, Nat.add_assoc]

theorem spec_group6 (pre : List (List UInt8)) (A B C D E F : List UInt8) (rc : UInt8) (hp : pre.length % 6 = 0) :
    (List.range' (pre.length + 6) 6).foldl (Spec.kstep 6) (pre ++ [A, B, C, D, E, F], rc) =
      let A' := kg0 A F rc
      let B' := kgx B A'
      let C' := kgx C B'
      let D' := kgx D C'
      let E' := kgx E D'
      let F' := kgx F E'
      (pre ++ [A, B, C, D, E, F] ++ [A', B', C', D', E', F'], Spec.xtime rc) := by
  have m0 : (pre.length + 6) % 6 = 0 := by omega
  have m1 : (pre.length + 6 + 1) % 6 = 1 := by omega
  have m2 : (pre.length + 6 + 1 + 1) % 6 = 2 := by omega
  have m3 : (pre.length + 6 + 1 + 1 + 1) % 6 = 3 := by omega
  have m4 : (pre.length + 6 + 1 + 1 + 1 + 1) % 6 = 4 := by omega
  have m5 : (pre.length + 6 + 1 + 1 + 1 + 1 + 1) % 6 = 5 := by omega
  simp only [List.range'_succ, List.range'_zero, List.foldl_cons, List.foldl_nil, Spec.kstep, m0, m1, m2, m3, m4, m5,
    List.append_assoc, List.cons_append, List.nil_append]
  simp [getD_suffix, getD_suffix0, kg0, kgx, Nat.add_assoc]

theorem spec_group8 (pre : List (List UInt8)) (A B C D E F G H : List UInt8) (rc : UInt8) (hp : pre.length % 8 = 0) :
    (List.range' (pre.length + 8) 8).foldl (Spec.kstep 8) (pre ++ [A, B, C, D, E, F, G, H], rc) =
      let A' := kg0 A H rc
      let B' := kgx B A'
      let C' := kgx C B'
      let D' := kgx D C'
      let E' := kgs E D'
      let F' := kgx F E'
      let G' := kgx G F'
      let H' := kgx H G'
      (pre ++ [A, B, C, D, E, F, G, H] ++ [A', B', C', D', E', F', G', H'], Spec.xtime rc) := by
  have m0 : (pre.length + 8) % 8 = 0 := by omega
  have m1 : (pre.length + 8 + 1) % 8 = 1 := by omega
  have m2 : (pre.length + 8 + 1 + 1) % 8 = 2 := by omega
  have m3 : (pre.length + 8 + 1 + 1 + 1) % 8 = 3 := by omega
  have m4 : (pre.length + 8 + 1 + 1 + 1 + 1) % 8 = 4 := by omega
  have m5 : (pre.length + 8 + 1 + 1 + 1 + 1 + 1) % 8 = 5 := by omega
  have m6 : (pre.length + 8 + 1 + 1 + 1 + 1 + 1 + 1) % 8 = 6 := by omega
  have m7 : (pre.length + 8 + 1 + 1 + 1 + 1 + 1 + 1 + 1) % 8 = 7 := by omega
  simp only [List.range'_succ, List.range'_zero, List.foldl_cons, List.foldl_nil, Spec.kstep, m0, m1, m2, m3, m4, m5, m6, m7,
    List.append_assoc, List.cons_append, List.nil_append]
  simp [getD_suffix, getD_suffix0, kg0, kgx, kgs, Nat.add_assoc]

end Tls.Crypto.Aes
