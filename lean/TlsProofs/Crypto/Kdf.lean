import TlsModel.Crypto.Kdf
import TlsProofs.Crypto.Chunks
import TlsProofs.Crypto.BE
/-
  C09 — HMAC / PRFs / HKDF over an abstract hash: model = RFC specification (helper lemmas).
-/
set_option linter.unusedSimpArgs false
namespace Tls.Crypto.Kdf
open Tls Tls.Crypto

/-- what is assumed of a hash: fixed output size, not larger than its block size -/
structure Hash.WF (h : Hash) : Prop where
  len : ∀ x, (h.H x).length = h.digestSize
  pos : 0 < h.digestSize
  le : h.digestSize ≤ h.blockSize

theorem le_divceil_mul (n d : Nat) (hd : 0 < d) : n ≤ divceil n d * d := by
  unfold divceil
  have h1 := Nat.div_add_mod n d
  have h2 := Nat.mod_lt n hd
  split
  · rename_i h0; rw [Nat.add_zero, Nat.mul_comm]; omega
  · rw [Nat.add_mul, Nat.one_mul, Nat.mul_comm]; omega

/-! ### HMAC -/

theorem hmacNew_spec (h : Hash) (wf : h.WF) (key : Bytes) :
    let k := if key.length > h.blockSize then h.H key else key
    let k0 := k ++ zeros (h.blockSize - k.length)
    Model.hmacNew h key none =
      { oKey := xorBytes k0 (List.replicate h.blockSize 0x5c),
        context := xorBytes k0 (List.replicate h.blockSize 0x36) } := by
  intro k k0
  have hk : k.length ≤ h.blockSize := by
    show (if key.length > h.blockSize then h.H key else key).length ≤ h.blockSize
    split
    · rw [wf.len]; exact wf.le
    · omega
  have hk0 : (if k.length < h.blockSize then k ++ zeros (h.blockSize - k.length) else k) = k0 := by
    show _ = k ++ zeros (h.blockSize - k.length)
    split
    · rfl
    · have : h.blockSize - k.length = 0 := by omega
      rw [this]; simp [zeros]
  simp only [Model.hmacNew]
  rw [show (if key.length > h.blockSize then h.H key else key) = k from rfl, hk0]

/-- an HMAC object fed `m1`, …: its digest is RFC 2104 HMAC of the concatenation -/
theorem hmac_update_digest (h : Hash) (wf : h.WF) (key : Bytes) (msgs : List Bytes) :
    Model.hmacDigest h (msgs.foldl Model.hmacUpdate (Model.hmacNew h key none)) =
      Spec.hmac h key msgs.flatten := by
  have hn := hmacNew_spec h wf key
  simp only at hn
  rw [hn]
  have : ∀ (l : List Bytes) (o : Model.HmacObj),
      l.foldl Model.hmacUpdate o = { o with context := o.context ++ l.flatten } := by
    intro l; induction l with
    | nil => intro o; simp
    | cons m ms ih => intro o; rw [List.foldl_cons, ih]; simp [Model.hmacUpdate]
  rw [this]
  simp only [Model.hmacDigest, Spec.hmac]

theorem hmac1 (h : Hash) (wf : h.WF) (key a : Bytes) :
    Model.hmacDigest h (Model.hmacUpdate (Model.hmacCopy (Model.hmacNew h key none)) a) = Spec.hmac h key a := by
  have := hmac_update_digest h wf key [a]
  simpa [Model.hmacCopy] using this

theorem hmac2 (h : Hash) (wf : h.WF) (key a b : Bytes) :
    Model.hmacDigest h (Model.hmacUpdate (Model.hmacUpdate (Model.hmacCopy (Model.hmacNew h key none)) a) b) =
      Spec.hmac h key (a ++ b) := by
  have := hmac_update_digest h wf key [a, b]
  simpa [Model.hmacCopy] using this

theorem hmac_length (h : Hash) (wf : h.WF) (key text : Bytes) : (Spec.hmac h key text).length = h.digestSize := by
  simp only [Spec.hmac]; exact wf.len _

/-! ### P_hash -/

theorem pStream_length (mac : Bytes → Bytes → Bytes) (dl : Nat) (hm : ∀ k m, (mac k m).length = dl)
    (secret seed : Bytes) : ∀ (n : Nat) (A : Bytes), (Spec.pStream mac secret seed n A).length = n * dl := by
  intro n; induction n with
  | zero => intro _; simp [Spec.pStream]
  | succ n ih => intro A; simp only [Spec.pStream, List.length_append, hm, ih, Nat.succ_mul]; omega

theorem pHashLoop_spec (h : Hash) (wf : h.WF) (secret seed : Bytes) (length : Nat) :
    ∀ (fuel n : Nat) (A out : Bytes), length - out.length ≤ fuel → length - out.length ≤ n * h.digestSize →
      Model.pHashLoop h (Model.hmacNew h secret) seed length fuel A out =
        .ok (out ++ (Spec.pStream (Spec.hmac h) secret seed n A).take (length - out.length)) := by
  intro fuel
  induction fuel with
  | zero =>
    intro n A out hf _
    have h0 : length - out.length = 0 := by omega
    have : ¬ out.length < length := by omega
    simp [Model.pHashLoop, this, h0]
  | succ fuel ih =>
    intro n A out hf hn
    rw [Model.pHashLoop]
    by_cases hlt : out.length < length
    · rw [if_pos hlt]
      simp only [hmac1 h wf, hmac2 h wf]
      have hdl := wf.pos
      obtain ⟨n', rfl⟩ : ∃ n', n = n' + 1 := by
        cases n with
        | zero => simp at hn; omega
        | succ n' => exact ⟨n', rfl⟩
      have hol : (Spec.hmac h secret (Spec.hmac h secret A ++ seed)).length = h.digestSize := hmac_length h wf _ _
      rw [Nat.succ_mul] at hn
      rw [ih n' _ _ (by rw [List.length_append, List.length_take, hol]; omega)
        (by rw [List.length_append, List.length_take, hol]; omega)]
      simp only [Spec.pStream, List.take_append, List.length_append, List.length_take, hol, List.append_assoc]
      have e1 : List.take (min (length - out.length) h.digestSize) (Spec.hmac h secret (Spec.hmac h secret A ++ seed)) =
          List.take (length - out.length) (Spec.hmac h secret (Spec.hmac h secret A ++ seed)) :=
        List.take_eq_take_iff.mpr (by rw [hol]; omega)
      have e2 : length - (out.length + min (min (length - out.length) h.digestSize) h.digestSize) =
          length - out.length - h.digestSize := by omega
      rw [e1, e2]
    · rw [if_neg hlt]
      have h0 : length - out.length = 0 := by omega
      simp [h0]

/-- `P_hash` = RFC 5246 §5 P_hash, exactly `length` bytes, for every secret, seed and length -/
theorem pHash_spec (h : Hash) (wf : h.WF) (secret seed : Bytes) (length : Nat) :
    Model.pHash h secret seed length = .ok (Spec.pHash (Spec.hmac h) h.digestSize secret seed length) := by
  rw [Model.pHash, pHashLoop_spec h wf secret seed length length (divceil length h.digestSize) seed []
    (by simp) (by simpa using le_divceil_mul length h.digestSize wf.pos)]
  simp [Spec.pHash]

theorem spec_pHash_length (mac : Bytes → Bytes → Bytes) (dl : Nat) (hd : 0 < dl)
    (hm : ∀ k m, (mac k m).length = dl) (secret seed : Bytes) (length : Nat) :
    (Spec.pHash mac dl secret seed length).length = length := by
  rw [Spec.pHash, List.length_take, pStream_length mac dl hm]
  have := le_divceil_mul length dl hd
  omega


/-! ### PRF (TLS 1.0 / 1.1) and PRF_1_2 -/

theorem xorInto_ok (n : Nat) (a b : Bytes) (ha : a.length = n) (hb : b.length = n) :
    Model.xorInto n a b = .ok (xorBytes a b) := by
  rw [Model.xorInto, if_neg (by omega)]
  simp [← ha, List.take_of_length_le (Nat.le_of_eq hb)]
  rw [List.take_of_length_le (by omega)]

theorem prf_spec (md5 sha1 : Hash) (w5 : md5.WF) (w1 : sha1.WF) (secret label seed : Bytes) (length : Nat) :
    Model.prf md5 sha1 secret label seed length = .ok (Spec.prf10 md5 sha1 secret label seed length) := by
  have hl5 := spec_pHash_length (Spec.hmac md5) md5.digestSize w5.pos (hmac_length md5 w5)
  have hl1 := spec_pHash_length (Spec.hmac sha1) sha1.digestSize w1.pos (hmac_length sha1 w1)
  have hdrop : secret.length - (secret.length + 1) / 2 = secret.length / 2 := by omega
  simp only [Model.prf, pHash_spec md5 w5, pHash_spec sha1 w1, bind, Except.bind, Spec.prf10, hdrop]
  exact xorInto_ok _ _ _ (hl5 _ _ _) (hl1 _ _ _)

theorem prf12_spec (h : Hash) (wf : h.WF) (secret label seed : Bytes) (length : Nat) :
    Model.prf12 h secret label seed length = .ok (Spec.prf12 h secret label seed length) := by
  rw [Model.prf12, pHash_spec h wf]; rfl

/-! ### PRF_SSL -/

theorem prfSslInner_eq (length : Nat) : ∀ (cs out : Bytes),
    Model.prfSslInner length out cs =
      (out ++ cs.take (length - out.length), decide (length - out.length < cs.length)) := by
  intro cs
  induction cs with
  | nil => intro out; simp [Model.prfSslInner]
  | cons c cs ih =>
    intro out
    rw [Model.prfSslInner]
    by_cases hge : out.length ≥ length
    · have : length - out.length = 0 := by omega
      simp [hge, this]
    · rw [if_neg hge, ih]
      have e : length - out.length = (length - (out ++ [c]).length) + 1 := by
        rw [List.length_append]; simp; omega
      rw [e]
      simp [List.take_succ_cons]

def sslBlock (md5 sha1 : Hash) (secret seed : Bytes) (x : Nat) : Bytes :=
  md5.H (secret ++ sha1.H (List.replicate (x+1) (UInt8.ofNat (65 + x)) ++ secret ++ seed))

def sslStream (md5 sha1 : Hash) (secret seed : Bytes) (n x : Nat) : Bytes :=
  (List.range n).flatMap fun i => sslBlock md5 sha1 secret seed (x + i)

theorem sslStream_succ (md5 sha1 : Hash) (secret seed : Bytes) (n x : Nat) :
    sslStream md5 sha1 secret seed (n+1) x =
      sslBlock md5 sha1 secret seed x ++ sslStream md5 sha1 secret seed n (x+1) := by
  simp only [sslStream, List.range_succ_eq_map, List.flatMap_cons, List.flatMap_map, Nat.add_zero]
  congr 2
  funext i
  congr 1; omega

theorem prfSsl_go (md5 sha1 : Hash) (hm : ∀ x, (md5.H x).length = 16) (secret seed : Bytes) (length : Nat) :
    ∀ (fuel x : Nat) (out : Bytes), out.length ≤ length →
      Model.prfSsl.go md5 sha1 secret seed length fuel x out =
        (out ++ sslStream md5 sha1 secret seed fuel x).take length ++ zeros (length - out.length - 16 * fuel) := by
  intro fuel
  induction fuel with
  | zero =>
    intro x out hle
    simp [Model.prfSsl.go, sslStream, List.take_of_length_le hle]
  | succ fuel ih =>
    intro x out hle
    rw [Model.prfSsl.go]
    simp only [prfSslInner_eq]
    have hb : (sslBlock md5 sha1 secret seed x).length = 16 := hm _
    rw [show md5.H (secret ++ sha1.H (List.replicate (x + 1) (UInt8.ofNat (65 + x)) ++ secret ++ seed)) =
      sslBlock md5 sha1 secret seed x from rfl, hb, sslStream_succ]
    by_cases hlt : length - out.length < 16
    · simp only [hlt, decide_true, if_true]
      have hz : length - out.length - 16 * (fuel + 1) = 0 := by omega
      rw [hz]
      simp only [zeros, List.replicate_zero, List.append_nil]
      rw [List.take_append, List.take_of_length_le hle, List.take_append, hb]
      have : length - out.length - 16 = 0 := by omega
      simp [this]
    · simp only [hlt, decide_false, Bool.false_eq_true, if_false]
      rw [List.take_of_length_le (by omega : (sslBlock md5 sha1 secret seed x).length ≤ length - out.length),
        ih (x+1) _ (by rw [List.length_append, hb]; omega), List.length_append, hb, List.append_assoc]
      congr 2
      omega

/-- `PRF_SSL` = the SSLv3 key-block function, for every output length it is defined for
    (26 rounds of 16 bytes; beyond 416 bytes the code returns trailing zeros — excluded) -/
theorem prfSsl_spec (md5 sha1 : Hash) (hm : ∀ x, (md5.H x).length = 16) (secret seed : Bytes) (length : Nat)
    (hlen : length ≤ 416) :
    Model.prfSsl md5 sha1 secret seed length = Spec.prfSsl md5 sha1 secret seed length := by
  rw [Model.prfSsl, prfSsl_go md5 sha1 hm secret seed length 26 0 [] (by simp)]
  have hz : length - ([] : Bytes).length - 16 * 26 = 0 := by simp; omega
  rw [hz]
  simp [zeros, Spec.prfSsl, sslStream, sslBlock]

/-! ### HKDF -/

theorem hkdf_fold (mac : Bytes → Bytes → Bytes) (prk info : Bytes) :
    ∀ (n s : Nat) (T : Bytes), s + n ≤ 255 →
      (List.range' (s+1) n).foldlM (fun (acc : Bytes × Bytes) x =>
        if x > 255 then Except.error Err.value
        else
          let titer := mac prk (acc.2 ++ info ++ [UInt8.ofNat x])
          Except.ok (acc.1 ++ titer, titer)) (T, Spec.hkdfT mac prk info s) =
      .ok (T ++ (List.range n).flatMap (fun i => Spec.hkdfT mac prk info (s + i + 1)),
           Spec.hkdfT mac prk info (s + n)) := by
  intro n
  induction n with
  | zero => intro s T _; simp [pure, Except.pure]
  | succ n ih =>
    intro s T hs
    rw [List.range'_succ, List.foldlM_cons]
    have hx : ¬ (s + 1 > 255) := by omega
    simp only [hx, if_false, bind, Except.bind]
    rw [show mac prk (Spec.hkdfT mac prk info s ++ info ++ [UInt8.ofNat (s + 1)]) =
      Spec.hkdfT mac prk info (s + 1) from rfl, ih (s+1) _ (by omega)]
    have hf : ∀ i, s + 1 + i + 1 = s + (i + 1) + 1 := by intro i; omega
    have hg : s + 1 + n = s + (n + 1) := by omega
    simp only [List.range_succ_eq_map, List.flatMap_cons, List.flatMap_map, List.append_assoc, Nat.add_zero,
      Function.comp, hf, hg, Nat.succ_eq_add_one]

/-- `HKDF_expand` = RFC 5869 HKDF-Expand on its whole domain L ≤ 255·HashLen -/
theorem hkdfExpand_spec (mac : Bytes → Bytes → Bytes) (dl : Nat) (prk info : Bytes) (L : Nat)
    (hL : divceil L dl ≤ 255) :
    Model.hkdfExpand mac dl prk info L = .ok (Spec.hkdfExpand mac dl prk info L) := by
  have := hkdf_fold mac prk info (divceil L dl) 0 [] (by omega)
  have h0 : Spec.hkdfT mac prk info 0 = [] := rfl
  rw [h0] at this
  simp only [Nat.zero_add, List.nil_append] at this
  simp only [Model.hkdfExpand, this, bind, Except.bind, pure, Except.pure, Spec.hkdfExpand]

/-- outside that domain the code raises ValueError (RFC 5869: "L ≤ 255·HashLen") -/
theorem hkdfExpand_too_long (mac : Bytes → Bytes → Bytes) (dl : Nat) (prk info : Bytes) (L : Nat)
    (hL : 255 < divceil L dl) :
    Model.hkdfExpand mac dl prk info L = .error .value := by
  obtain ⟨k, hk⟩ : ∃ k, divceil L dl = 255 + (k + 1) := ⟨divceil L dl - 256, by omega⟩
  have h1 := hkdf_fold mac prk info 255 0 [] (by omega)
  have h0 : Spec.hkdfT mac prk info 0 = [] := rfl
  rw [h0] at h1
  simp only [Nat.zero_add] at h1
  have hsplit : List.range' 1 (255 + (k + 1)) = List.range' 1 255 ++ (256 :: List.range' 257 k) := by
    have h256 : 256 :: List.range' 257 k = List.range' (1 + 255) (k + 1) := rfl
    rw [h256, List.range'_append_1]
  simp only [Model.hkdfExpand, hk, hsplit, List.foldlM_append, h1, bind, Except.bind, List.foldlM_cons]
  rfl

theorem spec_hkdf_length (mac : Bytes → Bytes → Bytes) (dl : Nat) (hd : 0 < dl)
    (hm : ∀ k m, (mac k m).length = dl) (prk info : Bytes) (L : Nat) :
    (Spec.hkdfExpand mac dl prk info L).length = L := by
  have hlen : ∀ n, ((List.range n).flatMap fun i => Spec.hkdfT mac prk info (i+1)).length = n * dl := by
    intro n; induction n with
    | zero => simp
    | succ n ih =>
      rw [List.range_succ, List.flatMap_append, List.length_append, ih]
      simp [Spec.hkdfT, hm, Nat.succ_mul]
  rw [Spec.hkdfExpand, List.length_take, hlen]
  have := le_divceil_mul L dl hd
  omega

/-! ### HkdfLabel -/

theorem hkdfLabel_spec (label ctx : Bytes) (length : Nat) (h1 : length < 65536)
    (h2 : 6 + label.length < 256) (h3 : ctx.length < 256) :
    Model.hkdfLabel label ctx length = .ok (Spec.hkdfLabel length label ctx) := by
  have e1 : (tls13Prefix ++ label).length = 6 + label.length := by simp [tls13Prefix]; omega
  simp only [Model.hkdfLabel, Model.writerAdd, bind, Except.bind, pure, Except.pure, e1]
  rw [if_pos (by simpa using h1), if_pos (by simpa using h2), if_pos (by simpa using h3)]
  simp only [Spec.hkdfLabel, List.append_assoc]

theorem hkdfExpandLabel_spec (mac : Bytes → Bytes → Bytes) (dl : Nat) (secret label ctx : Bytes) (length : Nat)
    (h1 : length < 65536) (h2 : 6 + label.length < 256) (h3 : ctx.length < 256)
    (hL : divceil length dl ≤ 255) :
    Model.hkdfExpandLabel mac dl secret label ctx length =
      .ok (Spec.hkdfExpandLabel mac dl secret label ctx length) := by
  simp only [Model.hkdfExpandLabel, hkdfLabel_spec label ctx length h1 h2 h3, bind, Except.bind,
    hkdfExpand_spec mac dl secret _ length hL, Spec.hkdfExpandLabel]

/-! ### key block slicing -/

theorem getFixBytes_ok (r : Bytes) (n : Nat) (h : n ≤ r.length) :
    Model.getFixBytes r n = .ok (r.take n, r.drop n) := by
  rw [Model.getFixBytes, if_neg (by omega)]

theorem sliceKeyBlock_spec (kb : Bytes) (m k i : Nat) (h : kb.length = 2*m + 2*k + 2*i) :
    Model.sliceKeyBlock kb m k i =
      .ok (⟨kb.take m, (kb.drop (2*m)).take k, (kb.drop (2*m + 2*k)).take i⟩,
           ⟨(kb.drop m).take m, (kb.drop (2*m + k)).take k, (kb.drop (2*m + 2*k + i)).take i⟩) := by
  unfold Model.sliceKeyBlock
  rw [getFixBytes_ok kb m (by omega)]
  simp only [bind, Except.bind]
  rw [getFixBytes_ok (kb.drop m) m (by rw [List.length_drop]; omega)]
  simp only [List.drop_drop]
  rw [getFixBytes_ok (kb.drop (m + m)) k (by rw [List.length_drop]; omega)]
  simp only [List.drop_drop]
  rw [getFixBytes_ok (kb.drop (m + m + k)) k (by rw [List.length_drop]; omega)]
  simp only [List.drop_drop]
  rw [getFixBytes_ok (kb.drop (m + m + k + k)) i (by rw [List.length_drop]; omega)]
  simp only [List.drop_drop]
  rw [getFixBytes_ok (kb.drop (m + m + k + k + i)) i (by rw [List.length_drop]; omega)]
  simp only [pure, Except.pure]
  have e1 : m + m = 2 * m := by omega
  have e2 : m + m + k = 2 * m + k := by omega
  have e3 : m + m + k + k = 2 * m + 2 * k := by omega
  have e4 : m + m + k + k + i = 2 * m + 2 * k + i := by omega
  have e5 : 2 * m + k + k = 2 * m + 2 * k := by omega
  rw [e1, e5]

end Tls.Crypto.Kdf
