import TlsModel.Crypto.Modes
import TlsProofs.Crypto.Chunks
/-
  C09 — CBC (Python_AES and the Python_TripleDES wrapper) over an abstract block cipher:
  model = SP 800-38A, chaining value carried between calls, decrypt ∘ encrypt.
-/
set_option linter.unusedSimpArgs false
namespace Tls.Crypto.Modes
open Tls Tls.Crypto

/-- the loop body of `Python_AES.encrypt` as a function of the block -/
def encStepB (E : Bytes → Bytes) (acc : Bytes × Bytes) (block : Bytes) : Except Err (Bytes × Bytes) := do
  let b ← xorN 16 block acc.1
  if (E b).length < 16 then .error .index else pure (E b, acc.2 ++ (E b).take 16)

def decStepB (D : Bytes → Bytes) (acc : Bytes × Bytes) (block : Bytes) : Except Err (Bytes × Bytes) := do
  let d ← xorN 16 (D block) acc.1
  pure (block, acc.2 ++ d.take 16)

theorem cbcEncrypt_blocks (E : Bytes → Bytes) (iv pt : Bytes) (h : pt.length % 16 = 0) :
    Model.cbcEncrypt E iv pt = (chunks 16 pt).foldlM (encStepB E) (iv, []) := by
  rw [Model.cbcEncrypt, if_neg (by simp [h]), ← slices_eq_chunks_dvd 16 (by decide) pt h, List.foldlM_map]
  rfl

theorem cbcDecrypt_blocks (D : Bytes → Bytes) (iv ct : Bytes) (h : ct.length % 16 = 0) :
    Model.cbcDecrypt D iv ct = (chunks 16 ct).foldlM (decStepB D) (iv, []) := by
  rw [Model.cbcDecrypt, if_neg (by simp [h]), ← slices_eq_chunks_dvd 16 (by decide) ct h, List.foldlM_map]
  rfl

theorem xorN_ok (n : Nat) (a b : Bytes) (ha : a.length = n) (hb : b.length = n) :
    xorN n a b = .ok (xorBytes a b) := by
  rw [xorN, if_neg (by omega)]
  simp [← ha, List.take_of_length_le (Nat.le_of_eq hb), List.take_of_length_le (Nat.le_refl _)]
  rw [List.take_of_length_le (by omega)]

/-- last ciphertext block of a block list (the chaining value) -/
def lastOr (iv : Bytes) (l : List Bytes) : Bytes := (l.getLast?).getD iv

theorem lastOr_cons (iv x : Bytes) (xs : List Bytes) : lastOr iv (x :: xs) = lastOr x xs := by
  cases xs with
  | nil => rfl
  | cons y ys =>
    simp only [lastOr, List.getLast?_cons_cons]
    rw [List.getLast?_eq_some_getLast (List.cons_ne_nil y ys)]
    rfl

theorem enc_blocks (E : Bytes → Bytes) (hE : ∀ b, b.length = 16 → (E b).length = 16) :
    ∀ (bl : List Bytes) (chain out : Bytes), (∀ b ∈ bl, b.length = 16) → chain.length = 16 →
      bl.foldlM (encStepB E) (chain, out) =
        .ok (lastOr chain (Spec.cbcEncBlocks E chain bl), out ++ (Spec.cbcEncBlocks E chain bl).flatten) := by
  intro bl
  induction bl with
  | nil => intro chain out _ _; simp [Spec.cbcEncBlocks, lastOr, pure, Except.pure]
  | cons p ps ih =>
    intro chain out hb hc
    have hp : p.length = 16 := hb p List.mem_cons_self
    have hx : (xorBytes p chain).length = 16 := by rw [xorBytes_length]; omega
    have hEl := hE _ hx
    rw [List.foldlM_cons, encStepB]
    simp only [xorN_ok 16 p chain hp hc, bind, Except.bind, hEl, Nat.lt_irrefl, if_false, pure, Except.pure]
    rw [List.take_of_length_le (by omega), ih _ _ (fun b h => hb b (List.mem_cons_of_mem _ h)) hEl]
    simp [Spec.cbcEncBlocks, lastOr_cons]

theorem dec_blocks (D : Bytes → Bytes) (hD : ∀ b, b.length = 16 → (D b).length = 16) :
    ∀ (bl : List Bytes) (chain out : Bytes), (∀ b ∈ bl, b.length = 16) → chain.length = 16 →
      bl.foldlM (decStepB D) (chain, out) =
        .ok (lastOr chain bl, out ++ (Spec.cbcDecBlocks D chain bl).flatten) := by
  intro bl
  induction bl with
  | nil => intro chain out _ _; simp [Spec.cbcDecBlocks, lastOr, pure, Except.pure]
  | cons c cs ih =>
    intro chain out hb hc
    have hp : c.length = 16 := hb c List.mem_cons_self
    have hDl := hD _ hp
    have hx : (xorBytes (D c) chain).length = 16 := by rw [xorBytes_length]; omega
    rw [List.foldlM_cons, decStepB]
    simp only [xorN_ok 16 (D c) chain hDl hc, bind, Except.bind, pure, Except.pure]
    rw [List.take_of_length_le (by omega), ih _ _ (fun b h => hb b (List.mem_cons_of_mem _ h)) hp]
    simp [Spec.cbcDecBlocks, lastOr_cons]

theorem encBlocks_length (E : Bytes → Bytes) (hE : ∀ b, b.length = 16 → (E b).length = 16) :
    ∀ (bl : List Bytes) (chain : Bytes), (∀ b ∈ bl, b.length = 16) → chain.length = 16 →
      ∀ c ∈ Spec.cbcEncBlocks E chain bl, c.length = 16 := by
  intro bl
  induction bl with
  | nil => intro _ _ _ c hc; simp [Spec.cbcEncBlocks] at hc
  | cons p ps ih =>
    intro chain hb hc c hmem
    have hp : p.length = 16 := hb p List.mem_cons_self
    have hx : (xorBytes p chain).length = 16 := by rw [xorBytes_length]; omega
    simp only [Spec.cbcEncBlocks, List.mem_cons] at hmem
    rcases hmem with rfl | hmem
    · exact hE _ hx
    · exact ih _ (fun b h => hb b (List.mem_cons_of_mem _ h)) (hE _ hx) c hmem

/-- `Python_AES.encrypt` = SP 800-38A CBC encryption; the new `self.IV` is the last ciphertext block -/
theorem cbcEncrypt_spec (E : Bytes → Bytes) (hE : ∀ b, b.length = 16 → (E b).length = 16)
    (iv pt : Bytes) (hiv : iv.length = 16) (h : pt.length % 16 = 0) :
    Model.cbcEncrypt E iv pt =
      .ok (Spec.lastBlock 16 iv (Spec.cbcEncrypt 16 E iv pt), Spec.cbcEncrypt 16 E iv pt) := by
  rw [cbcEncrypt_blocks E iv pt h,
    enc_blocks E hE _ iv [] (length_of_mem_chunks 16 (by decide) pt h) hiv]
  simp only [List.nil_append, Spec.cbcEncrypt, Spec.lastBlock]
  rw [chunks_flatten 16 (by decide) _
    (encBlocks_length E hE _ iv (length_of_mem_chunks 16 (by decide) pt h) hiv)]
  rfl

theorem cbcDecrypt_spec (D : Bytes → Bytes) (hD : ∀ b, b.length = 16 → (D b).length = 16)
    (iv ct : Bytes) (hiv : iv.length = 16) (h : ct.length % 16 = 0) :
    Model.cbcDecrypt D iv ct = .ok (Spec.lastBlock 16 iv ct, Spec.cbcDecrypt 16 D iv ct) := by
  rw [cbcDecrypt_blocks D iv ct h,
    dec_blocks D hD _ iv [] (length_of_mem_chunks 16 (by decide) ct h) hiv]
  simp only [List.nil_append, Spec.cbcDecrypt, Spec.lastBlock]
  rfl


/-! ### chaining across calls and inversion, on the block-list level (any block size) -/

theorem encBlocks_append (E : Bytes → Bytes) (l1 l2 : List Bytes) (iv : Bytes) :
    Spec.cbcEncBlocks E iv (l1 ++ l2) =
      Spec.cbcEncBlocks E iv l1 ++ Spec.cbcEncBlocks E (lastOr iv (Spec.cbcEncBlocks E iv l1)) l2 := by
  induction l1 generalizing iv with
  | nil => simp [Spec.cbcEncBlocks, lastOr]
  | cons p ps ih => simp [Spec.cbcEncBlocks, ih, lastOr_cons]

theorem encBlocks_length_n (n : Nat) (E : Bytes → Bytes) (hE : ∀ b, b.length = n → (E b).length = n) :
    ∀ (bl : List Bytes) (chain : Bytes), (∀ b ∈ bl, b.length = n) → chain.length = n →
      ∀ c ∈ Spec.cbcEncBlocks E chain bl, c.length = n := by
  intro bl
  induction bl with
  | nil => intro _ _ _ c hc; simp [Spec.cbcEncBlocks] at hc
  | cons p ps ih =>
    intro chain hb hc c hmem
    have hp : p.length = n := hb p List.mem_cons_self
    have hx : (xorBytes p chain).length = n := by rw [xorBytes_length]; omega
    simp only [Spec.cbcEncBlocks, List.mem_cons] at hmem
    rcases hmem with rfl | hmem
    · exact hE _ hx
    · exact ih _ (fun b h => hb b (List.mem_cons_of_mem _ h)) (hE _ hx) c hmem

theorem lastBlock_flatten (n : Nat) (hn : n ≠ 0) (iv : Bytes) (bl : List Bytes) (h : ∀ b ∈ bl, b.length = n) :
    Spec.lastBlock n iv bl.flatten = lastOr iv bl := by
  rw [Spec.lastBlock, chunks_flatten n hn bl h]; rfl

/-- encrypting `a` and then `b` with the chaining value carried over = encrypting `a ++ b` -/
theorem spec_cbc_stream (n : Nat) (hn : n ≠ 0) (E : Bytes → Bytes)
    (hE : ∀ b, b.length = n → (E b).length = n) (iv a b : Bytes) (hiv : iv.length = n)
    (ha : a.length % n = 0) :
    Spec.cbcEncrypt n E iv (a ++ b) =
      Spec.cbcEncrypt n E iv a ++
        Spec.cbcEncrypt n E (Spec.lastBlock n iv (Spec.cbcEncrypt n E iv a)) b := by
  simp only [Spec.cbcEncrypt]
  rw [chunks_append n hn a b ha, encBlocks_append, List.flatten_append,
    lastBlock_flatten n hn iv _ (encBlocks_length_n n E hE _ iv (length_of_mem_chunks n hn a ha) hiv)]

theorem decBlocks_encBlocks (n : Nat) (E D : Bytes → Bytes) (hE : ∀ b, b.length = n → (E b).length = n)
    (hDE : ∀ b, b.length = n → D (E b) = b) :
    ∀ (bl : List Bytes) (iv : Bytes), (∀ b ∈ bl, b.length = n) → iv.length = n →
      Spec.cbcDecBlocks D iv (Spec.cbcEncBlocks E iv bl) = bl := by
  intro bl
  induction bl with
  | nil => intro _ _ _; rfl
  | cons p ps ih =>
    intro iv hb hiv
    have hp : p.length = n := hb p List.mem_cons_self
    have hx : (xorBytes p iv).length = n := by rw [xorBytes_length]; omega
    simp only [Spec.cbcEncBlocks, Spec.cbcDecBlocks]
    rw [hDE _ hx, xorBytes_cancel p iv (by omega),
      ih _ (fun b h => hb b (List.mem_cons_of_mem _ h)) (hE _ hx)]

/-- CBC decryption inverts CBC encryption (same IV), every whole number of blocks -/
theorem spec_cbc_decrypt_encrypt (n : Nat) (hn : n ≠ 0) (E D : Bytes → Bytes)
    (hE : ∀ b, b.length = n → (E b).length = n) (hDE : ∀ b, b.length = n → D (E b) = b)
    (iv pt : Bytes) (hiv : iv.length = n) (h : pt.length % n = 0) :
    Spec.cbcDecrypt n D iv (Spec.cbcEncrypt n E iv pt) = pt := by
  simp only [Spec.cbcDecrypt, Spec.cbcEncrypt]
  have hl := length_of_mem_chunks n hn pt h
  rw [chunks_flatten n hn _ (encBlocks_length_n n E hE _ iv hl hiv),
    decBlocks_encBlocks n E D hE hDE _ iv hl hiv, flatten_chunks n hn]

theorem spec_cbc_length (n : Nat) (hn : n ≠ 0) (E : Bytes → Bytes)
    (hE : ∀ b, b.length = n → (E b).length = n) (iv pt : Bytes) (hiv : iv.length = n)
    (h : pt.length % n = 0) : (Spec.cbcEncrypt n E iv pt).length = pt.length := by
  have hl := length_of_mem_chunks n hn pt h
  have hc := encBlocks_length_n n E hE _ iv hl hiv
  have key : ∀ (bl : List Bytes) (iv : Bytes), (Spec.cbcEncBlocks E iv bl).length = bl.length := by
    intro bl; induction bl with
    | nil => intro _; rfl
    | cons p ps ih => intro iv; simp [Spec.cbcEncBlocks, ih]
  have sum : ∀ (l : List Bytes), (∀ b ∈ l, b.length = n) → l.flatten.length = n * l.length := by
    intro l; induction l with
    | nil => intro _; simp
    | cons x xs ih =>
      intro hx
      rw [List.flatten_cons, List.length_append, hx x List.mem_cons_self,
        ih (fun b hb => hx b (List.mem_cons_of_mem _ hb)), List.length_cons, Nat.mul_succ]; omega
  rw [Spec.cbcEncrypt, sum _ hc, key, ← sum _ hl, flatten_chunks n hn]

theorem lastBlock_length (n : Nat) (hn : n ≠ 0) (iv ct : Bytes) (hiv : iv.length = n)
    (h : ct.length % n = 0) : (Spec.lastBlock n iv ct).length = n := by
  rw [Spec.lastBlock]
  cases hc : (chunks n ct).getLast? with
  | none => simpa using hiv
  | some x =>
    have := List.mem_of_getLast? hc
    simpa using length_of_mem_chunks n hn ct h x this

/-! ### Python_TripleDES: the three `Des.crypt` calls with their own IV xor are TDEA-CBC -/

def tdeaE (k : Model.Des3) : Bytes → Bytes := fun b => k.e3 (k.d2 (k.e1 b))
def tdeaD (k : Model.Des3) : Bytes → Bytes := fun b => k.d1 (k.e2 (k.d3 b))

structure Des3Len (k : Model.Des3) : Prop where
  e1 : ∀ b, b.length = 8 → (k.e1 b).length = 8
  d1 : ∀ b, b.length = 8 → (k.d1 b).length = 8
  e2 : ∀ b, b.length = 8 → (k.e2 b).length = 8
  d2 : ∀ b, b.length = 8 → (k.d2 b).length = 8
  e3 : ∀ b, b.length = 8 → (k.e3 b).length = 8
  d3 : ∀ b, b.length = 8 → (k.d3 b).length = 8

theorem tdesEncLoop_spec (k : Model.Des3) (hk : Des3Len k) :
    ∀ (fuel : Nat) (data iv : Bytes), data.length ≤ fuel → data.length % 8 = 0 → iv.length = 8 →
      Model.tdesEncLoop k fuel iv data =
        (lastOr iv (Spec.cbcEncBlocks (tdeaE k) iv (chunks 8 data)),
         (Spec.cbcEncBlocks (tdeaE k) iv (chunks 8 data)).flatten) := by
  intro fuel
  induction fuel with
  | zero =>
    intro data iv hl _ _
    have : data = [] := List.eq_nil_of_length_eq_zero (by omega)
    subst this; simp [Model.tdesEncLoop, chunks_nil', Spec.cbcEncBlocks, lastOr]
  | succ fuel ih =>
    intro data iv hl hm hiv
    by_cases hd : data = []
    · subst hd; simp [Model.tdesEncLoop, chunks_nil', Spec.cbcEncBlocks, lastOr]
    · have hpos : 0 < data.length := List.length_pos_iff.mpr hd
      have hge : 8 ≤ data.length := by omega
      have ht : (data.take 8).length = 8 := by simp [List.length_take]; omega
      have hx : (xorBytes (data.take 8) iv).length = 8 := by rw [xorBytes_length]; omega
      have h1 := hk.e1 _ hx
      have h2 := hk.d2 _ h1
      have h3 := hk.e3 _ h2
      have hcancel : xorBytes (xorBytes (k.d2 (k.e1 (xorBytes (data.take 8) iv))) iv) iv =
          k.d2 (k.e1 (xorBytes (data.take 8) iv)) := xorBytes_cancel _ _ (by omega)
      have hne : data.isEmpty = false := by simp [hd]
      rw [Model.tdesEncLoop]
      simp only [hne, Bool.false_eq_true, if_false, Model.desCryptEnc, Model.desCryptDec, hcancel]
      rw [ih (data.drop 8) _ (by simp only [List.length_drop]; omega)
        (by simp only [List.length_drop]; omega) h3, chunks_cons' 8 data (by decide) hd]
      simp [Spec.cbcEncBlocks, tdeaE, lastOr_cons]

theorem tdesDecLoop_spec (k : Model.Des3) (hk : Des3Len k) :
    ∀ (fuel : Nat) (data iv : Bytes), data.length ≤ fuel → data.length % 8 = 0 → iv.length = 8 →
      Model.tdesDecLoop k fuel iv data =
        (lastOr iv (chunks 8 data), (Spec.cbcDecBlocks (tdeaD k) iv (chunks 8 data)).flatten) := by
  intro fuel
  induction fuel with
  | zero =>
    intro data iv hl _ _
    have : data = [] := List.eq_nil_of_length_eq_zero (by omega)
    subst this; simp [Model.tdesDecLoop, chunks_nil', Spec.cbcDecBlocks, lastOr]
  | succ fuel ih =>
    intro data iv hl hm hiv
    by_cases hd : data = []
    · subst hd; simp [Model.tdesDecLoop, chunks_nil', Spec.cbcDecBlocks, lastOr]
    · have hpos : 0 < data.length := List.length_pos_iff.mpr hd
      have hge : 8 ≤ data.length := by omega
      have ht : (data.take 8).length = 8 := by simp [List.length_take]; omega
      have h1 := hk.d3 _ ht
      have hcancel : xorBytes (xorBytes (k.d3 (data.take 8)) iv) iv = k.d3 (data.take 8) :=
        xorBytes_cancel _ _ (by omega)
      have hne : data.isEmpty = false := by simp [hd]
      rw [Model.tdesDecLoop]
      simp only [hne, Bool.false_eq_true, if_false, Model.desCryptEnc, Model.desCryptDec, hcancel]
      rw [ih (data.drop 8) _ (by simp only [List.length_drop]; omega)
        (by simp only [List.length_drop]; omega) ht, chunks_cons' 8 data (by decide) hd]
      simp [Spec.cbcDecBlocks, tdeaD, lastOr_cons]

end Tls.Crypto.Modes
