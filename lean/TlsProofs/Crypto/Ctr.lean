import TlsModel.Crypto.Modes
import TlsProofs.Crypto.Chunks
import TlsProofs.Crypto.BE
/-
  C09 — CTR (Python_AES_CTR incl. `_counter_update`) over an abstract block cipher:
  model = SP 800-38A §6.5 with the standard incrementing function, as long as the counter field
  does not come within one step of wrapping (the code raises there); counter carried between calls.
-/
set_option linter.unusedSimpArgs false
namespace Tls.Crypto.Modes
open Tls Tls.Crypto

/-- the low `m` bits of a counter block -/
def lowBits (m : Nat) (X : Bytes) : Nat := beDecode X % 2 ^ m

/-- the relation between the object's `_counter_bytes` and the width `m` of the counter field:
    tlslite's own objects for GCM/CCM have `_counter_bytes = 0` and increment all 128 bits -/
def widthOf (cb : Nat) : Nat := if cb = 0 then 128 else 8 * cb

theorem pow256 (n : Nat) : (256 : Nat) ^ n = 2 ^ (8 * n) := by rw [Nat.pow_mul]

theorem incM_length (m : Nat) (X : Bytes) : (Spec.incM m X).length = 16 := length_beEncode _ _

/-- with no wrap of the low `m` bits the standard incrementing function is `+ 1` -/
theorem incM_eq_succ (m : Nat) (_hm : m ≤ 128) (X : Bytes) (_hX : X.length = 16)
    (h : lowBits m X + 1 < 2 ^ m) : Spec.incM m X = beEncode 16 (beDecode X + 1) := by
  unfold Spec.incM lowBits at *
  simp only
  rw [Nat.mod_eq_of_lt h]
  congr 1
  have := Nat.div_add_mod (beDecode X) (2 ^ m)
  rw [Nat.mul_comm] at this
  omega

theorem incM_128 (X : Bytes) (hX : X.length = 16) : Spec.incM 128 X = beEncode 16 (beDecode X + 1) := by
  have hlt : beDecode X < 2 ^ 128 := by
    have := beDecode_lt X; rw [hX] at this; exact this
  unfold Spec.incM
  simp only
  rw [Nat.div_eq_of_lt hlt, Nat.zero_mul, Nat.zero_add, Nat.mod_eq_of_lt hlt,
    show (2:Nat) ^ 128 = 256 ^ 16 from by decide, beEncode_mod]

theorem lowBits_incM (m : Nat) (hm : m ≤ 128) (X : Bytes) (hX : X.length = 16)
    (h : lowBits m X + 1 < 2 ^ m) : lowBits m (Spec.incM m X) = lowBits m X + 1 := by
  have hlt : beDecode X < 2 ^ 128 := by
    have := beDecode_lt X; rw [hX] at this; exact this
  rw [incM_eq_succ m hm X hX h]
  unfold lowBits at *
  rw [beDecode_beEncode, show (256:Nat) ^ 16 = 2 ^ 128 from by decide]
  have hdvd : 2 ^ m ∣ 2 ^ 128 := Nat.pow_dvd_pow 2 hm
  rw [Nat.mod_mod_of_dvd _ hdvd, Nat.add_mod, Nat.mod_eq_of_lt (a := beDecode X % 2 ^ m + 1 % 2 ^ m)]
  · have : 1 % 2 ^ m = 1 := by
      apply Nat.mod_eq_of_lt
      omega
    rw [this]
  · have : 1 % 2 ^ m ≤ 1 := Nat.mod_le _ _
    omega

/-- `_counter_update` is the standard incrementing function on the counter field, when the
    field is not about to reach all-ones (there the code raises OverflowError, one step before
    the standard's counter would wrap) -/
theorem counterUpdate_spec (c : Model.Ctr) (hlen : c.counter.length = 16) (hcb : c.counterBytes ≤ 16)
    (h : c.counterBytes = 0 ∨ lowBits (8 * c.counterBytes) c.counter + 1 < 2 ^ (8 * c.counterBytes) - 1) :
    Model.counterUpdate c = .ok { c with counter := Spec.incM (widthOf c.counterBytes) c.counter } := by
  unfold Model.counterUpdate widthOf
  by_cases h0 : c.counterBytes = 0
  · simp only [h0, Nat.lt_irrefl, false_and, if_false, if_true, incM_128 _ hlen]
  · have hpos : 0 < c.counterBytes := Nat.pos_of_ne_zero h0
    have hh : lowBits (8 * c.counterBytes) c.counter + 1 < 2 ^ (8 * c.counterBytes) - 1 := by
      cases h with
      | inl h => exact absurd h h0
      | inr h => exact h
    have hinc := incM_eq_succ (8 * c.counterBytes) (by omega) c.counter hlen (by omega)
    simp only [h0, if_false, hinc]
    rw [if_neg]
    intro ⟨_, heq⟩
    rw [length_beEncode] at heq
    have hsplit : 16 = (16 - c.counterBytes) + c.counterBytes := by omega
    have hd : (beEncode 16 (beDecode c.counter + 1)).drop (16 - c.counterBytes) =
        beEncode c.counterBytes (beDecode c.counter + 1) := by
      conv => lhs; rw [hsplit]
      rw [show 16 - c.counterBytes + c.counterBytes - c.counterBytes = 16 - c.counterBytes from by omega]
      exact beEncode_drop _ _ _
    rw [hd] at heq
    have hdec := congrArg beDecode heq
    rw [beDecode_beEncode, beDecode_replicate_ff, pow256] at hdec
    -- (v+1) % 2^m = low + 1 < 2^m - 1
    have hlow := lowBits_incM (8 * c.counterBytes) (by omega) c.counter hlen (by omega)
    rw [hinc] at hlow
    unfold lowBits at hlow hh
    rw [beDecode_beEncode, show (256:Nat) ^ 16 = 2 ^ 128 from by decide,
      Nat.mod_mod_of_dvd _ (Nat.pow_dvd_pow 2 (by omega : 8 * c.counterBytes ≤ 128))] at hlow
    omega

theorem ctrStream_length (E : Bytes → Bytes) (inc : Bytes → Bytes) (hE : ∀ b, (E b).length = 16) :
    ∀ (n : Nat) (T : Bytes), (Spec.ctrStream E inc n T).length = 16 * n := by
  intro n; induction n with
  | zero => intro _; rfl
  | succ n ih => intro T; rw [Spec.ctrStream, List.length_append, hE, ih]; omega

theorem ctrStream_add (E : Bytes → Bytes) (inc : Bytes → Bytes) :
    ∀ (a b : Nat) (T : Bytes), Spec.ctrStream E inc (a + b) T =
      Spec.ctrStream E inc a T ++ Spec.ctrStream E inc b (Spec.iterate inc a T) := by
  intro a; induction a with
  | zero => intro b T; simp [Spec.ctrStream, Spec.iterate]
  | succ a ih =>
    intro b T
    rw [show a + 1 + b = (a + b) + 1 from by omega, Spec.ctrStream, ih, Spec.ctrStream, Spec.iterate,
      List.append_assoc]

theorem lt_divceil16 (n k : Nat) : 16 * k < n ↔ k < divceil n 16 := by
  unfold divceil; split <;> omega

/-- the mask loop: `r` more blocks are produced, the counter advances `r` times -/
theorem ctrMaskLoop_spec (E : Bytes → Bytes) (hE : ∀ b, (E b).length = 16) (n : Nat) :
    ∀ (fuel r : Nat) (c : Model.Ctr) (mask : Bytes) (k : Nat),
      mask.length = 16 * k → k + r = divceil n 16 → r ≤ fuel →
      c.counter.length = 16 → c.counterBytes ≤ 16 →
      (c.counterBytes = 0 ∨ lowBits (8 * c.counterBytes) c.counter + r < 2 ^ (8 * c.counterBytes) - 1) →
      Model.ctrMaskLoop E n fuel c mask =
        .ok ({ c with counter := Spec.iterate (Spec.incM (widthOf c.counterBytes)) r c.counter },
             mask ++ Spec.ctrStream E (Spec.incM (widthOf c.counterBytes)) r c.counter) := by
  intro fuel
  induction fuel with
  | zero =>
    intro r c mask k hm hk hr _ _ _
    have hr0 : r = 0 := by omega
    subst hr0
    have : ¬ mask.length < n := by rw [hm, lt_divceil16]; omega
    simp [Model.ctrMaskLoop, this, Spec.iterate, Spec.ctrStream]
  | succ fuel ih =>
    intro r c mask k hm hk hr hlen hcb hov
    rw [Model.ctrMaskLoop]
    by_cases hlt : mask.length < n
    · have hkl : k < divceil n 16 := by rw [← lt_divceil16, ← hm]; exact hlt
      obtain ⟨r', rfl⟩ : ∃ r', r = r' + 1 := ⟨r - 1, by omega⟩
      have hstep : c.counterBytes = 0 ∨
          lowBits (8 * c.counterBytes) c.counter + 1 < 2 ^ (8 * c.counterBytes) - 1 := by
        cases hov with
        | inl h => exact Or.inl h
        | inr h => exact Or.inr (by omega)
      rw [if_pos hlt]
      simp only [bind, Except.bind, counterUpdate_spec c hlen hcb hstep]
      have hnext : c.counterBytes = 0 ∨
          lowBits (8 * c.counterBytes) (Spec.incM (widthOf c.counterBytes) c.counter) + r' <
            2 ^ (8 * c.counterBytes) - 1 := by
        cases hov with
        | inl h => exact Or.inl h
        | inr h =>
          right
          have h0 : c.counterBytes ≠ 0 := by
            intro e; rw [e] at h; simp at h
          have hw : widthOf c.counterBytes = 8 * c.counterBytes := by simp [widthOf, h0]
          rw [hw, lowBits_incM _ (by omega) _ hlen (by omega)]
          omega
      rw [ih r' { c with counter := Spec.incM (widthOf c.counterBytes) c.counter } (mask ++ E c.counter)
        (k + 1) (by rw [List.length_append, hm, hE]; omega) (by omega) (by omega)
        (incM_length _ _) hcb hnext]
      simp [Spec.iterate, Spec.ctrStream]
    · have hr0 : r = 0 := by
        have : ¬ k < divceil n 16 := by rw [← lt_divceil16, ← hm]; exact hlt
        omega
      subst hr0
      simp [if_neg hlt, Spec.iterate, Spec.ctrStream]

theorem divceil_le_self (n : Nat) : divceil n 16 ≤ n := by
  unfold divceil; split <;> omega

/-- `Python_AES_CTR.encrypt` = SP 800-38A CTR with the standard incrementing function on the
    counter field; the object's counter afterwards is the next unused counter block.
    Excluded region: the counter field would reach all-ones (OverflowError in the code). -/
theorem ctrEncrypt_spec (E : Bytes → Bytes) (hE : ∀ b, (E b).length = 16) (c : Model.Ctr) (pt : Bytes)
    (hlen : c.counter.length = 16) (hcb : c.counterBytes ≤ 16)
    (hov : c.counterBytes = 0 ∨
      lowBits (8 * c.counterBytes) c.counter + divceil pt.length 16 < 2 ^ (8 * c.counterBytes) - 1) :
    Model.ctrEncrypt E c pt =
      .ok ({ c with counter := Spec.iterate (Spec.incM (widthOf c.counterBytes)) (divceil pt.length 16) c.counter },
           Spec.ctrEncrypt E (Spec.incM (widthOf c.counterBytes)) c.counter pt) := by
  rw [Model.ctrEncrypt,
    ctrMaskLoop_spec E hE pt.length pt.length (divceil pt.length 16) c [] 0 rfl (by omega)
      (divceil_le_self _) hlen hcb hov]
  simp [bind, Except.bind, pure, Except.pure, Spec.ctrEncrypt]


theorem xorBytes_append (a b s1 s2 : Bytes) (h : a.length = s1.length) :
    xorBytes (a ++ b) (s1 ++ s2) = xorBytes a s1 ++ xorBytes b s2 := by
  simp only [xorBytes]
  exact List.zipWith_append h

theorem divceil_add16 (a b : Nat) (h : a % 16 = 0) : divceil (a + b) 16 = a / 16 + divceil b 16 := by
  unfold divceil
  have e1 : (a + b) % 16 = b % 16 := by omega
  have e2 : (a + b) / 16 = a / 16 + b / 16 := by omega
  rw [e1, e2]; split <;> omega

theorem divceil_of_dvd16 (a : Nat) (h : a % 16 = 0) : divceil a 16 = a / 16 := by
  unfold divceil; simp [h]

/-- CTR on `a ++ b` = CTR on `a`, then CTR on `b` from the advanced counter (whole blocks in `a`) -/
theorem spec_ctr_stream (E : Bytes → Bytes) (inc : Bytes → Bytes) (hE : ∀ b, (E b).length = 16)
    (T a b : Bytes) (ha : a.length % 16 = 0) :
    Spec.ctrEncrypt E inc T (a ++ b) =
      Spec.ctrEncrypt E inc T a ++
        Spec.ctrEncrypt E inc (Spec.iterate inc (divceil a.length 16) T) b := by
  simp only [Spec.ctrEncrypt, List.length_append]
  rw [divceil_add16 _ _ ha, ctrStream_add, divceil_of_dvd16 _ ha, xorBytes_append]
  rw [ctrStream_length E inc hE]; omega

theorem spec_ctr_length (E : Bytes → Bytes) (inc : Bytes → Bytes) (hE : ∀ b, (E b).length = 16)
    (T pt : Bytes) : (Spec.ctrEncrypt E inc T pt).length = pt.length := by
  rw [Spec.ctrEncrypt, xorBytes_length, ctrStream_length E inc hE]
  have : pt.length ≤ 16 * divceil pt.length 16 := by unfold divceil; split <;> omega
  omega

/-- CTR decryption is CTR encryption from the same counter -/
theorem spec_ctr_involution (E : Bytes → Bytes) (inc : Bytes → Bytes) (hE : ∀ b, (E b).length = 16)
    (T pt : Bytes) : Spec.ctrEncrypt E inc T (Spec.ctrEncrypt E inc T pt) = pt := by
  have hl := spec_ctr_length E inc hE T pt
  rw [Spec.ctrEncrypt, hl]
  rw [Spec.ctrEncrypt, xorBytes_cancel]
  rw [ctrStream_length E inc hE]
  unfold divceil; split <;> omega

end Tls.Crypto.Modes
