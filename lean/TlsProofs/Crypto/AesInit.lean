import TlsProofs.Crypto.AesKeyLoop
/-
  C09 (growth) — `Rijndael.__init__` computes KeyExpansion; `Rijndael.encrypt` = Cipher.
-/
set_option linter.unusedSimpArgs false
namespace Tls.Crypto.Aes
open Tls Tls.Crypto

attribute [local irreducible] Spec.sboxN Spec.gmulN Spec.ginvN

theorem expandLoop_lt (KC RKC f : Nat) (st : List Nat × List Nat × Nat) (h : st.2.1.length < RKC) :
    Model.expandLoop KC RKC (f + 1) st = (Model.expandStep KC RKC st >>= Model.expandLoop KC RKC f) := by
  rw [Model.expandLoop, if_pos h]

theorem expandLoop_ge (KC RKC f : Nat) (st : List Nat × List Nat × Nat) (h : ¬ st.2.1.length < RKC) :
    Model.expandLoop KC RKC f st = .ok st.2.1 := by
  cases f with
  | zero => rfl
  | succ f => rw [Model.expandLoop, if_neg h]; rfl

/-- the loop stops exactly when the schedule is full -/
theorem expandLoop_run (nk : Nat) (hnk : nk = 4 ∨ nk = 6 ∨ nk = 8) (RKC J : Nat) (w0 : List (List UInt8))
    (h0 : IsWin nk w0) (hJ : J ≤ 14) (hlt : ∀ t, t < J → nk * (t + 1) < RKC) (hge : RKC ≤ nk * (J + 1)) :
    ∀ (n j fuel : Nat), j + n = J → n ≤ fuel →
      Model.expandLoop nk RKC fuel (modelSt nk RKC w0 j) = .ok (((fullAt nk w0 J).map wd).take RKC) := by
  intro n
  induction n with
  | zero =>
    intro j fuel hj _
    have hjJ : j = J := by omega
    subst hjJ
    have hlen : ¬ (modelSt nk RKC w0 j).2.1.length < RKC := by
      show ¬ (((fullAt nk w0 j).map wd).take RKC).length < RKC
      rw [List.length_take, List.length_map, fullAt_length nk hnk w0 h0]; omega
    rw [expandLoop_ge _ _ _ _ hlen]; rfl
  | succ n ih =>
    intro j fuel hj hf
    obtain ⟨f, rfl⟩ : ∃ f, fuel = f + 1 := ⟨fuel - 1, by omega⟩
    have hlen : (modelSt nk RKC w0 j).2.1.length < RKC := by
      show (((fullAt nk w0 j).map wd).take RKC).length < RKC
      rw [List.length_take, List.length_map, fullAt_length nk hnk w0 h0]
      have := hlt j (by omega); omega
    rw [expandLoop_lt _ _ _ _ hlen, model_step nk hnk RKC w0 h0 j (by omega)]
    exact ih (j + 1) f (by omega) (by omega)

/-- every step of the specification loop appends exactly one word -/
theorem kfold_append (nk : Nat) : ∀ (l : List Nat) (acc : List (List UInt8) × UInt8),
    ∃ ext, (l.foldl (Spec.kstep nk) acc).1 = acc.1 ++ ext ∧ ext.length = l.length := by
  intro l
  induction l with
  | nil => intro acc; exact ⟨[], by simp, rfl⟩
  | cons i is ih =>
    intro acc
    obtain ⟨ext, h1, h2⟩ := ih (Spec.kstep nk acc i)
    have hk : ∃ x, (Spec.kstep nk acc i).1 = acc.1 ++ [x] := ⟨_, rfl⟩
    obtain ⟨x, hx⟩ := hk
    refine ⟨x :: ext, ?_, by simp [h2]⟩
    rw [List.foldl_cons, h1, hx]
    simp

/-- the key expansion is the first RKC words of the whole passes -/
theorem keyExp_take (nk : Nat) (hnk : nk = 4 ∨ nk = 6 ∨ nk = 8) (RKC J : Nat) (w0 : List (List UInt8))
    (h0 : IsWin nk w0) (hle : nk ≤ RKC) (hge : RKC ≤ nk * (J + 1)) :
    ((List.range' nk (RKC - nk)).foldl (Spec.kstep nk) (w0, 1)).1 = (fullAt nk w0 J).take RKC := by
  have hsplit : List.range' nk (nk * J) = List.range' nk (RKC - nk) ++ List.range' RKC (nk * J - (RKC - nk)) := by
    have e : nk * J = (RKC - nk) + (nk * J - (RKC - nk)) := by
      rw [Nat.mul_succ] at hge; omega
    conv => lhs; rw [e]
    rw [← List.range'_append_1]
    congr 2; omega
  have hf := spec_fold nk hnk w0 h0 J
  rw [hsplit, List.foldl_append] at hf
  obtain ⟨e1, h1, l1⟩ := kfold_append nk (List.range' nk (RKC - nk)) (w0, 1)
  obtain ⟨e2, h2, _⟩ := kfold_append nk (List.range' RKC (nk * J - (RKC - nk)))
    ((List.range' nk (RKC - nk)).foldl (Spec.kstep nk) (w0, 1))
  have hfull : fullAt nk w0 J = ((List.range' nk (RKC - nk)).foldl (Spec.kstep nk) (w0, 1)).1 ++ e2 := by
    rw [← h2, hf]
  have hlen : ((List.range' nk (RKC - nk)).foldl (Spec.kstep nk) (w0, 1)).1.length = RKC := by
    rw [h1, List.length_append, l1, List.length_range', h0.1]; omega
  rw [hfull, List.take_left' hlen]

/-! ### the initial words -/

theorem drop4 {α : Type} (l : List α) (n : Nat) (d : α) (h : n + 4 ≤ l.length) :
    (l.drop n).take 4 = [l.getD n d, l.getD (n + 1) d, l.getD (n + 2) d, l.getD (n + 3) d] := by
  have hr : 4 ≤ (l.drop n).length := by rw [List.length_drop]; omega
  have hg : ∀ k, l.getD (n + k) d = (l.drop n).getD k d := by
    intro k; simp [List.getD_eq_getElem?_getD, List.getElem?_drop]
  have h0 := hg 0
  rw [Nat.add_zero] at h0
  rw [h0, hg 1, hg 2, hg 3]
  rcases hl : l.drop n with _ | ⟨a, _ | ⟨b, _ | ⟨c, _ | ⟨e, r⟩⟩⟩⟩ <;> rw [hl] at hr <;> simp at hr
  simp

theorem wordAt_spec (key : Bytes) (i : Nat) (h : 4 * i + 4 ≤ key.length) :
    Model.wordAt key i = .ok (wd ((key.drop (4 * i)).take 4)) := by
  have hd := drop4 key (4 * i) 0 h
  have hi : ∀ k, k < 4 → idx key (i * 4 + k) = .ok (key.getD (4 * i + k) 0) := by
    intro k hk
    have hlt : 4 * i + k < key.length := by omega
    rw [Nat.mul_comm i 4]
    simp [idx, List.getElem?_eq_getElem hlt, List.getD_eq_getElem?_getD]
  have h0 := hi 0 (by decide)
  rw [Nat.add_zero, Nat.add_zero] at h0
  simp only [Model.wordAt, h0, hi 1 (by decide), hi 2 (by decide), hi 3 (by decide), Except.map, bind, Except.bind,
    pure, Except.pure, hd, wd]
  rfl

theorem mapM_ok {α β : Type} (f : α → Except Err β) (g : α → β) : ∀ (l : List α), (∀ x ∈ l, f x = .ok (g x)) →
    l.mapM f = .ok (l.map g) := by
  intro l
  induction l with
  | nil => intro _; rfl
  | cons x xs ih =>
    intro h
    rw [List.mapM_cons, h x List.mem_cons_self, ih (fun y hy => h y (List.mem_cons_of_mem _ hy))]
    rfl

/-- the first Nk words of the key -/
def w0Of (key : Bytes) : List (List UInt8) := (List.range (key.length / 4)).map fun i => (key.drop (4*i)).take 4

theorem tk_spec (key : Bytes) (h4 : key.length % 4 = 0) :
    (List.range (key.length / 4)).mapM (Model.wordAt key) = .ok ((w0Of key).map wd) := by
  rw [w0Of, List.map_map]
  apply mapM_ok
  intro i hi
  have := List.mem_range.mp hi
  exact wordAt_spec key i (by omega)

theorem w0_isWin (key : Bytes) (h4 : key.length % 4 = 0) : IsWin (key.length / 4) (w0Of key) := by
  refine ⟨by simp [w0Of], ?_⟩
  intro x hx
  obtain ⟨i, hi, rfl⟩ := List.mem_map.mp hx
  have := List.mem_range.mp hi
  rw [List.length_take, List.length_drop]; omega

/-- the model's encryption key schedule is KeyExpansion, word for word -/
theorem expandLoop_spec (key : Bytes) (hk : key.length = 16 ∨ key.length = 24 ∨ key.length = 32) :
    Model.expandLoop (key.length / 4) ((key.length / 4 + 6 + 1) * 4) ((key.length / 4 + 6 + 1) * 4)
        ((w0Of key).map wd, ((w0Of key).map wd).take ((key.length / 4 + 6 + 1) * 4), 0) =
      .ok ((Spec.keyExpansion key).map wd) ∧
    (Spec.keyExpansion key).length = (key.length / 4 + 6 + 1) * 4 ∧
    ∀ x ∈ Spec.keyExpansion key, x.length = 4 := by
  have h4 : key.length % 4 = 0 := by rcases hk with h | h | h <;> rw [h]
  have hw := w0_isWin key h4
  have key_eq : ∀ (nk RKC J : Nat), key.length / 4 = nk → (nk = 4 ∨ nk = 6 ∨ nk = 8) → (nk + 6 + 1) * 4 = RKC → J ≤ 14 →
      (∀ t, t < J → nk * (t + 1) < RKC) → RKC ≤ nk * (J + 1) → nk ≤ RKC →
      Model.expandLoop nk RKC RKC ((w0Of key).map wd, ((w0Of key).map wd).take RKC, 0) =
        .ok ((Spec.keyExpansion key).map wd) ∧
      (Spec.keyExpansion key).length = RKC ∧ ∀ x ∈ Spec.keyExpansion key, x.length = 4 := by
    intro nk RKC J hnk hnk' hR hJ hlt hge hle
    have hw' : IsWin nk (w0Of key) := hnk ▸ hw
    have hrun := expandLoop_run nk hnk' RKC J (w0Of key) hw' hJ hlt hge J 0 RKC (by omega) (by omega)
    have hke : Spec.keyExpansion key = (fullAt nk (w0Of key) J).take RKC := by
      have := keyExp_take nk hnk' RKC J (w0Of key) hw' hle hge
      rw [← this, Spec.keyExpansion]
      simp only [hnk, w0Of]
      have e : 4 * (nk + 6 + 1) - nk = RKC - nk := by omega
      rw [e]
    refine ⟨?_, ?_, ?_⟩
    · rw [hke, List.map_take]; exact hrun
    · rw [hke, List.length_take, fullAt_length nk hnk' _ hw']; omega
    · intro x hx
      rw [hke] at hx
      exact fullAt_words nk hnk' _ hw' J x (List.mem_of_mem_take hx)
  rcases hk with h | h | h
  · have := key_eq 4 44 10 (by rw [h]) (Or.inl rfl) rfl (by decide) (by intro t ht; omega) (by decide) (by decide)
    simpa [h] using this
  · have := key_eq 6 52 8 (by rw [h]) (Or.inr (Or.inl rfl)) rfl (by decide) (by intro t ht; omega) (by decide) (by decide)
    simpa [h] using this
  · have := key_eq 8 60 7 (by rw [h]) (Or.inr (Or.inr rfl)) rfl (by decide) (by intro t ht; omega) (by decide) (by decide)
    simpa [h] using this

end Tls.Crypto.Aes
