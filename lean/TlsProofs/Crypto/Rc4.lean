import TlsModel.Crypto.Modes
import TlsProofs.Crypto.Chunks
/-
  C09 — RC4 (Python_RC4): the Python-int model with `% 256` is the byte-oriented key stream
  generator; (S, i, j) carried between calls; decrypt ∘ encrypt.
-/
set_option linter.unusedSimpArgs false
namespace Tls.Crypto.Modes
open Tls Tls.Crypto

/-- the model state represents the spec state -/
def Rel (m : Model.Rc4) (s : Spec.Rc4) : Prop :=
  m.S = s.S.map UInt8.toNat ∧ m.i = s.i.toNat ∧ m.j = s.j.toNat

theorem sAt_map (S : Vector UInt8 256) (u : UInt8) :
    Model.sAt (S.map UInt8.toNat) u.toNat = (S[u.toNat]'u.toNat_lt).toNat := by
  have h : u.toNat % 256 = u.toNat := Nat.mod_eq_of_lt u.toNat_lt
  simp [Model.sAt, h]

theorem swap_map (S : Vector UInt8 256) (u v : UInt8) :
    Model.swap (S.map UInt8.toNat) u.toNat v.toNat = (Spec.sw S u v).map UInt8.toNat := by
  have hu : u.toNat % 256 = u.toNat := Nat.mod_eq_of_lt u.toNat_lt
  have hv : v.toNat % 256 = v.toNat := Nat.mod_eq_of_lt v.toNat_lt
  simp [Model.swap, Spec.sw, hu, hv]

theorem add1_toNat (u : UInt8) : (u.toNat + 1) % 256 = (u + 1).toNat := by
  rw [UInt8.toNat_add]; rfl

theorem add_toNat8 (u v : UInt8) : (u.toNat + v.toNat) % 256 = (u + v).toNat := by
  rw [UInt8.toNat_add]

theorem ofNat_toNat8 (u : UInt8) : UInt8.ofNat u.toNat = u := by simp

/-- the model loop is: generate `len` key stream bytes with the PRGA, xor -/
theorem rc4Loop_spec : ∀ (pt : Bytes) (m : Model.Rc4) (s : Spec.Rc4), Rel m s →
    Rel (Model.rc4Loop m pt).1 (Spec.prga s pt.length).1 ∧
    (Model.rc4Loop m pt).2 = xorBytes pt (Spec.prga s pt.length).2 := by
  intro pt
  induction pt with
  | nil => intro m s h; exact ⟨h, rfl⟩
  | cons x xs ih =>
    intro m s ⟨hS, hi, hj⟩
    simp only [Model.rc4Loop, List.length_cons, Spec.prga, Spec.prgaStep]
    have e1 : (m.i + 1) % 256 = (s.i + 1).toNat := by rw [hi, add1_toNat]
    have e2 : (m.j + Model.sAt m.S ((m.i + 1) % 256)) % 256 =
        (s.j + s.S[(s.i + 1).toNat]'(s.i + 1).toNat_lt).toNat := by
      rw [e1, hS, sAt_map, hj, add_toNat8]
    have e3 : Model.swap m.S ((m.i + 1) % 256) ((m.j + Model.sAt m.S ((m.i + 1) % 256)) % 256) =
        (Spec.sw s.S (s.i + 1) (s.j + s.S[(s.i + 1).toNat]'(s.i + 1).toNat_lt)).map UInt8.toNat := by
      rw [e2, e1, hS, swap_map]
    rw [e3, e2, e1]
    have hrel : Rel { S := (Spec.sw s.S (s.i + 1) (s.j + s.S[(s.i + 1).toNat]'(s.i + 1).toNat_lt)).map UInt8.toNat,
                      i := (s.i + 1).toNat,
                      j := (s.j + s.S[(s.i + 1).toNat]'(s.i + 1).toNat_lt).toNat }
                    { S := Spec.sw s.S (s.i + 1) (s.j + s.S[(s.i + 1).toNat]'(s.i + 1).toNat_lt),
                      i := s.i + 1, j := s.j + s.S[(s.i + 1).toNat]'(s.i + 1).toNat_lt } := ⟨rfl, rfl, rfl⟩
    obtain ⟨ih1, ih2⟩ := ih _ _ hrel
    refine ⟨ih1, ?_⟩
    rw [ih2]
    simp only [xorBytes, List.zipWith_cons_cons, sAt_map, add_toNat8, ofNat_toNat8]

theorem prga_add : ∀ (a b : Nat) (s : Spec.Rc4),
    Spec.prga s (a + b) = ((Spec.prga (Spec.prga s a).1 b).1, (Spec.prga s a).2 ++ (Spec.prga (Spec.prga s a).1 b).2) := by
  intro a
  induction a with
  | zero => intro b s; simp [Spec.prga]
  | succ a ih =>
    intro b s
    rw [show a + 1 + b = (a + b) + 1 from by omega]
    simp only [Spec.prga, ih]
    rfl

theorem prga_length : ∀ (n : Nat) (s : Spec.Rc4), (Spec.prga s n).2.length = n := by
  intro n; induction n with
  | zero => intro _; rfl
  | succ n ih => intro s; simp [Spec.prga, ih]

/-- spec: encrypting `a` then `b` with the carried state = encrypting `a ++ b` -/
theorem spec_rc4_stream (s : Spec.Rc4) (a b : Bytes) :
    Spec.rc4Encrypt s (a ++ b) =
      ((Spec.rc4Encrypt (Spec.rc4Encrypt s a).1 b).1,
       (Spec.rc4Encrypt s a).2 ++ (Spec.rc4Encrypt (Spec.rc4Encrypt s a).1 b).2) := by
  simp only [Spec.rc4Encrypt, List.length_append, prga_add]
  congr 1
  simp only [xorBytes]
  exact List.zipWith_append (by rw [prga_length])

/-- decryption (= encryption from the same state) inverts encryption -/
theorem spec_rc4_involution (s : Spec.Rc4) (pt : Bytes) :
    (Spec.rc4Encrypt s (Spec.rc4Encrypt s pt).2).2 = pt := by
  have hl : (Spec.rc4Encrypt s pt).2.length = pt.length := by
    simp [Spec.rc4Encrypt, xorBytes_length, prga_length]
  simp only [Spec.rc4Encrypt] at hl ⊢
  rw [hl, xorBytes_cancel]
  rw [prga_length]; exact Nat.le_refl _


theorem ksa_fold (key : Bytes) (hk : 0 < key.length) :
    ∀ (l : List Nat), (∀ n ∈ l, n < 256) → ∀ (Ss : Vector UInt8 256) (js : UInt8),
      (l.foldl (Model.ksaStep key hk) (Ss.map UInt8.toNat, js.toNat)).1 =
        (l.foldl (Spec.ksaStep key hk) (Ss, js)).1.map UInt8.toNat ∧
      (l.foldl (Model.ksaStep key hk) (Ss.map UInt8.toNat, js.toNat)).2 =
        (l.foldl (Spec.ksaStep key hk) (Ss, js)).2.toNat := by
  intro l
  induction l with
  | nil => intro _ Ss js; exact ⟨rfl, rfl⟩
  | cons n ns ih =>
    intro hl Ss js
    have hn : n < 256 := hl n List.mem_cons_self
    have hon : (UInt8.ofNat n).toNat = n := by
      rw [UInt8.toNat_ofNat']; exact Nat.mod_eq_of_lt hn
    obtain ⟨u, rfl⟩ : ∃ u : UInt8, n = u.toNat := ⟨UInt8.ofNat n, hon.symm⟩
    have ej : (js.toNat + (Ss[u.toNat]'u.toNat_lt).toNat +
          (key[u.toNat % key.length]'(Nat.mod_lt _ hk)).toNat) % 256 =
        (js + Ss[u.toNat]'u.toNat_lt + key[u.toNat % key.length]'(Nat.mod_lt _ hk)).toNat := by
      rw [UInt8.toNat_add, UInt8.toNat_add]; omega
    have hstep : Model.ksaStep key hk (Ss.map UInt8.toNat, js.toNat) u.toNat =
        ((Spec.ksaStep key hk (Ss, js) u.toNat).1.map UInt8.toNat,
         (Spec.ksaStep key hk (Ss, js) u.toNat).2.toNat) := by
      simp only [Model.ksaStep, Spec.ksaStep, ofNat_toNat8, sAt_map, ej, swap_map]
    rw [List.foldl_cons, List.foldl_cons, hstep]
    exact ih (fun m hm => hl m (List.mem_cons_of_mem _ hm)) _ _

theorem identityS_map : Model.identityS = Spec.identityS.map UInt8.toNat := by
  ext i hi
  simp only [Model.identityS, Spec.identityS, Vector.getElem_ofFn, Vector.getElem_map, UInt8.toNat_ofNat']
  exact (Nat.mod_eq_of_lt hi).symm

/-- `Python_RC4.__init__` computes the key schedule (and raises ValueError outside 16..256 key bytes) -/
theorem rc4Init_spec (key : Bytes) (h : ¬ (key.length < 16 ∨ key.length > 256)) :
    ∃ m, Model.rc4Init key = .ok m ∧ Rel m (Spec.ksa key (by omega)) := by
  have hk : 0 < key.length := by omega
  refine ⟨_, by rw [Model.rc4Init, dif_neg h], ?_⟩
  have := ksa_fold key hk (List.range 256) (fun n hn => List.mem_range.mp hn) Spec.identityS 0
  rw [← identityS_map] at this
  exact ⟨this.1, rfl, rfl⟩

end Tls.Crypto.Modes
