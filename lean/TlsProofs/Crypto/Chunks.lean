import TlsModel.Crypto.Common
/-
  C09 — lemmas on `chunks`, slices and `xorBytes` shared by the mode proofs.
-/
namespace Tls.Crypto
open Tls

theorem chunks_nil' (n : Nat) : chunks n [] = [] := by
  rw [chunks]; simp

theorem chunks_cons' (n : Nat) (b : Bytes) (hn : n ≠ 0) (hb : b ≠ []) :
    chunks n b = b.take n :: chunks n (b.drop n) := by
  rw [chunks]; simp [hn, hb]

/-- a strong induction principle following `chunks` -/
theorem chunks_induction {P : Bytes → Prop} (n : Nat) (hn : n ≠ 0) (h0 : P [])
    (hs : ∀ b, b ≠ [] → P (b.drop n) → P b) : ∀ b, P b := by
  intro b
  generalize hl : b.length = len
  induction len using Nat.strongRecOn generalizing b with
  | _ len ih =>
    by_cases hb : b = []
    · subst hb; exact h0
    · have hpos : 0 < b.length := List.length_pos_iff.mpr hb
      exact hs b hb (ih (b.drop n).length (by simp only [List.length_drop]; omega) _ rfl)

theorem flatten_chunks (n : Nat) (hn : n ≠ 0) (b : Bytes) : (chunks n b).flatten = b := by
  induction b using chunks_induction n hn with
  | h0 => simp [chunks_nil']
  | hs b hb ih => rw [chunks_cons' n b hn hb, List.flatten_cons, ih, List.take_append_drop]

theorem length_of_mem_chunks (n : Nat) (hn : n ≠ 0) (b : Bytes) (h : b.length % n = 0) :
    ∀ x ∈ chunks n b, x.length = n := by
  induction b using chunks_induction n hn with
  | h0 => simp [chunks_nil']
  | hs b hb ih =>
    have hpos : 0 < b.length := List.length_pos_iff.mpr hb
    have hge : n ≤ b.length := by
      rcases Nat.lt_or_ge b.length n with hlt | hge
      · rw [Nat.mod_eq_of_lt hlt] at h; omega
      · exact hge
    rw [chunks_cons' n b hn hb]
    intro x hx
    rcases List.mem_cons.mp hx with rfl | hx
    · simp [List.length_take]; omega
    · refine ih ?_ x hx
      rw [List.length_drop, ← Nat.mod_eq_sub_mod hge]; exact h

theorem chunks_flatten (n : Nat) (hn : n ≠ 0) (bl : List Bytes) (h : ∀ x ∈ bl, x.length = n) :
    chunks n bl.flatten = bl := by
  induction bl with
  | nil => simp [chunks_nil']
  | cons x xs ih =>
    have hx : x.length = n := h x (List.mem_cons_self)
    have hne : (x :: xs).flatten ≠ [] := by
      intro e
      have : ((x :: xs).flatten).length = 0 := by rw [e]; rfl
      simp only [List.flatten_cons, List.length_append] at this; omega
    rw [chunks_cons' n _ hn hne, List.flatten_cons, List.take_left' hx, List.drop_left' hx,
      ih (fun y hy => h y (List.mem_cons_of_mem _ hy))]

theorem chunks_append (n : Nat) (hn : n ≠ 0) (a b : Bytes) (h : a.length % n = 0) :
    chunks n (a ++ b) = chunks n a ++ chunks n b := by
  have ha := length_of_mem_chunks n hn a h
  have hb := flatten_chunks n hn b
  have hcat : a ++ b = (chunks n a ++ [b]).flatten := by
    simp [flatten_chunks n hn a]
  by_cases hbe : b = []
  · subst hbe; simp [chunks_nil']
  · -- peel the blocks of `a` one by one
    generalize hl : chunks n a = la at ha
    have hfa : la.flatten = a := by rw [← hl]; exact flatten_chunks n hn a
    rw [← hfa]
    clear hl hfa hcat h
    induction la with
    | nil => simp
    | cons x xs ih =>
      have hx : x.length = n := ha x (List.mem_cons_self)
      have hne : (x :: xs).flatten ++ b ≠ [] := by simp [hbe]
      rw [chunks_cons' n _ hn hne, List.flatten_cons, List.append_assoc, List.take_left' hx,
        List.drop_left' hx, ih (fun y hy => ha y (List.mem_cons_of_mem _ hy))]
      rfl

/-- the index slices `data[i*n:(i+1)*n]` for `i < len/n` are the chunks when `n` divides the length -/
theorem slices_eq_chunks_dvd (n : Nat) (hn : n ≠ 0) (data : Bytes) (h : data.length % n = 0) :
    (List.range (data.length / n)).map (fun i => (data.drop (i*n)).take n) = chunks n data := by
  induction data using chunks_induction n hn with
  | h0 => simp [chunks_nil']
  | hs b hb ih =>
    have hpos : 0 < b.length := List.length_pos_iff.mpr hb
    have hn0 : 0 < n := Nat.pos_of_ne_zero hn
    have hge : n ≤ b.length := by
      rcases Nat.lt_or_ge b.length n with hlt | hge
      · rw [Nat.mod_eq_of_lt hlt] at h; omega
      · exact hge
    have hmod : (b.drop n).length % n = 0 := by
      rw [List.length_drop, ← Nat.mod_eq_sub_mod hge]; exact h
    have hdiv : b.length / n = (b.drop n).length / n + 1 := by
      rw [List.length_drop]
      have := Nat.div_eq_sub_div hn0 hge
      omega
    rw [chunks_cons' n b hn hb, hdiv, List.range_succ_eq_map, List.map_cons, List.map_map, ← ih hmod]
    simp only [Nat.zero_mul, List.drop_zero, List.cons.injEq, true_and]
    apply List.map_congr_left
    intro i _
    simp only [Function.comp, List.drop_drop]
    congr 2
    rw [Nat.succ_mul]; omega

theorem xorBytes_length (a b : Bytes) : (xorBytes a b).length = min a.length b.length := by
  simp [xorBytes]

theorem xorBytes_cancel (a k : Bytes) (h : a.length ≤ k.length) : xorBytes (xorBytes a k) k = a := by
  induction a generalizing k with
  | nil => simp [xorBytes]
  | cons x xs ih =>
    cases k with
    | nil => simp at h
    | cons y ys =>
      simp only [xorBytes] at ih
      simp only [List.length_cons] at h
      simp [xorBytes, ih ys (by omega), UInt8.xor_assoc]

theorem xorBytes_comm' (a b : Bytes) : xorBytes a b = xorBytes b a := by
  induction a generalizing b with
  | nil => cases b <;> rfl
  | cons x xs ih =>
    cases b with
    | nil => rfl
    | cons y ys => simp only [xorBytes, List.zipWith_cons_cons] at *; rw [ih, UInt8.xor_comm]

end Tls.Crypto
