import TlsProofs.Crypto.AesKd
/-
  C09 (growth) — `Rijndael(key).decrypt(block)` = FIPS-197 InvCipher(KeyExpansion(key), block).
-/
set_option linter.unusedSimpArgs false
namespace Tls.Crypto.Aes
open Tls Tls.Crypto

theorem eqInvCipherRK_congr (rk1 rk2 : Nat → Spec.State) (nr : Nat) (inp : Bytes) (h : ∀ r, r ≤ nr → rk1 r = rk2 r) :
    Spec.eqInvCipherRK rk1 nr inp = Spec.eqInvCipherRK rk2 nr inp := by
  unfold Spec.eqInvCipherRK
  rw [h 0 (by omega), h nr (Nat.le_refl _)]
  have key : ∀ (l : List Nat) (s : Spec.State), (∀ r ∈ l, r ≤ nr) →
      l.foldl (fun s r => Spec.addRoundKey (Spec.invMixColumns (Spec.invShiftRows (Spec.invSubBytes s))) (rk1 r)) s =
      l.foldl (fun s r => Spec.addRoundKey (Spec.invMixColumns (Spec.invShiftRows (Spec.invSubBytes s))) (rk2 r)) s := by
    intro l
    induction l with
    | nil => intro _ _; rfl
    | cons r rs ih =>
      intro s hl
      rw [List.foldl_cons, List.foldl_cons, h r (hl r List.mem_cons_self),
        ih _ (fun x hx => hl x (List.mem_cons_of_mem _ hx))]
  simp only
  rw [key (List.range' 1 (nr - 1)) _ (by intro r hr; have := List.mem_range'_1.mp hr; omega)]

theorem roundKey_length (w : List (List UInt8)) (hw : ∀ x ∈ w, x.length = 4) (r : Nat) (hr : 4 * r + 4 ≤ w.length) :
    (Spec.roundKey w r).length = 16 := by
  have hd := drop4 w (4 * r) [] hr
  have hm : ∀ k, k < 4 → (w.getD (4 * r + k) []).length = 4 := by
    intro k hk
    have hlt : 4 * r + k < w.length := by omega
    apply hw
    rw [List.getD_eq_getElem?_getD, List.getElem?_eq_getElem hlt]
    exact List.getElem_mem hlt
  have m0 := hm 0 (by decide)
  rw [Nat.add_zero] at m0
  rw [Spec.roundKey, hd]
  simp only [List.flatten_cons, List.flatten_nil, List.length_append, List.length_nil, m0, hm 1 (by decide),
    hm 2 (by decide), hm 3 (by decide)]

/-- FULL: block decryption of `rijndael.py` (T5..T8, Si, the U-transformed reversed key schedule) is
    the FIPS-197 InvCipher under KeyExpansion, for every key of 16, 24, 32 bytes and every block -/
theorem decrypt_spec (key block : Bytes) (hk : key.length = 16 ∨ key.length = 24 ∨ key.length = 32)
    (hb : block.length = 16) :
    (Model.init key >>= fun k => Model.decrypt k block) = .ok (Spec.invCipher key block) := by
  obtain ⟨Kd, hinit, hKd⟩ := init_spec key hk
  obtain ⟨_, hlen, hw⟩ := expandLoop_spec key hk
  have hlen' : (Spec.keyExpansion key).length = 4 * (key.length / 4 + 6 + 1) := by rw [hlen, Nat.mul_comm]
  rw [mkKd_spec _ hw] at hKd
  cases hKd
  rw [hinit]
  simp only [bind, Except.bind, Model.decrypt]
  have hkw := kdWords_words _ hw (key.length / 4 + 6)
  have hkl := kdWords_length (Spec.keyExpansion key) (key.length / 4 + 6) hlen'
  have hK : ∀ w ∈ (kdWords (Spec.keyExpansion key) (key.length / 4 + 6)).map wd, w < 2 ^ 32 := by
    intro w hw'
    obtain ⟨x, _, rfl⟩ := List.mem_map.mp hw'
    exact wd_lt x
  rw [crypt_dec_spec _ hK (key.length / 4 + 6) (by omega) (by rw [List.length_map, hkl]) block hb, Spec.invCipher,
    invCipher_eq_eqInv _ _ (fun r hr => roundKey_length _ hw r (by rw [hlen']; omega)) block hb]
  congr 1
  apply eqInvCipherRK_congr
  intro r hr
  rw [rkBytes_spec _ hkw r (by rw [hkl]; omega), kd_roundKey _ hw _ r hr hlen']

end Tls.Crypto.Aes
