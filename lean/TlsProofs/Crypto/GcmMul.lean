import TlsModel.Crypto.Gcm
/-
  C09 — `AESGCM._mul` (4-bit table method, generated reduction table, product table built in
  `__init__`) computes the GF(2^128) block multiplication of SP 800-38D Algorithm 1.
-/
set_option linter.unusedSimpArgs false
namespace Tls.Crypto.Gcm
open Tls Tls.Crypto

/-! ### mulX (multiplication by x) is linear over xor -/

theorem mulX_zero : Spec.mulX 0 = 0 := by decide

theorem mulX_xor (a b : Nat) : Spec.mulX (a ^^^ b) = Spec.mulX a ^^^ Spec.mulX b := by
  unfold Spec.mulX
  have hd : (a ^^^ b) / 2 = a / 2 ^^^ b / 2 := Nat.xor_div_two
  have hm := @Nat.xor_mod_two_eq_one a b
  rcases Nat.mod_two_eq_zero_or_one a with ha | ha <;> rcases Nat.mod_two_eq_zero_or_one b with hb | hb
  · have : (a ^^^ b) % 2 = 0 := by
      rcases Nat.mod_two_eq_zero_or_one (a ^^^ b) with h | h
      · exact h
      · have := hm.mp h; simp [ha, hb] at this
    simp [ha, hb, this, hd]
  · have : (a ^^^ b) % 2 = 1 := hm.mpr (by simp [ha, hb])
    simp [ha, hb, this, hd, Nat.xor_assoc]
  · have : (a ^^^ b) % 2 = 1 := hm.mpr (by simp [ha, hb])
    simp [ha, hb, this, hd]
    rw [Nat.xor_assoc, Nat.xor_comm (b / 2), ← Nat.xor_assoc]
  · have : (a ^^^ b) % 2 = 0 := by
      rcases Nat.mod_two_eq_zero_or_one (a ^^^ b) with h | h
      · exact h
      · have := hm.mp h; simp [ha, hb] at this
    simp [ha, hb, this, hd]
    rw [Nat.xor_assoc, ← Nat.xor_assoc Spec.R, Nat.xor_comm Spec.R, Nat.xor_assoc (b/2), Nat.xor_self,
      Nat.xor_zero]

theorem mulX_ite (b : Bool) (v : Nat) :
    Spec.mulX (if b then v else 0) = if b then Spec.mulX v else 0 := by
  cases b <;> simp [mulX_zero]

/-- `_gcmShift` is multiplication by x -/
theorem gcmShift_eq (x : Nat) : Model.gcmShift x = Spec.mulX x := by
  unfold Model.gcmShift Spec.mulX
  simp only [Nat.and_one_is_mod]
  have hs : x >>> 1 = x / 2 := by rw [Nat.shiftRight_eq_div_pow]
  rw [hs]
  have hR : (0xe1 <<< (128 - 8) : Nat) = Spec.R := by decide
  rw [hR]
  rcases Nat.mod_two_eq_zero_or_one x with h | h <;> simp [h]

/-- iterate mulX -/
def mulXpow : Nat → Nat → Nat
  | 0, v => v
  | n+1, v => mulXpow n (Spec.mulX v)

theorem mulXpow_zero (n : Nat) : mulXpow n 0 = 0 := by
  induction n with
  | zero => rfl
  | succ n ih => rw [mulXpow, mulX_zero, ih]

theorem mulXpow_xor (n : Nat) (a b : Nat) : mulXpow n (a ^^^ b) = mulXpow n a ^^^ mulXpow n b := by
  induction n generalizing a b with
  | zero => rfl
  | succ n ih => rw [mulXpow, mulX_xor, ih]; rfl

theorem mulXpow_succ' (n : Nat) (v : Nat) : mulXpow (n+1) v = Spec.mulX (mulXpow n v) := by
  induction n generalizing v with
  | zero => rfl
  | succ n ih => rw [mulXpow, ih (Spec.mulX v)]; rfl

/-! ### the polynomial: E X n V = xor over the low n bits k of X of mulX^(n-1-k) V -/

def E (X : Nat) : Nat → Nat → Nat
  | 0, _ => 0
  | n+1, V => (if X.testBit n then V else 0) ^^^ E X n (Spec.mulX V)

theorem gfmulAux_eq (X : Nat) : ∀ (n Z V : Nat), Spec.gfmulAux X n Z V = Z ^^^ E X n V := by
  intro n
  induction n with
  | zero => intro Z V; simp [Spec.gfmulAux, E]
  | succ n ih =>
    intro Z V
    rw [Spec.gfmulAux, ih, E]
    by_cases h : X.testBit n <;> simp [h, Nat.xor_assoc]

theorem gfmul_eq_E (X Y : Nat) : Spec.gfmul X Y = E X 128 Y := by
  rw [Spec.gfmul, gfmulAux_eq, Nat.zero_xor]

theorem E_mulX (X : Nat) : ∀ (n V : Nat), E X n (Spec.mulX V) = Spec.mulX (E X n V) := by
  intro n
  induction n with
  | zero => intro V; simp [E, mulX_zero]
  | succ n ih => intro V; rw [E, E, mulX_xor, ih, mulX_ite]

/-- peeling the lowest bit instead of the highest -/
theorem E_low (X : Nat) : ∀ (n V : Nat),
    E X (n+1) V = mulXpow n (if X.testBit 0 then V else 0) ^^^ E (X / 2) n V := by
  intro n
  induction n with
  | zero => intro V; simp [E, mulXpow]
  | succ n ih =>
    intro V
    rw [E, ih (Spec.mulX V), E, Nat.testBit_div_two, E_mulX (X/2)]
    rw [mulXpow, mulX_ite]
    rw [← Nat.xor_assoc, Nat.xor_comm (if X.testBit (n + 1) = true then V else 0), Nat.xor_assoc]

/-! ### Horner from the low end (what the nibble loop does, bit by bit) -/

def horner (H : Nat) : Nat → Nat → Nat → Nat
  | 0, _, acc => acc
  | n+1, y, acc => horner H n (y / 2) (Spec.mulX acc ^^^ (if y.testBit 0 then H else 0))

theorem horner_eq (H : Nat) : ∀ (n y acc : Nat), horner H n y acc = mulXpow n acc ^^^ E y n H := by
  intro n
  induction n with
  | zero => intro y acc; simp [horner, mulXpow, E]
  | succ n ih =>
    intro y acc
    rw [horner, ih, mulXpow_xor, E_low, mulXpow, Nat.xor_assoc]

theorem horner_add (H : Nat) : ∀ (a b y acc : Nat),
    horner H (a + b) y acc = horner H b (y / 2 ^ a) (horner H a y acc) := by
  intro a
  induction a with
  | zero => intro b y acc; simp [horner]
  | succ a ih =>
    intro b y acc
    rw [show a + 1 + b = (a + b) + 1 from by omega, horner, ih, horner, Nat.div_div_eq_div_mul, Nat.pow_succ,
      Nat.mul_comm]

theorem E_mod (H : Nat) (y n : Nat) : E (y % 2 ^ n) n H = E y n H := by
  have key : ∀ (m k V : Nat), k ≤ m → E (y % 2 ^ m) k V = E y k V := by
    intro m k
    induction k with
    | zero => intro V _; rfl
    | succ k ih =>
      intro V hk
      rw [E, E, ih _ (by omega), Nat.testBit_mod_two_pow]
      have : decide (k < m) = true := by simp; omega
      simp [this]
  exact key n n H (Nat.le_refl _)


/-! ### the reduction step: shift by four and the generated table = mulX⁴ -/

theorem mulX_step (v : Nat) : Spec.mulX v = v / 2 ^^^ (if v % 2 = 0 then 0 else Spec.R) := by
  unfold Spec.mulX; split <;> simp

theorem mulXpow_split : ∀ (n v : Nat), mulXpow n v = v / 2 ^ n ^^^ mulXpow n (v % 2 ^ n) := by
  intro n
  induction n with
  | zero => intro v; simp [mulXpow, Nat.mod_one]
  | succ n ih =>
    intro v
    have hw2 : v % 2 ^ (n + 1) % 2 = v % 2 := by
      rw [Nat.pow_succ, Nat.mul_comm]; exact Nat.mod_mul_right_mod _ _ _
    have hwd : v % 2 ^ (n + 1) / 2 = v / 2 % 2 ^ n := by
      rw [Nat.pow_succ, Nat.mul_comm, Nat.mod_mul_right_div_self]
    rw [mulXpow, mulXpow, mulX_step v, mulX_step (v % 2 ^ (n+1)), hw2, hwd, mulXpow_xor, mulXpow_xor, ih (v / 2),
      Nat.div_div_eq_div_mul, Nat.pow_succ, Nat.mul_comm 2, Nat.xor_assoc]

/-- the generated table `_gcmReductionTable`, shifted into place, is mulX⁴ of the four dropped bits
    (checked over the whole table, re-checked whenever the source changes) -/
theorem reductionTable_correct :
    ∀ n, n < 16 → (Gen.gcmReductionTable[n]?).map (· <<< (128 - 16)) = some (mulXpow 4 n) := by
  decide

theorem idx_of_getElem? {α : Type} (l : List α) (i : Nat) (v : α) (h : l[i]? = some v) : idx l i = .ok v := by
  simp [idx, h]

theorem reduce_step (ret : Nat) :
    ∃ r, idx Gen.gcmReductionTable (ret &&& 0xf) = .ok r ∧
      (ret >>> 4) ^^^ (r <<< (128 - 16)) = mulXpow 4 ret := by
  have h16 : ret &&& 0xf = ret % 16 := Nat.and_two_pow_sub_one_eq_mod ret 4
  have hlt : ret % 16 < 16 := Nat.mod_lt _ (by decide)
  have ht := reductionTable_correct (ret % 16) hlt
  cases hg : Gen.gcmReductionTable[ret % 16]? with
  | none => rw [hg] at ht; simp at ht
  | some r =>
    rw [hg] at ht
    simp only [Option.map_some, Option.some.injEq] at ht
    refine ⟨r, by rw [h16]; exact idx_of_getElem? _ _ _ hg, ?_⟩
    rw [ht, mulXpow_split 4 ret, Nat.shiftRight_eq_div_pow]


/-! ### the product table built in `__init__` holds the 4-bit multiples of H -/

theorem E4 (n h : Nat) : E n 4 h = (if n.testBit 3 then h else 0) ^^^ ((if n.testBit 2 then Spec.mulX h else 0) ^^^
    ((if n.testBit 1 then Spec.mulX (Spec.mulX h) else 0) ^^^ (if n.testBit 0 then Spec.mulX (Spec.mulX (Spec.mulX h)) else 0))) := by
  simp [E]

theorem productTable_spec (h : Nat) :
    Model.productTable h = .ok ((List.range 16).map (fun n => E n 4 h)) := by
  simp (config := {decide := true}) [Model.productTable, Model.reverseBits, idx, setIdx, bind, Except.bind, pure, Except.pure,
      List.foldlM, Model.gcmAdd, gcmShift_eq, List.range_succ, E4, mulX_xor, Nat.testBit]
  repeat' constructor
  all_goals ac_rfl

theorem productTable_idx (h n : Nat) (hn : n < 16) :
    idx ((List.range 16).map (fun n => E n 4 h)) n = .ok (E n 4 h) := by
  apply idx_of_getElem?
  simp [List.getElem?_map, List.getElem?_range hn]

/-! ### `_mul` -/

theorem mulStep_spec (h : Nat) (ret y : Nat) :
    Model.mulStep ((List.range 16).map (fun n => E n 4 h)) (ret, y) = .ok (horner h 4 y ret, y / 16) := by
  obtain ⟨r, hr, hred⟩ := reduce_step ret
  have hy : y &&& 0xf = y % 16 := Nat.and_two_pow_sub_one_eq_mod y 4
  simp only [Model.mulStep, hr, hy, productTable_idx h (y % 16) (Nat.mod_lt _ (by decide)), bind, Except.bind,
    pure, Except.pure, hred]
  rw [horner_eq, E_mod h y 4, Nat.shiftRight_eq_div_pow]

theorem mul_iter (h : Nat) : ∀ (k ret y : Nat),
    iterM k (Model.mulStep ((List.range 16).map (fun n => E n 4 h))) (ret, y) =
      .ok (horner h (4 * k) y ret, y / 16 ^ k) := by
  intro k
  induction k with
  | zero => intro ret y; simp [iterM, horner]
  | succ k ih =>
    intro ret y
    rw [iterM, mulStep_spec]
    simp only [bind, Except.bind]
    rw [ih, show 4 * (k + 1) = 4 + 4 * k from by omega, horner_add, Nat.div_div_eq_div_mul,
      show (2:Nat) ^ 4 = 16 from rfl, Nat.pow_succ, Nat.mul_comm (16 ^ k)]

/-- `_mul(y)` with the table of `__init__` is the block product y • H of SP 800-38D §6.3, for
    every 128-bit y and every H -/
theorem mul_eq_gfmul (h y : Nat) (hy : y < 2 ^ 128) :
    ∃ t, Model.productTable h = .ok t ∧ Model.mul t y = .ok (Spec.gfmul y h) := by
  refine ⟨_, productTable_spec h, ?_⟩
  rw [Model.mul, mul_iter]
  simp only [bind, Except.bind]
  have hz : y / 16 ^ 32 = 0 := Nat.div_eq_of_lt (by rw [show (16:Nat) ^ 32 = 2 ^ 128 from by decide]; exact hy)
  rw [hz]
  simp only [ne_eq, not_true_eq_false, if_false, pure, Except.pure]
  rw [horner_eq, mulXpow_zero, Nat.zero_xor, gfmul_eq_E]

/-- outside 128 bits the final `assert y == 0` fires -/
theorem mul_assert (h y : Nat) (hy : 2 ^ 128 ≤ y) :
    Model.mul ((List.range 16).map (fun n => E n 4 h)) y = .error .assertion := by
  rw [Model.mul, mul_iter]
  simp only [bind, Except.bind]
  have : y / 16 ^ 32 ≠ 0 := by
    rw [show (16:Nat) ^ 32 = 2 ^ 128 from by decide]
    have := Nat.div_pos hy (by decide : 0 < 2 ^ 128)
    omega
  simp [this]

end Tls.Crypto.Gcm
