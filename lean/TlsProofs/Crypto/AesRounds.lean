import TlsProofs.Crypto.AesTables
/-
  C09 (growth) — the table-driven rounds of rijndael.py are the FIPS-197 rounds.
-/
set_option linter.unusedSimpArgs false
namespace Tls.Crypto.Aes
open Tls Tls.Crypto

/-! ### 32-bit words as four bytes -/

theorem word_arith (a b c d : Nat) (hb : b < 256) (hc : c < 256) (hd : d < 256) :
    word a b c d = ((a * 256 + b) * 256 + c) * 256 + d := by
  unfold word
  have h1 : (c <<< 8) ||| d = c <<< 8 + d := (Nat.shiftLeft_add_eq_or_of_lt (by omega) c).symm
  have h2 : (b <<< 16) ||| (c <<< 8 + d) = b <<< 16 + (c <<< 8 + d) := by
    have : c <<< 8 + d < 2 ^ 16 := by rw [Nat.shiftLeft_eq]; omega
    exact (Nat.shiftLeft_add_eq_or_of_lt this b).symm
  have h3 : (a <<< 24) ||| (b <<< 16 + (c <<< 8 + d)) = a <<< 24 + (b <<< 16 + (c <<< 8 + d)) := by
    have : b <<< 16 + (c <<< 8 + d) < 2 ^ 24 := by rw [Nat.shiftLeft_eq, Nat.shiftLeft_eq]; omega
    exact (Nat.shiftLeft_add_eq_or_of_lt this a).symm
  rw [Nat.or_assoc, Nat.or_assoc, h1, h2, h3]
  simp only [Nat.shiftLeft_eq]
  omega

theorem byteOf_eq (w sh : Nat) : Model.byteOf w sh = w / 2 ^ sh % 256 := by
  unfold Model.byteOf
  rw [Nat.shiftRight_eq_div_pow]
  exact Nat.and_two_pow_sub_one_eq_mod _ 8

theorem byteOf_word (a b c d : Nat) (ha : a < 256) (hb : b < 256) (hc : c < 256) (hd : d < 256) :
    Model.byteOf (word a b c d) 24 = a ∧ Model.byteOf (word a b c d) 16 = b ∧
    Model.byteOf (word a b c d) 8 = c ∧ Model.byteOf (word a b c d) 0 = d := by
  simp only [byteOf_eq, word_arith a b c d hb hc hd]
  refine ⟨?_, ?_, ?_, ?_⟩ <;> omega

theorem xor_split (p q x y : Nat) (hx : x < 256) (hy : y < 256) :
    (p * 256 + x) ^^^ (q * 256 + y) = (p ^^^ q) * 256 + (x ^^^ y) := by
  have e1 : (p * 256 + x) % 256 = x := by
    rw [Nat.add_comm, Nat.add_mul_mod_self_right, Nat.mod_eq_of_lt hx]
  have e2 : (q * 256 + y) % 256 = y := by
    rw [Nat.add_comm, Nat.add_mul_mod_self_right, Nat.mod_eq_of_lt hy]
  have e3 : (p * 256 + x) / 256 = p := by
    rw [Nat.add_comm, Nat.add_mul_div_right _ _ (by decide : 0 < 256), Nat.div_eq_of_lt hx, Nat.zero_add]
  have e4 : (q * 256 + y) / 256 = q := by
    rw [Nat.add_comm, Nat.add_mul_div_right _ _ (by decide : 0 < 256), Nat.div_eq_of_lt hy, Nat.zero_add]
  have hm := @Nat.xor_mod_two_pow (p * 256 + x) (q * 256 + y) 8
  have hd := @Nat.xor_div_two_pow (p * 256 + x) (q * 256 + y) 8
  have p8 : (2:Nat) ^ 8 = 256 := rfl
  rw [p8, e1, e2] at hm
  rw [p8, e3, e4] at hd
  have := Nat.div_add_mod ((p * 256 + x) ^^^ (q * 256 + y)) 256
  rw [hm, hd] at this
  rw [← this, Nat.mul_comm]

theorem xor_lt256 (x y : Nat) (hx : x < 256) (hy : y < 256) : x ^^^ y < 256 :=
  Nat.xor_lt_two_pow (n := 8) hx hy

theorem word_xor (a b c d e f g h : Nat) (hb : b < 256) (hc : c < 256) (hd : d < 256)
    (hf : f < 256) (hg : g < 256) (hh : h < 256) :
    word a b c d ^^^ word e f g h = word (a ^^^ e) (b ^^^ f) (c ^^^ g) (d ^^^ h) := by
  rw [word_arith a b c d hb hc hd, word_arith e f g h hf hg hh,
    word_arith _ _ _ _ (xor_lt256 _ _ hb hf) (xor_lt256 _ _ hc hg) (xor_lt256 _ _ hd hh),
    xor_split _ _ d h hd hh, xor_split _ _ c g hc hg, xor_split _ _ b f hb hf]

/-- every 32-bit word is a word of four bytes -/
theorem word_bytes (k : Nat) (hk : k < 2 ^ 32) :
    k = word (k / 2 ^ 24) (k / 2 ^ 16 % 256) (k / 2 ^ 8 % 256) (k % 256) := by
  rw [word_arith _ _ _ _ (Nat.mod_lt _ (by decide)) (Nat.mod_lt _ (by decide)) (Nat.mod_lt _ (by decide))]
  omega


/-! ### table lookups -/

theorem aidx_of_toList (a : Array Nat) (i v : Nat) (h : a.toList[i]? = some v) : aidx a i = .ok v := by
  rw [Array.getElem?_toList] at h
  simp [aidx, h]

theorem S_lookup (x : Nat) (hx : x < 256) : aidx Gen.S x = .ok (Spec.sboxN x) := by
  apply aidx_of_toList
  rw [S_table, List.getElem?_map, List.getElem?_range hx]; rfl

theorem S_bound : ∀ s ∈ Gen.S.toList, s < 256 := by decide +kernel

theorem sboxN_lt (x : Nat) (hx : x < 256) : Spec.sboxN x < 256 := by
  apply S_bound
  rw [S_table]
  exact List.mem_map.mpr ⟨x, List.mem_range.mpr hx, rfl⟩

theorem gmul_bounds : ∀ x, x < 256 → Spec.gmulN 2 x < 256 ∧ Spec.gmulN 3 x < 256 := by decide +kernel

theorem T_lookup (x : Nat) (hx : x < 256) :
    aidx Gen.T1 x = .ok (word (Spec.gmulN 2 (Spec.sboxN x)) (Spec.sboxN x) (Spec.sboxN x) (Spec.gmulN 3 (Spec.sboxN x))) ∧
    aidx Gen.T2 x = .ok (word (Spec.gmulN 3 (Spec.sboxN x)) (Spec.gmulN 2 (Spec.sboxN x)) (Spec.sboxN x) (Spec.sboxN x)) ∧
    aidx Gen.T3 x = .ok (word (Spec.sboxN x) (Spec.gmulN 3 (Spec.sboxN x)) (Spec.gmulN 2 (Spec.sboxN x)) (Spec.sboxN x)) ∧
    aidx Gen.T4 x = .ok (word (Spec.sboxN x) (Spec.sboxN x) (Spec.gmulN 3 (Spec.sboxN x)) (Spec.gmulN 2 (Spec.sboxN x))) := by
  obtain ⟨h1, h2, h3, h4⟩ := T_tables
  have hs : Gen.S.toList[x]? = some (Spec.sboxN x) := by
    rw [S_table, List.getElem?_map, List.getElem?_range hx]; rfl
  refine ⟨?_, ?_, ?_, ?_⟩ <;> apply aidx_of_toList
  · rw [h1, List.getElem?_map, hs]; rfl
  · rw [h2, List.getElem?_map, hs]; rfl
  · rw [h3, List.getElem?_map, hs]; rfl
  · rw [h4, List.getElem?_map, hs]; rfl

/-! ### one column of a round -/

def wordB (a b c d : UInt8) : Nat := word a.toNat b.toNat c.toNat d.toNat

theorem gmul_toNat2 (x : UInt8) : (Spec.gmul 2 x).toNat = Spec.gmulN 2 x.toNat := by
  have := (gmul_bounds x.toNat x.toNat_lt).1
  simp only [Spec.gmul, UInt8.toNat_ofNat']
  exact Nat.mod_eq_of_lt this

theorem gmul_toNat3 (x : UInt8) : (Spec.gmul 3 x).toNat = Spec.gmulN 3 x.toNat := by
  have := (gmul_bounds x.toNat x.toNat_lt).2
  simp only [Spec.gmul, UInt8.toNat_ofNat']
  exact Nat.mod_eq_of_lt this

theorem sbox_toNat (x : UInt8) : (Spec.sbox x).toNat = Spec.sboxN x.toNat := by
  simp only [Spec.sbox, UInt8.toNat_ofNat']
  exact Nat.mod_eq_of_lt (sboxN_lt _ x.toNat_lt)

/-- T1[a] ^ T2[b] ^ T3[c] ^ T4[d] ^ k is the MixColumns column of the substituted bytes plus the key column -/
theorem column_spec (a b c d k0 k1 k2 k3 : UInt8) :
    (do
      let x1 ← aidx Gen.T1 a.toNat
      let x2 ← aidx Gen.T2 b.toNat
      let x3 ← aidx Gen.T3 c.toNat
      let x4 ← aidx Gen.T4 d.toNat
      pure ((x1 ^^^ x2 ^^^ x3 ^^^ x4) ^^^ wordB k0 k1 k2 k3) : Except Err Nat) =
    .ok (wordB
      (Spec.gmul 2 (Spec.sbox a) ^^^ Spec.gmul 3 (Spec.sbox b) ^^^ Spec.sbox c ^^^ Spec.sbox d ^^^ k0)
      (Spec.sbox a ^^^ Spec.gmul 2 (Spec.sbox b) ^^^ Spec.gmul 3 (Spec.sbox c) ^^^ Spec.sbox d ^^^ k1)
      (Spec.sbox a ^^^ Spec.sbox b ^^^ Spec.gmul 2 (Spec.sbox c) ^^^ Spec.gmul 3 (Spec.sbox d) ^^^ k2)
      (Spec.gmul 3 (Spec.sbox a) ^^^ Spec.sbox b ^^^ Spec.sbox c ^^^ Spec.gmul 2 (Spec.sbox d) ^^^ k3)) := by
  have ha := sboxN_lt _ a.toNat_lt
  have hb := sboxN_lt _ b.toNat_lt
  have hc := sboxN_lt _ c.toNat_lt
  have hd := sboxN_lt _ d.toNat_lt
  have ga := gmul_bounds _ ha
  have gb := gmul_bounds _ hb
  have gc := gmul_bounds _ hc
  have gd := gmul_bounds _ hd
  have x := @xor_lt256
  simp only [(T_lookup _ a.toNat_lt).1, (T_lookup _ b.toNat_lt).2.1, (T_lookup _ c.toNat_lt).2.2.1,
    (T_lookup _ d.toNat_lt).2.2.2, bind, Except.bind, pure, Except.pure, wordB]
  rw [word_xor _ _ _ _ _ _ _ _ ha ha ga.2 gb.1 hb hb,
    word_xor _ _ _ _ _ _ _ _ (x _ _ ha gb.1) (x _ _ ha hb) (x _ _ ga.2 hb) gc.2 gc.1 hc,
    word_xor _ _ _ _ _ _ _ _ (x _ _ (x _ _ ha gb.1) gc.2) (x _ _ (x _ _ ha hb) gc.1) (x _ _ (x _ _ ga.2 hb) hc)
      hd gd.2 gd.1,
    word_xor _ _ _ _ _ _ _ _ (x _ _ (x _ _ (x _ _ ha gb.1) gc.2) hd) (x _ _ (x _ _ (x _ _ ha hb) gc.1) gd.2)
      (x _ _ (x _ _ (x _ _ ga.2 hb) hc) gd.1) k1.toNat_lt k2.toNat_lt k3.toNat_lt]
  simp only [UInt8.toNat_xor, gmul_toNat2, gmul_toNat3, sbox_toNat]


/-! ### one full round on an explicit state -/

/-- the four state words of a 16-byte state (column c = bytes 4c … 4c+3, big-endian in the word) -/
def wordsOf : List UInt8 → List Nat
  | a :: b :: c :: d :: rest => wordB a b c d :: wordsOf rest
  | _ => []

theorem byteOf_wordB (a b c d : UInt8) :
    Model.byteOf (wordB a b c d) 24 = a.toNat ∧ Model.byteOf (wordB a b c d) 16 = b.toNat ∧
    Model.byteOf (wordB a b c d) 8 = c.toNat ∧ Model.byteOf (wordB a b c d) 0 = d.toNat :=
  byteOf_word _ _ _ _ a.toNat_lt b.toNat_lt c.toNat_lt d.toNat_lt

theorem colWord_spec (K : List Nat) (r i : Nat) (t : List Nat)
    (a a1 a2 a3 b b0 b2 b3 c c0 c1 c3 d d0 d1 d2 k0 k1 k2 k3 : UInt8)
    (h0 : idx t i = .ok (wordB a a1 a2 a3)) (h1 : idx t ((i + 1) % 4) = .ok (wordB b0 b b2 b3))
    (h2 : idx t ((i + 2) % 4) = .ok (wordB c0 c1 c c3)) (h3 : idx t ((i + 3) % 4) = .ok (wordB d0 d1 d2 d))
    (hk : idx K (4*r + i) = .ok (wordB k0 k1 k2 k3)) :
    Model.colWord Gen.T1 Gen.T2 Gen.T3 Gen.T4 K t 1 2 3 r i =
      .ok (wordB
        (Spec.gmul 2 (Spec.sbox a) ^^^ Spec.gmul 3 (Spec.sbox b) ^^^ Spec.sbox c ^^^ Spec.sbox d ^^^ k0)
        (Spec.sbox a ^^^ Spec.gmul 2 (Spec.sbox b) ^^^ Spec.gmul 3 (Spec.sbox c) ^^^ Spec.sbox d ^^^ k1)
        (Spec.sbox a ^^^ Spec.sbox b ^^^ Spec.gmul 2 (Spec.sbox c) ^^^ Spec.gmul 3 (Spec.sbox d) ^^^ k2)
        (Spec.gmul 3 (Spec.sbox a) ^^^ Spec.sbox b ^^^ Spec.sbox c ^^^ Spec.gmul 2 (Spec.sbox d) ^^^ k3)) := by
  have := column_spec a b c d k0 k1 k2 k3
  simp only [bind, Except.bind, pure, Except.pure] at this
  simp only [Model.colWord, h0, h1, h2, h3, hk, bind, Except.bind, pure, Except.pure,
    (byteOf_wordB a a1 a2 a3).1, (byteOf_wordB b0 b b2 b3).2.1, (byteOf_wordB c0 c1 c c3).2.2.1,
    (byteOf_wordB d0 d1 d2 d).2.2.2]
  exact this

theorem roundStep_spec (K : List Nat) (r : Nat)
    (s0 s1 s2 s3 s4 s5 s6 s7 s8 s9 s10 s11 s12 s13 s14 s15 : UInt8)
    (k0 k1 k2 k3 k4 k5 k6 k7 k8 k9 k10 k11 k12 k13 k14 k15 : UInt8)
    (hk0 : idx K (4*r + 0) = .ok (wordB k0 k1 k2 k3)) (hk1 : idx K (4*r + 1) = .ok (wordB k4 k5 k6 k7))
    (hk2 : idx K (4*r + 2) = .ok (wordB k8 k9 k10 k11)) (hk3 : idx K (4*r + 3) = .ok (wordB k12 k13 k14 k15)) :
    Model.roundStep Gen.T1 Gen.T2 Gen.T3 Gen.T4 K 1 2 3
        (wordsOf [s0, s1, s2, s3, s4, s5, s6, s7, s8, s9, s10, s11, s12, s13, s14, s15]) r =
      .ok (wordsOf (Spec.addRoundKey (Spec.mixColumns (Spec.shiftRows (Spec.subBytes
        [s0, s1, s2, s3, s4, s5, s6, s7, s8, s9, s10, s11, s12, s13, s14, s15])))
        [k0, k1, k2, k3, k4, k5, k6, k7, k8, k9, k10, k11, k12, k13, k14, k15])) := by
  have c0 := colWord_spec K r 0 (wordsOf [s0, s1, s2, s3, s4, s5, s6, s7, s8, s9, s10, s11, s12, s13, s14, s15])
    s0 s1 s2 s3 s5 s4 s6 s7 s10 s8 s9 s11 s15 s12 s13 s14 k0 k1 k2 k3 rfl rfl rfl rfl hk0
  have c1 := colWord_spec K r 1 (wordsOf [s0, s1, s2, s3, s4, s5, s6, s7, s8, s9, s10, s11, s12, s13, s14, s15])
    s4 s5 s6 s7 s9 s8 s10 s11 s14 s12 s13 s15 s3 s0 s1 s2 k4 k5 k6 k7 rfl rfl rfl rfl hk1
  have c2 := colWord_spec K r 2 (wordsOf [s0, s1, s2, s3, s4, s5, s6, s7, s8, s9, s10, s11, s12, s13, s14, s15])
    s8 s9 s10 s11 s13 s12 s14 s15 s2 s0 s1 s3 s7 s4 s5 s6 k8 k9 k10 k11 rfl rfl rfl rfl hk2
  have c3 := colWord_spec K r 3 (wordsOf [s0, s1, s2, s3, s4, s5, s6, s7, s8, s9, s10, s11, s12, s13, s14, s15])
    s12 s13 s14 s15 s1 s0 s2 s3 s6 s4 s5 s7 s11 s8 s9 s10 k12 k13 k14 k15 rfl rfl rfl rfl hk3
  simp only [Model.roundStep, show List.range 4 = [0, 1, 2, 3] from rfl, List.mapM_cons, List.mapM_nil, c0, c1, c2, c3,
    bind, Except.bind, pure, Except.pure]
  simp [Spec.addRoundKey, Spec.mixColumns, Spec.shiftRows, Spec.subBytes, Spec.at_, xorBytes, wordsOf,
    List.range_succ]


/-! ### first key addition and last round -/

theorem ofNat_xor8 (a b : Nat) : UInt8.ofNat (a ^^^ b) = UInt8.ofNat a ^^^ UInt8.ofNat b := by
  apply UInt8.toNat_inj.mp
  rw [UInt8.toNat_xor, UInt8.toNat_ofNat', UInt8.toNat_ofNat', UInt8.toNat_ofNat']
  exact Nat.xor_mod_two_pow (n := 8)

theorem wordB_xor (a b c d e f g h : UInt8) :
    wordB a b c d ^^^ wordB e f g h = wordB (a ^^^ e) (b ^^^ f) (c ^^^ g) (d ^^^ h) := by
  simp only [wordB, UInt8.toNat_xor]
  exact word_xor _ _ _ _ _ _ _ _ b.toNat_lt c.toNat_lt d.toNat_lt f.toNat_lt g.toNat_lt h.toNat_lt

theorem firstStep_spec (K : List Nat)
    (b0 b1 b2 b3 b4 b5 b6 b7 b8 b9 b10 b11 b12 b13 b14 b15 : UInt8)
    (k0 k1 k2 k3 k4 k5 k6 k7 k8 k9 k10 k11 k12 k13 k14 k15 : UInt8)
    (hk0 : idx K 0 = .ok (wordB k0 k1 k2 k3)) (hk1 : idx K 1 = .ok (wordB k4 k5 k6 k7))
    (hk2 : idx K 2 = .ok (wordB k8 k9 k10 k11)) (hk3 : idx K 3 = .ok (wordB k12 k13 k14 k15)) :
    Model.firstStep K [b0, b1, b2, b3, b4, b5, b6, b7, b8, b9, b10, b11, b12, b13, b14, b15] =
      .ok (wordsOf (Spec.addRoundKey [b0, b1, b2, b3, b4, b5, b6, b7, b8, b9, b10, b11, b12, b13, b14, b15]
        [k0, k1, k2, k3, k4, k5, k6, k7, k8, k9, k10, k11, k12, k13, k14, k15])) := by
  have w : ∀ (a b c d : UInt8), (a.toNat <<< 24) ||| (b.toNat <<< 16) ||| (c.toNat <<< 8) ||| d.toNat = wordB a b c d :=
    fun _ _ _ _ => rfl
  simp only [Model.firstStep, show List.range 4 = [0, 1, 2, 3] from rfl, List.mapM_cons, List.mapM_nil,
    hk0, hk1, hk2, hk3, bind, Except.bind, pure, Except.pure]
  simp only [Model.wordAt, idx, bind, Except.bind, pure, Except.pure, Except.map,
    List.getElem?_cons_succ, List.getElem?_cons_zero, w, wordB_xor]
  simp [Spec.addRoundKey, xorBytes, wordsOf]
  rw [w, wordB_xor]

theorem low_xor (s w : Nat) (hs : s < 256) : (s ^^^ w) &&& 0xFF = s ^^^ (w % 256) := by
  have h := Nat.and_two_pow_sub_one_eq_mod (s ^^^ w) 8
  have hx := @Nat.xor_mod_two_pow s w 8
  rw [show (2:Nat) ^ 8 = 256 from rfl] at hx
  rw [show (0xFF : Nat) = 2 ^ 8 - 1 from rfl, h, show (2:Nat) ^ 8 = 256 from rfl, hx, Nat.mod_eq_of_lt hs]

theorem shr_bytes (a b c d : UInt8) :
    (wordB a b c d >>> 24) % 256 = a.toNat ∧ (wordB a b c d >>> 16) % 256 = b.toNat ∧
    (wordB a b c d >>> 8) % 256 = c.toNat ∧ (wordB a b c d) % 256 = d.toNat := by
  obtain ⟨h1, h2, h3, h4⟩ := byteOf_wordB a b c d
  simp only [byteOf_eq, Nat.pow_zero, Nat.div_one] at h1 h2 h3 h4
  simp only [Nat.shiftRight_eq_div_pow]
  exact ⟨h1, h2, h3, h4⟩

theorem lastCol_spec (K : List Nat) (rounds i : Nat) (t : List Nat)
    (a a1 a2 a3 b b0 b2 b3 c c0 c1 c3 d d0 d1 d2 k0 k1 k2 k3 : UInt8)
    (h0 : idx t i = .ok (wordB a a1 a2 a3)) (h1 : idx t ((i + 1) % 4) = .ok (wordB b0 b b2 b3))
    (h2 : idx t ((i + 2) % 4) = .ok (wordB c0 c1 c c3)) (h3 : idx t ((i + 3) % 4) = .ok (wordB d0 d1 d2 d))
    (hk : idx K (4*rounds + i) = .ok (wordB k0 k1 k2 k3)) :
    (Model.lastCol Gen.S K t 1 2 3 rounds i).map (fun l => l.map UInt8.ofNat) =
      .ok [Spec.sbox a ^^^ k0, Spec.sbox b ^^^ k1, Spec.sbox c ^^^ k2, Spec.sbox d ^^^ k3] := by
  obtain ⟨e1, e2, e3, e4⟩ := shr_bytes k0 k1 k2 k3
  simp only [Model.lastCol, h0, h1, h2, h3, hk, bind, Except.bind, pure, Except.pure, Except.map,
    (byteOf_wordB a a1 a2 a3).1, (byteOf_wordB b0 b b2 b3).2.1, (byteOf_wordB c0 c1 c c3).2.2.1,
    (byteOf_wordB d0 d1 d2 d).2.2.2, S_lookup _ a.toNat_lt, S_lookup _ b.toNat_lt, S_lookup _ c.toNat_lt,
    S_lookup _ d.toNat_lt, low_xor _ _ (sboxN_lt _ a.toNat_lt), low_xor _ _ (sboxN_lt _ b.toNat_lt),
    low_xor _ _ (sboxN_lt _ c.toNat_lt), low_xor _ _ (sboxN_lt _ d.toNat_lt), e1, e2, e3, e4,
    List.map_cons, List.map_nil, ofNat_xor8, Spec.sbox]
  simp

end Tls.Crypto.Aes
