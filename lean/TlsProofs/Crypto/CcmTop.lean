import TlsProofs.Crypto.Ccm
import TlsProofs.Crypto.Gcm
/-
  C09 — AES-CCM / CCM-8: counter blocks, seal / open = RFC 3610, open ∘ seal, acceptance condition.
-/
set_option linter.unusedSimpArgs false
namespace Tls.Crypto.Ccm
open Tls Tls.Crypto Tls.Crypto.Modes

theorem ctrBlock_length (N : Bytes) (k : Nat) (hn : N.length = 12) : (Spec.ctrBlock N k).length = 16 := by
  simp [Spec.ctrBlock, hn, length_beEncode]

theorem beDecode_ctrBlock (N : Bytes) (k : Nat) (hn : N.length = 12) (hk : k < 2 ^ 24) :
    beDecode (Spec.ctrBlock N k) = beDecode ([UInt8.ofNat 2] ++ N) * 2 ^ 24 + k := by
  unfold Spec.ctrBlock
  simp only [hn]
  rw [Gcm.beDecode_append, length_beEncode, beDecode_beEncode, show (256:Nat) ^ 3 = 2 ^ 24 from by decide,
    Nat.mod_eq_of_lt hk]

/-- the 128-bit increment of the code's CTR object steps the L-byte counter field of A_i -/
theorem incM_ctrBlock (N : Bytes) (k : Nat) (hn : N.length = 12) (hk : k + 1 < 2 ^ 24) :
    Modes.Spec.incM 128 (Spec.ctrBlock N k) = Spec.ctrBlock N (k + 1) := by
  rw [incM_128 _ (ctrBlock_length N k hn), beDecode_ctrBlock N k hn (by omega), Nat.add_assoc,
    ← beDecode_ctrBlock N (k+1) hn hk]
  have := beEncode_beDecode (Spec.ctrBlock N (k+1))
  rw [ctrBlock_length N (k+1) hn] at this
  exact this

theorem ctrStream_ctrBlock (E : Bytes → Bytes) (N : Bytes) (hn : N.length = 12) : ∀ (n k : Nat), k + n ≤ 2 ^ 24 →
    Modes.Spec.ctrStream E (Modes.Spec.incM 128) n (Spec.ctrBlock N k) =
      (List.range n).flatMap fun i => E (Spec.ctrBlock N (k + i)) := by
  intro n
  induction n with
  | zero => intro k _; simp [Modes.Spec.ctrStream]
  | succ n ih =>
    intro k hk
    rw [Modes.Spec.ctrStream]
    cases n with
    | zero => simp [Modes.Spec.ctrStream]
    | succ j =>
      rw [incM_ctrBlock N k hn (by omega), ih (k+1) (by omega), List.range_succ_eq_map (n := j + 1),
        List.flatMap_cons, List.flatMap_map, Nat.add_zero]
      congr 2
      funext i
      congr 2; omega

theorem s0_spec (N : Bytes) (hn : N.length = 12) : Model.s0 N = .ok (Spec.ctrBlock N 0) := by
  simp [Model.s0, Model.oneByte, hn, Spec.ctrBlock, bind, Except.bind, pure, Except.pure]

theorem cbcMac_length (E : Bytes → Bytes) (hE : ∀ b, (E b).length = 16) (bl : List Bytes) (hne : bl ≠ []) :
    (Spec.cbcMac E bl).length = 16 := by
  unfold Spec.cbcMac
  rw [← List.dropLast_concat_getLast hne, List.foldl_append]
  simp [hE]

theorem authBlocks_ne (M : Nat) (N a m : Bytes) (hn : N.length = 12) : Spec.authBlocks M N a m ≠ [] := by
  intro e
  have := flatten_chunks 16 (by decide) (Spec.b0 M N a m ++ Spec.pad16 (Spec.encodeAadLen a.length ++ a) ++ Spec.pad16 m)
  unfold Spec.authBlocks at e
  rw [e] at this
  have := congrArg List.length this
  simp only [List.flatten_nil, List.length_nil, List.length_append, b0_length M N a m hn] at this
  omega

theorem tagT_length (E : Bytes → Bytes) (hE : ∀ b, (E b).length = 16) (M : Nat) (hM : M ≤ 16) (N a m : Bytes)
    (hn : N.length = 12) : (Spec.tagT E M N a m).length = M := by
  rw [Spec.tagT, List.length_take, cbcMac_length E hE _ (authBlocks_ne M N a m hn)]; omega

theorem xorBytes_take (a s : Bytes) (n : Nat) : (xorBytes a s).take n = xorBytes (a.take n) s := by
  induction a generalizing s n with
  | nil => simp [xorBytes]
  | cons x xs ih =>
    cases s with
    | nil => simp [xorBytes]
    | cons y ys =>
      cases n with
      | zero => simp [xorBytes]
      | succ k =>
        simp only [xorBytes] at ih
        simp [xorBytes, ih]

theorem xorBytes_take_right (a s : Bytes) (k : Nat) (h : a.length ≤ k) : xorBytes a (s.take k) = xorBytes a s := by
  induction a generalizing s k with
  | nil => simp [xorBytes]
  | cons x xs ih =>
    cases s with
    | nil => simp [xorBytes]
    | cons y ys =>
      cases k with
      | zero => simp at h
      | succ j =>
        simp only [xorBytes] at ih
        simp only [List.length_cons] at h
        simp [xorBytes, ih ys j (by omega)]

theorem xorBytes_pad (a s : Bytes) (n : Nat) : (xorBytes (a ++ zeros n) s).take a.length = xorBytes a (s.take a.length) := by
  rw [xorBytes_take, List.take_left' rfl, xorBytes_take_right _ _ _ (Nat.le_refl _)]

/-- the key stream used for the message, as a prefix-closed family -/
theorem keyStream_prefix (E : Bytes → Bytes) (hE : ∀ b, (E b).length = 16) (N : Bytes) (n j : Nat) :
    (Spec.keyStream E N (n + j)).take (16 * n) = Spec.keyStream E N n := by
  unfold Spec.keyStream
  have hl : ∀ k, ((List.range k).flatMap fun i => E (Spec.ctrBlock N (i + 1))).length = 16 * k := by
    intro k; induction k with
    | zero => simp
    | succ k ih => rw [List.range_succ, List.flatMap_append, List.length_append, ih]; simp [hE]; omega
  induction j with
  | zero => rw [Nat.add_zero, List.take_of_length_le (Nat.le_of_eq (hl n))]
  | succ j ih =>
    rw [← Nat.add_assoc, List.range_succ, List.flatMap_append, List.take_append_of_le_length (by rw [hl]; omega), ih]

theorem keyStream_length (E : Bytes → Bytes) (hE : ∀ b, (E b).length = 16) (N : Bytes) (k : Nat) :
    (Spec.keyStream E N k).length = 16 * k := by
  unfold Spec.keyStream
  induction k with
  | zero => simp
  | succ k ih => rw [List.range_succ, List.flatMap_append, List.length_append, ih]; simp [hE]; omega

/-- the message part: the CTR object started at A_1 -/
theorem ccm_ctr_msg (E : Bytes → Bytes) (hE : ∀ b, (E b).length = 16) (N x : Bytes) (hn : N.length = 12)
    (hx : 1 + divceil x.length 16 ≤ 2 ^ 24) :
    ∃ c', Modes.Model.ctrEncrypt E { counter := Spec.ctrBlock N 1, counterBytes := 0 } x =
      .ok (c', xorBytes x (Spec.keyStream E N (divceil x.length 16))) := by
  have hspec := ctrEncrypt_spec E hE { counter := Spec.ctrBlock N 1, counterBytes := 0 } x
    (ctrBlock_length N 1 hn) (Nat.zero_le _) (Or.inl rfl)
  simp only [widthOf, if_true] at hspec
  rw [hspec]
  refine ⟨{ counter := Modes.Spec.iterate (Modes.Spec.incM 128) (divceil x.length 16) (Spec.ctrBlock N 1),
            counterBytes := 0 }, ?_⟩
  have e : Modes.Spec.ctrEncrypt E (Modes.Spec.incM 128) (Spec.ctrBlock N 1) x =
      xorBytes x (Spec.keyStream E N (divceil x.length 16)) := by
    rw [Modes.Spec.ctrEncrypt, ctrStream_ctrBlock E N hn _ 1 hx, Spec.keyStream]
    congr 2
    funext i
    congr 2; omega
  rw [e]

/-- the tag part: one call on the object set to A_0; the counter moves to A_1 -/
theorem ccm_ctr_tag (E : Bytes → Bytes) (hE : ∀ b, (E b).length = 16) (N t : Bytes) (hn : N.length = 12)
    (ht : t.length = 16) :
    Modes.Model.ctrEncrypt E { counter := Spec.ctrBlock N 0, counterBytes := 0 } t =
      .ok ({ counter := Spec.ctrBlock N 1, counterBytes := 0 }, xorBytes t (E (Spec.ctrBlock N 0))) := by
  have hspec := ctrEncrypt_spec E hE { counter := Spec.ctrBlock N 0, counterBytes := 0 } t
    (ctrBlock_length N 0 hn) (Nat.zero_le _) (Or.inl rfl)
  have hd : divceil t.length 16 = 1 := by rw [ht]; decide
  simp only [widthOf, if_true, hd] at hspec
  rw [hspec]
  simp only [Modes.Spec.iterate, Modes.Spec.ctrEncrypt, hd, Modes.Spec.ctrStream, List.append_nil,
    incM_ctrBlock N 0 hn (by decide)]


theorem pad8 (t : Bytes) (ht : t.length = 8) : Model.padWithZeroes t 16 = t ++ zeros 8 := by
  simp [Model.padWithZeroes, ht]

theorem aseal_spec (E : Bytes → Bytes) (hE : ∀ b, (E b).length = 16) (tl : Nat) (htl : tl = 8 ∨ tl = 16)
    (N m a : Bytes) (hn : N.length = 12) (hm : 1 + divceil m.length 16 ≤ 2 ^ 24) :
    Model.aseal E tl N m a = .ok (Spec.aseal E tl N m a) := by
  have hM : tl ≤ 16 := by rcases htl with rfl | rfl <;> decide
  have htag := tagT_length E hE tl hM N a m hn
  obtain ⟨c', hc⟩ := ccm_ctr_msg E hE N m hn hm
  have hmac := cbcmacCalc_spec E hE tl htl N a m hn
  rw [Model.aseal, if_neg (by simp [hn])]
  rcases htl with rfl | rfl
  · have hpl : (Spec.tagT E 8 N a m ++ zeros 8).length = 16 := by simp [htag, zeros]
    have hx := xorBytes_pad (Spec.tagT E 8 N a m) (E (Spec.ctrBlock N 0)) 8
    rw [htag] at hx
    simp only [s0_spec N hn, hmac, bind, Except.bind, show ¬ (8 = 16) from by decide, if_false, ne_eq,
      not_true_eq_false, pad8 _ htag, ccm_ctr_tag E hE N _ hn hpl, pure, Except.pure, hc, hx,
      Spec.aseal, Spec.encryptMsg]
  · simp only [s0_spec N hn, hmac, bind, Except.bind, if_true, ccm_ctr_tag E hE N _ hn htag, pure, Except.pure, hc,
      Spec.aseal, Spec.encryptMsg]
    rw [List.take_of_length_le (Nat.le_of_eq (hE _))]

theorem encryptMsg_length (E : Bytes → Bytes) (hE : ∀ b, (E b).length = 16) (N x : Bytes) :
    (Spec.encryptMsg E N x).length = x.length := by
  rw [Spec.encryptMsg, xorBytes_length, keyStream_length E hE]
  have : x.length ≤ 16 * divceil x.length 16 := by unfold divceil; split <;> omega
  omega

theorem encryptMsg_involution (E : Bytes → Bytes) (hE : ∀ b, (E b).length = 16) (N x : Bytes) :
    Spec.encryptMsg E N (Spec.encryptMsg E N x) = x := by
  have hl := encryptMsg_length E hE N x
  rw [Spec.encryptMsg, hl]
  rw [Spec.encryptMsg, xorBytes_cancel]
  rw [keyStream_length E hE]
  unfold divceil; split <;> omega

theorem divceil_mono (a b : Nat) (h : a ≤ b) : divceil a 16 ≤ divceil b 16 := by
  unfold divceil; split <;> split <;> omega

theorem aopen_spec (E : Bytes → Bytes) (hE : ∀ b, (E b).length = 16) (tl : Nat) (htl : tl = 8 ∨ tl = 16)
    (N c a : Bytes) (hn : N.length = 12) (hc : 1 + divceil c.length 16 ≤ 2 ^ 24) :
    Model.aopen E tl N c a = .ok (Spec.aopen E tl N c a) := by
  have hM : tl ≤ 16 := by rcases htl with rfl | rfl <;> decide
  rw [Model.aopen, if_neg (by simp [hn]), Spec.aopen]
  by_cases hs : c.length < tl
  · rcases htl with rfl | rfl <;> simp [hs]
  · have hs1 : ¬ (tl = 16 ∧ c.length < 16) := by rintro ⟨rfl, h⟩; exact hs h
    have hs2 : ¬ (tl = 8 ∧ c.length < 8) := by rintro ⟨rfl, h⟩; exact hs h
    rw [if_neg hs1, if_neg hs2, if_neg hs]
    have hal : (c.drop (c.length - tl)).length = tl := by rw [List.length_drop]; omega
    obtain ⟨c', hcm⟩ := ccm_ctr_msg E hE N c hn hc
    -- the recovered message
    have hxl : (xorBytes c (Spec.keyStream E N (divceil c.length 16))).length = c.length := by
      rw [xorBytes_length, keyStream_length E hE]
      have : c.length ≤ 16 * divceil c.length 16 := by unfold divceil; split <;> omega
      omega
    have hmsg : (xorBytes c (Spec.keyStream E N (divceil c.length 16))).take
        ((xorBytes c (Spec.keyStream E N (divceil c.length 16))).length - tl) =
        Spec.encryptMsg E N (c.take (c.length - tl)) := by
      rw [hxl, xorBytes_take, Spec.encryptMsg]
      have hl : (c.take (c.length - tl)).length = c.length - tl := by rw [List.length_take]; omega
      have hle := divceil_mono (c.length - tl) c.length (by omega)
      obtain ⟨j, hj⟩ : ∃ j, divceil c.length 16 = divceil (c.length - tl) 16 + j := ⟨_, (Nat.add_sub_cancel' hle).symm⟩
      rw [hl, hj, ← keyStream_prefix E hE N (divceil (c.length - tl) 16) j,
        xorBytes_take_right _ _ _ (by rw [hl]; unfold divceil; split <;> omega)]
    have hmac := cbcmacCalc_spec E hE tl htl N a (Spec.encryptMsg E N (c.take (c.length - tl))) hn
    rcases htl with rfl | rfl
    · have hpl : (c.drop (c.length - 8) ++ zeros 8).length = 16 := by simp [hal, zeros]
      have hx := xorBytes_pad (c.drop (c.length - 8)) (E (Spec.ctrBlock N 0)) 8
      rw [hal] at hx
      simp only [s0_spec N hn, bind, Except.bind, show ¬ (8 = 16) from by decide, if_false, ne_eq,
        not_true_eq_false, pad8 _ hal, ccm_ctr_tag E hE N _ hn hpl, pure, Except.pure, hcm, hx, hmsg, hmac]
      by_cases ht : xorBytes (c.drop (c.length - 8)) ((E (Spec.ctrBlock N 0)).take 8) =
          Spec.tagT E 8 N a (Spec.encryptMsg E N (c.take (c.length - 8)))
      · simp [ht]
      · simp [ht]
    · simp only [s0_spec N hn, bind, Except.bind, if_true, ccm_ctr_tag E hE N _ hn hal, pure, Except.pure, hcm,
        hmsg, hmac]
      rw [List.take_of_length_le (Nat.le_of_eq (hE _))]
      by_cases ht : xorBytes (c.drop (c.length - 16)) (E (Spec.ctrBlock N 0)) =
          Spec.tagT E 16 N a (Spec.encryptMsg E N (c.take (c.length - 16)))
      · simp [ht]
      · simp [ht]

theorem spec_aopen_aseal (E : Bytes → Bytes) (hE : ∀ b, (E b).length = 16) (tl : Nat) (hM : tl ≤ 16)
    (N m a : Bytes) (hn : N.length = 12) :
    Spec.aopen E tl N (Spec.aseal E tl N m a) a = some m := by
  have htag := tagT_length E hE tl hM N a m hn
  have hul : (xorBytes (Spec.tagT E tl N a m) ((E (Spec.ctrBlock N 0)).take tl)).length = tl := by
    rw [xorBytes_length, htag, List.length_take, hE]; omega
  have hcl := encryptMsg_length E hE N m
  simp only [Spec.aopen, Spec.aseal, List.length_append, hul]
  rw [if_neg (by omega), Nat.add_sub_cancel, List.take_left' rfl, List.drop_left' rfl,
    encryptMsg_involution E hE, xorBytes_cancel _ _ (by rw [htag, List.length_take, hE]; omega)]
  simp

end Tls.Crypto.Ccm
