import TlsProofs.Crypto.AesInit
/-
  C09 (growth) — `Rijndael(key).encrypt(block)` = FIPS-197 Cipher(KeyExpansion(key), block).
-/
set_option linter.unusedSimpArgs false
namespace Tls.Crypto.Aes
open Tls Tls.Crypto

attribute [local irreducible] Spec.sboxN Spec.gmulN Spec.ginvN

theorem uTab_lookup (x : Nat) (hx : x < 256) :
    aidx Gen.U1 x = .ok (word (Spec.gmulN 14 x) (Spec.gmulN 9 x) (Spec.gmulN 13 x) (Spec.gmulN 11 x)) ∧
    aidx Gen.U2 x = .ok (word (Spec.gmulN 11 x) (Spec.gmulN 14 x) (Spec.gmulN 9 x) (Spec.gmulN 13 x)) ∧
    aidx Gen.U3 x = .ok (word (Spec.gmulN 13 x) (Spec.gmulN 11 x) (Spec.gmulN 14 x) (Spec.gmulN 9 x)) ∧
    aidx Gen.U4 x = .ok (word (Spec.gmulN 9 x) (Spec.gmulN 13 x) (Spec.gmulN 11 x) (Spec.gmulN 14 x)) := by
  obtain ⟨h1, h2, h3, h4⟩ := U_tables
  refine ⟨?_, ?_, ?_, ?_⟩ <;> apply aidx_of_toList
  · rw [h1, List.getElem?_map, List.getElem?_range hx]; rfl
  · rw [h2, List.getElem?_map, List.getElem?_range hx]; rfl
  · rw [h3, List.getElem?_map, List.getElem?_range hx]; rfl
  · rw [h4, List.getElem?_map, List.getElem?_range hx]; rfl

theorem byteOf_lt (w sh : Nat) : Model.byteOf w sh < 256 := by
  rw [byteOf_eq]; exact Nat.mod_lt _ (by decide)

theorem uWord_ok (tt : Nat) : ∃ v, Model.uWord tt = .ok v := by
  simp only [Model.uWord, (uTab_lookup _ (byteOf_lt tt 24)).1, (uTab_lookup _ (byteOf_lt tt 16)).2.1,
    (uTab_lookup _ (byteOf_lt tt 8)).2.2.1, (uTab_lookup _ (byteOf_lt tt 0)).2.2.2, bind, Except.bind, pure, Except.pure]
  exact ⟨_, rfl⟩

theorem mapM_exists {α β : Type} (f : α → Except Err β) (h : ∀ x, ∃ y, f x = .ok y) : ∀ (l : List α),
    ∃ ys, l.mapM f = .ok ys := by
  intro l
  induction l with
  | nil => exact ⟨[], rfl⟩
  | cons x xs ih =>
    obtain ⟨y, hy⟩ := h x
    obtain ⟨ys, hys⟩ := ih
    exact ⟨y :: ys, by rw [List.mapM_cons, hy, hys]; rfl⟩

theorem mkKd_ok (W : List Nat) (R : Nat) : ∃ Kd, Model.mkKd W R = .ok Kd := by
  unfold Model.mkKd
  have : ∀ r : Nat, ∃ y, (if 1 ≤ r ∧ r < R then ((W.drop (4 * (R - r))).take 4).mapM Model.uWord
      else pure ((W.drop (4 * (R - r))).take 4) : Except Err (List Nat)) = .ok y := by
    intro r
    by_cases h : 1 ≤ r ∧ r < R
    · rw [if_pos h]; exact mapM_exists _ uWord_ok _
    · rw [if_neg h]; exact ⟨_, rfl⟩
  obtain ⟨ys, hys⟩ := mapM_exists _ this (List.range (R + 1))
  refine ⟨ys.flatten, ?_⟩
  simp only [bind, Except.bind, pure, Except.pure] at hys ⊢
  rw [hys]

theorem numRounds_lookup (n : Nat) (h : n = 16 ∨ n = 24 ∨ n = 32) : Gen.numRounds.lookup n = some (n / 4 + 6) := by
  rw [shifts_and_rounds.2.2]
  rcases h with rfl | rfl | rfl <;> rfl

/-- `Rijndael.__init__`: the encryption schedule `Ke` is KeyExpansion(key) -/
theorem init_spec (key : Bytes) (hk : key.length = 16 ∨ key.length = 24 ∨ key.length = 32) :
    ∃ Kd, Model.init key = .ok { Ke := (Spec.keyExpansion key).map wd, Kd := Kd, rounds := key.length / 4 + 6 } ∧
      Model.mkKd ((Spec.keyExpansion key).map wd) (key.length / 4 + 6) = .ok Kd := by
  have h4 : key.length % 4 = 0 := by rcases hk with h | h | h <;> rw [h]
  obtain ⟨hloop, _, _⟩ := expandLoop_spec key hk
  obtain ⟨Kd, hKd⟩ := mkKd_ok ((Spec.keyExpansion key).map wd) (key.length / 4 + 6)
  refine ⟨Kd, ?_, hKd⟩
  have hne : ¬ (key.length ≠ 16 ∧ key.length ≠ 24 ∧ key.length ≠ 32) := by
    rcases hk with h | h | h <;> simp [h]
  rw [Model.init, if_neg hne, numRounds_lookup _ hk]
  simp only [bind, Except.bind, pure, Except.pure, tk_spec key h4, hloop, hKd]

theorem wd_lt (x : List UInt8) : wd x < 2 ^ 32 := by
  unfold wd
  split
  · rename_i a b c d
    rw [wordB, word_arith _ _ _ _ b.toNat_lt c.toNat_lt d.toNat_lt]
    have := a.toNat_lt; have := b.toNat_lt; have := c.toNat_lt; have := d.toNat_lt
    omega
  · decide

theorem be4_wd (x : List UInt8) (h : x.length = 4) : be4 (wd x) = x := by
  obtain ⟨a, b, c, d, rfl⟩ := exists4 x h
  obtain ⟨h1, h2, h3, h4⟩ := byteOf_wordB a b c d
  simp only [byteOf_eq, Nat.pow_zero, Nat.div_one] at h1 h2 h3 h4
  have h1' : wordB a b c d / 2 ^ 24 = a.toNat := by
    have : wordB a b c d / 2 ^ 24 < 256 := by
      have := wd_lt [a, b, c, d]; simp only [wd] at this; omega
    rw [← h1, Nat.mod_eq_of_lt this]
  simp only [be4, wd, h1', h2, h3, h4, UInt8.ofNat_toNat]

/-- the bytes of round key `r` of the model's schedule are the specification's round key -/
theorem rkBytes_spec (w : List (List UInt8)) (hw : ∀ x ∈ w, x.length = 4) (r : Nat) (hr : 4 * r + 4 ≤ w.length) :
    rkBytes (w.map wd) r = Spec.roundKey w r := by
  have hd := drop4 w (4 * r) [] hr
  have hg : ∀ k, k < 4 → (w.map wd).getD (4 * r + k) 0 = wd (w.getD (4 * r + k) []) := by
    intro k hk
    have hlt : 4 * r + k < w.length := by omega
    simp [List.getD_eq_getElem?_getD, List.getElem?_eq_getElem hlt]
  have hm : ∀ k, k < 4 → (w.getD (4 * r + k) []).length = 4 := by
    intro k hk
    have hlt : 4 * r + k < w.length := by omega
    apply hw
    rw [List.getD_eq_getElem?_getD, List.getElem?_eq_getElem hlt]
    exact List.getElem_mem hlt
  have h0 := hg 0 (by decide); have m0 := hm 0 (by decide)
  rw [Nat.add_zero] at h0 m0
  rw [rkBytes, h0, hg 1 (by decide), hg 2 (by decide), hg 3 (by decide), be4_wd _ m0, be4_wd _ (hm 1 (by decide)),
    be4_wd _ (hm 2 (by decide)), be4_wd _ (hm 3 (by decide)), Spec.roundKey, hd]
  simp

theorem cipherRK_congr (rk1 rk2 : Nat → Spec.State) (nr : Nat) (inp : Bytes) (h : ∀ r, r ≤ nr → rk1 r = rk2 r) :
    Spec.cipherRK rk1 nr inp = Spec.cipherRK rk2 nr inp := by
  unfold Spec.cipherRK
  rw [h 0 (by omega), h nr (Nat.le_refl _)]
  have key : ∀ (l : List Nat) (s : Spec.State), (∀ r ∈ l, r ≤ nr) →
      l.foldl (fun s r => Spec.addRoundKey (Spec.mixColumns (Spec.shiftRows (Spec.subBytes s))) (rk1 r)) s =
      l.foldl (fun s r => Spec.addRoundKey (Spec.mixColumns (Spec.shiftRows (Spec.subBytes s))) (rk2 r)) s := by
    intro l
    induction l with
    | nil => intro _ _; rfl
    | cons r rs ih =>
      intro s hl
      rw [List.foldl_cons, List.foldl_cons, h r (hl r List.mem_cons_self),
        ih _ (fun x hx => hl x (List.mem_cons_of_mem _ hx))]
  simp only
  rw [key (List.range' 1 (nr - 1)) _ (by intro r hr; have := List.mem_range'_1.mp hr; omega)]

/-- FULL: block encryption of `rijndael.py` is the FIPS-197 Cipher under the FIPS-197 KeyExpansion,
    for every key of 16, 24 or 32 bytes and every 16-byte block -/
theorem encrypt_spec (key block : Bytes) (hk : key.length = 16 ∨ key.length = 24 ∨ key.length = 32)
    (hb : block.length = 16) :
    (Model.init key >>= fun k => Model.encrypt k block) = .ok (Spec.cipher key block) := by
  obtain ⟨Kd, hinit, _⟩ := init_spec key hk
  obtain ⟨_, hlen, hw⟩ := expandLoop_spec key hk
  rw [hinit]
  simp only [bind, Except.bind, Model.encrypt]
  have hK : ∀ w ∈ (Spec.keyExpansion key).map wd, w < 2 ^ 32 := by
    intro w hw'
    obtain ⟨x, _, rfl⟩ := List.mem_map.mp hw'
    exact wd_lt x
  rw [crypt_enc_spec _ hK (key.length / 4 + 6) (by omega) (by rw [List.length_map, hlen, Nat.mul_comm]) block hb, Spec.cipher]
  congr 1
  apply cipherRK_congr
  intro r hr
  exact rkBytes_spec _ hw r (by rw [hlen]; omega)

end Tls.Crypto.Aes
