import TlsProofs.Crypto.AesDecFull
import TlsProofs.Crypto.Chunks
/-
  C09 (growth) — InvCipher inverts Cipher (FIPS-197): every layer is inverted by its counterpart.
-/
set_option linter.unusedSimpArgs false
namespace Tls.Crypto.Aes
open Tls Tls.Crypto

/-- InvMixColumns ∘ MixColumns on one byte position: the products of the two coefficient matrices
    (checked for every byte value) -/
theorem mix_identities : ∀ n, n < 256 →
    (let x := UInt8.ofNat n
     (Spec.gmul 14 (Spec.gmul 2 x) ^^^ Spec.gmul 11 x ^^^ Spec.gmul 13 x ^^^ Spec.gmul 9 (Spec.gmul 3 x) = x) ∧
     (Spec.gmul 14 (Spec.gmul 3 x) ^^^ Spec.gmul 11 (Spec.gmul 2 x) ^^^ Spec.gmul 13 x ^^^ Spec.gmul 9 x = 0) ∧
     (Spec.gmul 14 x ^^^ Spec.gmul 11 (Spec.gmul 3 x) ^^^ Spec.gmul 13 (Spec.gmul 2 x) ^^^ Spec.gmul 9 x = 0) ∧
     (Spec.gmul 14 x ^^^ Spec.gmul 11 x ^^^ Spec.gmul 13 (Spec.gmul 3 x) ^^^ Spec.gmul 9 (Spec.gmul 2 x) = 0) ∧
     (Spec.gmul 9 (Spec.gmul 2 x) ^^^ Spec.gmul 14 x ^^^ Spec.gmul 11 x ^^^ Spec.gmul 13 (Spec.gmul 3 x) = 0) ∧
     (Spec.gmul 9 (Spec.gmul 3 x) ^^^ Spec.gmul 14 (Spec.gmul 2 x) ^^^ Spec.gmul 11 x ^^^ Spec.gmul 13 x = x) ∧
     (Spec.gmul 9 x ^^^ Spec.gmul 14 (Spec.gmul 3 x) ^^^ Spec.gmul 11 (Spec.gmul 2 x) ^^^ Spec.gmul 13 x = 0) ∧
     (Spec.gmul 9 x ^^^ Spec.gmul 14 x ^^^ Spec.gmul 11 (Spec.gmul 3 x) ^^^ Spec.gmul 13 (Spec.gmul 2 x) = 0) ∧
     (Spec.gmul 13 (Spec.gmul 2 x) ^^^ Spec.gmul 9 x ^^^ Spec.gmul 14 x ^^^ Spec.gmul 11 (Spec.gmul 3 x) = 0) ∧
     (Spec.gmul 13 (Spec.gmul 3 x) ^^^ Spec.gmul 9 (Spec.gmul 2 x) ^^^ Spec.gmul 14 x ^^^ Spec.gmul 11 x = 0) ∧
     (Spec.gmul 13 x ^^^ Spec.gmul 9 (Spec.gmul 3 x) ^^^ Spec.gmul 14 (Spec.gmul 2 x) ^^^ Spec.gmul 11 x = x) ∧
     (Spec.gmul 13 x ^^^ Spec.gmul 9 x ^^^ Spec.gmul 14 (Spec.gmul 3 x) ^^^ Spec.gmul 11 (Spec.gmul 2 x) = 0) ∧
     (Spec.gmul 11 (Spec.gmul 2 x) ^^^ Spec.gmul 13 x ^^^ Spec.gmul 9 x ^^^ Spec.gmul 14 (Spec.gmul 3 x) = 0) ∧
     (Spec.gmul 11 (Spec.gmul 3 x) ^^^ Spec.gmul 13 (Spec.gmul 2 x) ^^^ Spec.gmul 9 x ^^^ Spec.gmul 14 x = 0) ∧
     (Spec.gmul 11 x ^^^ Spec.gmul 13 (Spec.gmul 3 x) ^^^ Spec.gmul 9 (Spec.gmul 2 x) ^^^ Spec.gmul 14 x = 0) ∧
     (Spec.gmul 11 x ^^^ Spec.gmul 13 x ^^^ Spec.gmul 9 (Spec.gmul 3 x) ^^^ Spec.gmul 14 (Spec.gmul 2 x) = x)) := by
  decide +kernel

theorem xor16 (p1 p2 p3 p4 p5 p6 p7 p8 p9 p10 p11 p12 p13 p14 p15 p16 : UInt8) :
    (p1 ^^^ p2 ^^^ p3 ^^^ p4) ^^^ (p5 ^^^ p6 ^^^ p7 ^^^ p8) ^^^ (p9 ^^^ p10 ^^^ p11 ^^^ p12) ^^^ (p13 ^^^ p14 ^^^ p15 ^^^ p16) =
    (p1 ^^^ p5 ^^^ p9 ^^^ p13) ^^^ (p2 ^^^ p6 ^^^ p10 ^^^ p14) ^^^ (p3 ^^^ p7 ^^^ p11 ^^^ p15) ^^^ (p4 ^^^ p8 ^^^ p12 ^^^ p16) := by
  ac_rfl

/-- MixColumns on one column -/
def mixCol : List UInt8 → List UInt8
  | [a, b, c, d] =>
    [Spec.gmul 2 a ^^^ Spec.gmul 3 b ^^^ c ^^^ d, a ^^^ Spec.gmul 2 b ^^^ Spec.gmul 3 c ^^^ d,
     a ^^^ b ^^^ Spec.gmul 2 c ^^^ Spec.gmul 3 d, Spec.gmul 3 a ^^^ b ^^^ c ^^^ Spec.gmul 2 d]
  | x => x

theorem invCol_mixCol (a b c d : UInt8) : invCol (mixCol [a, b, c, d]) = [a, b, c, d] := by
  have ha := mix_identities a.toNat a.toNat_lt
  have hb := mix_identities b.toNat b.toNat_lt
  have hc := mix_identities c.toNat c.toNat_lt
  have hd := mix_identities d.toNat d.toNat_lt
  simp only [UInt8.ofNat_toNat] at ha hb hc hd
  obtain ⟨a1, a2, a3, a4, a5, a6, a7, a8, a9, a10, a11, a12, a13, a14, a15, a16⟩ := ha
  obtain ⟨b1, b2, b3, b4, b5, b6, b7, b8, b9, b10, b11, b12, b13, b14, b15, b16⟩ := hb
  obtain ⟨c1, c2, c3, c4, c5, c6, c7, c8, c9, c10, c11, c12, c13, c14, c15, c16⟩ := hc
  obtain ⟨d1, d2, d3, d4, d5, d6, d7, d8, d9, d10, d11, d12, d13, d14, d15, d16⟩ := hd
  simp only [mixCol, invCol, gmul_xor]
  rw [xor16 (Spec.gmul 14 (Spec.gmul 2 a)), xor16 (Spec.gmul 9 (Spec.gmul 2 a)), xor16 (Spec.gmul 13 (Spec.gmul 2 a)),
    xor16 (Spec.gmul 11 (Spec.gmul 2 a))]
  rw [a1, b2, c3, d4, a5, b6, c7, d8, a9, b10, c11, d12, a13, b14, c15, d16]
  simp

/-! ### the layers are inverted by their counterparts (16-byte states) -/

theorem mixColumns_cols (s0 s1 s2 s3 s4 s5 s6 s7 s8 s9 s10 s11 s12 s13 s14 s15 : UInt8) :
    Spec.mixColumns [s0, s1, s2, s3, s4, s5, s6, s7, s8, s9, s10, s11, s12, s13, s14, s15] =
      mixCol [s0, s1, s2, s3] ++ mixCol [s4, s5, s6, s7] ++ mixCol [s8, s9, s10, s11] ++ mixCol [s12, s13, s14, s15] := by
  simp [Spec.mixColumns, Spec.at_, mixCol, List.range_succ]

theorem invMix_mix (s : Spec.State) (hs : s.length = 16) : Spec.invMixColumns (Spec.mixColumns s) = s := by
  obtain ⟨s0, s1, s2, s3, s4, s5, s6, s7, s8, s9, s10, s11, s12, s13, s14, s15, rfl⟩ := exists16 s hs
  rw [mixColumns_cols]
  have hl : ∀ a b c d : UInt8, (mixCol [a, b, c, d]).length = 4 := fun _ _ _ _ => rfl
  have := invCol_flatten (mixCol [s0, s1, s2, s3]) (mixCol [s4, s5, s6, s7]) (mixCol [s8, s9, s10, s11])
    (mixCol [s12, s13, s14, s15]) (hl _ _ _ _) (hl _ _ _ _) (hl _ _ _ _) (hl _ _ _ _)
  simp only [List.flatten_cons, List.flatten_nil, List.append_nil, List.map_cons, List.map_nil, invCol_mixCol,
    List.append_assoc] at this
  simp only [List.append_assoc]
  rw [← this]
  rfl

theorem invShift_shift (s : Spec.State) (hs : s.length = 16) : Spec.invShiftRows (Spec.shiftRows s) = s := by
  obtain ⟨s0, s1, s2, s3, s4, s5, s6, s7, s8, s9, s10, s11, s12, s13, s14, s15, rfl⟩ := exists16 s hs
  simp [Spec.invShiftRows, Spec.shiftRows, Spec.at_, List.range_succ]

theorem invSbox_sbox (x : UInt8) : Spec.invSbox (Spec.sbox x) = x := by
  have hx := x.toNat_lt
  have hs := sboxN_lt x.toNat hx
  have h1 := Si_table.1
  have e1 : (Gen.S.toList.map (fun s => Gen.Si.toList.getD s 256))[x.toNat]? = some x.toNat := by
    rw [h1, List.getElem?_range hx]
  rw [List.getElem?_map, S_table, List.getElem?_map, List.getElem?_range hx] at e1
  simp only [Option.map_some, Option.some.injEq] at e1
  have e2 : Gen.Si.toList.getD (Spec.sboxN x.toNat) 256 = Spec.invSboxN (Spec.sboxN x.toNat) := by
    rw [Si_spec_table, List.getD_eq_getElem?_getD, List.getElem?_map, List.getElem?_range hs]; rfl
  rw [e2] at e1
  apply UInt8.toNat_inj.mp
  rw [invSbox_toNat, sbox_toNat, e1]

theorem invSub_sub (s : Spec.State) : Spec.invSubBytes (Spec.subBytes s) = s := by
  simp only [Spec.invSubBytes, Spec.subBytes, List.map_map]
  have : (Spec.invSbox ∘ Spec.sbox) = id := by funext x; exact invSbox_sbox x
  rw [this, List.map_id]

theorem sub_length (s : Spec.State) : (Spec.subBytes s).length = s.length := by simp [Spec.subBytes]
theorem shift_length (s : Spec.State) : (Spec.shiftRows s).length = 16 := by simp [Spec.shiftRows]
theorem mix_length (s : Spec.State) : (Spec.mixColumns s).length = 16 := by simp [Spec.mixColumns, List.range_succ]

theorem addRK_cancel (s k : Spec.State) (hs : s.length = 16) (hk : k.length = 16) :
    Spec.addRoundKey (Spec.addRoundKey s k) k = s := by
  simp only [Spec.addRoundKey]; exact xorBytes_cancel s k (by omega)

/-! ### InvCipher ∘ Cipher = id -/

def fwd (ks : List Spec.State) (s : Spec.State) : Spec.State :=
  ks.foldl (fun s k => Spec.addRoundKey (Spec.mixColumns (Spec.shiftRows (Spec.subBytes s))) k) s

def bwd (ks : List Spec.State) (t : Spec.State) : Spec.State :=
  ks.foldl (fun t k => Spec.invMixColumns (Spec.addRoundKey (Spec.invSubBytes (Spec.invShiftRows t)) k)) t

theorem fwd_length (ks : List Spec.State) (hk : ∀ k ∈ ks, k.length = 16) (s : Spec.State) (hs : s.length = 16) :
    (fwd ks s).length = 16 := by
  induction ks generalizing s with
  | nil => exact hs
  | cons k ks ih =>
    rw [fwd, List.foldl_cons]
    exact ih (fun x hx => hk x (List.mem_cons_of_mem _ hx)) _
      (addRK_length _ _ (mix_length _) (hk k List.mem_cons_self))

theorem bwd_fwd : ∀ (rs : List Spec.State) (s : Spec.State), s.length = 16 → (∀ k ∈ rs, k.length = 16) →
    bwd rs (Spec.shiftRows (Spec.subBytes (fwd rs.reverse s))) = Spec.shiftRows (Spec.subBytes s) := by
  intro rs
  induction rs with
  | nil => intro s _ _; rfl
  | cons k rs ih =>
    intro s hs hk
    have hk16 := hk k List.mem_cons_self
    have hrs : ∀ x ∈ rs, x.length = 16 := fun x hx => hk x (List.mem_cons_of_mem _ hx)
    have hf : (fwd rs.reverse s).length = 16 := fwd_length _ (fun x hx => hrs x (List.mem_reverse.mp hx)) s hs
    rw [List.reverse_cons, fwd, List.foldl_append, List.foldl_cons, List.foldl_nil, bwd, List.foldl_cons]
    rw [show List.foldl (fun s k => Spec.addRoundKey (Spec.mixColumns (Spec.shiftRows (Spec.subBytes s))) k) s rs.reverse =
      fwd rs.reverse s from rfl]
    rw [invShift_shift _ (by rw [sub_length]; exact addRK_length _ _ (mix_length _) hk16), invSub_sub,
      addRK_cancel _ _ (mix_length _) hk16, invMix_mix _ (shift_length _)]
    exact ih s hs hrs

theorem range'_reverse (m : Nat) : (List.range' 1 m).reverse = (List.range' 1 m).map (fun k => m + 1 - k) := by
  apply List.ext_getElem
  · simp
  · intro i h1 h2
    simp only [List.length_reverse, List.length_range'] at h1
    simp only [List.getElem_reverse, List.getElem_map, List.getElem_range', List.length_range']
    omega

/-- InvCipher inverts Cipher for any round keys of 16 bytes -/
theorem invCipherRK_cipherRK (rk : Nat → Spec.State) (nr : Nat) (hnr : 1 ≤ nr) (hrk : ∀ r, r ≤ nr → (rk r).length = 16)
    (inp : Bytes) (hi : inp.length = 16) :
    Spec.invCipherRK rk nr (Spec.cipherRK rk nr inp) = inp := by
  obtain ⟨m, rfl⟩ : ∃ m, nr = m + 1 := ⟨nr - 1, by omega⟩
  have hks : ∀ k ∈ (List.range' 1 m).map rk, k.length = 16 := by
    intro k hk
    obtain ⟨r, hr, rfl⟩ := List.mem_map.mp hk
    have := List.mem_range'_1.mp hr
    exact hrk r (by omega)
  have hs0 : (Spec.addRoundKey inp (rk 0)).length = 16 := addRK_length _ _ hi (hrk 0 (by omega))
  unfold Spec.invCipherRK Spec.cipherRK
  simp only [Nat.add_sub_cancel]
  have e1 : (List.range' 1 m).foldl (fun s r => Spec.addRoundKey (Spec.mixColumns (Spec.shiftRows (Spec.subBytes s))) (rk r))
      (Spec.addRoundKey inp (rk 0)) = fwd ((List.range' 1 m).map rk) (Spec.addRoundKey inp (rk 0)) := by
    rw [fwd, List.foldl_map]
  have hrev : (List.range' 1 m).map (fun k => rk (m + 1 - k)) = ((List.range' 1 m).map rk).reverse := by
    rw [← List.map_reverse, range'_reverse, List.map_map]; rfl
  have e2 : ∀ t, (List.range' 1 m).foldl (fun s k =>
      Spec.invMixColumns (Spec.addRoundKey (Spec.invSubBytes (Spec.invShiftRows s)) (rk (m + 1 - k)))) t =
      bwd (((List.range' 1 m).map rk).reverse) t := by
    intro t; rw [bwd, ← hrev, List.foldl_map]
  rw [e1, addRK_cancel _ _ (shift_length _) (hrk _ (Nat.le_refl _)), e2]
  have hb := bwd_fwd (((List.range' 1 m).map rk).reverse) (Spec.addRoundKey inp (rk 0)) hs0
    (fun k hk => hks k (List.mem_reverse.mp hk))
  rw [List.reverse_reverse] at hb
  rw [hb, invShift_shift _ (by rw [sub_length]; exact hs0), invSub_sub, addRK_cancel _ _ hi (hrk 0 (by omega))]

/-- decrypt ∘ encrypt = id for the FIPS-197 functions under KeyExpansion -/
theorem invCipher_cipher (key block : Bytes) (hk : key.length = 16 ∨ key.length = 24 ∨ key.length = 32)
    (hb : block.length = 16) : Spec.invCipher key (Spec.cipher key block) = block := by
  obtain ⟨_, hlen, hw⟩ := expandLoop_spec key hk
  have hlen' : (Spec.keyExpansion key).length = 4 * (key.length / 4 + 6 + 1) := by rw [hlen, Nat.mul_comm]
  rw [Spec.invCipher, Spec.cipher]
  exact invCipherRK_cipherRK _ _ (by omega) (fun r hr => roundKey_length _ hw r (by rw [hlen']; omega)) block hb

theorem cipher_length (key block : Bytes) (hk : key.length = 16 ∨ key.length = 24 ∨ key.length = 32) :
    (Spec.cipher key block).length = 16 := by
  obtain ⟨_, hlen, hw⟩ := expandLoop_spec key hk
  have hlen' : (Spec.keyExpansion key).length = 4 * (key.length / 4 + 6 + 1) := by rw [hlen, Nat.mul_comm]
  rw [Spec.cipher, Spec.cipherRK]
  exact addRK_length _ _ (shift_length _) (roundKey_length _ hw _ (by rw [hlen']; omega))

/-- one object: `decrypt(encrypt(block)) = block` for every key size and block -/
theorem model_decrypt_encrypt (key block : Bytes) (hk : key.length = 16 ∨ key.length = 24 ∨ key.length = 32)
    (hb : block.length = 16) :
    (Model.init key >>= fun k => Model.encrypt k block >>= fun c => Model.decrypt k c) = .ok block := by
  obtain ⟨Kd, hinit, _⟩ := init_spec key hk
  have he := encrypt_spec key block hk hb
  have hd := decrypt_spec key (Spec.cipher key block) hk (cipher_length key block hk)
  rw [hinit] at he hd ⊢
  simp only [bind, Except.bind] at he hd ⊢
  rw [he]
  simp only
  rw [hd, invCipher_cipher key block hk hb]

end Tls.Crypto.Aes
