import TlsProofs.Crypto.GcmMul
import TlsProofs.Crypto.ModesTop
/-
  C09 — AES-GCM: GHASH, tag, seal / open = SP 800-38D (helper lemmas).
-/
set_option linter.unusedSimpArgs false
namespace Tls.Crypto.Gcm
open Tls Tls.Crypto Tls.Crypto.Modes

/-! ### bounds: everything stays a 128-bit block -/

theorem R_lt : Spec.R < 2 ^ 128 := by decide

theorem mulX_lt (v : Nat) (h : v < 2 ^ 128) : Spec.mulX v < 2 ^ 128 := by
  unfold Spec.mulX
  split
  · omega
  · exact Nat.xor_lt_two_pow (by omega) R_lt

theorem E_lt (X : Nat) : ∀ (n V : Nat), V < 2 ^ 128 → E X n V < 2 ^ 128 := by
  intro n
  induction n with
  | zero => intro V _; simp [E]
  | succ n ih =>
    intro V hV
    rw [E]
    apply Nat.xor_lt_two_pow
    · split <;> omega
    · exact ih _ (mulX_lt V hV)

theorem gfmul_lt (X H : Nat) (hH : H < 2 ^ 128) : Spec.gfmul X H < 2 ^ 128 := by
  rw [gfmul_eq_E]; exact E_lt X 128 H hH

theorem beDecode_lt16 (b : Bytes) (h : b.length = 16) : beDecode b < 2 ^ 128 := by
  have := beDecode_lt b
  rw [h] at this
  exact this

/-! ### `_update` = GHASH continued over the zero-padded data -/

def ghashFrom (H : Nat) (y : Nat) (blocks : List Bytes) : Nat :=
  blocks.foldl (fun Y X => Spec.gfmul (Y ^^^ beDecode X) H) y

theorem ghashFrom_lt (H : Nat) (hH : H < 2 ^ 128) : ∀ (blocks : List Bytes) (y : Nat), y < 2 ^ 128 →
    ghashFrom H y blocks < 2 ^ 128 := by
  intro blocks
  induction blocks with
  | nil => intro y hy; exact hy
  | cons b bs ih => intro y _; exact ih _ (gfmul_lt _ H hH)

theorem ghashFrom_append (H y : Nat) (a b : List Bytes) :
    ghashFrom H y (a ++ b) = ghashFrom H (ghashFrom H y a) b := by
  simp [ghashFrom, List.foldl_append]

/-- the model's multiplication on the table of `__init__`, as a total function on blocks -/
theorem mul_table (h y : Nat) (hy : y < 2 ^ 128) :
    Model.mul ((List.range 16).map (fun n => E n 4 h)) y = .ok (Spec.gfmul y h) := by
  obtain ⟨t, ht, hm⟩ := mul_eq_gfmul h y hy
  rw [productTable_spec] at ht
  cases ht
  exact hm

theorem update_blocks (h : Nat) (hH : h < 2 ^ 128) : ∀ (bl : List Bytes) (y : Nat), y < 2 ^ 128 →
    (∀ b ∈ bl, b.length = 16) →
    bl.foldlM (fun y b => Model.mul ((List.range 16).map (fun n => E n 4 h)) (y ^^^ beDecode b)) y =
      .ok (ghashFrom h y bl) := by
  intro bl
  induction bl with
  | nil => intro y _ _; rfl
  | cons b bs ih =>
    intro y hy hb
    have hb16 := beDecode_lt16 b (hb b List.mem_cons_self)
    rw [List.foldlM_cons, mul_table h _ (Nat.xor_lt_two_pow hy hb16)]
    simp only [bind, Except.bind]
    rw [ih _ (gfmul_lt _ h hH) (fun c hc => hb c (List.mem_cons_of_mem _ hc))]
    rfl

theorem take_full (data : Bytes) : (data.take (16 * (data.length / 16))).length = 16 * (data.length / 16) := by
  rw [List.length_take]; omega

theorem chunks_pad16' (pre rest : Bytes) (hp : pre.length % 16 = 0) (hr : rest.length < 16) :
    chunks 16 (Spec.pad16 (pre ++ rest)) =
      chunks 16 pre ++ (if rest.length ≠ 0 then [rest ++ zeros (16 - rest.length)] else []) := by
  have hm : (pre ++ rest).length % 16 = rest.length := by rw [List.length_append]; omega
  unfold Spec.pad16
  rw [hm, List.append_assoc, chunks_append 16 (by decide) _ _ hp]
  congr 1
  by_cases hz : rest.length = 0
  · have : rest = [] := List.eq_nil_of_length_eq_zero hz
    subst this
    simp [zeros, chunks_nil']
  · have hpad : (16 - rest.length) % 16 = 16 - rest.length := by omega
    have hlen16 : (rest ++ zeros (16 - rest.length)).length = 16 := by
      rw [List.length_append]; simp [zeros]; omega
    have hne : rest ++ zeros (16 - rest.length) ≠ [] := by
      intro e; rw [e] at hlen16; simp at hlen16
    rw [hpad, chunks_cons' 16 _ (by decide) hne, List.take_of_length_le (by omega),
      List.drop_of_length_le (by omega), chunks_nil', if_pos hz]

/-- the 16-byte blocks of the zero-padded data: the whole blocks, then the padded rest if any -/
theorem chunks_pad16 (data : Bytes) :
    chunks 16 (Spec.pad16 data) =
      (List.range (data.length / 16)).map (fun i => (data.drop (16*i)).take 16) ++
        (if data.length % 16 ≠ 0 then [data.drop (data.length - data.length % 16) ++ zeros (16 - data.length % 16)]
         else []) := by
  have hpre := take_full data
  have hmod : (data.take (16 * (data.length / 16))).length % 16 = 0 := by rw [hpre]; omega
  have hdl : 16 * (data.length / 16) = data.length - data.length % 16 := by omega
  have hl : (data.drop (16 * (data.length / 16))).length = data.length % 16 := by
    rw [List.length_drop]; omega
  have hsplit : data.take (16 * (data.length / 16)) ++ data.drop (16 * (data.length / 16)) = data :=
    List.take_append_drop _ _
  have h1 := chunks_pad16' (data.take (16 * (data.length / 16))) (data.drop (16 * (data.length / 16))) hmod
    (by rw [hl]; exact Nat.mod_lt _ (by decide))
  rw [hsplit, hl, ← slices_eq_chunks_dvd 16 (by decide) _ hmod, hpre,
    Nat.mul_div_cancel_left _ (by decide : 0 < 16), hdl] at h1
  rw [h1]
  congr 1
  apply List.map_congr_left
  intro i hi
  have hi' := List.mem_range.mp hi
  rw [List.drop_take, List.take_take, Nat.mul_comm i 16]
  congr 1
  omega

theorem update_spec (h : Nat) (hH : h < 2 ^ 128) (y : Nat) (hy : y < 2 ^ 128) (data : Bytes) :
    Model.update ((List.range 16).map (fun n => E n 4 h)) y data =
      .ok (ghashFrom h y (chunks 16 (Spec.pad16 data))) := by
  rw [chunks_pad16, ghashFrom_append]
  unfold Model.update
  have hfull : (List.range (data.length / 16)).foldlM (fun y i =>
        (do let y := y ^^^ beDecode ((data.drop (16*i)).take 16)
            Model.mul ((List.range 16).map (fun n => E n 4 h)) y : Except Err Nat)) y =
      .ok (ghashFrom h y ((List.range (data.length / 16)).map (fun i => (data.drop (16*i)).take 16))) := by
    rw [← update_blocks h hH _ y hy, List.foldlM_map]
    intro b hb
    obtain ⟨i, hi, rfl⟩ := List.mem_map.mp hb
    have := List.mem_range.mp hi
    rw [List.length_take, List.length_drop]; omega
  rw [hfull]
  simp only [bind, Except.bind]
  by_cases hz : data.length % 16 = 0
  · simp [hz, ghashFrom, pure, Except.pure]
  · have hlt := ghashFrom_lt h hH ((List.range (data.length / 16)).map (fun i => (data.drop (16*i)).take 16)) y hy
    have hbl : (data.drop (data.length - data.length % 16) ++ zeros (16 - data.length % 16)).length = 16 := by
      rw [List.length_append, List.length_drop]; simp [zeros]; omega
    simp only [hz, ne_eq, not_false_eq_true, if_true]
    rw [mul_table h _ (Nat.xor_lt_two_pow hlt (beDecode_lt16 _ hbl))]
    simp [ghashFrom]


/-! ### big-endian encoding and xor -/

theorem beDecode_append (a b : Bytes) : beDecode (a ++ b) = beDecode a * 256 ^ b.length + beDecode b := by
  induction a with
  | nil => simp [beDecode]
  | cons x xs ih =>
    rw [List.cons_append, beDecode_cons, beDecode_cons, ih, List.length_append, Nat.pow_add]
    rw [Nat.add_mul, Nat.mul_assoc, Nat.add_assoc]

theorem ofNat_xor8 (a b : Nat) : UInt8.ofNat (a ^^^ b) = UInt8.ofNat a ^^^ UInt8.ofNat b := by
  apply UInt8.toNat_inj.mp
  rw [UInt8.toNat_xor, UInt8.toNat_ofNat', UInt8.toNat_ofNat', UInt8.toNat_ofNat']
  exact Nat.xor_mod_two_pow (n := 8)

theorem beEncode_xor (n a b : Nat) : beEncode n (a ^^^ b) = xorBytes (beEncode n a) (beEncode n b) := by
  induction n with
  | zero => rfl
  | succ n ih =>
    simp only [beEncode, xorBytes, List.zipWith_cons_cons]
    rw [show List.zipWith (fun x1 x2 => x1 ^^^ x2) (beEncode n a) (beEncode n b) =
      xorBytes (beEncode n a) (beEncode n b) from rfl, ← ih]
    congr 1
    rw [show (256:Nat) ^ n = 2 ^ (8 * n) from by rw [Nat.pow_mul], Nat.xor_div_two_pow,
      show (256:Nat) = 2 ^ 8 from rfl, Nat.xor_mod_two_pow, ofNat_xor8]

/-- the length block: (len(ad) << 67) | (len(ct) << 3) is [len(A)]_64 ‖ [len(C)]_64 in bits -/
theorem lenBlock_eq (la lc : Nat) (ha : 8 * la < 2 ^ 64) (hc : 8 * lc < 2 ^ 64) :
    (la <<< (3 + 64)) ||| (lc <<< 3) = beDecode (beEncode 8 (8 * la) ++ beEncode 8 (8 * lc)) := by
  rw [beDecode_append, length_beEncode, beDecode_beEncode, beDecode_beEncode,
    show (256:Nat) ^ 8 = 2 ^ 64 from by decide, Nat.mod_eq_of_lt ha, Nat.mod_eq_of_lt hc]
  have h1 : lc <<< 3 < 2 ^ (3 + 64) := by rw [Nat.shiftLeft_eq]; omega
  rw [← Nat.shiftLeft_add_eq_or_of_lt h1, Nat.shiftLeft_eq, Nat.shiftLeft_eq]
  have : (2:Nat) ^ (3 + 64) = 8 * 2 ^ 64 := by decide
  rw [this]
  have e2 : (2:Nat) ^ 3 = 8 := rfl
  rw [e2]
  rw [Nat.mul_comm lc 8, ← Nat.mul_assoc, Nat.mul_comm la 8]

theorem pad16_length_mod (x : Bytes) : (Spec.pad16 x).length % 16 = 0 := by
  unfold Spec.pad16; rw [List.length_append]; simp [zeros]; omega

/-- `_auth` = the tag of SP 800-38D §7.1 steps 4–6 (GHASH over A, C zero-padded and the length
    block, masked with E(J0)) -/
theorem auth_spec (E : Bytes → Bytes) (hE : ∀ b, (E b).length = 16) (nonce c aad : Bytes)
    (ha : 8 * aad.length < 2 ^ 64) (hc : 8 * c.length < 2 ^ 64) :
    Model.auth ((List.range 16).map (fun n => Gcm.E n 4 (beDecode (E (zeros 16))))) c aad
        (E (Model.counterBlock nonce 1)) = .ok (Spec.tag E nonce aad c) := by
  have hH : beDecode (E (zeros 16)) < 2 ^ 128 := beDecode_lt16 _ (hE _)
  have h0 : (0:Nat) < 2 ^ 128 := by decide
  unfold Model.auth
  simp only [bind, Except.bind]
  rw [update_spec _ hH 0 h0 aad]
  simp only
  have h1 := ghashFrom_lt _ hH (chunks 16 (Spec.pad16 aad)) 0 h0
  rw [update_spec _ hH _ h1 c]
  simp only
  have h2 := ghashFrom_lt _ hH (chunks 16 (Spec.pad16 c)) _ h1
  have hlb : (beEncode 8 (8 * aad.length) ++ beEncode 8 (8 * c.length)).length = 16 := by
    simp [length_beEncode]
  rw [lenBlock_eq _ _ ha hc, mul_table _ _ (Nat.xor_lt_two_pow h2 (beDecode_lt16 _ hlb))]
  simp only [pure, Except.pure, Spec.tag, Model.counterBlock]
  congr 1
  rw [Nat.xor_comm, beEncode_xor]
  have : beEncode 16 (beDecode (E (nonce ++ [0, 0, 0, 1]))) = E (nonce ++ [0, 0, 0, 1]) := by
    have := beEncode_beDecode (E (nonce ++ [0, 0, 0, 1]))
    rw [hE] at this; exact this
  rw [this]
  congr 2
  -- the block list of the specification
  have hA := pad16_length_mod aad
  have hC := pad16_length_mod c
  rw [List.append_assoc, List.append_assoc, chunks_append 16 (by decide) _ _ hA,
    chunks_append 16 (by decide) _ _ hC]
  have hne : beEncode 8 (8 * aad.length) ++ beEncode 8 (8 * c.length) ≠ [] := by
    intro e; rw [e] at hlb; simp at hlb
  rw [chunks_cons' 16 _ (by decide) hne, List.take_of_length_le (by omega), List.drop_of_length_le (by omega),
    chunks_nil']
  unfold Spec.ghash
  rw [show List.foldl (fun Y X => Spec.gfmul (Y ^^^ beDecode X) (beDecode (E (zeros 16)))) 0 =
    ghashFrom (beDecode (E (zeros 16))) 0 from rfl, ghashFrom_append, ghashFrom_append]
  rfl

end Tls.Crypto.Gcm
