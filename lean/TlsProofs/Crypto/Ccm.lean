import TlsModel.Crypto.Ccm
import TlsProofs.Crypto.ModesTop
/-
  C09 — AES-CCM / CCM-8: `_cbcmac_calc`, `seal`, `open` = RFC 3610 (helper lemmas).
-/
set_option linter.unusedSimpArgs false
namespace Tls.Crypto.Ccm
open Tls Tls.Crypto Tls.Crypto.Modes

theorem pad_eq (x : Bytes) : Model.padWithZeroes x 16 = Spec.pad16 x := by
  unfold Model.padWithZeroes Spec.pad16
  by_cases h : x.length % 16 = 0
  · simp [h, zeros]
  · have : (16 - x.length % 16) % 16 = 16 - x.length % 16 := by omega
    simp [h, this]

theorem pad16_length_mod (x : Bytes) : (Spec.pad16 x).length % 16 = 0 := by
  unfold Spec.pad16; rw [List.length_append]; simp [zeros]; omega

theorem pad16_prefix (a x : Bytes) (ha : a.length % 16 = 0) : Spec.pad16 (a ++ x) = a ++ Spec.pad16 x := by
  unfold Spec.pad16
  have : (a ++ x).length % 16 = x.length % 16 := by rw [List.length_append]; omega
  rw [this, List.append_assoc]

theorem pad16_nil : Spec.pad16 [] = [] := by simp [Spec.pad16, zeros]

/-- the CBC-MAC recurrence is the last block of CBC encryption with a zero IV -/
theorem cbcMac_eq_last (E : Bytes → Bytes) : ∀ (bl : List Bytes) (iv : Bytes),
    bl.foldl (fun X B => E (xorBytes X B)) iv = lastOr iv (Modes.Spec.cbcEncBlocks E iv bl) := by
  intro bl
  induction bl with
  | nil => intro iv; rfl
  | cons p ps ih =>
    intro iv
    rw [List.foldl_cons, ih, Modes.Spec.cbcEncBlocks, lastOr_cons, xorBytes_comm' iv p]

theorem lastOr_of_ne (a b : Bytes) (xs : List Bytes) (h : xs ≠ []) : lastOr a xs = lastOr b xs := by
  cases hl : xs.getLast? with
  | none => simp [List.getLast?_eq_none_iff] at hl; exact absurd hl h
  | some y => simp [lastOr, hl]

theorem drop_last_block (bl : List Bytes) (iv : Bytes) (h : ∀ b ∈ bl, b.length = 16) (hne : bl ≠ []) :
    bl.flatten.drop (bl.flatten.length - 16) = lastOr iv bl := by
  induction bl with
  | nil => exact absurd rfl hne
  | cons x xs ih =>
    have hx : x.length = 16 := h x List.mem_cons_self
    by_cases hxs : xs = []
    · subst hxs; simp [lastOr, hx]
    · have hrest := ih (fun b hb => h b (List.mem_cons_of_mem _ hb)) hxs
      have hpos : 16 ≤ xs.flatten.length := by
        cases xs with
        | nil => exact absurd rfl hxs
        | cons y ys =>
          have := h y (List.mem_cons_of_mem _ List.mem_cons_self)
          simp only [List.flatten_cons, List.length_append]; omega
      rw [List.flatten_cons, List.length_append, hx, lastOr_cons,
        show 16 + xs.flatten.length - 16 = x.length + (xs.flatten.length - 16) from by omega,
        List.drop_append, lastOr_of_ne x iv xs hxs, ← hrest, List.drop_of_length_le (by omega),
        Nat.add_sub_cancel_left, List.nil_append]


theorem b0_length (M : Nat) (N a m : Bytes) (hn : N.length = 12) : (Spec.b0 M N a m).length = 16 := by
  simp [Spec.b0, hn, length_beEncode]

/-- the byte string fed to the CBC-MAC: B_0, the encoded and padded AAD, the padded message -/
theorem macData_eq (M : Nat) (N a m : Bytes) (hn : N.length = 12) :
    (if m ≠ [] then Model.padWithZeroes (Model.padWithZeroes (Spec.b0 M N a m ++ Spec.encodeAadLen a.length ++ a) 16 ++ m) 16
     else Model.padWithZeroes (Spec.b0 M N a m ++ Spec.encodeAadLen a.length ++ a) 16) =
      Spec.b0 M N a m ++ Spec.pad16 (Spec.encodeAadLen a.length ++ a) ++ Spec.pad16 m := by
  have hb := b0_length M N a m hn
  have hb0 : (Spec.b0 M N a m).length % 16 = 0 := by rw [hb]
  have h1 : Model.padWithZeroes (Spec.b0 M N a m ++ Spec.encodeAadLen a.length ++ a) 16 =
      Spec.b0 M N a m ++ Spec.pad16 (Spec.encodeAadLen a.length ++ a) := by
    rw [pad_eq, List.append_assoc, pad16_prefix _ _ hb0]
  have hl1 : (Spec.b0 M N a m ++ Spec.pad16 (Spec.encodeAadLen a.length ++ a)).length % 16 = 0 := by
    rw [List.length_append, hb]; have := pad16_length_mod (Spec.encodeAadLen a.length ++ a); omega
  rw [h1]
  by_cases hm : m = []
  · subst hm; simp [pad16_nil]
  · rw [if_pos hm, pad_eq, pad16_prefix _ _ hl1]

theorem cbcmacCalc_spec (E : Bytes → Bytes) (hE : ∀ b, (E b).length = 16) (tl : Nat) (htl : tl = 8 ∨ tl = 16)
    (N a m : Bytes) (hn : N.length = 12) :
    Model.cbcmacCalc E tl N a m = .ok (Spec.tagT E tl N a m) := by
  have hflags : 64 * (if a.length > 0 then 1 else 0) + 8 * ((tl - 2) / 2) + 1 * (15 - N.length - 1) < 256 := by
    rcases htl with rfl | rfl <;> split <;> simp [hn]
  have hb0 : [UInt8.ofNat (64 * (if a.length > 0 then 1 else 0) + 8 * ((tl - 2) / 2) + 1 * (15 - N.length - 1))] ++ N ++
      beEncode (15 - N.length) m.length = Spec.b0 tl N a m := by
    unfold Spec.b0
    congr 3
    by_cases h0 : a.length = 0
    · simp [h0]
    · have : a.length > 0 := Nat.pos_of_ne_zero h0
      simp [h0, this]
  have henc : (if a.length > 0 then
        if a.length < 2^16 - 2^8 then beEncode 2 a.length
        else if a.length < 2^32 then [0xFF, 0xFE] ++ beEncode 4 a.length
        else [0xFF, 0xFF] ++ beEncode 8 a.length
      else ([] : Bytes)) = Spec.encodeAadLen a.length := by
    unfold Spec.encodeAadLen
    by_cases h0 : a.length = 0
    · simp [h0]
    · have : a.length > 0 := Nat.pos_of_ne_zero h0
      simp [h0, this]
  unfold Model.cbcmacCalc
  simp only [Model.oneByte, hflags, if_true, bind, Except.bind, hb0, henc, macData_eq tl N a m hn]
  -- the CBC pass
  have hb := b0_length tl N a m hn
  have hlen : (Spec.b0 tl N a m ++ Spec.pad16 (Spec.encodeAadLen a.length ++ a) ++ Spec.pad16 m).length % 16 = 0 := by
    rw [List.length_append, List.length_append, hb]
    have := pad16_length_mod (Spec.encodeAadLen a.length ++ a)
    have := pad16_length_mod m
    omega
  have hE' : ∀ b : Bytes, b.length = 16 → (E b).length = 16 := fun b _ => hE b
  rw [cbcEncrypt_spec E hE' (zeros 16) _ (by simp [zeros]) hlen]
  simp only
  -- the last block
  have hchunks := length_of_mem_chunks 16 (by decide) _ hlen
  have hne : chunks 16 (Spec.b0 tl N a m ++ Spec.pad16 (Spec.encodeAadLen a.length ++ a) ++ Spec.pad16 m) ≠ [] := by
    intro e
    have := flatten_chunks 16 (by decide) (Spec.b0 tl N a m ++ Spec.pad16 (Spec.encodeAadLen a.length ++ a) ++ Spec.pad16 m)
    rw [e] at this
    have := congrArg List.length this
    simp only [List.flatten_nil, List.length_nil, List.length_append, hb] at this
    omega
  have hcl := encBlocks_length_n 16 E hE' _ (zeros 16) hchunks (by simp [zeros])
  have hcne : Modes.Spec.cbcEncBlocks E (zeros 16)
      (chunks 16 (Spec.b0 tl N a m ++ Spec.pad16 (Spec.encodeAadLen a.length ++ a) ++ Spec.pad16 m)) ≠ [] := by
    cases hc : chunks 16 (Spec.b0 tl N a m ++ Spec.pad16 (Spec.encodeAadLen a.length ++ a) ++ Spec.pad16 m) with
    | nil => exact absurd hc hne
    | cons x xs => simp [Modes.Spec.cbcEncBlocks]
  have hlast := drop_last_block _ (zeros 16) hcl hcne
  have hX : (lastOr (zeros 16) (Modes.Spec.cbcEncBlocks E (zeros 16)
      (chunks 16 (Spec.b0 tl N a m ++ Spec.pad16 (Spec.encodeAadLen a.length ++ a) ++ Spec.pad16 m)))).length = 16 := by
    rw [← cbcMac_eq_last]
    cases hc : chunks 16 (Spec.b0 tl N a m ++ Spec.pad16 (Spec.encodeAadLen a.length ++ a) ++ Spec.pad16 m) with
    | nil => exact absurd hc hne
    | cons x xs =>
      rw [← List.dropLast_concat_getLast (List.cons_ne_nil x xs), List.foldl_append]
      simp [hE]
  have hge : 16 ≤ (Modes.Spec.cbcEncrypt 16 E (zeros 16)
      (Spec.b0 tl N a m ++ Spec.pad16 (Spec.encodeAadLen a.length ++ a) ++ Spec.pad16 m)).length := by
    rw [spec_cbc_length 16 (by decide) E hE' _ _ (by simp [zeros]) hlen, List.length_append, List.length_append, hb]
    omega
  unfold Modes.Spec.cbcEncrypt at hge ⊢
  simp only [Spec.tagT, Spec.cbcMac, Spec.authBlocks, cbcMac_eq_last, pure, Except.pure]
  rcases htl with rfl | rfl
  · simp only [show ¬ (8 = 16) from by decide, if_false, hlast]
    congr 2
    omega
  · simp only [if_true, hlast]
    rw [List.take_of_length_le (Nat.le_of_eq hX)]

end Tls.Crypto.Ccm
