import TlsProofs.Crypto.Cbc
import TlsProofs.Crypto.Ctr
import TlsProofs.Crypto.Rc4
/-
  C09 — model-level statements for the modes (state carried between calls).
-/
set_option linter.unusedSimpArgs false
namespace Tls.Crypto.Modes
open Tls Tls.Crypto

theorem lastBlock_append (n : Nat) (hn : n ≠ 0) (iv a b : Bytes) (ha : a.length % n = 0) :
    Spec.lastBlock n iv (a ++ b) = Spec.lastBlock n (Spec.lastBlock n iv a) b := by
  simp only [Spec.lastBlock, chunks_append n hn a b ha, List.getLast?_append]
  cases (chunks n b).getLast? <;> simp

/-- Python_AES: encrypting `a` then `b` on one object (IV carried) = encrypting `a ++ b` -/
theorem cbc_stream (E : Bytes → Bytes) (hE : ∀ b, b.length = 16 → (E b).length = 16)
    (iv a b : Bytes) (hiv : iv.length = 16) (ha : a.length % 16 = 0) (hb : b.length % 16 = 0) :
    Model.cbcEncrypt E iv (a ++ b) =
      (Model.cbcEncrypt E iv a >>= fun r1 => Model.cbcEncrypt E r1.1 b >>= fun r2 =>
        pure (r2.1, r1.2 ++ r2.2)) := by
  have hab : (a ++ b).length % 16 = 0 := by rw [List.length_append]; omega
  have hla : (Spec.cbcEncrypt 16 E iv a).length % 16 = 0 := by
    rw [spec_cbc_length 16 (by decide) E hE iv a hiv ha]; exact ha
  have hiv1 := lastBlock_length 16 (by decide) iv _ hiv hla
  rw [cbcEncrypt_spec E hE iv (a ++ b) hiv hab, cbcEncrypt_spec E hE iv a hiv ha]
  simp only [bind, Except.bind]
  rw [cbcEncrypt_spec E hE _ b hiv1 hb]
  simp only [pure, Except.pure]
  rw [spec_cbc_stream 16 (by decide) E hE iv a b hiv ha, lastBlock_append 16 (by decide) _ _ _ hla]

/-- Python_AES: decrypt (same starting IV) of encrypt returns the plaintext -/
theorem cbc_decrypt_encrypt (E D : Bytes → Bytes) (hE : ∀ b, b.length = 16 → (E b).length = 16)
    (hD : ∀ b, b.length = 16 → (D b).length = 16) (hDE : ∀ b, b.length = 16 → D (E b) = b)
    (iv pt : Bytes) (hiv : iv.length = 16) (h : pt.length % 16 = 0) :
    (Model.cbcEncrypt E iv pt >>= fun r => Model.cbcDecrypt D iv r.2) =
      .ok (Spec.lastBlock 16 iv (Spec.cbcEncrypt 16 E iv pt), pt) := by
  have hl : (Spec.cbcEncrypt 16 E iv pt).length % 16 = 0 := by
    rw [spec_cbc_length 16 (by decide) E hE iv pt hiv h]; exact h
  rw [cbcEncrypt_spec E hE iv pt hiv h]
  simp only [bind, Except.bind]
  rw [cbcDecrypt_spec D hD iv _ hiv hl, spec_cbc_decrypt_encrypt 16 (by decide) E D hE hDE iv pt hiv h]

/-- Python_TripleDES.encrypt = CBC over E3∘D2∘E1 -/
theorem tdesEncrypt_spec (k : Model.Des3) (hk : Des3Len k) (iv data : Bytes) (hiv : iv.length = 8)
    (h : data.length % 8 = 0) :
    Model.tdesEncrypt k iv data =
      .ok (Spec.lastBlock 8 iv (Spec.cbcEncrypt 8 (tdeaE k) iv data), Spec.cbcEncrypt 8 (tdeaE k) iv data) := by
  have hE : ∀ b, b.length = 8 → (tdeaE k b).length = 8 :=
    fun b hb => hk.e3 _ (hk.d2 _ (hk.e1 _ hb))
  rw [Model.tdesEncrypt]
  by_cases hd : data = []
  · subst hd; simp [Spec.cbcEncrypt, Spec.lastBlock, chunks_nil', Spec.cbcEncBlocks]
  · have hne : data.isEmpty = false := by simp [hd]
    rw [hne]
    simp only [Bool.false_eq_true, if_false]
    rw [if_neg (by simp [h]), tdesEncLoop_spec k hk data.length data iv (Nat.le_refl _) h hiv]
    simp only [Spec.cbcEncrypt]
    rw [lastBlock_flatten 8 (by decide) iv _
      (encBlocks_length_n 8 _ hE _ iv (length_of_mem_chunks 8 (by decide) data h) hiv)]

theorem tdesDecrypt_spec (k : Model.Des3) (hk : Des3Len k) (iv data : Bytes) (hiv : iv.length = 8)
    (h : data.length % 8 = 0) :
    Model.tdesDecrypt k iv data =
      .ok (Spec.lastBlock 8 iv data, Spec.cbcDecrypt 8 (tdeaD k) iv data) := by
  rw [Model.tdesDecrypt]
  by_cases hd : data = []
  · subst hd; simp [Spec.cbcDecrypt, Spec.lastBlock, chunks_nil', Spec.cbcDecBlocks]
  · have hne : data.isEmpty = false := by simp [hd]
    rw [hne]
    simp only [Bool.false_eq_true, if_false]
    rw [if_neg (by simp [h]), tdesDecLoop_spec k hk data.length data iv (Nat.le_refl _) h hiv]
    rfl

/-- Python_AES_CTR: `a` then `b` on one object (counter carried) = `a ++ b`, for whole blocks in `a` -/
theorem ctr_stream (E : Bytes → Bytes) (hE : ∀ b, (E b).length = 16) (c : Model.Ctr) (a b : Bytes)
    (hlen : c.counter.length = 16) (hcb : c.counterBytes ≤ 16) (ha : a.length % 16 = 0)
    (hov : c.counterBytes = 0 ∨
      lowBits (8 * c.counterBytes) c.counter + divceil (a ++ b).length 16 < 2 ^ (8 * c.counterBytes) - 1) :
    Model.ctrEncrypt E c (a ++ b) =
      (Model.ctrEncrypt E c a >>= fun r1 => Model.ctrEncrypt E r1.1 b >>= fun r2 =>
        pure (r2.1, r1.2 ++ r2.2)) := by
  have hsplit : divceil (a ++ b).length 16 = divceil a.length 16 + divceil b.length 16 := by
    rw [List.length_append, divceil_add16 _ _ ha, divceil_of_dvd16 _ ha]
  have hova : c.counterBytes = 0 ∨
      lowBits (8 * c.counterBytes) c.counter + divceil a.length 16 < 2 ^ (8 * c.counterBytes) - 1 := by
    cases hov with
    | inl h => exact Or.inl h
    | inr h => right; omega
  rw [ctrEncrypt_spec E hE c (a ++ b) hlen hcb hov, ctrEncrypt_spec E hE c a hlen hcb hova]
  simp only [bind, Except.bind]
  have hlen1 : (Spec.iterate (Spec.incM (widthOf c.counterBytes)) (divceil a.length 16) c.counter).length = 16 := by
    cases hd : divceil a.length 16 with
    | zero => simpa [Spec.iterate] using hlen
    | succ k => exact iterate_length _ _ _
  -- low bits after the first call
  have hovb : c.counterBytes = 0 ∨
      lowBits (8 * c.counterBytes)
        (Spec.iterate (Spec.incM (widthOf c.counterBytes)) (divceil a.length 16) c.counter) +
        divceil b.length 16 < 2 ^ (8 * c.counterBytes) - 1 := by
    cases hov with
    | inl h => exact Or.inl h
    | inr h =>
      right
      have h0 : c.counterBytes ≠ 0 := by intro e; rw [e] at h; simp at h
      have hw : widthOf c.counterBytes = 8 * c.counterBytes := by simp [widthOf, h0]
      rw [hw, lowBits_iterate (8 * c.counterBytes) (by omega) _ c.counter hlen (by omega)]
      omega
  rw [ctrEncrypt_spec E hE
    { counter := Spec.iterate (Spec.incM (widthOf c.counterBytes)) (divceil a.length 16) c.counter,
      counterBytes := c.counterBytes } b hlen1 hcb hovb]
  simp only [pure, Except.pure]
  rw [spec_ctr_stream E _ hE c.counter a b ha, hsplit, iterate_add]
where
  iterate_length : ∀ (f : Nat) (k : Nat) (X : Bytes), (Spec.iterate (Spec.incM f) (k+1) X).length = 16 := by
    intro f k; induction k with
    | zero => intro X; exact incM_length _ _
    | succ k ih => intro X; rw [Spec.iterate]; exact ih _
  iterate_add : ∀ {α : Type} (f : α → α) (a b : Nat) (x : α),
      Spec.iterate f (a + b) x = Spec.iterate f b (Spec.iterate f a x) := by
    intro α f a; induction a with
    | zero => intro b x; simp [Spec.iterate]
    | succ a ih => intro b x; rw [show a + 1 + b = (a + b) + 1 from by omega, Spec.iterate, ih, Spec.iterate]
  lowBits_iterate : ∀ (m : Nat) (_ : m ≤ 128) (k : Nat) (X : Bytes), X.length = 16 →
      lowBits m X + k < 2 ^ m → lowBits m (Spec.iterate (Spec.incM m) k X) = lowBits m X + k := by
    intro m hm k; induction k with
    | zero => intro X _ _; rfl
    | succ k ih =>
      intro X hX h
      rw [Spec.iterate, ih _ (incM_length _ _) (by rw [lowBits_incM m hm X hX (by omega)]; omega),
        lowBits_incM m hm X hX (by omega)]
      omega

/-- the excluded region is real: when the next counter value would have an all-ones counter
    field, `_counter_update` raises OverflowError (one step before the standard's wrap) -/
theorem counterUpdate_raises (c : Model.Ctr) (_hlen : c.counter.length = 16) (hcb : c.counterBytes ≤ 16)
    (hpos : 0 < c.counterBytes)
    (h : lowBits (8 * c.counterBytes) c.counter + 1 = 2 ^ (8 * c.counterBytes) - 1) :
    Model.counterUpdate c = .error .overflow := by
  unfold Model.counterUpdate
  simp only
  rw [if_pos]
  refine ⟨hpos, ?_⟩
  rw [length_beEncode]
  have hsplit : 16 = (16 - c.counterBytes) + c.counterBytes := by omega
  have hd : (beEncode 16 (beDecode c.counter + 1)).drop (16 - c.counterBytes) =
      beEncode c.counterBytes (beDecode c.counter + 1) := by
    conv => lhs; rw [hsplit]
    rw [show 16 - c.counterBytes + c.counterBytes - c.counterBytes = 16 - c.counterBytes from by omega]
    exact beEncode_drop _ _ _
  rw [hd, ← beEncode_mod]
  have hr := beEncode_beDecode (List.replicate c.counterBytes (0xff : UInt8))
  rw [List.length_replicate, beDecode_replicate_ff] at hr
  rw [← hr]
  congr 1
  unfold lowBits at h
  rw [pow256]
  have hp : 2 ≤ 2 ^ (8 * c.counterBytes) := by
    have : 2 ^ 1 ≤ 2 ^ (8 * c.counterBytes) := Nat.pow_le_pow_right (by decide) (by omega)
    simpa using this
  rw [Nat.add_mod, Nat.mod_eq_of_lt (a := 1) (by omega), h, Nat.mod_eq_of_lt (by omega)]

/-- Python_RC4: `a` then `b` on one object ((S, i, j) carried) = `a ++ b` -/
theorem rc4_stream : ∀ (a b : Bytes) (m : Model.Rc4),
    Model.rc4Loop m (a ++ b) =
      ((Model.rc4Loop (Model.rc4Loop m a).1 b).1, (Model.rc4Loop m a).2 ++ (Model.rc4Loop (Model.rc4Loop m a).1 b).2) := by
  intro a
  induction a with
  | nil => intro b m; simp [Model.rc4Loop]
  | cons x xs ih => intro b m; simp only [List.cons_append, Model.rc4Loop, ih]

/-- Python_RC4: decrypting from the same state returns the plaintext -/
theorem rc4_decrypt_encrypt (m : Model.Rc4) (s : Spec.Rc4) (h : Rel m s) (pt : Bytes) :
    (Model.rc4Loop m (Model.rc4Loop m pt).2).2 = pt := by
  have h1 := (rc4Loop_spec pt m s h).2
  have h2 := (rc4Loop_spec (Model.rc4Loop m pt).2 m s h).2
  have hl : (Model.rc4Loop m pt).2.length = pt.length := by
    rw [h1, xorBytes_length, prga_length]; omega
  rw [h2, hl, h1, xorBytes_cancel]
  rw [prga_length]; exact Nat.le_refl _

end Tls.Crypto.Modes
