import TlsProofs.Crypto.AesRounds
/-
  C09 (growth) — `Rijndael.encrypt` with a given key schedule = FIPS-197 Cipher with the same round keys.
-/
set_option linter.unusedSimpArgs false
namespace Tls.Crypto.Aes
open Tls Tls.Crypto

/-- big-endian bytes of a 32-bit word -/
def be4 (w : Nat) : List UInt8 :=
  [UInt8.ofNat (w / 2 ^ 24), UInt8.ofNat (w / 2 ^ 16 % 256), UInt8.ofNat (w / 2 ^ 8 % 256), UInt8.ofNat (w % 256)]

/-- round key `r` as 16 bytes, from the list of key-schedule words (`Ke[r][c] = K[4r + c]`) -/
def rkBytes (K : List Nat) (r : Nat) : Spec.State :=
  be4 (K.getD (4*r) 0) ++ be4 (K.getD (4*r + 1) 0) ++ be4 (K.getD (4*r + 2) 0) ++ be4 (K.getD (4*r + 3) 0)

theorem wordB_be4 (w : Nat) (hw : w < 2 ^ 32) :
    w = wordB (UInt8.ofNat (w / 2 ^ 24)) (UInt8.ofNat (w / 2 ^ 16 % 256)) (UInt8.ofNat (w / 2 ^ 8 % 256))
      (UInt8.ofNat (w % 256)) := by
  have h1 : w / 2 ^ 24 < 256 := by omega
  simp only [wordB, UInt8.toNat_ofNat']
  rw [Nat.mod_eq_of_lt h1, Nat.mod_mod, Nat.mod_mod, Nat.mod_mod]
  exact word_bytes w hw

theorem idx_getD (K : List Nat) (i : Nat) (h : i < K.length) : idx K i = .ok (K.getD i 0) := by
  simp [idx, List.getElem?_eq_getElem h, List.getD_eq_getElem?_getD]

theorem idx_key (K : List Nat) (hK : ∀ w ∈ K, w < 2 ^ 32) (i : Nat) (h : i < K.length) :
    idx K i = .ok (wordB (UInt8.ofNat (K.getD i 0 / 2 ^ 24)) (UInt8.ofNat (K.getD i 0 / 2 ^ 16 % 256))
      (UInt8.ofNat (K.getD i 0 / 2 ^ 8 % 256)) (UInt8.ofNat (K.getD i 0 % 256))) := by
  rw [idx_getD K i h]
  congr 1
  apply wordB_be4
  apply hK
  rw [List.getD_eq_getElem?_getD, List.getElem?_eq_getElem h]
  exact List.getElem_mem h

theorem exists16 (s : List UInt8) (h : s.length = 16) :
    ∃ s0 s1 s2 s3 s4 s5 s6 s7 s8 s9 s10 s11 s12 s13 s14 s15,
      s = [s0, s1, s2, s3, s4, s5, s6, s7, s8, s9, s10, s11, s12, s13, s14, s15] := by
  rcases s with _ | ⟨b0, _ | ⟨b1, _ | ⟨b2, _ | ⟨b3, _ | ⟨b4, _ | ⟨b5, _ | ⟨b6, _ | ⟨b7, _ | ⟨b8, _ | ⟨b9,
    _ | ⟨b10, _ | ⟨b11, _ | ⟨b12, _ | ⟨b13, _ | ⟨b14, _ | ⟨b15, _ | ⟨b16, r⟩⟩⟩⟩⟩⟩⟩⟩⟩⟩⟩⟩⟩⟩⟩⟩⟩ <;>
    simp at h
  exact ⟨_, _, _, _, _, _, _, _, _, _, _, _, _, _, _, _, rfl⟩

/-- one table round on any 16-byte state -/
theorem roundStep_generic (K : List Nat) (hK : ∀ w ∈ K, w < 2 ^ 32) (r : Nat) (hr : 4 * r + 3 < K.length)
    (s : Spec.State) (hs : s.length = 16) :
    Model.roundStep Gen.T1 Gen.T2 Gen.T3 Gen.T4 K 1 2 3 (wordsOf s) r =
      .ok (wordsOf (Spec.addRoundKey (Spec.mixColumns (Spec.shiftRows (Spec.subBytes s))) (rkBytes K r))) := by
  obtain ⟨s0, s1, s2, s3, s4, s5, s6, s7, s8, s9, s10, s11, s12, s13, s14, s15, rfl⟩ := exists16 s hs
  exact roundStep_spec K r _ _ _ _ _ _ _ _ _ _ _ _ _ _ _ _ _ _ _ _ _ _ _ _ _ _ _ _ _ _ _ _
    (idx_key K hK (4*r + 0) (by omega)) (idx_key K hK (4*r + 1) (by omega)) (idx_key K hK (4*r + 2) (by omega))
    (idx_key K hK (4*r + 3) (by omega))

theorem round_length (s k : Spec.State) (hk : k.length = 16) :
    (Spec.addRoundKey (Spec.mixColumns (Spec.shiftRows (Spec.subBytes s))) k).length = 16 := by
  simp [Spec.addRoundKey, xorBytes, Spec.mixColumns, hk, List.range_succ]

theorem rkBytes_length (K : List Nat) (r : Nat) : (rkBytes K r).length = 16 := by simp [rkBytes, be4]

/-- all the table rounds -/
theorem rounds_fold (K : List Nat) (hK : ∀ w ∈ K, w < 2 ^ 32) : ∀ (n start : Nat) (s : Spec.State),
    s.length = 16 → 4 * (start + n) ≤ K.length →
    (List.range' start n).foldlM (Model.roundStep Gen.T1 Gen.T2 Gen.T3 Gen.T4 K 1 2 3) (wordsOf s) =
      .ok (wordsOf ((List.range' start n).foldl (fun s r =>
        Spec.addRoundKey (Spec.mixColumns (Spec.shiftRows (Spec.subBytes s))) (rkBytes K r)) s)) := by
  intro n
  induction n with
  | zero => intro start s _ _; simp [pure, Except.pure]
  | succ n ih =>
    intro start s hs hlen
    rw [List.range'_succ, List.foldlM_cons, roundStep_generic K hK start (by omega) s hs]
    simp only [bind, Except.bind, List.foldl_cons]
    exact ih (start + 1) _ (round_length _ _ (rkBytes_length K start)) (by omega)


theorem lastCol_ok (K : List Nat) (rounds i : Nat) (t : List Nat)
    (a a1 a2 a3 b b0 b2 b3 c c0 c1 c3 d d0 d1 d2 k0 k1 k2 k3 : UInt8)
    (h0 : idx t i = .ok (wordB a a1 a2 a3)) (h1 : idx t ((i + 1) % 4) = .ok (wordB b0 b b2 b3))
    (h2 : idx t ((i + 2) % 4) = .ok (wordB c0 c1 c c3)) (h3 : idx t ((i + 3) % 4) = .ok (wordB d0 d1 d2 d))
    (hk : idx K (4*rounds + i) = .ok (wordB k0 k1 k2 k3)) :
    ∃ l, Model.lastCol Gen.S K t 1 2 3 rounds i = .ok l ∧
      l.map UInt8.ofNat = [Spec.sbox a ^^^ k0, Spec.sbox b ^^^ k1, Spec.sbox c ^^^ k2, Spec.sbox d ^^^ k3] := by
  have := lastCol_spec K rounds i t a a1 a2 a3 b b0 b2 b3 c c0 c1 c3 d d0 d1 d2 k0 k1 k2 k3 h0 h1 h2 h3 hk
  cases h : Model.lastCol Gen.S K t 1 2 3 rounds i with
  | error e => rw [h] at this; simp [Except.map] at this
  | ok l => rw [h] at this; simp only [Except.map, Except.ok.injEq] at this; exact ⟨l, rfl, this⟩

theorem lastStep_generic (K : List Nat) (hK : ∀ w ∈ K, w < 2 ^ 32) (rounds : Nat) (hr : 4 * rounds + 3 < K.length)
    (s : Spec.State) (hs : s.length = 16) :
    ((List.range 4).mapM (Model.lastCol Gen.S K (wordsOf s) 1 2 3 rounds)).map (fun res => res.flatten.map UInt8.ofNat) =
      .ok (Spec.addRoundKey (Spec.shiftRows (Spec.subBytes s)) (rkBytes K rounds)) := by
  obtain ⟨s0, s1, s2, s3, s4, s5, s6, s7, s8, s9, s10, s11, s12, s13, s14, s15, rfl⟩ := exists16 s hs
  obtain ⟨l0, e0, m0⟩ := lastCol_ok K rounds 0 (wordsOf [s0, s1, s2, s3, s4, s5, s6, s7, s8, s9, s10, s11, s12, s13, s14, s15])
    s0 s1 s2 s3 s5 s4 s6 s7 s10 s8 s9 s11 s15 s12 s13 s14 _ _ _ _ rfl rfl rfl rfl (idx_key K hK (4*rounds + 0) (by omega))
  obtain ⟨l1, e1, m1⟩ := lastCol_ok K rounds 1 (wordsOf [s0, s1, s2, s3, s4, s5, s6, s7, s8, s9, s10, s11, s12, s13, s14, s15])
    s4 s5 s6 s7 s9 s8 s10 s11 s14 s12 s13 s15 s3 s0 s1 s2 _ _ _ _ rfl rfl rfl rfl (idx_key K hK (4*rounds + 1) (by omega))
  obtain ⟨l2, e2, m2⟩ := lastCol_ok K rounds 2 (wordsOf [s0, s1, s2, s3, s4, s5, s6, s7, s8, s9, s10, s11, s12, s13, s14, s15])
    s8 s9 s10 s11 s13 s12 s14 s15 s2 s0 s1 s3 s7 s4 s5 s6 _ _ _ _ rfl rfl rfl rfl (idx_key K hK (4*rounds + 2) (by omega))
  obtain ⟨l3, e3, m3⟩ := lastCol_ok K rounds 3 (wordsOf [s0, s1, s2, s3, s4, s5, s6, s7, s8, s9, s10, s11, s12, s13, s14, s15])
    s12 s13 s14 s15 s1 s0 s2 s3 s6 s4 s5 s7 s11 s8 s9 s10 _ _ _ _ rfl rfl rfl rfl (idx_key K hK (4*rounds + 3) (by omega))
  simp only [show List.range 4 = [0, 1, 2, 3] from rfl, List.mapM_cons, List.mapM_nil, e0, e1, e2, e3, bind, Except.bind,
    pure, Except.pure, Except.map, List.flatten_cons, List.flatten_nil, List.map_append, m0, m1, m2, m3, List.map_nil]
  simp [Spec.addRoundKey, Spec.shiftRows, Spec.subBytes, Spec.at_, xorBytes, rkBytes, be4, List.range_succ]

/-- `Rijndael.encrypt` on a key schedule `K` of 4·(rounds+1) 32-bit words is the FIPS-197 Cipher
    with round key r = the bytes of K[4r .. 4r+3], for every 16-byte block -/
theorem crypt_enc_spec (K : List Nat) (hK : ∀ w ∈ K, w < 2 ^ 32) (rounds : Nat) (hr : 1 ≤ rounds)
    (hlen : K.length = 4 * (rounds + 1)) (block : Bytes) (hb : block.length = 16) :
    Model.crypt K rounds Gen.T1 Gen.T2 Gen.T3 Gen.T4 Gen.S Gen.shiftsEnc block =
      .ok (Spec.cipherRK (rkBytes K) rounds block) := by
  obtain ⟨b0, b1, b2, b3, b4, b5, b6, b7, b8, b9, b10, b11, b12, b13, b14, b15, rfl⟩ := exists16 block hb
  have hsh : Gen.shiftsEnc = [1, 2, 3] := shifts_and_rounds.1
  rw [Model.crypt, if_neg (by simp), hsh]
  have hf := firstStep_spec K b0 b1 b2 b3 b4 b5 b6 b7 b8 b9 b10 b11 b12 b13 b14 b15 _ _ _ _ _ _ _ _ _ _ _ _ _ _ _ _
    (idx_key K hK 0 (by omega)) (idx_key K hK 1 (by omega)) (idx_key K hK 2 (by omega)) (idx_key K hK 3 (by omega))
  have hs0 : (Spec.addRoundKey [b0, b1, b2, b3, b4, b5, b6, b7, b8, b9, b10, b11, b12, b13, b14, b15] (rkBytes K 0)).length = 16 := by
    simp [Spec.addRoundKey, xorBytes, rkBytes, be4]
  have hfold := rounds_fold K hK (rounds - 1) 1 _ hs0 (by omega)
  have hfl : ((List.range' 1 (rounds - 1)).foldl (fun s r =>
      Spec.addRoundKey (Spec.mixColumns (Spec.shiftRows (Spec.subBytes s))) (rkBytes K r))
      (Spec.addRoundKey [b0, b1, b2, b3, b4, b5, b6, b7, b8, b9, b10, b11, b12, b13, b14, b15] (rkBytes K 0))).length = 16 := by
    generalize (List.range' 1 (rounds - 1)) = l
    generalize (Spec.addRoundKey [b0, b1, b2, b3, b4, b5, b6, b7, b8, b9, b10, b11, b12, b13, b14, b15] (rkBytes K 0)) = st at hs0
    induction l generalizing st with
    | nil => exact hs0
    | cons r rs ih => rw [List.foldl_cons]; exact ih _ (round_length _ _ (rkBytes_length K r))
  have hlast := lastStep_generic K hK rounds (by omega) _ hfl
  simp only [idx, List.getElem?_cons_zero, List.getElem?_cons_succ, bind, Except.bind]
  have hf' : Model.firstStep K [b0, b1, b2, b3, b4, b5, b6, b7, b8, b9, b10, b11, b12, b13, b14, b15] =
      .ok (wordsOf (Spec.addRoundKey [b0, b1, b2, b3, b4, b5, b6, b7, b8, b9, b10, b11, b12, b13, b14, b15] (rkBytes K 0))) := hf
  rw [hf']
  simp only [hfold]
  cases hm : (List.range 4).mapM (Model.lastCol Gen.S K (wordsOf ((List.range' 1 (rounds - 1)).foldl (fun s r =>
      Spec.addRoundKey (Spec.mixColumns (Spec.shiftRows (Spec.subBytes s))) (rkBytes K r))
      (Spec.addRoundKey [b0, b1, b2, b3, b4, b5, b6, b7, b8, b9, b10, b11, b12, b13, b14, b15] (rkBytes K 0)))) 1 2 3 rounds) with
  | error e => rw [hm] at hlast; simp [Except.map] at hlast
  | ok res =>
    rw [hm] at hlast
    simp only [Except.map, Except.ok.injEq] at hlast
    simp only [pure, Except.pure, hlast, Spec.cipherRK]

end Tls.Crypto.Aes
