import TlsModel.Crypto.Aes
/-
  C09 — the GENERATED tables of rijndael.py against FIPS-197, each over the whole table
  (`decide` in the kernel; re-checked whenever the source changes).
-/
namespace Tls.Crypto.Aes
open Tls Tls.Crypto

/-- a big-endian 32-bit word of four field elements -/
def word (a b c d : Nat) : Nat := (a <<< 24) ||| (b <<< 16) ||| (c <<< 8) ||| d

/-- `S` is the S-box of FIPS-197 §5.1.1: multiplicative inverse in GF(2^8), then the affine map -/
theorem S_table : Gen.S.toList = (List.range 256).map Spec.sboxN := by decide +kernel

/-- `Si` is the inverse permutation of `S` (§5.3.2), in both directions -/
theorem Si_table : Gen.S.toList.map (fun s => Gen.Si.toList.getD s 256) = List.range 256 ∧
    Gen.Si.toList.map (fun s => Gen.S.toList.getD s 256) = List.range 256 := by decide +kernel

/-- `Si` is InvSubBytes of FIPS-197 §5.3.2 computed directly: inverse affine map, then the inverse in GF(2^8) -/
theorem Si_spec_table : Gen.Si.toList = (List.range 256).map Spec.invSboxN := by decide +kernel

/-- T1..T4: S-box followed by the MixColumns column (02 01 01 03)ᵀ and its rotations (§5.1.3) -/
theorem T_tables :
    Gen.T1.toList = Gen.S.toList.map (fun s => word (Spec.gmulN 2 s) s s (Spec.gmulN 3 s)) ∧
    Gen.T2.toList = Gen.S.toList.map (fun s => word (Spec.gmulN 3 s) (Spec.gmulN 2 s) s s) ∧
    Gen.T3.toList = Gen.S.toList.map (fun s => word s (Spec.gmulN 3 s) (Spec.gmulN 2 s) s) ∧
    Gen.T4.toList = Gen.S.toList.map (fun s => word s s (Spec.gmulN 3 s) (Spec.gmulN 2 s)) := by
  decide +kernel

/-- T5..T8: inverse S-box followed by the InvMixColumns column (0e 09 0d 0b)ᵀ and its rotations (§5.3.3) -/
theorem Tinv_tables :
    Gen.T5.toList = Gen.Si.toList.map (fun s => word (Spec.gmulN 14 s) (Spec.gmulN 9 s) (Spec.gmulN 13 s) (Spec.gmulN 11 s)) ∧
    Gen.T6.toList = Gen.Si.toList.map (fun s => word (Spec.gmulN 11 s) (Spec.gmulN 14 s) (Spec.gmulN 9 s) (Spec.gmulN 13 s)) ∧
    Gen.T7.toList = Gen.Si.toList.map (fun s => word (Spec.gmulN 13 s) (Spec.gmulN 11 s) (Spec.gmulN 14 s) (Spec.gmulN 9 s)) ∧
    Gen.T8.toList = Gen.Si.toList.map (fun s => word (Spec.gmulN 9 s) (Spec.gmulN 13 s) (Spec.gmulN 11 s) (Spec.gmulN 14 s)) := by
  decide +kernel

/-- U1..U4: the InvMixColumns columns applied to a plain byte (used on the decryption round keys) -/
theorem U_tables :
    Gen.U1.toList = (List.range 256).map (fun x => word (Spec.gmulN 14 x) (Spec.gmulN 9 x) (Spec.gmulN 13 x) (Spec.gmulN 11 x)) ∧
    Gen.U2.toList = (List.range 256).map (fun x => word (Spec.gmulN 11 x) (Spec.gmulN 14 x) (Spec.gmulN 9 x) (Spec.gmulN 13 x)) ∧
    Gen.U3.toList = (List.range 256).map (fun x => word (Spec.gmulN 13 x) (Spec.gmulN 11 x) (Spec.gmulN 14 x) (Spec.gmulN 9 x)) ∧
    Gen.U4.toList = (List.range 256).map (fun x => word (Spec.gmulN 9 x) (Spec.gmulN 13 x) (Spec.gmulN 11 x) (Spec.gmulN 14 x)) := by
  decide +kernel

/-- rcon[i] = x^i in GF(2^8) (§5.2) for the entries the key schedules reach (10 for AES-128) -/
theorem rcon_table : (Gen.rcon.toList.take 14) = (List.range 14).map (fun i => (List.range i).foldl (fun r _ => Spec.xtimeN r) 1) := by
  decide +kernel

theorem shifts_and_rounds : Gen.shiftsEnc = [1, 2, 3] ∧ Gen.shiftsDec = [3, 2, 1] ∧
    Gen.numRounds = [(16, 10), (24, 12), (32, 14)] := by decide

end Tls.Crypto.Aes
